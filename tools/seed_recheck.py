#!/usr/bin/env python3
"""Re-runs every filed seeded change (seeded/<name>/patch.diff) against its property's
check (and any extra checks listed in seeded/<name>/meta.json "also_run") on a scratch
copy, and updates caught_by / missed_by in meta.json.
usage: seed_recheck.py [name-prefix ...]   (env TIER=quick|thorough, JOBS=n)"""
import concurrent.futures, glob, json, os, subprocess, sys

V = os.path.dirname(os.path.dirname(os.path.abspath(__file__)))
tier = os.environ.get("TIER", "quick")
names = sorted(os.path.basename(d) for d in glob.glob(os.path.join(V, "seeded", "*")) if os.path.isdir(d))
if len(sys.argv) > 1:
    names = [n for n in names if any(n.startswith(p) for p in sys.argv[1:])]


def one(name):
    d = os.path.join(V, "seeded", name)
    meta = json.load(open(os.path.join(d, "meta.json")))
    if meta.get("out_of_scope"):  # judged outside the property's statement (see its note); not re-run
        return name, [], ["outside the statement"]
    if meta.get("neutralised_by"):  # a later fix: commit made this change behaviour-neutral; see its note
        return name, meta.get("caught_by", []), ["neutralised by " + meta["neutralised_by"]]
    checks = [meta["property"]] + [c for c in meta.get("also_run", []) if c != meta["property"]]
    caught, missed = [], []
    for c in checks:
        p = subprocess.run("TIER=%s TAIL=3 %s/tools/mutant.sh %s/patch.diff %s" % (meta.get("recheck_tier", tier), V, d, c), shell=True, stdout=subprocess.PIPE, stderr=subprocess.STDOUT, text=True)
        (caught if p.returncode == 1 else missed).append("%s(rc=%d%s)" % (c, p.returncode, ",thorough" if meta.get("recheck_tier") == "thorough" else ""))
    first = meta.get("first_outcome")
    if first is None:
        meta["first_outcome"] = {"caught_by": meta.get("caught_by", []), "missed_by": meta.get("missed_by", [])}
    meta["caught_by"], meta["missed_by"] = caught, missed
    meta["rechecked_at_repo_commit"] = subprocess.run("git -C /repo rev-parse --short HEAD", shell=True, stdout=subprocess.PIPE, text=True).stdout.strip()
    meta["rechecked_at_verif_commit"] = subprocess.run("git -C %s rev-parse --short HEAD" % V, shell=True, stdout=subprocess.PIPE, text=True).stdout.strip()
    json.dump(meta, open(os.path.join(d, "meta.json"), "w"), indent=1, ensure_ascii=False)
    return name, caught, missed


with concurrent.futures.ThreadPoolExecutor(max_workers=int(os.environ.get("JOBS", "3"))) as ex:
    for name, caught, missed in ex.map(one, names):
        print("%-12s caught=%s missed=%s" % (name, ",".join(caught) or "-", ",".join(missed) or "-"), flush=True)
