#!/bin/bash
# usage: tools/silence_sweep.sh "<seeds>" [tier] [jobs]  — every check on the unchanged tree at each seed.
# NOTE: evidence files are rewritten by these runs (the last seed wins).
cd "$(dirname "$0")/.."
seeds=${1:-"1 2 3 4 5"}; tier=${2:-quick}; jobs=${3:-3}
ids=$(ls checks | grep '^c[0-9]' | tr a-z A-Z)
for s in $seeds; do
  echo "$ids" | tr ' ' '\n' | xargs -P $jobs -I{} bash -c 'out=$(VERIF_SEED='$s' ./vcheck {} '$tier' 2>&1); rc=$?; echo "seed='$s' {} rc=$rc $(echo "$out" | tail -1)"; [ $rc -ne 0 ] && echo "$out" | grep -E "VIOLATION|INCONCLUSIVE|signature" | head -5'
done
