#!/usr/bin/env python3
"""Regenerates the generated tables of DESIGN.md (between BEGIN/END markers) from
KNOWN_FINDINGS.jsonl and seeded/*/meta.json."""
import glob, json, os, re
V = os.path.dirname(os.path.dirname(os.path.abspath(__file__)))
ents = [json.loads(l) for l in open(os.path.join(V, "KNOWN_FINDINGS.jsonl")) if l.strip()]
rows = ["| property | status | commit | signature | what failed |", "|---|---|---|---|---|"]
for e in sorted(ents, key=lambda e: (e["property"], e["status"] != "known")):
    what = re.sub(r"^fixed: property=\S+ \S+ ", "", e["what"])
    rows.append("| %s | %s | %s | `%s` | %s |" % (e["property"], e["status"], e.get("commit", "-"), e["signature"].replace("|", "\\|"), what.replace("|", "\\|")))
findings = "\n".join(rows)
rows = ["| seeded change | property | what it changes / what it needs | caught by (quick tier) | notes |", "|---|---|---|---|---|"]
for d in sorted(glob.glob(os.path.join(V, "seeded", "*"))):
    mp = os.path.join(d, "meta.json")
    if not os.path.exists(mp):
        continue
    m = json.load(open(mp))
    caught = ", ".join(m.get("caught_by", [])) or ("not judged: " if m.get("out_of_scope") else "**missed** by ") + ", ".join(m.get("missed_by", []))
    desc = (m.get("title") or "")[:140] + " — needs: " + (m.get("needs") or "")[:200]
    rows.append("| %s | %s | %s | %s | %s |" % (os.path.basename(d), m.get("property"), desc.replace("|", "\\|").replace("\n", " "), caught, (m.get("strengthened") or m.get("note") or "").replace("|", "\\|")))
seeded = "\n".join(rows)
rows = ["| id | level | packages driven (quick tier) | monitors: cases / distinct | total cases / distinct / wall |", "|---|---|---|---|---|"]
for ev in sorted(glob.glob(os.path.join(V, "evidence", "C*.json"))):
    e = json.load(open(ev))
    cov = e.get("coverage", {})
    pkgs = sorted({r["pkg"].replace("internal/", "") for r in cov.get("go_test_runs", [])})
    mons = ", ".join("%s %s/%s" % (k, v.get("evaluations"), v.get("distinct_nontrivial")) for k, v in sorted(cov.get("monitors", {}).items()))
    rows.append("| %s | %s | %s | %s | %s / %s / %.0f s (%s tier, seed %s) |" % (e["property_id"], e.get("level"), ", ".join(pkgs), mons, cov.get("evaluations"), cov.get("distinct_nontrivial"), e.get("wall_s", 0), e.get("tier"), e.get("seed")))
asbuilt = "\n".join(rows)
p = os.path.join(V, "DESIGN.md")
s = open(p).read()
for name, body in (("findings", findings), ("seeded", seeded), ("asbuilt", asbuilt)):
    b, e = "<!-- BEGIN:%s -->" % name, "<!-- END:%s -->" % name
    if b in s:
        s = s[:s.index(b) + len(b)] + "\n" + body + "\n" + s[s.index(e):]
open(p, "w").write(s)
print("tables regenerated: %d findings, %d seeded" % (len(ents), len(glob.glob(os.path.join(V, "seeded", "*")))))
