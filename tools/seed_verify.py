#!/usr/bin/env python3
"""Verify a seeded breaking change and (if confirmed) file it under /verif/seeded/<name>/.

usage: seed_verify.py <PID> <candidate_dir> <name> [--checks C01,C05] [--tier quick]

candidate_dir holds patch.diff, meta.json, DEMO.txt and the demonstration test file(s).
Steps (all on a scratch worktree outside /repo and /verif, removed afterwards):
  1. patch applies to /repo HEAD, `go build ./...` ok, existing tests of the touched packages pass;
  2. the demonstration fails with the patch and passes without it;
  3. the registered check(s) are run against the patched tree (tools/mutant.sh);
the outcome is written to /verif/seeded/<name>/meta.json (caught_by / missed_by).
"""
import json, os, re, shutil, subprocess, sys, tempfile

V = os.path.dirname(os.path.dirname(os.path.abspath(__file__)))
ENV = dict(os.environ, GOFLAGS="-mod=mod", GOPROXY="off")


def sh(cmd, cwd=None, timeout=1800):
    p = subprocess.run(cmd, shell=True, cwd=cwd, env=ENV, stdout=subprocess.PIPE, stderr=subprocess.STDOUT, text=True, timeout=timeout)
    return p.returncode, p.stdout


def main():
    pid, cand, name = sys.argv[1], os.path.abspath(sys.argv[2]), sys.argv[3]
    checks = [pid]
    tier = "quick"
    for i, a in enumerate(sys.argv):
        if a == "--checks":
            checks = sys.argv[i + 1].split(",")
        if a == "--tier":
            tier = sys.argv[i + 1]
    meta = json.load(open(os.path.join(cand, "meta.json")))
    patch = os.path.join(cand, "patch.diff")
    wt = tempfile.mkdtemp(prefix="vseed.", dir="/tmp")
    os.rmdir(wt)
    rc, out = sh("git -C /repo worktree add -q --detach %s HEAD" % wt)
    report = {"name": name, "property": pid, "steps": {}}
    try:
        rc, out = sh("git apply --check %s && git apply %s" % (patch, patch), cwd=wt)
        report["steps"]["apply"] = rc == 0
        if rc != 0:
            report["error"] = "patch does not apply to /repo HEAD: " + out[-500:]
            return report
        rc, out = sh("go build ./...", cwd=wt)
        report["steps"]["build"] = rc == 0
        if rc != 0:
            report["error"] = "build failed: " + out[-800:]
            return report
        changed = [l for l in subprocess.run("git diff --name-only", shell=True, cwd=wt, stdout=subprocess.PIPE, text=True).stdout.split() if l.endswith(".go")]
        pkgs = sorted({"./" + os.path.dirname(f) for f in changed})
        extra = [p for p in meta.get("packages_tested", []) if p.startswith("./")]
        pkgs = sorted(set(pkgs) | set(extra))
        slow = [p for p in pkgs if p.rstrip("/").endswith("internal/cloud/repos")]
        flags = "-short" if slow else ""
        rc, out = sh("go test -vet=off -count=1 %s -timeout 20m %s" % (flags, " ".join(pkgs)), cwd=wt, timeout=1500)
        fails = re.findall(r"^--- FAIL: (\S+)", out, re.M)
        base_fail = {"TestBuiltInCloudControl_AuthenticationWithJWT", "TestPortMappingRepository_LargeScale", "TestManager_ContextCancellation"}
        fails = [f for f in fails if f.split("/")[0] not in base_fail]
        report["steps"]["existing_tests_pass"] = not fails and "[build failed]" not in out
        report["existing_tests_pkgs"] = pkgs
        if fails or "[build failed]" in out:
            report["error"] = "existing tests fail with the patch: %s\n%s" % (fails, out[-1500:])
            return report
        # demo
        demo_files = [f for f in os.listdir(cand) if f.endswith("_test.go")]
        demo_cmd = meta.get("demo_cmd", "")
        demo_txt = open(os.path.join(cand, "DEMO.txt")).read() if os.path.exists(os.path.join(cand, "DEMO.txt")) else ""
        placed = []
        for f in demo_files:
            # destination: look for "<path>/<f>" in DEMO.txt / meta
            m = re.search(r"((?:internal|cmd)/[\w/.-]*?)/?%s" % re.escape(f), demo_txt + " " + json.dumps(meta))
            dest_dir = m.group(1) if m else None
            if not dest_dir:
                pk = open(os.path.join(cand, f)).read()
                m2 = re.search(r"^package (\w+)", pk, re.M)
                cands = [p for p in pkgs if os.path.basename(p.rstrip("/")) == (m2.group(1).replace("_test", "") if m2 else "")]
                dest_dir = cands[0][2:] if cands else None
            if not dest_dir:
                report["error"] = "cannot determine where to place " + f
                return report
            shutil.copy(os.path.join(cand, f), os.path.join(wt, dest_dir, f))
            placed.append(os.path.join(dest_dir, f))
        demo_cmd = re.sub(r"cd\s+\S+\s*&&\s*", "", demo_cmd)
        demo_cmd = re.sub(r"export [^;&]+(&&|;)\s*", "", demo_cmd)
        demo_cmd = re.sub(r"cp\s+\S+\s+\S+\s*(&&|;)\s*", "", demo_cmd)
        if "-vet=off" not in demo_cmd:
            demo_cmd = demo_cmd.replace("go test", "go test -vet=off", 1)
        rc1, out1 = sh(demo_cmd, cwd=wt, timeout=900)
        report["steps"]["demo_fails_with_patch"] = rc1 != 0 and "[build failed]" not in out1
        sh("git apply -R %s" % patch, cwd=wt)
        rc2, out2 = sh(demo_cmd, cwd=wt, timeout=900)
        report["steps"]["demo_passes_without_patch"] = rc2 == 0
        report["demo_cmd"] = demo_cmd
        report["demo_placed"] = placed
        if not (report["steps"]["demo_fails_with_patch"] and report["steps"]["demo_passes_without_patch"]):
            report["error"] = "demo: with patch rc=%d, without rc=%d\n--with--\n%s\n--without--\n%s" % (rc1, rc2, out1[-1200:], out2[-1200:])
            return report
    finally:
        sh("git -C /repo worktree remove --force %s" % wt)
        shutil.rmtree(wt, ignore_errors=True)
    # my checks
    caught, missed, outputs = [], [], {}
    for c in checks:
        p = subprocess.run("TIER=%s TAIL=4 %s/tools/mutant.sh %s %s" % (tier, V, patch, c), shell=True, stdout=subprocess.PIPE, stderr=subprocess.STDOUT, text=True)
        outputs[c] = p.stdout[-700:]
        (caught if p.returncode == 1 else missed).append("%s(rc=%d)" % (c, p.returncode))
    report["caught_by"] = caught
    report["missed_by"] = missed
    report["check_output"] = outputs
    # file it
    dst = os.path.join(V, "seeded", name)
    os.makedirs(dst, exist_ok=True)
    for f in os.listdir(cand):
        if os.path.isfile(os.path.join(cand, f)):
            shutil.copy(os.path.join(cand, f), os.path.join(dst, f))
    meta.update({"verified": report["steps"], "existing_tests_pkgs": report.get("existing_tests_pkgs"), "demo_cmd_used": report.get("demo_cmd"),
                 "demo_placed": report.get("demo_placed"), "checks_run": checks, "tier": tier, "caught_by": caught, "missed_by": missed,
                 "repo_commit": subprocess.run("git -C /repo rev-parse --short HEAD", shell=True, stdout=subprocess.PIPE, text=True).stdout.strip()})
    json.dump(meta, open(os.path.join(dst, "meta.json"), "w"), indent=1, ensure_ascii=False)
    return report


if __name__ == "__main__":
    r = main()
    print(json.dumps({k: v for k, v in r.items() if k != "check_output"}, indent=1)[:3000])
    for c, o in (r.get("check_output") or {}).items():
        print("----", c, "\n", o)
