#!/bin/bash
# usage: tools/mutant.sh <patch.diff> <ID> [<ID>...]   (env TIER=quick|thorough, REVERSE=1 to apply -R)
# Applies the patch to a scratch copy of /repo (outside /repo and /verif), runs the given
# checks against it, removes the copy. Exit status = worst vcheck status.
set -u
patch=$(readlink -f "$1"); shift
d=$(mktemp -d /tmp/vmut.XXXXXX)
rsync -a --exclude .git --exclude '*.aar' --exclude '*.jar' --exclude tunnox-core-linux --exclude next-docs --exclude docs /repo/ "$d/"
if [ "${REVERSE:-0}" = 1 ]; then R=-R; else R=; fi
if ! (cd "$d" && patch $R -p1 -s < "$patch"); then echo "patch failed"; rm -rf "$d"; exit 2; fi
worst=0
for id in "$@"; do
  REPO="$d" "$(dirname "$0")/../vcheck" "$id" "${TIER:-quick}" | tail -${TAIL:-6}
  rc=${PIPESTATUS[0]}; [ $rc -gt $worst ] && worst=$rc
done
rm -rf "$d"
exit $worst
