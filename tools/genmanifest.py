#!/usr/bin/env python3
"""Regenerates /verif/MANIFEST.json from checks/checks.json + checks/manifest_meta.json.
Properties without a check are listed under not_applicable with the reason given in
manifest_meta.json (or 'check not built yet')."""
import json
import os
import subprocess

V = os.path.dirname(os.path.dirname(os.path.abspath(__file__)))
import glob
checks = {os.path.basename(os.path.dirname(p)).upper(): json.load(open(p)) for p in glob.glob(os.path.join(V, "checks", "c*", "check.json"))}
meta = json.load(open(os.path.join(V, "checks", "manifest_meta.json")))
ready = set(open(os.path.join(V, "checks", "ready.txt")).read().split())
checks = {k: v for k, v in checks.items() if k in ready}
props = [json.loads(l) for l in open(os.path.join(V, "properties.jsonl")) if l.strip()]

baseline = json.load(open("/root/.vp/BASELINE.json"))["cmd"] if os.path.exists("/root/.vp/BASELINE.json") else meta["baseline_off_cmd"]

m = {
    "version": 1,
    "setup_cmd": "./vcheck setup",
    "hooks": {
        "guard": "verif",
        "enable": "go test -tags 'verif verif_cNN' -modfile=/verif/build/go.mod -overlay=/verif/build/overlay.json from /repo: harness files and package internal/verifkit are overlaid from /verif (nothing written under /repo); hook points in /repo are compiled only with -tags verif",
        "baseline_off_cmd": baseline,
        "source_commits": meta.get("hook_commits", []),
        "add_only": True,
    },
    "engines": [{
        "name": "vcheck+verifkit",
        "path": "/verif/vcheck",
        "serves_properties": sorted(checks.keys()),
        "kind_free_text": "runtime monitoring: generated hostile workloads against the real code, controlled schedules at gated test doubles, reference-model / trace / linearizability (porcupine) oracles over recorded histories, Go race detector and runtime fatal errors as sanitizers",
    }],
    "checks": [],
    "not_applicable": [],
    "notes": meta.get("notes", ""),
}
for p in props:
    pid = p["id"]
    if pid in checks:
        pm = checks[pid].get("manifest", meta["properties"].get(pid, {}))
        m["checks"].append({
            "property_id": pid,
            "quick_cmd": "./vcheck %s quick" % pid,
            "thorough_cmd": "./vcheck %s thorough" % pid,
            "evidence_file": "/verif/evidence/%s.json" % pid,
            "replay_cmd_template": "./vcheck replay %s {path}" % pid,
            "engine": "vcheck+verifkit",
            "level_claimed": {
                "category": checks[pid].get("level", "exploration"),
                "text": pm.get("text", "held on the executions observed; see evidence for counts"),
                "design_ref": pm.get("design_ref", "DESIGN.md §3 " + pid),
            },
            "level_note": pm.get("note", "; ".join(checks[pid].get("assumptions", [])) or "real code under generated workloads; doubles for transports/backends as listed in DESIGN.md §6"),
            "technique": pm.get("technique", "runtime monitoring"),
        })
    else:
        m["not_applicable"].append({"property_id": pid, "reason": meta.get("not_applicable", {}).get(pid, "check not built yet (work in progress); nothing is claimed for this property")})
json.dump(m, open(os.path.join(V, "MANIFEST.json"), "w"), indent=1, ensure_ascii=False)
print("checks:", len(m["checks"]), "not_applicable:", len(m["not_applicable"]))
try:
    import jsonschema
    jsonschema.validate(m, json.load(open("/root/.vp/MANIFEST.schema.json")))
    print("manifest validates")
except ImportError:
    r = subprocess.run(["python3-vt", "-c", "import json,jsonschema;jsonschema.validate(json.load(open('%s/MANIFEST.json')),json.load(open('/root/.vp/MANIFEST.schema.json')));print('manifest validates')" % V])
