#!/bin/bash
# For every "fixed" entry of KNOWN_FINDINGS.jsonl: revert that commit on a scratch copy and
# confirm the property's quick check reports a VIOLATION (exit 1). Prints a table.
cd "$(dirname "$0")/.."
python3 - <<'PY' > /tmp/vfix.list
import json
seen=set()
for l in open('KNOWN_FINDINGS.jsonl'):
    l=l.strip()
    if not l: continue
    e=json.loads(l)
    if e.get('status')=='fixed' and (e['commit'],e['property']) not in seen:
        seen.add((e['commit'],e['property'])); print(e['commit'],e['property'])
PY
while read c p; do
  [ -n "${ONLY:-}" ] && [ "$p" != "$ONLY" ] && continue
  git -C /repo show "$c" > /tmp/vfix.$c.diff
  out=$(REVERSE=1 TAIL=3 tools/mutant.sh /tmp/vfix.$c.diff "$p" 2>&1); rc=$?
  echo "revert $c ($p): exit=$rc $(echo "$out" | tail -1)"
  rm -f /tmp/vfix.$c.diff
done < /tmp/vfix.list
rm -f /tmp/vfix.list
