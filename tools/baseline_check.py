#!/usr/bin/env python3
"""Runs the repository's baseline suite (guard off) and compares the set of passing
tests with /root/.vp/BASELINE.json stable_pass. usage: baseline_check.py [out.json] [pkgs...]"""
import json, os, subprocess, sys
out = sys.argv[1] if len(sys.argv) > 1 else "/tmp/baseline/run.json"
pkgs = sys.argv[2:] or ["./..."]
os.makedirs(os.path.dirname(out), exist_ok=True)
env = dict(os.environ, GOFLAGS="-mod=mod", GOPROXY="off")
with open(out, "w") as f:
    subprocess.run(["go", "test", "-json", "-vet=off", "-count=1", "-timeout", "25m"] + pkgs, cwd="/repo", env=env, stdout=f, stderr=subprocess.STDOUT)
passed, failed = set(), set()
for line in open(out, errors="replace"):
    try:
        e = json.loads(line)
    except ValueError:
        continue
    if e.get("Test") and e.get("Action") in ("pass", "fail"):
        (passed if e["Action"] == "pass" else failed).add("%s::%s" % (e["Package"], e["Test"]))
b = json.load(open("/root/.vp/BASELINE.json"))
stable = set(b["stable_pass"])
if pkgs != ["./..."]:
    pref = tuple("tunnox-core/" + p.strip("./").rstrip("/.") for p in pkgs)
    stable = {s for s in stable if s.split("::")[0].startswith(pref)}
missing = sorted(stable - passed)
print("passed=%d failed=%d stable=%d stable_missing=%d" % (len(passed), len(failed), len(stable), len(missing)))
for m in missing[:40]:
    print("  MISSING", m, "(failed)" if m in failed else "(not run)")
newfail = sorted(failed - set(b.get("always_fail", [])) - set(b.get("flaky", [])))
for m in newfail[:40]:
    print("  FAIL", m)
sys.exit(1 if missing else 0)
