//go:build verif

package verifkit

import (
	"runtime"
	"sort"
	"strings"
	"time"
)

// Goroutine is one parsed entry of a full goroutine dump.
type Goroutine struct {
	ID    string
	State string
	Stack string
	Top   string // first function frame
}

// Goroutines parses runtime.Stack(all).
func Goroutines() []Goroutine {
	buf := make([]byte, 1<<20)
	for {
		n := runtime.Stack(buf, true)
		if n < len(buf) {
			buf = buf[:n]
			break
		}
		buf = make([]byte, 2*len(buf))
	}
	var out []Goroutine
	for _, blk := range strings.Split(string(buf), "\n\n") {
		blk = strings.TrimSpace(blk)
		if !strings.HasPrefix(blk, "goroutine ") {
			continue
		}
		lines := strings.SplitN(blk, "\n", 3)
		hdr := lines[0]
		f := strings.Fields(hdr)
		g := Goroutine{Stack: blk}
		if len(f) >= 2 {
			g.ID = f[1]
		}
		if i := strings.Index(hdr, "["); i >= 0 {
			g.State = strings.TrimSuffix(hdr[i+1:], "]:")
		}
		if len(lines) > 1 {
			g.Top = lines[1]
		}
		out = append(out, g)
	}
	return out
}

// LeakSnapshot remembers which goroutines existed.
type LeakSnapshot map[string]struct{}

// SnapshotGoroutines records the current goroutine ids.
func SnapshotGoroutines() LeakSnapshot {
	s := LeakSnapshot{}
	for _, g := range Goroutines() {
		s[g.ID] = struct{}{}
	}
	return s
}

// Leaked returns goroutines created since the snapshot whose stack contains a
// frame matching any of the substrings in scope (e.g. "tunnox-core/internal/stream")
// and none of the substrings in ignore. It polls until two consecutive diffs agree
// or maxWait elapsed, so goroutines that are still winding down are not reported.
func (s LeakSnapshot) Leaked(scope, ignore []string, maxWait time.Duration) []Goroutine {
	deadline := time.Now().Add(maxWait)
	var prev []string
	var cur []Goroutine
	stable := 0
	for {
		cur = cur[:0]
		for _, g := range Goroutines() {
			if _, ok := s[g.ID]; ok {
				continue
			}
			if !containsAny(g.Stack, scope) || containsAny(g.Stack, ignore) {
				continue
			}
			cur = append(cur, g)
		}
		ids := make([]string, len(cur))
		for i, g := range cur {
			ids[i] = g.ID
		}
		sort.Strings(ids)
		if len(ids) == 0 {
			return nil
		}
		if strings.Join(ids, ",") == strings.Join(prev, ",") {
			stable++
		} else {
			stable = 0
		}
		prev = ids
		if time.Now().After(deadline) && stable >= 2 {
			return append([]Goroutine(nil), cur...)
		}
		time.Sleep(10 * time.Millisecond)
	}
}

func containsAny(s string, subs []string) bool {
	for _, x := range subs {
		if strings.Contains(s, x) {
			return true
		}
	}
	return false
}

// FrameSummary lists the innermost tunnox-core function of each goroutine.
func FrameSummary(gs []Goroutine) []string {
	var out []string
	for _, g := range gs {
		fn := ""
		for _, l := range strings.Split(g.Stack, "\n") {
			if strings.HasPrefix(l, "tunnox-core/") {
				fn = l
				if i := strings.LastIndex(fn, "("); i > 0 {
					fn = fn[:i]
				}
				break
			}
		}
		out = append(out, g.State+" "+fn)
	}
	sort.Strings(out)
	return out
}
