//go:build verif

package verifkit

import (
	"encoding/json"
	"errors"
	"fmt"
	"sort"
	"strings"
	"sync"
	"sync/atomic"
	"time"

	"tunnox-core/internal/core/storage/types"
)

// Hook is called by a gated double before every operation. Returning a non-nil
// error makes the operation fail with that error without being applied.
type Hook func(tier, op, key string) error

// OpRecord is one operation seen by a gated double.
type OpRecord struct {
	Tier string `json:"tier"`
	Op   string `json:"op"`
	Key  string `json:"key"`
	Err  string `json:"err,omitempty"`
}

// Gated wraps a FullStorage; every operation first passes the hook.
type Gated struct {
	Inner types.FullStorage
	Tier  string
	hook  atomic.Value // Hook
	mu    sync.Mutex
	log   []OpRecord
	keep  bool
	ops   atomic.Int64
	wr    atomic.Int64
}

// ErrInjected is the default injected fault.
var ErrInjected = errors.New("verif: injected storage fault")

// NewGated wraps inner.
func NewGated(tier string, inner types.FullStorage) *Gated {
	return &Gated{Inner: inner, Tier: tier}
}

// SetHook installs the hook (nil = pass-through).
func (g *Gated) SetHook(h Hook) {
	if h == nil {
		h = func(string, string, string) error { return nil }
	}
	g.hook.Store(h)
}

// KeepLog enables the operation log.
func (g *Gated) KeepLog(b bool) { g.mu.Lock(); g.keep = b; g.mu.Unlock() }

// Log returns a copy of the operation log.
func (g *Gated) Log() []OpRecord {
	g.mu.Lock()
	defer g.mu.Unlock()
	return append([]OpRecord(nil), g.log...)
}

// ResetLog clears the log.
func (g *Gated) ResetLog() { g.mu.Lock(); g.log = nil; g.mu.Unlock() }

// Ops returns the number of operations seen.
func (g *Gated) Ops() int64 { return g.ops.Load() }

// Writes returns the number of mutating operations seen.
func (g *Gated) Writes() int64 { return g.wr.Load() }

func isWrite(op string) bool {
	switch op {
	case "Get", "Exists", "GetList", "GetHash", "GetAllHash", "GetExpiration", "BatchGet", "QueryByField", "QueryByPrefix":
		return false
	}
	return true
}

func (g *Gated) gate(op, key string) error {
	g.ops.Add(1)
	if isWrite(op) {
		g.wr.Add(1)
	}
	var err error
	if h, _ := g.hook.Load().(Hook); h != nil {
		err = h(g.Tier, op, key)
	}
	g.mu.Lock()
	if g.keep {
		r := OpRecord{Tier: g.Tier, Op: op, Key: key}
		if err != nil {
			r.Err = err.Error()
		}
		g.log = append(g.log, r)
	}
	g.mu.Unlock()
	return err
}

func (g *Gated) Set(key string, value any, ttl time.Duration) error {
	if err := g.gate("Set", key); err != nil {
		return err
	}
	return g.Inner.Set(key, value, ttl)
}
func (g *Gated) Get(key string) (any, error) {
	if err := g.gate("Get", key); err != nil {
		return nil, err
	}
	return g.Inner.Get(key)
}
func (g *Gated) Delete(key string) error {
	if err := g.gate("Delete", key); err != nil {
		return err
	}
	return g.Inner.Delete(key)
}
func (g *Gated) Exists(key string) (bool, error) {
	if err := g.gate("Exists", key); err != nil {
		return false, err
	}
	return g.Inner.Exists(key)
}
func (g *Gated) SetExpiration(key string, ttl time.Duration) error {
	if err := g.gate("SetExpiration", key); err != nil {
		return err
	}
	return g.Inner.SetExpiration(key, ttl)
}
func (g *Gated) GetExpiration(key string) (time.Duration, error) {
	if err := g.gate("GetExpiration", key); err != nil {
		return 0, err
	}
	return g.Inner.GetExpiration(key)
}
func (g *Gated) CleanupExpired() error {
	if err := g.gate("CleanupExpired", ""); err != nil {
		return err
	}
	return g.Inner.CleanupExpired()
}
func (g *Gated) Close() error { return g.Inner.Close() }
func (g *Gated) SetList(key string, values []any, ttl time.Duration) error {
	if err := g.gate("SetList", key); err != nil {
		return err
	}
	return g.Inner.SetList(key, values, ttl)
}
func (g *Gated) GetList(key string) ([]any, error) {
	if err := g.gate("GetList", key); err != nil {
		return nil, err
	}
	return g.Inner.GetList(key)
}
func (g *Gated) AppendToList(key string, value any) error {
	if err := g.gate("AppendToList", key); err != nil {
		return err
	}
	return g.Inner.AppendToList(key, value)
}
func (g *Gated) RemoveFromList(key string, value any) error {
	if err := g.gate("RemoveFromList", key); err != nil {
		return err
	}
	return g.Inner.RemoveFromList(key, value)
}
func (g *Gated) SetHash(key, field string, value any) error {
	if err := g.gate("SetHash", key); err != nil {
		return err
	}
	return g.Inner.SetHash(key, field, value)
}
func (g *Gated) GetHash(key, field string) (any, error) {
	if err := g.gate("GetHash", key); err != nil {
		return nil, err
	}
	return g.Inner.GetHash(key, field)
}
func (g *Gated) GetAllHash(key string) (map[string]any, error) {
	if err := g.gate("GetAllHash", key); err != nil {
		return nil, err
	}
	return g.Inner.GetAllHash(key)
}
func (g *Gated) DeleteHash(key, field string) error {
	if err := g.gate("DeleteHash", key); err != nil {
		return err
	}
	return g.Inner.DeleteHash(key, field)
}
func (g *Gated) Incr(key string) (int64, error) {
	if err := g.gate("Incr", key); err != nil {
		return 0, err
	}
	return g.Inner.Incr(key)
}
func (g *Gated) IncrBy(key string, v int64) (int64, error) {
	if err := g.gate("IncrBy", key); err != nil {
		return 0, err
	}
	return g.Inner.IncrBy(key, v)
}
func (g *Gated) SetNX(key string, value any, ttl time.Duration) (bool, error) {
	if err := g.gate("SetNX", key); err != nil {
		return false, err
	}
	return g.Inner.SetNX(key, value, ttl)
}
func (g *Gated) CompareAndSwap(key string, o, n any, ttl time.Duration) (bool, error) {
	if err := g.gate("CompareAndSwap", key); err != nil {
		return false, err
	}
	return g.Inner.CompareAndSwap(key, o, n, ttl)
}
func (g *Gated) Watch(key string, cb func(any)) error { return g.Inner.Watch(key, cb) }
func (g *Gated) Unwatch(key string) error             { return g.Inner.Unwatch(key) }

var _ types.FullStorage = (*Gated)(nil)

// ---- map-backed persistent tier double ----

// MapPersistent is an in-memory PersistentStorage (stands in for PostgreSQL / the
// remote gRPC store) with a gate on every operation.
type MapPersistent struct {
	Tier string
	mu   sync.Mutex
	m    map[string]any
	hook atomic.Value
	log  []OpRecord
	keep bool
	ops  atomic.Int64
}

// NewMapPersistent creates the double.
func NewMapPersistent(tier string) *MapPersistent {
	return &MapPersistent{Tier: tier, m: map[string]any{}}
}

func (p *MapPersistent) SetHook(h Hook) {
	if h == nil {
		h = func(string, string, string) error { return nil }
	}
	p.hook.Store(h)
}
func (p *MapPersistent) KeepLog(b bool) { p.mu.Lock(); p.keep = b; p.mu.Unlock() }
func (p *MapPersistent) Log() []OpRecord {
	p.mu.Lock()
	defer p.mu.Unlock()
	return append([]OpRecord(nil), p.log...)
}
func (p *MapPersistent) Ops() int64 { return p.ops.Load() }

// Snapshot returns a copy of the content.
func (p *MapPersistent) Snapshot() map[string]any {
	p.mu.Lock()
	defer p.mu.Unlock()
	c := make(map[string]any, len(p.m))
	for k, v := range p.m {
		c[k] = v
	}
	return c
}

func (p *MapPersistent) gate(op, key string) error {
	p.ops.Add(1)
	var err error
	if h, _ := p.hook.Load().(Hook); h != nil {
		err = h(p.Tier, op, key)
	}
	p.mu.Lock()
	if p.keep {
		r := OpRecord{Tier: p.Tier, Op: op, Key: key}
		if err != nil {
			r.Err = err.Error()
		}
		p.log = append(p.log, r)
	}
	p.mu.Unlock()
	return err
}

func (p *MapPersistent) Set(key string, value any) error {
	if err := p.gate("Set", key); err != nil {
		return err
	}
	p.mu.Lock()
	p.m[key] = value
	p.mu.Unlock()
	return nil
}
func (p *MapPersistent) Get(key string) (any, error) {
	if err := p.gate("Get", key); err != nil {
		return nil, err
	}
	p.mu.Lock()
	defer p.mu.Unlock()
	v, ok := p.m[key]
	if !ok {
		return nil, types.ErrKeyNotFound
	}
	return v, nil
}
func (p *MapPersistent) Delete(key string) error {
	if err := p.gate("Delete", key); err != nil {
		return err
	}
	p.mu.Lock()
	delete(p.m, key)
	p.mu.Unlock()
	return nil
}
func (p *MapPersistent) Exists(key string) (bool, error) {
	if err := p.gate("Exists", key); err != nil {
		return false, err
	}
	p.mu.Lock()
	defer p.mu.Unlock()
	_, ok := p.m[key]
	return ok, nil
}
func (p *MapPersistent) BatchSet(items map[string]any) error {
	if err := p.gate("BatchSet", ""); err != nil {
		return err
	}
	p.mu.Lock()
	for k, v := range items {
		p.m[k] = v
	}
	p.mu.Unlock()
	return nil
}
func (p *MapPersistent) BatchGet(keys []string) (map[string]any, error) {
	if err := p.gate("BatchGet", ""); err != nil {
		return nil, err
	}
	p.mu.Lock()
	defer p.mu.Unlock()
	out := map[string]any{}
	for _, k := range keys {
		if v, ok := p.m[k]; ok {
			out[k] = v
		}
	}
	return out, nil
}
func (p *MapPersistent) BatchDelete(keys []string) error {
	if err := p.gate("BatchDelete", ""); err != nil {
		return err
	}
	p.mu.Lock()
	for _, k := range keys {
		delete(p.m, k)
	}
	p.mu.Unlock()
	return nil
}
func (p *MapPersistent) QueryByField(prefix, field string, value any) ([]string, error) {
	if err := p.gate("QueryByField", prefix); err != nil {
		return nil, err
	}
	p.mu.Lock()
	defer p.mu.Unlock()
	var keys []string
	for k := range p.m {
		if strings.HasPrefix(k, prefix) {
			keys = append(keys, k)
		}
	}
	sort.Strings(keys)
	var out []string
	for _, k := range keys {
		js := toJSONString(p.m[k])
		var obj map[string]any
		if json.Unmarshal([]byte(js), &obj) != nil {
			continue
		}
		if fmt.Sprint(obj[field]) == fmt.Sprint(value) {
			out = append(out, js)
		} else if f, ok := obj[field].(float64); ok {
			if fmt.Sprint(int64(f)) == fmt.Sprint(value) {
				out = append(out, js)
			}
		}
	}
	return out, nil
}
func (p *MapPersistent) QueryByPrefix(prefix string, limit int) (map[string]string, error) {
	if err := p.gate("QueryByPrefix", prefix); err != nil {
		return nil, err
	}
	p.mu.Lock()
	defer p.mu.Unlock()
	var keys []string
	for k := range p.m {
		if strings.HasPrefix(k, prefix) {
			keys = append(keys, k)
		}
	}
	sort.Strings(keys)
	out := map[string]string{}
	for _, k := range keys {
		if limit > 0 && len(out) >= limit {
			break
		}
		out[k] = toJSONString(p.m[k])
	}
	return out, nil
}
func (p *MapPersistent) Close() error { return nil }

func toJSONString(v any) string {
	switch x := v.(type) {
	case string:
		return x
	case []byte:
		return string(x)
	}
	b, _ := json.Marshal(v)
	return string(b)
}

var _ types.PersistentStorage = (*MapPersistent)(nil)

// SchedHook returns a hook that yields to the scheduler at every operation.
func SchedHook(s *Sched) Hook {
	return func(tier, op, key string) error {
		s.Yield(tier + "." + op + ":" + key)
		return nil
	}
}
