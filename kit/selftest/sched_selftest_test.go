//go:build verif && verif_kit

package memory

import (
	"context"
	"testing"

	vk "tunnox-core/internal/verifkit"
)

// Lost update on get-then-set through a gated store must be found by Explore.
func TestKitExploreFindsLostUpdate(t *testing.T) {
	lost := 0
	st := vk.Explore(2, 500, 200, func(s *vk.Sched) func(bool) {
		g := vk.NewGated("m", New(context.Background()))
		g.SetHook(vk.SchedHook(s))
		g.Inner.Set("k", int64(0), 0)
		inc := func() {
			v, _ := g.Get("k")
			g.Set("k", v.(int64)+1, 0)
		}
		s.Go("a", inc)
		s.Go("b", inc)
		return func(ok bool) {
			v, _ := g.Inner.Get("k")
			if v.(int64) != 2 {
				lost++
			}
		}
	})
	t.Logf("stats=%+v lost=%d", st, lost)
	if lost == 0 || !st.Complete {
		t.Fatalf("explore did not find the lost update or did not complete: %+v", st)
	}
}

// A foreign goroutine spawned by a thread becomes schedulable.
func TestKitForeignGoroutine(t *testing.T) {
	s := vk.NewSched(nil)
	g := vk.NewGated("m", New(context.Background()))
	g.SetHook(vk.SchedHook(s))
	done := make(chan struct{})
	s.Go("a", func() {
		g.Set("x", "1", 0)
		go func() { g.Set("y", "2", 0); close(done) }()
		g.Set("z", "3", 0)
	})
	ok := s.Run(100)
	s.Stop()
	<-done
	t.Logf("trace=%v", s.Trace())
	if !ok {
		t.Fatal("run not ok")
	}
}
