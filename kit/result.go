//go:build verif

// Package verifkit is overlaid into tunnox-core/internal/verifkit at check time.
// It holds the monitor plumbing shared by every property harness: result files,
// write-ahead case log, seeded PRNG, tier budgets.
package verifkit

import (
	"encoding/json"
	"fmt"
	"hash/fnv"
	"math/rand"
	"os"
	"path/filepath"
	"sort"
	"strconv"
	"sync"
	"testing"
	"time"
)

// Violation is one refutation of the property observed by a monitor.
type Violation struct {
	Signature string `json:"signature"`
	Detail    any    `json:"detail"`
	Count     int    `json:"count"`
}

// Run collects what one harness test function observed.
type Run struct {
	mu        sync.Mutex
	t         testing.TB
	Property  string
	Name      string
	Seed      int64
	Tier      string
	start     time.Time
	evals     int64
	distinct  map[string]struct{}
	samples   []any
	maxSample int
	viol      map[string]*Violation
	violOrder []string
	counters  map[string]int64
	floors    map[string]int64
	obs       map[string]any
	rule      string
	exhaust   bool
	wal       *os.File
	outDir    string
	finished  bool
}

func envInt(name string, def int64) int64 {
	if s := os.Getenv(name); s != "" {
		if v, err := strconv.ParseInt(s, 10, 64); err == nil {
			return v
		}
	}
	return def
}

// Start opens a run. Result lands in $VERIF_OUT/result-<name>.json when Finish is called.
func Start(t testing.TB, property, name string) *Run {
	r := &Run{
		t: t, Property: property, Name: name,
		Seed:      envInt("VERIF_SEED", 1),
		Tier:      os.Getenv("VERIF_TIER"),
		start:     time.Now(),
		distinct:  map[string]struct{}{},
		viol:      map[string]*Violation{},
		counters:  map[string]int64{},
		floors:    map[string]int64{},
		obs:       map[string]any{},
		maxSample: 6,
		outDir:    os.Getenv("VERIF_OUT"),
	}
	if r.Tier == "" {
		r.Tier = "quick"
	}
	if r.outDir == "" {
		r.outDir = os.TempDir()
	}
	_ = os.MkdirAll(r.outDir, 0o755)
	f, err := os.OpenFile(filepath.Join(r.outDir, "wal-"+name+".jsonl"), os.O_CREATE|os.O_TRUNC|os.O_WRONLY, 0o644)
	if err == nil {
		r.wal = f
	}
	return r
}

// Thorough reports whether the thorough tier was requested.
func (r *Run) Thorough() bool { return r.Tier == "thorough" }

// Pick returns the quick or thorough budget (a case count, never a time).
func (r *Run) Pick(quick, thorough int) int {
	if r.Thorough() {
		return thorough
	}
	return quick
}

// Rand returns a PRNG determined by (seed, run name, sub-stream label).
func (r *Run) Rand(label string) *rand.Rand {
	h := fnv.New64a()
	fmt.Fprintf(h, "%d|%s|%s", r.Seed, r.Name, label)
	return rand.New(rand.NewSource(int64(h.Sum64())))
}

// Case logs the case about to be executed to the write-ahead log, so that a
// process-fatal report is attributed to it by the runner.
func (r *Run) Case(sig string, detail any) {
	if r.wal == nil {
		return
	}
	b, _ := json.Marshal(map[string]any{"case": sig, "detail": detail})
	r.mu.Lock()
	r.wal.Write(append(b, '\n'))
	r.mu.Unlock()
}

// Eval counts executed cases.
func (r *Run) Eval(n int) {
	r.mu.Lock()
	r.evals += int64(n)
	r.mu.Unlock()
}

// Distinct records the fingerprint of a non-trivial case.
func (r *Run) Distinct(key string) {
	r.mu.Lock()
	r.distinct[key] = struct{}{}
	r.mu.Unlock()
}

// Sample keeps up to a handful of written-out cases for the evidence file.
func (r *Run) Sample(v any) {
	r.mu.Lock()
	if len(r.samples) < r.maxSample {
		r.samples = append(r.samples, v)
	}
	r.mu.Unlock()
}

// Count adds to a named observation counter.
func (r *Run) Count(name string, n int64) {
	r.mu.Lock()
	r.counters[name] += n
	r.mu.Unlock()
}

// Counter reads a counter.
func (r *Run) Counter(name string) int64 {
	r.mu.Lock()
	defer r.mu.Unlock()
	return r.counters[name]
}

// Max keeps the maximum of a named gauge.
func (r *Run) Max(name string, v int64) {
	r.mu.Lock()
	if v > r.counters[name] {
		r.counters[name] = v
	}
	r.mu.Unlock()
}

// Floor declares that counter name must reach min for the run to be conclusive.
func (r *Run) Floor(name string, min int64) {
	r.mu.Lock()
	r.floors[name] = min
	r.mu.Unlock()
}

// Observe stores a free-form observation.
func (r *Run) Observe(name string, v any) {
	r.mu.Lock()
	r.obs[name] = v
	r.mu.Unlock()
}

// Rule states how cases are generated and what makes one distinct/non-trivial.
func (r *Run) Rule(s string) { r.rule = s }

// Exhaustive marks that a finite space was enumerated completely.
func (r *Run) Exhaustive(b bool) { r.exhaust = b }

// Violation records a refutation. Signature identifies the class of failing
// input/schedule; detail is the concrete witness (first one per signature kept).
func (r *Run) Violation(signature string, detail any) {
	r.mu.Lock()
	defer r.mu.Unlock()
	if v, ok := r.viol[signature]; ok {
		v.Count++
		return
	}
	r.viol[signature] = &Violation{Signature: signature, Detail: detail, Count: 1}
	r.violOrder = append(r.violOrder, signature)
	if r.wal != nil {
		b, _ := json.Marshal(map[string]any{"violation": signature})
		r.wal.Write(append(b, '\n'))
	}
	if !r.finished && len(r.violOrder) <= 64 {
		r.writeLocked(true)
	}
}

// Violations returns the number of distinct signatures so far.
func (r *Run) Violations() int {
	r.mu.Lock()
	defer r.mu.Unlock()
	return len(r.viol)
}

type resultFile struct {
	Property     string           `json:"property"`
	Name         string           `json:"name"`
	Seed         int64            `json:"seed"`
	Tier         string           `json:"tier"`
	Evaluations  int64            `json:"evaluations"`
	Distinct     int              `json:"distinct_nontrivial"`
	DistinctKeys []string         `json:"distinct_keys_sample"`
	Rule         string           `json:"rule"`
	Exhaustive   bool             `json:"exhaustive"`
	Samples      []any            `json:"samples"`
	Counters     map[string]int64 `json:"counters"`
	Floors       map[string]int64 `json:"floors"`
	Observations map[string]any   `json:"observations"`
	Violations   []*Violation     `json:"violations"`
	WallS        float64          `json:"wall_s"`
}

// Finish writes the result file. Call it via defer right after Start.
func (r *Run) Finish() {
	r.mu.Lock()
	defer r.mu.Unlock()
	if r.finished {
		return
	}
	r.finished = true
	r.writeLocked(false)
	if r.wal != nil {
		r.wal.Close()
	}
	r.t.Logf("verif %s/%s: evals=%d distinct=%d violations=%d", r.Property, r.Name, r.evals, len(r.distinct), len(r.viol))
}

// writeLocked writes the (possibly partial) result file; r.mu must be held. A partial
// file is written whenever a new violation signature is recorded, so that a violation
// survives a later watchdog kill or process-fatal error of the same test process.
func (r *Run) writeLocked(partial bool) {
	keys := make([]string, 0, len(r.distinct))
	for k := range r.distinct {
		keys = append(keys, k)
	}
	sort.Strings(keys)
	if len(keys) > 40 {
		keys = keys[:40]
	}
	obs := r.obs
	if partial {
		obs = map[string]any{"partial_result": true}
		for k, v := range r.obs {
			obs[k] = v
		}
	}
	rf := resultFile{
		Property: r.Property, Name: r.Name, Seed: r.Seed, Tier: r.Tier,
		Evaluations: r.evals, Distinct: len(r.distinct), DistinctKeys: keys,
		Rule: r.rule, Exhaustive: r.exhaust && !partial, Samples: r.samples,
		Counters: r.counters, Floors: r.floors, Observations: obs,
		WallS: time.Since(r.start).Seconds(),
	}
	if partial {
		rf.Floors = map[string]int64{} // floors are judged on complete runs only
	}
	for _, s := range r.violOrder {
		rf.Violations = append(rf.Violations, r.viol[s])
	}
	b, err := json.MarshalIndent(rf, "", " ")
	if err != nil {
		// a sample or detail was not serialisable: degrade to strings
		rf.Samples = []any{fmt.Sprintf("%v", r.samples)}
		for _, v := range rf.Violations {
			v.Detail = fmt.Sprintf("%v", v.Detail)
		}
		rf.Observations = map[string]any{"marshal_error": err.Error()}
		b, _ = json.MarshalIndent(rf, "", " ")
	}
	tmp := filepath.Join(r.outDir, "result-"+r.Name+".json.tmp")
	_ = os.WriteFile(tmp, b, 0o644)
	_ = os.Rename(tmp, filepath.Join(r.outDir, "result-"+r.Name+".json"))
}

// Guard runs f and turns a panic into a violation with the given signature prefix.
func (r *Run) Guard(sigPrefix string, detail any, f func()) (panicked bool) {
	defer func() {
		if e := recover(); e != nil {
			panicked = true
			r.Violation(sigPrefix+"|panic", map[string]any{"panic": fmt.Sprint(e), "case": detail})
		}
	}()
	f()
	return false
}
