//go:build verif

package verifkit

import (
	"errors"
	"io"
	"net"
	"sync"
	"sync/atomic"
	"time"
)

// ChunkReader replays data in scripted chunk sizes. A Read never returns more than
// the current chunk (and never more than len(p)); after the data it returns End
// (io.EOF by default) and counts how often it was asked again.
type ChunkReader struct {
	mu        sync.Mutex
	data      []byte
	chunks    []int // sizes; when exhausted the rest is delivered whole
	ci        int
	off       int
	End       error
	PostEnd   atomic.Int64 // Read calls answered after the script ended
	Reads     atomic.Int64
	SpinLimit int64 // when PostEnd exceeds it, Read panics with ErrSpin (0 = never)
}

// ErrSpin is the panic value used to cut a spinning read loop.
var ErrSpin = errors.New("verif: read loop keeps reading after end of stream (spin)")

// NewChunkReader creates a reader over data split according to chunks.
func NewChunkReader(data []byte, chunks []int) *ChunkReader {
	return &ChunkReader{data: data, chunks: chunks, End: io.EOF}
}

// Delivered is the number of bytes handed out so far.
func (c *ChunkReader) Delivered() int {
	c.mu.Lock()
	defer c.mu.Unlock()
	return c.off
}

func (c *ChunkReader) Read(p []byte) (int, error) {
	c.Reads.Add(1)
	c.mu.Lock()
	defer c.mu.Unlock()
	if len(p) == 0 {
		return 0, nil
	}
	if c.off >= len(c.data) {
		n := c.PostEnd.Add(1)
		if c.SpinLimit > 0 && n > c.SpinLimit {
			panic(ErrSpin)
		}
		return 0, c.End
	}
	n := len(c.data) - c.off
	if c.ci < len(c.chunks) {
		if c.chunks[c.ci] < n {
			n = c.chunks[c.ci]
		}
	}
	if n > len(p) {
		// chunk larger than the caller's buffer: remainder stays in this chunk
		if c.ci < len(c.chunks) {
			c.chunks[c.ci] -= len(p)
		}
		n = len(p)
	} else if c.ci < len(c.chunks) {
		c.ci++
	}
	if n <= 0 {
		n = 1
	}
	copy(p, c.data[c.off:c.off+n])
	c.off += n
	return n, nil
}

// RecWriter records everything written to it (optionally in short writes).
type RecWriter struct {
	mu     sync.Mutex
	Buf    []byte
	Writes int
	Err    error // returned (with 0 bytes) once FailAt bytes were accepted
	FailAt int   // -1 = never
	Closed atomic.Bool
}

func NewRecWriter() *RecWriter { return &RecWriter{FailAt: -1} }

func (w *RecWriter) Write(p []byte) (int, error) {
	w.mu.Lock()
	defer w.mu.Unlock()
	w.Writes++
	if w.FailAt >= 0 && len(w.Buf)+len(p) > w.FailAt {
		n := w.FailAt - len(w.Buf)
		if n < 0 {
			n = 0
		}
		w.Buf = append(w.Buf, p[:n]...)
		return n, w.Err
	}
	w.Buf = append(w.Buf, p...)
	return len(p), nil
}

func (w *RecWriter) Bytes() []byte {
	w.mu.Lock()
	defer w.mu.Unlock()
	return append([]byte(nil), w.Buf...)
}

func (w *RecWriter) Len() int {
	w.mu.Lock()
	defer w.mu.Unlock()
	return len(w.Buf)
}

func (w *RecWriter) Close() error { w.Closed.Store(true); return nil }

// FakeAddr is a settable net.Addr.
type FakeAddr struct{ Net, Str string }

func (a FakeAddr) Network() string { return a.Net }
func (a FakeAddr) String() string  { return a.Str }

// ScriptConn is a net.Conn double: reads come from a queue the harness feeds
// (Feed / FeedEOF / FeedErr), writes are recorded. Read blocks until data, end of
// script, or Close. It counts Close calls and reads after the end.
type ScriptConn struct {
	mu       sync.Mutex
	cond     *sync.Cond
	in       [][]byte
	endErr   error
	ended    bool
	closed   bool
	Closes   atomic.Int64
	PostEnd  atomic.Int64
	Out      RecWriter
	Remote   net.Addr
	Local    net.Addr
	MaxRead  int // max bytes per Read (0 = unlimited)
	halfOK   bool
	WClosed  atomic.Bool // CloseWrite called
	OnWrite  func(p []byte)
	Blocked  atomic.Int64 // readers currently blocked
	SpinStop int64
}

func NewScriptConn(remote string) *ScriptConn {
	c := &ScriptConn{Remote: FakeAddr{"tcp", remote}, Local: FakeAddr{"tcp", "127.0.0.1:1"}}
	c.Out.FailAt = -1
	c.cond = sync.NewCond(&c.mu)
	return c
}

func (c *ScriptConn) Feed(b []byte) {
	c.mu.Lock()
	c.in = append(c.in, append([]byte(nil), b...))
	c.cond.Broadcast()
	c.mu.Unlock()
}

// FeedEnd ends the inbound script: subsequent reads (after queued data) return err.
func (c *ScriptConn) FeedEnd(err error) {
	c.mu.Lock()
	c.ended = true
	c.endErr = err
	c.cond.Broadcast()
	c.mu.Unlock()
}

func (c *ScriptConn) Read(p []byte) (int, error) {
	c.mu.Lock()
	defer c.mu.Unlock()
	for {
		if c.closed {
			return 0, net.ErrClosed
		}
		if len(c.in) > 0 {
			b := c.in[0]
			n := len(b)
			if n > len(p) {
				n = len(p)
			}
			if c.MaxRead > 0 && n > c.MaxRead {
				n = c.MaxRead
			}
			copy(p, b[:n])
			if n == len(b) {
				c.in = c.in[1:]
			} else {
				c.in[0] = b[n:]
			}
			return n, nil
		}
		if c.ended {
			k := c.PostEnd.Add(1)
			if c.SpinStop > 0 && k > c.SpinStop {
				panic(ErrSpin)
			}
			return 0, c.endErr
		}
		c.Blocked.Add(1)
		c.cond.Wait()
		c.Blocked.Add(-1)
	}
}

func (c *ScriptConn) Write(p []byte) (int, error) {
	c.mu.Lock()
	closed := c.closed
	c.mu.Unlock()
	if closed {
		return 0, net.ErrClosed
	}
	if c.OnWrite != nil {
		c.OnWrite(p)
	}
	return c.Out.Write(p)
}

func (c *ScriptConn) Close() error {
	c.Closes.Add(1)
	c.mu.Lock()
	c.closed = true
	c.cond.Broadcast()
	c.mu.Unlock()
	return nil
}

func (c *ScriptConn) IsClosed() bool {
	c.mu.Lock()
	defer c.mu.Unlock()
	return c.closed
}

func (c *ScriptConn) LocalAddr() net.Addr                { return c.Local }
func (c *ScriptConn) RemoteAddr() net.Addr               { return c.Remote }
func (c *ScriptConn) SetDeadline(t time.Time) error      { return nil }
func (c *ScriptConn) SetReadDeadline(t time.Time) error  { return nil }
func (c *ScriptConn) SetWriteDeadline(t time.Time) error { return nil }

var _ net.Conn = (*ScriptConn)(nil)

// HalfConn adds CloseWrite to ScriptConn.
type HalfConn struct{ *ScriptConn }

func (h HalfConn) CloseWrite() error { h.WClosed.Store(true); return nil }

// Pattern fills a deterministic position-coded byte stream: byte i depends on
// (seed, i) so that any shift, loss or duplication is visible.
func Pattern(seed uint64, off, n int) []byte {
	b := make([]byte, n)
	for i := range b {
		x := uint64(off+i)*0x9E3779B97F4A7C15 + seed*0xBF58476D1CE4E5B9
		x ^= x >> 29
		x *= 0x94D049BB133111EB
		x ^= x >> 32
		b[i] = byte(x)
	}
	return b
}

// Partition splits n into chunk sizes according to class:
// "whole", "bytes" (all 1), "cut:k" handled by caller, "rand" seeded.
func RandPartition(r interface{ Intn(int) int }, n int, maxChunk int) []int {
	var out []int
	for n > 0 {
		c := 1 + r.Intn(maxChunk)
		if c > n {
			c = n
		}
		out = append(out, c)
		n -= c
	}
	return out
}

// ---- buffered in-memory duplex connection ----

type bufHalf struct {
	mu     sync.Mutex
	cond   *sync.Cond
	buf    []byte
	closed bool // writer side closed: reader gets EOF after draining
	broken bool // reader side closed: writes fail
	total  int64
}

func newBufHalf() *bufHalf { h := &bufHalf{}; h.cond = sync.NewCond(&h.mu); return h }

// BufConn is one end of an in-memory duplex connection with unbounded buffering
// (writes never block), settable addresses and close accounting.
type BufConn struct {
	rd, wr   *bufHalf
	Remote   net.Addr
	Local    net.Addr
	Closes   atomic.Int64
	closed   atomic.Bool
	deadline atomic.Int64 // unix nano read deadline (0 = none)
	MaxRead  int
}

// BufPipe returns two connected ends. aRemote is what a.RemoteAddr() reports.
func BufPipe(aRemote, bRemote string) (a, b *BufConn) {
	x, y := newBufHalf(), newBufHalf()
	a = &BufConn{rd: x, wr: y, Remote: FakeAddr{"tcp", aRemote}, Local: FakeAddr{"tcp", bRemote}}
	b = &BufConn{rd: y, wr: x, Remote: FakeAddr{"tcp", bRemote}, Local: FakeAddr{"tcp", aRemote}}
	return
}

type timeoutErr struct{}

func (timeoutErr) Error() string   { return "i/o timeout" }
func (timeoutErr) Timeout() bool   { return true }
func (timeoutErr) Temporary() bool { return true }

func (c *BufConn) Read(p []byte) (int, error) {
	h := c.rd
	h.mu.Lock()
	defer h.mu.Unlock()
	for {
		if c.closed.Load() {
			return 0, net.ErrClosed
		}
		if len(h.buf) > 0 {
			n := copy(p, h.buf)
			if c.MaxRead > 0 && n > c.MaxRead {
				n = c.MaxRead
			}
			h.buf = h.buf[n:]
			return n, nil
		}
		if h.closed {
			return 0, io.EOF
		}
		if d := c.deadline.Load(); d != 0 {
			rem := time.Until(time.Unix(0, d))
			if rem <= 0 {
				return 0, timeoutErr{}
			}
			t := time.AfterFunc(rem, func() { h.mu.Lock(); h.cond.Broadcast(); h.mu.Unlock() })
			h.cond.Wait()
			t.Stop()
			continue
		}
		h.cond.Wait()
	}
}

func (c *BufConn) Write(p []byte) (int, error) {
	if c.closed.Load() {
		return 0, net.ErrClosed
	}
	h := c.wr
	h.mu.Lock()
	defer h.mu.Unlock()
	if h.broken || h.closed {
		return 0, io.ErrClosedPipe
	}
	h.buf = append(h.buf, p...)
	h.total += int64(len(p))
	h.cond.Broadcast()
	return len(p), nil
}

// CloseWrite half-closes: the peer reads EOF after draining.
func (c *BufConn) CloseWrite() error {
	h := c.wr
	h.mu.Lock()
	h.closed = true
	h.cond.Broadcast()
	h.mu.Unlock()
	return nil
}

func (c *BufConn) Close() error {
	c.Closes.Add(1)
	if c.closed.Swap(true) {
		return nil
	}
	c.wr.mu.Lock()
	c.wr.closed = true
	c.wr.cond.Broadcast()
	c.wr.mu.Unlock()
	c.rd.mu.Lock()
	c.rd.broken = true
	c.rd.cond.Broadcast()
	c.rd.mu.Unlock()
	return nil
}

// IsClosed reports whether Close was called on this end.
func (c *BufConn) IsClosed() bool { return c.closed.Load() }

// Pending returns the bytes waiting to be read on this end.
func (c *BufConn) Pending() int {
	c.rd.mu.Lock()
	defer c.rd.mu.Unlock()
	return len(c.rd.buf)
}

// PeerClosed reports whether the other end closed (or half-closed) its write side.
func (c *BufConn) PeerClosed() bool {
	c.rd.mu.Lock()
	defer c.rd.mu.Unlock()
	return c.rd.closed
}

func (c *BufConn) LocalAddr() net.Addr  { return c.Local }
func (c *BufConn) RemoteAddr() net.Addr { return c.Remote }
func (c *BufConn) SetDeadline(t time.Time) error {
	return c.SetReadDeadline(t)
}
func (c *BufConn) SetReadDeadline(t time.Time) error {
	if t.IsZero() {
		c.deadline.Store(0)
	} else {
		c.deadline.Store(t.UnixNano())
	}
	c.rd.mu.Lock()
	c.rd.cond.Broadcast()
	c.rd.mu.Unlock()
	return nil
}
func (c *BufConn) SetWriteDeadline(t time.Time) error { return nil }

var _ net.Conn = (*BufConn)(nil)
