//go:build verif

package verifkit

import corelog "tunnox-core/internal/core/log"

// Quiet silences tunnox-core's global logger (the handlers log every packet).
func Quiet() { corelog.SetDefault(corelog.NewNopLogger()) }
