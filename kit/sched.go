//go:build verif

package verifkit

import (
	"bytes"
	"fmt"
	"hash/fnv"
	"math/rand"
	"runtime"
	"strconv"
	"strings"
	"sync"
	"time"
)

// Sched is a cooperative scheduler over gates. Threads (goroutines started with
// Go, or foreign goroutines that reach a gate on their own, e.g. an asynchronous
// cache write-back spawned by the code under test) run one at a time; whenever the
// running thread reaches the next gate (Yield) or finishes, the scheduler picks the
// next thread to release. The sequence of picks is the schedule.
//
// The code under test is real and unmodified: gates live in the doubles it talks to
// (storage tiers, connections) or at build-tag-guarded hook points.
type Sched struct {
	mu       sync.Mutex
	notify   chan struct{}
	threads  map[int64]*sthread // by goroutine id
	order    []*sthread         // creation order
	running  int                // threads believed to be executing
	chooser  Chooser
	trace    []string // released (thread@point)
	stopped  bool
	bgSeq    int
	stallDur time.Duration
	stalls   int
	// FreeRun lets every gate pass without scheduling (used after Stop).
}

type sthread struct {
	name    string
	gid     int64
	wake    chan struct{}
	parked  bool
	point   string
	done    bool
	stalled bool // suspected blocked on something that is not a gate
	steps   int
	started bool
	foreign bool
}

// Chooser picks which parked thread runs next. enabled is sorted by creation order;
// cur is the index in enabled of the thread that ran last (-1 if it is not enabled).
type Chooser interface {
	Choose(enabled []string, points []string, cur int) int
}

// RandomChooser picks uniformly with a seeded PRNG.
type RandomChooser struct{ R *rand.Rand }

func (c RandomChooser) Choose(enabled []string, _ []string, _ int) int { return c.R.Intn(len(enabled)) }

// NewSched creates a scheduler. chooser may be nil (first enabled thread).
func NewSched(chooser Chooser) *Sched {
	s := &Sched{threads: map[int64]*sthread{}, chooser: chooser, stallDur: 150 * time.Millisecond}
	s.notify = make(chan struct{}, 1)
	return s
}

func (s *Sched) ping() {
	select {
	case s.notify <- struct{}{}:
	default:
	}
}

// liveGoroutines returns the ids of all goroutines that currently exist.
func liveGoroutines() map[int64]struct{} {
	buf := make([]byte, 1<<16)
	for {
		n := runtime.Stack(buf, true)
		if n < len(buf) {
			buf = buf[:n]
			break
		}
		buf = make([]byte, 2*len(buf))
	}
	out := map[int64]struct{}{}
	for len(buf) > 0 {
		i := bytes.Index(buf, []byte("goroutine "))
		if i < 0 {
			break
		}
		if i == 0 || buf[i-1] == '\n' {
			rest := buf[i+10:]
			j := bytes.IndexByte(rest, ' ')
			if j > 0 {
				if id, err := strconv.ParseInt(string(rest[:j]), 10, 64); err == nil {
					out[id] = struct{}{}
				}
			}
		}
		buf = buf[i+10:]
	}
	return out
}

func gid() int64 {
	var buf [64]byte
	n := runtime.Stack(buf[:], false)
	b := buf[:n]
	b = bytes.TrimPrefix(b, []byte("goroutine "))
	i := bytes.IndexByte(b, ' ')
	id, _ := strconv.ParseInt(string(b[:i]), 10, 64)
	return id
}

// Go starts a named thread. It does not begin executing until the scheduler
// releases it from its implicit first gate "start".
func (s *Sched) Go(name string, f func()) {
	th := &sthread{name: name, wake: make(chan struct{}, 1)}
	ready := make(chan struct{})
	go func() {
		th.gid = gid()
		s.mu.Lock()
		s.threads[th.gid] = th
		s.order = append(s.order, th)
		th.parked = true
		th.point = "start"
		s.mu.Unlock()
		close(ready)
		<-th.wake
		defer func() {
			s.mu.Lock()
			th.done = true
			if !th.stalled {
				s.running--
			}
			th.stalled = false
			s.ping()
			s.mu.Unlock()
		}()
		f()
	}()
	<-ready
}

// Yield is a gate. Called from inside doubles/hooks on whatever goroutine the code
// under test happens to be using.
func (s *Sched) Yield(point string) {
	if s == nil {
		return
	}
	g := gid()
	s.mu.Lock()
	if s.stopped {
		s.mu.Unlock()
		return
	}
	th := s.threads[g]
	if th == nil {
		// foreign goroutine (spawned by the code under test): becomes a thread
		s.bgSeq++
		th = &sthread{name: fmt.Sprintf("bg%d", s.bgSeq), gid: g, wake: make(chan struct{}, 1), foreign: true}
		s.threads[g] = th
		s.order = append(s.order, th)
		s.running++ // it was running un-tracked until now
		th.started = true
	}
	th.parked = true
	th.point = point
	th.steps++
	if th.stalled {
		th.stalled = false
	} else {
		s.running--
	}
	s.ping()
	s.mu.Unlock()
	<-th.wake
}

// Run drives the schedule until every thread started with Go has finished and no
// foreign thread is parked, or until maxSteps decisions were made. It returns false
// if the step bound or a global stall was hit (verdict for that schedule:
// inconclusive).
func (s *Sched) Run(maxSteps int) bool {
	last := ""
	for step := 0; step < maxSteps; step++ {
		// wait until nothing is running (or the runner is judged stalled)
		waited := time.Duration(0)
		poll := 200 * time.Microsecond
		for {
			s.mu.Lock()
			if s.running <= 0 {
				break // keep the lock
			}
			foreign := false
			for _, th := range s.order {
				if th.foreign && th.started && !th.parked && !th.done && !th.stalled {
					foreign = true
				}
			}
			s.mu.Unlock()
			wait := s.stallDur - waited
			if foreign && poll < wait {
				wait = poll
			}
			if wait <= 0 {
				wait = time.Microsecond
			}
			select {
			case <-s.notify:
				waited = 0
				continue
			case <-time.After(wait):
				waited += wait
			}
			if foreign {
				// a foreign goroutine (spawned by the code under test) reports neither
				// its next gate nor its end: look whether it still exists
				alive := liveGoroutines()
				s.mu.Lock()
				for _, th := range s.order {
					if th.foreign && th.started && !th.parked && !th.done && !th.stalled {
						if _, ok := alive[th.gid]; !ok {
							th.done = true
							s.running--
						}
					}
				}
				s.mu.Unlock()
				if poll < 5*time.Millisecond {
					poll *= 2
				}
			}
			if waited >= s.stallDur {
				// the running thread blocks on something that is not a gate
				s.mu.Lock()
				if s.running > 0 {
					for _, th := range s.order {
						if !th.parked && !th.done && !th.stalled && th.started {
							th.stalled = true
							s.running--
							s.stalls++
							s.trace = append(s.trace, "stall:"+th.name)
						}
					}
					if s.running > 0 {
						s.running = 0 // untracked runner vanished; resynchronise
					}
				}
				s.mu.Unlock()
				waited = 0
			}
		}
		var enabled []*sthread
		for _, th := range s.order {
			if th.parked && !th.done {
				enabled = append(enabled, th)
			}
		}
		if len(enabled) == 0 {
			allDone := true
			for _, th := range s.order {
				if !th.done && !strings.HasPrefix(th.name, "bg") {
					allDone = false
				}
			}
			s.mu.Unlock()
			if allDone {
				// give freshly spawned foreign goroutines a moment to reach a gate
				if s.settle() {
					continue
				}
				return true
			}
			// some thread is stalled and nobody can run: deadlock in the code under
			// test or a thread blocked on external input
			if !s.waitProgress() {
				return false
			}
			continue
		}
		names := make([]string, len(enabled))
		points := make([]string, len(enabled))
		cur := -1
		for i, th := range enabled {
			names[i] = th.name
			points[i] = th.point
			if th.name == last {
				cur = i
			}
		}
		idx := 0
		if s.chooser != nil {
			idx = s.chooser.Choose(names, points, cur)
			if idx < 0 || idx >= len(enabled) {
				idx = 0
			}
		}
		th := enabled[idx]
		th.parked = false
		th.started = true
		s.running++
		last = th.name
		s.trace = append(s.trace, th.name+"@"+th.point)
		s.mu.Unlock()
		th.wake <- struct{}{}
	}
	return false
}

// settle waits briefly for foreign goroutines to show up at a gate.
func (s *Sched) settle() bool {
	for i := 0; i < 4; i++ {
		time.Sleep(500 * time.Microsecond)
		runtime.Gosched()
		s.mu.Lock()
		n := 0
		for _, th := range s.order {
			if th.parked && !th.done {
				n++
			}
		}
		run := s.running
		s.mu.Unlock()
		if n > 0 || run > 0 {
			return true
		}
	}
	return false
}

func (s *Sched) waitProgress() bool {
	for i := 0; i < 40; i++ {
		time.Sleep(25 * time.Millisecond)
		s.mu.Lock()
		n := 0
		alive := 0
		for _, th := range s.order {
			if th.parked && !th.done {
				n++
			}
			if !th.done && !strings.HasPrefix(th.name, "bg") {
				alive++
			}
		}
		s.mu.Unlock()
		if n > 0 || alive == 0 {
			return true
		}
	}
	return false
}

// Stop releases every parked thread and turns all gates into no-ops.
func (s *Sched) Stop() {
	s.mu.Lock()
	s.stopped = true
	for _, th := range s.order {
		if th.parked && !th.done {
			th.parked = false
			select {
			case th.wake <- struct{}{}:
			default:
			}
		}
	}
	s.mu.Unlock()
}

// Trace returns the released (thread@point) sequence.
func (s *Sched) Trace() []string {
	s.mu.Lock()
	defer s.mu.Unlock()
	return append([]string(nil), s.trace...)
}

// Stalls returns how many times a running thread was judged blocked off-gate.
func (s *Sched) Stalls() int {
	s.mu.Lock()
	defer s.mu.Unlock()
	return s.stalls
}

// Fingerprint hashes the schedule.
func (s *Sched) Fingerprint() string {
	h := fnv.New64a()
	for _, e := range s.Trace() {
		h.Write([]byte(e))
		h.Write([]byte{0})
	}
	return strconv.FormatUint(h.Sum64(), 36)
}

// ---- bounded-preemption exhaustive exploration (stateless DFS) ----

// dfsChooser replays a prefix of choices, then follows the default policy (keep
// running the current thread when enabled, else the first enabled one) while
// recording the branching factor at each decision.
type dfsChooser struct {
	prefix   []int
	pos      int
	branch   []int // number of options at decision i
	taken    []int
	curAt    []int // index of "current thread" at decision i (-1 none)
	preempts int
}

func rankToIdx(rank, cur int) int {
	if cur < 0 {
		return rank
	}
	if rank == 0 {
		return cur
	}
	if rank-1 < cur {
		return rank - 1
	}
	return rank
}

// Choose interprets prefix entries as ranks: rank 0 = keep the current thread (or
// the first enabled one if the current thread cannot continue), rank r>0 = the
// other enabled threads in creation order.
func (c *dfsChooser) Choose(enabled []string, _ []string, cur int) int {
	n := len(enabled)
	rank := 0
	if c.pos < len(c.prefix) {
		rank = c.prefix[c.pos]
		if rank >= n {
			rank = n - 1
		}
	}
	if cur >= 0 && rank != 0 {
		c.preempts++
	}
	c.branch = append(c.branch, n)
	c.taken = append(c.taken, rank)
	c.curAt = append(c.curAt, cur)
	c.pos++
	return rankToIdx(rank, cur)
}

// ExploreStats summarises an exploration.
type ExploreStats struct {
	Runs      int
	Distinct  int
	Complete  bool // the bounded space was enumerated completely
	Stalled   int
	MaxDepth  int
	Preempted int // runs with >=1 preemption
}

// Explore enumerates all schedules of scenario with at most maxPreempt preemptions
// (a preemption = switching away from a thread that could continue), up to maxRuns
// executions. scenario must build fresh state, start threads with s.Go and return a
// function that is called after the schedule ended (for the oracle). Each execution
// gets its own Sched.
func Explore(maxPreempt, maxRuns, maxSteps int, scenario func(s *Sched) (after func(ok bool))) ExploreStats {
	var st ExploreStats
	seen := map[string]struct{}{}
	prefix := []int{}
	for {
		if st.Runs >= maxRuns {
			return st
		}
		ch := &dfsChooser{prefix: prefix}
		s := NewSched(ch)
		after := scenario(s)
		ok := s.Run(maxSteps)
		s.Stop()
		st.Runs++
		if !ok {
			st.Stalled++
		}
		if ch.preempts > 0 {
			st.Preempted++
		}
		if len(ch.taken) > st.MaxDepth {
			st.MaxDepth = len(ch.taken)
		}
		seen[s.Fingerprint()] = struct{}{}
		if after != nil {
			after(ok)
		}
		// next prefix: deepest decision that can be advanced within the preemption bound
		next := nextPrefix(ch, maxPreempt)
		if next == nil {
			st.Complete = true
			st.Distinct = len(seen)
			return st
		}
		prefix = next
		st.Distinct = len(seen)
	}
}

func nextPrefix(ch *dfsChooser, maxPreempt int) []int {
	// preemptions used by taken[0..i)
	pre := make([]int, len(ch.taken)+1)
	for i := range ch.taken {
		pre[i+1] = pre[i]
		if ch.curAt[i] >= 0 && ch.taken[i] != 0 {
			pre[i+1]++
		}
	}
	for i := len(ch.taken) - 1; i >= 0; i-- {
		for alt := ch.taken[i] + 1; alt < ch.branch[i]; alt++ {
			cost := pre[i]
			if ch.curAt[i] >= 0 && alt != 0 {
				cost++
			}
			if cost <= maxPreempt {
				p := append([]int(nil), ch.taken[:i]...)
				return append(p, alt)
			}
		}
	}
	return nil
}
