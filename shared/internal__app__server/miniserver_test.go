//go:build verif

package server

import (
	"context"
	"crypto/hmac"
	"crypto/sha256"
	"encoding/base64"
	"encoding/hex"
	"encoding/json"
	"fmt"
	"io"
	"sync"
	"sync/atomic"
	"testing"
	"time"

	"tunnox-core/internal/cloud/factories"
	"tunnox-core/internal/cloud/managers"
	"tunnox-core/internal/cloud/repos"
	"tunnox-core/internal/cloud/services"
	"tunnox-core/internal/core/idgen"
	"tunnox-core/internal/core/storage"
	"tunnox-core/internal/core/types"
	"tunnox-core/internal/packet"
	"tunnox-core/internal/protocol/session"
	"tunnox-core/internal/security"
	"tunnox-core/internal/stream"
	"tunnox-core/internal/utils"
	vk "tunnox-core/internal/verifkit"
)

// miniNode is one server node assembled from the real components the way
// components_*.go does it, minus listeners/HTTP: storage -> BuiltinCloudControl ->
// SessionManager -> security components -> real ServerAuthHandler /
// ServerTunnelHandler / ConnectionCodeService -> real command registry
// (setupConnectionCodeCommands). Several nodes may share one storage.
type miniNode struct {
	t       testing.TB
	ctx     context.Context
	cancel  context.CancelFunc
	NodeID  string
	Store   storage.Storage
	Repo    *repos.Repository
	CC      *managers.BuiltinCloudControl
	SM      *session.SessionManager
	Auth    *ServerAuthHandler
	Tun     *ServerTunnelHandler
	CCS     *services.ConnectionCodeService
	SKM     *security.SecretKeyManager
	BFP     *security.BruteForceProtector
	IPM     *security.IPManager
	RL      *security.RateLimiter
	Srv     *Server
	Domains repos.IHTTPDomainMappingRepository
	Routing *session.TunnelRoutingTable
	ConnSt  *session.ConnectionStateStore
	clients []*miniClient
	mu      sync.Mutex
}

type miniOpts struct {
	NodeID       string
	Store        storage.Storage // nil = fresh memory storage
	Session      *session.SessionConfig
	BruteForce   *security.BruteForceConfig
	RateLimit    *security.RateLimitConfig
	ConnStateTTL time.Duration // 0 = 5 min (production value)
	RoutingTTL   time.Duration // 0 = 30 s (production value)
	NoCommands   bool
}

var miniMasterKey = base64.StdEncoding.EncodeToString([]byte("0123456789abcdef0123456789abcdef"))

func newMiniNode(t testing.TB, o miniOpts) *miniNode {
	t.Helper()
	vk.Quiet()
	ctx, cancel := context.WithCancel(context.Background())
	n := &miniNode{t: t, ctx: ctx, cancel: cancel, NodeID: o.NodeID}
	if n.NodeID == "" {
		n.NodeID = "node-a"
	}
	n.Store = o.Store
	if n.Store == nil {
		n.Store = storage.NewMemoryStorage(ctx)
	}
	n.Repo = repos.NewRepository(n.Store)
	idm := idgen.NewIDManager(n.Store, ctx)
	cfg := managers.DefaultConfig()
	cfg.NodeID = n.NodeID
	n.CC = factories.NewBuiltinCloudControlWithRepo(ctx, cfg, n.Store, n.Repo)
	sc := o.Session
	if sc == nil {
		sc = session.DefaultSessionConfig()
	}
	n.SM = session.NewSessionManagerWithConfig(idm, ctx, sc)
	n.BFP = security.NewBruteForceProtector(o.BruteForce, ctx)
	n.IPM = security.NewIPManager(n.Store, ctx)
	n.RL = security.NewRateLimiter(o.RateLimit, nil, ctx)
	skm, err := security.NewSecretKeyManager(&security.SecretKeyConfig{MasterKey: miniMasterKey})
	if err != nil {
		t.Fatalf("mini: secret key manager: %v", err)
	}
	n.SKM = skm
	n.CC.SetSecretKeyManager(skm)
	rtm := security.NewReconnectTokenManager(&security.ReconnectTokenConfig{SecretKey: "verif-reconnect-secret-0123456789", TTL: 30 * time.Second}, n.Store)
	n.SM.SetReconnectTokenManager(rtm)

	connCodeRepo := repos.NewConnectionCodeRepository(n.Repo)
	pms := n.CC.GetPortMappingService()
	pmRepo := repos.NewPortMappingRepo(n.Repo)
	n.Domains = repos.NewHTTPDomainMappingRepository(n.Repo, []string{"tunnox.net", "tunnel.test.local"})
	n.CCS = services.NewConnectionCodeService(connCodeRepo, pms, pmRepo, nil, ctx)
	n.Auth = NewServerAuthHandler(n.CC, n.SM, n.BFP, n.IPM, n.RL, n.SKM)
	n.Tun = NewServerTunnelHandler(n.CC, n.CCS)
	n.SM.SetAuthHandler(n.Auth)
	n.SM.SetTunnelHandler(n.Tun)
	n.SM.SetCloudControl(session.NewCloudControlAdapter(n.CC))
	n.SM.SetNodeID(n.NodeID)
	tsm := session.NewTunnelStateManager(n.Store, "")
	n.SM.SetTunnelStateManager(tsm)
	n.SM.SetMigrationManager(session.NewTunnelMigrationManager(tsm, n.SM))
	rttl := o.RoutingTTL
	if rttl == 0 {
		rttl = 30 * time.Second
	}
	n.Routing = session.NewTunnelRoutingTable(n.Store, rttl)
	n.SM.SetTunnelRoutingTable(n.Routing)
	cttl := o.ConnStateTTL
	if cttl == 0 {
		cttl = 5 * time.Minute
	}
	n.ConnSt = session.NewConnectionStateStore(n.Store, n.NodeID, cttl)
	n.SM.SetConnectionStateStore(n.ConnSt)

	if !o.NoCommands {
		svcCfg := utils.DefaultServiceConfig()
		svcCfg.EnableSignalHandling = false
		n.Srv = &Server{
			config:              &Config{},
			serviceManager:      utils.NewServiceManager(svcCfg),
			nodeID:              n.NodeID,
			storage:             n.Store,
			idManager:           idm,
			session:             n.SM,
			cloudControl:        n.CC,
			cloudBuiltin:        n.CC,
			authHandler:         n.Auth,
			connCodeService:     n.CCS,
			bruteForceProtector: n.BFP,
			ipManager:           n.IPM,
			rateLimiter:         n.RL,
			httpDomainRepo:      n.Domains,
		}
		if err := n.Srv.setupConnectionCodeCommands(); err != nil {
			t.Fatalf("mini: setupConnectionCodeCommands: %v", err)
		}
	}
	return n
}

func (n *miniNode) Close() {
	n.mu.Lock()
	cl := append([]*miniClient(nil), n.clients...)
	n.mu.Unlock()
	for _, c := range cl {
		c.hc.Close()
	}
	n.cancel()
}

// miniClient is a harness-side peer of one server connection. The harness plays
// the protocol adapter: it decodes what it wants to send into a TransferPacket and
// hands it to SessionManager.HandlePacket (exactly what connectionReadLoop does
// after ReadPacket); replies are read from the harness end of the transport with
// the real packet reader.
type miniClient struct {
	n        *miniNode
	hc       *vk.BufConn // harness end
	sc       *vk.BufConn // server end (what the server reads/writes/closes)
	ConnID   string
	sp       *stream.StreamProcessor // harness-side codec
	ClientID int64
	Secret   string
	recvMu   sync.Mutex
	closedBy atomic.Bool
}

var miniAddrSeq atomic.Int64

// Connect opens a new connection from remote ("ip:port"); "" picks a unique one.
func (n *miniNode) Connect(remote string) (*miniClient, error) {
	if remote == "" {
		k := miniAddrSeq.Add(1)
		remote = fmt.Sprintf("10.%d.%d.%d:40000", (k>>16)&255, (k>>8)&255, k&255)
	}
	sc, hc := vk.BufPipe(remote, "127.0.0.1:7000")
	stc, err := n.SM.AcceptConnection(sc, sc)
	if err != nil {
		sc.Close()
		hc.Close()
		return nil, err
	}
	c := &miniClient{n: n, hc: hc, sc: sc, ConnID: stc.ID}
	c.sp = stream.NewStreamProcessor(hc, hc, n.ctx)
	n.mu.Lock()
	n.clients = append(n.clients, c)
	n.mu.Unlock()
	return c, nil
}

func (n *miniNode) MustConnect(remote string) *miniClient {
	c, err := n.Connect(remote)
	if err != nil {
		n.t.Fatalf("mini: connect: %v", err)
	}
	return c
}

// Send dispatches a packet as if it had just been decoded from this connection.
func (c *miniClient) Send(p *packet.TransferPacket) error {
	return c.n.SM.HandlePacket(&types.StreamPacket{ConnectionID: c.ConnID, Packet: p, Timestamp: time.Now()})
}

// Recv reads the next packet the server wrote to this connection (nil on timeout/EOF).
func (c *miniClient) Recv(timeout time.Duration) *packet.TransferPacket {
	c.recvMu.Lock()
	defer c.recvMu.Unlock()
	c.hc.SetReadDeadline(time.Now().Add(timeout))
	defer c.hc.SetReadDeadline(time.Time{})
	if c.hc.Pending() == 0 && timeout <= 0 {
		return nil
	}
	p, _, err := c.sp.ReadPacket()
	if err != nil {
		return nil
	}
	return p
}

// RecvNow returns a packet only if bytes are already buffered.
func (c *miniClient) RecvNow() *packet.TransferPacket {
	if c.hc.Pending() == 0 {
		return nil
	}
	return c.Recv(2 * time.Second)
}

// DrainRaw returns and discards all raw bytes currently buffered towards the harness.
func (c *miniClient) DrainRaw() []byte {
	var out []byte
	buf := make([]byte, 65536)
	for c.hc.Pending() > 0 {
		c.hc.SetReadDeadline(time.Now().Add(50 * time.Millisecond))
		n, err := c.hc.Read(buf)
		out = append(out, buf[:n]...)
		if err != nil {
			break
		}
	}
	c.hc.SetReadDeadline(time.Time{})
	return out
}

func (c *miniClient) handshake(req *packet.HandshakeRequest) (*packet.HandshakeResponse, error) {
	b, _ := json.Marshal(req)
	herr := c.Send(&packet.TransferPacket{PacketType: packet.Handshake, Payload: b})
	// the response (success or failure) is written before HandlePacket returns
	for i := 0; i < 4; i++ {
		p := c.RecvNow()
		if p == nil {
			break
		}
		if p.PacketType&0x3F == packet.HandshakeResp {
			var r packet.HandshakeResponse
			if err := json.Unmarshal(p.Payload, &r); err != nil {
				return nil, fmt.Errorf("bad handshake response: %v", err)
			}
			return &r, herr
		}
	}
	return nil, herr
}

// FirstConnect registers a brand-new anonymous client on this connection.
func (c *miniClient) FirstConnect() (*packet.HandshakeResponse, error) {
	r, err := c.handshake(&packet.HandshakeRequest{ClientID: 0, Token: "new-client", Version: "3.0", Protocol: "tcp", ConnectionType: "control"})
	if r != nil && r.Success {
		c.ClientID = r.ClientID
		c.Secret = r.SecretKey
	}
	return r, err
}

// Phase1 asks for a challenge for id.
func (c *miniClient) Phase1(id int64, connType string) (*packet.HandshakeResponse, error) {
	return c.handshake(&packet.HandshakeRequest{ClientID: id, Version: "3.0", Protocol: "tcp", ConnectionType: connType})
}

// Phase2 answers with resp (hex HMAC).
func (c *miniClient) Phase2(id int64, resp string, connType string) (*packet.HandshakeResponse, error) {
	return c.handshake(&packet.HandshakeRequest{ClientID: id, Version: "3.0", Protocol: "tcp", ConnectionType: connType, ChallengeResponse: resp})
}

// HMACResp computes the client's response to a challenge.
func HMACResp(secret, challenge string) string {
	m := hmac.New(sha256.New, []byte(secret))
	m.Write([]byte(challenge))
	return hex.EncodeToString(m.Sum(nil))
}

// Login performs the full challenge-response for (id, secret); connType "" = control.
func (c *miniClient) Login(id int64, secret, connType string) (bool, error) {
	r1, err := c.Phase1(id, connType)
	if r1 == nil || r1.Challenge == "" {
		return false, fmt.Errorf("phase1: %v resp=%+v", err, r1)
	}
	r2, err := c.Phase2(id, HMACResp(secret, r1.Challenge), connType)
	if r2 == nil || !r2.Success {
		return false, fmt.Errorf("phase2: %v resp=%+v", err, r2)
	}
	c.ClientID = id
	c.Secret = secret
	return true, nil
}

// NewClient connects and registers a brand-new client (control connection).
func (n *miniNode) NewClient(remote string) *miniClient {
	c := n.MustConnect(remote)
	r, err := c.FirstConnect()
	if err != nil || r == nil || !r.Success {
		n.t.Fatalf("mini: first connect failed: %v %+v", err, r)
	}
	return c
}

// Command sends a JsonCommand and returns the first CommandResp with the same
// CommandId (waiting up to timeout), plus everything else that arrived meanwhile.
func (c *miniClient) Command(cmd *packet.CommandPacket, timeout time.Duration) (resp *packet.CommandPacket, others []*packet.TransferPacket, err error) {
	err = c.Send(&packet.TransferPacket{PacketType: packet.JsonCommand, CommandPacket: cmd})
	deadline := time.Now().Add(timeout)
	for {
		var p *packet.TransferPacket
		if c.hc.Pending() > 0 {
			p = c.Recv(2 * time.Second)
		} else if time.Now().Before(deadline) && timeout > 0 {
			p = c.Recv(time.Until(deadline))
		}
		if p == nil {
			return resp, others, err
		}
		if p.PacketType.IsCommandResp() && p.CommandPacket != nil && p.CommandPacket.CommandId == cmd.CommandId && resp == nil {
			resp = p.CommandPacket
			if c.hc.Pending() == 0 {
				return resp, others, err
			}
			continue
		}
		others = append(others, p)
	}
}

// CloseByPeer simulates the transport ending: what adapter.cleanupConnection does.
func (c *miniClient) CloseByPeer() {
	c.closedBy.Store(true)
	c.hc.Close()
	_ = c.n.SM.CloseConnection(c.ConnID)
	c.sc.Close()
}

// ServerClosedTransport reports whether the server closed its end.
func (c *miniClient) ServerClosedTransport() bool { return c.sc.IsClosed() }

var _ = io.EOF
