//go:build verif && verif_c13

package storage

import (
	"context"
	"errors"
	"fmt"
	"math/rand"
	"testing"
	"time"

	"github.com/alicebob/miniredis/v2"

	"tunnox-core/internal/cloud/constants"
	"tunnox-core/internal/core/storage/types"
	vk "tunnox-core/internal/verifkit"
)

// C13 (c5) — the typed adapters (core/storage/types/adapters.go, the path TypedRepository
// uses) over both backends, with "arbitrary values": strings and a small entity whose
// JSON contains characters an encoder may or may not escape (& < > U+2028 U+2029 quotes
// backslashes, non-ASCII). Sequential seeded histories of Set / Get / SetNX /
// CompareAndSwap / Delete / SetList / AppendToList / RemoveFromList / GetList / SetHash /
// GetHash; every answer is compared with a plain typed map: in particular
// CompareAndSwap(k, currentValue, new) swaps and RemoveFromList(k, presentValue) removes.

type c13tEntity struct {
	ID   string `json:"id"`
	URL  string `json:"url"`
	Note string `json:"note,omitempty"`
	N    int64  `json:"n"`
}

var c13tStrings = []string{
	"plain", "R&D", "<pending>", "https://example.test/cb?a=1&b=<2>&c=>", "a>b", "x<y",
	"line sep end", `q"uote`, `back\slash`, "tab\there", "ünï-世界", "7", `{"id":1}`,
}

type c13tModel[T comparable] struct {
	kv   map[string]T
	has  map[string]bool
	list map[string][]T
	lhas map[string]bool
	hash map[string]map[string]T
}

func c13tErr(err error) string {
	switch {
	case err == nil:
		return "ok"
	case errors.Is(err, ErrKeyNotFound):
		return "notfound"
	}
	return "error:" + err.Error()
}

// c13tRun drives one history on one backend; gen produces values (the first return tells
// whether the value's JSON holds an escapable character).
func c13tRun[T comparable](run *vk.Run, backend, tname string, fs FullStorage, r *rand.Rand, nops int, gen func(*rand.Rand) (T, bool)) {
	ad := types.NewTypedFullStorageAdapter[T](fs)
	m := &c13tModel[T]{kv: map[string]T{}, has: map[string]bool{}, list: map[string][]T{}, lhas: map[string]bool{}, hash: map[string]map[string]T{}}
	var trace []string
	viol := func(op, what string, extra map[string]any) {
		d := map[string]any{"backend": backend, "type": tname, "history": append([]string{}, trace...), "what": what}
		for k, v := range extra {
			d[k] = v
		}
		run.Violation(fmt.Sprintf("C13:typed|backend=%s|type=%s|op=%s|%s", backend, tname, op, what), d)
	}
	special := map[any]bool{}
	pick := func() T {
		v, sp := gen(r)
		if sp {
			special[v] = true
		}
		return v
	}
	ttl := func() time.Duration { return []time.Duration{0, time.Hour}[r.Intn(2)] }
	skeys, lkeys := []string{tname + ":s1", tname + ":s2"}, []string{tname + ":l1", tname + ":l2"}
	for i := 0; i < nops; i++ {
		sk, lk := skeys[r.Intn(2)], lkeys[r.Intn(2)]
		switch x := r.Intn(100); {
		case x < 14:
			v := pick()
			trace = append(trace, fmt.Sprintf("Set(%s,%#v)", sk, v))
			if err := ad.Set(sk, v, ttl()); err != nil {
				viol("Set", "error", map[string]any{"error": err.Error()})
				return
			}
			m.kv[sk], m.has[sk] = v, true
		case x < 24:
			v := pick()
			trace = append(trace, fmt.Sprintf("SetNX(%s,%#v)", sk, v))
			ok, err := ad.SetNX(sk, v, ttl())
			if err != nil || ok != !m.has[sk] {
				viol("SetNX", fmt.Sprintf("want=%v|got=%v", !m.has[sk], ok), map[string]any{"error": fmt.Sprint(err)})
				return
			}
			if ok {
				m.kv[sk], m.has[sk] = v, true
			}
		case x < 46:
			nv := pick()
			old := pick()
			if m.has[sk] && r.Intn(100) < 75 {
				old = m.kv[sk]
			}
			want := m.has[sk] && m.kv[sk] == old
			trace = append(trace, fmt.Sprintf("CompareAndSwap(%s,old=%#v,new=%#v) want %v", sk, old, nv, want))
			ok, err := ad.CompareAndSwap(sk, old, nv, ttl())
			if want {
				run.Count("typed_cas_on_current_value", 1)
				if special[old] {
					run.Count("typed_cas_on_current_value_with_escapable_chars", 1)
				}
			}
			if err != nil || ok != want {
				viol("CompareAndSwap", fmt.Sprintf("old=current:%v|want=%v|got=%v", want, want, ok), map[string]any{"error": fmt.Sprint(err), "escapable_chars_in_old": special[old]})
				return
			}
			if ok {
				m.kv[sk] = nv
			}
		case x < 50:
			trace = append(trace, fmt.Sprintf("Delete(%s)", sk))
			ad.Delete(sk)
			delete(m.kv, sk)
			m.has[sk] = false
		case x < 62:
			n := 1 + r.Intn(3)
			vs := make([]T, n)
			for j := range vs {
				vs[j] = pick()
			}
			trace = append(trace, fmt.Sprintf("SetList(%s,%#v)", lk, vs))
			if err := ad.SetList(lk, vs, ttl()); err != nil {
				viol("SetList", "error", map[string]any{"error": err.Error()})
				return
			}
			m.list[lk], m.lhas[lk] = append([]T{}, vs...), true
		case x < 76:
			v := pick()
			trace = append(trace, fmt.Sprintf("AppendToList(%s,%#v)", lk, v))
			if err := ad.AppendToList(lk, v); err != nil {
				viol("AppendToList", "error", map[string]any{"error": err.Error()})
				return
			}
			m.list[lk], m.lhas[lk] = append(m.list[lk], v), true
		case x < 92:
			v := pick()
			present := false
			if l := m.list[lk]; len(l) > 0 && r.Intn(100) < 80 {
				v = l[r.Intn(len(l))]
			}
			keep := []T{}
			for _, e := range m.list[lk] {
				if e != v {
					keep = append(keep, e)
				} else {
					present = true
				}
			}
			trace = append(trace, fmt.Sprintf("RemoveFromList(%s,%#v) present=%v", lk, v, present))
			if err := ad.RemoveFromList(lk, v); err != nil {
				viol("RemoveFromList", "error", map[string]any{"error": err.Error()})
				return
			}
			if present {
				run.Count("typed_remove_of_present_value", 1)
				if special[v] {
					run.Count("typed_remove_of_present_value_with_escapable_chars", 1)
				}
			}
			m.list[lk] = keep
			got, err := ad.GetList(lk)
			if errors.Is(err, ErrKeyNotFound) {
				got, err = nil, nil // callers: not found == empty
			}
			if err != nil || fmt.Sprintf("%#v", append([]T{}, got...)) != fmt.Sprintf("%#v", m.list[lk]) {
				what := "readback-differs"
				if present {
					what = "present-value-not-removed-or-list-differs"
				}
				viol("RemoveFromList", what, map[string]any{"error": fmt.Sprint(err), "want": fmt.Sprintf("%#v", m.list[lk]), "got": fmt.Sprintf("%#v", got), "escapable_chars_in_value": special[v]})
				return
			}
		default:
			trace = append(trace, fmt.Sprintf("Get(%s)", sk))
			got, err := ad.Get(sk)
			if m.has[sk] {
				if err != nil || got != m.kv[sk] {
					viol("Get", "value-differs", map[string]any{"error": fmt.Sprint(err), "want": fmt.Sprintf("%#v", m.kv[sk]), "got": fmt.Sprintf("%#v", got)})
					return
				}
			} else if c13tErr(err) != "notfound" {
				viol("Get", "want=notfound|got="+c13tErr(err), nil)
				return
			}
		}
		run.Count("typed_ops", 1)
	}
}

func TestVerifC13DiffTypedAdapters(t *testing.T) {
	vk.Quiet()
	run := vk.Start(t, "C13", "typed-adapters")
	defer run.Finish()
	run.Rule("seeded histories of 40 typed-adapter operations (TypedFullStorageAdapter[string] and [entity]) on memory storage and Redis storage(miniredis); values drawn from strings with & < > U+2028/9 quotes backslashes non-ASCII and entities carrying them; every answer compared with a plain typed map (CAS on the current value swaps, RemoveFromList of a present value removes it); distinct = (backend, type, history)")
	nh := run.Pick(12, 300)
	master := run.Rand("typed")
	for h := 0; h < nh; h++ {
		seed := master.Int63()
		for _, backend := range []string{"memory", "redis"} {
			ctx, cancel := context.WithCancel(context.Background())
			var fs FullStorage
			var mr *miniredis.Miniredis
			if backend == "memory" {
				fs = NewMemoryStorage(ctx).(FullStorage)
			} else {
				var err error
				if mr, err = miniredis.Run(); err != nil {
					t.Fatalf("[setup failed] miniredis: %v", err)
				}
				rs, err := NewRedisStorage(ctx, &RedisConfig{Addr: mr.Addr(), PoolSize: 2})
				if err != nil {
					t.Fatalf("[setup failed] redis storage: %v", err)
				}
				fs = rs
			}
			run.Case(fmt.Sprintf("typed|%s|h%d", backend, h), nil)
			c13tRun[string](run, backend, "string", fs, rand.New(rand.NewSource(seed)), 40, func(r *rand.Rand) (string, bool) {
				i := r.Intn(len(c13tStrings))
				return c13tStrings[i], i >= 1 && i <= 9
			})
			c13tRun[c13tEntity](run, backend, "entity", fs, rand.New(rand.NewSource(seed^0x9e3779b9)), 40, func(r *rand.Rand) (c13tEntity, bool) {
				i, j := r.Intn(len(c13tStrings)), r.Intn(len(c13tStrings))
				return c13tEntity{ID: fmt.Sprintf("e%d", r.Intn(4)), URL: c13tStrings[i], Note: c13tStrings[j], N: int64(r.Intn(3))}, (i >= 1 && i <= 9) || (j >= 1 && j <= 9)
			})
			fs.Close()
			if mr != nil {
				mr.Close()
			}
			cancel()
			run.Eval(1)
			run.Distinct(fmt.Sprintf("%s|h%d", backend, h))
		}
		if run.Violations() >= 8 {
			break
		}
	}
	run.Floor("typed_cas_on_current_value_with_escapable_chars", int64(nh)*4)
	run.Floor("typed_remove_of_present_value_with_escapable_chars", int64(nh)*4)
	run.Floor("typed_ops", int64(nh)*120)
}

// C13 (c6) — counter generations. A counter created by Incr gets the default lifetime on
// both backends; when it disappears (its lifetime elapses, or ANOTHER Storage instance on
// the same Redis deletes it) the next Incr creates a NEW counter that must again start at
// the increment and again carry the default lifetime - as the memory backend does for a
// counter re-created after Delete / after expiry.

func TestVerifC13DiffCounterGenerations(t *testing.T) {
	vk.Quiet()
	run := vk.Start(t, "C13", "counter-generations")
	defer run.Finish()
	run.Rule("Incr/IncrBy creates counter k on memory and on Redis instance A (miniredis); k then disappears by (a) +25 h virtual time on Redis, (b) Delete through a second Redis Storage instance B on the same server (memory: Delete), (c) SetExpiration 1 s + sleep 1.2 s = FastForward 1.2 s on both; the next Incr/IncrBy must return the increment and GetExpiration must again be finite ~24 h on both (memory: interval rule; Redis: within 2 s), and the Redis key must be gone after another +25 h; distinct = (variant, operation)")
	def := constants.DefaultDataTTL
	variants := []string{"elapsed-25h", "deleted-by-other-instance", "expired-after-setexpiration"}
	reps := run.Pick(1, 6)
	for rep := 0; rep < reps; rep++ {
		for vi, variant := range variants {
			for _, incr := range []int64{1, 5} {
				if variant == "expired-after-setexpiration" && incr != 1 && !run.Thorough() {
					continue // one real 1.2 s sleep in the quick tier
				}
				name := fmt.Sprintf("%s|by=%d", variant, incr)
				run.Case("counter-gen|"+name, nil)
				func() {
					mr, err := miniredis.Run()
					if err != nil {
						t.Fatalf("[setup failed] miniredis: %v", err)
					}
					defer mr.Close()
					ctx, cancel := context.WithCancel(context.Background())
					defer cancel()
					ra, err := NewRedisStorage(ctx, &RedisConfig{Addr: mr.Addr(), PoolSize: 2})
					if err != nil {
						t.Fatalf("[setup failed] redis A: %v", err)
					}
					defer ra.Close()
					rb, err := NewRedisStorage(ctx, &RedisConfig{Addr: mr.Addr(), PoolSize: 2})
					if err != nil {
						t.Fatalf("[setup failed] redis B: %v", err)
					}
					defer rb.Close()
					mem := NewMemoryStorage(ctx).(FullStorage)
					defer mem.Close()
					key := fmt.Sprintf("cnt-%d-%d", vi, rep)
					var trace []string
					bad := func(what string, extra map[string]any) {
						d := map[string]any{"variant": variant, "increment": incr, "steps": trace}
						for k, v := range extra {
							d[k] = v
						}
						run.Violation("C13:counter-generation|"+variant+"|"+what, d)
					}
					// generation check on both backends: value and lifetime class/bounds
					gen := func(label string) bool {
						c := time.Now()
						vm, em := mem.IncrBy(key, incr)
						vr, er := ra.IncrBy(key, incr)
						trace = append(trace, fmt.Sprintf("%s: IncrBy(%d) memory=%d,%v redisA=%d,%v", label, incr, vm, em, vr, er))
						if em != nil || er != nil || vm != incr || vr != incr {
							bad("generation="+label+"|value:memory/redis-differ-from-increment", map[string]any{"memory": vm, "redis": vr})
							return false
						}
						dm, e1 := mem.GetExpiration(key)
						r2 := time.Now()
						dr, e2 := ra.GetExpiration(key)
						cm, cr := c13lExpClass(dm, e1), c13lExpClass(dr, e2)
						trace = append(trace, fmt.Sprintf("%s: GetExpiration memory=%s(%s) redisA=%s(%s)", label, cm, dm, cr, dr))
						run.Count("counter_generations_checked", 1)
						okM := cm == "finite" && dm <= def && dm >= def-r2.Sub(c)
						okR := cr == "finite" && dr <= def && dr > def-2*time.Second
						if !okM || !okR {
							bad(fmt.Sprintf("generation=%s|lifetime:memory=%s|redis=%s|want=finite-24h", label, cm, cr), map[string]any{"memory_remaining": dm.String(), "redis_remaining": dr.String()})
							return false
						}
						return true
					}
					if !gen("first") {
						return
					}
					switch variant {
					case "elapsed-25h":
						mr.FastForward(25 * time.Hour)
						mem.Delete(key) // memory reads the real clock: stand-in for the elapsed lifetime
						trace = append(trace, "redis: +25h virtual; memory: Delete (stand-in)")
					case "deleted-by-other-instance":
						rb.Delete(key)
						mem.Delete(key)
						trace = append(trace, "redis: Delete through instance B; memory: Delete")
					case "expired-after-setexpiration":
						e1, e2 := mem.SetExpiration(key, time.Second), ra.SetExpiration(key, time.Second)
						time.Sleep(1200 * time.Millisecond)
						mr.FastForward(1200 * time.Millisecond)
						trace = append(trace, fmt.Sprintf("SetExpiration(1s) memory=%v redisA=%v; sleep 1.2 s = FastForward 1.2 s", e1, e2))
					}
					if ok, _ := ra.Exists(key); ok {
						bad("counter-still-present-before-second-generation|backend=redis", nil)
						return
					}
					if ok, _ := mem.Exists(key); ok {
						bad("counter-still-present-before-second-generation|backend=memory", nil)
						return
					}
					if !gen("second") {
						return
					}
					mr.FastForward(25 * time.Hour)
					if ok, _ := ra.Exists(key); ok {
						bad("generation=second|redis=alive-after-25h|want=gone", nil)
						return
					}
					run.Count("second_generations_observed_to_expire", 1)
				}()
				run.Eval(1)
				run.Distinct(name)
			}
		}
	}
	run.Floor("counter_generations_checked", int64(reps)*10)
	run.Floor("second_generations_observed_to_expire", int64(reps)*5)
}
