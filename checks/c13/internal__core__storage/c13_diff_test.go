//go:build verif && verif_c13

package storage

import (
	"context"
	"errors"
	"fmt"
	"math/rand"
	"sort"
	"strings"
	"sync"
	"testing"
	"time"

	"github.com/alicebob/miniredis/v2"

	vk "tunnox-core/internal/verifkit"
)

// C13 (c) — differential monitor: in-memory backend vs Redis backend (over miniredis),
// restricted to the operations and value shapes the repositories use. Frozen from
// grep over internal/cloud/repos, core/idgen, core/node, session/connstate,
// cloud/distributed, cloud/managers (2026-09):
//   * scalar keys: Set/Get/Delete/Exists with string values (plain ids, JSON documents),
//     ttl 0 or positive; SetNX(string, ttl 0 | positive) (idgen, node id, domain index,
//     locks); CompareAndSwap(string, string, ttl 0 | whole seconds) (cleanup manager,
//     lock renewal); SetExpiration(positive whole seconds | 0) on existing keys;
//   * list keys: AppendToList / RemoveFromList / GetList / SetList of strings (ids, JSON);
//   * hash keys: SetHash / GetHash / GetAllHash / DeleteHash (string values; int64
//     counters are compared numerically because Redis returns JSON numbers);
//   * counter keys: Incr / IncrBy only.
// One family per key (no repository reads a list key with Get). Normalisations, each
// taken from how callers treat the answers: GetList/GetAllHash "not found" == empty;
// GetExpiration compared by error class only; SetExpiration on an absent key not
// compared (callers only touch existing keys); SetList(empty) leaves memory present-empty
// and Redis absent: GetList answers agree ([]), Exists on a list key is compared only when
// the list is non-empty, and the key's lifetime is not tracked; SetList / CAS / SetExpiration never get
// a sub-second ttl (Redis EXPIRE has whole-second resolution; callers pass seconds+).
//
// Time: memory reads the real clock, miniredis a virtual one. A "Sleep" step sleeps
// for real and FastForwards miniredis by the same amount (see c13dMode). A key with the
// short ttl is compared only where the memory side is certain (interval rule): before
// any sleep only if the observation returned earlier than call+short, after a sleep always
// (certainly expired on both). Anything else taints the key until it is overwritten.
// At the end of a history miniredis is advanced by 48 h: every key whose current
// lifetime was given as ttl 0 must still be there ("zero never expires").

const c13dLong = time.Hour

// c13dMode fixes the short lifetime and the sleep of one history. "ms": 40 ms / 60 ms,
// short ttl only for SET-based operations (Set, SetNX: millisecond resolution in Redis).
// "sec": 1 s / 1.2 s, short ttl for every ttl-carrying operation (SetList, CAS and
// SetExpiration use EXPIRE, whole seconds), at most two sleeps per history.
type c13dMode struct {
	Name  string
	Short time.Duration
	Sleep time.Duration
}

var (
	c13dModeMs  = c13dMode{"ms", 40 * time.Millisecond, 60 * time.Millisecond}
	c13dModeSec = c13dMode{"sec", time.Second, 1200 * time.Millisecond}
)

type c13dOp struct {
	Kind  string
	Key   string
	Field string
	Val   any
	Old   any
	List  []any
	N     int64
	TTL   time.Duration
}

func c13dTTL(d time.Duration) string {
	switch {
	case d == 0:
		return "0"
	case d <= time.Second:
		return "short"
	}
	return "long"
}

func (o c13dOp) hasTTL() bool {
	switch o.Kind {
	case "Set", "SetList", "SetNX", "CAS", "SetExpiration":
		return true
	}
	return false
}

func (o c13dOp) argTTL() string {
	if !o.hasTTL() {
		return "-"
	}
	if o.TTL == 0 {
		return "0"
	}
	return ">0"
}

func (o c13dOp) String() string {
	var b strings.Builder
	b.WriteString(o.Kind + "(" + o.Key)
	switch o.Kind {
	case "Set", "SetNX", "Append", "Remove":
		fmt.Fprintf(&b, ",%#v", o.Val)
	case "SetList":
		fmt.Fprintf(&b, ",%#v", o.List)
	case "SetHash":
		fmt.Fprintf(&b, ",%s,%#v", o.Field, o.Val)
	case "GetHash", "DeleteHash":
		fmt.Fprintf(&b, ",%s", o.Field)
	case "IncrBy":
		fmt.Fprintf(&b, ",%d", o.N)
	case "CAS":
		fmt.Fprintf(&b, ",old=%#v,new=%#v", o.Old, o.Val)
	}
	if o.hasTTL() {
		b.WriteString(",ttl=" + c13dTTL(o.TTL))
	}
	b.WriteString(")")
	return b.String()
}

// c13dAns is a normalised answer.
type c13dAns struct {
	Err  string // ok | notfound | error | panic
	Text string
	B    bool
	V    string // canonical rendering of the value ("" when none)
}

func (a c13dAns) class() string {
	if a.Err != "ok" {
		return a.Err
	}
	return "ok"
}

func c13dCanon(v any) string {
	switch x := v.(type) {
	case nil:
		return "<nil>"
	case string:
		return fmt.Sprintf("%q", x)
	case int64:
		return fmt.Sprintf("%d", x)
	case int:
		return fmt.Sprintf("%d", x)
	case float64:
		if x == float64(int64(x)) {
			return fmt.Sprintf("%d", int64(x))
		}
		return fmt.Sprintf("%g", x)
	case []any:
		parts := make([]string, len(x))
		for i, e := range x {
			parts[i] = c13dCanon(e)
		}
		return "[" + strings.Join(parts, ",") + "]"
	case map[string]any:
		ks := make([]string, 0, len(x))
		for k := range x {
			ks = append(ks, k)
		}
		sort.Strings(ks)
		parts := make([]string, len(ks))
		for i, k := range ks {
			parts[i] = k + "=" + c13dCanon(x[k])
		}
		return "{" + strings.Join(parts, ",") + "}"
	}
	return fmt.Sprintf("%T:%v", v, v)
}

func c13dApply(s FullStorage, op c13dOp) (a c13dAns) {
	defer func() {
		if p := recover(); p != nil {
			a = c13dAns{Err: "panic", Text: fmt.Sprint(p)}
		}
	}()
	var err error
	switch op.Kind {
	case "Set":
		err = s.Set(op.Key, op.Val, op.TTL)
	case "Get":
		var v any
		v, err = s.Get(op.Key)
		if err == nil {
			a.V = c13dCanon(v)
		}
	case "Delete":
		err = s.Delete(op.Key)
	case "Exists":
		a.B, err = s.Exists(op.Key)
	case "SetNX":
		a.B, err = s.SetNX(op.Key, op.Val, op.TTL)
	case "CAS":
		a.B, err = s.CompareAndSwap(op.Key, op.Old, op.Val, op.TTL)
	case "SetExpiration":
		err = s.SetExpiration(op.Key, op.TTL)
	case "GetExpiration":
		_, err = s.GetExpiration(op.Key)
	case "CleanupExpired":
		err = s.CleanupExpired()
	case "SetList":
		var l []any
		if op.List != nil {
			l = append([]any{}, op.List...)
		}
		err = s.SetList(op.Key, l, op.TTL)
	case "GetList":
		var l []any
		l, err = s.GetList(op.Key)
		if errors.Is(err, ErrKeyNotFound) { // callers: not found == empty
			l, err = nil, nil
		}
		if err == nil {
			a.V = c13dCanon(append([]any{}, l...))
		}
	case "Append":
		err = s.AppendToList(op.Key, op.Val)
	case "Remove":
		err = s.RemoveFromList(op.Key, op.Val)
	case "SetHash":
		err = s.SetHash(op.Key, op.Field, op.Val)
	case "GetHash":
		var v any
		v, err = s.GetHash(op.Key, op.Field)
		if err == nil {
			a.V = c13dCanon(v)
		}
	case "GetAllHash":
		var h map[string]any
		h, err = s.GetAllHash(op.Key)
		if errors.Is(err, ErrKeyNotFound) {
			h, err = nil, nil
		}
		if err == nil {
			if h == nil {
				h = map[string]any{}
			}
			a.V = c13dCanon(h)
		}
	case "DeleteHash":
		err = s.DeleteHash(op.Key, op.Field)
	case "Incr":
		var n int64
		n, err = s.Incr(op.Key)
		a.V = fmt.Sprint(n)
	case "IncrBy":
		var n int64
		n, err = s.IncrBy(op.Key, op.N)
		a.V = fmt.Sprint(n)
	default:
		panic("c13 diff: unknown op " + op.Kind)
	}
	switch {
	case err == nil:
		a.Err = "ok"
	case errors.Is(err, ErrKeyNotFound):
		a.Err, a.Text = "notfound", err.Error()
	default:
		a.Err, a.Text = "error", err.Error()
		a.V = ""
	}
	return a
}

func (a c13dAns) render() string {
	if a.Err != "ok" {
		return a.Err
	}
	return fmt.Sprintf("ok b=%v v=%s", a.B, a.V)
}

// ---- generator (pure function of the PRNG) ----

var c13dStrings = []any{"a", "b", "node-7", "42", `{"id":1}`, `{"id":2,"name":"x y"}`, `["p","q"]`, "owner-1:1700000000"}
var c13dHashVals = []any{"a", `{"id":1}`, int64(0), int64(5), int64(1234567)}
var c13dFields = []string{"f1", "f2", "f3"}

type c13dPick struct {
	kind string
	w    int
}

var c13dFamilies = map[byte][]c13dPick{
	's': {{"Set", 14}, {"Get", 10}, {"Delete", 4}, {"Exists", 6}, {"SetNX", 12}, {"CAS", 16}, {"SetExpiration", 7}, {"GetExpiration", 4}},
	'l': {{"SetList", 8}, {"GetList", 10}, {"Append", 14}, {"Remove", 10}, {"Delete", 3}, {"Exists", 4}},
	'h': {{"SetHash", 12}, {"GetHash", 8}, {"GetAllHash", 6}, {"DeleteHash", 5}, {"Delete", 2}},
	'c': {{"Incr", 8}, {"IncrBy", 5}, {"Delete", 2}},
}
var c13dKeys = []string{"s1", "s2", "s3", "l1", "l2", "h1", "c1"}

func c13dGenerate(r *rand.Rand, nops int, mode c13dMode) []c13dOp {
	sleeps := 0
	ops := make([]c13dOp, 0, nops)
	last := map[string]any{}     // last scalar written per key (bias for CAS old)
	inList := map[string][]any{} // values recently appended per list key (bias for Remove)
	for len(ops) < nops {
		x := r.Intn(100)
		if x < 5 {
			if mode.Name == "sec" && sleeps >= 2 {
				continue
			}
			sleeps++
			ops = append(ops, c13dOp{Kind: "Sleep"})
			continue
		}
		if x < 7 {
			ops = append(ops, c13dOp{Kind: "CleanupExpired"})
			continue
		}
		key := c13dKeys[r.Intn(len(c13dKeys))]
		tab := c13dFamilies[key[0]]
		total := 0
		for _, p := range tab {
			total += p.w
		}
		y := r.Intn(total)
		kind := tab[0].kind
		for _, p := range tab {
			if y < p.w {
				kind = p.kind
				break
			}
			y -= p.w
		}
		op := c13dOp{Kind: kind, Key: key}
		ttl3 := []time.Duration{0, mode.Short, c13dLong}[r.Intn(3)]
		ttl2 := []time.Duration{0, c13dLong}[r.Intn(2)] // EXPIRE-based operations
		if mode.Name == "sec" {
			ttl2 = []time.Duration{0, mode.Short, c13dLong}[r.Intn(3)]
		}
		str := func() any { return c13dStrings[r.Intn(len(c13dStrings))] }
		switch kind {
		case "Set", "SetNX":
			op.Val, op.TTL = str(), ttl3
			last[key] = op.Val
		case "CAS":
			op.Val, op.TTL = str(), ttl2
			z := r.Intn(100)
			switch {
			case last[key] != nil && z < 65:
				op.Old = last[key]
			case z < 80:
				op.Old = nil
			default:
				op.Old = str()
			}
			last[key] = op.Val
		case "SetExpiration":
			op.TTL = ttl2
		case "SetList":
			// 30 %: an empty list (nil or empty slice), typically over an existing non-empty one
			n := 1 + r.Intn(3)
			if z := r.Intn(100); z < 15 {
				n, op.List = 0, nil
			} else if z < 30 {
				n, op.List = 0, []any{}
			}
			for i := 0; i < n; i++ {
				op.List = append(op.List, str())
			}
			op.TTL = ttl2
			inList[key] = append([]any(nil), op.List...)
		case "Append":
			op.Val = str()
			inList[key] = append(inList[key], op.Val)
		case "Remove":
			op.Val = str()
			if l := inList[key]; len(l) > 0 && r.Intn(10) < 7 {
				op.Val = l[r.Intn(len(l))]
			}
		case "SetHash":
			op.Field, op.Val = c13dFields[r.Intn(3)], c13dHashVals[r.Intn(len(c13dHashVals))]
		case "GetHash", "DeleteHash":
			op.Field = c13dFields[r.Intn(3)]
		case "IncrBy":
			op.N = []int64{1, 2, 10, -1}[r.Intn(4)]
		}
		ops = append(ops, op)
	}
	return ops
}

// ---- execution ----

type c13dTrack struct {
	short    bool      // current lifetime is the short ttl
	c        time.Time // memory-side call instant of the operation that set it
	slept    bool      // a Sleep step happened since
	taint    bool
	zeroTTL  bool // current lifetime was given explicitly as ttl 0
	nonEmpty bool // list/hash keys: last compared read-back was a non-empty container
}

type c13dStats struct {
	mu       sync.Mutex
	distinct map[string]struct{}
	counts   map[string]int64
}

func (s *c13dStats) add(name string, n int64) {
	s.mu.Lock()
	s.counts[name] += n
	s.mu.Unlock()
}

func c13dReadback(key string) (c13dOp, bool) {
	switch key[0] {
	case 's':
		return c13dOp{Kind: "Get", Key: key}, true
	case 'l':
		return c13dOp{Kind: "GetList", Key: key}, true
	case 'h':
		return c13dOp{Kind: "GetAllHash", Key: key}, true
	}
	return c13dOp{}, false
}

func c13dPrefix(ops []c13dOp, upto int) []string {
	out := make([]string, 0, upto+1)
	for i := 0; i <= upto && i < len(ops); i++ {
		out = append(out, fmt.Sprintf("%d:%s", i, ops[i]))
	}
	return out
}

func c13RunDiffHistory(t *testing.T, run *vk.Run, st *c13dStats, hidx int, ops []c13dOp, mode c13dMode) {
	mr, err := miniredis.Run()
	if err != nil {
		t.Errorf("[setup failed] miniredis: %v", err)
		return
	}
	defer mr.Close()
	ctx, cancel := context.WithCancel(context.Background())
	defer cancel()
	pool := 2
	if hidx%50 == 49 {
		pool = 1 // configuration axis: every command shares one connection (must not stall or deadlock)
	}
	rs, err := NewRedisStorage(ctx, &RedisConfig{Addr: mr.Addr(), PoolSize: pool})
	if err != nil {
		t.Errorf("[setup failed] redis storage: %v", err)
		return
	}
	defer rs.Close()
	ms := NewMemoryStorage(ctx)
	defer ms.Close()
	mem, ok := ms.(FullStorage)
	if !ok {
		t.Errorf("[setup failed] memory storage is not a FullStorage")
		return
	}
	var red FullStorage = rs

	tr := map[string]*c13dTrack{}
	for _, k := range c13dKeys {
		tr[k] = &c13dTrack{}
	}
	loc := map[string]int64{}
	dist := map[string]struct{}{}
	prev := "^"

	keyClass := func(k *c13dTrack) string {
		switch {
		case k.zeroTTL:
			return "ttl0"
		case k.short && k.slept:
			return "expired"
		}
		return "other"
	}
	report := func(i int, sig string, op c13dOp, a, b c13dAns, extra map[string]any) {
		d := map[string]any{"history": hidx, "mode": mode.Name, "redis_pool_size": pool, "op_index": i, "op": op.String(), "memory": a.render(), "redis": b.render(),
			"memory_err": a.Text, "redis_err": b.Text, "history_prefix": c13dPrefix(ops, i)}
		for k, v := range extra {
			d[k] = v
		}
		run.Violation(sig, d)
	}
	// both runs op on both backends; certain=false when the memory side may or may not
	// have expired the key (interval rule) => taint
	both := func(op c13dOp, k *c13dTrack) (a, b c13dAns, certain bool) {
		c := time.Now()
		a = c13dApply(mem, op)
		r := time.Now()
		b = c13dApply(red, op)
		certain = true
		if k != nil && k.short && !k.slept && !r.Before(k.c.Add(mode.Short)) {
			certain = false
		}
		_ = c
		return
	}

	for i, op := range ops {
		if op.Kind == "Sleep" {
			time.Sleep(mode.Sleep)
			mr.FastForward(mode.Sleep)
			for _, k := range tr {
				k.slept = true
			}
			loc["sleeps"]++
			prev = "Sleep"
			continue
		}
		if op.Kind == "CleanupExpired" {
			a, b, _ := both(op, nil)
			if a.Err != b.Err {
				report(i, "C13:diff|op=CleanupExpired|memory="+a.class()+"|redis="+b.class(), op, a, b, nil)
			}
			prev = op.Kind
			continue
		}
		k := tr[op.Key]
		overwrite := op.Kind == "Set" || op.Kind == "SetList" || op.Kind == "Delete"
		kc := keyClass(k)
		dist[prev+">"+op.Kind+"|"+op.argTTL()+"|"+kc] = struct{}{}
		prev = op.Kind

		// SetExpiration is only compared on keys both backends report as existing
		compare := true
		if op.Kind == "SetExpiration" {
			ea, eb, cert := both(c13dOp{Kind: "Exists", Key: op.Key}, k)
			if !cert || !(ea.Err == "ok" && eb.Err == "ok" && ea.B && eb.B) {
				compare = false
			}
		}
		// Exists on a list key: an EMPTY list is "present" in memory and "absent" in Redis
		// (Redis cannot hold an empty list) - this difference exists on the clean tree and
		// no caller asks Exists on a list key; it is tolerated only while both sides read
		// the list as empty, otherwise Exists must agree.
		if op.Kind == "Exists" && op.Key[0] == 'l' {
			la, lb, cert := both(c13dOp{Kind: "GetList", Key: op.Key}, k)
			if cert && !k.taint && la.Err == "ok" && lb.Err == "ok" && la.V == "[]" && lb.V == "[]" {
				loc["exists_on_empty_list_tolerated"]++
				both(op, k)
				continue
			}
		}
		cMem := time.Now()
		a, b, certain := both(op, k)
		if !overwrite && (k.taint || !certain) {
			if !certain {
				k.taint = true
			}
			loc["observations_not_compared"]++
			continue
		}
		if overwrite {
			k.taint = false
		}
		if !compare {
			loc["observations_not_compared"]++
			k.taint = true // SetExpiration on a key one side does not have: lifetimes now unknown
			continue
		}
		loc["observations_compared"]++
		same := a.Err == b.Err && a.B == b.B && a.V == b.V
		if op.Kind == "GetExpiration" {
			same = a.Err == b.Err
		}
		if kc == "ttl0" && op.Kind == "CAS" {
			loc["cas_on_ttl0_key"]++
		}
		if op.Kind == "CAS" && op.TTL == 0 && a.B && b.B {
			loc["cas_with_ttl0_swapped_on_both"]++
		}
		if kc == "expired" && (op.Kind == "SetNX" || op.Kind == "Append") {
			loc["create_after_expiry"]++
		}
		if !same {
			ma, rb := a.class(), b.class()
			if a.Err == "ok" && b.Err == "ok" {
				if a.B != b.B {
					ma, rb = fmt.Sprint(a.B), fmt.Sprint(b.B)
				} else {
					ma, rb = "value", "other-value"
				}
			}
			report(i, fmt.Sprintf("C13:diff|op=%s|key=%s|arg_ttl=%s|memory=%s|redis=%s", op.Kind, kc, op.argTTL(), ma, rb), op, a, b, nil)
			k.taint = true
			continue
		}
		// lifetime bookkeeping from the (agreed) outcome
		switch op.Kind {
		case "Set", "SetList":
			wasNonEmpty := k.nonEmpty
			*k = c13dTrack{short: op.TTL == mode.Short, c: cMem, zeroTTL: op.TTL == 0}
			if op.Kind == "SetList" && len(op.List) == 0 {
				// memory: present-and-empty with this lifetime; Redis: no key (a later append
				// creates one with the default lifetime). Same GetList answer, different lifetime.
				k.zeroTTL = false
				if k.short {
					k.taint = true
				}
				if wasNonEmpty {
					loc["setlist_empty_over_nonempty"]++
				}
			}
		case "SetNX", "CAS":
			if a.B {
				*k = c13dTrack{short: op.TTL == mode.Short, c: cMem, zeroTTL: op.TTL == 0}
			}
		case "SetExpiration":
			*k = c13dTrack{short: op.TTL == mode.Short, c: cMem, zeroTTL: op.TTL == 0}
		case "Delete":
			*k = c13dTrack{}
		case "Append", "SetHash", "Incr", "IncrBy":
			if k.short && k.slept { // re-created with the default lifetime
				*k = c13dTrack{}
			}
		}
		// read-back on both sides right after a mutator
		switch op.Kind {
		case "Get", "Exists", "GetList", "GetHash", "GetAllHash", "GetExpiration":
			continue
		}
		rop, okrb := c13dReadback(op.Key)
		if !okrb {
			continue
		}
		a2, b2, cert2 := both(rop, k)
		if !cert2 {
			k.taint = true
			loc["observations_not_compared"]++
			continue
		}
		loc["observations_compared"]++
		if a2.Err != b2.Err || a2.V != b2.V {
			ma, rb := a2.class(), b2.class()
			if a2.Err == "ok" && b2.Err == "ok" {
				ma, rb = "value", "other-value"
			}
			report(i, fmt.Sprintf("C13:diff|op=%s|key=%s|arg_ttl=%s|ret-same|readback:memory=%s|redis=%s", op.Kind, kc, op.argTTL(), ma, rb), op, a2, b2,
				map[string]any{"readback": rop.String(), "op_returned_on_both": a.render()})
			k.taint = true
			continue
		}
		if op.Key[0] == 'l' || op.Key[0] == 'h' {
			k.nonEmpty = b2.V != "[]" && b2.V != "{}"
		}
		// an emptied list/hash does not exist in Redis any more: a later append creates a
		// new key with the default lifetime there - not a "ttl 0" key any longer
		if (op.Kind == "Remove" && b2.V == "[]") || (op.Kind == "DeleteHash" && b2.V == "{}") {
			k.zeroTTL = false
			if k.short {
				k.taint = true // memory keeps the old short deadline on the emptied container
			}
		}
	}

	// zero ttl never expires: advance the virtual clock by 48 h on the Redis side
	type pre struct {
		key string
		ans c13dAns
	}
	var watch []pre
	for _, key := range c13dKeys {
		k := tr[key]
		if !k.zeroTTL || k.taint {
			continue
		}
		rop, okrb := c13dReadback(key)
		if !okrb {
			continue
		}
		ans := c13dApply(red, rop)
		if ans.Err == "ok" && ans.V != "[]" && ans.V != "{}" {
			watch = append(watch, pre{key, ans})
		}
	}
	mr.FastForward(48 * time.Hour)
	for _, w := range watch {
		rop, _ := c13dReadback(w.key)
		after := c13dApply(red, rop)
		loc["ttl0_keys_checked_after_48h"]++
		if after.Err != w.ans.Err || after.V != w.ans.V {
			run.Violation("C13:ttl0-expired|backend=redis|family="+string(w.key[0]), map[string]any{
				"history": hidx, "mode": mode.Name, "key": w.key, "before_48h": w.ans.render(), "after_48h": after.render(), "history_ops": c13dPrefix(ops, len(ops)-1)})
		}
	}

	st.mu.Lock()
	for k := range dist {
		st.distinct[k] = struct{}{}
	}
	for k, v := range loc {
		st.counts[k] += v
	}
	st.mu.Unlock()
}

func TestVerifC13Differential(t *testing.T) {
	vk.Quiet()
	run := vk.Start(t, "C13", "differential")
	defer run.Finish()
	run.Rule("seeded histories of 30-80 operations in the repositories' operation/value subset (scalar string keys: Set/Get/Delete/Exists/SetNX/CAS/SetExpiration/GetExpiration; list keys; hash keys; counter keys; ttl in {0, short, 1 h}; 7 of 8 histories: short = 40 ms for Set/SetNX only and sleep 60 ms; 1 of 8: short = 1 s for every ttl-carrying operation incl. SetList/CAS/SetExpiration and sleep 1.2 s) executed step by step on memory storage and on Redis storage over miniredis (PoolSize 2; every 50th history PoolSize 1) (each sleep mirrored by FastForward); answers and an immediate read-back compared after normalisation (SetList with nil/empty over existing lists included: GetList must answer [] on both; the clean tree's present-empty (memory) vs absent (Redis) difference is tolerated only for Exists on a list both sides read as empty); finally +48 h on miniredis: ttl-0 keys must survive; distinct = (previous op > op, ttl-argument class, key class)")
	nh := run.Pick(200, 4000)
	st := &c13dStats{distinct: map[string]struct{}{}, counts: map[string]int64{}}
	master := run.Rand("diff")
	type job struct {
		idx  int
		seed int64
	}
	jobs := make(chan job)
	var wg sync.WaitGroup
	for w := 0; w < 8; w++ {
		wg.Add(1)
		go func() {
			defer wg.Done()
			for j := range jobs {
				r := rand.New(rand.NewSource(j.seed))
				mode := c13dModeMs
				if j.idx%8 == 7 {
					mode = c13dModeSec
				}
				ops := c13dGenerate(r, 30+r.Intn(51), mode)
				if j.idx < 2 || j.idx == 7 {
					run.Sample(map[string]any{"history": j.idx, "mode": mode.Name, "ops": c13dPrefix(ops, len(ops)-1)})
				}
				c13RunDiffHistory(t, run, st, j.idx, ops, mode)
				run.Eval(1)
			}
		}()
	}
	for i := 0; i < nh; i++ {
		jobs <- job{i, master.Int63()}
	}
	close(jobs)
	wg.Wait()
	for k := range st.distinct {
		run.Distinct(k)
	}
	for k, v := range st.counts {
		run.Count(k, v)
	}
	run.Floor("observations_compared", int64(nh)*20)
	run.Floor("cas_on_ttl0_key", 20)
	run.Floor("cas_with_ttl0_swapped_on_both", 5)
	run.Floor("create_after_expiry", 5)
	run.Floor("setlist_empty_over_nonempty", 10)
	run.Floor("ttl0_keys_checked_after_48h", int64(nh)/4)
}
