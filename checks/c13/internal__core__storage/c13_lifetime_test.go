//go:build verif && verif_c13

package storage

import (
	"context"
	"errors"
	"fmt"
	"math/rand"
	"testing"
	"time"

	"github.com/alicebob/miniredis/v2"

	"tunnox-core/internal/cloud/constants"
	vk "tunnox-core/internal/verifkit"
)

// C13 (c2) — configuration axis + implicit lifetimes.
//
// The Redis backend is built with PoolSize 1 (a legal configuration: every command has
// to share one connection) and with the default pool. Short histories create fresh
// hash / list / counter keys through SetHash / AppendToList / Incr on both backends.
// Both backends give such keys the default lifetime (constants.DefaultDataTTL, 24 h)
// on the clean tree, so:
//   * every answer agrees between memory and Redis (same normalisation as (c));
//   * GetExpiration right after creation says "finite" on both; memory's remaining time
//     lies in [24h-(r2-c), 24h] (interval rule), Redis' in (24h-2s, 24h] (virtual clock,
//     whole seconds);
//   * on Redis the key is still there after +23 h of virtual time and gone after +25 h
//     (memory reads the real clock; its lifetime is decided by the bound above).
// Per-operation wall time is recorded as an observation (max, and the number of
// operations slower than 1 s) - never a verdict.

type c13lStep struct {
	op    c13dOp
	fresh bool // first operation on this key in the history: creates it
}

func c13lGenerate(r *rand.Rand) []c13lStep {
	var steps []c13lStep
	hk := fmt.Sprintf("h-fresh-%d", r.Intn(1000))
	lk := fmt.Sprintf("l-fresh-%d", r.Intn(1000))
	ck := fmt.Sprintf("c-fresh-%d", r.Intn(1000))
	val := func() any { return c13dHashVals[r.Intn(len(c13dHashVals))] }
	creators := []c13lStep{
		{c13dOp{Kind: "SetHash", Key: hk, Field: c13dFields[r.Intn(3)], Val: val()}, true},
		{c13dOp{Kind: "Append", Key: lk, Val: c13dStrings[r.Intn(len(c13dStrings))]}, true},
		{c13dOp{Kind: "Incr", Key: ck}, true},
	}
	r.Shuffle(len(creators), func(i, j int) { creators[i], creators[j] = creators[j], creators[i] })
	steps = append(steps, creators...)
	// a few follow-ups (at most one more SetHash: it is the slow operation of a faulty tree)
	more := []c13dOp{
		{Kind: "GetHash", Key: hk, Field: c13dFields[r.Intn(3)]},
		{Kind: "GetAllHash", Key: hk},
		{Kind: "SetHash", Key: hk, Field: c13dFields[r.Intn(3)], Val: val()},
		{Kind: "Append", Key: lk, Val: c13dStrings[r.Intn(len(c13dStrings))]},
		{Kind: "GetList", Key: lk},
		{Kind: "IncrBy", Key: ck, N: int64(1 + r.Intn(5))},
		{Kind: "DeleteHash", Key: hk, Field: "f-none"},
	}
	r.Shuffle(len(more), func(i, j int) { more[i], more[j] = more[j], more[i] })
	for _, o := range more[:3+r.Intn(4)] {
		steps = append(steps, c13lStep{o, false})
	}
	return steps
}

func c13lExpClass(d time.Duration, err error) string {
	switch {
	case errors.Is(err, ErrKeyNotFound):
		return "notfound"
	case err != nil:
		return "error"
	case d <= 0:
		return "never"
	}
	return "finite"
}

func c13RunLifetimeHistory(t *testing.T, run *vk.Run, hidx, pool int, r *rand.Rand) {
	poolName := "default"
	if pool > 0 {
		poolName = fmt.Sprint(pool)
	}
	mr, err := miniredis.Run()
	if err != nil {
		t.Errorf("[setup failed] miniredis: %v", err)
		return
	}
	defer mr.Close()
	ctx, cancel := context.WithCancel(context.Background())
	defer cancel()
	rs, err := NewRedisStorage(ctx, &RedisConfig{Addr: mr.Addr(), PoolSize: pool})
	if err != nil {
		t.Errorf("[setup failed] redis storage: %v", err)
		return
	}
	defer rs.Close()
	ms := NewMemoryStorage(ctx)
	defer ms.Close()
	mem := ms.(FullStorage)
	var red FullStorage = rs
	def := constants.DefaultDataTTL

	steps := c13lGenerate(r)
	var trace []string
	timed := func(s FullStorage, op c13dOp, backend string) c13dAns {
		t0 := time.Now()
		a := c13dApply(s, op)
		ms := time.Since(t0).Milliseconds()
		run.Max("op_wall_ms_max_"+backend+"_pool_"+poolName, ms)
		if ms >= 1000 {
			run.Count("ops_slower_than_1s_"+backend+"_pool_"+poolName, 1)
			run.Observe("slow_op_"+backend+"_pool_"+poolName, map[string]any{"op": op.String(), "ms": ms, "history": hidx})
		}
		return a
	}
	detail := func(extra map[string]any) map[string]any {
		d := map[string]any{"history": hidx, "redis_pool_size": poolName, "ops": trace}
		for k, v := range extra {
			d[k] = v
		}
		return d
	}
	fresh := map[string]string{} // key -> creating op kind
	for _, st := range steps {
		op := st.op
		trace = append(trace, op.String())
		c := time.Now()
		a := timed(mem, op, "memory")
		b := timed(red, op, "redis")
		run.Count("observations_compared", 1)
		if a.Err != b.Err || a.B != b.B || a.V != b.V {
			run.Violation(fmt.Sprintf("C13:diff|pool=%s|op=%s|memory=%s|redis=%s", poolName, op.Kind, a.class(), b.class()),
				detail(map[string]any{"op": op.String(), "memory": a.render(), "redis": b.render(), "memory_err": a.Text, "redis_err": b.Text}))
			return
		}
		if !st.fresh {
			continue
		}
		fresh[op.Key] = op.Kind
		// lifetime right after implicit creation
		dm, em := mem.GetExpiration(op.Key)
		r2 := time.Now()
		dr, er := red.GetExpiration(op.Key)
		cm, cr := c13lExpClass(dm, em), c13lExpClass(dr, er)
		run.Count("implicit_lifetimes_observed", 1)
		okM := cm == "finite" && dm <= def && dm >= def-r2.Sub(c)
		okR := cr == "finite" && dr <= def && dr > def-2*time.Second
		if cm != cr || !okM || !okR {
			run.Violation(fmt.Sprintf("C13:implicit-lifetime|pool=%s|op=%s|memory=%s|redis=%s", poolName, op.Kind, cm, cr),
				detail(map[string]any{"key": op.Key, "expected": "both finite, about " + def.String(), "memory_remaining": dm.String(), "redis_remaining": dr.String()}))
			return
		}
	}
	// survival on the Redis side: +23 h still there, +25 h gone
	mr.FastForward(23 * time.Hour)
	for key, kind := range fresh {
		if ok, err := red.Exists(key); err != nil || !ok {
			run.Violation(fmt.Sprintf("C13:implicit-lifetime|pool=%s|op=%s|redis=gone-before-24h", poolName, kind), detail(map[string]any{"key": key, "exists_err": fmt.Sprint(err)}))
			return
		}
	}
	mr.FastForward(2 * time.Hour)
	for key, kind := range fresh {
		run.Count("keys_checked_after_25h", 1)
		if ok, err := red.Exists(key); err != nil || ok {
			run.Violation(fmt.Sprintf("C13:implicit-lifetime|pool=%s|op=%s|redis=alive-after-25h|memory=24h", poolName, kind), detail(map[string]any{"key": key, "exists_err": fmt.Sprint(err)}))
			return
		}
	}
}

func TestVerifC13DiffLifetimeAndPool(t *testing.T) {
	vk.Quiet()
	run := vk.Start(t, "C13", "differential-lifetime-pool")
	defer run.Finish()
	run.Rule("Redis storage built with PoolSize 1 and with the default pool; per configuration a few short seeded histories create fresh hash/list/counter keys by SetHash/AppendToList/Incr (+3-6 follow-up operations) on memory and Redis; answers must agree, GetExpiration after creation must be 'finite, about 24 h' on both (memory by the interval rule, Redis within 2 s), and on Redis the keys must exist after +23 h and be gone after +25 h of virtual time; per-operation wall time is an observation; distinct = (pool, creating operation)")
	nh := run.Pick(4, 40)
	r := run.Rand("lifetime")
	for _, pool := range []int{1, 0} {
		before := run.Violations()
		for h := 0; h < nh; h++ {
			run.Case(fmt.Sprintf("lifetime|pool=%d", pool), map[string]any{"history": h})
			c13RunLifetimeHistory(t, run, h, pool, rand.New(rand.NewSource(r.Int63())))
			run.Eval(1)
			if run.Violations() > before {
				break // a faulty tree may make every further history slow
			}
		}
		for _, k := range []string{"SetHash", "Append", "Incr"} {
			run.Distinct(fmt.Sprintf("pool=%d|%s", pool, k))
		}
	}
	run.Floor("implicit_lifetimes_observed", int64(nh)*3)
	run.Floor("keys_checked_after_25h", int64(nh)*3)
}
