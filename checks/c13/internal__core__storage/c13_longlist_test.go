//go:build verif && verif_c13

package storage

import (
	"context"
	"fmt"
	"math/rand"
	"testing"
	"time"

	"github.com/alicebob/miniredis/v2"

	vk "tunnox-core/internal/verifkit"
)

// C13 (c3) — long lists. The repositories keep global index lists (all mappings, webhook
// logs) that grow far beyond the handful of elements of the random histories. Lists of
// 255, 256, 257, 512, 513, 700 and 1025 string elements (with some duplicated values) are
// built by SetList + AppendToList on the memory and the Redis backend, then shrunk by
// RemoveFromList (a duplicated value, elements around the 256 boundaries, random ones)
// and extended again; after every step GetList of BOTH backends must equal the list a
// plain slice model holds (same length, same order).

func c13llCanon(l []any) string { return c13dCanon(append([]any{}, l...)) }

func c13llFirstDiff(want, got []any) string {
	n := len(want)
	if len(got) < n {
		n = len(got)
	}
	for i := 0; i < n; i++ {
		if c13dCanon(want[i]) != c13dCanon(got[i]) {
			return fmt.Sprintf("index %d: want %s got %s", i, c13dCanon(want[i]), c13dCanon(got[i]))
		}
	}
	return fmt.Sprintf("common prefix equal; want len %d got len %d", len(want), len(got))
}

func c13RunLongList(t *testing.T, run *vk.Run, n int, r *rand.Rand) {
	mr, err := miniredis.Run()
	if err != nil {
		t.Errorf("[setup failed] miniredis: %v", err)
		return
	}
	defer mr.Close()
	ctx, cancel := context.WithCancel(context.Background())
	defer cancel()
	rs, err := NewRedisStorage(ctx, &RedisConfig{Addr: mr.Addr(), PoolSize: 2})
	if err != nil {
		t.Errorf("[setup failed] redis storage: %v", err)
		return
	}
	defer rs.Close()
	ms := NewMemoryStorage(ctx)
	defer ms.Close()
	backends := []struct {
		name string
		s    FullStorage
	}{{"memory", ms.(FullStorage)}, {"redis", rs}}

	key := fmt.Sprintf("ll-%d", n)
	vals := make([]any, n)
	for i := range vals {
		vals[i] = fmt.Sprintf("id-%04d", i)
		if i%97 == 13 {
			vals[i] = "dup"
		}
	}
	var model []any
	var trace []string
	bucket := func() string {
		if len(model) > 256 {
			return "gt256"
		}
		return "le256"
	}
	check := func(step string) bool {
		trace = append(trace, fmt.Sprintf("%s -> model len %d", step, len(model)))
		for _, b := range backends {
			got, err := b.s.GetList(key)
			if err != nil && !(len(model) == 0) {
				run.Violation("C13:longlist|backend="+b.name+"|model_len="+bucket()+"|GetList=error", map[string]any{"n": n, "steps": trace, "error": err.Error()})
				return false
			}
			run.Count("getlist_compared_"+bucket(), 1)
			if len(got) != len(model) {
				run.Violation("C13:longlist|backend="+b.name+"|model_len="+bucket()+"|length-differs", map[string]any{"n": n, "steps": trace, "want_len": len(model), "got_len": len(got), "first_difference": c13llFirstDiff(model, got)})
				return false
			}
			if c13llCanon(got) != c13llCanon(model) {
				run.Violation("C13:longlist|backend="+b.name+"|model_len="+bucket()+"|content-differs", map[string]any{"n": n, "steps": trace, "first_difference": c13llFirstDiff(model, got)})
				return false
			}
		}
		return true
	}
	apply := func(step string, f func(s FullStorage) error) bool {
		for _, b := range backends {
			if err := f(b.s); err != nil {
				run.Violation("C13:longlist|backend="+b.name+"|op-error", map[string]any{"n": n, "steps": append(trace, step), "error": err.Error()})
				return false
			}
		}
		return true
	}
	// build: SetList with a prefix, append the rest
	k := 1 + r.Intn(n)
	if k > 300 {
		k = 300
	}
	model = append([]any{}, vals[:k]...)
	if !apply("SetList", func(s FullStorage) error { return s.SetList(key, append([]any{}, vals[:k]...), 0) }) {
		return
	}
	for i := k; i < n; i++ {
		v := vals[i]
		model = append(model, v)
		if !apply("Append", func(s FullStorage) error { return s.AppendToList(key, v) }) {
			return
		}
		if l := len(model); l == 255 || l == 256 || l == 257 || l == 512 || l == 513 {
			if !check(fmt.Sprintf("SetList(%d)+Append.. up to %d", k, l)) {
				return
			}
		}
	}
	if !check(fmt.Sprintf("built %d elements (SetList %d + %d appends)", n, k, n-k)) {
		return
	}
	remove := func(v any) bool {
		out := model[:0:0]
		for _, x := range model {
			if x != v {
				out = append(out, x)
			}
		}
		model = out
		if !apply("Remove", func(s FullStorage) error { return s.RemoveFromList(key, v) }) {
			return false
		}
		return check(fmt.Sprintf("Remove(%v)", v))
	}
	targets := []any{"dup"}
	for _, i := range []int{0, 254, 255, 256, 257, 511, 512, n - 1, r.Intn(n), r.Intn(n)} {
		if i >= 0 && i < n {
			targets = append(targets, fmt.Sprintf("id-%04d", i))
		}
	}
	for _, v := range targets {
		if !remove(v) {
			return
		}
	}
	for j := 0; j < 3; j++ {
		v := fmt.Sprintf("tail-%d", j)
		model = append(model, v)
		if !apply("Append", func(s FullStorage) error { return s.AppendToList(key, v) }) {
			return
		}
	}
	check("3 more appends")
}

func TestVerifC13DiffLongLists(t *testing.T) {
	vk.Quiet()
	run := vk.Start(t, "C13", "differential-long-lists")
	defer run.Finish()
	run.Rule("lists of 255/256/257/512/513/700/1025 (+ seeded random sizes up to 1400 in the thorough tier) string elements incl. duplicated values, built by SetList+AppendToList, shrunk by RemoveFromList around the 256 boundaries, extended again, on memory and Redis(miniredis); GetList of each backend must equal a plain slice model after every step; distinct = list size")
	r := run.Rand("longlists")
	sizes := []int{255, 256, 257, 512, 513, 700, 1025}
	for i := 0; i < run.Pick(0, 20); i++ {
		sizes = append(sizes, 1+r.Intn(1400))
	}
	for _, n := range sizes {
		run.Case(fmt.Sprintf("longlist|n=%d", n), nil)
		c13RunLongList(t, run, n, rand.New(rand.NewSource(r.Int63())))
		run.Eval(1)
		run.Distinct(fmt.Sprint(n))
		if run.Violations() >= 6 {
			break
		}
	}
	run.Floor("getlist_compared_gt256", 60)
	run.Floor("getlist_compared_le256", 20)
}

// C13 (c4) — a live key keeps its lifetime under operations of another family. A scalar /
// list key is created with ttl 0 or the short ttl on both backends, then SetHash,
// AppendToList or Incr of the wrong family is applied while it is alive. What the
// backends answer to that is a documented difference for SetHash (memory replaces the
// value, Redis refuses) and an error on both for the others; none of them carries a
// lifetime, so afterwards both backends must agree with each other and with the
// lifetime the key was given: ttl 0 => GetExpiration "never" on both and still present
// after +25 h of virtual time on Redis; short ttl => gone on both after the sleep.

func TestVerifC13DiffRetypeLifetime(t *testing.T) {
	vk.Quiet()
	run := vk.Start(t, "C13", "differential-retype-lifetime")
	defer run.Finish()
	run.Rule("creator in {Set, SetNX} x ttl in {0, 40 ms} and SetList with ttl 0 x wrong-family operation in {SetHash, AppendToList/SetHash on list, Incr} on a live key of memory and Redis(miniredis); afterwards the key's lifetime must be the one it was given on both backends (GetExpiration class, Exists after sleep 60 ms = FastForward 60 ms, Redis +25 h); distinct = (creator, ttl, operation)")
	const short, sleep = 40 * time.Millisecond, 60 * time.Millisecond
	reps := run.Pick(1, 10)
	for rep := 0; rep < reps; rep++ {
		for _, creator := range []string{"Set", "SetNX", "SetList"} {
			for _, ttl := range []time.Duration{0, short} {
				for _, wrong := range []string{"SetHash", "Append", "Incr"} {
					if creator == "SetList" && (wrong == "Append" || ttl != 0) {
						continue // same family / SetList's lifetime goes through EXPIRE: whole seconds only
					}
					name := fmt.Sprintf("create=%s|ttl=%s|op=%s", creator, c13dTTL(ttl), wrong)
					run.Case("retype|"+name, nil)
					// a stall between creation and the operation (short key possibly expired) is
					// "not this scenario": retried, at most 6 times, so the floor does not depend on load
					for try := 0; try < 6 && !c13RunRetype(t, run, name, creator, wrong, ttl, short, sleep); try++ {
					}
					run.Eval(1)
					run.Distinct(name)
				}
			}
		}
	}
	run.Floor("retype_lifetimes_compared", int64(reps)*14)
}

func c13RunRetype(t *testing.T, run *vk.Run, name, creator, wrong string, ttl, short, sleep time.Duration) (judged bool) {
	judged = true // everything but a stall counts as "scenario done"
	mr, err := miniredis.Run()
	if err != nil {
		t.Errorf("[setup failed] miniredis: %v", err)
		return
	}
	defer mr.Close()
	ctx, cancel := context.WithCancel(context.Background())
	defer cancel()
	rs, err := NewRedisStorage(ctx, &RedisConfig{Addr: mr.Addr(), PoolSize: 2})
	if err != nil {
		t.Errorf("[setup failed] redis storage: %v", err)
		return
	}
	defer rs.Close()
	ms := NewMemoryStorage(ctx)
	defer ms.Close()
	mem, red := ms.(FullStorage), FullStorage(rs)
	key := "rk"
	cop := c13dOp{Kind: creator, Key: key, Val: "a", TTL: ttl}
	if creator == "SetList" {
		cop = c13dOp{Kind: "SetList", Key: key, List: []any{"a", "b"}, TTL: ttl}
	}
	wop := c13dOp{Kind: wrong, Key: key, Field: "f1", Val: "x"}
	c := time.Now()
	a0, b0 := c13dApply(mem, cop), c13dApply(red, cop)
	a1, b1 := c13dApply(mem, wop), c13dApply(red, wop)
	r1 := time.Now()
	detail := func(extra map[string]any) map[string]any {
		d := map[string]any{"create": cop.String(), "create_memory": a0.render(), "create_redis": b0.render(),
			"then": wop.String(), "then_memory": a1.render() + " " + a1.Text, "then_redis": b1.render() + " " + b1.Text}
		for k, v := range extra {
			d[k] = v
		}
		return d
	}
	if a0.Err != "ok" || b0.Err != "ok" {
		run.Violation("C13:retype-lifetime|"+name+"|create-failed", detail(nil))
		return
	}
	if wrong != "SetHash" && (a1.Err != b1.Err) {
		run.Violation("C13:retype-lifetime|"+name+"|answer:memory="+a1.class()+"|redis="+b1.class(), detail(nil))
		return
	}
	if ttl == short && !r1.Before(c.Add(short)) {
		run.Count("retype_not_judged_stall", 1) // the key may have expired before the operation: not this scenario
		return false
	}
	run.Count("retype_lifetimes_compared", 1)
	if ttl == 0 {
		dm, em := mem.GetExpiration(key)
		dr, er := red.GetExpiration(key)
		cm, cr := c13lExpClass(dm, em), c13lExpClass(dr, er)
		if cm != "never" || cr != "never" {
			run.Violation(fmt.Sprintf("C13:retype-lifetime|%s|memory=%s|redis=%s|want=never", name, cm, cr), detail(map[string]any{"memory_remaining": dm.String(), "redis_remaining": dr.String()}))
			return
		}
		mr.FastForward(25 * time.Hour)
		if ok, err := red.Exists(key); err != nil || !ok {
			run.Violation("C13:retype-lifetime|"+name+"|redis=gone-after-25h|want=never", detail(nil))
		}
		return
	}
	time.Sleep(sleep)
	mr.FastForward(sleep)
	em, _ := mem.Exists(key)
	er, _ := red.Exists(key)
	if em || er {
		run.Violation(fmt.Sprintf("C13:retype-lifetime|%s|after-deadline:memory_exists=%v|redis_exists=%v|want=gone", name, em, er), detail(nil))
	}
	return true
}
