//go:build verif && verif_c13

package memory

import (
	"errors"
	"fmt"
	"sort"
	"strings"
	"time"

	"tunnox-core/internal/core/storage/types"
)

// C13 reference model: "a simple sequential map with expiry", written from the
// property statement and the interface documentation (types/interfaces.go):
//   * a key holds one value (scalar, list, hash); ttl 0 = never expires;
//   * an expired key is indistinguishable from an absent key;
//   * list/hash/counter operations on an absent key create it (default lifetime,
//     24 h in both backends - never reached by a history, its magnitude is not judged);
//   * SetNX sets iff absent; CompareAndSwap(old=nil) sets iff absent, otherwise
//     swaps iff current == old; both (re)define the lifetime from their ttl argument;
//   * operations of the wrong family on a live key fail with an error and change nothing;
//     SetHash over a live non-hash value may either do that or replace the value - in both
//     cases the key keeps its lifetime (only operations carrying a ttl, or creation of an
//     absent key, define a lifetime).
//
// Time: the store reads time.Now() itself. The model never uses its own "now": every
// operation carries its call/return instants [c,r]; a deadline established by an
// operation lies in [c+ttl, r+ttl]; a later observation [c2,r2] is certainly-before iff
// r2 < c+ttl and certainly-after iff c2 > r+ttl (DESIGN 2.3). Anything else is
// "uncertain": the key is tainted and not judged again until an unconditional
// overwrite (Set/SetList/Delete) re-defines it.

const (
	c13Short = 40 * time.Millisecond
	c13Long  = time.Hour
	c13Sleep = 60 * time.Millisecond
)

type c13Op struct {
	Kind  string        `json:"op"`
	Key   string        `json:"key,omitempty"`
	Field string        `json:"field,omitempty"`
	Val   any           `json:"val,omitempty"`
	Old   any           `json:"old,omitempty"` // nil = "expect absent"
	List  []any         `json:"list,omitempty"`
	N     int64         `json:"n,omitempty"`
	TTL   time.Duration `json:"ttl_ns,omitempty"`
}

func c13TTLClass(d time.Duration) string {
	switch {
	case d == 0:
		return "0"
	case d < time.Second:
		return "short"
	default:
		return "long"
	}
}

func (o c13Op) hasTTL() bool {
	switch o.Kind {
	case "Set", "SetList", "SetNX", "CAS", "SetExpiration":
		return true
	}
	return false
}

func (o c13Op) String() string {
	var b strings.Builder
	b.WriteString(o.Kind)
	b.WriteString("(")
	b.WriteString(o.Key)
	switch o.Kind {
	case "Set", "SetNX", "Append", "Remove":
		fmt.Fprintf(&b, ",%#v", o.Val)
	case "SetList":
		fmt.Fprintf(&b, ",%#v", o.List)
	case "SetHash":
		fmt.Fprintf(&b, ",%s,%#v", o.Field, o.Val)
	case "GetHash", "DeleteHash":
		fmt.Fprintf(&b, ",%s", o.Field)
	case "IncrBy":
		fmt.Fprintf(&b, ",%d", o.N)
	case "CAS":
		fmt.Fprintf(&b, ",old=%#v,new=%#v", o.Old, o.Val)
	}
	if o.hasTTL() {
		fmt.Fprintf(&b, ",ttl=%s", c13TTLClass(o.TTL))
	}
	b.WriteString(")")
	return b.String()
}

// c13Exp is what the model expects an operation to answer.
type c13Exp struct {
	Judge bool   // false: not judged (tainted / uncertain / unspecified)
	Err   string // "ok" | "notfound" | "error"
	HasB  bool
	B     bool
	HasV  bool
	V     any
	HasD  bool // GetExpiration magnitude bounds
	DLo   time.Duration
	DHi   time.Duration
	State string // state of the key before the operation (signature material)
	VKind string // kind of the live value before the operation: none|scalar|list|hash
	Mark  string // non-vacuity marker of the branch taken
	Mark2 string // second marker (lifetime observed after a type-changing SetHash)
	Never bool   // GetExpiration on a never-expiring key: no positive remaining time may be reported
}

// c13Got is what the store answered.
type c13Got struct {
	Err     string
	ErrText string
	B       bool
	V       any
	D       time.Duration
	Panic   string
}

type c13Entry struct {
	val      any // string | int64 | []any | map[string]any
	never    bool
	implicit bool
	lo, hi   time.Time
	class    string // "ttl0" | "short" | "long" | "implicit"
	retyped  bool   // a SetHash replaced a live value of another family (lifetime must be unchanged)
}

type c13Model struct {
	m     map[string]*c13Entry
	taint map[string]bool
	// gotErr: error class the store answered for the operation being stepped ("" while
	// generating). Only consulted where the reference allows two outcomes.
	gotErr string
}

func c13NewModel() *c13Model {
	return &c13Model{m: map[string]*c13Entry{}, taint: map[string]bool{}}
}

func c13VKind(v any) string {
	switch v.(type) {
	case nil:
		return "none"
	case []any:
		return "list"
	case map[string]any:
		return "hash"
	default:
		return "scalar"
	}
}

// look classifies key for an observation [c,r]: the live entry (or nil) and a state word.
func (m *c13Model) look(key string, c, r time.Time) (*c13Entry, string) {
	e := m.m[key]
	if e == nil {
		return nil, "absent"
	}
	if e.never || e.implicit {
		return e, e.class
	}
	if r.Before(e.lo) {
		return e, e.class
	}
	if c.After(e.hi) {
		return nil, "expired"
	}
	return nil, "uncertain"
}

func (m *c13Model) put(key string, val any, ttl time.Duration, c, r time.Time) {
	e := &c13Entry{val: val}
	m.m[key] = e
	e.setTTL(ttl, c, r)
}

func (e *c13Entry) setTTL(ttl time.Duration, c, r time.Time) {
	e.implicit = false
	if ttl <= 0 {
		e.never, e.class = true, "ttl0"
		return
	}
	e.never = false
	e.lo, e.hi = c.Add(ttl), r.Add(ttl)
	e.class = c13TTLClass(ttl)
}

func (m *c13Model) putImplicit(key string, val any) {
	m.m[key] = &c13Entry{val: val, implicit: true, class: "implicit"}
}

func c13CopyList(l []any) []any {
	out := make([]any, len(l))
	copy(out, l)
	return out
}

func c13CopyHash(h map[string]any) map[string]any {
	out := make(map[string]any, len(h))
	for k, v := range h {
		out[k] = v
	}
	return out
}

func c13CopyVal(v any) any {
	switch x := v.(type) {
	case []any:
		return c13CopyList(x)
	case map[string]any:
		return c13CopyHash(x)
	}
	return v
}

// c13Equal compares answers structurally (nil and empty containers are the same list).
func c13Equal(a, b any) bool {
	switch x := a.(type) {
	case []any:
		y, ok := b.([]any)
		if !ok || len(x) != len(y) {
			return false
		}
		for i := range x {
			if !c13Equal(x[i], y[i]) {
				return false
			}
		}
		return true
	case map[string]any:
		y, ok := b.(map[string]any)
		if !ok || len(x) != len(y) {
			return false
		}
		for k, v := range x {
			w, ok := y[k]
			if !ok || !c13Equal(v, w) {
				return false
			}
		}
		return true
	case string:
		y, ok := b.(string)
		return ok && x == y
	case int64:
		y, ok := b.(int64)
		return ok && x == y
	case nil:
		return b == nil
	}
	return false
}

// step applies op observed during [c,r] and returns the expected answer.
func (m *c13Model) step(op c13Op, c, r time.Time) c13Exp {
	if op.Kind == "Sleep" || op.Kind == "CleanupExpired" {
		return c13Exp{Judge: true, Err: "ok", State: "-", VKind: "-"}
	}
	key := op.Key
	e, st := m.look(key, c, r)
	exp := c13Exp{State: st, VKind: "none"}
	if e != nil {
		exp.VKind = c13VKind(e.val)
	}
	overwrite := op.Kind == "Set" || op.Kind == "SetList" || op.Kind == "Delete"
	if !overwrite {
		if m.taint[key] {
			exp.State = "tainted"
			return exp
		}
		if st == "uncertain" {
			m.taint[key] = true
			delete(m.m, key)
			return exp
		}
	}
	delete(m.taint, key)
	exp.Judge = true
	exp.Err = "ok"
	wrong := func() c13Exp { exp.Err = "error"; exp.Mark = "wrong-family"; return exp }
	switch op.Kind {
	case "Set":
		m.put(key, op.Val, op.TTL, c, r)
	case "SetList":
		if l, ok := func() ([]any, bool) {
			if e == nil {
				return nil, false
			}
			l, ok := e.val.([]any)
			return l, ok
		}(); ok && len(l) > 0 && len(op.List) == 0 {
			exp.Mark = "setlist-empty-over-nonempty"
		}
		m.put(key, c13CopyList(op.List), op.TTL, c, r)
	case "Delete":
		delete(m.m, key)
	case "Get":
		if e == nil {
			exp.Err = "notfound"
			if st == "expired" {
				exp.Mark = "get-after-expiry"
			}
		} else {
			exp.HasV, exp.V = true, c13CopyVal(e.val)
		}
	case "Exists":
		exp.HasB, exp.B = true, e != nil
	case "GetList":
		if e == nil {
			exp.Err = "notfound"
		} else if l, ok := e.val.([]any); ok {
			exp.HasV, exp.V = true, c13CopyList(l)
		} else {
			return wrong()
		}
	case "Append":
		if e == nil {
			m.putImplicit(key, []any{op.Val})
			if st == "expired" {
				exp.Mark = "append-after-expiry"
			}
		} else if l, ok := e.val.([]any); ok {
			e.val = append(c13CopyList(l), op.Val)
		} else {
			return wrong()
		}
	case "Remove":
		if e == nil {
			delete(m.m, key)
		} else if l, ok := e.val.([]any); ok {
			out := make([]any, 0, len(l))
			for _, v := range l {
				if !c13Equal(v, op.Val) {
					out = append(out, v)
				}
			}
			if len(out) < len(l) {
				exp.Mark = "remove-by-value"
			}
			e.val = out
		} else {
			return wrong()
		}
	case "SetHash":
		if e == nil {
			m.putImplicit(key, map[string]any{op.Field: op.Val})
			if st == "expired" {
				exp.Mark = "sethash-after-expiry"
			}
		} else if h, ok := e.val.(map[string]any); ok {
			h2 := c13CopyHash(h)
			h2[op.Field] = op.Val
			e.val = h2
		} else {
			// SetHash over a live value of another family. The interface does not say whether
			// the store refuses (Redis: WRONGTYPE) or replaces the value (memory). Both are
			// accepted. What a map with expiry fixes either way: SetHash carries no lifetime,
			// so the LIVE key keeps the lifetime it has (a ttl-0 key stays immortal, a short
			// key still dies at its deadline) - only an absent key gets the default lifetime.
			exp.Mark = "sethash-over-live-other-family"
			if m.gotErr == "error" {
				exp.Err = "error"
			} else {
				e.val = map[string]any{op.Field: op.Val}
				e.retyped = true
			}
		}
	case "GetHash":
		if e == nil {
			exp.Err = "notfound"
		} else if h, ok := e.val.(map[string]any); ok {
			if v, ok := h[op.Field]; ok {
				exp.HasV, exp.V = true, v
			} else {
				exp.Err = "notfound"
			}
		} else {
			return wrong()
		}
	case "GetAllHash":
		if e == nil {
			exp.Err = "notfound"
		} else if h, ok := e.val.(map[string]any); ok {
			exp.HasV, exp.V = true, c13CopyHash(h)
		} else {
			return wrong()
		}
	case "DeleteHash":
		if e == nil {
			delete(m.m, key)
		} else if h, ok := e.val.(map[string]any); ok {
			h2 := c13CopyHash(h)
			delete(h2, op.Field)
			e.val = h2
		} else {
			return wrong()
		}
	case "Incr", "IncrBy":
		n := op.N
		if op.Kind == "Incr" {
			n = 1
		}
		if e == nil {
			m.putImplicit(key, n)
			exp.HasV, exp.V = true, n
			if st == "expired" {
				exp.Mark = "incr-after-expiry"
			}
		} else if cur, ok := e.val.(int64); ok {
			e.val = cur + n
			exp.HasV, exp.V = true, cur+n
		} else {
			return wrong()
		}
	case "SetNX":
		exp.HasB = true
		if e == nil {
			exp.B = true
			m.put(key, op.Val, op.TTL, c, r)
			if st == "expired" {
				exp.Mark = "setnx-after-expiry"
			}
		} else {
			exp.Mark = "setnx-on-live"
		}
	case "CAS":
		exp.HasB = true
		if e == nil {
			if op.Old == nil {
				exp.B = true
				m.put(key, op.Val, op.TTL, c, r)
			}
			exp.Mark = "cas-on-absent"
		} else {
			if e.never {
				exp.Mark = "cas-on-ttl0-key"
			}
			if op.Old != nil && exp.VKind == "scalar" && c13Equal(e.val, op.Old) {
				exp.B = true
				e.val = op.Val
				e.setTTL(op.TTL, c, r)
			}
		}
	case "SetExpiration":
		if e == nil {
			exp.Err = "notfound"
			if st == "expired" {
				exp.Mark = "setexp-on-expired"
			}
		} else {
			e.setTTL(op.TTL, c, r)
		}
	case "GetExpiration":
		if e == nil {
			exp.Err = "notfound"
		} else if e.never {
			exp.Never = true
		} else if !e.implicit {
			// remaining = deadline - now, deadline in [lo,hi], now in [c,r]
			exp.HasD, exp.DLo, exp.DHi = true, e.lo.Sub(r), e.hi.Sub(c)
		}
	default:
		panic("c13 model: unknown op " + op.Kind)
	}
	switch op.Kind {
	case "Get", "Exists", "GetHash", "GetAllHash", "GetExpiration":
		if cur := m.m[key]; cur != nil && cur.retyped && (st == "expired" || op.Kind == "GetExpiration") {
			exp.Mark2 = "lifetime-observed-after-retype"
		}
	}
	return exp
}

// c13Apply performs op on the real store and normalises the answer.
func c13Apply(s *Storage, op c13Op) (got c13Got) {
	defer func() {
		if p := recover(); p != nil {
			got.Panic = fmt.Sprint(p)
			got.Err = "panic"
		}
	}()
	var err error
	switch op.Kind {
	case "Set":
		err = s.Set(op.Key, op.Val, op.TTL)
	case "Get":
		var v any
		v, err = s.Get(op.Key)
		got.V = c13CopyVal(v)
	case "Delete":
		err = s.Delete(op.Key)
	case "Exists":
		got.B, err = s.Exists(op.Key)
	case "SetList":
		var l []any
		if op.List != nil {
			l = c13CopyList(op.List)
		}
		err = s.SetList(op.Key, l, op.TTL)
	case "GetList":
		var l []any
		l, err = s.GetList(op.Key)
		if err == nil {
			got.V = c13CopyList(l)
		}
	case "Append":
		err = s.AppendToList(op.Key, op.Val)
	case "Remove":
		err = s.RemoveFromList(op.Key, op.Val)
	case "SetHash":
		err = s.SetHash(op.Key, op.Field, op.Val)
	case "GetHash":
		got.V, err = s.GetHash(op.Key, op.Field)
	case "GetAllHash":
		var h map[string]any
		h, err = s.GetAllHash(op.Key)
		if err == nil {
			got.V = c13CopyHash(h)
		}
	case "DeleteHash":
		err = s.DeleteHash(op.Key, op.Field)
	case "Incr":
		var n int64
		n, err = s.Incr(op.Key)
		got.V = n
	case "IncrBy":
		var n int64
		n, err = s.IncrBy(op.Key, op.N)
		got.V = n
	case "SetNX":
		got.B, err = s.SetNX(op.Key, op.Val, op.TTL)
	case "CAS":
		got.B, err = s.CompareAndSwap(op.Key, op.Old, op.Val, op.TTL)
	case "SetExpiration":
		err = s.SetExpiration(op.Key, op.TTL)
	case "GetExpiration":
		got.D, err = s.GetExpiration(op.Key)
	case "CleanupExpired":
		err = s.CleanupExpired()
	default:
		panic("c13 apply: unknown op " + op.Kind)
	}
	switch {
	case err == nil:
		got.Err = "ok"
	case errors.Is(err, types.ErrKeyNotFound):
		got.Err, got.ErrText = "notfound", err.Error()
	default:
		got.Err, got.ErrText = "error", err.Error()
	}
	return got
}

// c13Compare returns "" when got is an answer the model allows, else "want=..|got=..".
func c13Compare(exp c13Exp, got c13Got) string {
	if got.Panic != "" {
		return "want=" + exp.Err + "|got=panic"
	}
	if exp.Err != got.Err {
		return "want=" + exp.Err + "|got=" + got.Err
	}
	if exp.Err != "ok" {
		return ""
	}
	if exp.HasB && exp.B != got.B {
		return fmt.Sprintf("want=%v|got=%v", exp.B, got.B)
	}
	if exp.HasV && !c13Equal(exp.V, got.V) {
		return "want=value|got=other-value"
	}
	if exp.Never && got.D > 0 {
		return "want=never-expires|got=finite-remaining"
	}
	if exp.HasD && (got.D < exp.DLo || got.D > exp.DHi) {
		return "want=remaining-in-bounds|got=out-of-bounds"
	}
	return ""
}

func c13SortedKeys(m map[string]int) []string {
	out := make([]string, 0, len(m))
	for k := range m {
		out = append(out, k)
	}
	sort.Strings(out)
	return out
}
