//go:build verif && verif_c13

package memory

import (
	"context"
	"fmt"
	"math/rand"
	"sync"
	"testing"
	"time"

	vk "tunnox-core/internal/verifkit"
)

// C13 (a) — sequential histories of the in-memory backend against the reference model.

var c13Keys = []string{"k1", "k2", "k3", "k4"}
var c13Fields = []string{"f1", "f2", "f3"}
var c13Scalars = []any{
	"a", "b", "c", "",
	`{"id":1}`, `{"id":2,"name":"x y"}`, `["p","q"]`,
	int64(0), int64(1), int64(7), int64(-3),
}
var c13TTLs = []time.Duration{0, c13Short, c13Long}

type c13Weighted struct {
	kind string
	w    int
	fam  string // value family the op needs on a live key: any|scalar|list|hash|int
}

var c13OpTable = []c13Weighted{
	{"Set", 10, "any"}, {"Get", 7, "any"}, {"Delete", 3, "any"}, {"Exists", 4, "any"},
	{"SetList", 5, "any"}, {"GetList", 5, "list"}, {"Append", 7, "list"}, {"Remove", 6, "list"},
	{"SetHash", 7, "hash"}, {"GetHash", 5, "hash"}, {"GetAllHash", 4, "hash"}, {"DeleteHash", 3, "hash"},
	{"Incr", 4, "int"}, {"IncrBy", 3, "int"},
	{"SetNX", 7, "any"}, {"CAS", 11, "any"},
	{"SetExpiration", 6, "any"}, {"GetExpiration", 4, "any"},
	{"CleanupExpired", 2, "-"}, {"Sleep", 4, "-"},
}

func c13PickScalar(r *rand.Rand) any { return c13Scalars[r.Intn(len(c13Scalars))] }

func c13Compatible(fam string, live any) bool {
	switch fam {
	case "any", "-":
		return true
	case "list":
		_, ok := live.([]any)
		return ok
	case "hash":
		_, ok := live.(map[string]any)
		return ok
	case "int":
		_, ok := live.(int64)
		return ok
	}
	return false
}

// c13Generate builds one history as a pure function of r. It consults a private copy
// of the model driven by a synthetic clock (1 µs per operation, 60 ms per sleep) only
// to bias choices towards reachable, interesting states.
func c13Generate(r *rand.Rand, nops int) []c13Op {
	sim := c13NewModel()
	now := time.Unix(1_000_000, 0)
	total := 0
	for _, w := range c13OpTable {
		total += w.w
	}
	var ops []c13Op
	for len(ops) < nops {
		now = now.Add(time.Microsecond)
		key := c13Keys[r.Intn(len(c13Keys))]
		e, _ := sim.look(key, now, now)
		var live any
		if e != nil {
			live = e.val
		}
		var w c13Weighted
		for tries := 0; ; tries++ {
			x := r.Intn(total)
			for _, c := range c13OpTable {
				if x < c.w {
					w = c
					break
				}
				x -= c.w
			}
			if live == nil || c13Compatible(w.fam, live) {
				break
			}
			// wrong-family operation on a live key: rarely; SetHash over another family (a
			// type-changing overwrite in the memory backend) half of the times it is drawn
			if (w.kind != "SetHash" && r.Intn(100) < 12) || (w.kind == "SetHash" && r.Intn(100) < 50) {
				break
			}
			if tries > 50 {
				w = c13Weighted{"Get", 1, "any"}
				break
			}
		}
		op := c13Op{Kind: w.kind, Key: key}
		switch w.kind {
		case "Sleep", "CleanupExpired":
			op.Key = ""
		case "Set", "SetNX":
			op.Val, op.TTL = c13PickScalar(r), c13TTLs[r.Intn(3)]
		case "SetList":
			n := r.Intn(4) // 0: empty list (present-and-empty per memory backend + interface: SetList stores the list)
			op.List = make([]any, n)
			if n == 0 && r.Intn(2) == 0 {
				op.List = nil
			}
			for i := range op.List {
				op.List[i] = c13PickScalar(r)
			}
			op.TTL = c13TTLs[r.Intn(3)]
		case "Append":
			op.Val = c13PickScalar(r)
		case "Remove":
			op.Val = c13PickScalar(r)
			if l, ok := live.([]any); ok && len(l) > 0 && r.Intn(10) < 7 {
				op.Val = l[r.Intn(len(l))]
			}
		case "SetHash":
			op.Field, op.Val = c13Fields[r.Intn(3)], c13PickScalar(r)
		case "GetHash", "DeleteHash":
			op.Field = c13Fields[r.Intn(3)]
		case "IncrBy":
			op.N = []int64{1, 2, 5, -1, 0, 1000}[r.Intn(6)]
		case "CAS":
			op.Val, op.TTL = c13PickScalar(r), c13TTLs[r.Intn(3)]
			x := r.Intn(100)
			op.Old = c13PickScalar(r)
			switch {
			case live == nil:
				if x < 50 {
					op.Old = nil
				}
			case c13VKind(live) == "scalar":
				if x < 65 {
					op.Old = live
				} else if x < 75 {
					op.Old = nil
				}
			default:
				if x < 30 {
					op.Old = nil
				}
			}
		case "SetExpiration":
			op.TTL = c13TTLs[r.Intn(3)]
		}
		retype := op.Kind == "SetHash" && live != nil && c13VKind(live) != "hash"
		if op.Kind == "Sleep" {
			now = now.Add(c13Sleep)
		} else {
			sim.step(op, now, now)
		}
		ops = append(ops, op)
		if retype {
			// usually observe the key's lifetime afterwards: it must be the one it had
			var follow []c13Op
			switch x := r.Intn(100); {
			case x < 35:
				follow = []c13Op{{Kind: "GetExpiration", Key: key}}
			case x < 80:
				follow = []c13Op{{Kind: "Sleep"}, {Kind: []string{"Get", "Exists", "GetAllHash", "GetExpiration"}[r.Intn(4)], Key: key}}
			}
			for _, f := range follow {
				now = now.Add(time.Microsecond)
				if f.Kind == "Sleep" {
					now = now.Add(c13Sleep)
				} else {
					sim.step(f, now, now)
				}
				ops = append(ops, f)
			}
		}
	}
	return ops
}

type c13SeqStats struct {
	mu       sync.Mutex
	bigrams  map[string]struct{}
	marks    map[string]int64
	judged   int64
	unjudged int64
	sleeps   int64
	ops      int64
}

func c13PrefixStrings(ops []c13Op, upto int) []string {
	out := make([]string, 0, upto+1)
	for i := 0; i <= upto && i < len(ops); i++ {
		out = append(out, fmt.Sprintf("%d:%s", i, ops[i]))
	}
	return out
}

func c13ArgTTL(op c13Op) string {
	if !op.hasTTL() {
		return "-"
	}
	if op.TTL == 0 {
		return "0"
	}
	return ">0"
}

// c13KeyClass is the coarse state of the key before an operation, for signatures.
func c13KeyClass(exp c13Exp) string {
	switch exp.State {
	case "absent", "expired", "ttl0":
		return exp.State
	}
	if exp.Mark == "wrong-family" {
		return "live-other-family"
	}
	return "live"
}

// c13RunSeqHistory executes one history on a fresh store and judges every answer.
func c13RunSeqHistory(run *vk.Run, st *c13SeqStats, hidx int, ops []c13Op) {
	s := New(context.Background())
	defer s.Close()
	model := c13NewModel()
	prevKind := "^"
	locMarks := map[string]int64{}
	var judged, unjudged, sleeps int64
	bigr := map[string]struct{}{}

	report := func(i int, sig string, op c13Op, exp c13Exp, got c13Got, extra map[string]any) {
		d := map[string]any{
			"history": hidx, "op_index": i, "op": op.String(), "key_state_before": exp.State,
			"expected":       map[string]any{"err": exp.Err, "bool": exp.B, "has_bool": exp.HasB, "value": exp.V, "has_value": exp.HasV, "remaining_lo_ns": exp.DLo, "remaining_hi_ns": exp.DHi},
			"got":            map[string]any{"err": got.Err, "err_text": got.ErrText, "bool": got.B, "value": got.V, "remaining_ns": got.D, "panic": got.Panic},
			"history_prefix": c13PrefixStrings(ops, i),
		}
		for k, v := range extra {
			d[k] = v
		}
		run.Violation(sig, d)
	}

	for i, op := range ops {
		if op.Kind == "Sleep" {
			time.Sleep(c13Sleep)
			sleeps++
			prevKind = "Sleep"
			continue
		}
		c := time.Now()
		got := c13Apply(s, op)
		r := time.Now()
		model.gotErr = got.Err
		exp := model.step(op, c, r)
		bigr[prevKind+">"+op.Kind+"|"+c13ArgTTL(op)+"|"+exp.State] = struct{}{}
		prevKind = op.Kind
		if !exp.Judge {
			unjudged++
			continue
		}
		judged++
		if exp.Mark != "" {
			locMarks[exp.Mark]++
		}
		if exp.Mark2 != "" {
			locMarks[exp.Mark2]++
		}
		if op.Kind == "CAS" && op.TTL == 0 && exp.HasB && exp.B {
			locMarks["cas-with-ttl0-swaps"]++
		}
		if op.Kind == "SetExpiration" && op.TTL == 0 && exp.Err == "ok" {
			locMarks["setexp-ttl0-on-live"]++
		}
		if diff := c13Compare(exp, got); diff != "" {
			// where is the key now? (attribution aid; not judged by itself)
			post := "-"
			if op.Key != "" {
				if ok, _ := s.Exists(op.Key); ok {
					post = "present"
				} else {
					post = "gone"
				}
			}
			sig := fmt.Sprintf("C13:%s|key=%s|arg_ttl=%s|%s|post=%s", op.Kind, c13KeyClass(exp), c13ArgTTL(op), diff, post)
			report(i, sig, op, exp, got, nil)
			model.taint[op.Key] = true
			delete(model.m, op.Key)
			continue
		}
		// read-back: after a mutating operation observe the key at once, so that a wrong
		// effect is attributed to the operation that caused it (Get takes no write path).
		switch op.Kind {
		case "Get", "Exists", "GetList", "GetHash", "GetAllHash", "GetExpiration", "CleanupExpired":
			continue
		}
		rop := c13Op{Kind: "Get", Key: op.Key}
		c2 := time.Now()
		got2 := c13Apply(s, rop)
		r2 := time.Now()
		model.gotErr = got2.Err
		exp2 := model.step(rop, c2, r2)
		if !exp2.Judge {
			unjudged++
			continue
		}
		judged++
		if diff := c13Compare(exp2, got2); diff != "" {
			sig := fmt.Sprintf("C13:%s|key=%s|arg_ttl=%s|ret-as-expected|readback:%s", op.Kind, c13KeyClass(exp), c13ArgTTL(op), diff)
			report(i, sig, op, exp2, got2, map[string]any{"key_state_before": exp.State, "readback": "Get(" + op.Key + ") immediately after the operation", "op_returned": map[string]any{"err": got.Err, "bool": got.B, "value": got.V}})
			model.taint[op.Key] = true
			delete(model.m, op.Key)
		}
	}
	st.mu.Lock()
	for k := range bigr {
		st.bigrams[k] = struct{}{}
	}
	for k, v := range locMarks {
		st.marks[k] += v
	}
	st.judged += judged
	st.unjudged += unjudged
	st.sleeps += sleeps
	st.ops += int64(len(ops))
	st.mu.Unlock()
}

func TestVerifC13Sequential(t *testing.T) {
	vk.Quiet()
	run := vk.Start(t, "C13", "sequential")
	defer run.Finish()
	run.Rule("seeded histories of 30-80 operations over keys k1..k4 (all 19 operations + sleep 60 ms; values: strings, JSON strings, int64; ttl in {0, 40 ms, 1 h}), generated as a pure function of the seed with a synthetic-clock copy of the model biasing towards live/expired/typed states; executed on a fresh memory.Storage; every answer (and an immediate Get read-back after every mutator, so that a wrong effect is attributed to the operation that caused it) compared with the reference map-with-expiry under the interval rule (SetHash over a live value of another family: refusal or replacement both accepted, the key's lifetime must stay what it was - observed by GetExpiration / reads after the deadline); distinct = (previous op > op, ttl-argument class, key state before)")
	nh := run.Pick(400, 8000)
	workers := 8
	st := &c13SeqStats{bigrams: map[string]struct{}{}, marks: map[string]int64{}}
	master := run.Rand("histories")
	type job struct {
		idx  int
		seed int64
	}
	jobs := make(chan job)
	var wg sync.WaitGroup
	for w := 0; w < workers; w++ {
		wg.Add(1)
		go func() {
			defer wg.Done()
			for j := range jobs {
				r := rand.New(rand.NewSource(j.seed))
				ops := c13Generate(r, 30+r.Intn(51))
				if j.idx < 3 {
					run.Sample(map[string]any{"history": j.idx, "ops": c13PrefixStrings(ops, len(ops)-1)})
				}
				c13RunSeqHistory(run, st, j.idx, ops)
				run.Eval(1)
			}
		}()
	}
	for i := 0; i < nh; i++ {
		jobs <- job{i, master.Int63()}
	}
	close(jobs)
	wg.Wait()

	for k := range st.bigrams {
		run.Distinct(k)
	}
	for k, v := range st.marks {
		run.Count("branch_"+k, v)
	}
	run.Count("ops_executed", st.ops)
	run.Count("observations_judged_certain", st.judged)
	run.Count("observations_not_judged", st.unjudged)
	run.Count("sleeps", st.sleeps)
	// non-vacuity (DESIGN C13 N): each of the combination branches must have been judged
	run.Floor("branch_cas-on-ttl0-key", 20)
	run.Floor("branch_cas-with-ttl0-swaps", 20)
	run.Floor("branch_append-after-expiry", 5)
	run.Floor("branch_remove-by-value", 20)
	run.Floor("branch_setnx-after-expiry", 5)
	run.Floor("branch_setlist-empty-over-nonempty", 5)
	run.Floor("branch_get-after-expiry", 20)
	run.Floor("branch_sethash-over-live-other-family", 40)
	run.Floor("branch_lifetime-observed-after-retype", 20)
	run.Floor("branch_setexp-ttl0-on-live", 20)
	run.Floor("observations_judged_certain", int64(nh)*20)
}
