//go:build verif && verif_c13

package memory

import (
	"context"
	"errors"
	"fmt"
	"math/rand"
	"os"
	"runtime"
	"sort"
	"strconv"
	"strings"
	"sync"
	"sync/atomic"
	"testing"
	"time"

	"github.com/anishathalye/porcupine"

	"tunnox-core/internal/core/storage/types"
	vk "tunnox-core/internal/verifkit"
)

// C13 (b) — concurrent histories of the in-memory backend checked for linearizability.
//
// 4-8 goroutines x 200 operations on 2 keys, one value family per key, ttl in {0, 1 h}
// only (nothing may expire, so the sequential specification is deterministic), written
// values unique (goroutine id + counter). Call/return instants come from one monotonic
// clock. Each key's sub-history is checked with porcupine against a small sequential
// model (register / list / counter / hash).

type c13cIn struct {
	Model  byte // 'r' register, 'l' list, 'c' counter, 'h' hash
	Op     string
	Key    string
	Val    string
	Old    string
	OldNil bool
	List   []string
	Field  string
	N      int64
	TTL    time.Duration
}

type c13cOut struct {
	Err string // ok | notfound | error | panic
	B   bool
	V   string
	N   int64
}

func (in c13cIn) String() string {
	switch in.Op {
	case "Set":
		if in.Model == 'c' {
			return fmt.Sprintf("Set(%s,%d,ttl=%s)", in.Key, in.N, c13TTLClass(in.TTL))
		}
		return fmt.Sprintf("Set(%s,%s,ttl=%s)", in.Key, in.Val, c13TTLClass(in.TTL))
	case "SetNX":
		return fmt.Sprintf("SetNX(%s,%s,ttl=%s)", in.Key, in.Val, c13TTLClass(in.TTL))
	case "CAS":
		old := in.Old
		if in.OldNil {
			old = "<nil>"
		}
		return fmt.Sprintf("CAS(%s,old=%s,new=%s,ttl=%s)", in.Key, old, in.Val, c13TTLClass(in.TTL))
	case "SetExpiration":
		return fmt.Sprintf("SetExpiration(%s,ttl=%s)", in.Key, c13TTLClass(in.TTL))
	case "SetList":
		return fmt.Sprintf("SetList(%s,%v,ttl=%s)", in.Key, in.List, c13TTLClass(in.TTL))
	case "Append", "Remove":
		return fmt.Sprintf("%s(%s,%s)", in.Op, in.Key, in.Val)
	case "SetHash":
		return fmt.Sprintf("SetHash(%s,%s,%s)", in.Key, in.Field, in.Val)
	case "GetHash", "DeleteHash":
		return fmt.Sprintf("%s(%s,%s)", in.Op, in.Key, in.Field)
	case "IncrBy":
		return fmt.Sprintf("IncrBy(%s,%d)", in.Key, in.N)
	}
	return fmt.Sprintf("%s(%s)", in.Op, in.Key)
}

func (o c13cOut) String() string {
	return fmt.Sprintf("{%s b=%v v=%q n=%d}", o.Err, o.B, o.V, o.N)
}

// ---- sequential specifications (state = canonical string; "" = key absent) ----

func c13cListState(items []string) string {
	return "L" + strings.Join(append([]string{""}, items...), ",")
}
func c13cListItems(st string) []string {
	if st == "L" {
		return nil
	}
	return strings.Split(st[2:], ",")
}
func c13cHashState(h map[string]string) string {
	ks := make([]string, 0, len(h))
	for k := range h {
		ks = append(ks, k)
	}
	sort.Strings(ks)
	var b strings.Builder
	b.WriteString("H")
	for _, k := range ks {
		b.WriteString(";" + k + "=" + h[k])
	}
	return b.String()
}
func c13cHashMap(st string) map[string]string {
	h := map[string]string{}
	if len(st) <= 1 {
		return h
	}
	for _, kv := range strings.Split(st[2:], ";") {
		i := strings.IndexByte(kv, '=')
		h[kv[:i]] = kv[i+1:]
	}
	return h
}

func c13cStep(state, input, output interface{}) (bool, interface{}) {
	st := state.(string)
	in := input.(c13cIn)
	out := output.(c13cOut)
	present := st != ""
	ok := out.Err == "ok"
	nf := out.Err == "notfound"
	// operations common to every family
	switch in.Op {
	case "Delete":
		return ok, ""
	case "Exists":
		return ok && out.B == present, st
	case "SetExpiration":
		if !present {
			return nf, st
		}
		return ok, st
	}
	switch in.Model {
	case 'r':
		switch in.Op {
		case "Set":
			return ok, "=" + in.Val
		case "Get":
			if !present {
				return nf, st
			}
			return ok && out.V == st[1:], st
		case "SetNX":
			if !present {
				return ok && out.B, "=" + in.Val
			}
			return ok && !out.B, st
		case "CAS":
			if !present {
				if in.OldNil {
					return ok && out.B, "=" + in.Val
				}
				return ok && !out.B, st
			}
			if !in.OldNil && st[1:] == in.Old {
				return ok && out.B, "=" + in.Val
			}
			return ok && !out.B, st
		}
	case 'l':
		switch in.Op {
		case "SetList":
			return ok, c13cListState(in.List)
		case "GetList":
			if !present {
				return nf, st
			}
			return ok && out.V == st, st
		case "Append":
			if !present {
				return ok, c13cListState([]string{in.Val})
			}
			return ok, st + "," + in.Val
		case "Remove":
			if !present {
				return ok, st
			}
			items := c13cListItems(st)
			keep := make([]string, 0, len(items))
			for _, it := range items {
				if it != in.Val {
					keep = append(keep, it)
				}
			}
			return ok, c13cListState(keep)
		}
	case 'c':
		cur := int64(0)
		if present {
			cur, _ = strconv.ParseInt(st[1:], 10, 64)
		}
		switch in.Op {
		case "Set":
			return ok, "#" + strconv.FormatInt(in.N, 10)
		case "Get":
			if !present {
				return nf, st
			}
			return ok && out.N == cur, st
		case "Incr", "IncrBy":
			n := in.N
			if in.Op == "Incr" {
				n = 1
			}
			return ok && out.N == cur+n, "#" + strconv.FormatInt(cur+n, 10)
		}
	case 'h':
		switch in.Op {
		case "SetHash":
			h := c13cHashMap(st)
			h[in.Field] = in.Val
			return ok, c13cHashState(h)
		case "GetHash":
			if !present {
				return nf, st
			}
			v, has := c13cHashMap(st)[in.Field]
			if !has {
				return nf, st
			}
			return ok && out.V == v, st
		case "GetAllHash":
			if !present {
				return nf, st
			}
			return ok && out.V == st, st
		case "DeleteHash":
			if !present {
				return ok, st
			}
			h := c13cHashMap(st)
			delete(h, in.Field)
			return ok, c13cHashState(h)
		}
	}
	panic("c13 porcupine model: unknown op " + in.Op)
}

var c13cModel = porcupine.Model{
	Init:  func() interface{} { return "" },
	Step:  c13cStep,
	Equal: func(a, b interface{}) bool { return a.(string) == b.(string) },
	DescribeOperation: func(in, out interface{}) string {
		return in.(c13cIn).String() + " -> " + out.(c13cOut).String()
	},
}

// ---- execution ----

func c13cErrClass(err error) string {
	switch {
	case err == nil:
		return "ok"
	case errors.Is(err, types.ErrKeyNotFound):
		return "notfound"
	}
	return "error"
}

func c13cStrings(l []any) []string {
	out := make([]string, len(l))
	for i, v := range l {
		out[i] = fmt.Sprint(v)
	}
	return out
}

func c13cApply(s *Storage, in c13cIn) (out c13cOut) {
	defer func() {
		if p := recover(); p != nil {
			out = c13cOut{Err: "panic", V: fmt.Sprint(p)}
		}
	}()
	var err error
	switch in.Op {
	case "Set":
		if in.Model == 'c' {
			err = s.Set(in.Key, in.N, in.TTL)
		} else {
			err = s.Set(in.Key, in.Val, in.TTL)
		}
	case "Get":
		var v any
		v, err = s.Get(in.Key)
		switch x := v.(type) {
		case string:
			out.V = x
		case int64:
			out.N = x
		case nil:
		default:
			out.V = fmt.Sprintf("%T", v)
		}
	case "Delete":
		err = s.Delete(in.Key)
	case "Exists":
		out.B, err = s.Exists(in.Key)
	case "SetNX":
		out.B, err = s.SetNX(in.Key, in.Val, in.TTL)
	case "CAS":
		var old any
		if !in.OldNil {
			old = in.Old
		}
		out.B, err = s.CompareAndSwap(in.Key, old, in.Val, in.TTL)
	case "SetExpiration":
		err = s.SetExpiration(in.Key, in.TTL)
	case "SetList":
		l := make([]any, len(in.List))
		for i, v := range in.List {
			l[i] = v
		}
		err = s.SetList(in.Key, l, in.TTL)
	case "GetList":
		var l []any
		l, err = s.GetList(in.Key)
		if err == nil {
			out.V = c13cListState(c13cStrings(l))
		}
	case "Append":
		err = s.AppendToList(in.Key, in.Val)
	case "Remove":
		err = s.RemoveFromList(in.Key, in.Val)
	case "Incr":
		out.N, err = s.Incr(in.Key)
	case "IncrBy":
		out.N, err = s.IncrBy(in.Key, in.N)
	case "SetHash":
		err = s.SetHash(in.Key, in.Field, in.Val)
	case "GetHash":
		var v any
		v, err = s.GetHash(in.Key, in.Field)
		if err == nil {
			out.V = fmt.Sprint(v)
		}
	case "GetAllHash":
		var h map[string]any
		h, err = s.GetAllHash(in.Key)
		if err == nil {
			hs := make(map[string]string, len(h))
			for k, v := range h {
				hs[k] = fmt.Sprint(v)
			}
			out.V = c13cHashState(hs)
		}
	case "DeleteHash":
		err = s.DeleteHash(in.Key, in.Field)
	default:
		panic("c13 conc apply: unknown op " + in.Op)
	}
	out.Err = c13cErrClass(err)
	return out
}

type c13cKeySpec struct {
	Key     string
	Model   byte
	Profile string // register: "setnx" | "cas"; others: family name
}

type c13cPick struct {
	op string
	w  int
}

var c13cTables = map[string][]c13cPick{
	"setnx":   {{"Set", 20}, {"Get", 30}, {"Delete", 10}, {"Exists", 10}, {"SetNX", 30}},
	"cas":     {{"Set", 14}, {"Get", 25}, {"Delete", 8}, {"Exists", 6}, {"SetNX", 15}, {"CAS", 26}, {"SetExpiration", 6}},
	"list":    {{"SetList", 5}, {"GetList", 30}, {"Append", 35}, {"Remove", 20}, {"Delete", 5}, {"Exists", 5}},
	"counter": {{"Incr", 35}, {"IncrBy", 20}, {"Get", 30}, {"Set", 7}, {"Delete", 8}},
	"hash":    {{"SetHash", 35}, {"GetHash", 30}, {"GetAllHash", 15}, {"DeleteHash", 12}, {"Delete", 8}},
}

func c13cChoose(r *rand.Rand, tab []c13cPick) string {
	total := 0
	for _, p := range tab {
		total += p.w
	}
	x := r.Intn(total)
	for _, p := range tab {
		if x < p.w {
			return p.op
		}
		x -= p.w
	}
	return tab[0].op
}

// c13cBarrier releases all workers at (nearly) the same instant: each spins (yielding
// now and then) until all have arrived. The 2 s bound is a watchdog only: a worker that
// gives up just starts late (counted; the overlap floor decides conclusiveness).
type c13cBarrier struct {
	n, arrived, gaveUp int32
}

func (b *c13cBarrier) arrive() {
	atomic.AddInt32(&b.arrived, 1)
	t0 := time.Now()
	for i := 1; atomic.LoadInt32(&b.arrived) < b.n; i++ {
		if i%256 == 0 {
			runtime.Gosched()
		}
		if i%4096 == 0 && time.Since(t0) > 2*time.Second {
			atomic.AddInt32(&b.gaveUp, 1)
			return
		}
	}
}

type c13cRec struct {
	g         int
	in        c13cIn
	out       c13cOut
	call, ret int64
}

// c13cWorker runs nops operations; seen[] keeps, per key, values this goroutine has
// observed (for CAS old values / list removals that can succeed).
func c13cWorker(s *Storage, g int, r *rand.Rand, keys []c13cKeySpec, nops int, base time.Time, start *c13cBarrier) []c13cRec {
	recs := make([]c13cRec, 0, nops)
	seen := map[string][]string{}
	remember := func(k, v string) {
		l := append(seen[k], v)
		if len(l) > 6 {
			l = l[len(l)-6:]
		}
		seen[k] = l
	}
	recall := func(k string) (string, bool) {
		l := seen[k]
		if len(l) == 0 {
			return "", false
		}
		return l[r.Intn(len(l))], true
	}
	ttl := func() time.Duration {
		if r.Intn(2) == 0 {
			return 0
		}
		return c13Long
	}
	start.arrive()
	for i := 0; i < nops; i++ {
		ks := keys[r.Intn(len(keys))]
		in := c13cIn{Model: ks.Model, Key: ks.Key, Op: c13cChoose(r, c13cTables[ks.Profile])}
		uniq := fmt.Sprintf("g%dn%d", g, i)
		switch in.Op {
		case "Set":
			if ks.Model == 'c' {
				in.N = int64(1000*(g+1) + i)
			} else {
				in.Val = uniq
			}
			in.TTL = ttl()
		case "SetNX":
			in.Val, in.TTL = uniq, ttl()
		case "CAS":
			in.Val, in.TTL = uniq, ttl()
			if v, ok := recall(ks.Key); ok && r.Intn(100) < 80 {
				in.Old = v
			} else if r.Intn(2) == 0 {
				in.OldNil = true
			} else {
				in.Old = "nobody"
			}
		case "SetExpiration":
			in.TTL = ttl()
		case "SetList":
			n := r.Intn(3)
			for j := 0; j < n; j++ {
				in.List = append(in.List, fmt.Sprintf("%ss%d", uniq, j))
			}
			in.TTL = ttl()
		case "Append":
			in.Val = uniq
		case "Remove":
			if v, ok := recall(ks.Key); ok && r.Intn(100) < 85 {
				in.Val = v
			} else {
				in.Val = "nothing"
			}
		case "IncrBy":
			in.N = []int64{2, 3, 10}[r.Intn(3)]
		case "SetHash":
			in.Field, in.Val = c13Fields[r.Intn(3)], uniq
		case "GetHash", "DeleteHash":
			in.Field = c13Fields[r.Intn(3)]
		}
		call := int64(time.Since(base))
		out := c13cApply(s, in)
		ret := int64(time.Since(base))
		recs = append(recs, c13cRec{g: g, in: in, out: out, call: call, ret: ret})
		// remember values that may be current
		switch in.Op {
		case "Get":
			if out.Err == "ok" && ks.Model == 'r' {
				remember(ks.Key, out.V)
			}
		case "Set", "SetNX", "CAS":
			if ks.Model == 'r' && (in.Op == "Set" || out.B) {
				remember(ks.Key, in.Val)
			}
		case "Append":
			remember(ks.Key, in.Val)
		case "GetList":
			if out.Err == "ok" {
				if items := c13cListItems(out.V); len(items) > 0 {
					remember(ks.Key, items[r.Intn(len(items))])
				}
			}
		}
	}
	return recs
}

type c13cHistStats struct {
	illegal      map[string]bool
	checkerSpent time.Duration
	overlapping  int64
	ops          int64
	pairs        map[string]struct{}
	counts       map[string]int64
}

// c13cOverlap counts operations whose interval overlaps the next-called operation of the
// same key and collects the kinds of such concurrent pairs.
func c13cOverlap(recs []c13cRec, st *c13cHistStats, fam string) {
	sort.Slice(recs, func(i, j int) bool { return recs[i].call < recs[j].call })
	var maxRet int64 = -1
	maxOp := ""
	for _, rc := range recs {
		if rc.call <= maxRet {
			st.overlapping++
			a, b := maxOp, rc.in.Op
			if a > b {
				a, b = b, a
			}
			st.pairs[fam+"|"+a+"~"+b] = struct{}{}
		}
		if rc.ret > maxRet {
			maxRet, maxOp = rc.ret, rc.in.Op
		}
	}
}

func c13cDump(recs []c13cRec, max int) []string {
	out := make([]string, 0, len(recs))
	for i, rc := range recs {
		if i >= max {
			out = append(out, fmt.Sprintf("... %d more", len(recs)-max))
			break
		}
		out = append(out, fmt.Sprintf("g%d [%d,%d] %s -> %s", rc.g, rc.call, rc.ret, rc.in, rc.out))
	}
	return out
}

// c13RunConcHistory runs one concurrent history and checks each key's sub-history.
func c13RunConcHistory(run *vk.Run, hidx int, r *rand.Rand, keys []c13cKeySpec, agg *c13cHistStats) {
	s := New(context.Background())
	defer s.Close()
	ng := 4 + r.Intn(5)
	nops := 200
	for _, ks := range keys {
		if ks.Model == 'l' && ng > 5 {
			// appends return nothing: with more than ~5 writers the number of candidate
			// orders porcupine has to refute grows beyond the checker timeout
			ng = 4 + ng%2
		}
	}
	if os.Getenv("VERIF_RACE") == "1" {
		// the instrumented repeat is there for the race detector; porcupine itself runs
		// ~100x slower instrumented, so keep its histories small
		ng, nops = 3+r.Intn(2), 120
	}
	base := time.Now()
	var done sync.WaitGroup
	start := &c13cBarrier{n: int32(ng)}
	all := make([][]c13cRec, ng)
	for g := 0; g < ng; g++ {
		gr := rand.New(rand.NewSource(r.Int63()))
		done.Add(1)
		go func(g int) {
			defer done.Done()
			all[g] = c13cWorker(s, g, gr, keys, nops, base, start)
		}(g)
	}
	done.Wait()
	run.Count("workload_ms_total", time.Since(base).Milliseconds())
	run.Count("start_barrier_gave_up", int64(atomic.LoadInt32(&start.gaveUp)))
	for _, ks := range keys {
		var recs []c13cRec
		for g := range all {
			for _, rc := range all[g] {
				if rc.in.Key == ks.Key {
					recs = append(recs, rc)
				}
			}
		}
		agg.ops += int64(len(recs))
		c13cOverlap(recs, agg, ks.Profile)
		ops := make([]porcupine.Operation, 0, len(recs))
		panicked := false
		for _, rc := range recs {
			if rc.out.Err == "panic" {
				panicked = true
				run.Violation("C13:conc|model="+ks.Profile+"|op="+rc.in.Op+"|panic", map[string]any{"history": hidx, "op": rc.in.String(), "panic": rc.out.V})
			}
			agg.counts[ks.Profile+"_"+rc.in.Op+"_"+rc.out.Err+fmt.Sprintf("_%v", rc.out.B)]++
			ops = append(ops, porcupine.Operation{ClientId: rc.g, Input: rc.in, Call: rc.call, Output: rc.out, Return: rc.ret})
		}
		if panicked {
			continue
		}
		// Refuting an illegal history is the expensive case. Once a family has a recorded
		// violation, or the tier's checking budget is spent, later histories of it are
		// executed (panics, crashes, races still count) but not checked again; the floor on
		// key_histories_checked turns that into "inconclusive" if nothing else was found.
		if agg.illegal[ks.Profile] || agg.checkerSpent > c13cCheckBudget(run) {
			run.Count("key_histories_not_checked_after_violation_or_budget", 1)
			continue
		}
		t0 := time.Now()
		res := porcupine.CheckOperationsTimeout(c13cModel, ops, c13cCheckTimeout(run))
		agg.checkerSpent += time.Since(t0)
		run.Count("checker_ms_total", time.Since(t0).Milliseconds())
		run.Count("checker_ms_"+ks.Profile, time.Since(t0).Milliseconds())
		run.Max("checker_ms_max_"+ks.Profile, time.Since(t0).Milliseconds())
		run.Max("checker_ms_max", time.Since(t0).Milliseconds())
		switch res {
		case porcupine.Ok:
			run.Count("key_histories_linearizable", 1)
		case porcupine.Unknown:
			run.Count("checker_timeout_unknown", 1)
			run.Count("checker_timeout_unknown_"+ks.Profile, 1)
		case porcupine.Illegal:
			run.Count("key_histories_not_linearizable", 1)
			agg.illegal[ks.Profile] = true
			run.Violation("C13:nonlinearizable|model="+ks.Profile, map[string]any{
				"history": hidx, "goroutines": ng, "key": ks.Key, "ops_on_key": len(recs),
				"note":                 "no sequential order of these completed operations, consistent with their call/return order, is allowed by the " + ks.Profile + " specification (ttl in {0, 1h}: nothing may expire)",
				"history_by_call_time": c13cDump(recs, 400),
			})
		}
		run.Count("key_histories_checked", 1)
	}
}

// c13cCheckTimeout: 60 s per key history in the thorough tier (DESIGN 2.2), 15 s in
// the quick tier so that it stays bounded on a defective tree (a legal history of this
// size checks in well under a second). Unknown is inconclusive, never a violation.
func c13cCheckTimeout(run *vk.Run) time.Duration {
	if run.Thorough() {
		return 60 * time.Second
	}
	return 15 * time.Second
}

func c13cCheckBudget(run *vk.Run) time.Duration {
	if run.Thorough() {
		return 8 * time.Minute
	}
	return 40 * time.Second
}

func c13cBudget(run *vk.Run, quick, thorough int) int {
	n := run.Pick(quick, thorough)
	if v, err := strconv.Atoi(os.Getenv("VERIF_C13_CONC_N")); err == nil && v > 0 {
		n = v // debugging knob only
	}
	if os.Getenv("VERIF_RACE") == "1" {
		n = n / 4
		if n < 8 {
			n = 8
		}
	}
	return n
}

func c13cFinish(run *vk.Run, agg *c13cHistStats) {
	for k := range agg.pairs {
		run.Distinct(k)
	}
	obs := map[string]int64{}
	for k, v := range agg.counts {
		obs[k] = v
	}
	run.Observe("op_outcomes", obs)
	run.Count("ops_recorded", agg.ops)
	run.Count("ops_overlapping_previous_on_same_key", agg.overlapping)
}

func TestVerifC13Concurrent(t *testing.T) {
	vk.Quiet()
	run := vk.Start(t, "C13", "concurrent")
	defer run.Finish()
	run.Rule("4-8 goroutines (4-5 when a list key is involved: appends return nothing, more writers make the check intractable) x 200 operations on 2 keys of one memory.Storage, key families per history from {register/setnx, register/cas, list, counter}, ttl in {0,1h}, unique written values; per-key history checked with porcupine (timeout 60 s thorough / 15 s quick => Unknown => inconclusive); distinct = (family, unordered pair of operation kinds observed overlapping in time)")
	nh := c13cBudget(run, 60, 2000)
	r := run.Rand("conc")
	combos := [][]c13cKeySpec{
		{{"ka", 'r', "setnx"}, {"kb", 'l', "list"}},
		{{"ka", 'r', "cas"}, {"kb", 'c', "counter"}},
		{{"ka", 'l', "list"}, {"kb", 'c', "counter"}},
		{{"ka", 'r', "setnx"}, {"kb", 'r', "cas"}},
	}
	agg := &c13cHistStats{pairs: map[string]struct{}{}, counts: map[string]int64{}, illegal: map[string]bool{}}
	// nh histories; the scheduling-dependent coverage counters (real overlap, SetNX races
	// won and lost) are topped up: if the machine serialised the goroutines, up to 7*nh
	// more histories - still a bounded case count - until each counter is at twice its floor
	won := func() int64 { return agg.counts["setnx_SetNX_ok_true"] + agg.counts["cas_SetNX_ok_true"] }
	lost := func() int64 { return agg.counts["setnx_SetNX_ok_false"] + agg.counts["cas_SetNX_ok_false"] }
	thin := func() bool {
		return agg.overlapping < 2*int64(nh)*50 || won() < 2*int64(nh) || lost() < 2*int64(nh)
	}
	for h := 0; h < nh || (h < 8*nh && thin()); h++ {
		keys := combos[h%len(combos)]
		run.Case(fmt.Sprintf("conc|%s+%s", keys[0].Profile, keys[1].Profile), map[string]any{"history": h})
		c13RunConcHistory(run, h, rand.New(rand.NewSource(r.Int63())), keys, agg)
		run.Eval(1)
		if run.Violations() >= 20 {
			break
		}
	}
	c13cFinish(run, agg)
	run.Count("setnx_won", agg.counts["setnx_SetNX_ok_true"]+agg.counts["cas_SetNX_ok_true"])
	run.Count("setnx_lost", agg.counts["setnx_SetNX_ok_false"]+agg.counts["cas_SetNX_ok_false"])
	run.Count("cas_swapped", agg.counts["cas_CAS_ok_true"])
	run.Floor("key_histories_checked", int64(nh)*2*9/10)
	run.Floor("ops_overlapping_previous_on_same_key", int64(nh)*50)
	run.Floor("setnx_won", int64(nh))
	run.Floor("setnx_lost", int64(nh))
}

func TestVerifC13ConcurrentHash(t *testing.T) {
	vk.Quiet()
	run := vk.Start(t, "C13", "concurrent-hash")
	defer run.Finish()
	run.Rule("as 'concurrent', both keys hashes with fields f1..f3 (SetHash/GetHash/GetAllHash/DeleteHash/Delete); a Go runtime 'concurrent map read and map write' abort is attributed to the write-ahead case")
	nh := c13cBudget(run, 60, 2000)
	r := run.Rand("conc-hash")
	keys := []c13cKeySpec{{"ha", 'h', "hash"}, {"hb", 'h', "hash"}}
	agg := &c13cHistStats{pairs: map[string]struct{}{}, counts: map[string]int64{}, illegal: map[string]bool{}}
	for h := 0; h < nh || (h < 8*nh && agg.overlapping < 2*int64(nh)*50); h++ { // top-up as in 'concurrent'
		run.Case("conc|hash+hash", map[string]any{"history": h})
		c13RunConcHistory(run, h, rand.New(rand.NewSource(r.Int63())), keys, agg)
		run.Eval(1)
		if run.Violations() >= 20 {
			break
		}
	}
	c13cFinish(run, agg)
	run.Floor("key_histories_checked", int64(nh)*2*9/10)
	run.Floor("ops_overlapping_previous_on_same_key", int64(nh)*50)
}

// ---- concurrent family with expiry: CleanupExpired racing writes on expired keys ----
//
// Every key (a few target keys + thousands of filler keys, so that a cleanup scan is
// long) is first written sequentially with a 5 ms ttl; the concurrent phase starts only
// once the clock is CERTAINLY past (return of the last write + ttl): "expired" is a fact,
// no timing judgement is made inside the phase. Reads are lazy, so the expired entries
// are still in the map. Then cleaners call CleanupExpired while writers do
// Set(ttl 0) / SetNX(ttl 0) / Get with unique values on the target keys; afterwards one
// client reads every target key. Per key the history is checked with porcupine against
// the register model with initial state "absent" (nothing is ever deleted by a client
// and ttl 0 never expires), and directly: an acknowledged write must still be readable.

const c13eTTL = 5 * time.Millisecond

type c13eStats struct {
	writesOverlapCleanup int64
	keysChecked          int64
	cleanups             int64
	fillers              int64
}

func c13RunExpiryHistory(run *vk.Run, hidx int, r *rand.Rand, st *c13eStats) {
	s := New(context.Background())
	defer s.Close()
	nfill := 2000 + r.Intn(4000)
	nkeys := 8 + r.Intn(17)
	keys := make([]string, nkeys)
	for i := 0; i < nfill; i++ {
		s.Set(fmt.Sprintf("fill-%d", i), int64(i), c13eTTL)
	}
	for i := range keys {
		keys[i] = fmt.Sprintf("x%d", i)
		s.Set(keys[i], "old", c13eTTL)
	}
	deadline := time.Now().Add(c13eTTL) // >= every entry's expiration
	for tries := 0; !time.Now().After(deadline) && tries < 2000; tries++ {
		time.Sleep(2 * time.Millisecond)
	}
	if !time.Now().After(deadline) {
		run.Count("watchdog", 1)
		return
	}
	st.fillers += int64(nfill)

	ncl := 1 + r.Intn(2)
	nw := 4 + r.Intn(3)
	if os.Getenv("VERIF_RACE") == "1" {
		nw = 3
	}
	// writer scripts (pure function of r)
	scripts := make([][]c13cIn, nw)
	delays := make([]int, nw)
	for g := 0; g < nw; g++ {
		delays[g] = r.Intn(6000)
		n := 0
		for pass := 0; pass < 3; pass++ {
			for _, ki := range r.Perm(nkeys) {
				in := c13cIn{Model: 'r', Key: keys[ki]}
				x := r.Intn(100)
				switch {
				case (pass == 0 && x < 60) || (pass > 0 && x < 35):
					in.Op = "SetNX"
				case (pass == 0 && x < 90) || (pass > 0 && x < 55):
					in.Op = "Set"
				default:
					in.Op = "Get"
				}
				if in.Op != "Get" {
					in.Val = fmt.Sprintf("g%dn%d", g, n)
				}
				n++
				scripts[g] = append(scripts[g], in)
			}
		}
	}
	base := time.Now()
	bar := &c13cBarrier{n: int32(ncl + nw)}
	var done sync.WaitGroup
	recs := make([][]c13cRec, nw)
	type span struct{ call, ret int64 }
	cspans := make([][]span, ncl)
	var sink int64
	var cleaning int32
	for c := 0; c < ncl; c++ {
		done.Add(1)
		go func(c int) {
			defer done.Done()
			bar.arrive()
			for k := 0; k < 2; k++ {
				call := int64(time.Since(base))
				atomic.StoreInt32(&cleaning, 1) // gate: writers start once a cleanup call is under way
				s.CleanupExpired()
				cspans[c] = append(cspans[c], span{call, int64(time.Since(base))})
			}
		}(c)
	}
	for g := 0; g < nw; g++ {
		done.Add(1)
		go func(g int) {
			defer done.Done()
			bar.arrive()
			for i := 0; i < 50_000_000 && atomic.LoadInt32(&cleaning) == 0; i++ { // bounded wait for the gate
				if i%256 == 255 {
					runtime.Gosched()
				}
			}
			for i := 0; i < delays[g]; i++ { // stagger the first write across the scan
				atomic.AddInt64(&sink, 1)
			}
			for _, in := range scripts[g] {
				call := int64(time.Since(base))
				out := c13cApply(s, in)
				recs[g] = append(recs[g], c13cRec{g: g, in: in, out: out, call: call, ret: int64(time.Since(base))})
			}
		}(g)
	}
	done.Wait()
	run.Count("start_barrier_gave_up", int64(atomic.LoadInt32(&bar.gaveUp)))
	final := map[string]c13cRec{}
	for _, k := range keys {
		in := c13cIn{Model: 'r', Op: "Get", Key: k}
		call := int64(time.Since(base))
		out := c13cApply(s, in)
		final[k] = c13cRec{g: nw, in: in, out: out, call: call, ret: int64(time.Since(base))}
	}
	var spans []string
	for c := range cspans {
		for _, sp := range cspans[c] {
			spans = append(spans, fmt.Sprintf("cleaner%d CleanupExpired [%d,%d]", c, sp.call, sp.ret))
			st.cleanups++
		}
	}
	for _, k := range keys {
		var kr []c13cRec
		acked := false
		for g := range recs {
			for _, rc := range recs[g] {
				if rc.in.Key != k {
					continue
				}
				kr = append(kr, rc)
				if rc.out.Err == "panic" {
					run.Violation("C13:conc-expiry|op="+rc.in.Op+"|panic", map[string]any{"history": hidx, "op": rc.in.String(), "panic": rc.out.V})
				}
				if (rc.in.Op == "Set" && rc.out.Err == "ok") || (rc.in.Op == "SetNX" && rc.out.B) {
					acked = true
				}
				if rc.in.Op != "Get" {
					for c := range cspans {
						for _, sp := range cspans[c] {
							if rc.call <= sp.ret && sp.call <= rc.ret {
								st.writesOverlapCleanup++
							}
						}
					}
				}
			}
		}
		kr = append(kr, final[k])
		sort.Slice(kr, func(i, j int) bool { return kr[i].call < kr[j].call })
		st.keysChecked++
		detail := func() map[string]any {
			return map[string]any{"history": hidx, "key": k, "fillers": nfill, "writers": nw, "cleaners": ncl,
				"precondition": "key and fillers written with ttl 5 ms, phase started certainly after their expiry; no client deletes; all writes use ttl 0",
				"cleanups":     spans, "history_by_call_time": c13cDump(kr, 200)}
		}
		if acked && final[k].out.Err == "notfound" {
			run.Violation("C13:conc-expiry|acked-ttl0-write-lost|concurrent=CleanupExpired", detail())
		}
		ops := make([]porcupine.Operation, 0, len(kr))
		for _, rc := range kr {
			ops = append(ops, porcupine.Operation{ClientId: rc.g, Input: rc.in, Call: rc.call, Output: rc.out, Return: rc.ret})
		}
		switch porcupine.CheckOperationsTimeout(c13cModel, ops, c13cCheckTimeout(run)) {
		case porcupine.Ok:
			run.Count("key_histories_linearizable", 1)
		case porcupine.Unknown:
			run.Count("checker_timeout_unknown", 1)
			st.keysChecked--
		case porcupine.Illegal:
			run.Count("key_histories_not_linearizable", 1)
			run.Violation("C13:nonlinearizable|model=expired-key-vs-cleanup", detail())
		}
	}
}

func TestVerifC13ConcurrentExpiry(t *testing.T) {
	vk.Quiet()
	run := vk.Start(t, "C13", "concurrent-expiry")
	defer run.Finish()
	run.Rule("per history: 8-24 target keys + 2000-6000 filler keys written with ttl 5 ms, wait until certainly expired (entries still in the map: lazy expiry), then 1-2 goroutines calling CleanupExpired twice race 4-6 writers doing Set(ttl 0)/SetNX(ttl 0)/Get with unique values over the target keys (3 passes, first writes staggered across the scan), then a final Get of every key; per key porcupine register model from 'absent' + direct rule 'acknowledged ttl-0 write stays readable'; distinct = (writers, cleaners, filler bucket)")
	nh := c13cBudget(run, 60, 1500)
	r := run.Rand("conc-expiry")
	st := &c13eStats{}
	// nh histories, topped up (bounded: at most 8*nh) until the scheduling-dependent window
	// counter "a write overlapped a CleanupExpired call" is at twice its floor
	for h := 0; h < nh || (h < 8*nh && st.writesOverlapCleanup < 2*int64(nh)); h++ {
		run.Case("conc|expired-keys+CleanupExpired", map[string]any{"history": h})
		hr := rand.New(rand.NewSource(r.Int63()))
		c13RunExpiryHistory(run, h, hr, st)
		run.Eval(1)
		run.Distinct(fmt.Sprintf("h%d", h%12))
		if run.Violations() >= 10 {
			break
		}
	}
	run.Count("writes_overlapping_a_cleanup_call", st.writesOverlapCleanup)
	run.Count("key_histories_checked", st.keysChecked)
	run.Count("cleanup_calls", st.cleanups)
	run.Count("expired_filler_keys", st.fillers)
	run.Floor("key_histories_checked", int64(nh)*8*9/10)
	run.Floor("writes_overlapping_a_cleanup_call", int64(nh))
}
