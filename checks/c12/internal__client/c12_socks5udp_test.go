//go:build verif && verif_c12

package client

// C12 — "preserves datagram boundaries, contents ... through the length-prefixed stream
// encoding", on the SOCKS5 UDP path: a real socks5.UDPRelay (loopback UDP socket, one
// goroutine per datagram) whose tunnel creator returns the PRODUCTION udpTunnelConn
// (socks5_tunnel.go: one record = two Writes, length then body) over a real
// stream.StreamProcessor on top of a slow, yielding server-connection double.
//
// Workload: the application fires bursts of 4..32 datagrams back-to-back at ONE destination
// (and, in other cases, spread over 2..4 destinations), so many handlePacket goroutines
// want the same tunnel at once. The connection double records the bytes of every Write in
// arrival order and, after a 2-byte Write (a length prefix), yields until another Write call
// arrives or a short pacing bound passes — a second sender that is allowed into the tunnel
// concurrently gets in between length and body.
//
// Oracle: per destination, the recorded tunnel byte stream parses as [len:2][body] records
// with nothing left over, and the multiset of records equals the multiset of payloads sent to
// that destination (each payload is unique). Datagrams the kernel dropped on the way to the
// relay are tolerated (counted); a record that is not one of the sent payloads, a duplicate,
// or trailing bytes once every sender has returned is a violation.

import (
	"context"
	"encoding/binary"
	"fmt"
	"io"
	"math/rand"
	"net"
	"runtime"
	"sync"
	"sync/atomic"
	"testing"
	"time"

	"tunnox-core/internal/client/socks5"
	"tunnox-core/internal/stream"
	vk "tunnox-core/internal/verifkit"
)

type c12sConn struct {
	mu       sync.Mutex
	buf      []byte
	sizes    []int
	entered  atomic.Int64
	inflight atomic.Int64
	overlap  atomic.Int64 // Write calls that started while another Write was in progress
	closed   chan struct{}
	once     sync.Once
	yieldNs  int64
	// pending: datagrams the application has sent to this destination whose record has not
	// been completely written yet (maintained by the harness + this double)
	appSent   atomic.Int64
	bodies    atomic.Int64
	contended atomic.Int64 // records started while >= 1 other datagram for this tunnel was pending
}

func (c *c12sConn) Write(p []byte) (int, error) {
	select {
	case <-c.closed:
		return 0, io.ErrClosedPipe
	default:
	}
	mark := c.entered.Add(1)
	if c.inflight.Add(1) > 1 {
		c.overlap.Add(1)
	}
	defer c.inflight.Add(-1)
	c.mu.Lock()
	c.buf = append(c.buf, p...) // the bytes are on the wire now, in arrival order
	c.sizes = append(c.sizes, len(p))
	c.mu.Unlock()
	if len(p) == 2 {
		if c.appSent.Load()-c.bodies.Load() >= 2 {
			c.contended.Add(1)
		}
		// slow tunnel: between the length prefix and the body, let anybody else run
		t0 := time.Now()
		for c.entered.Load() == mark && time.Since(t0) < time.Duration(c.yieldNs) {
			runtime.Gosched()
		}
	} else {
		c.bodies.Add(1)
	}
	return len(p), nil
}

func (c *c12sConn) Read(p []byte) (int, error) {
	if c == nil {
		return 0, io.EOF
	}
	<-c.closed
	return 0, io.EOF
}
func (c *c12sConn) Close() error { c.once.Do(func() { close(c.closed) }); return nil }
func (c *c12sConn) snapshot() ([]byte, []int) {
	c.mu.Lock()
	defer c.mu.Unlock()
	return append([]byte(nil), c.buf...), append([]int(nil), c.sizes...)
}
func (c *c12sConn) LocalAddr() net.Addr                { return &net.TCPAddr{IP: net.IPv4(127, 0, 0, 1), Port: 1} }
func (c *c12sConn) RemoteAddr() net.Addr               { return &net.TCPAddr{IP: net.IPv4(127, 0, 0, 1), Port: 2} }
func (c *c12sConn) SetDeadline(t time.Time) error      { return nil }
func (c *c12sConn) SetReadDeadline(t time.Time) error  { return nil }
func (c *c12sConn) SetWriteDeadline(t time.Time) error { return nil }

type c12sCreator struct {
	mu      sync.Mutex
	ctx     context.Context
	conns   map[string]*c12sConn
	yieldNs int64
	created int
}

func (c *c12sCreator) conn(key string) *c12sConn {
	c.mu.Lock()
	defer c.mu.Unlock()
	x := c.conns[key]
	if x == nil {
		x = &c12sConn{closed: make(chan struct{}), yieldNs: c.yieldNs}
		c.conns[key] = x
	}
	return x
}

func (c *c12sCreator) CreateUDPTunnel(mappingID string, targetClientID int64, host string, port int, secret string) (socks5.UDPTunnelConn, error) {
	fc := c.conn(fmt.Sprintf("%s:%d", host, port))
	c.mu.Lock()
	c.created++
	c.mu.Unlock()
	// production wiring: udpTunnelConn{serverConn, tunnelStream = stream processor over the conn}
	sp := stream.NewStreamProcessor(fc, fc, c.ctx)
	return &udpTunnelConn{tunnelID: "udp-c12s", serverConn: fc, tunnelStream: sp}, nil
}

type c12sCase struct {
	Idx     int   `json:"idx"`
	Seed    int64 `json:"seed"`
	Dests   int   `json:"destinations"`
	Bursts  []int `json:"burst_sizes"`
	MaxLen  int   `json:"max_payload"`
	YieldUs int   `json:"writer_yield_us"`
}

func c12sPayload(cs, idx, n int) []byte {
	if n < 8 {
		n = 8
	}
	p := make([]byte, 8, n)
	binary.BigEndian.PutUint32(p[0:], uint32(cs)|0xC1200000)
	binary.BigEndian.PutUint32(p[4:], uint32(idx))
	return append(p, vk.Pattern(uint64(cs)<<32|uint64(idx), 8, n-8)...)
}

func c12sRun(run *vk.Run, cs c12sCase) {
	ctx, cancel := context.WithCancel(context.Background())
	defer cancel()
	ctrlA, ctrlB := net.Pipe()
	defer ctrlA.Close()
	defer ctrlB.Close()
	cr := &c12sCreator{ctx: ctx, conns: map[string]*c12sConn{}, yieldNs: int64(cs.YieldUs) * 1000}
	relay, err := socks5.NewUDPRelay(ctx, ctrlA, &socks5.UDPRelayConfig{MappingID: "m", TargetClientID: 1, SecretKey: "k", BindAddr: "127.0.0.1:0"}, cr)
	if err != nil {
		run.Count("setup_failed", 1)
		return
	}
	defer relay.Close()
	app, err := net.DialUDP("udp", nil, relay.GetBindAddr())
	if err != nil {
		run.Count("setup_failed", 1)
		return
	}
	defer app.Close()

	r := rand.New(rand.NewSource(cs.Seed))
	type dest struct {
		key  string
		hdr  []byte
		sent map[string]int // payload -> datagram index
		n    int
		want int // encoded bytes expected
	}
	dests := make([]*dest, cs.Dests)
	for i := range dests {
		port := 9000 + i
		dests[i] = &dest{key: fmt.Sprintf("127.0.0.%d:%d", 10+i, port),
			hdr: []byte{0, 0, 0, 1, 127, 0, 0, byte(10 + i), byte(port >> 8), byte(port)}, sent: map[string]int{}}
	}
	total := func() (got, want int) {
		for _, d := range dests {
			b, _ := cr.conn(d.key).snapshot()
			got += len(b)
			want += d.want
		}
		return
	}
	idx := 0
	for _, bn := range cs.Bursts {
		for j := 0; j < bn; j++ {
			d := dests[0]
			if cs.Dests > 1 {
				d = dests[r.Intn(cs.Dests)]
			}
			n := 8 + r.Intn(cs.MaxLen-7)
			p := c12sPayload(cs.Idx, idx, n)
			d.sent[string(p)] = idx
			d.n++
			d.want += 2 + len(p)
			cr.conn(d.key).appSent.Add(1)
			if _, err := app.Write(append(append([]byte(nil), d.hdr...), p...)); err != nil {
				run.Count("app_write_failed", 1)
			}
			idx++
		}
		// next burst once this one is through (pacing only)
		t0 := time.Now()
		for time.Since(t0) < 2*time.Second {
			if g, w := total(); g >= w {
				break
			}
			time.Sleep(200 * time.Microsecond)
		}
	}
	// quiescence: no Write in progress and the byte counts stopped moving
	stable, last := 0, -1
	t0 := time.Now()
	for stable < 3 && time.Since(t0) < 3*time.Second {
		g, w := total()
		busy := false
		for _, d := range dests {
			if cr.conn(d.key).inflight.Load() != 0 {
				busy = true
			}
		}
		if g >= w && !busy {
			break
		}
		if g == last && !busy {
			stable++
		} else {
			stable = 0
		}
		last = g
		time.Sleep(10 * time.Millisecond)
	}
	run.Eval(1)
	for _, d := range dests {
		fc := cr.conn(d.key)
		buf, sizes := fc.snapshot()
		run.Count("writer_overlapping_writes_seen", fc.overlap.Load())
		run.Count("records_started_with_other_datagrams_pending", fc.contended.Load())
		detail := func(extra map[string]any) map[string]any {
			hs := sizes
			if len(hs) > 40 {
				hs = hs[:40]
			}
			m := map[string]any{"case": cs, "destination": d.key, "datagrams_sent": d.n, "tunnel_bytes": len(buf), "expected_bytes": d.want,
				"write_sizes_head": hs, "overlapping_writes": fc.overlap.Load()}
			for k, v := range extra {
				m[k] = v
			}
			return m
		}
		seen := map[int]bool{}
		off, recs, bad := 0, 0, ""
		var badAt int
		for len(buf)-off >= 2 {
			n := int(buf[off])<<8 | int(buf[off+1])
			if len(buf)-off < 2+n {
				break
			}
			body := string(buf[off+2 : off+2+n])
			i, ok := d.sent[body]
			switch {
			case !ok:
				bad, badAt = "record-is-no-sent-datagram", off
			case seen[i]:
				bad, badAt = "duplicate-record", off
			}
			if bad != "" {
				break
			}
			seen[i] = true
			recs++
			off += 2 + n
		}
		switch {
		case bad != "":
			run.Violation("C12:socks5-udp|tunnel-stream|got="+bad, detail(map[string]any{"at_offset": badAt, "records_ok_before": recs}))
		case off != len(buf):
			run.Violation("C12:socks5-udp|tunnel-stream|got=trailing-partial-record", detail(map[string]any{"at_offset": off, "records_ok_before": recs}))
		default:
			run.Count("records_checked", int64(recs))
			if recs < d.n {
				run.Count("datagrams_not_seen_on_tunnel", int64(d.n-recs)) // dropped before the relay (UDP), not judged
			} else {
				run.Count("destinations_complete", 1)
			}
		}
	}
	run.Distinct(fmt.Sprintf("dests=%d|bursts=%v|yield=%d|max=%d", cs.Dests, cs.Bursts, cs.YieldUs, cs.MaxLen))
}

func TestVerifC12Socks5UDPConcurrentSenders(t *testing.T) {
	vk.Quiet()
	run := vk.Start(t, "C12", "socks5-udp-concurrent-senders")
	defer run.Finish()
	run.Rule("real socks5.UDPRelay on loopback UDP, tunnels = production udpTunnelConn (length and body as two Writes) over a real StreamProcessor over a yielding conn double (after a 2-byte Write it yields 50-400 us or until another Write arrives); 2-4 bursts of 4..32 unique position-coded datagrams (8..1400 B) fired back-to-back at one destination, or spread over 2..4 destinations; distinct = (destinations, burst sizes, yield, max payload); non-trivial = a record was started while other datagrams for the same tunnel were pending")
	r := run.Rand("gen")
	n := run.Pick(40, 400)
	cases := make([]c12sCase, n)
	for i := range cases {
		cs := c12sCase{Idx: i, Seed: r.Int63(), Dests: 1, MaxLen: []int{64, 300, 1400}[r.Intn(3)], YieldUs: []int{50, 150, 400}[r.Intn(3)]}
		if i%3 == 2 {
			cs.Dests = 2 + r.Intn(3)
		}
		for b := 2 + r.Intn(3); b > 0; b-- {
			cs.Bursts = append(cs.Bursts, 4+r.Intn(29))
		}
		cases[i] = cs
	}
	for i := 0; i < 3 && i < n; i++ {
		run.Sample(cases[i])
	}
	var wg sync.WaitGroup
	var next atomic.Int64
	for k := 0; k < 4; k++ {
		wg.Add(1)
		go func() {
			defer wg.Done()
			for {
				i := int(next.Add(1)) - 1
				if i >= n {
					return
				}
				run.Case(fmt.Sprintf("socks5udp%d", i), cases[i])
				c12sRun(run, cases[i])
			}
		}()
	}
	wg.Wait()
	run.Floor("records_checked", int64(n*15))
	run.Floor("destinations_complete", int64(n/2))
	run.Floor("records_started_with_other_datagrams_pending", int64(n*5))
}
