//go:build verif && verif_c12

package client

// C12 — "preserves datagram boundaries, contents ... through the length-prefixed stream
// encoding", on the SOCKS5 UDP path: a real socks5.UDPRelay (loopback UDP socket, one
// goroutine per datagram) whose tunnel creator returns the PRODUCTION udpTunnelConn
// (socks5_tunnel.go: one record = two Writes, length then body) over a real
// stream.StreamProcessor on top of a slow, yielding server-connection double.
//
// Workload: the application fires bursts of 4..32 datagrams back-to-back at ONE destination
// (and, in other cases, spread over 2..4 destinations), so many handlePacket goroutines
// want the same tunnel at once. The connection double records the bytes of every Write in
// arrival order and, after a 2-byte Write (a length prefix), yields until another Write call
// arrives or a short pacing bound passes — a second sender that is allowed into the tunnel
// concurrently gets in between length and body.
//
// Oracle: per destination, the recorded tunnel byte stream parses as [len:2][body] records
// with nothing left over, and the multiset of records equals the multiset of payloads sent to
// that destination (each payload is unique). Datagrams the kernel dropped on the way to the
// relay are tolerated (counted); a record that is not one of the sent payloads, a duplicate,
// or trailing bytes once every sender has returned is a violation.

import (
	"context"
	"encoding/binary"
	"fmt"
	"io"
	"math/rand"
	"net"
	"runtime"
	"sync"
	"sync/atomic"
	"testing"
	"time"

	"tunnox-core/internal/client/socks5"
	"tunnox-core/internal/stream"
	vk "tunnox-core/internal/verifkit"
)

type c12sConn struct {
	mu       sync.Mutex
	buf      []byte
	sizes    []int
	entered  atomic.Int64
	inflight atomic.Int64
	overlap  atomic.Int64 // Write calls that started while another Write was in progress
	closed   chan struct{}
	once     sync.Once
	yieldNs  int64
	// pending: datagrams the application has sent to this destination whose SendPacket has
	// not returned yet (maintained by the harness + the pass-through wrapper below)
	appSent   atomic.Int64
	sendsDone atomic.Int64
	contended atomic.Int64 // SendPacket calls started while >= 1 other datagram for this tunnel was pending
	sendCalls atomic.Int64
	sendOver  atomic.Int64 // SendPacket calls that overlapped another one on the same tunnel
	sendIn    atomic.Int64
}

func (c *c12sConn) Write(p []byte) (int, error) {
	select {
	case <-c.closed:
		return 0, io.ErrClosedPipe
	default:
	}
	mark := c.entered.Add(1)
	if c.inflight.Add(1) > 1 {
		c.overlap.Add(1)
	}
	defer c.inflight.Add(-1)
	c.mu.Lock()
	c.buf = append(c.buf, p...) // the bytes are on the wire now, in arrival order
	c.sizes = append(c.sizes, len(p))
	c.mu.Unlock()
	// slow tunnel: after every Write let anybody else run (a concurrent sender that is
	// allowed into the tunnel gets in between two Writes of one record)
	t0 := time.Now()
	for c.entered.Load() == mark && time.Since(t0) < time.Duration(c.yieldNs) {
		runtime.Gosched()
	}
	return len(p), nil
}

func (c *c12sConn) Read(p []byte) (int, error) {
	if c == nil {
		return 0, io.EOF
	}
	<-c.closed
	return 0, io.EOF
}
func (c *c12sConn) Close() error { c.once.Do(func() { close(c.closed) }); return nil }
func (c *c12sConn) snapshot() ([]byte, []int) {
	c.mu.Lock()
	defer c.mu.Unlock()
	return append([]byte(nil), c.buf...), append([]int(nil), c.sizes...)
}
func (c *c12sConn) LocalAddr() net.Addr                { return &net.TCPAddr{IP: net.IPv4(127, 0, 0, 1), Port: 1} }
func (c *c12sConn) RemoteAddr() net.Addr               { return &net.TCPAddr{IP: net.IPv4(127, 0, 0, 1), Port: 2} }
func (c *c12sConn) SetDeadline(t time.Time) error      { return nil }
func (c *c12sConn) SetReadDeadline(t time.Time) error  { return nil }
func (c *c12sConn) SetWriteDeadline(t time.Time) error { return nil }

// c12sWrap passes everything through to the production udpTunnelConn; it only counts
// (independent of how many Writes one SendPacket performs).
type c12sWrap struct {
	inner *udpTunnelConn
	fc    *c12sConn
}

func (w *c12sWrap) SendPacket(data []byte) error {
	w.fc.sendCalls.Add(1)
	if w.fc.appSent.Load()-w.fc.sendsDone.Load() >= 2 {
		w.fc.contended.Add(1)
	}
	if w.fc.sendIn.Add(1) > 1 {
		w.fc.sendOver.Add(1)
	}
	err := w.inner.SendPacket(data)
	w.fc.sendIn.Add(-1)
	w.fc.sendsDone.Add(1)
	return err
}
func (w *c12sWrap) ReceivePacket() ([]byte, error) { return w.inner.ReceivePacket() }
func (w *c12sWrap) Close() error                   { return w.inner.Close() }

type c12sCreator struct {
	mu      sync.Mutex
	ctx     context.Context
	conns   map[string]*c12sConn
	yieldNs int64
	created int
}

func (c *c12sCreator) conn(key string) *c12sConn {
	c.mu.Lock()
	defer c.mu.Unlock()
	x := c.conns[key]
	if x == nil {
		x = &c12sConn{closed: make(chan struct{}), yieldNs: c.yieldNs}
		c.conns[key] = x
	}
	return x
}

func (c *c12sCreator) CreateUDPTunnel(mappingID string, targetClientID int64, host string, port int, secret string) (socks5.UDPTunnelConn, error) {
	fc := c.conn(fmt.Sprintf("%s:%d", host, port))
	c.mu.Lock()
	c.created++
	c.mu.Unlock()
	// production wiring: udpTunnelConn{serverConn, tunnelStream = stream processor over the conn}
	sp := stream.NewStreamProcessor(fc, fc, c.ctx)
	return &c12sWrap{inner: &udpTunnelConn{tunnelID: "udp-c12s", serverConn: fc, tunnelStream: sp}, fc: fc}, nil
}

type c12sCase struct {
	Idx     int   `json:"idx"`
	Seed    int64 `json:"seed"`
	Dests   int    `json:"destinations"`
	Family  string `json:"destination_family"` // plain | collide (address bytes identical across ATYPs)
	Bursts  []int `json:"burst_sizes"`
	MaxLen  int   `json:"max_payload"`
	YieldUs int   `json:"writer_yield_us"`
}

// c12sSweep: payload sizes at the boundaries of buffers one meets on this path.
var c12sSweep = func() []int {
	var v []int
	for n := 1390; n <= 1610; n++ {
		v = append(v, n)
	}
	for k := 3; k <= 15; k++ {
		for d := -2; d <= 2; d++ {
			v = append(v, 1<<k+d)
		}
	}
	return append(v, 65483, 65484, 65485, 65495, 65496, 65497, 65507)
}()

// c12sHeader builds the SOCKS5 UDP request header and the "host:port" the relay derives.
func c12sHeader(host string, port int) ([]byte, string) {
	h := []byte{0, 0, 0}
	key := host
	if ip := net.ParseIP(host); ip != nil {
		if ip4 := ip.To4(); ip4 != nil {
			h = append(append(h, 0x01), ip4...)
			key = net.IP(ip4).String()
		} else {
			h = append(append(h, 0x04), ip.To16()...)
			key = net.IP(ip.To16()).String()
		}
	} else {
		h = append(append(h, 0x03, byte(len(host))), host...)
	}
	return append(h, byte(port>>8), byte(port)), fmt.Sprintf("%s:%d", key, port)
}

func c12sPayload(cs, idx, n int) []byte {
	if n < 8 {
		n = 8
	}
	p := make([]byte, 8, n)
	binary.BigEndian.PutUint32(p[0:], uint32(cs)|0xC1200000)
	binary.BigEndian.PutUint32(p[4:], uint32(idx))
	return append(p, vk.Pattern(uint64(cs)<<32|uint64(idx), 8, n-8)...)
}

func c12sRun(run *vk.Run, cs c12sCase) {
	ctx, cancel := context.WithCancel(context.Background())
	defer cancel()
	ctrlA, ctrlB := net.Pipe()
	defer ctrlA.Close()
	defer ctrlB.Close()
	cr := &c12sCreator{ctx: ctx, conns: map[string]*c12sConn{}, yieldNs: int64(cs.YieldUs) * 1000}
	relay, err := socks5.NewUDPRelay(ctx, ctrlA, &socks5.UDPRelayConfig{MappingID: "m", TargetClientID: 1, SecretKey: "k", BindAddr: "127.0.0.1:0"}, cr)
	if err != nil {
		run.Count("setup_failed", 1)
		return
	}
	defer relay.Close()
	app, err := net.DialUDP("udp", nil, relay.GetBindAddr())
	if err != nil {
		run.Count("setup_failed", 1)
		return
	}
	defer app.Close()

	r := rand.New(rand.NewSource(cs.Seed))
	type dest struct {
		key  string
		hdr  []byte
		sent map[string]int // payload -> datagram index
		n    int
	}
	var dests []*dest
	add := func(host string, port int) {
		hdr, key := c12sHeader(host, port)
		dests = append(dests, &dest{key: key, hdr: hdr, sent: map[string]int{}})
	}
	switch cs.Family {
	case "collide":
		// destinations of different address types whose DST.ADDR+DST.PORT bytes are identical
		add("3.97.98.99", 80) // 03 61 62 63 | 00 50
		add("abc", 80)        // 03 'a' 'b' 'c' | 00 50
		v6 := net.IP(append([]byte{0x0f}, []byte("fifteen-chars.x")...))
		add(v6.String(), 443)
		add("fifteen-chars.x", 443)
	default:
		for i := 0; i < cs.Dests; i++ {
			switch (cs.Idx + i) % 3 {
			case 0:
				add(fmt.Sprintf("127.0.0.%d", 10+i), 9000+i)
			case 1:
				add(fmt.Sprintf("host-%d.example", i), 9000+i)
			default:
				add(fmt.Sprintf("fd00::%x", 10+i), 9000+i)
			}
		}
	}
	allSent := func() bool {
		for _, d := range dests {
			fc := cr.conn(d.key)
			if fc.sendsDone.Load() < fc.appSent.Load() {
				return false
			}
		}
		return true
	}
	pace := func(d time.Duration) {
		t0 := time.Now()
		for time.Since(t0) < d && !allSent() {
			time.Sleep(200 * time.Microsecond)
		}
	}
	idx := 0
	send := func(d *dest, n int) {
		if max := 65507 - len(d.hdr); n > max {
			n = max
		}
		p := c12sPayload(cs.Idx, idx, n)
		d.sent[string(p)] = idx
		d.n++
		cr.conn(d.key).appSent.Add(1)
		if _, err := app.Write(append(append([]byte(nil), d.hdr...), p...)); err != nil {
			run.Count("app_write_failed", 1)
		}
		idx++
	}
	// size sweep: 16 sizes per case taken in turn from the boundary list, so one quick run
	// covers every size (large ones are sent one at a time to stay inside the socket buffer)
	for j := 0; j < 16; j++ {
		n := c12sSweep[(cs.Idx*16+j)%len(c12sSweep)]
		send(dests[j%len(dests)], n)
		if n > 8000 {
			pace(500 * time.Millisecond)
		}
	}
	pace(time.Second)
	for _, bn := range cs.Bursts {
		for j := 0; j < bn; j++ {
			d := dests[0]
			if len(dests) > 1 {
				d = dests[r.Intn(len(dests))]
			}
			n := 8 + r.Intn(cs.MaxLen-7)
			if r.Intn(4) == 0 {
				n = c12sSweep[r.Intn(len(c12sSweep))]
				if n > 2100 {
					n = 1390 + r.Intn(220)
				}
			}
			send(d, n)
		}
		pace(time.Second) // next burst once this one is through (pacing only)
	}
	// quiescence: every SendPacket returned, or (datagrams dropped by the kernel) nothing
	// in progress and the byte counts stopped moving
	stable, last := 0, -1
	t0 := time.Now()
	for stable < 3 && time.Since(t0) < 3*time.Second {
		g, busy := 0, false
		for _, d := range dests {
			fc := cr.conn(d.key)
			b, _ := fc.snapshot()
			g += len(b)
			if fc.inflight.Load() != 0 || fc.sendIn.Load() != 0 {
				busy = true
			}
		}
		if allSent() && !busy {
			break
		}
		if g == last && !busy {
			stable++
		} else {
			stable = 0
		}
		last = g
		time.Sleep(10 * time.Millisecond)
	}
	run.Eval(1)
	for _, d := range dests {
		fc := cr.conn(d.key)
		buf, sizes := fc.snapshot()
		run.Count("writer_overlapping_writes_seen", fc.overlap.Load())
		run.Count("sends_started_with_other_datagrams_pending", fc.contended.Load())
		run.Count("overlapping_sendpacket_calls_seen", fc.sendOver.Load())
		detail := func(extra map[string]any) map[string]any {
			hs := sizes
			if len(hs) > 40 {
				hs = hs[:40]
			}
			m := map[string]any{"case": cs, "destination": d.key, "datagrams_sent": d.n, "tunnel_bytes": len(buf),
				"write_sizes_head": hs, "overlapping_writes": fc.overlap.Load()}
			for k, v := range extra {
				m[k] = v
			}
			return m
		}
		seen := map[int]bool{}
		off, recs, bad := 0, 0, ""
		var badAt int
		for len(buf)-off >= 2 {
			n := int(buf[off])<<8 | int(buf[off+1])
			if len(buf)-off < 2+n {
				break
			}
			body := string(buf[off+2 : off+2+n])
			i, ok := d.sent[body]
			switch {
			case !ok:
				bad, badAt = "record-is-no-sent-datagram", off
				for _, o := range dests {
					if _, other := o.sent[body]; other && o != d {
						bad = "record-of-another-destination" // intact datagram, wrong tunnel
					}
				}
			case seen[i]:
				bad, badAt = "duplicate-record", off
			}
			if bad != "" {
				break
			}
			seen[i] = true
			recs++
			off += 2 + n
		}
		switch {
		case bad != "":
			run.Violation("C12:socks5-udp|tunnel-stream|got="+bad, detail(map[string]any{"at_offset": badAt, "records_ok_before": recs}))
		case off != len(buf):
			run.Violation("C12:socks5-udp|tunnel-stream|got=trailing-partial-record", detail(map[string]any{"at_offset": off, "records_ok_before": recs}))
		default:
			run.Count("records_checked", int64(recs))
			if recs < d.n {
				run.Count("datagrams_not_seen_on_tunnel", int64(d.n-recs)) // dropped before the relay (UDP), not judged
			} else {
				run.Count("destinations_complete", 1)
			}
		}
	}
	run.Count("sweep_sizes_sent", 16)
	run.Distinct(fmt.Sprintf("%s|dests=%d|bursts=%v|yield=%d|max=%d", cs.Family, cs.Dests, cs.Bursts, cs.YieldUs, cs.MaxLen))
}

func TestVerifC12Socks5UDPConcurrentSenders(t *testing.T) {
	vk.Quiet()
	run := vk.Start(t, "C12", "socks5-udp-concurrent-senders")
	defer run.Finish()
	run.Rule("real socks5.UDPRelay on loopback UDP, tunnels = production udpTunnelConn (length and body as two Writes) over a real StreamProcessor over a yielding conn double (after a 2-byte Write it yields 50-400 us or until another Write arrives); 2-4 a 16-datagram size sweep per case (payload sizes 1390..1610, 2^k+-2, 65483..65507 taken in turn) then bursts of 4..32 unique position-coded datagrams (8..1400 B, a quarter from the sweep list) fired back-to-back at one destination, or spread over 2..4 destinations (IPv4 / names / IPv6), or over destinations whose address bytes collide across address types (3.97.98.99:80 vs \"abc\":80, 0f66:6966:... vs a 15-byte name); distinct = (destinations, burst sizes, yield, max payload); non-trivial = a SendPacket started while other datagrams for the same tunnel were pending")
	r := run.Rand("gen")
	n := run.Pick(40, 400)
	cases := make([]c12sCase, n)
	for i := range cases {
		cs := c12sCase{Idx: i, Seed: r.Int63(), Dests: 1, MaxLen: []int{64, 300, 1400}[r.Intn(3)], YieldUs: []int{50, 150, 400}[r.Intn(3)]}
		cs.Family = "plain"
		if i%3 == 2 {
			cs.Dests = 2 + r.Intn(3)
		}
		if i%4 == 1 {
			cs.Family, cs.Dests = "collide", 4
		}
		for b := 2 + r.Intn(3); b > 0; b-- {
			cs.Bursts = append(cs.Bursts, 4+r.Intn(29))
		}
		cases[i] = cs
	}
	for i := 0; i < 3 && i < n; i++ {
		run.Sample(cases[i])
	}
	var wg sync.WaitGroup
	var next atomic.Int64
	for k := 0; k < 4; k++ {
		wg.Add(1)
		go func() {
			defer wg.Done()
			for {
				i := int(next.Add(1)) - 1
				if i >= n {
					return
				}
				run.Case(fmt.Sprintf("socks5udp%d", i), cases[i])
				c12sRun(run, cases[i])
			}
		}()
	}
	wg.Wait()
	run.Floor("records_checked", int64(n*15))
	run.Floor("destinations_complete", int64(n/2))
	run.Floor("sends_started_with_other_datagrams_pending", int64(n*5))
	run.Floor("sweep_sizes_sent", int64(len(c12sSweep)))
}
