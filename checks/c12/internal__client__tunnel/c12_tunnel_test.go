//go:build verif && verif_c12

package tunnel

import (
	"context"
	"fmt"
	"io"
	"math/rand"
	"net"
	"regexp"
	"runtime"
	"sort"
	"strings"
	"sync"
	"sync/atomic"
	"testing"
	"time"

	"tunnox-core/internal/utils/iocopy"
	vk "tunnox-core/internal/verifkit"
)

// C12 / TCP relay through the REAL client Tunnel: a started tunnel.Tunnel (real manager,
// real runDataCopy) between a loopback-TCP local application and a scripted tunnel side.
//
// Oracle (= the tcp-relay oracle, no injected errors):
//   - bytes received by the local application == bytes the tunnel side offered, then a
//     clean EOF (the FIN must reach the application when the tunnel direction ends first:
//     the application only answers after it has read to EOF);
//   - bytes written to the tunnel side == bytes the application sent; where the tunnel
//     endpoint offers CloseWrite it is called after the application's FIN was consumed;
//   - the reverse direction is delivered completely after the half-close;
//   - the tunnel finishes (OnClosed fires) once both directions ended — decided by the
//     logical hang classifier (goroutines created by the case parked in identical frames
//     in 3 dumps 100 ms apart, scripted input drained); 20 s watchdog = inconclusive;
//   - GetStats byte counters equal the delivered byte counts.

const c12tWatchdog = 20 * time.Second

// ---- scripted tunnel side

type c12tConn struct {
	mu      sync.Mutex
	cond    *sync.Cond
	in      [][]byte
	ended   bool
	endSeen bool
	closed  bool
	out     []byte
	cw      bool
	closes  atomic.Int64
}

func c12tNewConn() *c12tConn { c := &c12tConn{}; c.cond = sync.NewCond(&c.mu); return c }

func (c *c12tConn) FeedChunks(data []byte, chunks []int) {
	c.mu.Lock()
	off := 0
	for _, n := range chunks {
		if n <= 0 || off+n > len(data) {
			break
		}
		c.in = append(c.in, data[off:off+n])
		off += n
	}
	if off < len(data) {
		c.in = append(c.in, data[off:])
	}
	c.cond.Broadcast()
	c.mu.Unlock()
}

func (c *c12tConn) FeedEOF() {
	c.mu.Lock()
	c.ended = true
	c.cond.Broadcast()
	c.mu.Unlock()
}

func (c *c12tConn) Read(p []byte) (int, error) {
	if len(p) == 0 {
		return 0, nil
	}
	c.mu.Lock()
	defer c.mu.Unlock()
	for {
		if c.closed {
			return 0, net.ErrClosed
		}
		if len(c.in) > 0 {
			b := c.in[0]
			n := copy(p, b)
			if n == len(b) {
				c.in = c.in[1:]
			} else {
				c.in[0] = b[n:]
			}
			return n, nil
		}
		if c.ended {
			c.endSeen = true
			return 0, io.EOF
		}
		c.cond.Wait()
	}
}

func (c *c12tConn) Write(p []byte) (int, error) {
	c.mu.Lock()
	defer c.mu.Unlock()
	if c.closed {
		return 0, net.ErrClosed
	}
	if c.cw {
		return 0, io.ErrClosedPipe
	}
	c.out = append(c.out, p...)
	return len(p), nil
}

func (c *c12tConn) Close() error {
	c.closes.Add(1)
	c.mu.Lock()
	c.closed = true
	c.cond.Broadcast()
	c.mu.Unlock()
	return nil
}

func (c *c12tConn) get(f func() bool) bool { c.mu.Lock(); defer c.mu.Unlock(); return f() }
func (c *c12tConn) OutLen() int            { c.mu.Lock(); defer c.mu.Unlock(); return len(c.out) }
func (c *c12tConn) OutBytes() []byte {
	c.mu.Lock()
	defer c.mu.Unlock()
	return append([]byte(nil), c.out...)
}
func (c *c12tConn) Drained() bool  { return c.get(func() bool { return len(c.in) == 0 }) }
func (c *c12tConn) EndSeen() bool  { return c.get(func() bool { return c.endSeen }) }
func (c *c12tConn) CWCalled() bool { return c.get(func() bool { return c.cw }) }

type c12tHalf struct{ *c12tConn }

func (h c12tHalf) CloseWrite() error { h.mu.Lock(); h.cw = true; h.mu.Unlock(); return nil }

// ---- hang classifier (same rules as the iocopy-package monitors)

type c12tWatch struct {
	mu    sync.Mutex
	extra []string // further goroutines of the case (the application's writer)
	roots []string // goroutine ids whose descendants belong to the case
	ids   map[string]bool
	idle  func() bool
	last  []string
	quick bool
}

var c12tCreatedRe = regexp.MustCompile(`created by \S+ in goroutine (\d+)`)

func c12tGoid() string {
	var b [64]byte
	n := runtime.Stack(b[:], false)
	f := strings.Fields(string(b[:n]))
	if len(f) >= 2 {
		return f[1]
	}
	return ""
}

func c12tFrames(stack string) string {
	var fr []string
	for i, l := range strings.Split(stack, "\n") {
		if i == 0 || l == "" || strings.HasPrefix(l, "\t") || strings.HasPrefix(l, "created by ") {
			continue
		}
		if j := strings.LastIndex(l, "("); j > 0 {
			l = l[:j]
		}
		fr = append(fr, l)
	}
	return strings.Join(fr, "<")
}

func (w *c12tWatch) snapshot() (string, bool) {
	gs := vk.Goroutines()
	if w.ids == nil {
		w.ids = map[string]bool{}
		for _, r := range w.roots {
			w.ids[r] = true
		}
	}
	w.mu.Lock()
	for _, id := range w.extra {
		w.ids[id] = true
	}
	w.mu.Unlock()
	parent := map[string]string{}
	for _, g := range gs {
		if m := c12tCreatedRe.FindStringSubmatch(g.Stack); m != nil {
			parent[g.ID] = m[1]
		}
	}
	for changed := true; changed; {
		changed = false
		for id, p := range parent {
			if w.ids[p] && !w.ids[id] {
				w.ids[id] = true
				changed = true
			}
		}
	}
	parked := true
	var parts []string
	for _, g := range gs {
		if !w.ids[g.ID] {
			continue
		}
		st := g.State
		if i := strings.Index(st, ","); i >= 0 {
			st = st[:i]
		}
		switch st {
		case "running", "runnable", "syscall", "sleep": // sleep = wakes up on its own
			parked = false
		}
		parts = append(parts, "g"+g.ID+" ["+st+"] "+c12tFrames(g.Stack))
	}
	sort.Strings(parts)
	w.last = parts
	return strings.Join(parts, "\n"), parked && len(parts) > 0
}

// until: "ok" | "hang" | "presumed-hang" (quick mode, never a verdict) | "watchdog"
func (w *c12tWatch) until(cond func() bool) string {
	t0 := time.Now()
	same, prev := 0, ""
	for {
		if cond() {
			return "ok"
		}
		el := time.Since(t0)
		if el > c12tWatchdog {
			return "watchdog"
		}
		if el < 50*time.Millisecond {
			time.Sleep(100 * time.Microsecond)
			continue
		}
		sig, parked := w.snapshot()
		if parked && w.idle() {
			if sig == prev {
				same++
			} else {
				same = 1
			}
			prev = sig
			if w.quick {
				return "presumed-hang"
			}
			if same >= 3 {
				return "hang"
			}
		} else {
			same, prev = 0, ""
		}
		for i := 0; i < 20; i++ {
			if cond() {
				return "ok"
			}
			time.Sleep(5 * time.Millisecond)
		}
	}
}

type c12tBudget struct {
	mu   sync.Mutex
	used map[string]int
	max  int
}

func (b *c12tBudget) exhausted(k string) bool {
	b.mu.Lock()
	defer b.mu.Unlock()
	return b.used[k] >= b.max
}
func (b *c12tBudget) spend(k string) {
	b.mu.Lock()
	if b.used == nil {
		b.used = map[string]int{}
	}
	b.used[k]++
	b.mu.Unlock()
}

// ---- case

type c12tCase struct {
	Idx        int    `json:"idx"`
	Seed       uint64 `json:"seed"`
	LenAB      int    `json:"len_local_to_tunnel"`
	LenBA      int    `json:"len_tunnel_to_local"`
	Order      string `json:"order"`       // tunnel-first | local-first | simul
	TunnelKind string `json:"tunnel_kind"` // plain | half | rwc | rwchalf
	Accepted   bool   `json:"local_conn_is_accepted_end"`
	Role       string `json:"role"`
	ChunkMax   int    `json:"chunk_max"`
}

type c12tClient struct{}

func (c12tClient) SendTunnelCloseNotify(int64, string, string, string) error { return nil }

func c12tPrefixClass(got, want []byte) string {
	n := len(got)
	if n > len(want) {
		n = len(want)
	}
	for i := 0; i < n; i++ {
		if got[i] != want[i] {
			return "corrupt"
		}
	}
	switch {
	case len(got) == len(want):
		return "equal"
	case len(got) < len(want):
		return "short"
	default:
		return "long"
	}
}

func c12tRun(run *vk.Run, cs c12tCase, budget *c12tBudget) {
	ln, err := net.Listen("tcp", "127.0.0.1:0")
	if err != nil {
		run.Count("setup_failed", 1)
		return
	}
	defer ln.Close()
	type acc struct {
		c   net.Conn
		err error
	}
	ach := make(chan acc, 1)
	go func() { c, err := ln.Accept(); ach <- acc{c, err} }()
	dialed, err := net.DialTimeout("tcp", ln.Addr().String(), 5*time.Second)
	if err != nil {
		run.Count("setup_failed", 1)
		return
	}
	var accepted net.Conn
	select {
	case a := <-ach:
		accepted = a.c
		err = a.err
	case <-time.After(5 * time.Second):
		err = fmt.Errorf("accept timeout")
	}
	if err != nil {
		dialed.Close()
		run.Count("setup_failed", 1)
		return
	}
	local, app := dialed.(*net.TCPConn), accepted.(*net.TCPConn)
	if cs.Accepted {
		local, app = app, local
	}
	defer app.Close()
	defer local.Close()

	tun := c12tNewConn()
	var ep io.ReadWriteCloser = tun
	cwTun := false
	switch cs.TunnelKind {
	case "half":
		ep, cwTun = c12tHalf{tun}, true
	case "rwc": // what the mapping/target handlers build around the tunnel stream
		ep, _ = iocopy.NewReadWriteCloser(tun, tun, tun.Close)
	case "rwchalf":
		h := c12tHalf{tun}
		ep, _ = iocopy.NewReadWriteCloser(h, h, h.Close)
		cwTun = true
	}
	dataAB := vk.Pattern(cs.Seed*2+1, 0, cs.LenAB) // application -> tunnel
	dataBA := vk.Pattern(cs.Seed*2+2, 0, cs.LenBA) // tunnel -> application
	r := rand.New(rand.NewSource(int64(cs.Seed)))
	chB := vk.RandPartition(r, cs.LenBA, cs.ChunkMax)

	role := TunnelRoleListen
	if cs.Role == "target" {
		role = TunnelRoleTarget
	}
	ctx, cancel := context.WithCancel(context.Background())
	defer cancel()
	mgr := NewTunnelManager(ctx, role)
	defer mgr.Close()
	var closedN atomic.Int32
	var closeReason atomic.Int32
	tn := NewTunnel(&TunnelConfig{
		ID: fmt.Sprintf("c12t-%d", cs.Idx), MappingID: "m", Role: role, Protocol: "tcp",
		LocalConn: local, TunnelRWC: ep, TargetClient: 7, Manager: mgr, Client: c12tClient{},
		OnClosed: func(reason CloseReason, err error) { closeReason.Store(int32(reason)); closedN.Add(1) },
	})
	if err := mgr.RegisterTunnel(tn); err != nil {
		run.Count("setup_failed", 1)
		return
	}

	// application: one reader (always draining, records what arrives) and scripted writes
	var appMu sync.Mutex
	var appGot []byte
	var appEOF, appReadErr atomic.Bool
	readerDone := make(chan struct{})
	appLen := func() int { appMu.Lock(); defer appMu.Unlock(); return len(appGot) }
	var writeDone atomic.Bool
	var writeErr atomic.Value
	w := &c12tWatch{idle: tun.Drained}
	started := make(chan error, 1)
	launch := make(chan struct{})
	go func() { // every goroutine of the case descends from this one
		w.roots = []string{c12tGoid()}
		close(launch)
		go func() {
			defer close(readerDone)
			buf := make([]byte, 32*1024)
			for {
				n, err := app.Read(buf)
				if n > 0 {
					appMu.Lock()
					appGot = append(appGot, buf[:n]...)
					appMu.Unlock()
				}
				if err != nil {
					if err == io.EOF {
						appEOF.Store(true)
					} else {
						appReadErr.Store(true)
					}
					return
				}
			}
		}()
		started <- tn.Start()
	}()
	<-launch
	if err := <-started; err != nil {
		run.Count("setup_failed", 1)
		return
	}
	appSend := func() { // request/answer of the application, then its FIN
		go func() {
			id := c12tGoid()
			w.mu.Lock()
			w.extra = append(w.extra, id)
			w.mu.Unlock()
			if _, err := app.Write(dataAB); err != nil {
				writeErr.Store(err.Error())
			}
			if err := app.CloseWrite(); err != nil {
				writeErr.Store(err.Error())
			}
			writeDone.Store(true)
		}()
	}

	sigBase := "C12:tunnel-tcp|order=" + cs.Order
	detail := func(extra map[string]any) map[string]any {
		m := map[string]any{"case": cs, "app_received": appLen(), "app_saw_eof": appEOF.Load(), "tunnel_out_len": tun.OutLen(),
			"tunnel_eof_consumed": tun.EndSeen(), "tunnel_closewrite": tun.CWCalled(), "on_closed": closedN.Load(), "tunnel_closes": tun.closes.Load()}
		for k, v := range extra {
			m[k] = v
		}
		return m
	}
	midWait := func(hcSig string, cond func() bool, isHalfCloseMiss func() bool, note string) {
		w.quick = budget.exhausted(hcSig)
		out := w.until(cond)
		w.quick = false
		run.Count("halfclose_wait_"+out, 1)
		switch out {
		case "ok":
			run.Count("halfclose_then_reverse", 1)
		case "hang":
			if isHalfCloseMiss() {
				budget.spend(hcSig)
				run.Violation(hcSig, detail(map[string]any{"note": note, "goroutines": w.last}))
			}
		}
	}

	switch cs.Order {
	case "tunnel-first":
		tun.FeedChunks(dataBA, chB)
		tun.FeedEOF()
		// the application reads to EOF before it answers
		midWait(sigBase+"|half-close-not-propagated", appEOF.Load,
			func() bool { return tun.EndSeen() && appLen() >= cs.LenBA && !appEOF.Load() },
			"the tunnel direction ended and all its bytes reached the application, every goroutine is parked, but the local socket never received a FIN (CloseWrite on the local *net.TCPConn was not performed)")
		appSend()
	case "local-first":
		appSend()
		midWait(sigBase+"|half-close-not-propagated",
			func() bool { return tun.OutLen() >= cs.LenAB && writeDone.Load() && (!cwTun || tun.CWCalled()) },
			func() bool { return cwTun && !tun.CWCalled() && tun.OutLen() >= cs.LenAB && writeDone.Load() },
			"the application's FIN was consumed and all its bytes forwarded, every goroutine is parked, but CloseWrite was never called on the tunnel endpoint that supports it")
		tun.FeedChunks(dataBA, chB)
		tun.FeedEOF()
	default:
		if cs.Idx%2 == 0 {
			appSend()
			tun.FeedChunks(dataBA, chB)
			tun.FeedEOF()
		} else {
			tun.FeedChunks(dataBA, chB)
			tun.FeedEOF()
			appSend()
		}
	}

	// both sides have ended: the tunnel must finish
	hangSig := sigBase + "|mode=hang"
	w.quick = budget.exhausted(hangSig)
	out := w.until(func() bool { return closedN.Load() > 0 })
	self := out == "ok"
	switch out {
	case "ok":
		run.Count("tunnel_finished", 1)
	case "hang":
		budget.spend(hangSig)
		run.Violation(hangSig, detail(map[string]any{"goroutines": w.last}))
	case "presumed-hang":
		run.Count("presumed_hang_not_classified", 1)
	default:
		run.Count("watchdog", 1)
	}
	if !self {
		app.Close()
		t0 := time.Now()
		for closedN.Load() == 0 && time.Since(t0) < 3*time.Second {
			time.Sleep(time.Millisecond)
		}
		if closedN.Load() == 0 {
			tn.Close(CloseReasonError, nil)
			run.Count("forced_close", 1)
		}
	}
	select {
	case <-readerDone:
	case <-time.After(5 * time.Second):
		app.Close()
		<-readerDone
		run.Count("reader_forced", 1)
		self = false
	}
	run.Eval(1)
	if out == "watchdog" {
		return
	}

	appMu.Lock()
	got := append([]byte(nil), appGot...)
	appMu.Unlock()
	gotTun := tun.OutBytes()
	if c := c12tPrefixClass(got, dataBA); c != "equal" && (self || c != "short") {
		run.Violation(fmt.Sprintf("%s|dir=tunnel>local|got=%s", sigBase, c), detail(map[string]any{"got_len": len(got), "offered_len": len(dataBA)}))
	} else if c == "equal" {
		run.Count("direction_delivered_exactly", 1)
	}
	if c := c12tPrefixClass(gotTun, dataAB); c != "equal" && (self || c != "short") {
		run.Violation(fmt.Sprintf("%s|dir=local>tunnel|got=%s", sigBase, c), detail(map[string]any{"got_len": len(gotTun), "offered_len": len(dataAB)}))
	} else if c == "equal" {
		run.Count("direction_delivered_exactly", 1)
	}
	if self {
		if !appEOF.Load() {
			run.Violation(sigBase+"|app-stream-not-ended-cleanly", detail(map[string]any{"read_error": appReadErr.Load()}))
		} else {
			run.Count("app_saw_clean_eof", 1)
		}
		if tun.closes.Load() < 1 {
			run.Violation("C12:tunnel-tcp|tunnel-endpoint-left-open", detail(nil))
		}
		st := tn.GetStats()
		if st.BytesSent != int64(len(gotTun)) || st.BytesRecv != int64(len(got)) {
			run.Violation("C12:tunnel-tcp|stats-counters", detail(map[string]any{"bytes_sent": st.BytesSent, "bytes_recv": st.BytesRecv}))
		} else {
			run.Count("counters_checked", 1)
		}
		run.Count("close_reason_"+CloseReason(closeReason.Load()).String(), 1)
	}
	if cs.LenAB+cs.LenBA > 0 {
		run.Distinct(fmt.Sprintf("%s|%s|acc=%v|%s|ab=%d|ba=%d|chunk=%d", cs.Order, cs.TunnelKind, cs.Accepted, cs.Role, c12tBucket(cs.LenAB), c12tBucket(cs.LenBA), c12tBucket(cs.ChunkMax)))
	}
}

func c12tBucket(n int) int {
	switch {
	case n == 0:
		return 0
	case n < 256:
		return 1
	case n <= 32768:
		return 2
	default:
		return 3
	}
}

func TestVerifC12Tunnel(t *testing.T) {
	vk.Quiet()
	run := vk.Start(t, "C12", "tunnel-tcp")
	defer run.Finish()
	run.Rule("a real started tunnel.Tunnel (real manager, runDataCopy -> iocopy.Bidirectional) between a loopback-TCP local application (*net.TCPConn, dialed or accepted end) and a scripted tunnel side (plain / CloseWrite / NewReadWriteCloser over both); payloads 0..256KiB each way, position-coded, seeded tunnel read chunking; orders {tunnel ends first and the application answers only after reading to EOF, application half-closes first and the tunnel answers only after seeing everything, simultaneous}. distinct = (order, tunnel kind, which TCP end, role, size buckets, chunk bucket); non-trivial = at least one byte offered")
	before := vk.SnapshotGoroutines()
	r := run.Rand("gen")
	n := run.Pick(150, 1500)
	sizes := []int{0, 1, 100, 4096, 32768, 32769, 65536, 100000, 262144}
	orders := []string{"tunnel-first", "local-first", "simul"}
	kinds := []string{"plain", "half", "rwc", "rwchalf"}
	cases := make([]c12tCase, n)
	for i := range cases {
		pick := func() int {
			if r.Intn(3) == 0 {
				return r.Intn(70000)
			}
			return sizes[r.Intn(len(sizes))]
		}
		cases[i] = c12tCase{Idx: i, Seed: r.Uint64() >> 1, LenAB: pick(), LenBA: pick(), Order: orders[i%3],
			TunnelKind: kinds[r.Intn(len(kinds))], Accepted: r.Intn(2) == 0, Role: []string{"listen", "target"}[r.Intn(2)],
			ChunkMax: []int{7, 1500, 32768, 100000}[r.Intn(4)]}
		if cases[i].LenBA > 70000 && cases[i].ChunkMax == 7 {
			cases[i].ChunkMax = 1500
		}
	}
	for i := 0; i < 3 && i < n; i++ {
		run.Sample(cases[i])
	}
	budget := &c12tBudget{max: 16}
	var wg sync.WaitGroup
	var next atomic.Int64
	for k := 0; k < 6; k++ {
		wg.Add(1)
		go func() {
			defer wg.Done()
			for {
				i := int(next.Add(1)) - 1
				if i >= n {
					return
				}
				run.Case(fmt.Sprintf("tunnel%d|%s", i, cases[i].Order), cases[i])
				c12tRun(run, cases[i], budget)
			}
		}()
	}
	wg.Wait()
	if left := before.Leaked([]string{"client/tunnel.(*Tunnel)", "iocopy.Bidirectional"}, nil, 2*time.Second); len(left) > 0 {
		if run.Counter("forced_close")+run.Counter("watchdog") == 0 {
			run.Violation("C12:tunnel-tcp|goroutines-left-after-finish", map[string]any{"goroutines": vk.FrameSummary(left)})
		} else {
			run.Observe("goroutines_left", vk.FrameSummary(left))
		}
	}
	run.Floor("tunnel_finished", int64(n*9/10))
	run.Floor("halfclose_then_reverse", int64(n/2))
	run.Floor("app_saw_clean_eof", int64(n*9/10))
	run.Floor("direction_delivered_exactly", int64(n*3/2))
	run.Floor("counters_checked", int64(n*9/10))
}
