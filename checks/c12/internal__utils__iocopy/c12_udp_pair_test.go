//go:build verif && verif_c12

package iocopy

import (
	"fmt"
	"testing"
	"time"

	vk "tunnox-core/internal/verifkit"
)

// C12 / UDP relay PAIRS: two real iocopy.UDP relays back to back, as on a real path
// (listen-side client encodes, target-side client decodes, and vice versa), joined by an
// in-memory duplex byte stream. Whatever one relay writes the other one has to parse.
//
// Workload: datagram sequences in both directions with sizes swept densely around the
// buffer boundaries of this path (1390..1610, 2^k+-2, 65483..65535) and EMPTY datagrams in
// the middle of the session. Oracle (per the statement; the current tree drops empty
// datagrams, so for those both "dropped" and "delivered as empty" are accepted): the
// non-empty datagrams arrive at the far application with identical content, boundaries
// and order — in particular everything sent AFTER an empty datagram — and neither relay
// ends while both applications and the stream are still open. When the near application
// closes at the end, both relays return.

var c12PairSweep = func() []int {
	var v []int
	for n := 1390; n <= 1610; n++ {
		v = append(v, n)
	}
	for k := 0; k <= 15; k++ {
		for d := -2; d <= 2; d++ {
			if n := 1<<k + d; n >= 1 {
				v = append(v, n)
			}
		}
	}
	return append(v, 65483, 65484, 65485, 65505, 65506, 65507, 65508, 65533, 65534, 65535)
}()

type c12PairCase struct {
	Idx     int   `json:"idx"`
	Key     uint64 `json:"pattern_key"`
	Fwd     []int `json:"near_to_far_sizes"` // 0 = empty datagram
	Back    []int `json:"far_to_near_sizes"`
	BurstSz int   `json:"burst"`
}

func c12NonEmpty(d [][]byte) (out [][]byte, empties int) {
	for _, x := range d {
		if len(x) == 0 {
			empties++
		} else {
			out = append(out, x)
		}
	}
	return
}

func c12RunPair(run *vk.Run, cs c12PairCase) {
	near, far := c12NewDgram(errC12Closed), c12NewDgram(errC12Closed)
	sa, sb := vk.BufPipe("near-relay", "far-relay")
	wN := &c12Watch{done: make(chan struct{})}
	wF := &c12Watch{done: make(chan struct{})}
	wN.idle = func() bool { return near.Drained() && far.Drained() && sa.Pending() == 0 && sb.Pending() == 0 }
	wF.idle = wN.idle
	go func() {
		wN.caller.Store(c12Goid())
		defer close(wN.done)
		UDP(near, sa, &Options{LogPrefix: "c12-near"})
	}()
	go func() {
		wF.caller.Store(c12Goid())
		defer close(wF.done)
		UDP(far, sb, &Options{LogPrefix: "c12-far"})
	}()
	mk := func(key uint64, sizes []int) [][]byte {
		out := make([][]byte, len(sizes))
		for i, n := range sizes {
			out[i] = vk.Pattern(key+uint64(i)*7919, 0, n)
		}
		return out
	}
	fwd, back := mk(cs.Key, cs.Fwd), mk(cs.Key^0x9e3779b9, cs.Back)
	wantF, emptF := c12NonEmpty(fwd)
	wantB, emptB := c12NonEmpty(back)
	detail := func(extra map[string]any) map[string]any {
		gf, _ := c12NonEmpty(far.Outs())
		gb, _ := c12NonEmpty(near.Outs())
		m := map[string]any{"case": map[string]any{"idx": cs.Idx, "pattern_key": cs.Key, "near_to_far_head": c12Head(cs.Fwd, 24), "far_to_near_head": c12Head(cs.Back, 24), "burst": cs.BurstSz},
			"near_to_far_nonempty_sent": len(wantF), "arrived_far": len(gf), "far_to_near_nonempty_sent": len(wantB), "arrived_near": len(gb),
			"near_relay_returned": wN.returned(), "far_relay_returned": wF.returned()}
		for k, v := range extra {
			m[k] = v
		}
		return m
	}
	arrived := func() bool {
		gf, _ := c12NonEmpty(far.Outs())
		gb, _ := c12NonEmpty(near.Outs())
		return len(gf) >= len(wantF) && len(gb) >= len(wantB)
	}
	// both applications send in bursts, interleaved
	i, j := 0, 0
	for i < len(fwd) || j < len(back) {
		for k := 0; k < cs.BurstSz && i < len(fwd); k++ {
			near.Feed(fwd[i])
			i++
		}
		for k := 0; k < cs.BurstSz && j < len(back); k++ {
			far.Feed(back[j])
			j++
		}
		if wN.returned() || wF.returned() {
			break
		}
	}
	// mid-session: everything must arrive while both relays are still running
	out := wN.until(func() bool { return arrived() || wF.returned() })
	ended := wN.returned() || wF.returned()
	switch {
	case ended:
		run.Violation("C12:udp-pair|relay-ended-mid-session", detail(map[string]any{"note": "a relay returned although both applications and the stream between the relays were still open"}))
	case out == "hang":
		run.Violation("C12:udp-pair|datagrams-stuck|mode=hang", detail(map[string]any{"goroutines": wN.last}))
	case out == "watchdog":
		run.Count("watchdog", 1)
	default:
		run.Count("sessions_complete_while_running", 1)
	}
	// the near application closes: the whole chain winds down
	near.Close()
	o1 := wN.until(wN.returned)
	o2 := wF.until(wF.returned)
	if (o1 == "ok" || o1 == "returned") && (o2 == "ok" || o2 == "returned") {
		run.Count("both_returned", 1)
	} else {
		if o1 == "hang" || o2 == "hang" {
			run.Violation("C12:udp-pair|close|mode=hang", detail(map[string]any{"near": o1, "far": o2, "goroutines": wF.last}))
		} else {
			run.Count("watchdog", 1)
		}
		far.Close()
		sa.Close()
		sb.Close()
		wN.release(3 * time.Second)
		wF.release(3 * time.Second)
	}
	run.Eval(1)
	if out == "watchdog" {
		return
	}
	check := func(dir string, got [][]byte, want [][]byte, emptiesSent int) {
		g, e := c12NonEmpty(got)
		c := c12CmpDgrams(g, want)
		switch {
		case c != "equal":
			cls := c
			if len(c) > 7 && c[:7] == "differs" {
				cls = "content-or-boundary"
			}
			run.Violation("C12:udp-pair|dir="+dir+"|got="+cls, detail(map[string]any{"compare": c}))
		case e > emptiesSent:
			run.Violation("C12:udp-pair|dir="+dir+"|got=extra-empty", detail(map[string]any{"empty_delivered": e, "empty_sent": emptiesSent}))
		default:
			run.Count("datagrams_delivered_checked", int64(len(g)))
			run.Count("empty_datagrams_sent", int64(emptiesSent))
			run.Count("empty_datagrams_delivered", int64(e))
		}
	}
	check("near>far", far.Outs(), wantF, emptF)
	check("far>near", near.Outs(), wantB, emptB)
	run.Distinct(fmt.Sprintf("n=%d/%d|empties=%d/%d|burst=%d", len(cs.Fwd)/8, len(cs.Back)/8, emptF, emptB, cs.BurstSz))
}

func TestVerifC12UDPRelayPair(t *testing.T) {
	vk.Quiet()
	run := vk.Start(t, "C12", "udp-relay-pair")
	defer run.Finish()
	run.Rule("two real iocopy.UDP relays joined by an in-memory duplex stream; 8..40 datagrams per direction fed in bursts of 1..8, sizes taken in turn from the boundary sweep (1390..1610, 2^k+-2 for k<=15, 65483..65535) so one quick run covers every size, plus 1..3 EMPTY datagrams per direction placed mid-session (never last); distinct = (#datagrams/8 per direction, #empties, burst)")
	before := vk.SnapshotGoroutines()
	r := run.Rand("gen")
	n := run.Pick(48, 480)
	cases := make([]c12PairCase, n)
	cur := 0
	for i := range cases {
		cs := c12PairCase{Idx: i, Key: r.Uint64() >> 1, BurstSz: 1 + r.Intn(8)}
		gen := func() []int {
			k := 8 + r.Intn(33)
			v := make([]int, k)
			for j := range v {
				v[j] = c12PairSweep[cur%len(c12PairSweep)]
				cur++
			}
			for e := 1 + r.Intn(3); e > 0; e-- {
				v[r.Intn(k-1)] = 0 // an empty datagram, never the last one
			}
			return v
		}
		cs.Fwd, cs.Back = gen(), gen()
		cases[i] = cs
	}
	run.Observe("sweep_sizes", len(c12PairSweep))
	c12Pool(n, 6, func(i int) {
		run.Case(fmt.Sprintf("udppair%d", i), map[string]any{"idx": i})
		c12RunPair(run, cases[i])
	})
	c12UDPLeak(run, before)
	run.Floor("sessions_complete_while_running", int64(n*9/10))
	run.Floor("both_returned", int64(n*9/10))
	run.Floor("datagrams_delivered_checked", int64(len(c12PairSweep)*2))
	run.Floor("empty_datagrams_sent", int64(n*2))
}
