//go:build verif && verif_c12

package iocopy

import (
	"fmt"
	"io"
	"math/rand"
	"sync"
	"sync/atomic"
	"testing"
	"time"

	vk "tunnox-core/internal/verifkit"
)

// C12 / UDP relay, tunnel-side WRITE faults.
//
// (1) slow tunnel: the tunnel's Write takes a seeded few milliseconds (a congested /
//     rate-limited stream) while the local side keeps injecting datagrams — each Write that
//     starts triggers the next burst — across 20 ms ticker flushes, half-full flushes and
//     buffer-full flushes. If the relay ever has two Writes in flight, the environment lets
//     the newer one complete first (any completion order of concurrent writes is legal).
//     Oracle unchanged: the bytes that reached the tunnel, in completion order and with the
//     content the buffer had when the write completed, decode to exactly the datagrams
//     offered on the local side, in order.
// (2) failing tunnel: Write fails (from the start / after a few bytes) while the tunnel's
//     Read stays blocked and the local side sends > 256 KB; the harness then closes the
//     tunnel endpoint (what Tunnel.Close does). Oracle: UDP() returns, both endpoints
//     closed, and afterwards nothing of the call is left running: no goroutine with an
//     iocopy.UDP frame, no (repeated) Write on the closed tunnel endpoint.

type c12SlowTunnel struct {
	*c12Conn
	entered  atomic.Int64
	finished atomic.Int64
	inflight atomic.Int64
	overlaps atomic.Int64
	onEnter  func()
	delays   []time.Duration
}

func (s *c12SlowTunnel) Write(p []byte) (int, error) {
	idx := s.entered.Add(1)
	overlapping := s.inflight.Add(1) > 1
	defer s.inflight.Add(-1)
	if overlapping {
		s.overlaps.Add(1)
	}
	if s.onEnter != nil {
		s.onEnter()
	}
	if !overlapping {
		d := s.delays[int(idx)%len(s.delays)]
		t0 := time.Now()
		for {
			el := time.Since(t0)
			newer := s.entered.Load() > idx && s.finished.Load() < idx // a concurrent newer write has not completed yet
			if el >= d && (!newer || el >= d+50*time.Millisecond) {
				break
			}
			time.Sleep(100 * time.Microsecond)
		}
	}
	n, err := s.c12Conn.Write(p) // the bytes reach the tunnel now
	s.finished.Add(1)
	return n, err
}

type c12SlowCase struct {
	Idx     int     `json:"idx"`
	Key     uint64  `json:"pattern_key"`
	Bursts  [][]int `json:"local_bursts"`
	DelayUs []int   `json:"write_delays_us"`
	CloseAs string  `json:"local_close_error"`
}

func c12RunSlow(run *vk.Run, cs c12SlowCase) {
	tun := c12NewConn("tunnel")
	st := &c12SlowTunnel{c12Conn: tun}
	for _, u := range cs.DelayUs {
		st.delays = append(st.delays, time.Duration(u)*time.Microsecond)
	}
	closeErr := io.EOF
	if cs.CloseAs == "closed" {
		closeErr = errC12Closed
	}
	loc := c12NewDgram(closeErr)
	var bursts [][][]byte
	k, total := 0, 0
	for _, b := range cs.Bursts {
		var x [][]byte
		for _, n := range b {
			x = append(x, vk.Pattern(cs.Key+uint64(k)*7919, 0, n))
			k++
			total++
		}
		bursts = append(bursts, x)
	}
	var bmu sync.Mutex
	next := 0
	feedNext := func() bool {
		bmu.Lock()
		defer bmu.Unlock()
		if next >= len(bursts) {
			return false
		}
		for _, d := range bursts[next] {
			loc.Feed(d)
		}
		next++
		return true
	}
	st.onEnter = func() { feedNext() }

	w := &c12Watch{done: make(chan struct{})}
	w.idle = func() bool { return tun.Drained() && loc.Drained() }
	var res *Result
	go func() {
		w.caller.Store(c12Goid())
		defer close(w.done)
		res = UDP(loc, st, &Options{LogPrefix: "c12"})
	}()
	detail := func(extra map[string]any) map[string]any {
		m := map[string]any{"case": map[string]any{"idx": cs.Idx, "bursts_head": cs.Bursts[:min(len(cs.Bursts), 6)], "delays_us": cs.DelayUs, "pattern_key": cs.Key},
			"datagrams_offered": total, "local_consumed": loc.Consumed(), "tunnel_writes": st.entered.Load(), "overlapping_writes": st.overlaps.Load(), "tunnel_out_len": tun.OutLen()}
		for k, v := range extra {
			m[k] = v
		}
		return m
	}
	feedNext()
	// keep the local side sending; every tunnel Write that starts injects a burst as well
	t0 := time.Now()
	for {
		bmu.Lock()
		left := next < len(bursts)
		bmu.Unlock()
		if !left || time.Since(t0) > c12Watchdog || w.returned() {
			break
		}
		if loc.Drained() {
			feedNext()
		}
		time.Sleep(time.Millisecond)
	}
	// local side falls silent; once the relay consumed everything the tunnel ends
	out := w.until(func() bool { return loc.Consumed() >= total })
	if out != "ok" {
		run.Count("consume_wait_"+out, 1)
	}
	consumedAll := out == "ok"
	tun.FeedEnd(io.EOF)
	out = w.until(w.returned)
	self := out == "ok" || out == "returned"
	switch {
	case self:
		run.Count("returned", 1)
	case out == "hang":
		run.Violation("C12:udp|slow-tunnel|mode=hang", detail(map[string]any{"goroutines": w.last}))
	default:
		run.Count("watchdog", 1)
	}
	if !self {
		loc.Close()
		tun.Close()
		if !w.release(5 * time.Second) {
			run.Count("unreleased", 1)
			return
		}
	}
	run.Eval(1)
	run.Count("tunnel_writes", st.entered.Load())
	run.Count("overlapping_tunnel_writes_seen", st.overlaps.Load())
	dec, rest, zero := c12Decode(tun.OutBytes())
	fed := loc.Fed()
	c := c12CmpDgrams(dec, fed[:min(len(fed), loc.Consumed())])
	switch {
	case zero || rest != 0:
		run.Violation("C12:udp|slow-tunnel|dir=local>tunnel|got=malformed-stream", detail(map[string]any{"trailing_bytes": rest, "zero_length_record": zero}))
	case c != "equal":
		cls := c
		if len(c) > 7 && c[:7] == "differs" {
			cls = "order-or-content"
		}
		run.Violation("C12:udp|slow-tunnel|dir=local>tunnel|got="+cls, detail(map[string]any{"compare": c, "decoded": len(dec)}))
	default:
		run.Count("datagrams_forwarded_checked", int64(len(dec)))
		if consumedAll {
			run.Count("cases_all_forwarded", 1)
		}
	}
	if self && res != nil && (loc.closes.Load() < 1 || tun.closes.Load() < 1) {
		run.Violation("C12:udp|endpoint-left-open-at-return", detail(nil))
	}
	run.Distinct(fmt.Sprintf("bursts=%d|writes=%d|delay0=%d", len(cs.Bursts), st.entered.Load()/4, cs.DelayUs[0]/1000))
}

var errC12Closed = fmt.Errorf("use of closed network connection")

func TestVerifC12UDPSlowTunnel(t *testing.T) {
	vk.Quiet()
	run := vk.Start(t, "C12", "udp-slow-tunnel")
	defer run.Finish()
	run.Rule("iocopy.UDP with a tunnel whose Write takes a seeded 0.3-6 ms (and, should two Writes ever be in flight, completes the newer first); the local side injects 8-30 bursts of 1-4 position-coded datagrams (sizes {1,255,1400,65507,65535}, half of them large so half-full and buffer-full flushes occur), one burst whenever a tunnel Write starts and whenever it is drained, over several 20 ms ticker periods. distinct = (#bursts, #tunnel writes/4, first delay)")
	before := vk.SnapshotGoroutines()
	r := run.Rand("gen")
	n := run.Pick(40, 400)
	cases := make([]c12SlowCase, n)
	for i := range cases {
		cs := c12SlowCase{Idx: i, Key: r.Uint64() >> 1, CloseAs: []string{"eof", "closed"}[r.Intn(2)]}
		for b := 8 + r.Intn(23); b > 0; b-- {
			var burst []int
			for k := 1 + r.Intn(4); k > 0; k-- {
				if r.Intn(2) == 0 {
					burst = append(burst, []int{65507, 65535}[r.Intn(2)])
				} else {
					burst = append(burst, []int{1, 255, 1400}[r.Intn(3)])
				}
			}
			cs.Bursts = append(cs.Bursts, burst)
		}
		for k := 0; k < 5; k++ {
			cs.DelayUs = append(cs.DelayUs, []int{300, 1000, 3000, 6000}[r.Intn(4)])
		}
		cases[i] = cs
	}
	c12Pool(n, 8, func(i int) {
		run.Case(fmt.Sprintf("udpslow%d", i), map[string]any{"idx": i})
		c12RunSlow(run, cases[i])
	})
	c12UDPLeak(run, before)
	run.Floor("returned", int64(n*9/10))
	run.Floor("cases_all_forwarded", int64(n*9/10))
	run.Floor("tunnel_writes", int64(n*5))
	run.Floor("datagrams_forwarded_checked", int64(n*10))
}

// ---------------------------------------------------------------- failing tunnel writes

type c12WFailCase struct {
	Idx    int    `json:"idx"`
	Key    uint64 `json:"pattern_key"`
	FailAt int    `json:"tunnel_accepts_bytes_before_failing"`
	Sizes  []int  `json:"local_sizes"`
	Kind   string `json:"tunnel_kind"`
}

func c12RunWFail(run *vk.Run, cs c12WFailCase, tuns *[]*c12Conn, mu *sync.Mutex) {
	tun := c12NewConn("tunnel")
	tun.wFailAt = cs.FailAt
	mu.Lock()
	*tuns = append(*tuns, tun)
	mu.Unlock()
	ep, _ := c12Endpoint(tun, cs.Kind)
	loc := c12NewDgram(io.EOF)
	w := &c12Watch{done: make(chan struct{})}
	w.idle = func() bool { return tun.Drained() && loc.Drained() }
	go func() {
		w.caller.Store(c12Goid())
		defer close(w.done)
		UDP(loc, ep, &Options{LogPrefix: "c12"})
	}()
	detail := func(extra map[string]any) map[string]any {
		m := map[string]any{"case": cs, "local_consumed": loc.Consumed(), "tunnel_out_len": tun.OutLen(), "tunnel_write_failed": tun.WriteFailed(),
			"tunnel_closewrite": tun.CWCalled(), "writes_after_close": tun.WritesAfterClose()}
		for k, v := range extra {
			m[k] = v
		}
		return m
	}
	for i, n := range cs.Sizes {
		loc.Feed(vk.Pattern(cs.Key+uint64(i)*7919, 0, n))
	}
	// the UDP->tunnel direction gives up once the full batch buffer cannot be flushed;
	// it announces that with CloseWrite on the tunnel endpoint
	out := w.until(func() bool { return tun.CWCalled() })
	run.Count("direction_end_wait_"+out, 1)
	if out == "returned" {
		run.Violation("C12:udp|write-fail|returned-before-tunnel-ended", detail(nil))
	}
	// the owner of the relay closes the tunnel endpoint (its Read was still blocked)
	tun.Close()
	out = w.until(w.returned)
	switch out {
	case "ok", "returned":
		run.Count("returned", 1)
		if loc.closes.Load() < 1 {
			run.Violation("C12:udp|endpoint-left-open-at-return", detail(nil))
		}
	case "hang":
		run.Violation("C12:udp|write-fail|mode=hang", detail(map[string]any{"goroutines": w.last}))
		loc.Close()
		w.release(3 * time.Second)
	default:
		run.Count("watchdog", 1)
		loc.Close()
		if !w.release(3 * time.Second) {
			run.Count("unreleased", 1)
		}
	}
	if tun.WriteFailed() {
		run.Count("tunnel_write_failed_cases", 1)
	}
	run.Eval(1)
	run.Distinct(fmt.Sprintf("%s|failat=%d|n=%d", cs.Kind, cs.FailAt, len(cs.Sizes)))
}

func TestVerifC12UDPWriteFail(t *testing.T) {
	vk.Quiet()
	run := vk.Start(t, "C12", "udp-tunnel-write-fail")
	defer run.Finish()
	run.Rule("iocopy.UDP with a tunnel endpoint (CloseWrite-capable kinds) whose Write fails from the start or after a seeded number of bytes while its Read stays blocked; the local side sends 300-700 KB in datagrams of mostly 65507/65535 bytes so the 256 KB batch buffer overflows; after the UDP->tunnel direction gave up the harness closes the tunnel endpoint. distinct = (tunnel kind, fail offset, #datagrams)")
	before := vk.SnapshotGoroutines()
	r := run.Rand("gen")
	n := run.Pick(12, 120)
	cases := make([]c12WFailCase, n)
	for i := range cases {
		cs := c12WFailCase{Idx: i, Key: r.Uint64() >> 1, Kind: []string{"half", "rwchalf", "rwcfn"}[r.Intn(3)],
			FailAt: []int{0, 0, 3, 70000, 140000}[r.Intn(5)]}
		tot := 0
		want := 300000 + r.Intn(400000)
		for tot < want {
			s := []int{65507, 65535}[r.Intn(2)]
			if r.Intn(5) == 0 {
				s = []int{1, 255, 1400}[r.Intn(3)]
			}
			cs.Sizes = append(cs.Sizes, s)
			tot += s
		}
		cases[i] = cs
	}
	var tuns []*c12Conn
	var mu sync.Mutex
	c12Pool(n, 6, func(i int) {
		run.Case(fmt.Sprintf("udpwfail%d", i), cases[i])
		c12RunWFail(run, cases[i], &tuns, &mu)
	})
	// everything returned (or was released): nothing of those calls may still be running
	left := before.Leaked([]string{"iocopy.UDP"}, nil, 2*time.Second)
	if len(left) > 0 && run.Counter("unreleased") == 0 {
		run.Violation("C12:udp|goroutines-left-after-return", map[string]any{"goroutines": vk.FrameSummary(left), "count": len(left)})
	}
	// a flush goroutine that survived keeps writing to the closed endpoint every 20 ms;
	// a single late write may be a flush that was already in flight, two or more are not
	// "keeps writing" is judged as persistence, not as a count at one instant: writes that were
	// already in flight when the endpoint was closed (the copy loop's and the timer flush's can
	// both be, on a loaded machine) stop by themselves; a surviving flusher adds one every 20 ms.
	// So an endpoint counts only if it had >= 2 late writes AND gains >= 3 more during a further
	// 400 ms of observation (three consecutive samples must each show growth).
	var late atomic.Int64
	worst := 0
	for _, tc := range tuns {
		k := tc.WritesAfterClose()
		if k < 2 {
			continue
		}
		run.Count("endpoints_with_writes_in_flight_at_close", 1)
		grew := 0
		prev := k
		for i := 0; i < 4; i++ {
			time.Sleep(100 * time.Millisecond)
			if cur := tc.WritesAfterClose(); cur > prev {
				grew++
				prev = cur
			}
		}
		if grew >= 3 && prev-k >= 3 {
			late.Add(1)
			if prev > worst {
				worst = prev
			}
		}
	}
	if late.Load() > 0 {
		run.Violation("C12:udp|tunnel-written-after-close", map[string]any{"endpoints_with_repeated_writes_after_close": late.Load(), "max_writes_after_close": worst})
	}
	run.Floor("returned", int64(n*9/10))
	run.Floor("tunnel_write_failed_cases", int64(n*9/10))
}

var _ = rand.Int
