//go:build verif && verif_c12

package iocopy

import (
	"errors"
	"fmt"
	"io"
	"net"
	"regexp"
	"runtime"
	"sort"
	"strings"
	"sync"
	"sync/atomic"
	"time"

	vk "tunnox-core/internal/verifkit"
)

// C12 — shared doubles and the logical termination classifier.
//
// c12Conn  : scripted stream endpoint (TCP side A/B, and the tunnel side of the UDP relay)
// c12Dgram : scripted datagram endpoint modelled on mapping.UDPVirtualConn / a connected
//            *net.UDPConn: Read blocks (no deadline) until a datagram or Close
// c12Watch : decides "returned" / "hang" / "watchdog" without wall-clock verdicts

const (
	c12SpinLimit = 1000             // reads answered after the end of the script => spin
	c12Watchdog  = 20 * time.Second // firing = inconclusive, never a violation
)

var (
	c12ErrReset  = errors.New("c12: connection reset by peer (scripted read error)")
	c12ErrBroken = errors.New("c12: broken pipe (scripted write error)")
)

func c12Goid() string {
	var b [64]byte
	n := runtime.Stack(b[:], false)
	f := strings.Fields(string(b[:n]))
	if len(f) >= 2 {
		return f[1]
	}
	return ""
}

// ---------------------------------------------------------------- stream endpoint

type c12Conn struct {
	name string
	mu   sync.Mutex
	cond *sync.Cond

	in          [][]byte
	ended       bool
	endErr      error
	endWithData bool // the last chunk is returned together with endErr (n>0, err)
	endSeen     bool // the end was reported to the reader at least once
	transient     error // reported ONCE when the queue is empty; the stream continues afterwards
	transientSeen bool
	onEnd       func()
	closed      bool
	consumed    int

	out           []byte
	writes        int
	wFailAt       int // -1 = never; otherwise accept that many bytes, then fail with wErr
	wErr          error
	wFailAfterEnd bool // writes fail once the read side has reported its end
	wFailed       bool
	cw            bool // CloseWrite was called (through a wrapper that offers it)
	writeAfterCW  int
	wAfterClose   int // Write calls that arrived after Close

	closes  atomic.Int64
	reads   atomic.Int64
	postEnd atomic.Int64
	spun    atomic.Bool

	deadlineCalls atomic.Int64
	emptyReads    atomic.Int64 // Reads answered with (0, nil)
}

func c12NewConn(name string) *c12Conn {
	c := &c12Conn{name: name, wFailAt: -1, wErr: c12ErrBroken}
	c.cond = sync.NewCond(&c.mu)
	return c
}

func (c *c12Conn) Feed(b []byte) {
	if len(b) == 0 {
		return
	}
	c.mu.Lock()
	c.in = append(c.in, b) // callers hand over immutable slices of the pattern buffer
	c.cond.Broadcast()
	c.mu.Unlock()
}

// FeedChunksWithEmpties feeds data in chunks and scatters `empties` zero-length entries
// among them (seeded positions, runs allowed): each makes one Read return (0, nil), which
// io.Reader permits and a caller must treat as "nothing happened".
func (c *c12Conn) FeedChunksWithEmpties(data []byte, chunks []int, empties int, r interface{ Intn(int) int }) {
	slots := make([]int, len(chunks)+1) // empties before chunk i (last = after all data)
	for k := 0; k < empties; k++ {
		slots[r.Intn(len(slots))]++
	}
	c.mu.Lock()
	off := 0
	for i := 0; i <= len(chunks); i++ {
		for k := 0; k < slots[i]; k++ {
			c.in = append(c.in, []byte{})
		}
		if i < len(chunks) {
			n := chunks[i]
			if off+n > len(data) {
				n = len(data) - off
			}
			if n > 0 {
				c.in = append(c.in, data[off:off+n])
				off += n
			}
		}
	}
	if off < len(data) {
		c.in = append(c.in, data[off:])
	}
	c.cond.Broadcast()
	c.mu.Unlock()
}

func (c *c12Conn) FeedChunks(data []byte, chunks []int) {
	off := 0
	for _, n := range chunks {
		if off+n > len(data) {
			n = len(data) - off
		}
		if n <= 0 {
			break
		}
		c.Feed(data[off : off+n])
		off += n
	}
	if off < len(data) {
		c.Feed(data[off:])
	}
}

func (c *c12Conn) FeedEnd(err error) {
	c.mu.Lock()
	c.ended = true
	c.endErr = err
	c.cond.Broadcast()
	c.mu.Unlock()
}

// FeedTransient arms a one-shot error (e.g. a read timeout) delivered after the queued data.
func (c *c12Conn) FeedTransient(err error) {
	c.mu.Lock()
	c.transient = err
	c.cond.Broadcast()
	c.mu.Unlock()
}

func (c *c12Conn) TransientSeen() bool {
	c.mu.Lock()
	defer c.mu.Unlock()
	return c.transientSeen
}

// c12NetErr is a net.Error of a chosen class.
type c12NetErr struct{ timeout, temporary bool }

func (e c12NetErr) Error() string {
	return fmt.Sprintf("c12: i/o timeout (scripted net.Error timeout=%v temporary=%v)", e.timeout, e.temporary)
}
func (e c12NetErr) Timeout() bool   { return e.timeout }
func (e c12NetErr) Temporary() bool { return e.temporary }

func (c *c12Conn) Read(p []byte) (int, error) {
	c.reads.Add(1)
	if len(p) == 0 {
		return 0, nil
	}
	c.mu.Lock()
	for {
		if c.closed {
			c.mu.Unlock()
			return 0, net.ErrClosed
		}
		if len(c.in) > 0 {
			b := c.in[0]
			n := copy(p, b)
			if n == len(b) {
				c.in = c.in[1:]
			} else {
				c.in[0] = b[n:]
			}
			c.consumed += n
			if n == 0 {
				c.emptyReads.Add(1)
			}
			if len(c.in) == 0 && c.ended && c.endWithData && c.endErr != nil && !c.endSeen {
				c.endSeen = true
				err, hook := c.endErr, c.onEnd
				c.mu.Unlock()
				if hook != nil {
					hook()
				}
				return n, err
			}
			c.mu.Unlock()
			return n, nil
		}
		if c.transient != nil {
			err := c.transient
			c.transient = nil
			c.transientSeen = true
			c.mu.Unlock()
			return 0, err
		}
		if c.ended {
			first := !c.endSeen
			c.endSeen = true
			err, hook := c.endErr, c.onEnd
			c.mu.Unlock()
			if first {
				if hook != nil {
					hook()
				}
				return 0, err
			}
			if c.postEnd.Add(1) > c12SpinLimit {
				// The relay keeps asking although the stream has ended: verdict "spin".
				// End the spinning relay goroutine (its deferred calls still run).
				c.spun.Store(true)
				runtime.Goexit()
			}
			return 0, err
		}
		c.cond.Wait()
	}
}

func (c *c12Conn) Write(p []byte) (int, error) {
	c.mu.Lock()
	defer c.mu.Unlock()
	if c.closed {
		c.wAfterClose++
		return 0, net.ErrClosed
	}
	c.writes++
	if c.cw {
		c.writeAfterCW++
		return 0, io.ErrClosedPipe
	}
	if c.wFailAfterEnd && c.endSeen {
		c.wFailed = true
		return 0, c.wErr
	}
	if c.wFailAt >= 0 && len(c.out)+len(p) > c.wFailAt {
		n := c.wFailAt - len(c.out)
		if n < 0 {
			n = 0
		}
		c.out = append(c.out, p[:n]...)
		c.wFailed = true
		return n, c.wErr
	}
	c.out = append(c.out, p...)
	return len(p), nil
}

func (c *c12Conn) Close() error {
	c.closes.Add(1)
	c.mu.Lock()
	c.closed = true
	c.cond.Broadcast()
	c.mu.Unlock()
	return nil
}

// Deadline setters: a relay that finds them through a type assertion is recorded (a
// deadline put on the application's socket can cut a slow but legal transfer).
func (c *c12Conn) SetDeadline(time.Time) error      { c.deadlineCalls.Add(1); return nil }
func (c *c12Conn) SetReadDeadline(time.Time) error  { c.deadlineCalls.Add(1); return nil }
func (c *c12Conn) SetWriteDeadline(time.Time) error { c.deadlineCalls.Add(1); return nil }

func (c *c12Conn) closeWrite() {
	c.mu.Lock()
	c.cw = true
	c.mu.Unlock()
}

func (c *c12Conn) OutLen() int {
	c.mu.Lock()
	defer c.mu.Unlock()
	return len(c.out)
}

func (c *c12Conn) OutBytes() []byte {
	c.mu.Lock()
	defer c.mu.Unlock()
	return append([]byte(nil), c.out...)
}

func (c *c12Conn) WritesAfterClose() int {
	c.mu.Lock()
	defer c.mu.Unlock()
	return c.wAfterClose
}

func (c *c12Conn) CWCalled() bool {
	c.mu.Lock()
	defer c.mu.Unlock()
	return c.cw
}

func (c *c12Conn) EndSeen() bool {
	c.mu.Lock()
	defer c.mu.Unlock()
	return c.endSeen
}

func (c *c12Conn) WriteFailed() bool {
	c.mu.Lock()
	defer c.mu.Unlock()
	return c.wFailed
}

// Drained: everything fed so far has been handed to the reader.
func (c *c12Conn) Drained() bool {
	c.mu.Lock()
	defer c.mu.Unlock()
	return len(c.in) == 0
}

// c12Half offers CloseWrite on top of c12Conn (an endpoint that supports half-close).
type c12Half struct{ *c12Conn }

func (h c12Half) CloseWrite() error { h.closeWrite(); return nil }

// c12Endpoint wraps the scripted conn the way callers of the relay do.
// kinds: plain (no CloseWrite), half (CloseWrite), rwc (NewReadWriteCloser over plain:
// CloseWrite is a no-op), rwchalf (NewReadWriteCloser over half: forwarded),
// rwcfn (NewReadWriteCloserWithCloseWrite).
func c12Endpoint(c *c12Conn, kind string) (rwc io.ReadWriteCloser, halfClose bool) {
	switch kind {
	case "half":
		return c12Half{c}, true
	case "rwc":
		x, _ := NewReadWriteCloser(c, c, c.Close)
		return x, false
	case "rwchalf":
		h := c12Half{c}
		x, _ := NewReadWriteCloser(h, h, h.Close)
		return x, true
	case "rwcfn":
		x, _ := NewReadWriteCloserWithCloseWrite(c, c, c.Close, func() error { c.closeWrite(); return nil })
		return x, true
	default:
		return c, false
	}
}

var c12Kinds = []string{"plain", "half", "rwc", "rwchalf", "rwcfn"}

// ---------------------------------------------------------------- datagram endpoint

type c12Dgram struct {
	mu       sync.Mutex
	cond     *sync.Cond
	in       [][]byte
	fed      [][]byte // everything offered, in the order it was offered
	consumed int      // datagrams handed to the relay
	closed   bool
	closeErr error // what a blocked/late Read returns after Close (io.EOF like UDPVirtualConn, net.ErrClosed like *net.UDPConn)
	out      [][]byte
	closes   atomic.Int64
	reads    atomic.Int64
}

func c12NewDgram(closeErr error) *c12Dgram {
	d := &c12Dgram{closeErr: closeErr}
	d.cond = sync.NewCond(&d.mu)
	return d
}

func (d *c12Dgram) Feed(b []byte) {
	d.mu.Lock()
	d.in = append(d.in, b)
	d.fed = append(d.fed, b)
	d.cond.Broadcast()
	d.mu.Unlock()
}

func (d *c12Dgram) Read(p []byte) (int, error) {
	d.reads.Add(1)
	d.mu.Lock()
	defer d.mu.Unlock()
	for {
		if d.closed {
			return 0, d.closeErr
		}
		if len(d.in) > 0 {
			b := d.in[0]
			d.in = d.in[1:]
			d.consumed++
			return copy(p, b), nil
		}
		d.cond.Wait()
	}
}

func (d *c12Dgram) Write(p []byte) (int, error) {
	d.mu.Lock()
	defer d.mu.Unlock()
	if d.closed {
		return 0, io.ErrClosedPipe
	}
	d.out = append(d.out, append([]byte(nil), p...))
	return len(p), nil
}

func (d *c12Dgram) Close() error {
	d.closes.Add(1)
	d.mu.Lock()
	d.closed = true
	d.cond.Broadcast()
	d.mu.Unlock()
	return nil
}

func (d *c12Dgram) Drained() bool {
	d.mu.Lock()
	defer d.mu.Unlock()
	return len(d.in) == 0
}

func (d *c12Dgram) Fed() [][]byte {
	d.mu.Lock()
	defer d.mu.Unlock()
	return append([][]byte(nil), d.fed...)
}

func (d *c12Dgram) Consumed() int {
	d.mu.Lock()
	defer d.mu.Unlock()
	return d.consumed
}

func (d *c12Dgram) Outs() [][]byte {
	d.mu.Lock()
	defer d.mu.Unlock()
	return append([][]byte(nil), d.out...)
}

// ---------------------------------------------------------------- termination classifier

// c12Watch observes one relay call. "hang" = the call has not returned, every scripted
// endpoint is drained, and the goroutines of the call (the caller and everything it
// transitively created) are parked in identical frames in 3 consecutive dumps 100 ms apart.
type c12Watch struct {
	done   chan struct{}
	caller atomic.Value // goroutine id (string) of the goroutine inside the relay call
	idle   func() bool
	ids    map[string]bool
	last   []string // frame summary of the last dump (for the witness)
	// quick: the full classification (3 dumps) has already been done often enough for this
	// class of case in this run; one parked+drained dump ends the wait as "presumed-hang",
	// which is counted but never reported as a violation.
	quick bool
}

// c12Budget limits how many full hang classifications (>= 300 ms each) a run spends per
// violation signature; the verdict is unaffected (the signature is already recorded).
type c12Budget struct {
	mu   sync.Mutex
	used map[string]int
	max  int
}

func (b *c12Budget) exhausted(key string) bool {
	b.mu.Lock()
	defer b.mu.Unlock()
	return b.used[key] >= b.max
}

func (b *c12Budget) spend(key string) {
	b.mu.Lock()
	if b.used == nil {
		b.used = map[string]int{}
	}
	b.used[key]++
	b.mu.Unlock()
}

var c12CreatedRe = regexp.MustCompile(`created by \S+ in goroutine (\d+)`)

func c12Frames(stack string) string {
	var fr []string
	lines := strings.Split(stack, "\n")
	for i, l := range lines {
		if i == 0 || strings.HasPrefix(l, "\t") || l == "" {
			continue
		}
		if strings.HasPrefix(l, "created by ") {
			continue
		}
		if j := strings.LastIndex(l, "("); j > 0 {
			l = l[:j]
		}
		fr = append(fr, l)
	}
	return strings.Join(fr, "<")
}

func (w *c12Watch) snapshot() (sig string, parked bool) {
	caller, _ := w.caller.Load().(string)
	if caller == "" {
		return "", false
	}
	gs := vk.Goroutines()
	if w.ids == nil {
		w.ids = map[string]bool{}
	}
	w.ids[caller] = true
	parent := map[string]string{}
	for _, g := range gs {
		if m := c12CreatedRe.FindStringSubmatch(g.Stack); m != nil {
			parent[g.ID] = m[1]
		}
	}
	for changed := true; changed; {
		changed = false
		for id, p := range parent {
			if w.ids[p] && !w.ids[id] {
				w.ids[id] = true
				changed = true
			}
		}
	}
	parked = true
	var parts []string
	for _, g := range gs {
		if !w.ids[g.ID] {
			continue
		}
		st := g.State
		if i := strings.Index(st, ","); i >= 0 {
			st = st[:i]
		}
		switch st {
		case "running", "runnable", "syscall", "sleep": // sleep = wakes up on its own
			parked = false
		}
		parts = append(parts, "g"+g.ID+" ["+st+"] "+c12Frames(g.Stack))
	}
	sort.Strings(parts)
	w.last = parts
	return strings.Join(parts, "\n"), parked
}

func (w *c12Watch) returned() bool {
	select {
	case <-w.done:
		return true
	default:
		return false
	}
}

// until waits for cond. Results: "ok" (cond true), "returned" (the relay call returned
// while cond was still false), "hang" (see type comment), "presumed-hang" (quick mode),
// "watchdog".
func (w *c12Watch) until(cond func() bool) string {
	t0 := time.Now()
	same, prev := 0, ""
	for {
		if cond() {
			return "ok"
		}
		if w.returned() {
			if cond() {
				return "ok"
			}
			return "returned"
		}
		el := time.Since(t0)
		if el > c12Watchdog {
			return "watchdog"
		}
		if el < 30*time.Millisecond {
			if el < time.Millisecond {
				runtime.Gosched()
			} else {
				time.Sleep(100 * time.Microsecond)
			}
			continue
		}
		sig, parked := w.snapshot()
		// Parked in identical frames is decisive on its own: input that is still queued on an
		// endpoint can only wake a goroutine blocked in that endpoint's Read, and such a
		// goroutine would be runnable, not parked. (idle() is kept for the witness.)
		if parked && sig != "" {
			if sig == prev {
				same++
			} else {
				same = 1
			}
			prev = sig
			if w.quick {
				return "presumed-hang"
			}
			if same >= 3 {
				return "hang"
			}
		} else {
			same, prev = 0, ""
		}
		for i := 0; i < 20; i++ {
			if cond() {
				return "ok"
			}
			select {
			case <-w.done:
				i = 20
			case <-time.After(5 * time.Millisecond):
			}
		}
	}
}

// release waits (bounded) for the relay call to return after the harness closed the
// endpoints; false = still running (counted, never a verdict).
func (w *c12Watch) release(d time.Duration) bool {
	select {
	case <-w.done:
		return true
	case <-time.After(d):
		return false
	}
}

// ---------------------------------------------------------------- small helpers

func c12PrefixClass(got, want []byte) string {
	n := len(got)
	if n > len(want) {
		n = len(want)
	}
	for i := 0; i < n; i++ {
		if got[i] != want[i] {
			return "corrupt"
		}
	}
	switch {
	case len(got) == len(want):
		return "equal"
	case len(got) < len(want):
		return "short"
	default:
		return "long"
	}
}

func c12SizeBucket(n int) string {
	switch {
	case n == 0:
		return "0"
	case n < 256:
		return "tiny"
	case n <= 32768:
		return "le32k"
	case n <= 262144:
		return "le256k"
	default:
		return "big"
	}
}

func c12Head(v []int, n int) []int {
	if len(v) > n {
		return v[:n]
	}
	return v
}

// c12Pool runs f over n items with at most workers goroutines.
func c12Pool(n, workers int, f func(i int)) {
	var wg sync.WaitGroup
	var next atomic.Int64
	for w := 0; w < workers; w++ {
		wg.Add(1)
		go func() {
			defer wg.Done()
			for {
				i := int(next.Add(1)) - 1
				if i >= n {
					return
				}
				f(i)
			}
		}()
	}
	wg.Wait()
}
