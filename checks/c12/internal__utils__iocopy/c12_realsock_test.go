//go:build verif && verif_c12

package iocopy

import (
	"bytes"
	"fmt"
	"io"
	"net"
	"sort"
	"sync"
	"testing"
	"time"

	vk "tunnox-core/internal/verifkit"
)

// C12 with REAL sockets on the application side (the doubles cannot reach code paths that
// are selected by the concrete type: the sendmmsg batch writer for *net.UDPConn and the
// *net.TCPConn branch of tryCloseWrite).
//
// (1) UDP, target-client shape: the datagram side is a connected loopback *net.UDPConn
//     (net.DialUDP, as client/target_handler.go does) whose peer is a receiver socket that
//     collects datagrams. The scripted tunnel delivers bursts of 33..200 small datagrams in
//     ONE read. Oracle: after UDP() returned, the receiver holds exactly the datagrams of the
//     tunnel stream (loss and content are judged; a pure reordering on the real socket is
//     only counted). The receiver also sends a few datagrams back; they must reach the
//     tunnel as well-formed records with identical content.
// (2) TCP, slow but legal: side A is a real loopback *net.TCPConn. The tunnel side ends
//     first; the application reads to EOF and then keeps sending slowly for 6..8 s before it
//     closes. Oracle unchanged: everything it sent reaches the tunnel side, the relay
//     returns only afterwards. (Time only paces the workload; the verdict is the byte
//     comparison.)

type c12RecvSock struct {
	conn *net.UDPConn
	mu   sync.Mutex
	got  [][]byte
	done chan struct{}
}

func c12NewRecvSock() (*c12RecvSock, error) {
	c, err := net.ListenUDP("udp4", &net.UDPAddr{IP: net.IPv4(127, 0, 0, 1)})
	if err != nil {
		return nil, err
	}
	_ = c.SetReadBuffer(4 << 20)
	r := &c12RecvSock{conn: c, done: make(chan struct{})}
	go func() {
		defer close(r.done)
		buf := make([]byte, 65536)
		for {
			n, _, err := c.ReadFromUDP(buf)
			if err != nil {
				return
			}
			r.mu.Lock()
			r.got = append(r.got, append([]byte(nil), buf[:n]...))
			r.mu.Unlock()
		}
	}()
	return r, nil
}

func (r *c12RecvSock) Count() int { r.mu.Lock(); defer r.mu.Unlock(); return len(r.got) }
func (r *c12RecvSock) Got() [][]byte {
	r.mu.Lock()
	defer r.mu.Unlock()
	return append([][]byte(nil), r.got...)
}

func c12Pace(d time.Duration, cond func() bool) bool {
	t0 := time.Now()
	for !cond() {
		if time.Since(t0) > d {
			return false
		}
		time.Sleep(200 * time.Microsecond)
	}
	return true
}

type c12RealUDPCase struct {
	Idx    int     `json:"idx"`
	Key    uint64  `json:"pattern_key"`
	Bursts [][]int `json:"tunnel_bursts_sizes"`
	Back   []int   `json:"datagrams_sent_back"`
}

func c12RunRealUDP(run *vk.Run, cs c12RealUDPCase) {
	rs, err := c12NewRecvSock()
	if err != nil {
		run.Count("setup_failed", 1)
		return
	}
	defer rs.conn.Close()
	local, err := net.DialUDP("udp4", nil, rs.conn.LocalAddr().(*net.UDPAddr))
	if err != nil {
		run.Count("setup_failed", 1)
		return
	}
	defer local.Close()
	tun := c12NewConn("tunnel")
	w := &c12Watch{done: make(chan struct{})}
	w.idle = tun.Drained
	go func() {
		w.caller.Store(c12Goid())
		defer close(w.done)
		UDP(local, tun, &Options{LogPrefix: "c12"})
	}()
	var expect [][]byte
	k := 0
	brief := make([]int, len(cs.Bursts))
	for i, b := range cs.Bursts {
		brief[i] = len(b)
	}
	detail := func(extra map[string]any) map[string]any {
		m := map[string]any{"case": map[string]any{"idx": cs.Idx, "burst_datagram_counts": brief, "pattern_key": cs.Key, "sent_back": cs.Back},
			"expected": len(expect), "received": rs.Count(), "tunnel_out_len": tun.OutLen()}
		for k, v := range extra {
			m[k] = v
		}
		return m
	}
	for _, b := range cs.Bursts {
		d := c12Dgrams(cs.Key+uint64(k)*31, b)
		k += len(b)
		expect = append(expect, d...)
		tun.Feed(c12Encode(d)) // ONE chunk => one tunnel read holds the whole burst
		want := len(expect)
		if !c12Pace(300*time.Millisecond, func() bool { return rs.Count() >= want }) {
			run.Count("burst_not_complete_after_pacing_wait", 1)
		}
	}
	back := c12Dgrams(cs.Key^0x1234567, cs.Back)
	for _, d := range back {
		if _, err := rs.conn.WriteToUDP(d, local.LocalAddr().(*net.UDPAddr)); err != nil {
			run.Count("setup_failed", 1)
		}
	}
	encBack := len(c12Encode(back))
	c12Pace(500*time.Millisecond, func() bool { return tun.OutLen() >= encBack })
	tun.FeedEnd(io.EOF)
	out := w.until(w.returned)
	switch out {
	case "ok", "returned":
		run.Count("returned", 1)
	case "hang":
		run.Violation("C12:udp-realsock|mode=hang", detail(map[string]any{"goroutines": w.last}))
		fallthrough
	default:
		if out != "hang" {
			run.Count("watchdog", 1)
		}
		local.Close()
		tun.Close()
		w.release(3 * time.Second)
	}
	// loopback delivery happens inside the send call: what was sent is queued at the
	// receiver by now; let it drain, then stop it
	want := len(expect)
	c12Pace(300*time.Millisecond, func() bool { return rs.Count() >= want })
	rs.conn.SetReadDeadline(time.Now().Add(50 * time.Millisecond))
	<-rs.done
	run.Eval(1)
	if out == "watchdog" {
		return
	}
	got := rs.Got()
	switch c := c12CmpDgrams(got, expect); {
	case c == "equal":
		run.Count("datagrams_delivered_checked", int64(len(got)))
		for _, b := range cs.Bursts {
			switch {
			case len(b) <= 32:
				run.Count("bursts_17_to_32_delivered", 1)
			default:
				run.Count("bursts_over_32_delivered", 1)
			}
		}
	default:
		// same multiset => only the order differs on the real socket (counted, lenient)
		key := func(x [][]byte) []string {
			s := make([]string, len(x))
			for i, d := range x {
				s[i] = string(d)
			}
			sort.Strings(s)
			return s
		}
		kg, ke := key(got), key(expect)
		same := len(kg) == len(ke)
		for i := 0; same && i < len(kg); i++ {
			same = kg[i] == ke[i]
		}
		if same {
			run.Count("reordered_on_real_socket", 1)
			break
		}
		// loss or foreign content?
		exp := map[string]int{}
		for _, d := range expect {
			exp[string(d)]++
		}
		foreign := 0
		for _, d := range got {
			if exp[string(d)] == 0 {
				foreign++
			} else {
				exp[string(d)]--
			}
		}
		cls := "lost"
		if foreign > 0 {
			cls = "content-or-boundary"
		}
		first := -1
		for i := range expect {
			if i >= len(got) || !bytes.Equal(got[i], expect[i]) {
				first = i
				break
			}
		}
		run.Violation("C12:udp-realsock|dir=tunnel>local|got="+cls, detail(map[string]any{"compare": c, "foreign_datagrams": foreign, "first_difference_at": first}))
	}
	dec, rest, zero := c12Decode(tun.OutBytes())
	if c := c12CmpDgrams(dec, back); c != "equal" || rest != 0 || zero {
		if c == "missing" && rest == 0 && !zero {
			run.Count("back_datagrams_missing_on_real_socket", 1) // UDP may drop; not judged
		} else {
			run.Violation("C12:udp-realsock|dir=local>tunnel|got=content-or-boundary", detail(map[string]any{"compare": c, "trailing": rest}))
		}
	} else {
		run.Count("datagrams_forwarded_checked", int64(len(dec)))
	}
	run.Distinct(fmt.Sprintf("bursts=%v|back=%d", brief, len(back)))
}

func TestVerifC12UDPRealSocket(t *testing.T) {
	vk.Quiet()
	run := vk.Start(t, "C12", "udp-real-socket")
	defer run.Finish()
	run.Rule("iocopy.UDP with a connected loopback *net.UDPConn (net.DialUDP, target-client shape, sendmmsg batch writer) and a receiver socket; scripted tunnel delivers 1-3 bursts of 17..200 position-coded datagrams (classes 17..32, 33..36, 60..68, 33..200) of 1..256 B, each burst in one tunnel read; 1-5 datagrams sent back through the socket. distinct = (burst sizes, #back)")
	before := vk.SnapshotGoroutines()
	r := run.Rand("gen")
	n := run.Pick(24, 240)
	cases := make([]c12RealUDPCase, n)
	for i := range cases {
		cs := c12RealUDPCase{Idx: i, Key: r.Uint64() >> 1}
		for b := 1 + r.Intn(3); b > 0; b-- {
			cnt := 33 + r.Intn(168)
			switch r.Intn(5) {
			case 0:
				cnt = 33 + r.Intn(4) // just over one sendmmsg batch
			case 1, 2:
				cnt = 17 + r.Intn(16) // inside one relay flush (<= 32), above half of it
			case 3:
				cnt = 60 + r.Intn(9) // around two flushes
			}
			var burst []int
			for j := 0; j < cnt; j++ {
				burst = append(burst, 1+r.Intn(256))
			}
			cs.Bursts = append(cs.Bursts, burst)
		}
		for j := 1 + r.Intn(5); j > 0; j-- {
			cs.Back = append(cs.Back, 1+r.Intn(1400))
		}
		cases[i] = cs
	}
	c12Pool(n, 4, func(i int) {
		run.Case(fmt.Sprintf("udpreal%d", i), map[string]any{"idx": i})
		c12RunRealUDP(run, cases[i])
	})
	c12UDPLeak(run, before)
	run.Floor("returned", int64(n*9/10))
	run.Floor("bursts_over_32_delivered", int64(n/2))
	run.Floor("bursts_17_to_32_delivered", int64(n/3))
	run.Floor("datagrams_delivered_checked", int64(n*33))
}

// ---------------------------------------------------------------- slow but legal TCP

type c12SlowTCPCase struct {
	Idx      int    `json:"idx"`
	Seed     uint64 `json:"seed"`
	TotalMs  int    `json:"app_keeps_sending_ms"`
	StepMs   int    `json:"ms_between_pieces"`
	Piece    int    `json:"piece_len"`
	FirstLen int    `json:"tunnel_to_app_len"`
	Accepted bool   `json:"relay_holds_accepted_end"`
}

func c12RunSlowTCP(run *vk.Run, cs c12SlowTCPCase) {
	ln, err := net.Listen("tcp4", "127.0.0.1:0")
	if err != nil {
		run.Count("setup_failed", 1)
		return
	}
	defer ln.Close()
	ach := make(chan net.Conn, 1)
	go func() { c, _ := ln.Accept(); ach <- c }()
	dialed, err := net.DialTimeout("tcp4", ln.Addr().String(), 5*time.Second)
	if err != nil {
		run.Count("setup_failed", 1)
		return
	}
	accepted := <-ach
	if accepted == nil {
		run.Count("setup_failed", 1)
		return
	}
	sideA, app := dialed.(*net.TCPConn), accepted.(*net.TCPConn)
	if cs.Accepted {
		sideA, app = app, sideA
	}
	defer app.Close()
	defer sideA.Close()
	b := c12NewConn("B")
	epB, _ := c12Endpoint(b, "half")
	first := vk.Pattern(cs.Seed*2+2, 0, cs.FirstLen)
	b.Feed(first)
	b.FeedEnd(io.EOF) // the tunnel direction ends first

	w := &c12Watch{done: make(chan struct{})}
	w.idle = b.Drained
	var res *Result
	go func() {
		w.caller.Store(c12Goid())
		defer close(w.done)
		res = Bidirectional(sideA, epB, &Options{LogPrefix: "c12"})
	}()
	// the application reads to EOF first
	app.SetReadDeadline(time.Now().Add(c12Watchdog))
	got, rerr := io.ReadAll(app)
	if rerr != nil {
		run.Count("watchdog", 1)
		return
	}
	// ... and then keeps sending, slowly, well beyond any "drain" grace period
	var sent []byte
	var werr error
	earlyReturn := false
	t0 := time.Now()
	for i := 0; time.Since(t0) < time.Duration(cs.TotalMs)*time.Millisecond; i++ {
		p := vk.Pattern(cs.Seed*2+1, len(sent), cs.Piece)
		if _, werr = app.Write(p); werr != nil {
			break
		}
		sent = append(sent, p...)
		if w.returned() {
			earlyReturn = true
			break
		}
		time.Sleep(time.Duration(cs.StepMs) * time.Millisecond)
	}
	app.CloseWrite()
	out := w.until(w.returned)
	detail := func(extra map[string]any) map[string]any {
		m := map[string]any{"case": cs, "app_sent": len(sent), "delivered_to_tunnel": b.OutLen(), "app_write_error": fmt.Sprint(werr),
			"relay_returned_while_app_was_sending": earlyReturn, "elapsed_ms": time.Since(t0).Milliseconds()}
		if res != nil {
			m["send_error"], m["receive_error"] = fmt.Sprint(res.SendError), fmt.Sprint(res.ReceiveError)
		}
		for k, v := range extra {
			m[k] = v
		}
		return m
	}
	run.Eval(1)
	switch out {
	case "ok", "returned":
		run.Count("returned", 1)
	case "hang":
		run.Violation("C12:tcp-real|slow-reverse|mode=hang", detail(map[string]any{"goroutines": w.last}))
		app.Close()
		w.release(3 * time.Second)
	default:
		run.Count("watchdog", 1)
		app.Close()
		w.release(3 * time.Second)
		return
	}
	if c := c12PrefixClass(got, first); c != "equal" {
		run.Violation("C12:tcp-real|slow-reverse|dir=B>A|got="+c, detail(nil))
	}
	if c := c12PrefixClass(b.OutBytes(), sent); c != "equal" || earlyReturn || werr != nil {
		if c == "equal" {
			c = "relay-ended-early"
		}
		run.Violation("C12:tcp-real|slow-reverse|dir=A>B|got="+c, detail(nil))
	} else {
		run.Count("slow_reverse_delivered_exactly", 1)
		run.Max("longest_reverse_transfer_after_halfclose_ms", time.Since(t0).Milliseconds())
	}
	run.Distinct(fmt.Sprintf("total=%d|step=%d|acc=%v", cs.TotalMs, cs.StepMs, cs.Accepted))
}

func TestVerifC12TCPSlowLegal(t *testing.T) {
	vk.Quiet()
	run := vk.Start(t, "C12", "tcp-real-slow-reverse")
	defer run.Finish()
	run.Rule("iocopy.Bidirectional with a real loopback *net.TCPConn as side A and a scripted tunnel side B that ends first; the application reads to EOF (FIN from the relay's CloseWrite) and then keeps sending a piece every 150-400 ms for 6-8 s before closing; all cases run concurrently. distinct = (duration, step, which TCP end)")
	r := run.Rand("gen")
	n := run.Pick(3, 8)
	cases := make([]c12SlowTCPCase, n)
	for i := range cases {
		cases[i] = c12SlowTCPCase{Idx: i, Seed: r.Uint64() >> 1, TotalMs: 6000 + (i%3)*800 + r.Intn(300), StepMs: []int{150, 250, 400}[r.Intn(3)],
			Piece: 1 + r.Intn(3000), FirstLen: r.Intn(5000), Accepted: i%2 == 0}
		run.Sample(cases[i])
	}
	c12Pool(n, n, func(i int) {
		run.Case(fmt.Sprintf("tcpslow%d", i), cases[i])
		c12RunSlowTCP(run, cases[i])
	})
	run.Floor("returned", int64(n))
	run.Floor("slow_reverse_delivered_exactly", int64(n))
}
