//go:build verif && verif_c12

package iocopy

import (
	"bytes"
	"fmt"
	"io"
	"math/rand"
	"net"
	"runtime"
	"testing"
	"time"

	vk "tunnox-core/internal/verifkit"
)

// C12 / UDP relay: iocopy.UDP between a scripted datagram endpoint (local UDP side,
// blocking Read like mapping.UDPVirtualConn) and a scripted stream endpoint (tunnel side).
//
// The tunnel side plays the ENCODED stream [len:2 BE][datagram]... cut at a byte offset,
// then reports io.EOF or an error for ever. Oracle:
//   - datagrams whose record is complete before the cut reach the local side with
//     identical content, boundaries and order, and nothing else does;
//   - datagrams the relay consumed from the local side appear on the tunnel side as
//     well-formed records, in order (all of them when tunnel writes never failed);
//   - UDP() returns after the tunnel ended: "spin" = more than 1000 tunnel reads answered
//     after the end; "hang" = not returned, endpoints drained, relay goroutines parked in
//     identical frames in 3 dumps 100 ms apart; 20 s watchdog = inconclusive.
//   - if it returned on its own: both endpoints closed, Result counters == delivered bytes.

type c12UDPCase struct {
	Idx        int    `json:"idx"`
	Seq        int    `json:"seq"`
	Sizes      []int  `json:"tunnel_to_local_sizes"`
	EncLen     int    `json:"encoded_len"`
	Cut        int    `json:"cut"`
	CutClass   string `json:"cut_class"` // boundary | prefix | body
	CutFine    string `json:"cut_fine"`
	End        string `json:"end"`      // eof | err
	Chunking   string `json:"chunking"` // whole | bytes | rand
	ChunkMax   int    `json:"chunk_max"`
	ChunkSeed  int64  `json:"chunk_seed"`
	Local      []int  `json:"local_to_tunnel_sizes"`
	LocalMode  string `json:"local_mode"` // none | idle | sending
	WFail      bool   `json:"tunnel_writes_fail_after_end"`
	CloseAs    string `json:"local_close_error"` // eof | closed
	EndEarly   bool   `json:"end_fed_before_start"`
	PatternKey uint64 `json:"pattern_key"`
	Empties    int    `json:"zero_length_tunnel_reads"`
}

var c12UDPSizes = []int{1, 2, 3, 255, 256, 1400, 65507, 65535}

func c12Encode(dgrams [][]byte) []byte {
	var s []byte
	for _, d := range dgrams {
		s = append(s, byte(len(d)>>8), byte(len(d)))
		s = append(s, d...)
	}
	return s
}

func c12Dgrams(key uint64, sizes []int) [][]byte {
	out := make([][]byte, len(sizes))
	for i, n := range sizes {
		out[i] = vk.Pattern(key+uint64(i)*7919, 0, n)
	}
	return out
}

// c12Decode parses a length-prefixed stream; rest = bytes after the last whole record.
func c12Decode(s []byte) (dg [][]byte, rest int, zeroLen bool) {
	off := 0
	for len(s)-off >= 2 {
		n := int(s[off])<<8 | int(s[off+1])
		if n == 0 {
			return dg, len(s) - off, true
		}
		if len(s)-off < 2+n {
			break
		}
		dg = append(dg, s[off+2:off+2+n])
		off += 2 + n
	}
	return dg, len(s) - off, false
}

func c12CutClass(sizes []int, cut int) (class, fine string, complete int) {
	off := 0
	for i, n := range sizes {
		if cut == off {
			return "boundary", "boundary", i
		}
		end := off + 2 + n
		if cut < end {
			d := cut - off
			switch {
			case d < 2:
				return "prefix", "inside-prefix", i
			case d == 2:
				return "body", "prefix-complete-no-body", i
			case d == 3 && n > 1:
				return "body", "first-body-byte", i
			case cut == end-1:
				return "body", "last-body-byte-missing", i
			default:
				return "body", "inside-body", i
			}
		}
		off = end
	}
	return "boundary", "end-of-stream", len(sizes)
}

func c12SigCut(class string) string {
	if class == "boundary" {
		return "boundary"
	}
	return "mid-record"
}

func c12CmpDgrams(got, want [][]byte) string {
	n := len(got)
	if n > len(want) {
		n = len(want)
	}
	for i := 0; i < n; i++ {
		if !bytes.Equal(got[i], want[i]) {
			return fmt.Sprintf("differs-at-%d", i)
		}
	}
	switch {
	case len(got) == len(want):
		return "equal"
	case len(got) < len(want):
		return "missing"
	default:
		return "extra"
	}
}

func c12Lens(d [][]byte, max int) []int {
	var out []int
	for i, x := range d {
		if i >= max {
			break
		}
		out = append(out, len(x))
	}
	return out
}

func c12RunUDP(run *vk.Run, cs c12UDPCase, budget *c12Budget) {
	tun := c12NewConn("tunnel")
	closeErr := io.EOF
	if cs.CloseAs == "closed" {
		closeErr = net.ErrClosed
	}
	loc := c12NewDgram(closeErr)
	tun.wFailAfterEnd = cs.WFail

	toLocal := c12Dgrams(cs.PatternKey, cs.Sizes)
	stream := c12Encode(toLocal)
	_, _, complete := c12CutClass(cs.Sizes, cs.Cut)
	expect := toLocal[:complete]
	toTunnel := c12Dgrams(cs.PatternKey^0x5bd1e995, cs.Local)
	encLocal := len(c12Encode(toTunnel))

	var chunks []int
	switch cs.Chunking {
	case "whole":
		chunks = []int{cs.Cut}
	case "bytes":
		chunks = make([]int, cs.Cut)
		for i := range chunks {
			chunks[i] = 1
		}
	default:
		chunks = vk.RandPartition(rand.New(rand.NewSource(cs.ChunkSeed)), cs.Cut, cs.ChunkMax)
	}
	var endErr error = io.EOF
	once := false
	switch cs.End {
	case "err":
		endErr = c12ErrReset
	case "timeout-sticky": // e.g. an expired deadline / QUIC idle timeout: every later Read fails the same way
		endErr = c12NetErr{timeout: true}
	case "timeout-temp-sticky":
		endErr = c12NetErr{timeout: true, temporary: true}
	case "timeout-temp-once": // one transient timeout, then the REST of the stream and EOF
		once = true
	}
	endTunnel := func() {
		if once {
			tun.FeedTransient(c12NetErr{timeout: true, temporary: true})
		} else {
			tun.FeedEnd(endErr)
		}
	}

	w := &c12Watch{done: make(chan struct{})}
	w.idle = func() bool { return tun.Drained() && loc.Drained() }
	var res *Result
	start := func() {
		go func() {
			w.caller.Store(c12Goid())
			defer close(w.done)
			res = UDP(loc, tun, &Options{LogPrefix: "c12"})
		}()
	}
	detail := func(extra map[string]any) map[string]any {
		m := map[string]any{"case": cs, "chunks_head": c12Head(chunks, 24), "expected_datagrams_to_local": len(expect),
			"delivered_to_local": c12Lens(loc.Outs(), 12), "tunnel_reads": tun.reads.Load(), "tunnel_reads_after_end": tun.postEnd.Load(),
			"local_consumed": loc.Consumed(), "tunnel_out_len": tun.OutLen(), "local_closes": loc.closes.Load(), "tunnel_closes": tun.closes.Load()}
		for k, v := range extra {
			m[k] = v
		}
		return m
	}
	sigCut := c12SigCut(cs.CutClass)

	if cs.Empties > 0 {
		tun.FeedChunksWithEmpties(stream[:cs.Cut], chunks, cs.Empties, rand.New(rand.NewSource(cs.ChunkSeed^0x5eed)))
	} else {
		tun.FeedChunks(stream[:cs.Cut], chunks)
	}
	waitOut := ""
	switch cs.LocalMode {
	case "idle":
		for _, d := range toTunnel {
			loc.Feed(d)
		}
		start()
		// the local side falls silent BEFORE the cut: wait for its datagrams to come out
		waitOut = w.until(func() bool { return tun.OutLen() >= encLocal && tun.Drained() && loc.Drained() })
		run.Count("idle_wait_"+waitOut, 1)
		if waitOut == "returned" {
			run.Violation("C12:udp|returned-before-tunnel-ended", detail(nil))
		}
		endTunnel()
	case "sending":
		h := len(toTunnel) / 2
		for _, d := range toTunnel[:h] {
			loc.Feed(d)
		}
		rest := toTunnel[h:]
		if len(rest) > 0 {
			first := rest[0]
			rest = rest[1:]
			tun.onEnd = func() { loc.Feed(first) } // a datagram arrives exactly at the cut
		}
		if cs.EndEarly {
			endTunnel()
			start()
		} else {
			start()
			endTunnel()
		}
		for _, d := range rest {
			runtime.Gosched()
			loc.Feed(d)
		}
	default:
		if cs.EndEarly {
			endTunnel()
			start()
		} else {
			start()
			endTunnel()
		}
	}

	if once {
		// a relay may treat the transient error as the end (returns) or go on reading; either
		// way the rest of the stream is offered, followed by EOF
		run.Count("transient_wait_"+w.until(tun.TransientSeen), 1)
		tun.Feed(stream[cs.Cut:])
		tun.FeedEnd(io.EOF)
	}
	// the tunnel has ended (or failed): UDP() must return
	hangSig := "C12:udp|cut=" + sigCut + "|mode=hang"
	w.quick = budget.exhausted(hangSig)
	out := w.until(func() bool { return w.returned() || tun.spun.Load() })
	self := false
	switch {
	case tun.spun.Load():
		run.Count("verdict_spin", 1)
		run.Violation("C12:udp|cut="+sigCut+"|mode=spin", detail(map[string]any{"note": "the tunnel->UDP loop kept reading after the stream had ended"}))
	case out == "ok" || out == "returned":
		self = true
		run.Count("returned", 1)
	case out == "hang":
		run.Count("verdict_hang", 1)
		budget.spend(hangSig)
		run.Violation(hangSig, detail(map[string]any{"goroutines": w.last}))
	case out == "presumed-hang":
		run.Count("presumed_hang_not_classified", 1)
	default:
		run.Count("watchdog", 1)
	}
	if !self {
		loc.Close() // what unblocks the real UDPVirtualConn.Read
		if !w.release(3 * time.Second) {
			tun.Close()
			if !w.release(3 * time.Second) {
				run.Count("unreleased", 1)
			}
		}
	}

	// tunnel -> local
	got := loc.Outs()
	if once {
		// everything complete before the transient error, then any correct continuation
		if c := c12CmpDgrams(got, toLocal); (c != "equal" && c != "missing") || len(got) < len(expect) {
			run.Violation("C12:udp|dir=tunnel>local|cut="+sigCut+"|end=transient|got=wrong", detail(map[string]any{"compare": c, "got_count": len(got)}))
		} else {
			run.Count("datagrams_delivered_checked", int64(len(got)))
			if len(got) > len(expect) {
				run.Count("relay_continued_after_transient_timeout", 1)
			} else if len(expect) < len(toLocal) {
				run.Count("relay_ended_at_transient_timeout", 1)
			}
		}
	} else if c := c12CmpDgrams(got, expect); c != "equal" {
		cls := c
		if len(c) > 7 && c[:7] == "differs" {
			cls = "content-or-boundary"
		}
		run.Violation("C12:udp|dir=tunnel>local|cut="+sigCut+"|got="+cls, detail(map[string]any{"compare": c, "got_count": len(got)}))
	} else {
		run.Count("datagrams_delivered_checked", int64(len(expect)))
		if len(expect) > 0 {
			run.Count("cases_with_delivery", 1)
		}
	}
	// local -> tunnel
	if len(toTunnel) > 0 && run.Counter("unreleased") == 0 {
		dec, rest, zero := c12Decode(tun.OutBytes())
		consumed := loc.Consumed()
		c := c12CmpDgrams(dec, loc.Fed()) // offered order (a datagram is injected exactly at the cut)
		wfailed := tun.WriteFailed()
		switch {
		case zero || (rest != 0 && !wfailed):
			run.Violation("C12:udp|dir=local>tunnel|got=malformed-stream", detail(map[string]any{"trailing_bytes": rest, "zero_length_record": zero}))
		case c != "equal" && c != "missing":
			run.Violation("C12:udp|dir=local>tunnel|got=content-or-boundary", detail(map[string]any{"compare": c}))
		case !wfailed && len(dec) != consumed:
			run.Violation("C12:udp|dir=local>tunnel|got=consumed-not-forwarded", detail(map[string]any{"forwarded": len(dec), "consumed": consumed}))
		default:
			run.Count("datagrams_forwarded_checked", int64(len(dec)))
		}
		if cs.LocalMode == "idle" && waitOut == "ok" && !wfailed && c != "equal" {
			run.Violation("C12:udp|dir=local>tunnel|got=lost", detail(map[string]any{"compare": c}))
		}
	}
	if self && res != nil {
		if loc.closes.Load() < 1 || tun.closes.Load() < 1 {
			run.Violation("C12:udp|endpoint-left-open-at-return", detail(nil))
		}
		var sumIn, sumOut int64
		for _, d := range got {
			sumIn += int64(len(d))
		}
		dec, _, _ := c12Decode(tun.OutBytes())
		for _, d := range dec {
			sumOut += int64(len(d))
		}
		if res.BytesReceived != sumIn || (!tun.WriteFailed() && res.BytesSent != sumOut) {
			run.Violation("C12:udp|result-counters", detail(map[string]any{"bytes_sent": res.BytesSent, "bytes_received": res.BytesReceived, "to_local": sumIn, "to_tunnel": sumOut}))
		} else {
			run.Count("counters_checked", 1)
		}
	}
	run.Eval(1)
	if tun.emptyReads.Load() >= 100 {
		run.Count("cases_with_ge100_zero_length_tunnel_reads", 1)
	}
	run.Count("cut_"+cs.CutClass+"_"+cs.End, 1)
	run.Count("local_"+cs.LocalMode, 1)
	run.Distinct(fmt.Sprintf("seq%d|%s|%s|%s|%s", cs.Seq, cs.CutFine, cs.End, cs.Chunking, cs.LocalMode))
}

func c12Localize(r *rand.Rand, cs *c12UDPCase, maxLocal int, sizes []int) {
	cs.CloseAs = []string{"eof", "closed"}[r.Intn(2)]
	cs.EndEarly = r.Intn(2) == 0
	switch r.Intn(4) {
	case 0:
		cs.LocalMode = "idle"
	case 1:
		cs.LocalMode = "sending"
		cs.WFail = cs.End == "err" && r.Intn(2) == 0
	default:
		cs.LocalMode = "none"
	}
	if cs.LocalMode != "none" {
		n := 1 + r.Intn(maxLocal)
		for i := 0; i < n; i++ {
			cs.Local = append(cs.Local, sizes[r.Intn(len(sizes))])
		}
	}
}

// TestVerifC12UDPCuts: every cut offset of short encoded streams.
func TestVerifC12UDPCuts(t *testing.T) {
	vk.Quiet()
	run := vk.Start(t, "C12", "udp-cuts-exhaustive")
	defer run.Finish()
	run.Rule("short datagram sequences (sizes from {1,2,3,255,256}, encoded <= 512 B); the encoded tunnel stream is cut at EVERY byte offset 0..len, ended by EOF, by an error, by a sticky timeout net.Error (Temporary or not) and interrupted by ONE transient timeout after which the rest of the stream and EOF follow, under 3 read chunkings (whole, byte-wise, seeded random); local UDP side seeded {silent, fell silent before the cut after sending, sending across the cut (+ tunnel writes failing after an error cut)}; distinct = (sequence, fine cut class, end kind, chunking, local mode)")
	run.Exhaustive(true)
	before := vk.SnapshotGoroutines()
	r := run.Rand("gen")
	seqs := [][]int{{1}, {2, 3}, {3, 1, 2}, {255}, {1, 256}, {2, 255, 1, 3}}
	if run.Thorough() {
		small := []int{1, 2, 3, 255, 256}
		for len(seqs) < 30 {
			var s []int
			tot := 0
			for k := 1 + r.Intn(8); k > 0; k-- {
				n := small[r.Intn(len(small))]
				if r.Intn(3) == 0 {
					n = 1 + r.Intn(120)
				}
				if tot+2+n > 512 {
					break
				}
				s = append(s, n)
				tot += 2 + n
			}
			if len(s) > 0 {
				seqs = append(seqs, s)
			}
		}
	}
	var cases []c12UDPCase
	for si, sizes := range seqs {
		enc := 0
		for _, n := range sizes {
			enc += 2 + n
		}
		for cut := 0; cut <= enc; cut++ {
			class, fine, _ := c12CutClass(sizes, cut)
			for _, end := range []string{"eof", "err", "timeout-sticky", "timeout-temp-sticky", "timeout-temp-once"} {
				for _, ch := range []string{"whole", "bytes", "rand"} {
					cs := c12UDPCase{Idx: len(cases), Seq: si, Sizes: sizes, EncLen: enc, Cut: cut, CutClass: class, CutFine: fine,
						End: end, Chunking: ch, ChunkMax: []int{2, 3, 5, 64}[r.Intn(4)], ChunkSeed: r.Int63(), PatternKey: r.Uint64() >> 1}
					c12Localize(r, &cs, 3, []int{1, 2, 3, 255, 256, 1400})
					cases = append(cases, cs)
				}
			}
		}
	}
	for i := 0; i < len(cases) && i < 400; i += 97 {
		run.Sample(cases[i])
	}
	budget := &c12Budget{max: 48}
	c12Pool(len(cases), 8, func(i int) {
		run.Case(fmt.Sprintf("udpcut%d|seq%d|cut=%d", i, cases[i].Seq, cases[i].Cut), cases[i])
		c12RunUDP(run, cases[i], budget)
	})
	c12UDPLeak(run, before)
	for _, k := range []string{"cut_prefix_eof", "cut_prefix_err", "cut_body_eof", "cut_body_err", "cut_boundary_eof", "cut_boundary_err",
		"cut_prefix_timeout-sticky", "cut_body_timeout-sticky", "cut_boundary_timeout-sticky",
		"cut_prefix_timeout-temp-sticky", "cut_body_timeout-temp-sticky", "cut_boundary_timeout-temp-sticky",
		"cut_prefix_timeout-temp-once", "cut_body_timeout-temp-once", "cut_boundary_timeout-temp-once"} {
		run.Floor(k, 30)
	}
	run.Floor("local_idle", 50)
	run.Floor("local_sending", 50)
	run.Floor("local_none", 50)
	run.Floor("datagrams_delivered_checked", 500)
	run.Floor("datagrams_forwarded_checked", 100)
}

func c12UDPLeak(run *vk.Run, before vk.LeakSnapshot) {
	if left := before.Leaked([]string{"iocopy.UDP"}, nil, 2*time.Second); len(left) > 0 {
		if run.Counter("unreleased") == 0 {
			run.Violation("C12:udp|goroutines-left-after-return", map[string]any{"goroutines": vk.FrameSummary(left)})
		} else {
			run.Observe("goroutines_left", vk.FrameSummary(left))
		}
	}
}

// TestVerifC12UDPLong: long sequences in both directions, cuts at targeted and seeded offsets.
func TestVerifC12UDPLong(t *testing.T) {
	vk.Quiet()
	run := vk.Start(t, "C12", "udp-long")
	defer run.Finish()
	run.Rule("datagram sequences of 1..40 (thorough 1..200) datagrams, sizes from {1,2,3,255,256,1400,65507,65535}, tunnel->local and local->tunnel at once; encoded tunnel stream cut at targeted offsets (0, inside the first and a later length prefix, prefix complete/no body, first body byte, last body byte missing, a middle boundary, end of stream) plus seeded offsets, ended by EOF or error, under 3 chunkings (whole, seeded <=1500, seeded <=70000); local side as in udp-cuts with up to 40 datagrams. distinct = (sequence, fine cut class, end kind, chunking, local mode)")
	before := vk.SnapshotGoroutines()
	r := run.Rand("gen")
	nseq := run.Pick(14, 150)
	maxDg := run.Pick(40, 200)
	maxBytes := run.Pick(1<<20, 14<<20)
	var cases []c12UDPCase
	for si := 0; si < nseq; si++ {
		var sizes []int
		tot := 0
		nd := 1 + r.Intn(maxDg)
		if si%5 == 0 {
			nd = 1 + r.Intn(4)
		}
		bigP := []int{2, 5, 12}[r.Intn(3)]
		for i := 0; i < nd; i++ {
			n := c12UDPSizes[r.Intn(6)]
			if r.Intn(bigP) == 0 {
				n = c12UDPSizes[6+r.Intn(2)]
			}
			if tot+2+n > maxBytes {
				break
			}
			sizes = append(sizes, n)
			tot += 2 + n
		}
		// record boundaries
		bounds := []int{0}
		for _, n := range sizes {
			bounds = append(bounds, bounds[len(bounds)-1]+2+n)
		}
		k := r.Intn(len(sizes)) // a "later" record
		cutset := map[int]bool{0: true, 1: true, tot: true, tot - 1: true,
			bounds[k]: true, bounds[k] + 1: true, bounds[k] + 2: true, bounds[k] + 3: true, bounds[k+1] - 1: true,
			bounds[(k+1)/2+1]: true}
		for j := 0; j < 2; j++ {
			cutset[r.Intn(tot+1)] = true
		}
		var cuts []int
		for c := range cutset {
			if c >= 0 && c <= tot {
				cuts = append(cuts, c)
			}
		}
		// deterministic order
		for i := 1; i < len(cuts); i++ {
			for j := i; j > 0 && cuts[j] < cuts[j-1]; j-- {
				cuts[j], cuts[j-1] = cuts[j-1], cuts[j]
			}
		}
		for _, cut := range cuts {
			class, fine, _ := c12CutClass(sizes, cut)
			end := []string{"eof", "err", "eof", "err", "timeout-sticky", "timeout-temp-sticky", "timeout-temp-once"}[r.Intn(7)]
			for _, ch := range []string{"whole", "rand-mtu", "rand-big"} {
				cs := c12UDPCase{Idx: len(cases), Seq: si, Sizes: sizes, EncLen: tot, Cut: cut, CutClass: class, CutFine: fine,
					End: end, Chunking: ch, ChunkSeed: r.Int63(), PatternKey: r.Uint64() >> 1}
				switch ch {
				case "rand-mtu":
					cs.ChunkMax = 1500
				case "rand-big":
					cs.ChunkMax = 70000
				}
				if len(cases)%3 == 0 {
					cs.Empties = []int{100, 101, 150, 400}[r.Intn(4)]
				}
				c12Localize(r, &cs, 40, c12UDPSizes)
				cases = append(cases, cs)
			}
		}
	}
	for i := 0; i < len(cases) && i < 300; i += 61 {
		s := cases[i]
		s.Sizes = c12Head(s.Sizes, 12)
		s.Local = c12Head(s.Local, 12)
		run.Sample(s)
	}
	budget := &c12Budget{max: 48}
	c12Pool(len(cases), 8, func(i int) {
		wal := cases[i]
		wal.Sizes, wal.Local = c12Head(wal.Sizes, 12), c12Head(wal.Local, 12)
		run.Case(fmt.Sprintf("udplong%d|seq%d|cut=%d", i, cases[i].Seq, cases[i].Cut), wal)
		c12RunUDP(run, cases[i], budget)
	})
	c12UDPLeak(run, before)
	run.Floor("datagrams_delivered_checked", 1000)
	run.Floor("datagrams_forwarded_checked", 300)
	run.Floor("cases_with_ge100_zero_length_tunnel_reads", 40)
	run.Floor("cut_prefix_eof", 3)
	run.Floor("cut_prefix_err", 3)
	run.Floor("cut_body_eof", 3)
	run.Floor("cut_body_err", 3)
	run.Floor("cut_boundary_eof", 3)
	run.Floor("cut_boundary_err", 3)
}
