//go:build verif && verif_c12

package iocopy

import (
	"fmt"
	"io"
	"math/rand"
	"testing"
	"time"

	vk "tunnox-core/internal/verifkit"
)

// C12 / TCP relay: iocopy.Bidirectional between two scripted stream endpoints.
//
// Oracle (never stricter than the statement):
//   - no injected error: bytes written to B == bytes offered by A (and vice versa), exactly;
//   - one side half-closes first: the reverse direction's bytes, offered only AFTER the
//     half-close was consumed (and propagated, where the endpoint supports CloseWrite),
//     are still delivered completely; Bidirectional must not return before both read
//     sides have ended;
//   - read error on X: the bytes X handed over before the error are delivered; the other
//     direction only has to be a correct prefix (a relay may tear down on error);
//   - write error on X: both directions only have to be correct prefixes;
//   - Bidirectional returns once both read scripts ended (logical classifier, c12Watch);
//   - at return both endpoints were closed; without injected errors the Result counters
//     equal the delivered byte counts.

type c12TCPCase struct {
	Idx         int    `json:"idx"`
	Seed        uint64 `json:"seed"`
	LenAB       int    `json:"len_ab"`
	LenBA       int    `json:"len_ba"`
	KindA       string `json:"kind_a"`
	KindB       string `json:"kind_b"`
	Order       string `json:"order"`
	ChunkMax    int    `json:"chunk_max"`
	ErrAt       int    `json:"err_at"`
	ErrWithData bool   `json:"err_with_data"`
	FeedFirst   bool   `json:"feed_before_start"`
	EmptyA      int    `json:"zero_length_reads_on_a"`
	EmptyB      int    `json:"zero_length_reads_on_b"`
}

var c12TCPOrders = []string{"a-first", "b-first", "simul", "a-readerr", "b-readerr", "a-writeerr", "b-writeerr"}

func c12GenTCP(r *rand.Rand, idx int, thorough bool) c12TCPCase {
	sizes := []int{0, 1, 2, 100, 4096, 32767, 32768, 32769, 65536, 100000, 262144}
	pick := func() int {
		if thorough && r.Intn(25) == 0 {
			return []int{1 << 20, 1<<20 + 1, 4 << 20}[r.Intn(3)]
		}
		if r.Intn(4) == 0 {
			return r.Intn(70000)
		}
		return sizes[r.Intn(len(sizes))]
	}
	cs := c12TCPCase{
		Idx: idx, Seed: r.Uint64() >> 1,
		LenAB: pick(), LenBA: pick(),
		KindA: c12Kinds[r.Intn(len(c12Kinds))], KindB: c12Kinds[r.Intn(len(c12Kinds))],
		Order:     c12TCPOrders[idx%len(c12TCPOrders)],
		FeedFirst: r.Intn(2) == 0,
	}
	// readers that now and then return (0, nil) (transports that swallow control / empty
	// frames): totals around and beyond 100 over the lifetime of the connection
	empt := []int{0, 0, 0, 0, 7, 100, 101, 150, 400}
	cs.EmptyA, cs.EmptyB = empt[r.Intn(len(empt))], empt[r.Intn(len(empt))]
	big := cs.LenAB
	if cs.LenBA > big {
		big = cs.LenBA
	}
	switch {
	case big <= 4096:
		cs.ChunkMax = []int{1, 3, 7, 1500}[r.Intn(4)]
	case big <= 100000:
		cs.ChunkMax = []int{61, 1500, 32768, 40000, 100000}[r.Intn(5)]
	default:
		cs.ChunkMax = []int{1500, 32768, 70000, 1 << 20}[r.Intn(4)]
	}
	switch cs.Order {
	case "a-readerr":
		cs.ErrAt = r.Intn(cs.LenAB + 1)
		cs.ErrWithData = r.Intn(2) == 0
	case "b-readerr":
		cs.ErrAt = r.Intn(cs.LenBA + 1)
		cs.ErrWithData = r.Intn(2) == 0
	case "a-writeerr": // writes to A (direction B->A) fail
		cs.ErrAt = r.Intn(cs.LenBA + 1)
	case "b-writeerr":
		cs.ErrAt = r.Intn(cs.LenAB + 1)
	}
	return cs
}

func c12ChunkClass(n int) string {
	switch {
	case n <= 7:
		return "tiny"
	case n <= 1500:
		return "mtu"
	case n <= 32768:
		return "le-buf"
	default:
		return "gt-buf"
	}
}

func c12RunTCP(run *vk.Run, cs c12TCPCase, budget *c12Budget) {
	a, b := c12NewConn("A"), c12NewConn("B")
	epA, cwA := c12Endpoint(a, cs.KindA)
	epB, cwB := c12Endpoint(b, cs.KindB)
	dataAB := vk.Pattern(cs.Seed*2+1, 0, cs.LenAB)
	dataBA := vk.Pattern(cs.Seed*2+2, 0, cs.LenBA)
	offAB, offBA := dataAB, dataBA
	var endA, endB error = io.EOF, io.EOF
	errCase := true
	switch cs.Order {
	case "a-readerr":
		offAB, endA, a.endWithData = dataAB[:cs.ErrAt], c12ErrReset, cs.ErrWithData
	case "b-readerr":
		offBA, endB, b.endWithData = dataBA[:cs.ErrAt], c12ErrReset, cs.ErrWithData
	case "a-writeerr":
		a.wFailAt = cs.ErrAt
	case "b-writeerr":
		b.wFailAt = cs.ErrAt
	default:
		errCase = false
	}
	r := rand.New(rand.NewSource(int64(cs.Seed)))
	chA := vk.RandPartition(r, len(offAB), cs.ChunkMax)
	chB := vk.RandPartition(r, len(offBA), cs.ChunkMax)
	feedA := func() { a.FeedChunksWithEmpties(offAB, chA, cs.EmptyA, r); a.FeedEnd(endA) }
	feedB := func() { b.FeedChunksWithEmpties(offBA, chB, cs.EmptyB, r); b.FeedEnd(endB) }

	detail := func(extra map[string]any) map[string]any {
		m := map[string]any{"case": cs, "chunks_a_head": c12Head(chA, 16), "chunks_b_head": c12Head(chB, 16),
			"delivered_to_b": b.OutLen(), "delivered_to_a": a.OutLen(), "offered_ab": len(offAB), "offered_ba": len(offBA),
			"a_closewrite": a.CWCalled(), "b_closewrite": b.CWCalled(), "a_closes": a.closes.Load(), "b_closes": b.closes.Load()}
		for k, v := range extra {
			m[k] = v
		}
		return m
	}

	w := &c12Watch{done: make(chan struct{})}
	w.idle = func() bool { return a.Drained() && b.Drained() }
	var res *Result
	start := func() {
		go func() {
			w.caller.Store(c12Goid())
			defer close(w.done) // also runs when a spin verdict ended this goroutine
			res = Bidirectional(epA, epB, &Options{LogPrefix: "c12"})
		}()
	}
	sigBase := "C12:tcp|order=" + cs.Order

	early := false
	firstHalf := func(first, second *c12Conn, firstLen int, secondCW bool, feedFirstSide, feedSecondSide func()) {
		// "first" half-closes first; the peer answers only after it has seen everything
		// (and the half-close, when it can see one).
		if cs.FeedFirst {
			feedFirstSide()
			start()
		} else {
			start()
			feedFirstSide()
		}
		hcSig := sigBase + "|half-close-not-propagated"
		w.quick = budget.exhausted(hcSig)
		out := w.until(func() bool {
			return second.OutLen() >= firstLen && first.EndSeen() && (!secondCW || second.CWCalled())
		})
		w.quick = false
		run.Count("halfclose_wait_"+out, 1)
		switch out {
		case "ok":
			run.Count("halfclose_then_reverse", 1)
		case "returned":
			early = true
			run.Violation(sigBase+"|returned-before-both-directions-ended",
				detail(map[string]any{"note": "Bidirectional returned while the other read side had neither ended nor failed"}))
		case "hang":
			if secondCW && !second.CWCalled() && first.EndSeen() && second.OutLen() >= firstLen {
				budget.spend(hcSig)
				run.Violation(hcSig,
					detail(map[string]any{"note": "EOF of the first side was consumed and all its bytes delivered, the relay is parked, but CloseWrite was never called on the peer that supports it", "goroutines": w.last}))
			}
		}
		feedSecondSide()
	}

	switch cs.Order {
	case "a-first":
		firstHalf(a, b, len(offAB), cwB, feedA, feedB)
	case "b-first":
		firstHalf(b, a, len(offBA), cwA, feedB, feedA)
	default:
		if cs.FeedFirst {
			feedA()
			feedB()
			start()
		} else {
			start()
			if cs.Idx%2 == 0 {
				feedA()
				feedB()
			} else {
				feedB()
				feedA()
			}
		}
	}

	// both read scripts have ended now: the call must return
	w.quick = budget.exhausted(sigBase + "|mode=hang")
	out := w.until(func() bool { return w.returned() || a.spun.Load() || b.spun.Load() })
	self := false
	switch {
	case a.spun.Load() || b.spun.Load():
		run.Violation("C12:tcp|mode=spin", detail(map[string]any{"reads_after_end_a": a.postEnd.Load(), "reads_after_end_b": b.postEnd.Load()}))
	case out == "ok" || out == "returned":
		self = true
		run.Count("returned", 1)
	case out == "hang":
		budget.spend(sigBase + "|mode=hang")
		run.Violation(sigBase+"|mode=hang", detail(map[string]any{"goroutines": w.last}))
	case out == "presumed-hang":
		run.Count("presumed_hang_not_classified", 1)
	default:
		run.Count("watchdog", 1)
	}
	if !self {
		a.Close()
		b.Close()
		if !w.release(5 * time.Second) {
			run.Count("unreleased", 1)
		}
	}

	// delivery
	gotB, gotA := b.OutBytes(), a.OutBytes()
	clsAB, clsBA := c12PrefixClass(gotB, offAB), c12PrefixClass(gotA, offBA)
	needAB, needBA := true, true // exact delivery required?
	switch cs.Order {
	case "a-readerr":
		needBA = false
	case "b-readerr":
		needAB = false
	case "a-writeerr", "b-writeerr":
		needAB, needBA = false, false
	}
	if early {
		// already reported; the reverse data was offered to a relay that had returned
		needAB, needBA = false, false
	}
	check := func(dir, cls string, need bool, got, off int) {
		bad := cls == "corrupt" || cls == "long" || (need && cls != "equal")
		if bad {
			run.Violation(fmt.Sprintf("%s|dir=%s|got=%s", sigBase, dir, cls), detail(map[string]any{"dir": dir, "got_len": got, "offered_len": off}))
		} else if cls == "equal" {
			run.Count("direction_delivered_exactly", 1)
		} else {
			run.Count("direction_prefix_tolerated", 1)
		}
	}
	check("A>B", clsAB, needAB, len(gotB), len(offAB))
	check("B>A", clsBA, needBA, len(gotA), len(offBA))
	if a.writeAfterCW+b.writeAfterCW > 0 {
		run.Violation(sigBase+"|write-after-closewrite", detail(nil))
	}

	if self && res != nil {
		if a.closes.Load() < 1 || b.closes.Load() < 1 {
			run.Violation("C12:tcp|endpoint-left-open-at-return", detail(nil))
		}
		if !errCase && !early {
			if res.BytesSent != int64(len(gotB)) || res.BytesReceived != int64(len(gotA)) {
				run.Violation("C12:tcp|result-counters", detail(map[string]any{"bytes_sent": res.BytesSent, "bytes_received": res.BytesReceived}))
			} else {
				run.Count("counters_checked", 1)
			}
			if res.SendError != nil || res.ReceiveError != nil {
				run.Count("error_reported_without_injected_error", 1)
			}
		} else if res.BytesSent != int64(len(gotB)) || res.BytesReceived != int64(len(gotA)) {
			// the statement says nothing about counters after a failure: observation only
			run.Count("counters_differ_in_error_case_"+cs.Order, 1)
		}
	}
	if errCase {
		run.Count("error_cases", 1)
	}
	run.Count("zero_length_reads_served", a.emptyReads.Load()+b.emptyReads.Load())
	if a.emptyReads.Load() >= 100 {
		run.Count("directions_with_ge100_zero_length_reads", 1)
	}
	if b.emptyReads.Load() >= 100 {
		run.Count("directions_with_ge100_zero_length_reads", 1)
	}
	if k := a.deadlineCalls.Load() + b.deadlineCalls.Load(); k > 0 {
		run.Count("deadline_calls_on_endpoints", k)
	}
	run.Eval(1)
	if cs.LenAB+cs.LenBA > 0 {
		run.Distinct(fmt.Sprintf("%s|%s|%s|%s|%s|%s", cs.Order, cs.KindA, cs.KindB, c12ChunkClass(cs.ChunkMax), c12SizeBucket(cs.LenAB), c12SizeBucket(cs.LenBA)))
	}
}

func TestVerifC12TCP(t *testing.T) {
	vk.Quiet()
	run := vk.Start(t, "C12", "tcp-relay")
	defer run.Finish()
	run.Rule("iocopy.Bidirectional between two scripted endpoints: payloads 0..256KiB (thorough ..4MiB) per direction, position-coded; seeded read chunking (1B..1MiB chunks), with 0/7/100/101/150/400 zero-length (0,nil) reads scattered through either side's stream; endpoint kinds {plain, CloseWrite, NewReadWriteCloser over plain/over CloseWrite, NewReadWriteCloserWithCloseWrite}; orders {A half-closes first and B answers only after seeing it, B first, simultaneous, read error on A/B (with and without final data), write error on A/B at a seeded offset}; script fed before or after the relay starts. distinct = (order, kindA, kindB, chunk class, size buckets); non-trivial = at least one byte offered")
	before := vk.SnapshotGoroutines()
	r := run.Rand("gen")
	n := run.Pick(600, 6000)
	cases := make([]c12TCPCase, n)
	for i := range cases {
		cases[i] = c12GenTCP(r, i, run.Thorough())
	}
	for i := 0; i < 4 && i < n; i++ {
		run.Sample(cases[i])
	}
	budget := &c12Budget{max: 24}
	c12Pool(n, 8, func(i int) {
		run.Case(fmt.Sprintf("tcp%d|%s", i, cases[i].Order), cases[i])
		c12RunTCP(run, cases[i], budget)
	})
	if left := before.Leaked([]string{"iocopy.Bidirectional"}, nil, 2*time.Second); len(left) > 0 {
		if run.Counter("unreleased") == 0 {
			run.Violation("C12:tcp|goroutines-left-after-return", map[string]any{"goroutines": vk.FrameSummary(left)})
		} else {
			run.Observe("goroutines_left", vk.FrameSummary(left))
		}
	}
	run.Floor("returned", int64(n*2/3))
	run.Floor("halfclose_then_reverse", int64(n/10))
	run.Floor("error_cases", int64(n/10))
	run.Floor("counters_checked", int64(n/10))
	run.Floor("direction_delivered_exactly", int64(n))
	run.Floor("directions_with_ge100_zero_length_reads", int64(n/6))
}
