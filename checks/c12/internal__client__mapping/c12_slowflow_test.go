//go:build verif && verif_c12

package mapping

import (
	"fmt"
	"math/rand"
	"net"
	"reflect"
	"sync"
	"sync/atomic"
	"testing"
	"time"
	"unsafe"

	"tunnox-core/internal/utils/iocopy"
	vk "tunnox-core/internal/verifkit"
)

// C12 / UDP relay over the real UDPVirtualConn, SLOW one-way flows in virtual time.
//
// A session is created by one datagram from the application; afterwards (almost) only
// tunnel->application datagrams flow, a few virtual seconds apart, for more than the
// adapter's session TTL plus a sweep period. Time is virtual: after every step the
// session's activity stamp is aged by the step length (the adapter only ever looks at
// now - lastActive), and whenever virtual time crosses a multiple of 10 s the adapter's
// real sweep (cleanupStaleSessions) runs. The flow is never idle for longer than 9 s, far
// below the TTL, so the session must survive: every datagram of the tunnel stream reaches
// the application's socket (content, boundaries, order) and iocopy.UDP must not return
// before the tunnel ends. Gaps longer than the TTL (where reaping is legitimate) are not
// generated.

type c12fCase struct {
	Idx      int   `json:"idx"`
	Key      uint64 `json:"pattern_key"`
	N        int   `json:"tunnel_datagrams"` // < 64
	StepsS   []int `json:"virtual_seconds_between_datagrams"`
	Upstream []int `json:"steps_with_an_application_datagram"` // may be empty: pure downstream
	Sizes    []int `json:"sizes"`
}

// c12fAge makes the session look d older. false = this tree has no such stamp (inconclusive).
func c12fAge(vc *UDPVirtualConn, d time.Duration) bool {
	f := reflect.ValueOf(vc).Elem().FieldByName("lastActive")
	if !f.IsValid() || !f.CanAddr() {
		return false
	}
	p, ok := reflect.NewAt(f.Type(), unsafe.Pointer(f.UnsafeAddr())).Interface().(*atomic.Int64)
	if !ok {
		return false
	}
	p.Add(-int64(d))
	return true
}

func c12fRun(run *vk.Run, cs c12fCase) {
	a := NewUDPMappingAdapter()
	gate := c12vNewGate()
	gate.Open()
	tun := c12vNewTunnel()
	addr := &net.UDPAddr{IP: net.IPv4(127, 0, 0, 1), Port: 30000 + cs.Idx%20000}
	var injected [][]byte
	inject := func() {
		d := vk.Pattern((cs.Key^0x7f4a7c15)+uint64(len(injected))*104729, 0, 1+len(injected)%200)
		injected = append(injected, d)
		buf := getBuffer()
		copy(buf, d)
		a.processPacket(buf, len(d), addr, gate)
	}
	inject() // the application's first datagram creates the session
	var vc *UDPVirtualConn
	select {
	case c := <-a.connChan:
		vc = c
	default:
		run.Count("setup_failed", 1)
		return
	}
	done := make(chan struct{})
	go func() {
		defer close(done)
		iocopy.UDP(vc, tun, &iocopy.Options{LogPrefix: "c12f"})
	}()
	returned := func() bool { // the relay returned, or its local side ended under it
		select {
		case <-done:
			return true
		default:
			return tun.cw.Load()
		}
	}
	var expect [][]byte
	up := map[int]bool{}
	for _, s := range cs.Upstream {
		up[s] = true
	}
	virt, lastSweep, sweeps, downOnly, maxDownOnly := 0, 0, 0, 0, 0
	ended, ok := false, true
	detail := func(extra map[string]any) map[string]any {
		m := map[string]any{"case": cs, "virtual_seconds": virt, "sweeps": sweeps, "datagrams_offered": len(expect), "sent_on_socket": gate.SentCount(),
			"longest_downstream_only_stretch_s": maxDownOnly, "session_ttl_s": int(udpSessionTTL / time.Second)}
		for k, v := range extra {
			m[k] = v
		}
		return m
	}
	for i := 0; i < cs.N && !ended; i++ {
		d := vk.Pattern(cs.Key+uint64(i)*7919, 0, cs.Sizes[i])
		expect = append(expect, d)
		tun.Feed(c12vEncode([][]byte{d}))
		want := len(expect)
		if !c12vWait(func() bool { return returned() || (tun.Quiesced() && gate.SentCount() >= want) }) {
			ok = false
			break
		}
		if returned() {
			ended = true
			break
		}
		if up[i] {
			inject()
			downOnly = 0
		}
		// virtual time passes
		step := cs.StepsS[i]
		if !c12fAge(vc, time.Duration(step)*time.Second) {
			run.Count("aging_unavailable", 1)
			ok = false
			break
		}
		virt += step
		downOnly += step
		if downOnly > maxDownOnly {
			maxDownOnly = downOnly
		}
		for virt-lastSweep >= 10 { // the adapter's 10 s sweep
			lastSweep += 10
			a.cleanupStaleSessions()
			sweeps++
		}
		if returned() {
			ended = true
		}
	}
	if ok && !ended {
		// give a relay that lost its local side the chance to notice (logical: it ends on its own)
		c12vWait(func() bool { return returned() || tun.Quiesced() })
		ended = returned()
	}
	run.Eval(1)
	if !ok {
		run.Count("watchdog", 1)
		vc.Close()
		tun.Close()
		<-done
		a.Close()
		return
	}
	if ended {
		run.Violation("C12:udp-real|slow-downstream|relay-ended-while-tunnel-alive",
			detail(map[string]any{"note": "iocopy.UDP returned although the tunnel neither ended nor failed: the local virtual connection was closed under it during a flow that was never idle for more than 9 virtual seconds"}))
	} else {
		run.Count("session_survived", 1)
		run.Max("virtual_seconds_longest_case", int64(virt))
		if maxDownOnly >= int(udpSessionTTL/time.Second)+10 {
			run.Count("cases_downstream_only_beyond_ttl_plus_sweep", 1)
		}
		run.Count("sweeps_run", int64(sweeps))
	}
	sent := gate.Sent()
	if c, at := c12vCmp(sent, expect); c != "equal" {
		run.Violation("C12:udp-real|slow-downstream|dir=tunnel>local|got="+c, detail(map[string]any{"first_bad_index": at}))
	} else {
		run.Count("datagrams_sent_checked", int64(len(sent)))
	}
	tun.FeedEOF()
	select {
	case <-done:
		run.Count("returned_after_tunnel_eof", 1)
	case <-time.After(c12vWatchdog):
		run.Count("watchdog", 1)
		vc.Close()
		tun.Close()
		<-done
	}
	dec, rest := c12vDecode(tun.OutBytes())
	if c, at := c12vCmp(dec, injected); (c != "equal" && c != "missing") || rest != 0 {
		run.Violation("C12:udp-real|slow-downstream|dir=local>tunnel|got="+c, detail(map[string]any{"first_bad_index": at, "trailing": rest}))
	}
	a.Close()
	gate.Close()
	run.Distinct(fmt.Sprintf("n=%d|virt=%d|up=%d", cs.N/8, virt/20, len(cs.Upstream)))
}

func TestVerifC12SlowDownstreamFlow(t *testing.T) {
	vk.Quiet()
	run := vk.Start(t, "C12", "udp-real-slow-downstream")
	defer run.Finish()
	run.Rule("real UDPMappingAdapter session + real UDPVirtualConn + iocopy.UDP; after the session-creating datagram 14..60 (<64) tunnel->application datagrams 2..9 virtual seconds apart (total 70..400 virtual s), in two thirds of the cases with no application datagram at all, else with 1-3 scattered ones; virtual time = ageing the session's activity stamp + running the adapter's real sweep every 10 virtual s. distinct = (#datagrams/8, virtual duration/20, #upstream)")
	r := run.Rand("gen")
	n := run.Pick(30, 300)
	cases := make([]c12fCase, n)
	for i := range cases {
		cs := c12fCase{Idx: i, Key: r.Uint64() >> 1, N: 14 + r.Intn(47)}
		for j := 0; j < cs.N; j++ {
			cs.StepsS = append(cs.StepsS, 2+r.Intn(8))
			if cs.N < 24 {
				cs.StepsS[j] = 6 + r.Intn(4) // short flows still outlive TTL + sweep
			}
			cs.Sizes = append(cs.Sizes, []int{1, 20, 300, 1400}[r.Intn(4)]+r.Intn(50))
		}
		if i%3 == 2 {
			for k := 1 + r.Intn(3); k > 0; k-- {
				cs.Upstream = append(cs.Upstream, r.Intn(cs.N))
			}
		}
		cases[i] = cs
	}
	for i := 0; i < 2 && i < n; i++ {
		run.Sample(cases[i])
	}
	var wg sync.WaitGroup
	var next atomic.Int64
	for k := 0; k < 4; k++ {
		wg.Add(1)
		go func() {
			defer wg.Done()
			for {
				i := int(next.Add(1)) - 1
				if i >= n {
					return
				}
				run.Case(fmt.Sprintf("slowflow%d", i), map[string]any{"idx": i, "n": cases[i].N})
				c12fRun(run, cases[i])
			}
		}()
	}
	wg.Wait()
	run.Floor("session_survived", int64(n*9/10))
	run.Floor("cases_downstream_only_beyond_ttl_plus_sweep", int64(n/2))
	run.Floor("sweeps_run", int64(n*7))
	run.Floor("datagrams_sent_checked", int64(n*14))
}

var _ = rand.Int
