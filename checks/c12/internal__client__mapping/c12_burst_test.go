//go:build verif && verif_c12

package mapping

import (
	"context"
	"fmt"
	"io"
	"net"
	"sync"
	"sync/atomic"
	"testing"
	"time"

	"tunnox-core/internal/cloud/models"
	"tunnox-core/internal/config"
	"tunnox-core/internal/stream"
	vk "tunnox-core/internal/verifkit"
)

// C12 / TCP relay, connection BURSTS on one mapping: a real BaseMappingHandler (Start,
// accept loop, handleConnection, real tunnel manager and Tunnel) over the real
// TCPMappingAdapter on loopback; 40..64 local applications connect at the same instant
// (parallel browser connections, a pool warming up). The client double's DialTunnel hands
// out one in-memory tunnel per call whose far end echoes what it receives.
// Oracle: EVERY application is relayed — it receives the echo of exactly the bytes it sent
// (each payload is unique), none is closed without service. Coverage counter: dials that
// fell into the same millisecond (wall clock used for this counter only).

type c12bClient struct {
	ctx   context.Context
	mu    sync.Mutex
	ids   map[string]int
	dupID atomic.Int64
	msHit map[int64]int
	dials atomic.Int64
}

func (c *c12bClient) DialTunnel(tunnelID, mappingID, secretKey string) (net.Conn, stream.PackageStreamer, error) {
	c.dials.Add(1)
	c.mu.Lock()
	c.ids[tunnelID]++
	if c.ids[tunnelID] > 1 {
		c.dupID.Add(1)
	}
	c.msHit[time.Now().UnixMilli()]++
	c.mu.Unlock()
	a, b := net.Pipe()
	go func() { // far end of the tunnel: echo
		buf := make([]byte, 32*1024)
		for {
			n, err := b.Read(buf)
			if n > 0 {
				if _, werr := b.Write(buf[:n]); werr != nil {
					return
				}
			}
			if err != nil {
				b.Close()
				return
			}
		}
	}()
	return a, stream.NewStreamProcessor(a, a, c.ctx), nil
}
func (c *c12bClient) DialTunnelPooled(string, string) (PooledTunnelConnInterface, error) {
	return nil, nil
}
func (c *c12bClient) ReturnTunnelToPool(PooledTunnelConnInterface)  {}
func (c *c12bClient) CloseTunnelFromPool(PooledTunnelConnInterface) {}
func (c *c12bClient) IsTunnelPoolEnabled() bool                     { return false }
func (c *c12bClient) GetContext() context.Context                   { return c.ctx }
func (c *c12bClient) CheckMappingQuota(string) error                { return nil }
func (c *c12bClient) TrackTraffic(string, int64, int64) error       { return nil }
func (c *c12bClient) GetUserQuota() (*models.UserQuota, error) {
	return &models.UserQuota{MaxConnections: 0}, nil
}
func (c *c12bClient) GetServerProtocol() string { return "tcp" }
func (c *c12bClient) SendTunnelCloseNotify(int64, string, string, string) error {
	return nil
}

func TestVerifC12ConnectionBurst(t *testing.T) {
	vk.Quiet()
	run := vk.Start(t, "C12", "tcp-mapping-connection-burst")
	defer run.Finish()
	run.Rule("real BaseMappingHandler + TCPMappingAdapter on loopback, echoing in-memory tunnels; rounds of 40..64 applications that connect simultaneously (released from one barrier), each sends a unique position-coded payload of 1..8000 B and must read back exactly that; distinct = (round, burst size); non-trivial = dials that shared a millisecond with another dial")
	r := run.Rand("gen")
	rounds := run.Pick(6, 40)
	for round := 0; round < rounds; round++ {
		l, err := net.Listen("tcp4", "127.0.0.1:0")
		if err != nil {
			t.Fatalf("[setup failed] %v", err)
		}
		port := l.Addr().(*net.TCPAddr).Port
		l.Close()
		ctx, cancel := context.WithCancel(context.Background())
		cl := &c12bClient{ctx: ctx, ids: map[string]int{}, msHit: map[int64]int{}}
		h := NewBaseMappingHandler(cl, config.MappingConfig{MappingID: fmt.Sprintf("c12b-%d", round), LocalPort: port, SecretKey: "k"}, NewTCPMappingAdapter())
		if err := h.Start(); err != nil {
			cancel()
			run.Count("setup_failed", 1)
			continue
		}
		k := 40 + r.Intn(25)
		key := r.Uint64() >> 1
		sizes := make([]int, k)
		for i := range sizes {
			sizes[i] = 1 + r.Intn(8000)
		}
		run.Case(fmt.Sprintf("burst%d", round), map[string]any{"round": round, "apps": k})
		type res struct {
			got  int
			ok   bool
			err  string
			dial bool
		}
		out := make([]res, k)
		var ready, wg sync.WaitGroup
		start := make(chan struct{})
		ready.Add(k)
		wg.Add(k)
		for i := 0; i < k; i++ {
			go func(i int) {
				defer wg.Done()
				ready.Done()
				<-start
				c, err := net.DialTimeout("tcp4", fmt.Sprintf("127.0.0.1:%d", port), 5*time.Second)
				if err != nil {
					out[i].err = err.Error()
					return
				}
				out[i].dial = true
				defer c.Close()
				c.SetDeadline(time.Now().Add(20 * time.Second)) // watchdog only
				p := vk.Pattern(key+uint64(i)*7919, 0, sizes[i])
				if _, err := c.Write(p); err != nil {
					out[i].err = err.Error()
					return
				}
				buf := make([]byte, len(p))
				n, err := io.ReadFull(c, buf)
				out[i].got = n
				out[i].ok = err == nil && string(buf) == string(p)
				if err != nil {
					out[i].err = err.Error()
				}
			}(i)
		}
		ready.Wait()
		close(start)
		wg.Wait()
		served, refused, timeouts := 0, 0, 0
		firstBad := -1
		for i, o := range out {
			switch {
			case o.ok:
				served++
			case !o.dial:
				refused++
			default:
				if ne := o.err; len(ne) >= 7 && ne[len(ne)-7:] == "timeout" {
					timeouts++
				}
				if firstBad < 0 {
					firstBad = i
				}
			}
		}
		run.Eval(1)
		shared := 0
		cl.mu.Lock()
		for _, n := range cl.msHit {
			if n > 1 {
				shared += n
			}
		}
		ids := len(cl.ids)
		cl.mu.Unlock()
		run.Count("dials_sharing_a_millisecond", int64(shared))
		run.Count("applications_served", int64(served))
		run.Count("tunnel_dials", cl.dials.Load())
		if refused > 0 {
			run.Count("applications_not_connected_by_kernel", int64(refused))
		}
		if timeouts > 0 {
			run.Count("watchdog", int64(timeouts))
		} else if firstBad >= 0 {
			run.Violation("C12:tcp-mapping|connection-burst|application-not-relayed", map[string]any{"round": round, "applications": k, "served": served,
				"first_unserved": firstBad, "bytes_echoed_to_it": out[firstBad].got, "its_error": out[firstBad].err, "payload_len": sizes[firstBad],
				"tunnel_dials": cl.dials.Load(), "distinct_tunnel_ids": ids, "duplicate_tunnel_ids": cl.dupID.Load()})
		} else {
			run.Count("rounds_all_served", 1)
		}
		run.Distinct(fmt.Sprintf("round%d|k=%d", round, k))
		h.Close()
		cancel()
	}
	run.Floor("rounds_all_served", int64(rounds*5/6))
	run.Floor("applications_served", int64(rounds*35))
	run.Floor("dials_sharing_a_millisecond", int64(rounds*10))
}
