//go:build verif && verif_c12

package mapping

import (
	"context"
	"fmt"
	"io"
	"math/rand"
	"net"
	"sync"
	"sync/atomic"
	"testing"
	"time"

	"tunnox-core/internal/client/tunnel"
	"tunnox-core/internal/config"
	"tunnox-core/internal/utils/iocopy"
	vk "tunnox-core/internal/verifkit"
)

// C12 / TCP relay on a local socket obtained from the REAL TCPMappingAdapter
// (StartListener + Accept, with whatever socket options Accept applies), loopback TCP.
//
// The application sends a request and half-closes; the tunnel side answers with a
// response of >= 512 KiB followed by EOF. The application starts reading only after the
// relay has finished (both directions ended, sockets closed by the relay / Tunnel.Close)
// — or after a short pacing wait if the relay is blocked on the application's full
// receive window — and then reads slowly in small pieces.
// Oracle unchanged: the application receives exactly the response, then a clean EOF
// (a reset or a short stream is a violation); the tunnel received exactly the request.

type c12aCase struct {
	Idx      int    `json:"idx"`
	Seed     uint64 `json:"seed"`
	ReqLen   int    `json:"request_len"`
	RespLen  int    `json:"response_len"`
	ChunkMax int    `json:"tunnel_chunk_max"`
	ReadSize int    `json:"app_read_size"`
	Via      string `json:"via"` // bidirectional | tunnel (real client/tunnel.Tunnel)
}

type c12aClient struct{}

func (c12aClient) SendTunnelCloseNotify(int64, string, string, string) error { return nil }

func c12aRun(run *vk.Run, cs c12aCase) {
	ad := NewTCPMappingAdapter()
	if err := ad.StartListener(config.MappingConfig{MappingID: fmt.Sprintf("c12a-%d", cs.Idx), LocalPort: 0}); err != nil {
		run.Count("setup_failed", 1)
		return
	}
	defer ad.Close()
	addr := ad.listener.Addr().String()
	type acc struct {
		c   io.ReadWriteCloser
		err error
	}
	ach := make(chan acc, 1)
	go func() { c, err := ad.Accept(); ach <- acc{c, err} }()
	appc, err := net.DialTimeout("tcp4", addr, 5*time.Second)
	if err != nil {
		run.Count("setup_failed", 1)
		return
	}
	app := appc.(*net.TCPConn)
	defer app.Close()
	a := <-ach
	if a.err != nil {
		run.Count("setup_failed", 1)
		return
	}
	local := a.c
	defer local.Close()

	req := vk.Pattern(cs.Seed*2+1, 0, cs.ReqLen)
	resp := vk.Pattern(cs.Seed*2+2, 0, cs.RespLen)
	tun := c12vNewTunnel()
	rwc, _ := iocopy.NewReadWriteCloser(tun, tun, tun.Close)

	var finished atomic.Bool
	ctx, cancel := context.WithCancel(context.Background())
	defer cancel()
	if cs.Via == "tunnel" {
		mgr := tunnel.NewTunnelManager(ctx, tunnel.TunnelRoleListen)
		defer mgr.Close()
		tn := tunnel.NewTunnel(&tunnel.TunnelConfig{ID: fmt.Sprintf("c12a-%d", cs.Idx), MappingID: "m", Role: tunnel.TunnelRoleListen, Protocol: "tcp",
			LocalConn: local, TunnelRWC: rwc, TargetClient: 9, Manager: mgr, Client: c12aClient{},
			OnClosed: func(tunnel.CloseReason, error) { finished.Store(true) }})
		if mgr.RegisterTunnel(tn) != nil || tn.Start() != nil {
			run.Count("setup_failed", 1)
			return
		}
	} else {
		go func() {
			iocopy.Bidirectional(local, rwc, &iocopy.Options{LogPrefix: "c12a"})
			finished.Store(true)
		}()
	}

	detail := func(extra map[string]any) map[string]any {
		m := map[string]any{"case": cs, "relay_finished": finished.Load(), "tunnel_out_len": tun.OutLen()}
		for k, v := range extra {
			m[k] = v
		}
		return m
	}

	// request, then FIN
	if _, err := app.Write(req); err != nil {
		run.Count("setup_failed", 1)
		return
	}
	app.CloseWrite()
	if !c12vWait(func() bool { return tun.OutLen() >= len(req) }) {
		run.Count("watchdog", 1)
		tun.Close()
		return
	}
	// response in seeded chunks, then end of stream
	r := rand.New(rand.NewSource(int64(cs.Seed)))
	off := 0
	for _, n := range vk.RandPartition(r, len(resp), cs.ChunkMax) {
		tun.Feed(resp[off : off+n])
		off += n
	}
	tun.FeedEOF()
	// the application is late: it starts reading after the relay has finished (pacing wait only)
	t0 := time.Now()
	for !finished.Load() && time.Since(t0) < 300*time.Millisecond {
		time.Sleep(200 * time.Microsecond)
	}
	if finished.Load() {
		run.Count("relay_finished_before_app_read", 1)
	} else {
		run.Count("relay_still_blocked_when_app_started", 1)
	}
	app.SetReadDeadline(time.Now().Add(c12vWatchdog))
	var got []byte
	buf := make([]byte, cs.ReadSize)
	var rerr error
	for i := 0; ; i++ {
		n, err := app.Read(buf)
		got = append(got, buf[:n]...)
		if err != nil {
			rerr = err
			break
		}
		if i%4 == 0 {
			time.Sleep(50 * time.Microsecond) // slow consumer
		}
	}
	run.Eval(1)
	if ne, ok := rerr.(net.Error); ok && ne.Timeout() {
		run.Count("watchdog", 1)
		tun.Close()
		return
	}
	c12vWait(finished.Load)
	cls := "equal"
	switch {
	case len(got) > len(resp):
		cls = "long"
	case string(got) != string(resp[:len(got)]):
		cls = "corrupt"
	case len(got) < len(resp):
		cls = "short"
	}
	end := "eof"
	if rerr != io.EOF {
		end = "error"
	}
	if cls != "equal" || end != "eof" {
		run.Violation(fmt.Sprintf("C12:tcp-adapter|dir=tunnel>local|got=%s|end=%s", cls, end),
			detail(map[string]any{"app_received": len(got), "offered": len(resp), "read_error": fmt.Sprint(rerr)}))
	} else {
		run.Count("response_delivered_exactly", 1)
	}
	if out := tun.OutBytes(); string(out) != string(req) {
		run.Violation("C12:tcp-adapter|dir=local>tunnel|got=mismatch", detail(map[string]any{"got_len": len(out), "offered": len(req)}))
	}
	if !finished.Load() {
		run.Count("relay_not_finished", 1)
		tun.Close()
	}
	run.Distinct(fmt.Sprintf("%s|resp=%dK|read=%d|chunk=%d", cs.Via, cs.RespLen>>10, cs.ReadSize, cs.ChunkMax))
}

func TestVerifC12TCPAdapterSlowReader(t *testing.T) {
	vk.Quiet()
	run := vk.Start(t, "C12", "tcp-adapter-slow-reader")
	defer run.Finish()
	run.Rule("loopback TCP: local socket from the real TCPMappingAdapter.StartListener/Accept, relayed by iocopy.Bidirectional or by a real started client/tunnel.Tunnel to a scripted tunnel side; request 1B..64KiB then FIN, response 512KiB..1MiB (position-coded, seeded chunking) then EOF; the application reads only after the relay finished (or after a 300 ms pacing wait) and slowly, in reads of 4..64KiB. distinct = (via, response size, read size, chunk max)")
	r := run.Rand("gen")
	n := run.Pick(12, 120)
	cases := make([]c12aCase, n)
	for i := range cases {
		cases[i] = c12aCase{Idx: i, Seed: r.Uint64() >> 1, ReqLen: 1 + r.Intn(65536),
			RespLen:  []int{512 << 10, 512<<10 + 1, 768 << 10, 1 << 20}[r.Intn(4)],
			ChunkMax: []int{1500, 32768, 200000}[r.Intn(3)], ReadSize: []int{4096, 16384, 65536}[r.Intn(3)],
			Via: []string{"bidirectional", "tunnel"}[i%2]}
	}
	for i := 0; i < 2 && i < n; i++ {
		run.Sample(cases[i])
	}
	var wg sync.WaitGroup
	var next atomic.Int64
	for k := 0; k < 4; k++ {
		wg.Add(1)
		go func() {
			defer wg.Done()
			for {
				i := int(next.Add(1)) - 1
				if i >= n {
					return
				}
				run.Case(fmt.Sprintf("tcpadapter%d", i), cases[i])
				c12aRun(run, cases[i])
			}
		}()
	}
	wg.Wait()
	run.Floor("response_delivered_exactly", int64(n*9/10))
	run.Floor("relay_finished_before_app_read", int64(n/3))
}
