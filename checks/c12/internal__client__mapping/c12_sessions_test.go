//go:build verif && verif_c12

package mapping

import (
	"encoding/binary"
	"fmt"
	"net"
	"sync"
	"sync/atomic"
	"testing"
	"time"

	"tunnox-core/internal/config"
	"tunnox-core/internal/utils/iocopy"
	vk "tunnox-core/internal/verifkit"
)

// C12 / UDP: "between a local application socket and ITS tunnel". Several local
// applications talk to one UDP mapping port at the same time; the real UDPMappingAdapter
// has to give each of them its own virtual connection, each relayed (real iocopy.UDP) to its
// own tunnel. Source addresses are chosen to be near-collisions: same source port and
// addresses that differ in exactly one octet (any of the four), IPv4 vs IPv6, same address
// with neighbouring ports.
//
// Two drivers: "doubles" — datagrams enter through adapter.processPacket with arbitrary
// source addresses over the gated socket double (e.g. 10.1.0.1:51820 vs 10.2.0.1:51820);
// "sockets" — a started adapter (StartListener, real read loops) and real loopback sockets
// bound to 127.0.0.1:q and 127.1.0.1:q (skipped and counted when that cannot be bound).
//
// Oracle: every tunnel's byte stream decodes to datagrams of exactly ONE application, all of
// that application's datagrams, in order; every datagram a tunnel delivers goes out to the
// address of the application that tunnel belongs to, with identical content.

type c12nApp struct {
	addr  *net.UDPAddr
	sock  *net.UDPConn // sockets mode
	sent  [][]byte
	rmu   sync.Mutex
	rcvd  [][]byte
	rdone chan struct{}
}

type c12nRelay struct {
	vc   *UDPVirtualConn
	tun  *c12vTunnel
	done chan struct{}
}

type c12nCase struct {
	Idx    int      `json:"idx"`
	Mode   string   `json:"mode"`
	Family string   `json:"address_family"`
	Addrs  []string `json:"application_addresses"`
	PerApp int      `json:"datagrams_per_application"`
	Key    uint64   `json:"pattern_key"`
}

func c12nPayload(key uint64, app, seq, n int) []byte {
	if n < 8 {
		n = 8
	}
	p := make([]byte, 8, n)
	binary.BigEndian.PutUint16(p[0:], 0xC12A)
	binary.BigEndian.PutUint16(p[2:], uint16(app))
	binary.BigEndian.PutUint32(p[4:], uint32(seq))
	return append(p, vk.Pattern(key+uint64(app)<<20+uint64(seq), 8, n-8)...)
}

func c12nAppOf(d []byte) int {
	if len(d) < 8 || binary.BigEndian.Uint16(d) != 0xC12A {
		return -1
	}
	return int(binary.BigEndian.Uint16(d[2:]))
}

func c12nRun(run *vk.Run, cs c12nCase) {
	a := NewUDPMappingAdapter()
	var gate *c12vGate
	apps := make([]*c12nApp, len(cs.Addrs))
	for i, s := range cs.Addrs {
		ua, err := net.ResolveUDPAddr("udp", s)
		if err != nil {
			run.Count("setup_failed", 1)
			return
		}
		apps[i] = &c12nApp{addr: ua}
	}
	var target *net.UDPAddr
	if cs.Mode == "sockets" {
		// free mapping port, then the started adapter with its real read loops
		l, err := net.ListenPacket("udp4", "127.0.0.1:0")
		if err != nil {
			run.Count("setup_failed", 1)
			return
		}
		port := l.LocalAddr().(*net.UDPAddr).Port
		l.Close()
		if err := a.StartListener(config.MappingConfig{MappingID: fmt.Sprintf("c12n-%d", cs.Idx), LocalPort: port}); err != nil {
			run.Count("setup_failed", 1)
			return
		}
		target = &net.UDPAddr{IP: net.IPv4(127, 0, 0, 1), Port: port}
		// all applications use the SAME source port on different loopback addresses
		q := 0
		for i, ap := range apps {
			ap.addr.Port = q
			c, err := net.ListenUDP("udp4", ap.addr)
			if err != nil {
				for _, o := range apps[:i] {
					o.sock.Close()
				}
				a.Close()
				run.Count("skipped_cannot_bind_loopback_alias", 1)
				return
			}
			ap.sock = c
			ap.addr = c.LocalAddr().(*net.UDPAddr)
			q = ap.addr.Port
			ap.rdone = make(chan struct{})
			go func(ap *c12nApp) {
				defer close(ap.rdone)
				buf := make([]byte, 65536)
				for {
					n, _, err := ap.sock.ReadFromUDP(buf)
					if err != nil {
						return
					}
					ap.rmu.Lock()
					ap.rcvd = append(ap.rcvd, append([]byte(nil), buf[:n]...))
					ap.rmu.Unlock()
				}
			}(ap)
		}
	} else {
		gate = c12vNewGate()
		gate.Open()
	}

	// every virtual connection the adapter hands out gets its own relay and tunnel
	var rmu sync.Mutex
	var relays []*c12nRelay
	accDone := make(chan struct{})
	go func() {
		defer close(accDone)
		for {
			c, err := a.Accept()
			if err != nil {
				return
			}
			vc, ok := c.(*UDPVirtualConn)
			if !ok {
				continue
			}
			rl := &c12nRelay{vc: vc, tun: c12vNewTunnel(), done: make(chan struct{})}
			rmu.Lock()
			relays = append(relays, rl)
			rmu.Unlock()
			go func() {
				defer close(rl.done)
				iocopy.UDP(rl.vc, rl.tun, &iocopy.Options{LogPrefix: "c12n"})
			}()
		}
	}()
	snapshot := func() []*c12nRelay {
		rmu.Lock()
		defer rmu.Unlock()
		return append([]*c12nRelay(nil), relays...)
	}
	decodedTotal := func() int {
		t := 0
		for _, rl := range snapshot() {
			d, _ := c12vDecode(rl.tun.OutBytes())
			t += len(d)
		}
		return t
	}

	// upstream: applications send interleaved
	total := 0
	for seq := 0; seq < cs.PerApp; seq++ {
		for i, ap := range apps {
			d := c12nPayload(cs.Key, i, seq, 8+(seq*37+i*11)%300)
			ap.sent = append(ap.sent, d)
			total++
			if cs.Mode == "sockets" {
				if _, err := ap.sock.WriteToUDP(d, target); err != nil {
					run.Count("app_write_failed", 1)
				}
			} else {
				buf := getBuffer()
				copy(buf, d)
				a.processPacket(buf, len(d), ap.addr, gate)
			}
		}
		if cs.Mode == "sockets" && seq%4 == 3 {
			want := total
			c12nPace(300*time.Millisecond, func() bool { return decodedTotal() >= want })
		}
	}
	complete := c12nPace(2*time.Second, func() bool { return decodedTotal() >= total })
	if !complete && cs.Mode != "sockets" {
		complete = c12vWait(func() bool { return decodedTotal() >= total })
	}
	rls := snapshot()
	detail := func(extra map[string]any) map[string]any {
		m := map[string]any{"case": cs, "applications": len(apps), "virtual_connections_accepted": len(rls), "datagrams_sent_upstream": total, "decoded_on_tunnels": decodedTotal()}
		for k, v := range extra {
			m[k] = v
		}
		return m
	}
	run.Eval(1)
	if !complete && cs.Mode != "sockets" {
		run.Count("watchdog", 1)
	}
	// each tunnel carries exactly one application's datagrams
	owner := map[*c12nRelay]int{}
	seenApp := map[int]bool{}
	okUp := true
	for ti, rl := range rls {
		dec, rest := c12vDecode(rl.tun.OutBytes())
		if len(dec) == 0 {
			continue
		}
		ap := c12nAppOf(dec[0])
		owner[rl] = ap
		mixed := false
		for _, d := range dec {
			if c12nAppOf(d) != ap {
				mixed = true
			}
		}
		switch {
		case mixed || ap < 0:
			okUp = false
			run.Violation("C12:udp-sessions|mode="+cs.Mode+"|tunnel-carries-datagrams-of-several-applications", detail(map[string]any{"tunnel_index": ti, "first_owner": ap}))
		case seenApp[ap]:
			okUp = false
			run.Violation("C12:udp-sessions|mode="+cs.Mode+"|application-split-over-several-tunnels", detail(map[string]any{"tunnel_index": ti, "application": ap}))
		default:
			seenApp[ap] = true
			want := apps[ap].sent
			c, at := c12vCmp(dec, want)
			if rest != 0 || (c != "equal" && !(c == "missing" && cs.Mode == "sockets")) {
				okUp = false
				run.Violation("C12:udp-sessions|mode="+cs.Mode+"|dir=local>tunnel|got="+c, detail(map[string]any{"tunnel_index": ti, "application": ap, "first_bad_index": at, "trailing": rest}))
			} else {
				run.Count("upstream_datagrams_checked", int64(len(dec)))
			}
		}
	}
	if okUp && len(seenApp) == len(apps) {
		run.Count("cases_every_application_has_own_tunnel", 1)
	}
	// downstream: every tunnel answers its application
	wantDown := 0
	for _, rl := range rls {
		ap, ok := owner[rl]
		if !ok || ap < 0 {
			continue
		}
		var ds [][]byte
		for seq := 0; seq < cs.PerApp; seq++ {
			ds = append(ds, c12nPayload(cs.Key^0xd0d0, ap, seq, 8+(seq*53+ap*7)%400))
		}
		rl.tun.Feed(c12vEncode(ds))
		wantDown += len(ds)
	}
	if cs.Mode == "sockets" {
		c12nPace(2*time.Second, func() bool {
			n := 0
			for _, ap := range apps {
				ap.rmu.Lock()
				n += len(ap.rcvd)
				ap.rmu.Unlock()
			}
			return n >= wantDown
		})
		for i, ap := range apps {
			ap.rmu.Lock()
			rc := append([][]byte(nil), ap.rcvd...)
			ap.rmu.Unlock()
			bad := -1
			for j, d := range rc {
				if c12nAppOf(d) != i {
					bad = j
					break
				}
			}
			if bad >= 0 {
				run.Violation("C12:udp-sessions|mode=sockets|dir=tunnel>local|delivered-to-wrong-application", detail(map[string]any{"application": i, "datagram_owner": c12nAppOf(rc[bad])}))
			} else {
				run.Count("downstream_datagrams_checked", int64(len(rc)))
			}
		}
	} else {
		c12vWait(func() bool { return gate.SentCount() >= wantDown })
		sent, to := gate.SentWithAddr()
		bad := -1
		for j, d := range sent {
			ap := c12nAppOf(d)
			if ap < 0 || ap >= len(apps) || apps[ap].addr.String() != to[j] {
				bad = j
				break
			}
		}
		if bad >= 0 {
			run.Violation("C12:udp-sessions|mode=doubles|dir=tunnel>local|delivered-to-wrong-application", detail(map[string]any{"datagram_owner": c12nAppOf(sent[bad]), "sent_to": to[bad]}))
		} else {
			run.Count("downstream_datagrams_checked", int64(len(sent)))
		}
	}
	// wind down
	for _, rl := range rls {
		rl.tun.FeedEOF()
	}
	for _, rl := range rls {
		select {
		case <-rl.done:
		case <-time.After(5 * time.Second):
			rl.vc.Close()
			rl.tun.Close()
			run.Count("relay_forced", 1)
		}
	}
	a.Close()
	<-accDone
	for _, ap := range apps {
		if ap.sock != nil {
			ap.sock.Close()
			<-ap.rdone
		}
	}
	if gate != nil {
		gate.Close()
	}
	run.Count("cases_"+cs.Mode, 1)
	run.Distinct(fmt.Sprintf("%s|%s|apps=%d|n=%d", cs.Mode, cs.Family, len(apps), cs.PerApp))
}

func c12nPace(d time.Duration, cond func() bool) bool {
	t0 := time.Now()
	for !cond() {
		if time.Since(t0) > d {
			return false
		}
		time.Sleep(300 * time.Microsecond)
	}
	return true
}

func TestVerifC12SessionsPerApplication(t *testing.T) {
	vk.Quiet()
	run := vk.Start(t, "C12", "udp-sessions-per-application")
	defer run.Finish()
	run.Rule("2..4 local applications on one UDP mapping, each relayed by its own iocopy.UDP; source addresses are near-collisions: same port and IPv4 addresses differing in exactly one octet (each of the four positions), three-way variants, IPv4 vs IPv6, same address with adjacent ports and ports 65536-apart classes folded to 16 bit; driver 'doubles' (adapter.processPacket with arbitrary source addresses, gated socket double) and 'sockets' (started adapter, real loopback sockets on 127.0.0.1 / 127.1.0.1 / 127.0.1.1 with one shared source port); 6..20 datagrams per application each way. distinct = (driver, family, #apps, #datagrams)")
	r := run.Rand("gen")
	n := run.Pick(36, 240)
	var cases []c12nCase
	for i := 0; i < n; i++ {
		cs := c12nCase{Idx: i, Key: r.Uint64() >> 1, PerApp: 6 + r.Intn(15), Mode: "doubles"}
		port := 1024 + r.Intn(60000)
		base := []int{1 + r.Intn(222), r.Intn(256), r.Intn(256), 1 + r.Intn(254)}
		ip := func(b []int) string { return fmt.Sprintf("%d.%d.%d.%d", b[0], b[1], b[2], b[3]) }
		vary := func(k, delta int) []int {
			v := append([]int(nil), base...)
			v[k] = (v[k]+delta-1)%254 + 1
			return v
		}
		switch i % 6 {
		case 0: // differ in the first octet only
			cs.Family = "octet0"
			cs.Addrs = []string{fmt.Sprintf("%s:%d", ip(base), port), fmt.Sprintf("%s:%d", ip(vary(0, 1+r.Intn(200))), port)}
		case 1:
			cs.Family = "octet1"
			cs.Addrs = []string{fmt.Sprintf("%s:%d", ip(base), port), fmt.Sprintf("%s:%d", ip(vary(1, 1+r.Intn(200))), port)}
		case 2:
			k := 2 + r.Intn(2)
			cs.Family = fmt.Sprintf("octet%d", k)
			cs.Addrs = []string{fmt.Sprintf("%s:%d", ip(base), port), fmt.Sprintf("%s:%d", ip(vary(k, 1+r.Intn(200))), port)}
		case 3: // mirrored addressing plans, fixed source port (VPN/IKE/NTP style)
			cs.Family = "three-way-high-octets"
			cs.Addrs = []string{fmt.Sprintf("10.1.%d.%d:%d", base[2], base[3], port), fmt.Sprintf("10.2.%d.%d:%d", base[2], base[3], port), fmt.Sprintf("172.16.%d.%d:%d", base[2], base[3], port)}
		case 4:
			cs.Family = "v4-v6-ports"
			cs.Addrs = []string{fmt.Sprintf("%s:%d", ip(base), port), fmt.Sprintf("[::ffff:%s]:%d", ip(vary(0, 3)), port), fmt.Sprintf("[fd00::%x]:%d", base[3], port), fmt.Sprintf("%s:%d", ip(base), port+1)}
		default:
			cs.Mode, cs.Family = "sockets", "loopback-aliases-same-port"
			cs.Addrs = []string{"127.0.0.1:0", "127.1.0.1:0", "127.0.1.1:0"}[:2+r.Intn(2)]
			if !run.Thorough() && i >= 24 {
				cs.Mode, cs.Family = "doubles", "octet0"
				cs.Addrs = []string{fmt.Sprintf("%s:%d", ip(base), port), fmt.Sprintf("%s:%d", ip(vary(0, 1+r.Intn(200))), port)}
			}
		}
		cases = append(cases, cs)
	}
	for i := 0; i < 6 && i < len(cases); i++ {
		run.Sample(cases[i])
	}
	var wg sync.WaitGroup
	var next atomic.Int64
	for k := 0; k < 4; k++ {
		wg.Add(1)
		go func() {
			defer wg.Done()
			for {
				i := int(next.Add(1)) - 1
				if i >= len(cases) {
					return
				}
				run.Case(fmt.Sprintf("sessions%d", i), cases[i])
				c12nRun(run, cases[i])
			}
		}()
	}
	wg.Wait()
	nd := run.Counter("cases_doubles")
	run.Floor("cases_doubles", int64(n*2/3))
	run.Floor("cases_every_application_has_own_tunnel", nd*9/10)
	run.Floor("upstream_datagrams_checked", nd*12)
	run.Floor("downstream_datagrams_checked", nd*12)
	// the socket driver needs loopback aliases; where they cannot be bound the floor is relaxed
	if run.Counter("skipped_cannot_bind_loopback_alias") == 0 {
		run.Floor("cases_sockets", 3)
	} else {
		run.Observe("sockets_driver", "skipped: 127.1.0.1 / 127.0.1.1 cannot be bound here")
	}
}
