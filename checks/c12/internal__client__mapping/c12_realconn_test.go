//go:build verif && verif_c12

package mapping

import (
	"bytes"
	"fmt"
	"io"
	"math/rand"
	"net"
	"sync"
	"sync/atomic"
	"testing"
	"time"

	"tunnox-core/internal/utils/iocopy"
	vk "tunnox-core/internal/verifkit"
)

// C12 / UDP relay over the REAL local side: iocopy.UDP runs between a scripted tunnel
// stream and a real UDPVirtualConn (created by the real UDPMappingAdapter.processPacket /
// getOrCreateSession, with its real writeLoop) whose socket is a gated net.PacketConn:
// WriteTo completes only when the harness hands out a token, so datagrams queue up inside
// the virtual connection while the relay performs further tunnel reads / buffer compaction.
//
// Oracle (contents clause): the datagrams really sent on the socket equal the datagrams
// encoded in the tunnel stream (content, boundaries, order), and the tunnel receives
// exactly the datagrams injected on the local side, as well-formed records in order.
// The tunnel ends only after everything was sent (Close of a UDPVirtualConn discards its
// queue; that is outside this monitor). Waits are logical; a 20 s watchdog = inconclusive.

const c12vWatchdog = 20 * time.Second

// ---- gated socket

type c12vGate struct {
	mu       sync.Mutex
	cond     *sync.Cond
	tokens   int
	open     bool
	closed   bool
	sent     [][]byte
	sentTo   []string // destination address of each sent datagram
	inflight int
}

func c12vNewGate() *c12vGate { g := &c12vGate{}; g.cond = sync.NewCond(&g.mu); return g }

func (g *c12vGate) WriteTo(p []byte, to net.Addr) (int, error) {
	g.mu.Lock()
	defer g.mu.Unlock()
	g.inflight++
	defer func() { g.inflight-- }()
	for !g.open && g.tokens == 0 && !g.closed {
		g.cond.Wait()
	}
	if g.closed {
		return 0, net.ErrClosed
	}
	if !g.open {
		g.tokens--
	}
	// the datagram leaves the host NOW: record what is in the slice at this moment
	g.sent = append(g.sent, append([]byte(nil), p...))
	if to != nil {
		g.sentTo = append(g.sentTo, to.String())
	} else {
		g.sentTo = append(g.sentTo, "")
	}
	return len(p), nil
}

func (g *c12vGate) Release(n int) {
	g.mu.Lock()
	g.tokens += n
	g.cond.Broadcast()
	g.mu.Unlock()
}

func (g *c12vGate) Open() {
	g.mu.Lock()
	g.open = true
	g.cond.Broadcast()
	g.mu.Unlock()
}

func (g *c12vGate) Sent() [][]byte {
	g.mu.Lock()
	defer g.mu.Unlock()
	return append([][]byte(nil), g.sent...)
}

func (g *c12vGate) SentWithAddr() ([][]byte, []string) {
	g.mu.Lock()
	defer g.mu.Unlock()
	return append([][]byte(nil), g.sent...), append([]string(nil), g.sentTo...)
}

func (g *c12vGate) SentCount() int {
	g.mu.Lock()
	defer g.mu.Unlock()
	return len(g.sent)
}

func (g *c12vGate) ReadFrom(p []byte) (int, net.Addr, error) {
	g.mu.Lock()
	defer g.mu.Unlock()
	for !g.closed {
		g.cond.Wait()
	}
	return 0, nil, net.ErrClosed
}

func (g *c12vGate) Close() error {
	g.mu.Lock()
	g.closed = true
	g.cond.Broadcast()
	g.mu.Unlock()
	return nil
}
func (g *c12vGate) LocalAddr() net.Addr              { return &net.UDPAddr{IP: net.IPv4(127, 0, 0, 1), Port: 1} }
func (g *c12vGate) SetDeadline(time.Time) error      { return nil }
func (g *c12vGate) SetReadDeadline(time.Time) error  { return nil }
func (g *c12vGate) SetWriteDeadline(time.Time) error { return nil }

// ---- scripted tunnel stream

type c12vTunnel struct {
	mu      sync.Mutex
	cond    *sync.Cond
	in      [][]byte
	ended   bool
	closed  bool
	waiting bool // the relay's reader is blocked on an empty queue
	out     []byte
	closes  atomic.Int64
	cw      atomic.Bool
}

func c12vNewTunnel() *c12vTunnel { t := &c12vTunnel{}; t.cond = sync.NewCond(&t.mu); return t }

func (t *c12vTunnel) Feed(b []byte) {
	if len(b) == 0 {
		return
	}
	t.mu.Lock()
	t.in = append(t.in, b)
	t.cond.Broadcast()
	t.mu.Unlock()
}

func (t *c12vTunnel) FeedEOF() {
	t.mu.Lock()
	t.ended = true
	t.cond.Broadcast()
	t.mu.Unlock()
}

func (t *c12vTunnel) Read(p []byte) (int, error) {
	t.mu.Lock()
	defer t.mu.Unlock()
	for {
		if t.closed {
			return 0, net.ErrClosed
		}
		if len(t.in) > 0 {
			b := t.in[0]
			n := copy(p, b)
			if n == len(b) {
				t.in = t.in[1:]
			} else {
				t.in[0] = b[n:]
			}
			return n, nil
		}
		if t.ended {
			return 0, io.EOF
		}
		t.waiting = true
		t.cond.Wait()
		t.waiting = false
	}
}

func (t *c12vTunnel) Write(p []byte) (int, error) {
	t.mu.Lock()
	defer t.mu.Unlock()
	if t.closed {
		return 0, net.ErrClosed
	}
	t.out = append(t.out, p...)
	return len(p), nil
}

// CloseWrite: iocopy.UDP calls it when its UDP->tunnel direction has ended (the local
// side was closed or failed); recorded only.
func (t *c12vTunnel) CloseWrite() error { t.cw.Store(true); return nil }

func (t *c12vTunnel) Close() error {
	t.closes.Add(1)
	t.mu.Lock()
	t.closed = true
	t.cond.Broadcast()
	t.mu.Unlock()
	return nil
}

// Quiesced: everything fed was consumed and the relay came back for more, i.e. every
// datagram completed so far has been handed to udpConn.Write.
func (t *c12vTunnel) Quiesced() bool {
	t.mu.Lock()
	defer t.mu.Unlock()
	return t.waiting && len(t.in) == 0
}

func (t *c12vTunnel) OutLen() int {
	t.mu.Lock()
	defer t.mu.Unlock()
	return len(t.out)
}

func (t *c12vTunnel) OutBytes() []byte {
	t.mu.Lock()
	defer t.mu.Unlock()
	return append([]byte(nil), t.out...)
}

// c12vCounted passes the REAL virtual connection to the relay and counts accepted writes.
type c12vCounted struct {
	*UDPVirtualConn
	accepted atomic.Int64
	werrs    atomic.Int64
}

func (c *c12vCounted) Write(p []byte) (int, error) {
	n, err := c.UDPVirtualConn.Write(p)
	if err == nil {
		c.accepted.Add(1)
	} else {
		c.werrs.Add(1)
	}
	return n, err
}

// ---- case

type c12vStep struct {
	Chunk   int `json:"chunk"`   // bytes of the tunnel stream fed in this step
	Release int `json:"release"` // socket writes allowed after the relay consumed the chunk
	Inject  int `json:"inject"`  // local datagrams injected after the chunk
}

type c12vCase struct {
	Idx      int        `json:"idx"`
	Key      uint64     `json:"pattern_key"`
	Bursts   [][]int    `json:"tunnel_bursts"` // datagram sizes per burst
	Local    []int      `json:"local_sizes"`   // first one opens the session
	Chunking string     `json:"chunking"`
	Steps    []c12vStep `json:"steps"`
	Hold     bool       `json:"socket_held_until_end"`
}

func c12vEncode(d [][]byte) []byte {
	var s []byte
	for _, x := range d {
		s = append(s, byte(len(x)>>8), byte(len(x)))
		s = append(s, x...)
	}
	return s
}

func c12vDecode(s []byte) (dg [][]byte, rest int) {
	off := 0
	for len(s)-off >= 2 {
		n := int(s[off])<<8 | int(s[off+1])
		if n == 0 || len(s)-off < 2+n {
			break
		}
		dg = append(dg, s[off+2:off+2+n])
		off += 2 + n
	}
	return dg, len(s) - off
}

func c12vCmp(got, want [][]byte) (string, int) {
	n := len(got)
	if n > len(want) {
		n = len(want)
	}
	for i := 0; i < n; i++ {
		if !bytes.Equal(got[i], want[i]) {
			return "content-or-boundary", i
		}
	}
	switch {
	case len(got) == len(want):
		return "equal", -1
	case len(got) < len(want):
		return "missing", n
	default:
		return "extra", n
	}
}

func c12vWait(cond func() bool) bool {
	t0 := time.Now()
	for i := 0; ; i++ {
		if cond() {
			return true
		}
		if time.Since(t0) > c12vWatchdog {
			return false
		}
		if i < 50 {
			time.Sleep(20 * time.Microsecond)
		} else {
			time.Sleep(500 * time.Microsecond)
		}
	}
}

func c12vGen(r *rand.Rand, idx int) c12vCase {
	sizes := []int{1, 2, 3, 255, 256, 1400}
	pick := func() int {
		if r.Intn(40) == 0 {
			return []int{65507, 65535}[r.Intn(2)]
		}
		if r.Intn(4) == 0 {
			return 1 + r.Intn(1400)
		}
		return sizes[r.Intn(len(sizes))]
	}
	cs := c12vCase{Idx: idx, Key: r.Uint64() >> 1, Hold: r.Intn(2) == 0}
	nb := 2 + r.Intn(3)
	total := 0
	for b := 0; b < nb; b++ {
		k := 2 + r.Intn(63)
		if r.Intn(2) == 0 {
			k = 2 + r.Intn(7)
		}
		var burst []int
		for i := 0; i < k; i++ {
			n := pick()
			burst = append(burst, n)
			total += 2 + n
		}
		cs.Bursts = append(cs.Bursts, burst)
	}
	nl := 2 + r.Intn(63)
	for i := 0; i < nl; i++ {
		cs.Local = append(cs.Local, pick())
	}
	// chunking of the tunnel stream
	var chunks []int
	switch r.Intn(3) {
	case 0:
		cs.Chunking = "per-burst"
		for _, b := range cs.Bursts {
			n := 0
			for _, x := range b {
				n += 2 + x
			}
			chunks = append(chunks, n)
		}
	case 1:
		cs.Chunking = "rand-small"
		chunks = vk.RandPartition(r, total, []int{300, 1500, 4000}[r.Intn(3)])
		if len(chunks) > 60 { // keep the number of synchronised steps bounded
			chunks = vk.RandPartition(r, total, total/40+1)
		}
	default:
		cs.Chunking = "rand-big"
		chunks = vk.RandPartition(r, total, 70000)
	}
	injectLeft := len(cs.Local) - 1
	for i, c := range chunks {
		st := c12vStep{Chunk: c}
		if !cs.Hold && r.Intn(2) == 0 {
			st.Release = r.Intn(6)
		}
		if injectLeft > 0 && (r.Intn(2) == 0 || i == len(chunks)-1) {
			st.Inject = 1 + r.Intn(injectLeft)
			if i == len(chunks)-1 {
				st.Inject = injectLeft
			}
			injectLeft -= st.Inject
		}
		cs.Steps = append(cs.Steps, st)
	}
	return cs
}

func c12vRun(run *vk.Run, cs c12vCase) {
	var toLocal [][]byte
	k := 0
	for _, b := range cs.Bursts {
		for _, n := range b {
			toLocal = append(toLocal, vk.Pattern(cs.Key+uint64(k)*7919, 0, n))
			k++
		}
	}
	stream := c12vEncode(toLocal)
	var fromLocal [][]byte
	for i, n := range cs.Local {
		fromLocal = append(fromLocal, vk.Pattern((cs.Key^0x5bd1e995)+uint64(i)*104729, 0, n))
	}

	a := NewUDPMappingAdapter()
	gate := c12vNewGate()
	tun := c12vNewTunnel()
	addr := &net.UDPAddr{IP: net.IPv4(127, 0, 0, 1), Port: 20000 + cs.Idx%40000}
	injected := 0
	inject := func(n int) {
		for ; n > 0 && injected < len(fromLocal); n-- {
			d := fromLocal[injected]
			injected++
			buf := getBuffer() // what the adapter's read loops do
			copy(buf, d)
			a.processPacket(buf, len(d), addr, gate)
		}
	}
	inject(1) // the first datagram from the application creates the session
	var vc *UDPVirtualConn
	select {
	case c := <-a.connChan:
		vc = c
	default:
		run.Count("setup_failed", 1)
		return
	}
	cv := &c12vCounted{UDPVirtualConn: vc}
	done := make(chan struct{})
	var res *iocopy.Result
	go func() {
		defer close(done)
		res = iocopy.UDP(cv, tun, &iocopy.Options{LogPrefix: "c12v"})
	}()

	detail := func(extra map[string]any) map[string]any {
		m := map[string]any{"case": cs, "tunnel_datagrams": len(toLocal), "sent_on_socket": gate.SentCount(),
			"writes_accepted": cv.accepted.Load(), "write_errors": cv.werrs.Load(), "local_injected": injected, "tunnel_out_len": tun.OutLen()}
		for k, v := range extra {
			m[k] = v
		}
		return m
	}

	ok := true
	off := 0
	maxQueued := 0
	for _, st := range cs.Steps {
		tun.Feed(stream[off : off+st.Chunk])
		off += st.Chunk
		if !c12vWait(tun.Quiesced) {
			ok = false
			break
		}
		if q := int(cv.accepted.Load()) - gate.SentCount(); q > maxQueued {
			maxQueued = q
		}
		if st.Release > 0 {
			gate.Release(st.Release)
		}
		inject(st.Inject)
	}
	inject(len(fromLocal))
	gate.Open()
	encLocal := len(c12vEncode(fromLocal))
	if ok {
		// every accepted datagram leaves the socket; every injected datagram reaches the tunnel
		ok = c12vWait(func() bool {
			return tun.Quiesced() && int64(gate.SentCount()) >= cv.accepted.Load() && len(vc.writeChan) == 0
		})
		if ok && cv.werrs.Load() == 0 {
			// pacing only (the relay flushes on its own 20 ms ticker). If this gives up, the
			// case is still judged soundly provided the relay has CONSUMED every injected
			// datagram: what it consumed must be flushed by the time UDP() returns.
			if !c12vWait(func() bool { return tun.OutLen() >= encLocal }) && len(vc.readChan) != 0 {
				ok = false
			}
		}
	}
	returned := false
	if ok {
		tun.FeedEOF()
		select {
		case <-done:
			returned = true
			run.Count("returned", 1)
		case <-time.After(c12vWatchdog):
		}
	}
	if !returned {
		run.Count("watchdog", 1)
		vc.Close()
		tun.Close()
		select {
		case <-done:
		case <-time.After(5 * time.Second):
			run.Count("unreleased", 1)
		}
	}
	a.Close()
	gate.Close()
	run.Eval(1)
	if !ok || !returned {
		return // inconclusive case: no verdict
	}
	run.Max("max_datagrams_queued_while_relay_read_on", int64(maxQueued))
	if maxQueued >= 2 {
		run.Count("cases_with_queue_ge2_across_a_tunnel_read", 1)
	}

	sent := gate.Sent()
	if c, at := c12vCmp(sent, toLocal); c != "equal" {
		ex := map[string]any{"compare": c, "first_bad_index": at}
		if c == "content-or-boundary" {
			ex["got_len"], ex["want_len"] = len(sent[at]), len(toLocal[at])
			for j, w := range toLocal { // does it carry another datagram's contents?
				if j != at && bytes.Equal(sent[at], w) {
					ex["equals_datagram_index"] = j
					break
				}
			}
		}
		run.Violation("C12:udp-real|dir=tunnel>local|got="+c, detail(ex))
	} else {
		run.Count("datagrams_sent_checked", int64(len(sent)))
	}
	dec, rest := c12vDecode(tun.OutBytes())
	if c, at := c12vCmp(dec, fromLocal); c != "equal" || rest != 0 {
		if c == "equal" {
			c = "malformed-stream"
		}
		run.Violation("C12:udp-real|dir=local>tunnel|got="+c, detail(map[string]any{"compare": c, "first_bad_index": at, "trailing_bytes": rest}))
	} else {
		run.Count("datagrams_forwarded_checked", int64(len(dec)))
	}
	if res != nil {
		var sumIn, sumOut int64
		for _, d := range sent {
			sumIn += int64(len(d))
		}
		for _, d := range dec {
			sumOut += int64(len(d))
		}
		if res.BytesReceived != sumIn || res.BytesSent != sumOut {
			run.Count("result_counters_differ", 1)
		}
	}
	run.Distinct(fmt.Sprintf("%s|hold=%v|bursts=%d|steps=%d|q=%d", cs.Chunking, cs.Hold, len(cs.Bursts), len(cs.Steps), maxQueued))
}

func TestVerifC12RealVirtualConn(t *testing.T) {
	vk.Quiet()
	run := vk.Start(t, "C12", "udp-real-virtualconn")
	defer run.Finish()
	run.Rule("iocopy.UDP between a scripted tunnel stream and the real mapping.UDPVirtualConn (session created by the real adapter, real writeLoop) over a gated socket double: 2-4 tunnel bursts of 2..64 position-coded datagrams (sizes 1..1400, occasionally 65507/65535), stream fed per burst / in seeded small / big chunks, each chunk fully consumed by the relay before the next; socket writes held until the end or released a few at a time between chunks; 2..64 local datagrams injected through adapter.processPacket between chunks. distinct = (chunking, hold, #bursts, #steps, max queue depth seen while the relay read on); non-trivial = at least 2 datagrams were queued in the virtual connection across a tunnel read")
	r := run.Rand("gen")
	n := run.Pick(160, 1500)
	cases := make([]c12vCase, n)
	for i := range cases {
		cases[i] = c12vGen(r, i)
	}
	for i := 0; i < 3 && i < n; i++ {
		s := cases[i]
		if len(s.Steps) > 8 {
			s.Steps = s.Steps[:8]
		}
		run.Sample(s)
	}
	var wg sync.WaitGroup
	var next atomic.Int64
	for w := 0; w < 6; w++ {
		wg.Add(1)
		go func() {
			defer wg.Done()
			for {
				i := int(next.Add(1)) - 1
				if i >= n {
					return
				}
				run.Case(fmt.Sprintf("real%d", i), map[string]any{"idx": i, "chunking": cases[i].Chunking, "hold": cases[i].Hold})
				c12vRun(run, cases[i])
			}
		}()
	}
	wg.Wait()
	run.Floor("returned", int64(n*9/10))
	run.Floor("cases_with_queue_ge2_across_a_tunnel_read", int64(n/2))
	run.Floor("datagrams_sent_checked", int64(n*4))
	run.Floor("datagrams_forwarded_checked", int64(n*2))
}
