//go:build verif && verif_c12

package socks5

import (
	"context"
	"fmt"
	"io"
	"net"
	"sync"
	"sync/atomic"
	"testing"
	"time"

	"tunnox-core/internal/utils/iocopy"
	vk "tunnox-core/internal/verifkit"
)

// C12 / TCP relay behind the real SOCKS5 Listener (Start, accept loop, handleConnection,
// Handshake, handleConnect) on loopback TCP. The tunnel creator double does what the
// production creator does after dialling: it reports success and relays the user
// connection with iocopy.Bidirectional to a recording tunnel endpoint.
//
// The application is an optimistic SOCKS5 client: it sends its first payload bytes in the
// SAME write as the CONNECT request (and, in a second variant, the greeting as well),
// without waiting for the replies; later it sends more and half-closes.
// Oracle (statement: every byte the application sent on its socket after the request reaches
// the tunnel, in order): tunnel bytes == payload1 + payload2; the application receives the
// tunnel's answer completely, then a clean EOF.

type c12kTunnel struct {
	mu     sync.Mutex
	cond   *sync.Cond
	in     [][]byte
	ended  bool
	closed bool
	out    []byte
	cw     atomic.Bool
}

func c12kNewTunnel() *c12kTunnel { t := &c12kTunnel{}; t.cond = sync.NewCond(&t.mu); return t }
func (t *c12kTunnel) Feed(b []byte, end bool) {
	t.mu.Lock()
	if len(b) > 0 {
		t.in = append(t.in, b)
	}
	t.ended = t.ended || end
	t.cond.Broadcast()
	t.mu.Unlock()
}
func (t *c12kTunnel) Read(p []byte) (int, error) {
	t.mu.Lock()
	defer t.mu.Unlock()
	for {
		if t.closed {
			return 0, net.ErrClosed
		}
		if len(t.in) > 0 {
			n := copy(p, t.in[0])
			if n == len(t.in[0]) {
				t.in = t.in[1:]
			} else {
				t.in[0] = t.in[0][n:]
			}
			return n, nil
		}
		if t.ended {
			return 0, io.EOF
		}
		t.cond.Wait()
	}
}
func (t *c12kTunnel) Write(p []byte) (int, error) {
	t.mu.Lock()
	defer t.mu.Unlock()
	if t.closed {
		return 0, net.ErrClosed
	}
	t.out = append(t.out, p...)
	return len(p), nil
}
func (t *c12kTunnel) CloseWrite() error { t.cw.Store(true); return nil }
func (t *c12kTunnel) Close() error {
	t.mu.Lock()
	t.closed = true
	t.cond.Broadcast()
	t.mu.Unlock()
	return nil
}
func (t *c12kTunnel) Out() []byte {
	t.mu.Lock()
	defer t.mu.Unlock()
	return append([]byte(nil), t.out...)
}

type c12kCreator struct {
	mu      sync.Mutex
	tunnels map[string]*c12kTunnel // by "host:port" of the CONNECT target
	done    map[string]chan struct{}
}

func (c *c12kCreator) CreateSOCKS5Tunnel(userConn net.Conn, mappingID string, targetClientID int64, host string, port int, secret string, onSuccess func()) error {
	key := fmt.Sprintf("%s:%d", host, port)
	c.mu.Lock()
	t, d := c.tunnels[key], c.done[key]
	c.mu.Unlock()
	if t == nil {
		return fmt.Errorf("c12k: unknown target %s", key)
	}
	onSuccess()
	go func() {
		defer close(d)
		iocopy.Bidirectional(userConn, t, &iocopy.Options{LogPrefix: "c12k"})
	}()
	return nil
}

type c12kCase struct {
	Idx      int    `json:"idx"`
	Seed     uint64 `json:"seed"`
	Variant  string `json:"variant"` // all-in-one | request+payload | wait-for-replies (control)
	Atyp     string `json:"atyp"`
	P1       int    `json:"payload_with_request"`
	P2       int    `json:"payload_later"`
	RespLen  int    `json:"response_len"`
}

func c12kWait(cond func() bool) bool {
	t0 := time.Now()
	for !cond() {
		if time.Since(t0) > 20*time.Second {
			return false
		}
		time.Sleep(200 * time.Microsecond)
	}
	return true
}

func c12kRun(run *vk.Run, l *Listener, cr *c12kCreator, cs c12kCase) {
	port := 2000 + cs.Idx
	var req []byte
	var key string
	switch cs.Atyp {
	case "domain":
		host := fmt.Sprintf("t%d.example", cs.Idx)
		req = append([]byte{5, 1, 0, AddrDomain, byte(len(host))}, host...)
		key = fmt.Sprintf("%s:%d", host, port)
	case "ipv6":
		ip := net.ParseIP(fmt.Sprintf("fd00::%x", cs.Idx+1))
		req = append([]byte{5, 1, 0, AddrIPv6}, ip.To16()...)
		key = fmt.Sprintf("%s:%d", ip.String(), port)
	default:
		ip := net.IPv4(10, 9, byte(cs.Idx>>8), byte(cs.Idx))
		req = append([]byte{5, 1, 0, AddrIPv4}, ip.To4()...)
		key = fmt.Sprintf("%s:%d", ip.String(), port)
	}
	req = append(req, byte(port>>8), byte(port))
	tun, done := c12kNewTunnel(), make(chan struct{})
	cr.mu.Lock()
	cr.tunnels[key], cr.done[key] = tun, done
	cr.mu.Unlock()

	c, err := net.DialTimeout("tcp", l.GetListenAddr(), 5*time.Second)
	if err != nil {
		run.Count("setup_failed", 1)
		return
	}
	app := c.(*net.TCPConn)
	defer app.Close()
	app.SetDeadline(time.Now().Add(20 * time.Second)) // watchdog only
	p1 := vk.Pattern(cs.Seed*2+1, 0, cs.P1)
	p2 := vk.Pattern(cs.Seed*2+1, cs.P1, cs.P2)
	resp := vk.Pattern(cs.Seed*2+2, 0, cs.RespLen)
	greeting := []byte{5, 1, 0}
	rd := func(n int) bool { b := make([]byte, n); _, err := io.ReadFull(app, b); return err == nil }
	ok := true
	switch cs.Variant {
	case "all-in-one":
		_, err = app.Write(append(append(append([]byte(nil), greeting...), req...), p1...))
		ok = err == nil && rd(2) && rd(10)
	case "request+payload":
		_, err = app.Write(greeting)
		ok = err == nil && rd(2)
		if ok {
			_, err = app.Write(append(append([]byte(nil), req...), p1...))
			ok = err == nil && rd(10)
		}
	default:
		_, err = app.Write(greeting)
		ok = err == nil && rd(2)
		if ok {
			_, err = app.Write(req)
			ok = err == nil && rd(10)
		}
		if ok {
			_, err = app.Write(p1)
			ok = err == nil
		}
	}
	run.Eval(1)
	detail := func(extra map[string]any) map[string]any {
		m := map[string]any{"case": cs, "tunnel_received": len(tun.Out()), "application_sent": len(p1) + len(p2)}
		for k, v := range extra {
			m[k] = v
		}
		return m
	}
	if !ok {
		run.Violation("C12:socks5-tcp|variant="+cs.Variant+"|handshake-or-replies-failed", detail(map[string]any{"error": fmt.Sprint(err)}))
		return
	}
	if _, err := app.Write(p2); err != nil {
		run.Count("app_write_failed", 1)
	}
	app.CloseWrite()
	// the tunnel answers once the application's FIN has been relayed
	if !c12kWait(tun.cw.Load) {
		run.Count("watchdog", 1)
		tun.Close()
		return
	}
	tun.Feed(resp, true)
	got, rerr := io.ReadAll(app)
	select {
	case <-done:
		run.Count("relay_returned", 1)
	case <-time.After(20 * time.Second):
		run.Count("watchdog", 1)
		tun.Close()
		return
	}
	want := append(append([]byte(nil), p1...), p2...)
	out := tun.Out()
	cls := "equal"
	switch {
	case len(out) < len(want) && string(out) == string(want[:len(out)]):
		cls = "short"
	case len(out) < len(want) && len(out) >= len(p2) && string(out[len(out)-len(p2):]) == string(p2):
		cls = "pipelined-bytes-missing"
	case string(out) != string(want):
		cls = "corrupt"
	}
	if cls != "equal" {
		run.Violation("C12:socks5-tcp|variant="+cs.Variant+"|dir=app>tunnel|got="+cls, detail(nil))
	} else {
		run.Count("upstream_delivered_exactly", 1)
		if cs.Variant != "wait-for-replies" && cs.P1 > 0 {
			run.Count("pipelined_cases_delivered", 1)
		}
	}
	if rerr != nil || string(got) != string(resp) {
		run.Violation("C12:socks5-tcp|dir=tunnel>app|got=mismatch", detail(map[string]any{"got": len(got), "offered": len(resp), "read_error": fmt.Sprint(rerr)}))
	} else {
		run.Count("downstream_delivered_exactly", 1)
	}
	run.Distinct(fmt.Sprintf("%s|%s|p1=%d|p2=%d", cs.Variant, cs.Atyp, cs.P1/300, cs.P2/3000))
}

func TestVerifC12Socks5PipelinedConnect(t *testing.T) {
	vk.Quiet()
	run := vk.Start(t, "C12", "socks5-tcp-pipelined")
	defer run.Finish()
	run.Rule("real socks5.Listener on loopback TCP (accept loop, Handshake, handleConnect) with a tunnel creator that relays through iocopy.Bidirectional to a recording tunnel; optimistic clients: greeting+CONNECT+first payload in one write, or CONNECT+payload in one write after the method reply, plus a control that waits for every reply; first payload 1..4000 B (also 0), later payload 0..20000 B, IPv4/domain/IPv6 targets. distinct = (variant, address type, payload buckets)")
	ctx, cancel := context.WithCancel(context.Background())
	defer cancel()
	cr := &c12kCreator{tunnels: map[string]*c12kTunnel{}, done: map[string]chan struct{}{}}
	l := NewListener(ctx, &ListenerConfig{ListenAddr: "127.0.0.1:0", MappingID: "m", TargetClientID: 1, SecretKey: "k"}, cr)
	if err := l.Start(); err != nil {
		t.Fatalf("[setup failed] %v", err)
	}
	defer l.Close()
	r := run.Rand("gen")
	n := run.Pick(60, 600)
	cases := make([]c12kCase, n)
	for i := range cases {
		cases[i] = c12kCase{Idx: i, Seed: r.Uint64() >> 1, Variant: []string{"all-in-one", "request+payload", "wait-for-replies"}[i%3],
			Atyp: []string{"ipv4", "domain", "ipv6"}[r.Intn(3)], P1: []int{0, 1, 2, 100, 250, 499, 500, 600, 1460, 4000}[r.Intn(10)],
			P2: []int{0, 1, 3000, 20000}[r.Intn(4)], RespLen: r.Intn(30000)}
	}
	var wg sync.WaitGroup
	var next atomic.Int64
	for k := 0; k < 4; k++ {
		wg.Add(1)
		go func() {
			defer wg.Done()
			for {
				i := int(next.Add(1)) - 1
				if i >= n {
					return
				}
				run.Case(fmt.Sprintf("socks5tcp%d", i), cases[i])
				c12kRun(run, l, cr, cases[i])
			}
		}()
	}
	wg.Wait()
	run.Floor("relay_returned", int64(n*9/10))
	run.Floor("pipelined_cases_delivered", int64(n/2))
	run.Floor("downstream_delivered_exactly", int64(n*9/10))
}
