//go:build verif && verif_c01

package adapter

import (
	"bytes"
	"context"
	"errors"
	"fmt"
	"io"
	"math/rand"
	"net"
	"strings"
	"sync"
	"testing"
	"time"

	"github.com/gorilla/websocket"

	"tunnox-core/internal/packet"
	"tunnox-core/internal/stream"
	vk "tunnox-core/internal/verifkit"
)

// C01 over the WebSocket transport.
//
// The byte stream produced by the real StreamProcessor.WritePacket is carried over a
// real loopback WebSocket connection built by the repository's own adapter
// (WebSocketAdapter.Listen/Accept -> wsServerConn, WebSocketAdapter.Dial ->
// wsClientConn) as a seeded partition into WebSocket MESSAGES, and decoded on the
// other side by the real StreamProcessor.ReadPacket reading from the repository's
// conn wrapper. A message is a legal unit of coalescing: the wrappers explicitly
// buffer the unread rest of a message. Oracle: decoded sequence == written sequence,
// byte counts match, and after the last packet the stream is exactly at its end
// (the peer's close frame is the next thing the reader sees).

type c01wsPkt struct {
	Type     byte
	Compress bool
	Payload  []byte
	Cmd      *packet.CommandPacket
	encLen   int
}

var c01wsBaseTypes = []packet.Type{
	packet.Handshake, packet.HandshakeResp, packet.Heartbeat, packet.JsonCommand, packet.CommandResp,
	packet.TunnelOpen, packet.TunnelOpenAck, packet.TunnelData, packet.TunnelClose, packet.DataStreamEOF,
}

var c01wsLens = []int{0, 1, 2, 3, 4, 5, 6, 16, 64, 200, 255, 256, 4095, 4096, 4097, 32767, 32768, 65531, 65535, 65536, 65537, 70000}

func c01wsRandString(r *rand.Rand, n int) string {
	alpha := []rune("abcXYZ019 _-{}\"\\/\n\té世界😀<>&")
	out := make([]rune, n)
	for i := range out {
		out[i] = alpha[r.Intn(len(alpha))]
	}
	return string(out)
}

func c01wsBody(r *rand.Rand, n int) []byte {
	b := make([]byte, n)
	switch r.Intn(3) {
	case 0:
		r.Read(b)
	case 1: // zeros
	default:
		for i := range b {
			b[i] = "the quick brown fox "[i%20]
		}
	}
	return b
}

// c01wsGenPacket: size class 0 = small bodies only (<= 300), 1 = the whole table, 2 = may be large.
func c01wsGenPacket(r *rand.Rand, sizeClass int) c01wsPkt {
	var p c01wsPkt
	t := c01wsBaseTypes[r.Intn(len(c01wsBaseTypes))]
	if r.Intn(12) == 0 {
		t = packet.Type(r.Intn(0x40))
	}
	p.Type = byte(t)
	p.Compress = r.Intn(3) == 0
	if r.Intn(25) == 0 {
		p.Type |= byte(packet.Encrypted)
	}
	if packet.Type(p.Type).IsHeartbeat() {
		return p
	}
	if packet.Type(p.Type).IsJsonCommand() || packet.Type(p.Type).IsCommandResp() {
		bl := []int{0, 1, 17, 300, 5000}[r.Intn(5)]
		if sizeClass == 0 {
			bl = []int{0, 1, 17, 60}[r.Intn(4)]
		}
		p.Cmd = &packet.CommandPacket{
			CommandType: packet.CommandType(r.Intn(256)),
			CommandId:   c01wsRandString(r, r.Intn(20)),
			Token:       c01wsRandString(r, r.Intn(8)),
			SenderId:    c01wsRandString(r, r.Intn(8)),
			ReceiverId:  c01wsRandString(r, r.Intn(8)),
			CommandBody: c01wsRandString(r, bl),
		}
		return p
	}
	n := c01wsLens[r.Intn(len(c01wsLens))]
	switch {
	case sizeClass == 0:
		n = c01wsLens[r.Intn(11)] // <= 255
	case sizeClass == 2 && r.Intn(3) == 0:
		n = []int{100000, 300000, 1 << 20, (1 << 20) + 1}[r.Intn(4)]
	}
	p.Payload = c01wsBody(r, n)
	return p
}

// c01wsSizeRec records the size of every Write call (= one WebSocket message each when
// the writer is a ws conn wrapper).
type c01wsSizeRec struct {
	buf   bytes.Buffer
	sizes []int
}

func (w *c01wsSizeRec) Write(p []byte) (int, error) {
	w.sizes = append(w.sizes, len(p))
	return w.buf.Write(p)
}

// c01wsEncode runs the real writer over an in-memory recorder: wire bytes, encoded
// length of every packet, and the Write-call pattern of the project's own writer.
func c01wsEncode(seq []c01wsPkt) (wire []byte, writerSizes []int, err error) {
	rec := &c01wsSizeRec{}
	sp := stream.NewStreamProcessor(bytes.NewReader(nil), rec, context.Background())
	defer sp.Close()
	for i := range seq {
		before := rec.buf.Len()
		tp := &packet.TransferPacket{PacketType: packet.Type(seq[i].Type), Payload: seq[i].Payload, CommandPacket: seq[i].Cmd}
		if _, err := sp.WritePacket(tp, seq[i].Compress, 0); err != nil {
			return nil, nil, fmt.Errorf("writer refused packet %d: %w", i, err)
		}
		seq[i].encLen = rec.buf.Len() - before
	}
	return append([]byte(nil), rec.buf.Bytes()...), rec.sizes, nil
}

func c01wsDescribe(seq []c01wsPkt) []map[string]any {
	var out []map[string]any
	for _, p := range seq {
		m := map[string]any{"type": fmt.Sprintf("0x%02x", p.Type), "compress": p.Compress, "payload_len": len(p.Payload), "enc_len": p.encLen}
		if p.Cmd != nil {
			m["cmd_body_len"] = len(p.Cmd.CommandBody)
		}
		out = append(out, m)
	}
	return out
}

func c01wsLenBucket(n int) string {
	switch {
	case n == 0:
		return "0"
	case n < 5:
		return "1-4"
	case n < 4096:
		return "small"
	case n <= 65536:
		return "mid"
	default:
		return ">64K"
	}
}

// ---- environment: the repository's own adapter on both ends ------------------

type c01wsEnv struct {
	srv, cli *WebSocketAdapter
	url      string
	cancel   context.CancelFunc
}

func c01wsNewEnv(t *testing.T) *c01wsEnv {
	t.Helper()
	ctx, cancel := context.WithCancel(context.Background())
	e := &c01wsEnv{cancel: cancel}
	e.srv = NewWebSocketAdapter(ctx, nil)
	if err := e.srv.Listen("127.0.0.1:0"); err != nil {
		t.Fatalf("websocket adapter listen: %v", err)
	}
	e.url = "ws://" + e.srv.listener.Addr().String() + WebSocketDefaultPath
	e.cli = NewWebSocketAdapter(ctx, nil)
	return e
}

func (e *c01wsEnv) Close() {
	e.cli.Close()
	e.srv.Close()
	e.cancel()
}

// pair dials with the adapter's client side and accepts with its server side.
func (e *c01wsEnv) pair(t *testing.T) (*wsServerConn, *wsClientConn) {
	t.Helper()
	c, err := e.cli.Dial(e.url)
	if err != nil {
		t.Fatalf("websocket dial: %v", err)
	}
	cc, ok := c.(*wsClientConn)
	if !ok {
		t.Fatalf("Dial returned %T, want *wsClientConn", c)
	}
	s, err := e.srv.Accept()
	if err != nil {
		t.Fatalf("websocket accept: %v", err)
	}
	sc, ok := s.(*wsServerConn)
	if !ok {
		t.Fatalf("Accept returned %T, want *wsServerConn", s)
	}
	return sc, cc
}

// ---- reader-side meter ---------------------------------------------------------

// c01wsMeter sits between ReadPacket and the ws conn wrapper: it caps the size of
// every Read request (the "reader buffer size") with a seeded cycle of caps and counts
// the messages that could not be handed over in one Read (= left a non-empty rest
// inside the wrapper), computed from the known message boundaries.
type c01wsMeter struct {
	r         io.Reader
	caps      []int // cycle; 0 = no cap
	ci        int
	bounds    []int // cumulative end offsets of the messages
	mi        int
	pos       int
	leftovers int
	reads     int
}

func (m *c01wsMeter) Read(p []byte) (int, error) {
	if len(m.caps) > 0 {
		c := m.caps[m.ci%len(m.caps)]
		m.ci++
		if c > 0 && len(p) > c {
			p = p[:c]
		}
	}
	m.reads++
	for m.mi < len(m.bounds) && m.bounds[m.mi] <= m.pos {
		m.mi++
	}
	if m.mi < len(m.bounds) && len(p) > 0 {
		start := 0
		if m.mi > 0 {
			start = m.bounds[m.mi-1]
		}
		if m.pos == start && len(p) < m.bounds[m.mi]-start {
			m.leftovers++
		}
	}
	n, err := m.r.Read(p)
	m.pos += n
	return n, err
}

func c01wsIsTimeout(err error) bool {
	var ne net.Error
	if errors.As(err, &ne) && ne.Timeout() {
		return true
	}
	return err != nil && strings.Contains(err.Error(), "i/o timeout")
}

// ---- one case --------------------------------------------------------------------

type c01wsCase struct {
	seqIndex int
	seq      []c01wsPkt
	wire     []byte
	class    string // partition class
	sizes    []int  // message sizes (sum == len(wire)); for class "writer" the writer's own Write sizes
	caps     []int
	dir      string // "server": wsServerConn reads; "client": wsClientConn reads
}

func (c *c01wsCase) detail() map[string]any {
	s := c.sizes
	if len(s) > 40 {
		s = s[:40]
	}
	return map[string]any{"seq_index": c.seqIndex, "packets": c01wsDescribe(c.seq), "reading_side": c.dir, "partition": c.class,
		"message_sizes_head": s, "messages": len(c.sizes), "read_caps_cycle": c.caps, "wire_len": len(c.wire)}
}

type c01wsOutcome struct {
	ok        bool
	leftovers int
	watchdog  bool
}

func c01wsRunCase(t *testing.T, run *vk.Run, env *c01wsEnv, c *c01wsCase) (out c01wsOutcome) {
	sc, cc := env.pair(t)
	var wg sync.WaitGroup
	defer func() {
		cc.Close()
		sc.Close()
		wg.Wait()
	}()

	// sending side: raw messages on the peer's underlying gorilla connection (under the
	// wrapper's write lock), or the project's own writer through the wrapper's Write
	var rd io.Reader
	var peerRaw *websocket.Conn
	var peerMu *sync.Mutex
	var peerW io.Writer
	if c.dir == "server" {
		rd, peerRaw, peerMu, peerW = sc, cc.conn, &cc.writeMu, cc
		sc.SetReadDeadline(time.Now().Add(60 * time.Second))
	} else {
		rd, peerRaw, peerMu, peerW = cc, sc.conn, &sc.writeMu, sc
		cc.SetReadDeadline(time.Now().Add(60 * time.Second))
	}
	wg.Add(1)
	go func() {
		defer wg.Done()
		if c.class == "writer" {
			sp := stream.NewStreamProcessor(bytes.NewReader(nil), peerW, context.Background())
			for i := range c.seq {
				tp := &packet.TransferPacket{PacketType: packet.Type(c.seq[i].Type), Payload: c.seq[i].Payload, CommandPacket: c.seq[i].Cmd}
				if _, err := sp.WritePacket(tp, c.seq[i].Compress, 0); err != nil {
					return
				}
			}
		} else {
			off := 0
			for _, n := range c.sizes {
				peerMu.Lock()
				err := peerRaw.WriteMessage(websocket.BinaryMessage, c.wire[off:off+n])
				peerMu.Unlock()
				if err != nil {
					return
				}
				off += n
			}
		}
		// end of the finite stream: a normal close frame
		peerMu.Lock()
		peerRaw.WriteControl(websocket.CloseMessage, websocket.FormatCloseMessage(websocket.CloseNormalClosure, ""), time.Now().Add(5*time.Second))
		peerMu.Unlock()
	}()

	bounds := make([]int, len(c.sizes))
	acc := 0
	for i, n := range c.sizes {
		acc += n
		bounds[i] = acc
	}
	meter := &c01wsMeter{r: rd, caps: c.caps, bounds: bounds}
	sp := stream.NewStreamProcessor(meter, io.Discard, context.Background())
	defer sp.Close()
	defer func() { out.leftovers = meter.leftovers }()

	sig := func(kind string) string { return "C01:ws|reader=" + c.dir + "|" + kind }
	viol := func(kind string, extra map[string]any) {
		d := c.detail()
		for k, v := range extra {
			d[k] = v
		}
		d["bytes_delivered_to_reader"] = meter.pos
		d["messages_with_rest_so_far"] = meter.leftovers
		run.Violation(sig(kind), d)
	}
	consumed := 0
	for i, want := range c.seq {
		got, n, err := sp.ReadPacket()
		consumed += want.encLen
		wt := packet.Type(want.Type)
		if err != nil && c01wsIsTimeout(err) {
			out.watchdog = true
			return
		}
		if wt.IsEncrypted() && !wt.IsHeartbeat() {
			if err == nil {
				viol("encrypted-accepted", map[string]any{"index": i})
				return
			}
		} else {
			if err != nil {
				viol("err", map[string]any{"index": i, "error": err.Error()})
				return
			}
			if got == nil {
				viol("nil", map[string]any{"index": i})
				return
			}
			if got.PacketType&0x3F != wt&0x3F {
				viol("type-mismatch", map[string]any{"index": i, "got": fmt.Sprintf("0x%02x", byte(got.PacketType))})
				return
			}
			if want.Cmd != nil {
				if got.CommandPacket == nil || *got.CommandPacket != *want.Cmd {
					viol("cmd-mismatch", map[string]any{"index": i})
					return
				}
			} else if !wt.IsHeartbeat() && !bytes.Equal(got.Payload, want.Payload) {
				viol("payload-mismatch", map[string]any{"index": i, "got_len": len(got.Payload), "want_len": len(want.Payload)})
				return
			}
			if n != want.encLen {
				viol("bytecount", map[string]any{"index": i, "reported": n, "encoded": want.encLen})
				return
			}
		}
		if meter.pos != consumed {
			viol("consumption", map[string]any{"index": i, "delivered": meter.pos, "expected": consumed})
			return
		}
	}
	// aligned to the end: the next thing on the connection is the peer's close frame
	extra, _, err := sp.ReadPacket()
	if err == nil {
		viol("extra-packet", map[string]any{"got_type": fmt.Sprintf("0x%02x", byte(extra.PacketType))})
		return
	}
	if c01wsIsTimeout(err) {
		out.watchdog = true
		return
	}
	if meter.pos != len(c.wire) {
		viol("consumption", map[string]any{"index": "end", "delivered": meter.pos, "expected": len(c.wire)})
		return
	}
	out.ok = true
	return
}

// ---- partitions into messages -------------------------------------------------------

type c01wsPart struct {
	class string
	sizes []int
}

func c01wsCutsToSizes(cuts []int, total int) []int {
	var sizes []int
	prev := 0
	for _, k := range cuts {
		if k <= prev || k >= total {
			continue
		}
		sizes = append(sizes, k-prev)
		prev = k
	}
	return append(sizes, total-prev)
}

func c01wsPartitions(r *rand.Rand, seq []c01wsPkt, wire []byte, writerSizes []int, nrand int) []c01wsPart {
	total := len(wire)
	parts := []c01wsPart{{"whole", []int{total}}}
	if total <= 2500 {
		ones := make([]int, total)
		for i := range ones {
			ones[i] = 1
		}
		parts = append(parts, c01wsPart{"bytes", ones})
	}
	// one message per packet
	var per []int
	for _, p := range seq {
		per = append(per, p.encLen)
	}
	parts = append(parts, c01wsPart{"packet", per})
	// several packets per message
	if len(seq) >= 3 {
		var multi []int
		for i := 0; i < len(seq); {
			k := 2 + r.Intn(3)
			n := 0
			for j := 0; j < k && i < len(seq); j++ {
				n += seq[i].encLen
				i++
			}
			multi = append(multi, n)
		}
		parts = append(parts, c01wsPart{"multi-packet", multi})
	}
	// message boundaries inside the type byte / length field / body of every packet,
	// none at packet boundaries: every message carries the tail of one packet and the
	// head of the next
	var cuts []int
	off := 0
	for _, p := range seq {
		cands := []int{1, 2, 3, 4, 5, 6, p.encLen - 1, p.encLen / 2}
		d := cands[r.Intn(len(cands))]
		if d > 0 && d < p.encLen {
			cuts = append(cuts, off+d)
		}
		if r.Intn(3) == 0 {
			d2 := cands[r.Intn(len(cands))]
			if d2 > d && d2 < p.encLen {
				cuts = append(cuts, off+d2)
			}
		}
		off += p.encLen
	}
	if len(cuts) > 0 {
		parts = append(parts, c01wsPart{"cut-inside", c01wsCutsToSizes(cuts, total)})
	}
	for j := 0; j < nrand; j++ {
		mc := []int{2, 3, 7, 64, 1500, 70000, 200000}[r.Intn(7)]
		if total/mc > 3000 {
			mc = 1500
		}
		parts = append(parts, c01wsPart{"random", vk.RandPartition(r, total, mc)})
	}
	parts = append(parts, c01wsPart{"writer", writerSizes})
	return parts
}

func c01wsCaps(r *rand.Rand, class string, total int) []int {
	if class == "writer" {
		// the writer's own messages are read with exactly matching requests unless the
		// reader is capped: always cap here so that rests are produced
		return [][]int{{1}, {2}, {3}, {7}, {64}, {1000}, {0, 1, 0, 3}, {5, 0, 0}}[r.Intn(8)]
	}
	switch r.Intn(10) {
	case 0, 1, 2, 3:
		return nil // ReadPacket's own request sizes: 1, 4, body
	case 4:
		if total > 200000 {
			return []int{64}
		}
		return []int{1}
	case 5:
		return []int{[]int{2, 3, 5, 7}[r.Intn(4)]}
	case 6:
		return []int{[]int{64, 1000, 4096}[r.Intn(3)]}
	case 7:
		return []int{[]int{32768, 65536, 65537}[r.Intn(3)]}
	default:
		n := 2 + r.Intn(5)
		out := make([]int, n)
		for i := range out {
			out[i] = []int{0, 0, 1, 2, 4, 5, 9, 100, 4096, 40000}[r.Intn(10)]
		}
		return out
	}
}

func c01wsCapClass(caps []int) string {
	switch {
	case len(caps) == 0:
		return "none"
	case len(caps) > 1:
		return "mixed"
	case caps[0] == 1:
		return "1"
	case caps[0] < 64:
		return "tiny"
	case caps[0] <= 4096:
		return "small"
	default:
		return "big"
	}
}

func c01wsTypeName(t packet.Type) string {
	names := map[packet.Type]string{packet.Handshake: "Handshake", packet.HandshakeResp: "HandshakeResp", packet.Heartbeat: "Heartbeat",
		packet.JsonCommand: "JsonCommand", packet.CommandResp: "CommandResp", packet.TunnelOpen: "TunnelOpen", packet.TunnelOpenAck: "TunnelOpenAck",
		packet.TunnelData: "TunnelData", packet.TunnelClose: "TunnelClose", packet.DataStreamEOF: "DataStreamEOF"}
	s, ok := names[t&0x3F]
	if !ok {
		s = "other"
	}
	if t.IsEncrypted() {
		s += "+enc"
	}
	return s
}

func TestVerifC01WSMessages(t *testing.T) {
	vk.Quiet()
	run := vk.Start(t, "C01", "ws-messages")
	defer run.Finish()
	run.Rule("sequences of 1-10 packets encoded by the real WritePacket (10 defined types + random 6-bit types, compression on/off, Encrypted flag occasionally, bodies 0..70000 and up to 1 MiB), carried over a real loopback WebSocket connection made by the repository's WebSocketAdapter (Listen/Accept -> wsServerConn, Dial -> wsClientConn) as a partition into binary MESSAGES: whole sequence in one message, one message per byte, one per packet, 2-4 packets per message, boundaries only inside type/length/body, seeded random partitions, and the project's own writer through the wrapper's Write; decoded by the real ReadPacket from the wrapper through a seeded cycle of read-size caps (none,1,2..7,64..4096,32K-64K,mixed); both reading sides (server wrapper, client wrapper), a fresh connection per case; distinct = (reading side, partition class, cap class, type, compress, len-bucket); non-trivial = at least two messages left an unread rest inside the wrapper on that connection")
	env := c01wsNewEnv(t)
	defer env.Close()
	r := run.Rand("gen")
	nseq := run.Pick(140, 600)
	nrand := run.Pick(2, 3)
	watchdogs := 0
	for s := 0; s < nseq && watchdogs == 0; s++ {
		sizeClass := s % 3
		np := 1 + r.Intn(10)
		if sizeClass == 2 {
			np = 1 + r.Intn(5)
		}
		seq := make([]c01wsPkt, np)
		for i := range seq {
			seq[i] = c01wsGenPacket(r, sizeClass)
		}
		wire, writerSizes, err := c01wsEncode(seq)
		if err != nil {
			run.Count("writer_refused", 1)
			continue
		}
		if s < 3 {
			run.Sample(map[string]any{"packets": c01wsDescribe(seq), "wire_len": len(wire)})
		}
	parts:
		for _, pt := range c01wsPartitions(r, seq, wire, writerSizes, nrand) {
			for _, dir := range []string{"server", "client"} {
				c := &c01wsCase{seqIndex: s, seq: seq, wire: wire, class: pt.class, sizes: pt.sizes, dir: dir, caps: c01wsCaps(r, pt.class, len(wire))}
				run.Case(fmt.Sprintf("ws|seq%d|%s|%s", s, pt.class, dir), c.detail())
				o := c01wsRunCase(t, run, env, c)
				run.Eval(1)
				if o.watchdog {
					watchdogs++
					run.Count("watchdog", 1)
					run.Observe("watchdog_case", c.detail())
					break parts
				}
				if o.ok {
					run.Count("decoded_ok_runs", 1)
				}
				run.Count("messages_sent", int64(len(pt.sizes)))
				run.Count("messages_with_rest", int64(o.leftovers))
				run.Count("partition_"+pt.class, 1)
				if o.leftovers >= 2 {
					run.Count("conns_two_rests_"+dir, 1)
					run.Count("conns_two_rests_class_"+pt.class, 1)
					for _, p := range seq {
						run.Distinct(fmt.Sprintf("%s|%s|%s|%s|%v|%s", dir, pt.class, c01wsCapClass(c.caps), c01wsTypeName(packet.Type(p.Type)), p.Compress, c01wsLenBucket(len(p.Payload))))
					}
				}
				if len(wire) > 65536+5 && pt.class == "whole" {
					run.Count("single_message_over_64K", 1)
				}
			}
		}
		if run.Violations() > 12 {
			break
		}
	}
	if watchdogs == 0 {
		run.Count("completed_without_watchdog", 1)
	}
	run.Floor("completed_without_watchdog", 1)
	run.Floor("decoded_ok_runs", 1)
	run.Floor("conns_two_rests_server", int64(run.Pick(250, 1500)))
	run.Floor("conns_two_rests_client", int64(run.Pick(250, 1500)))
	run.Floor("conns_two_rests_class_packet", int64(run.Pick(60, 400)))
	run.Floor("conns_two_rests_class_multi-packet", int64(run.Pick(40, 250)))
	run.Floor("conns_two_rests_class_cut-inside", int64(run.Pick(40, 250)))
	run.Floor("conns_two_rests_class_random", int64(run.Pick(100, 600)))
	run.Floor("conns_two_rests_class_writer", int64(run.Pick(60, 400)))
	run.Floor("single_message_over_64K", 10)
}

// TestVerifC01WSLongLived keeps ONE connection per reading side open for many
// sequences: state the wrapper carries from one message to the next (buffered rest,
// offsets, reused backing arrays) is exercised hundreds of times with rests that grow
// and shrink.
func TestVerifC01WSLongLived(t *testing.T) {
	vk.Quiet()
	run := vk.Start(t, "C01", "ws-longlived")
	defer run.Finish()
	run.Rule("one long sequence (quick 400 / thorough 4000 packets, same generator, bodies <= 70000 with mostly small ones) per reading side over a single connection, messages = seeded mix of whole packets, runs of 2-5 packets and random cuts, read caps cycling through a seeded list; distinct = (reading side, type, compress, len-bucket); non-trivial = connection saw >= 100 messages that left a rest")
	env := c01wsNewEnv(t)
	defer env.Close()
	r := run.Rand("gen")
	np := run.Pick(400, 4000)
	for round, dir := range []string{"server", "client", "server", "client"} {
		seq := make([]c01wsPkt, np)
		for i := range seq {
			seq[i] = c01wsGenPacket(r, []int{0, 0, 0, 1}[r.Intn(4)])
		}
		wire, _, err := c01wsEncode(seq)
		if err != nil {
			run.Count("writer_refused", 1)
			continue
		}
		// messages: packet-aligned runs, some of them cut again at random places
		var sizes []int
		for i := 0; i < len(seq); {
			k := 1 + r.Intn(5)
			n := 0
			for j := 0; j < k && i < len(seq); j++ {
				n += seq[i].encLen
				i++
			}
			if r.Intn(4) == 0 && n > 2 {
				sizes = append(sizes, vk.RandPartition(r, n, 1+n/2)...)
			} else {
				sizes = append(sizes, n)
			}
		}
		var caps []int
		if round >= 2 {
			caps = make([]int, 7)
			for i := range caps {
				caps[i] = []int{0, 0, 0, 1, 3, 5, 64, 1000}[r.Intn(8)]
			}
		}
		c := &c01wsCase{seqIndex: round, seq: seq, wire: wire, class: "long-lived", sizes: sizes, dir: dir, caps: caps}
		d := c.detail()
		delete(d, "packets")
		d["packet_count"] = len(seq)
		run.Case(fmt.Sprintf("ws-long|%d|%s", round, dir), d)
		o := c01wsRunCase(t, run, env, c)
		run.Eval(1)
		if o.watchdog {
			run.Count("watchdog", 1)
			continue
		}
		if o.ok {
			run.Count("decoded_ok_runs", 1)
			run.Count("packets_decoded", int64(len(seq)))
		}
		run.Count("messages_sent", int64(len(sizes)))
		run.Count("messages_with_rest", int64(o.leftovers))
		if o.leftovers >= 100 {
			run.Count("conns_100_rests_"+dir, 1)
			for _, p := range seq {
				run.Distinct(fmt.Sprintf("%s|%s|%v|%s", dir, c01wsTypeName(packet.Type(p.Type)), p.Compress, c01wsLenBucket(len(p.Payload))))
			}
		}
	}
	if run.Counter("watchdog") == 0 {
		run.Count("completed_without_watchdog", 1)
	}
	run.Floor("completed_without_watchdog", 1)
	run.Floor("conns_100_rests_server", 2)
	run.Floor("conns_100_rests_client", 2)
}
