//go:build verif && verif_c01

package stream

import (
	"bytes"
	"context"
	"fmt"
	"io"
	"math/rand"
	"reflect"
	"testing"

	"tunnox-core/internal/packet"
	vk "tunnox-core/internal/verifkit"
)

// C01 — the sequence the writer ACCEPTED is the sequence the reader decodes, also when
//
//	(a) the caller writes the SAME *TransferPacket value more than once (to one stream or
//	    to several) with different compression settings — a broadcast, a retry. The packet
//	    "written" by a WritePacket call is the value the caller passed at that moment;
//	(b) some WritePacket calls are REFUSED (return an error without an I/O failure: nil
//	    packet, whatever else the writer decides to refuse) and the caller carries on: the
//	    accepted packets are the sequence, and it must decode aligned — a refused call
//	    must not leave bytes behind.
//
// Every WritePacket call is an "attempt": the harness snapshots the packet before the
// call, records the returned (n, err) and the bytes that reached the wire during the
// call. Expected sequence per stream = snapshots of the attempts that returned nil
// error. The wire is then decoded by the real ReadPacket under whole / seeded / 1-byte
// chunking. Command-type packets without any body (CommandPacket nil, empty Payload)
// that the writer accepts carry no command for the reader to return: for those the
// reader may report an error or an empty packet, but must consume exactly their bytes.

type c01rAttempt struct {
	Obj      int // index in the object pool (-1 = fresh / nil)
	Kind     string
	Compress bool
	Stream   int
	snap     *packet.TransferPacket // deep copy taken before the call (nil for a nil packet)
	N        int
	Err      string
	Wire     int  // bytes that reached the wire during the call
	Mutated  bool // the caller's packet differs from the snapshot after the call
	// context classes (for signatures / floors)
	Rewritten  bool // the same object has been written with both compression settings (this call included)
	AfterRefus bool // a refused attempt precedes it on this stream
}

func c01rSnapshot(p *packet.TransferPacket) *packet.TransferPacket {
	if p == nil {
		return nil
	}
	c := *p
	if p.Payload != nil {
		c.Payload = append([]byte{}, p.Payload...)
	}
	if p.CommandPacket != nil {
		cc := *p.CommandPacket
		c.CommandPacket = &cc
	}
	return &c
}

func c01rBodyless(p *packet.TransferPacket) bool {
	t := p.PacketType
	return (t.IsJsonCommand() || t.IsCommandResp()) && p.CommandPacket == nil && len(p.Payload) == 0
}

func (a *c01rAttempt) describe() map[string]any {
	m := map[string]any{"kind": a.Kind, "object": a.Obj, "compress": a.Compress, "stream": a.Stream, "returned_n": a.N, "bytes_on_wire": a.Wire}
	if a.Err != "" {
		m["refused_with"] = a.Err
	}
	if a.snap != nil {
		m["type"] = fmt.Sprintf("0x%02x", byte(a.snap.PacketType))
		m["payload_len"] = len(a.snap.Payload)
		m["has_command"] = a.snap.CommandPacket != nil
	}
	if a.Mutated {
		m["caller_packet_changed_by_the_call"] = true
	}
	if a.Rewritten {
		m["same_object_written_before_with_other_compression"] = true
	}
	return m
}

type c01rStream struct {
	rec *vk.RecWriter
	sp  *StreamProcessor
}

// c01rPlay executes the attempts and fills in what was observed.
func c01rPlay(run *vk.Run, attempts []*c01rAttempt, pool []*packet.TransferPacket, fresh map[int]*packet.TransferPacket, nstreams int) [][]byte {
	streams := make([]*c01rStream, nstreams)
	for i := range streams {
		rec := vk.NewRecWriter()
		streams[i] = &c01rStream{rec: rec, sp: NewStreamProcessor(bytes.NewReader(nil), rec, context.Background())}
	}
	lastCompress := map[int]int{} // object -> 0 unwritten, 1 plain, 2 compressed
	changed := map[int]bool{}     // object has been written with both settings by now
	refusedOn := map[int]bool{}
	for i, a := range attempts {
		var p *packet.TransferPacket
		switch {
		case a.Kind == "nil":
		case a.Obj >= 0:
			p = pool[a.Obj]
		default:
			p = fresh[i]
		}
		a.snap = c01rSnapshot(p)
		st := streams[a.Stream]
		before := st.rec.Len()
		n, err := st.sp.WritePacket(p, a.Compress, 0)
		a.N, a.Wire = n, st.rec.Len()-before
		if err != nil {
			a.Err = err.Error()
			refusedOn[a.Stream] = true
			run.Count("attempts_refused", 1)
			run.Count("attempts_refused_"+a.Kind, 1)
		} else {
			a.AfterRefus = refusedOn[a.Stream]
			if a.AfterRefus {
				run.Count("accepted_after_a_refused_write", 1)
			}
		}
		if p != nil && !reflect.DeepEqual(p, a.snap) {
			a.Mutated = true
			run.Count("obs_caller_packet_changed_by_writepacket", 1)
			// the caller keeps using its object: restore nothing — later attempts snapshot what
			// the caller would pass then
		}
		if a.Obj >= 0 && err == nil {
			cur := 1
			if a.Compress {
				cur = 2
			}
			if prev := lastCompress[a.Obj]; prev != 0 && prev != cur {
				changed[a.Obj] = true
				run.Count("same_object_rewritten_compression_changed", 1)
				if prev == 2 {
					run.Count("same_object_rewritten_compressed_then_plain", 1)
				}
			}
			lastCompress[a.Obj] = cur
			a.Rewritten = changed[a.Obj]
		}
	}
	wires := make([][]byte, nstreams)
	for i, st := range streams {
		wires[i] = st.rec.Bytes()
		st.sp.Close()
	}
	return wires
}

// c01rDecode decodes one stream's wire and compares with the accepted attempts.
func c01rDecode(run *vk.Run, attempts []*c01rAttempt, stream int, wire []byte, chunks []int, class string, detail func() map[string]any) bool {
	cr := vk.NewChunkReader(wire, chunks)
	cr.SpinLimit = 1000
	sp := NewStreamProcessor(cr, io.Discard, context.Background())
	defer sp.Close()
	var accepted []*c01rAttempt
	var all []*c01rAttempt
	for _, a := range attempts {
		if a.Stream != stream {
			continue
		}
		all = append(all, a)
		if a.Err == "" {
			accepted = append(accepted, a)
		}
	}
	ok := true
	viol := func(a *c01rAttempt, kind string, extra map[string]any) {
		ok = false
		ctx := "plain-history"
		leftBytes := false
		for _, x := range all {
			if x == a {
				break
			}
			if x.Err != "" && x.Wire > 0 {
				leftBytes = true
			}
		}
		switch {
		case leftBytes || (a != nil && a.Err != ""):
			ctx = "after-a-refused-write-that-left-bytes-on-the-wire"
		case a != nil && a.Rewritten:
			ctx = "same-object-rewritten-with-other-compression"
		case a != nil && a.AfterRefus:
			ctx = "after-a-refused-write"
		}
		d := detail()
		d["chunking"] = class
		var hist []map[string]any
		for _, x := range all {
			hist = append(hist, x.describe())
			if len(hist) == 24 {
				break
			}
		}
		d["attempts_on_this_stream"] = hist
		for k, v := range extra {
			d[k] = v
		}
		if a != nil {
			d["failing_attempt"] = a.describe()
		}
		d["wire_len"] = len(wire)
		d["bytes_consumed"] = cr.Delivered()
		run.Violation("C01:reuse|"+ctx+"|"+kind, d)
	}
	var cur *c01rAttempt
	defer func() {
		if e := recover(); e != nil {
			if e == vk.ErrSpin {
				viol(cur, "spin-after-end-of-stream", nil)
				return
			}
			viol(cur, "panic", map[string]any{"panic": fmt.Sprint(e)})
		}
	}()
	consumed := 0
	for i, a := range accepted {
		cur = a
		got, n, err := sp.ReadPacket()
		consumed += a.Wire
		want := a.snap
		wt := want.PacketType
		at := map[string]any{"index_among_accepted": i}
		switch {
		case wt.IsEncrypted() && !wt.IsHeartbeat():
			if err == nil {
				viol(a, "encrypted-accepted", at)
				return false
			}
		case c01rBodyless(want):
			// nothing the reader could return for it; either outcome, but aligned (checked below)
			if err != nil {
				run.Count("obs_accepted_bodyless_command_reader_error", 1)
			}
		default:
			if err != nil {
				at["error"] = err.Error()
				viol(a, "err", at)
				return false
			}
			if got == nil {
				viol(a, "nil", at)
				return false
			}
			if got.PacketType&0x3F != wt&0x3F {
				at["got"] = fmt.Sprintf("0x%02x", byte(got.PacketType))
				viol(a, "type-mismatch", at)
				return false
			}
			if (wt.IsJsonCommand() || wt.IsCommandResp()) && want.CommandPacket != nil {
				if got.CommandPacket == nil || *got.CommandPacket != *want.CommandPacket {
					viol(a, "cmd-mismatch", at)
					return false
				}
			} else if !(wt.IsJsonCommand() || wt.IsCommandResp()) && !wt.IsHeartbeat() && !bytes.Equal(got.Payload, want.Payload) {
				at["got_len"], at["want_len"] = len(got.Payload), len(want.Payload)
				viol(a, "payload-mismatch", at)
				return false
			}
			if n != a.Wire {
				at["reported"], at["on_wire"] = n, a.Wire
				viol(a, "bytecount", at)
				return false
			}
		}
		if d := cr.Delivered(); d != consumed {
			at["consumed"], at["expected"] = d, consumed
			viol(a, "consumption", at)
			return false
		}
	}
	cur = nil
	if len(accepted) > 0 {
		cur = accepted[len(accepted)-1]
	}
	if extra, _, err := sp.ReadPacket(); err == nil {
		var last *c01rAttempt
		for _, a := range all {
			if a.Err != "" && a.Wire > 0 {
				last = a
			}
		}
		if last == nil {
			last = cur
		}
		viol(last, "extra-packet", map[string]any{"got_type": fmt.Sprintf("0x%02x", byte(extra.PacketType))})
		return false
	}
	if consumed != len(wire) {
		// bytes on the wire that belong to no accepted packet
		var culprit *c01rAttempt
		for _, a := range all {
			if a.Err != "" && a.Wire > 0 {
				culprit = a
				break
			}
		}
		viol(culprit, "bytes-of-no-accepted-packet-on-the-wire", map[string]any{"accepted_bytes": consumed})
		return false
	}
	return ok
}

func c01rToPacket(p c01pkt) *packet.TransferPacket {
	return &packet.TransferPacket{PacketType: packet.Type(p.Type), Payload: p.Payload, CommandPacket: p.Cmd}
}

func c01rRun(run *vk.Run, r *rand.Rand, name string, attempts []*c01rAttempt, pool []*packet.TransferPacket, fresh map[int]*packet.TransferPacket, nstreams int) {
	run.Case("reuse|"+name, map[string]any{"attempts": len(attempts), "objects": len(pool), "streams": nstreams})
	wires := c01rPlay(run, attempts, pool, fresh, nstreams)
	det := func() map[string]any { return map[string]any{"case": name, "streams": nstreams, "objects": len(pool)} }
	for s, wire := range wires {
		type part struct {
			class  string
			chunks []int
		}
		parts := []part{{"whole", []int{len(wire)}}}
		if len(wire) > 1 {
			parts = append(parts, part{"random", vk.RandPartition(r, len(wire), []int{2, 3, 7, 64, 1500}[r.Intn(5)])})
		}
		if len(wire) > 1 && len(wire) <= 4096 {
			ones := make([]int, len(wire))
			for i := range ones {
				ones[i] = 1
			}
			parts = append(parts, part{"bytes", ones})
		}
		for _, pt := range parts {
			if c01rDecode(run, attempts, s, wire, pt.chunks, pt.class, det) {
				run.Count("decoded_ok_runs", 1)
			}
			run.Eval(1)
		}
	}
	written := map[int]map[int]bool{}
	for _, a := range attempts {
		if a.Obj >= 0 && a.Err == "" {
			if written[a.Obj] == nil {
				written[a.Obj] = map[int]bool{}
			}
			written[a.Obj][a.Stream] = true
		}
		if a.snap != nil {
			ctx := "plain"
			switch {
			case a.Err != "":
				ctx = "refused"
			case a.Rewritten:
				ctx = "rewritten"
			case a.AfterRefus:
				ctx = "after-refused"
			}
			run.Distinct(fmt.Sprintf("%s|%s|%v|%s|%s", a.Kind, c01TypeName(a.snap.PacketType), a.Compress, c01LenBucket(len(a.snap.Payload)), ctx))
		}
	}
	for _, ss := range written {
		if len(ss) >= 2 {
			run.Count("objects_written_to_two_streams", 1)
		}
	}
}

func TestVerifC01ReuseAndRefusal(t *testing.T) {
	vk.Quiet()
	run := vk.Start(t, "C01", "reuse-and-refusal")
	defer run.Finish()
	run.Rule("histories of WritePacket calls on 1-3 streams: the SAME *TransferPacket objects written repeatedly with changing compression settings and to several streams, fresh packets, and calls the writer may refuse (nil packet; JsonCommand/CommandResp with neither CommandPacket nor Payload, compress on/off) followed by further packets; enumerated part: every base type x (compress first, compress second) x (same stream / two streams), every refusal candidate x every following type; seeded part: random histories of 6-40 calls; expected per stream = snapshots (taken at call time) of the calls that returned nil error; decoded by the real ReadPacket whole / seeded chunks / byte by byte; distinct = (call kind, type, compress, len-bucket, context); non-trivial = history contains a rewrite with changed compression or a refused call followed by accepted ones")
	r := run.Rand("gen")

	bodyFor := func(t packet.Type, n int) *packet.TransferPacket {
		p := &packet.TransferPacket{PacketType: t}
		if t.IsHeartbeat() {
			return p
		}
		if t.IsJsonCommand() || t.IsCommandResp() {
			p.CommandPacket = &packet.CommandPacket{CommandType: packet.CommandType(50), CommandId: "id-1", CommandBody: c01RandString(r, n%200)}
			return p
		}
		p.Payload = c01Body(r, n)
		return p
	}
	sentinel := func() *packet.TransferPacket {
		return &packet.TransferPacket{PacketType: packet.TunnelClose, Payload: []byte("sentinel")}
	}

	// ---- enumerated: one object written twice ------------------------------------------
	for _, bt := range c01BaseTypes {
		for _, n := range []int{0, 7, 300, 5000} {
			for _, c1 := range []bool{false, true} {
				for _, c2 := range []bool{false, true} {
					for _, two := range []bool{false, true} {
						obj := bodyFor(bt, n)
						s2 := 0
						ns := 1
						if two {
							s2, ns = 1, 2
						}
						at := []*c01rAttempt{
							{Obj: 0, Kind: "object", Compress: c1, Stream: 0},
							{Obj: 0, Kind: "object", Compress: c2, Stream: s2},
							{Obj: -1, Kind: "fresh", Stream: 0},
							{Obj: -1, Kind: "fresh", Stream: s2},
						}
						fresh := map[int]*packet.TransferPacket{2: sentinel(), 3: sentinel()}
						c01rRun(run, r, fmt.Sprintf("twice|%s|n=%d|%v->%v|two-streams=%v", c01TypeName(bt), n, c1, c2, two), at, []*packet.TransferPacket{obj}, fresh, ns)
					}
				}
			}
		}
		if run.Violations() > 12 {
			break
		}
	}
	// ---- enumerated: a call the writer may refuse, then more packets --------------------
	type cand struct {
		kind string
		mk   func() *packet.TransferPacket
	}
	cands := []cand{
		{"nil", func() *packet.TransferPacket { return nil }},
		{"bodyless-JsonCommand", func() *packet.TransferPacket { return &packet.TransferPacket{PacketType: packet.JsonCommand} }},
		{"bodyless-CommandResp", func() *packet.TransferPacket { return &packet.TransferPacket{PacketType: packet.CommandResp} }},
		{"bodyless-JsonCommand-empty-slice", func() *packet.TransferPacket {
			return &packet.TransferPacket{PacketType: packet.JsonCommand, Payload: []byte{}}
		}},
	}
	for _, cd := range cands {
		for _, comp := range []bool{false, true} {
			for _, bt := range c01BaseTypes {
				for _, pos := range []string{"first", "middle"} {
					var at []*c01rAttempt
					fresh := map[int]*packet.TransferPacket{}
					add := func(kind string, p *packet.TransferPacket, c bool) {
						fresh[len(at)] = p
						at = append(at, &c01rAttempt{Obj: -1, Kind: kind, Compress: c, Stream: 0})
					}
					if pos == "middle" {
						add("fresh", bodyFor(packet.TunnelData, 64), false)
					}
					add(cd.kind, cd.mk(), comp)
					add("fresh", bodyFor(bt, 300), comp)
					add("fresh", sentinel(), false)
					c01rRun(run, r, fmt.Sprintf("refusal-candidate|%s|compress=%v|then=%s|%s", cd.kind, comp, c01TypeName(bt), pos), at, nil, fresh, 1)
					run.Count("refusal_candidates_followed_by_packets", 1)
				}
			}
		}
		if run.Violations() > 12 {
			break
		}
	}
	// ---- seeded histories -----------------------------------------------------------------
	nh := run.Pick(400, 6000)
	for h := 0; h < nh && run.Violations() <= 12; h++ {
		nobj := 1 + r.Intn(5)
		pool := make([]*packet.TransferPacket, nobj)
		for i := range pool {
			g := c01GenPacket(r, false)
			g.Type &^= byte(packet.Compressed) // the caller's type carries no transport flag
			if len(g.Payload) > 8192 {
				g.Payload = g.Payload[:r.Intn(8192)]
			}
			pool[i] = c01rToPacket(g)
		}
		nstreams := 1 + r.Intn(3)
		na := 6 + r.Intn(35)
		at := make([]*c01rAttempt, na)
		fresh := map[int]*packet.TransferPacket{}
		for i := range at {
			a := &c01rAttempt{Obj: -1, Stream: r.Intn(nstreams), Compress: r.Intn(2) == 0}
			switch k := r.Intn(20); {
			case k < 13:
				a.Obj, a.Kind = r.Intn(nobj), "object"
			case k < 15:
				a.Kind = "nil"
			case k < 17:
				cd := cands[1+r.Intn(len(cands)-1)]
				a.Kind = cd.kind
				fresh[i] = cd.mk()
			default:
				a.Kind = "fresh"
				g := c01GenPacket(r, false)
				g.Type &^= byte(packet.Compressed)
				if len(g.Payload) > 8192 {
					g.Payload = g.Payload[:r.Intn(8192)]
				}
				fresh[i] = c01rToPacket(g)
			}
			at[i] = a
		}
		// the last call on every stream is an ordinary packet, so that whatever a refused call
		// left behind has something to collide with
		for s := 0; s < nstreams; s++ {
			fresh[len(at)] = sentinel()
			at = append(at, &c01rAttempt{Obj: -1, Kind: "fresh", Stream: s})
		}
		c01rRun(run, r, fmt.Sprintf("history%d", h), at, pool, fresh, nstreams)
		if h < 2 {
			var d []map[string]any
			for _, a := range at {
				d = append(d, a.describe())
			}
			run.Sample(map[string]any{"history": d})
		}
	}
	run.Floor("decoded_ok_runs", 1)
	run.Floor("same_object_rewritten_compression_changed", int64(run.Pick(1500, 15000)))
	run.Floor("same_object_rewritten_compressed_then_plain", int64(run.Pick(700, 7000)))
	run.Floor("objects_written_to_two_streams", int64(run.Pick(400, 4000)))
	run.Floor("attempts_refused", int64(run.Pick(300, 3000)))
	run.Floor("accepted_after_a_refused_write", int64(run.Pick(800, 8000)))
	run.Floor("refusal_candidates_followed_by_packets", 160)
}
