//go:build verif && verif_c01

package stream

import (
	"fmt"
	"io"
	"testing"

	"tunnox-core/internal/packet"
	vk "tunnox-core/internal/verifkit"
)

// C01 — partitions of the byte stream that contain EMPTY reads. A Read that returns
// (0, nil) is a legal (if discouraged) io.Reader answer and the degenerate case of
// "how the transport splits the byte stream across reads"; transports of this code base
// produce it (the WebSocket conn wrappers for an empty binary message, the module's
// wrapper for every non-binary message, the tunnel bridge adapter when nothing is
// available). The decoded sequence must not depend on where such reads fall: before a
// packet, inside the type byte / the length field, at the start of a body, after part
// of a body has arrived, several in a row.

// c01eReader replays data in scripted chunks; a chunk of size 0 is an empty read.
type c01eReader struct {
	data    []byte
	chunks  []int
	ci, off int
	empties int
	postEnd int
	bodies  [][2]int // [lo,hi): offsets that lie strictly inside a body (for the coverage counter)
	midBody int
}

func (c *c01eReader) Delivered() int { return c.off }

func (c *c01eReader) Read(p []byte) (int, error) {
	if len(p) == 0 {
		return 0, nil
	}
	for c.ci < len(c.chunks) {
		n := c.chunks[c.ci]
		if n == 0 {
			c.ci++
			c.empties++
			for _, b := range c.bodies {
				if c.off >= b[0] && c.off < b[1] {
					c.midBody++
					break
				}
			}
			return 0, nil
		}
		if c.off >= len(c.data) {
			break
		}
		if n > len(c.data)-c.off {
			n = len(c.data) - c.off
		}
		if n > len(p) {
			c.chunks[c.ci] -= len(p)
			n = len(p)
		} else {
			c.ci++
		}
		copy(p, c.data[c.off:c.off+n])
		c.off += n
		return n, nil
	}
	if c.off < len(c.data) {
		n := copy(p, c.data[c.off:])
		c.off += n
		return n, nil
	}
	c.postEnd++
	if c.postEnd > 1000 {
		panic(vk.ErrSpin)
	}
	return 0, io.EOF
}

func TestVerifC01EmptyReads(t *testing.T) {
	vk.Quiet()
	run := vk.Start(t, "C01", "empty-reads")
	defer run.Finish()
	run.Rule("sequences of 1-6 packets from the real WritePacket (same generator as the chunking monitor, bodies <= 70000), decoded by the real ReadPacket from a reader whose script contains (0,nil) reads: targeted — 1-3 empty reads in a row at every header offset of every packet (before the type byte, inside the length field, at the body start), after 1 byte / half / all but one byte of the body, at the packet end; seeded — random partitions (max chunk 1..1500) with empty reads sprinkled in at 30% of the cut points, up to 4 in a row; distinct = (type, compress, len-bucket, class); non-trivial = at least one empty read fell strictly inside a body")
	r := run.Rand("gen")
	nseq := run.Pick(150, 2500)
	for s := 0; s < nseq && run.Violations() <= 12; s++ {
		np := 1 + r.Intn(6)
		seq := make([]c01pkt, np)
		for i := range seq {
			seq[i] = c01GenPacket(r, false)
		}
		run.Case(fmt.Sprintf("empty-reads|seq%d", s), c01Describe(seq))
		wire, err := c01Encode(seq)
		if err != nil {
			run.Count("writer_refused", 1)
			continue
		}
		var mid [][2]int
		type cut struct {
			at    int
			where string
		}
		var cuts []cut
		off := 0
		for _, p := range seq {
			body := p.encLen - 5
			for d := 0; d <= 5 && d <= p.encLen; d++ {
				cuts = append(cuts, cut{off + d, []string{"before-type", "in-length", "in-length", "in-length", "in-length", "body-start"}[d]})
			}
			if body >= 2 {
				for _, d := range []int{1, body / 2, body - 1} {
					if d > 0 && d < body {
						cuts = append(cuts, cut{off + 5 + d, "inside-body"})
					}
				}
				mid = append(mid, [2]int{off + 6, off + p.encLen})
			}
			off += p.encLen
		}
		do := func(class string, chunks []int) {
			rd := &c01eReader{data: wire, chunks: append([]int(nil), chunks...), bodies: mid}
			head := chunks
			if len(head) > 40 {
				head = head[:40]
			}
			ok := c01Decode(run, seq, rd, rd.Delivered, class, func() any {
				return map[string]any{"seq_index": s, "packets": c01Describe(seq), "class": class, "chunks_head(0=empty read)": head, "wire_len": len(wire)}
			})
			run.Eval(1)
			if ok {
				run.Count("decoded_ok_runs", 1)
			}
			run.Count("empty_reads_served", int64(rd.empties))
			run.Count("empty_reads_inside_a_body", int64(rd.midBody))
			if rd.midBody > 0 {
				for _, p := range seq {
					run.Distinct(fmt.Sprintf("%s|%v|%s|%s", c01TypeName(packet.Type(p.Type)), p.Compress, c01LenBucket(len(p.Payload)), class))
				}
			}
		}
		for _, c := range cuts {
			if c.at > len(wire) {
				continue
			}
			k := 1 + r.Intn(3)
			chunks := []int{}
			if c.at > 0 {
				chunks = append(chunks, c.at)
			}
			for i := 0; i < k; i++ {
				chunks = append(chunks, 0)
			}
			if len(wire)-c.at > 0 {
				chunks = append(chunks, len(wire)-c.at)
			}
			do("empty-"+c.where, chunks)
			run.Count("targeted_"+c.where, 1)
		}
		for j := 0; j < run.Pick(4, 8); j++ {
			mc := []int{1, 2, 3, 7, 64, 1500}[r.Intn(6)]
			if len(wire)/mc > 20000 {
				mc = 1500
			}
			var chunks []int
			for _, n := range vk.RandPartition(r, len(wire), mc) {
				if r.Intn(10) < 3 {
					for k := 1 + r.Intn(4); k > 0; k-- {
						chunks = append(chunks, 0)
					}
				}
				chunks = append(chunks, n)
			}
			chunks = append(chunks, 0, 0)
			do("empty-random", chunks)
		}
	}
	run.Floor("decoded_ok_runs", 1)
	run.Floor("targeted_inside-body", int64(run.Pick(400, 6000)))
	run.Floor("targeted_in-length", int64(run.Pick(1000, 15000)))
	run.Floor("targeted_body-start", int64(run.Pick(250, 4000)))
	run.Floor("empty_reads_inside_a_body", int64(run.Pick(5000, 80000)))
}
