//go:build verif && verif_c01

package stream

import (
	"bytes"
	"context"
	"encoding/binary"
	"fmt"
	"runtime"
	"sync"
	"sync/atomic"
	"testing"

	"tunnox-core/internal/packet"
	vk "tunnox-core/internal/verifkit"
)

// Concurrent writers on ONE StreamProcessor (control connections are written by the
// command path, the keep-alive goroutine and notification pushes at the same time).
// Every WritePacket that returned nil is "a packet the writer accepted"; the byte
// stream that reached the transport must decode into exactly those packets, whole,
// in an order that preserves each writer's own order. A packet whose bytes are
// interleaved with another writer's bytes breaks the round trip and the alignment
// of everything behind it.

// c01Sink is a transport double that is safe for concurrent Write calls (as a net.Conn
// is) and yields before every Write so that a second writer can run between the type
// byte, the length field and the body of a packet.
type c01Sink struct {
	mu     sync.Mutex
	buf    bytes.Buffer
	writes int64
}

func (s *c01Sink) Write(p []byte) (int, error) {
	runtime.Gosched()
	s.mu.Lock()
	n, err := s.buf.Write(p)
	s.writes++
	s.mu.Unlock()
	runtime.Gosched()
	return n, err
}

type c01cw struct {
	writer int
	seq    int
	typ    packet.Type
	comp   bool
	rate   int64
	body   []byte
}

func c01cwBody(writer, seq, n int) []byte {
	b := make([]byte, 8+n)
	binary.BigEndian.PutUint32(b[0:4], uint32(writer))
	binary.BigEndian.PutUint32(b[4:8], uint32(seq))
	for i := 8; i < len(b); i++ {
		b[i] = byte(writer*131 + seq*31 + i)
	}
	return b
}

func TestVerifC01ConcurrentWriters(t *testing.T) {
	run := vk.Start(t, "C01", "concurrent-writers")
	defer run.Finish()
	run.Rule("2..5 goroutines write seeded packet lists (one of them heartbeats only, the others TunnelData/TunnelOpen/HandshakeResp bodies tagged writer|seq, sizes 0..70000, compression and the rate-limited path mixed in) through ONE StreamProcessor into a yielding concurrent-safe sink; the sink bytes are decoded by the real ReadPacket; distinct = (writers, type, compress, rate, len-bucket)")
	r := run.Rand("gen")
	trials := run.Pick(250, 4000)
	var overlap int64
	bad := 0
	for tr := 0; tr < trials && bad < 8; tr++ {
		nw := 2 + r.Intn(4)
		per := 4 + r.Intn(14)
		lists := make([][]c01cw, nw)
		hbWriter := r.Intn(nw) // this writer sends only heartbeats
		if r.Intn(6) == 0 {
			hbWriter = -1
		}
		for w := range lists {
			for s := 0; s < per; s++ {
				c := c01cw{writer: w, seq: s}
				if w == hbWriter || r.Intn(7) == 0 {
					c.typ = packet.Heartbeat
					c.comp = r.Intn(4) == 0
				} else {
					c.typ = []packet.Type{packet.TunnelData, packet.TunnelOpen, packet.HandshakeResp, packet.TunnelOpenAck}[r.Intn(4)]
					c.comp = r.Intn(3) == 0
					if r.Intn(4) == 0 {
						c.rate = int64(64 << 20)
					}
					n := []int{0, 1, 5, 300, 4096, 33000, 70000}[r.Intn(7)]
					c.body = c01cwBody(w, s, n)
				}
				lists[w] = append(lists[w], c)
			}
		}
		run.Case(fmt.Sprintf("cw|trial%d", tr), map[string]any{"writers": nw, "per_writer": per, "heartbeat_writer": hbWriter})
		sink := &c01Sink{}
		sp := NewStreamProcessor(bytes.NewReader(nil), sink, context.Background())
		var inflight int32
		var wg sync.WaitGroup
		start := make(chan struct{})
		accepted := make([][]c01cw, nw)
		for w := range lists {
			wg.Add(1)
			go func(w int) {
				defer wg.Done()
				<-start
				for _, c := range lists[w] {
					if atomic.AddInt32(&inflight, 1) > 1 {
						atomic.AddInt64(&overlap, 1)
					}
					_, err := sp.WritePacket(&packet.TransferPacket{PacketType: c.typ, Payload: c.body}, c.comp, c.rate)
					atomic.AddInt32(&inflight, -1)
					if err == nil {
						accepted[w] = append(accepted[w], c)
					}
				}
			}(w)
		}
		close(start)
		wg.Wait()
		sp.Close()
		sink.mu.Lock()
		wire := append([]byte(nil), sink.buf.Bytes()...)
		sink.mu.Unlock()

		// decode with the real reader
		br := bytes.NewReader(wire)
		rp := NewStreamProcessor(br, &bytes.Buffer{}, context.Background())
		next := make([]int, nw) // next expected index in accepted[w]
		hbLeft := 0
		total := 0
		for w := range accepted {
			total += len(accepted[w])
			for _, c := range accepted[w] {
				if c.typ.IsHeartbeat() {
					hbLeft++
				}
			}
		}
		witness := func(extra map[string]any) map[string]any {
			m := map[string]any{"trial": tr, "writers": nw, "per_writer": per, "heartbeat_writer": hbWriter, "wire_len": len(wire), "accepted_packets": total}
			for k, v := range extra {
				m[k] = v
			}
			return m
		}
		ok := true
		decoded := 0
		for decoded < total {
			pkt, _, err := rp.ReadPacket()
			if err != nil || pkt == nil {
				run.Violation("C01:concurrent-writers|stream-not-decodable", witness(map[string]any{"decoded_before_error": decoded, "error": fmt.Sprint(err)}))
				ok = false
				break
			}
			decoded++
			if pkt.PacketType.IsHeartbeat() {
				if hbLeft == 0 {
					run.Violation("C01:concurrent-writers|extra-heartbeat", witness(map[string]any{"at": decoded}))
					ok = false
					break
				}
				hbLeft--
				continue
			}
			if len(pkt.Payload) < 8 {
				run.Violation("C01:concurrent-writers|foreign-packet", witness(map[string]any{"at": decoded, "type": c01TypeName(pkt.PacketType), "len": len(pkt.Payload)}))
				ok = false
				break
			}
			w := int(binary.BigEndian.Uint32(pkt.Payload[0:4]))
			s := int(binary.BigEndian.Uint32(pkt.Payload[4:8]))
			if w < 0 || w >= nw {
				run.Violation("C01:concurrent-writers|foreign-packet", witness(map[string]any{"at": decoded, "writer_tag": w}))
				ok = false
				break
			}
			// skip this writer's heartbeats (they carry no tag; counted globally)
			for next[w] < len(accepted[w]) && accepted[w][next[w]].typ.IsHeartbeat() {
				next[w]++
			}
			if next[w] >= len(accepted[w]) {
				run.Violation("C01:concurrent-writers|packet-duplicated-or-invented", witness(map[string]any{"at": decoded, "writer": w, "seq": s}))
				ok = false
				break
			}
			exp := accepted[w][next[w]]
			if exp.seq != s || pkt.PacketType&0x3F != exp.typ&0x3F || !bytes.Equal(pkt.Payload, exp.body) {
				run.Violation("C01:concurrent-writers|packet-differs-or-reordered-within-writer", witness(map[string]any{"at": decoded, "writer": w, "got_seq": s, "want_seq": exp.seq, "got_type": c01TypeName(pkt.PacketType), "want_type": c01TypeName(exp.typ), "got_len": len(pkt.Payload), "want_len": len(exp.body)}))
				ok = false
				break
			}
			next[w]++
		}
		if ok {
			if hbLeft != 0 {
				run.Violation("C01:concurrent-writers|heartbeat-lost", witness(map[string]any{"missing": hbLeft}))
				ok = false
			}
			if br.Len() != 0 {
				run.Violation("C01:concurrent-writers|trailing-bytes", witness(map[string]any{"left": br.Len()}))
				ok = false
			}
		}
		rp.Close()
		if !ok {
			bad++
		}
		run.Eval(1)
		run.Count("packets_written_concurrently", int64(total))
		run.Count("transport_writes", sink.writes)
		for w := range accepted {
			for _, c := range accepted[w] {
				run.Distinct(fmt.Sprintf("w%d|%s|%v|%v|%s", nw, c01TypeName(c.typ), c.comp, c.rate != 0, c01LenBucket(len(c.body))))
			}
		}
		if tr < 2 {
			run.Sample(witness(nil))
		}
	}
	run.Count("writepacket_calls_started_while_another_in_progress", atomic.LoadInt64(&overlap))
	run.Floor("writepacket_calls_started_while_another_in_progress", int64(run.Pick(500, 8000)))
}
