//go:build verif && verif_c01

package stream

import (
	"bytes"
	"context"
	"fmt"
	"io"
	"math/rand"
	"strings"
	"testing"

	"tunnox-core/internal/constants"
	"tunnox-core/internal/packet"
	vk "tunnox-core/internal/verifkit"
)

// C01 through processors built by the repository's stream factory.
//
// DefaultStreamFactory.CreateStreamProcessor puts connection-level transforms under
// the packet writer / reader: whole-connection gzip (one GzipWriter / GzipReader for
// the life of the connection), AES-GCM chunk encryption, token-bucket rate limiting.
// The sequence clause of C01 does not stop at the first megabytes of a connection:
// long histories on ONE connection (more than MaxPacketBodySize bytes in total, many
// packets) must decode to what was written, under every transform combination and
// chunking of the transformed byte stream.
//
// Sender: factory-built processor writing into a recorder; it is closed after the last
// packet so that every transform flushes what it buffered (the end of the connection).
// Receiver: factory-built processor (same config) reading the recorded bytes through a
// chunk-controlled reader. Oracle: decoded sequence == written sequence, and after the
// last packet ReadPacket reports the end of the stream, not another packet.

type c01fCfg struct {
	Name             string
	Comp, Enc, Limit bool
}

var c01fCfgs = []c01fCfg{
	{"plain", false, false, false},
	{"gzip", true, false, false},
	{"aesgcm", false, true, false},
	{"gzip+aesgcm", true, true, false},
	{"ratelimit", false, false, true},
	{"gzip+ratelimit", true, false, true},
	{"aesgcm+ratelimit", false, true, true},
	{"gzip+aesgcm+ratelimit", true, true, true},
}

func (c c01fCfg) factory(ctx context.Context, key []byte) *DefaultStreamFactory {
	cfg := DefaultStreamFactoryConfig()
	cfg.EnableCompression = c.Comp
	cfg.EnableEncryption = c.Enc
	cfg.EnableRateLimit = c.Limit
	cfg.EncryptionKey = key
	cfg.RateLimitBytes = 1 << 50 // a rate at which the token bucket never has to wait
	return NewConfigurableStreamFactory(ctx, cfg)
}

// c01fWire sends seq through a factory-built sender and returns the connection's bytes.
func c01fWire(f *DefaultStreamFactory, seq []c01pkt) (wire []byte, refusedAt int, err error) {
	rec := vk.NewRecWriter()
	sender := f.CreateStreamProcessor(bytes.NewReader(nil), rec)
	for i := range seq {
		tp := &packet.TransferPacket{PacketType: packet.Type(seq[i].Type), Payload: seq[i].Payload, CommandPacket: seq[i].Cmd}
		if _, err := sender.WritePacket(tp, seq[i].Compress, 0); err != nil {
			sender.Close()
			return nil, i, err
		}
	}
	sender.Close() // end of the connection: transforms flush and finish
	return rec.Bytes(), -1, nil
}

// c01fDecode reads len(seq) packets from a factory-built receiver and compares.
func c01fDecode(run *vk.Run, f *DefaultStreamFactory, seq []c01pkt, wire []byte, chunks []int, sigBase string, detail func() map[string]any) bool {
	cr := vk.NewChunkReader(wire, chunks)
	cr.SpinLimit = 1000
	recv := f.CreateStreamProcessor(cr, io.Discard)
	defer recv.Close()
	ok := true
	viol := func(kind string, extra map[string]any) {
		ok = false
		d := detail()
		for k, v := range extra {
			d[k] = v
		}
		d["transformed_bytes_delivered"] = cr.Delivered()
		d["transformed_bytes_total"] = len(wire)
		if strings.Contains(sigBase, "ratelimit") {
			// Observation only. StreamFactoryConfig.EnableRateLimit is never switched on by the
			// product (the only factory built outside tests uses DefaultStreamFactoryConfig; rate
			// limits in production go through WritePacket's rateLimitBytesPerSecond argument, which
			// the chunking monitor drives). With it on, RateLimiterWriter.Write forwards at most
			// 1 KiB of each call and reports (1024, nil), which WritePacket does not retry - a
			// defect of that unused configuration, recorded in DESIGN section 11, not a verdict on C01.
			run.Count("obs_ratelimit_factory_config_roundtrip_failed", 1)
			run.Observe("obs_ratelimit_factory_config_example", map[string]any{"signature": sigBase + "|" + kind, "detail": d})
			return
		}
		run.Violation(sigBase+"|"+kind, d)
	}
	defer func() {
		if e := recover(); e != nil {
			if e == vk.ErrSpin {
				viol("spin-after-end-of-stream", map[string]any{"reads_after_end": cr.PostEnd.Load()})
				return
			}
			viol("panic", map[string]any{"panic": fmt.Sprint(e)})
		}
	}()
	plain := 0
	for i, want := range seq {
		got, _, err := recv.ReadPacket()
		wt := packet.Type(want.Type)
		at := map[string]any{"index": i, "of": len(seq), "plain_bytes_decoded_before": plain}
		if wt.IsEncrypted() && !wt.IsHeartbeat() {
			if err == nil {
				viol("encrypted-accepted", at)
				return false
			}
		} else {
			if err != nil {
				at["error"] = err.Error()
				viol("err", at)
				return false
			}
			if got == nil {
				viol("nil", at)
				return false
			}
			if got.PacketType&0x3F != wt&0x3F {
				at["got"] = fmt.Sprintf("0x%02x", byte(got.PacketType))
				viol("type-mismatch", at)
				return false
			}
			if want.Cmd != nil {
				if got.CommandPacket == nil || *got.CommandPacket != *want.Cmd {
					viol("cmd-mismatch", at)
					return false
				}
			} else if !wt.IsHeartbeat() && !bytes.Equal(got.Payload, want.Payload) {
				at["got_len"], at["want_len"] = len(got.Payload), len(want.Payload)
				viol("payload-mismatch", at)
				return false
			}
		}
		plain += 5 + len(want.Payload)
	}
	if extra, _, err := recv.ReadPacket(); err == nil {
		viol("extra-packet", map[string]any{"got_type": fmt.Sprintf("0x%02x", byte(extra.PacketType))})
		return false
	}
	return ok
}

func c01fBody(r *rand.Rand, n int, kind int) []byte {
	b := make([]byte, n)
	switch kind % 3 {
	case 0:
		r.Read(b) // incompressible
	case 1:
		for i := range b {
			b[i] = byte((i*7 + i/251) & 0xff)
		}
	default: // zeros
	}
	return b
}

type c01fHistory struct {
	Name  string
	Seq   []c01pkt
	Heavy bool // quick tier: only the configs of c01fHeavyCfgs
}

// configs the two most expensive histories run under in the quick tier
var c01fHeavyCfgs = map[string]bool{"plain": true, "gzip": true, "gzip+aesgcm": true, "gzip+ratelimit": true, "gzip+aesgcm+ratelimit": true}

func c01fHistories(run *vk.Run, r *rand.Rand) []c01fHistory {
	var hs []c01fHistory
	// (a) >= 24 packets of 1 MiB on one connection: 24 MiB in total, every body far below the cap
	{
		n := run.Pick(24, 40)
		seq := make([]c01pkt, 0, n+1)
		for i := 0; i < n; i++ {
			p := c01pkt{Type: byte(packet.TunnelData), Payload: c01fBody(r, 1<<20, i)}
			copy(p.Payload, fmt.Sprintf("packet-%04d|", i))
			seq = append(seq, p)
		}
		seq = append(seq, c01pkt{Type: byte(packet.TunnelClose), Payload: []byte("bye")})
		hs = append(hs, c01fHistory{Name: "1MiB-bodies", Seq: seq})
	}
	// (b) one maximum-size body, then ordinary packets: the total crosses Max right behind it
	{
		seq := []c01pkt{{Type: byte(packet.TunnelData), Payload: c01fBody(r, constants.MaxPacketBodySize, 1)}}
		for i := 0; i < 6; i++ {
			seq = append(seq, c01GenPacket(r, false))
		}
		seq = append(seq, c01pkt{Type: byte(packet.TunnelClose), Payload: []byte("bye")})
		for i := range seq {
			seq[i].Rate = 0
		}
		hs = append(hs, c01fHistory{Name: "max-body-then-more", Seq: seq, Heavy: true})
	}
	// (c) the total creeps over Max in mid-size steps with per-packet gzip mixed in
	{
		var seq []c01pkt
		total := 0
		for i := 0; total <= constants.MaxPacketBodySize+(3<<20); i++ {
			n := []int{65536, 300000, 32768, 1 << 19, 4097}[i%5]
			p := c01pkt{Type: byte([]packet.Type{packet.TunnelData, packet.Handshake, packet.TunnelOpen}[i%3]), Payload: c01fBody(r, n, i+1), Compress: i%4 == 0}
			seq = append(seq, p)
			total += n + 5
		}
		seq = append(seq, c01pkt{Type: byte(packet.DataStreamEOF), Payload: []byte("end")})
		hs = append(hs, c01fHistory{Name: "mid-size-steps", Seq: seq, Heavy: true})
	}
	// (d) many small packets of every kind
	{
		n := run.Pick(3000, 30000)
		seq := make([]c01pkt, n)
		for i := range seq {
			p := c01GenPacket(r, false)
			if len(p.Payload) > 5000 {
				p.Payload = p.Payload[:r.Intn(300)]
			}
			p.Rate = 0
			seq[i] = p
		}
		hs = append(hs, c01fHistory{Name: "many-small", Seq: seq})
	}
	// (e) a short ordinary sequence (the per-byte chunking is affordable here)
	{
		seq := make([]c01pkt, 12)
		for i := range seq {
			p := c01GenPacket(r, false)
			if len(p.Payload) > 300 {
				p.Payload = p.Payload[:r.Intn(300)]
			}
			p.Rate = 0
			seq[i] = p
		}
		hs = append(hs, c01fHistory{Name: "short", Seq: seq})
	}
	return hs
}

func TestVerifC01FactoryHistories(t *testing.T) {
	vk.Quiet()
	run := vk.Start(t, "C01", "factory-histories")
	defer run.Finish()
	run.Rule("processors built by DefaultStreamFactory.CreateStreamProcessor for the 8 combinations of {whole-connection gzip, AES-GCM, rate limit (rate high enough never to wait)}; ONE connection per (config, history): histories = 24 (thorough 40) packets of 1 MiB + close, a MaxPacketBodySize body followed by ordinary packets and mid-size steps (32 KiB-512 KiB, per-packet gzip mixed in) until the total passes Max + 3 MiB (these two under 5 of the 8 configs in the quick tier), 3000 (thorough 30000) small packets of every type/flag, a short sequence; sender closed after the last packet, its bytes delivered to a factory-built receiver whole / in seeded chunks (max 7, 1500, 70000) / byte by byte (short history); oracle: decoded sequence == written sequence and then end of stream; distinct = (config, history, chunking); non-trivial = the connection carried more than MaxPacketBodySize bytes")
	r := run.Rand("gen")
	key := make([]byte, 32)
	r.Read(key)
	ctx, cancel := context.WithCancel(context.Background())
	defer cancel()
	hs := c01fHistories(run, r)
	for _, h := range hs {
		plainTotal := 0
		for _, p := range h.Seq {
			plainTotal += 5 + len(p.Payload)
		}
		for _, cfg := range c01fCfgs {
			if h.Heavy && !run.Thorough() && !c01fHeavyCfgs[cfg.Name] {
				continue
			}
			f := cfg.factory(ctx, key)
			sigBase := "C01:factory|cfg=" + cfg.Name
			det := func(class string, chunks []int) func() map[string]any {
				return func() map[string]any {
					c := chunks
					if len(c) > 16 {
						c = c[:16]
					}
					pk := c01Describe(h.Seq)
					if len(pk) > 12 {
						pk = pk[:12]
					}
					return map[string]any{"config": cfg.Name, "history": h.Name, "packets": len(h.Seq), "packets_head": pk, "plain_bytes_total": plainTotal, "chunking": class, "chunks_head": c}
				}
			}
			run.Case(fmt.Sprintf("factory|%s|%s", cfg.Name, h.Name), map[string]any{"packets": len(h.Seq), "plain_bytes_total": plainTotal})
			wire, refusedAt, err := c01fWire(f, h.Seq)
			if err != nil {
				// a packet the writer refuses puts the sequence outside the property's domain
				run.Count("writer_refused", 1)
				run.Observe("writer_refused:"+cfg.Name+"/"+h.Name, map[string]any{"index": refusedAt, "error": err.Error()})
				continue
			}
			type part struct {
				class  string
				chunks []int
			}
			parts := []part{{"whole", []int{len(wire)}}}
			mc := []int{7, 1500, 70000}[r.Intn(3)]
			if len(wire)/mc > 400000 {
				mc = 1500
			}
			parts = append(parts, part{fmt.Sprintf("random<=%d", mc), vk.RandPartition(r, len(wire), mc)})
			if len(wire) <= 1<<16 {
				ones := make([]int, len(wire))
				for i := range ones {
					ones[i] = 1
				}
				parts = append(parts, part{"bytes", ones})
			}
			for _, pt := range parts {
				ok := c01fDecode(run, f, h.Seq, wire, append([]int(nil), pt.chunks...), sigBase, det(pt.class, pt.chunks))
				run.Eval(1)
				if ok {
					run.Count("decoded_ok_runs", 1)
				}
				run.Count("packets_checked", int64(len(h.Seq)))
				if plainTotal > constants.MaxPacketBodySize+1 {
					run.Count("connections_over_Max_total", 1)
					if cfg.Comp {
						run.Count("gzip_connections_over_Max_total", 1)
					}
					run.Distinct(cfg.Name + "|" + h.Name + "|" + pt.class)
				}
				if len(h.Seq) >= 1000 && cfg.Comp {
					run.Count("gzip_connections_1000_packets", 1)
				}
			}
			run.Max("max_plain_bytes_one_connection", int64(plainTotal))
			if run.Violations() > 12 {
				break
			}
		}
		if run.Violations() > 12 {
			break
		}
	}
	run.Floor("decoded_ok_runs", 1)
	run.Floor("connections_over_Max_total", 30)
	run.Floor("gzip_connections_over_Max_total", 16)
	run.Floor("gzip_connections_1000_packets", 8)
	run.Floor("max_plain_bytes_one_connection", int64(24<<20))
}
