//go:build verif && verif_c01

package stream

import (
	"bytes"
	"compress/gzip"
	"context"
	"fmt"
	"io"
	"math/rand"
	"net"
	"testing"
	"time"

	"tunnox-core/internal/constants"
	"tunnox-core/internal/packet"
	vk "tunnox-core/internal/verifkit"
)

// C01 — packet framing round-trips under any chunking of the byte stream.
//
// The real WritePacket produces the bytes; the real ReadPacket consumes them from a
// chunk-controlled reader (and from net.Pipe / loopback TCP). Oracle: decoded
// sequence == written sequence (base type, payload / CommandPacket), Encrypted
// packets are rejected but leave the stream aligned, and after the k-th ReadPacket
// exactly the encoded bytes of packets 1..k have been consumed.

type c01pkt struct {
	Type     byte
	Compress bool
	Payload  []byte
	Cmd      *packet.CommandPacket
	Rate     int64 // rateLimitBytesPerSecond handed to WritePacket (0 = unlimited path)
	encLen   int   // encoded length on the wire (measured from the writer)
}

var c01BaseTypes = []packet.Type{
	packet.Handshake, packet.HandshakeResp, packet.Heartbeat, packet.JsonCommand, packet.CommandResp,
	packet.TunnelOpen, packet.TunnelOpenAck, packet.TunnelData, packet.TunnelClose, packet.DataStreamEOF,
}

var c01Lens = []int{0, 1, 2, 3, 4, 5, 255, 256, 4095, 4096, 4097, 32767, 32768, 65536}

func c01RandString(r *rand.Rand, n int) string {
	alpha := []rune("abcXYZ019 _-{}\"\\/\n\té世界😀<>&")
	out := make([]rune, n)
	for i := range out {
		out[i] = alpha[r.Intn(len(alpha))]
	}
	return string(out)
}

// c01GzipBody returns a body that is itself a complete, valid gzip stream (what a peer
// relays when the application payload is a .gz file or an HTTP body with
// Content-Encoding: gzip). Sent with compression off it must come back byte-identical;
// sent with compression on it is compressed once more and must still come back identical.
func c01GzipBody(r *rand.Rand, n int) []byte {
	var buf bytes.Buffer
	zw := gzip.NewWriter(&buf)
	inner := make([]byte, n)
	if r.Intn(2) == 0 {
		r.Read(inner)
	}
	zw.Write(inner)
	zw.Close()
	return buf.Bytes()
}

func c01Body(r *rand.Rand, n int) []byte {
	if r.Intn(9) == 0 {
		switch r.Intn(4) {
		case 0:
			return c01GzipBody(r, n)
		case 1: // gzip magic only, not a valid stream
			return append([]byte{0x1f, 0x8b, 0x08}, make([]byte, n)...)
		case 2: // valid gzip stream followed by trailing bytes
			return append(c01GzipBody(r, n), 1, 2, 3)
		default: // two concatenated gzip members
			return append(c01GzipBody(r, n), c01GzipBody(r, n/2)...)
		}
	}
	b := make([]byte, n)
	switch r.Intn(3) {
	case 0:
		r.Read(b)
	case 1: // zeros (compress well)
	default:
		for i := range b {
			b[i] = "the quick brown fox "[i%20]
		}
	}
	return b
}

func c01GenPacket(r *rand.Rand, big bool) c01pkt {
	var p c01pkt
	t := c01BaseTypes[r.Intn(len(c01BaseTypes))]
	if r.Intn(12) == 0 {
		// arbitrary 6-bit type value (undefined types are still framed the same way)
		t = packet.Type(r.Intn(0x40))
	}
	p.Type = byte(t)
	p.Compress = r.Intn(3) == 0
	if r.Intn(4) == 0 {
		// the rate-limited write path of WritePacket (a high rate: no real waiting)
		p.Rate = int64(64<<20) << uint(r.Intn(3))
	}
	if r.Intn(25) == 0 {
		p.Type |= byte(packet.Encrypted)
	}
	if packet.Type(p.Type).IsHeartbeat() {
		return p
	}
	if packet.Type(p.Type).IsJsonCommand() || packet.Type(p.Type).IsCommandResp() {
		bl := []int{0, 1, 17, 300, 5000}[r.Intn(5)]
		p.Cmd = &packet.CommandPacket{
			CommandType: packet.CommandType(r.Intn(256)),
			CommandId:   c01RandString(r, r.Intn(20)),
			Token:       c01RandString(r, r.Intn(8)),
			SenderId:    c01RandString(r, r.Intn(8)),
			ReceiverId:  c01RandString(r, r.Intn(8)),
			CommandBody: c01RandString(r, bl),
		}
		return p
	}
	n := c01Lens[r.Intn(len(c01Lens))]
	if big && r.Intn(4) == 0 {
		n = []int{1 << 20, (1 << 20) + 1, 3 << 20}[r.Intn(3)]
	}
	p.Payload = c01Body(r, n)
	return p
}

// c01Encode uses the real writer; returns the wire bytes and fills encLen.
func c01Encode(seq []c01pkt) ([]byte, error) {
	var buf bytes.Buffer
	sp := NewStreamProcessor(bytes.NewReader(nil), &buf, context.Background())
	defer sp.Close()
	for i := range seq {
		before := buf.Len()
		tp := &packet.TransferPacket{PacketType: packet.Type(seq[i].Type), Payload: seq[i].Payload, CommandPacket: seq[i].Cmd}
		n, err := sp.WritePacket(tp, seq[i].Compress, seq[i].Rate)
		if err != nil {
			return nil, fmt.Errorf("writer refused packet %d: %w", i, err)
		}
		seq[i].encLen = buf.Len() - before
		_ = n
	}
	return append([]byte(nil), buf.Bytes()...), nil
}

type c01Source interface {
	io.Reader
}

func c01Describe(seq []c01pkt) []map[string]any {
	var out []map[string]any
	for _, p := range seq {
		m := map[string]any{"type": fmt.Sprintf("0x%02x", p.Type), "compress": p.Compress, "payload_len": len(p.Payload), "enc_len": p.encLen, "rate": p.Rate}
		if p.Cmd != nil {
			m["cmd_body_len"] = len(p.Cmd.CommandBody)
		}
		out = append(out, m)
	}
	return out
}

func c01LenBucket(n int) string {
	switch {
	case n == 0:
		return "0"
	case n < 5:
		return "1-4"
	case n < 4096:
		return "small"
	case n < 65536:
		return "mid"
	default:
		return "large"
	}
}

// c01Decode reads len(seq) packets from src and compares. delivered() reports how
// many bytes the source has handed out (nil when unknown, e.g. sockets).
func c01Decode(run *vk.Run, seq []c01pkt, src io.Reader, delivered func() int, partClass string, detail func() any) bool {
	sp := NewStreamProcessor(src, io.Discard, context.Background())
	defer sp.Close()
	consumed := 0
	sumN := 0
	// decoded packets are retained and compared again after the whole sequence was
	// read: a caller holding an earlier packet must not see it change when later
	// packets are decoded (e.g. a payload aliasing a pooled buffer)
	kept := make([]*packet.TransferPacket, len(seq))
	defer func() {
		for i, got := range kept {
			if got == nil {
				continue
			}
			want := seq[i]
			if want.Cmd != nil {
				if got.CommandPacket == nil || *got.CommandPacket != *want.Cmd {
					run.Violation("C01:retained-packet-changed|part="+partClass, map[string]any{"index": i, "kind": "cmd", "case": detail()})
					return
				}
			} else if !packet.Type(want.Type).IsHeartbeat() && !bytes.Equal(got.Payload, want.Payload) {
				run.Violation("C01:retained-packet-changed|part="+partClass, map[string]any{"index": i, "kind": "payload", "len": len(want.Payload), "case": detail()})
				return
			}
		}
	}()
	for i, want := range seq {
		got, n, err := sp.ReadPacket()
		consumed += want.encLen
		sumN += n
		wt := packet.Type(want.Type)
		sigBase := "C01:decode|part=" + partClass
		if wt.IsEncrypted() && !wt.IsHeartbeat() {
			if err == nil {
				run.Violation("C01:encrypted-accepted|part="+partClass, map[string]any{"index": i, "case": detail()})
				return false
			}
		} else {
			if err != nil {
				run.Violation(sigBase+"|err", map[string]any{"index": i, "error": err.Error(), "case": detail()})
				return false
			}
			if got == nil {
				run.Violation(sigBase+"|nil", map[string]any{"index": i, "case": detail()})
				return false
			}
			if got.PacketType&0x3F != wt&0x3F {
				run.Violation(sigBase+"|type-mismatch", map[string]any{"index": i, "got": fmt.Sprintf("0x%02x", byte(got.PacketType)), "case": detail()})
				return false
			}
			if want.Cmd != nil {
				if got.CommandPacket == nil || *got.CommandPacket != *want.Cmd {
					run.Violation(sigBase+"|cmd-mismatch", map[string]any{"index": i, "case": detail()})
					return false
				}
			} else if !wt.IsHeartbeat() {
				if !bytes.Equal(got.Payload, want.Payload) {
					run.Violation(sigBase+"|payload-mismatch", map[string]any{"index": i, "got_len": len(got.Payload), "want_len": len(want.Payload), "case": detail()})
					return false
				}
			}
			kept[i] = got
			if n != want.encLen {
				run.Violation(sigBase+"|bytecount", map[string]any{"index": i, "reported": n, "encoded": want.encLen, "case": detail()})
				return false
			}
		}
		if delivered != nil {
			if d := delivered(); d != consumed {
				run.Violation("C01:consumption|part="+partClass, map[string]any{"index": i, "delivered": d, "expected": consumed, "case": detail()})
				return false
			}
		}
	}
	// the reader must now be exactly at the end of the stream
	if delivered != nil {
		_, _, err := sp.ReadPacket()
		if err == nil {
			run.Violation("C01:extra-packet|part="+partClass, map[string]any{"case": detail()})
			return false
		}
	}
	return true
}

func c01TypeName(t packet.Type) string {
	b := t & 0x3F
	names := map[packet.Type]string{packet.Handshake: "Handshake", packet.HandshakeResp: "HandshakeResp", packet.Heartbeat: "Heartbeat",
		packet.JsonCommand: "JsonCommand", packet.CommandResp: "CommandResp", packet.TunnelOpen: "TunnelOpen", packet.TunnelOpenAck: "TunnelOpenAck",
		packet.TunnelData: "TunnelData", packet.TunnelClose: "TunnelClose", packet.DataStreamEOF: "DataStreamEOF"}
	s, ok := names[b]
	if !ok {
		s = "other"
	}
	if t.IsEncrypted() {
		s += "+enc"
	}
	return s
}

func TestVerifC01Chunking(t *testing.T) {
	run := vk.Start(t, "C01", "chunking")
	defer run.Finish()
	run.Rule("sequences of 1-8 packets from the real WritePacket (10 defined types + random 6-bit types, compression on/off, Encrypted flag occasionally, body lengths {0..65536, 1-3MiB}), decoded by the real ReadPacket under partitions: whole, 1-byte, every single cut (short streams) / seeded cuts, header-targeted cuts, seeded random partitions; distinct = (type,compress,len-bucket,partition-class); non-trivial = stream is split at least once")
	r := run.Rand("gen")
	nseq := run.Pick(250, 4000)
	maxCuts := run.Pick(48, 4096)
	nrand := run.Pick(6, 48)
	for s := 0; s < nseq; s++ {
		np := 1 + r.Intn(8)
		seq := make([]c01pkt, np)
		for i := range seq {
			seq[i] = c01GenPacket(r, run.Thorough() && s%40 == 0)
		}
		run.Case(fmt.Sprintf("seq%d", s), c01Describe(seq))
		wire, err := c01Encode(seq)
		if err != nil {
			// the writer refusing a packet puts the sequence outside the property's domain
			run.Count("writer_refused", 1)
			continue
		}
		det := func(part string, chunks []int) func() any {
			return func() any {
				c := chunks
				if len(c) > 32 {
					c = c[:32]
				}
				return map[string]any{"seq_index": s, "packets": c01Describe(seq), "partition": part, "chunks_head": c, "wire_len": len(wire)}
			}
		}
		doPart := func(class string, chunks []int) {
			cr := vk.NewChunkReader(wire, append([]int(nil), chunks...))
			ok := c01Decode(run, seq, cr, cr.Delivered, class, det(class, chunks))
			run.Eval(1)
			if ok {
				run.Count("decoded_ok_runs", 1)
			}
			for _, p := range seq {
				run.Distinct(fmt.Sprintf("%s|%v|%s|%s|rl=%v", c01TypeName(packet.Type(p.Type)), p.Compress, c01LenBucket(len(p.Payload)), class, p.Rate > 0))
				if p.Rate > 0 && len(p.Payload) > 1024 {
					run.Count("rate_limited_big_bodies", 1)
				}
			}
		}
		if s < 3 {
			run.Sample(map[string]any{"packets": c01Describe(seq), "wire_len": len(wire)})
		}
		doPart("whole", []int{len(wire)})
		if len(wire) <= 1<<16 {
			ones := make([]int, len(wire))
			for i := range ones {
				ones[i] = 1
			}
			doPart("bytes", ones)
		}
		// header-targeted cuts: inside each packet's type byte / length field / body start / body end
		off := 0
		var targeted []int
		for _, p := range seq {
			for _, d := range []int{1, 2, 3, 4, 5, 6, p.encLen - 1} {
				if d > 0 && d < p.encLen+1 && off+d < len(wire) {
					targeted = append(targeted, off+d)
				}
			}
			off += p.encLen
		}
		for _, k := range targeted {
			doPart("cut-header", []int{k, len(wire) - k})
			run.Count("cuts_in_header", 1)
		}
		// single cuts
		if len(wire)-1 <= maxCuts {
			for k := 1; k < len(wire); k++ {
				doPart("cut", []int{k, len(wire) - k})
			}
			run.Count("streams_all_cuts", 1)
		} else {
			for j := 0; j < maxCuts/4; j++ {
				k := 1 + r.Intn(len(wire)-1)
				doPart("cut", []int{k, len(wire) - k})
			}
		}
		for j := 0; j < nrand; j++ {
			mc := []int{2, 3, 7, 64, 1500, 70000}[r.Intn(6)]
			doPart("random", vk.RandPartition(r, len(wire), mc))
		}
		if run.Violations() > 12 {
			break
		}
	}
	run.Floor("decoded_ok_runs", 1)
	run.Floor("cuts_in_header", 100)
	run.Floor("rate_limited_big_bodies", 50)
}

// TestVerifC01MaxBody covers the top of the size range once per run.
func TestVerifC01MaxBody(t *testing.T) {
	run := vk.Start(t, "C01", "maxbody")
	defer run.Finish()
	run.Rule("bodies of MaxPacketBodySize-1, MaxPacketBodySize (accepted by the reader) per compressible/incompressible content, compression on/off, 64KiB-chunk and 1-cut partitions; distinct = (size,compress,content)")
	r := run.Rand("gen")
	sizes := []int{constants.MaxPacketBodySize - 1, constants.MaxPacketBodySize}
	for _, n := range sizes {
		for _, comp := range []bool{false, true} {
			for content := 0; content < 2; content++ {
				if !run.Thorough() && content == 1 && comp {
					continue
				}
				body := make([]byte, n)
				if content == 1 {
					r.Read(body)
				}
				seq := []c01pkt{{Type: byte(packet.TunnelData), Compress: comp, Payload: body}, {Type: byte(packet.TunnelClose), Payload: []byte("x")}}
				run.Case(fmt.Sprintf("max|%d|%v|%d", n, comp, content), nil)
				wire, err := c01Encode(seq)
				if err != nil {
					run.Count("writer_refused", 1)
					continue
				}
				if int(seq[0].encLen)-5 > constants.MaxPacketBodySize {
					// compressed form exceeds the limit: the reader is entitled to refuse it
					run.Count("encoded_over_limit", 1)
					continue
				}
				cr := vk.NewChunkReader(wire, vk.RandPartition(r, len(wire), 65536))
				c01Decode(run, seq, cr, cr.Delivered, "random64k", func() any { return map[string]any{"size": n, "compress": comp, "content": content} })
				run.Eval(1)
				run.Distinct(fmt.Sprintf("%d|%v|%d", n, comp, content))
				run.Sample(map[string]any{"size": n, "compress": comp, "content": content, "wire_len": len(wire)})
			}
		}
	}
}

// TestVerifC01RealConn delivers the same partitions through real net.Conn read
// semantics: net.Pipe (unbuffered, each Write is one or more Reads) and loopback TCP.
func TestVerifC01RealConn(t *testing.T) {
	run := vk.Start(t, "C01", "realconn")
	defer run.Finish()
	run.Rule("same generator; wire bytes written chunk by chunk into net.Pipe and loopback TCP (NoDelay) by a writer goroutine, decoded by the real ReadPacket on the other end; distinct = (transport,type,compress,len-bucket)")
	r := run.Rand("gen")
	nseq := run.Pick(60, 1500)
	for s := 0; s < nseq; s++ {
		np := 1 + r.Intn(6)
		seq := make([]c01pkt, np)
		for i := range seq {
			seq[i] = c01GenPacket(r, false)
		}
		wire, err := c01Encode(seq)
		if err != nil {
			continue
		}
		chunks := vk.RandPartition(r, len(wire), []int{1, 3, 9, 700, 40000}[r.Intn(5)])
		if len(chunks) > 3000 {
			chunks = vk.RandPartition(r, len(wire), 700)
		}
		for _, tr := range []string{"pipe", "tcp"} {
			run.Case(fmt.Sprintf("%s|seq%d", tr, s), c01Describe(seq))
			var rd, wr net.Conn
			if tr == "pipe" {
				rd, wr = net.Pipe()
			} else {
				ln, err := net.Listen("tcp", "127.0.0.1:0")
				if err != nil {
					t.Fatalf("listen: %v", err)
				}
				acc := make(chan net.Conn, 1)
				go func() { c, _ := ln.Accept(); acc <- c }()
				wr, err = net.Dial("tcp", ln.Addr().String())
				if err != nil {
					t.Fatalf("dial: %v", err)
				}
				rd = <-acc
				ln.Close()
				if tc, ok := wr.(*net.TCPConn); ok {
					tc.SetNoDelay(true)
				}
			}
			go func() {
				off := 0
				for _, c := range chunks {
					wr.Write(wire[off : off+c])
					off += c
				}
				wr.Close()
			}()
			rd.SetReadDeadline(time.Now().Add(60 * time.Second))
			c01Decode(run, seq, rd, nil, tr, func() any {
				return map[string]any{"transport": tr, "packets": c01Describe(seq), "nchunks": len(chunks)}
			})
			rd.Close()
			run.Eval(1)
			for _, p := range seq {
				run.Distinct(fmt.Sprintf("%s|%s|%v|%s", tr, c01TypeName(packet.Type(p.Type)), p.Compress, c01LenBucket(len(p.Payload))))
			}
		}
		if s < 2 {
			run.Sample(map[string]any{"packets": c01Describe(seq), "nchunks": len(chunks)})
		}
	}
}

// TestVerifC01SizeSweep round-trips a packet of EVERY body length in the swept set
// (followed by a sentinel packet that must stay aligned): a size-dependent fast path or
// buffer-class bound in the writer/reader shows up at exactly the sizes it mishandles.
func TestVerifC01SizeSweep(t *testing.T) {
	run := vk.Start(t, "C01", "sizesweep")
	defer run.Finish()
	run.Rule("one TunnelData packet of body length n followed by a sentinel packet, for every n in 0..4300 and +-24 around every power of two up to 1 MiB (thorough: every n in 0..70000), compression off and on (on for n<=4300 and the power-of-two windows), decoded whole and in 7-byte chunks; distinct = (n, compress)")
	sizes := map[int]bool{}
	top := run.Pick(4300, 70000)
	for n := 0; n <= top; n++ {
		sizes[n] = true
	}
	for c := 1; c <= 1<<20; c *= 2 {
		for d := -24; d <= 24; d++ {
			if c+d >= 0 {
				sizes[c+d] = true
			}
		}
	}
	count := 0
	for n := 0; n <= (1<<20)+24; n++ {
		if !sizes[n] {
			continue
		}
		for _, comp := range []bool{false, true} {
			if comp && run.Thorough() && n > 4300 && n%97 != 0 && !(n&(n-1) == 0) {
				continue
			}
			seq := []c01pkt{{Type: byte(packet.TunnelData), Compress: comp, Payload: vk.Pattern(uint64(n), 0, n)}, {Type: byte(packet.TunnelClose), Payload: []byte("sentinel")}}
			if n%3 == 1 {
				seq[0].Rate = 256 << 20 // rate-limited write path for a third of the sizes
			}
			run.Case(fmt.Sprintf("sweep|n=%d|comp=%v", n, comp), nil)
			wire, err := c01Encode(seq)
			if err != nil {
				run.Count("writer_refused", 1)
				continue
			}
			for _, part := range []string{"whole", "chunk7"} {
				chunks := []int{len(wire)}
				if part == "chunk7" {
					if n > 70000 {
						continue
					}
					chunks = nil
					for left := len(wire); left > 0; left -= 7 {
						c := 7
						if left < 7 {
							c = left
						}
						chunks = append(chunks, c)
					}
				}
				cr := vk.NewChunkReader(wire, chunks)
				nn, cc := n, comp
				c01Decode(run, seq, cr, cr.Delivered, "sweep-"+part, func() any { return map[string]any{"n": nn, "compress": cc} })
				run.Eval(1)
			}
			run.Distinct(fmt.Sprintf("%d|%v", n, comp))
			count++
		}
		if run.Violations() > 5 {
			break
		}
	}
	run.Sample(map[string]any{"sizes_swept": count})
	run.Count("sizes_swept", int64(count))
	run.Floor("sizes_swept", 8000)
}
