//go:build verif && verif_c01

package stream

import (
	"bytes"
	"context"
	"errors"
	"fmt"
	"net"
	"os"
	"testing"

	"tunnox-core/internal/packet"
	vk "tunnox-core/internal/verifkit"
)

// C01 — packets the writer ACCEPTED (WritePacket returned nil) are on the wire exactly
// once and decode to what was written, also when the transport's Write makes partial
// progress and then reports a timeout-class error (a write deadline on TCP/QUIC/KCP/
// net.Pipe with a stalling peer), or reports one without progress, and later calls
// succeed. Whether WritePacket gives up or carries on after such a Write is its own
// business; the verdict is only about the packets it reported as written. A history
// ends at the first WritePacket error (an I/O failure in the middle of a packet: the
// caller drops the connection), so nothing is claimed about bytes behind that point.

type c01tErr struct{ msg string }

func (e c01tErr) Error() string   { return e.msg }
func (e c01tErr) Timeout() bool   { return true }
func (e c01tErr) Temporary() bool { return true }

var _ net.Error = c01tErr{}

// c01tWriter is the transport double: one scripted faulty Write call, everything else
// is accepted whole. It is a correct io.Writer (n < len(p) only together with an error).
type c01tWriter struct {
	buf     []byte
	calls   int
	faultAt int     // 1-based Write call that misbehaves
	kind    string  // timeout-partial | timeout-zero | hard-partial
	frac    float64 // how far the partial write gets
	errv    error
	fired   bool
	firedN  int
	firedOf int
	firedAt int // wire offset where the faulty call started
}

func (w *c01tWriter) Write(p []byte) (int, error) {
	w.calls++
	if !w.fired && w.calls == w.faultAt {
		w.fired = true
		n := 0
		if w.kind != "timeout-zero" && len(p) > 1 {
			n = 1 + int(w.frac*float64(len(p)-1))
			if n > len(p)-1 {
				n = len(p) - 1
			}
		}
		w.firedN, w.firedOf, w.firedAt = n, len(p), len(w.buf)
		w.buf = append(w.buf, p[:n]...)
		return n, w.errv
	}
	w.buf = append(w.buf, p...)
	return len(p), nil
}

func TestVerifC01WriteTimeouts(t *testing.T) {
	vk.Quiet()
	run := vk.Start(t, "C01", "write-timeouts")
	defer run.Finish()
	run.Rule("histories of 3-8 packets (same generator as the chunking monitor, bodies <= 8 KiB) written by the real WritePacket into a transport double with ONE scripted faulty Write call at a seeded call index: partial progress n>0 then a timeout-class error (custom net.Error, *net.OpError{os.ErrDeadlineExceeded}, the same wrapped with %w), a timeout with n==0, or a hard error with n>0; all other Write calls succeed; the history stops at the first WritePacket error; expected = the packets whose WritePacket returned nil, decoded by the real ReadPacket from the first sum(returned n) bytes of the wire whole and in seeded chunks; distinct = (fault kind, error flavour, where the fault fell: type/length/body, type, compress); non-trivial = the faulty call was reached")
	r := run.Rand("gen")
	nh := run.Pick(1500, 20000)
	for h := 0; h < nh && run.Violations() <= 12; h++ {
		np := 3 + r.Intn(6)
		seq := make([]c01pkt, np)
		for i := range seq {
			p := c01GenPacket(r, false)
			if len(p.Payload) > 8192 {
				p.Payload = p.Payload[:r.Intn(8192)]
			}
			seq[i] = p
		}
		w := &c01tWriter{faultAt: 1 + r.Intn(3*np), frac: r.Float64()}
		w.kind = []string{"timeout-partial", "timeout-partial", "timeout-zero", "hard-partial"}[r.Intn(4)]
		flavour := "hard"
		switch {
		case w.kind == "hard-partial":
			w.errv = errors.New("connection reset by peer")
		default:
			switch r.Intn(3) {
			case 0:
				flavour, w.errv = "net.Error", c01tErr{"write timeout"}
			case 1:
				flavour, w.errv = "OpError-deadline", &net.OpError{Op: "write", Net: "tcp", Err: os.ErrDeadlineExceeded}
			default:
				flavour, w.errv = "wrapped", fmt.Errorf("transport: %w", &net.OpError{Op: "write", Net: "tcp", Err: os.ErrDeadlineExceeded})
			}
		}
		run.Case(fmt.Sprintf("write-timeout|h%d|%s|call%d", h, w.kind, w.faultAt), c01Describe(seq))
		sp := NewStreamProcessor(bytes.NewReader(nil), w, context.Background())
		var accepted []c01pkt
		var calls []map[string]any
		sum := 0
		failedAt := -1
		for i := range seq {
			before := len(w.buf)
			tp := &packet.TransferPacket{PacketType: packet.Type(seq[i].Type), Payload: seq[i].Payload, CommandPacket: seq[i].Cmd}
			n, err := sp.WritePacket(tp, seq[i].Compress, seq[i].Rate)
			c := map[string]any{"index": i, "type": fmt.Sprintf("0x%02x", seq[i].Type), "returned_n": n, "bytes_on_wire": len(w.buf) - before}
			if err != nil {
				c["error"] = err.Error()
				calls = append(calls, c)
				failedAt = i
				break
			}
			calls = append(calls, c)
			p := seq[i]
			p.encLen = n
			accepted = append(accepted, p)
			sum += n
		}
		sp.Close()
		run.Eval(1)
		if !w.fired {
			run.Count("fault_not_reached", 1)
			continue
		}
		where := "body"
		switch {
		case w.firedOf == 1:
			where = "type-byte"
		case w.firedOf == 4:
			where = "length-field-or-4-byte-body"
		}
		run.Count("faults_"+w.kind, 1)
		if w.firedN > 0 && w.kind == "timeout-partial" {
			run.Count("timeouts_after_partial_progress", 1)
			run.Count("timeouts_after_partial_progress_in_"+where, 1)
		}
		if failedAt >= 0 {
			run.Count("writepacket_reported_the_error", 1)
		} else {
			run.Count("writepacket_carried_on_after_the_fault", 1)
		}
		run.Count("accepted_packets_checked", int64(len(accepted)))
		wire := w.buf
		if len(wire) > sum {
			wire = wire[:sum]
		}
		class := "after-" + w.kind
		det := func() any {
			return map[string]any{"packets": c01Describe(seq), "writepacket_calls": calls, "fault": map[string]any{"kind": w.kind, "error_flavour": flavour, "write_call": w.faultAt, "accepted_bytes": w.firedN, "of": w.firedOf, "at_wire_offset": w.firedAt},
				"accepted_packets": len(accepted), "sum_of_returned_n": sum, "wire_len": len(w.buf)}
		}
		for _, chunks := range [][]int{{len(wire)}, vk.RandPartition(r, len(wire)+1, []int{3, 64, 1500}[r.Intn(3)])} {
			cr := vk.NewChunkReader(wire, chunks)
			if c01Decode(run, accepted, cr, cr.Delivered, class, det) {
				run.Count("decoded_ok_runs", 1)
			}
		}
		for _, p := range accepted {
			run.Distinct(fmt.Sprintf("%s|%s|%s|%s|%v", w.kind, flavour, where, c01TypeName(packet.Type(p.Type)), p.Compress))
		}
	}
	run.Floor("decoded_ok_runs", 1)
	run.Floor("timeouts_after_partial_progress", int64(run.Pick(400, 5000)))
	run.Floor("timeouts_after_partial_progress_in_body", int64(run.Pick(80, 1000)))
	run.Floor("timeouts_after_partial_progress_in_length-field-or-4-byte-body", int64(run.Pick(80, 1000)))
	run.Floor("faults_timeout-zero", int64(run.Pick(150, 2000)))
	run.Floor("faults_hard-partial", int64(run.Pick(150, 2000)))
}
