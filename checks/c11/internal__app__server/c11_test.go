//go:build verif && verif_c11

package server

import (
	"context"
	"encoding/json"
	"fmt"
	"regexp"
	"runtime"
	"net"
	"sort"
	"strconv"
	"strings"
	"sync"
	"testing"
	"time"

	"tunnox-core/internal/cloud/configs"
	"tunnox-core/internal/cloud/models"
	"tunnox-core/internal/cloud/repos"
	"tunnox-core/internal/cloud/services"
	"tunnox-core/internal/command"
	"tunnox-core/internal/constants"
	"tunnox-core/internal/core/storage/memory"
	"tunnox-core/internal/core/types"
	"tunnox-core/internal/packet"
	"tunnox-core/internal/protocol/session"
	"tunnox-core/internal/security"
	vk "tunnox-core/internal/verifkit"
)

// C11 — control commands act with the connection's proven identity only.
//
// The monitor drives the real SessionManager.HandlePacket -> handleCommandPacket ->
// (special cases | CommandExecutor -> registry handlers) path of a mini server that is
// wired by the server's own setupConnectionCodeCommands. A world holds victims V1
// (listen side) and V2 (target side) that share a SOCKS mapping M, V2's unused
// connection code K, one HTTP domain each (D1, D2), an unrelated authenticated client S
// with its own mapping/code/domain (MS, KS, DS), and two unauthenticated connections:
// U0 (never sent a handshake) and U1 (asked for a challenge for V1's id, never
// answered it). Every object carries unique marker strings.
//
// For every command type byte x packet type x requester x body x forged field the
// monitor executes the command and observes
//   (1) the full-store diff (QueryByPrefix("")): every changed key that mentions an
//       object must mention only objects the requester is a party to;
//   (2) everything written to the requester's transport: no marker of an object the
//       requester is no party to, unless the requester sent that marker itself;
//   (3) everything written to the other connections' transports: nothing for an
//       unauthenticated requester, nothing outside the parties of a named mapping;
//   (4) the connection registry: no identity changes, nobody else's connection closed;
//   (5) metamorphic: SenderId / ReceiverId / Token / extra id fields in the body do not
//       change the outcome for the same requester and body.

const c11BaseDomain = "tunnox.net"

// every activation (setup histories and table bodies) uses the same listen address, so a
// replay of an already consumed code is byte-for-byte the request that consumed it
const c11ActivateListen = "127.0.0.1:19000"

var c11Roles = []string{"U0", "U1", "V1", "V2", "S"}

type c11Obj struct {
	Name    string
	Parties map[string]bool
	Marks   []string
}

type c11Ident struct {
	Registered bool
	Auth       bool
	ClientID   int64
	Closed     bool
}

type c11World struct {
	t      testing.TB
	run    *vk.Run
	n      *miniNode
	cl     map[string]*miniClient
	id     map[string]int64
	secret map[string]string
	objs   []*c11Obj
	obj    map[string]*c11Obj
	M, MS  *models.PortMapping
	K, KS  *models.TunnelConnectionCode
	D      map[string]*repos.HTTPDomainMapping // D1 D2 DS
	mark   string
	snap   map[string]string
	ident  map[string]c11Ident
	repl   *strings.Replacer
	cases  int
	born   time.Time
	suffix string // appended to every signature (names the wiring the run used)
	state  c11State
	roles  []string          // every open harness connection (pumped, identity-checked)
	auth   map[string]bool   // roles whose connection is authenticated
	mapObj map[string]string // mapping id -> object name
	MH, MG *models.PortMapping // history world: migrated (L -> L2) and deleted mapping
	M0     *models.PortMapping // server-listened mapping (ListenClientID 0, HTTP), target V2
	nb     *miniNode           // second node (two-node world), else nil
	gate   *c11GateStore
	bridge *c11Bridge
	closers []func()
	execMax time.Duration // watchdog of exec (0 = 12 s)
	query  interface {
		QueryByPrefix(string, int) (map[string]string, error)
	}
}

// c11State: lifecycle state of the victims' (and S's) mapping and connection code.
type c11State struct {
	Map  string // "" = active | revoked (by a party, record kept) | expired (ExpiresAt past, still stored) | inactive
	Code string // "" = unused | revoked | expired (activation window past, record still stored) | activated
	// sequence family: requester SeqReq logged in normally, then sent a NON-completing handshake
	// (SeqKind: p1 = phase-1 only, badhmac = phase-1 + wrong answer, p1-tunnel = phase-1 as tunnel type)
	// naming client SeqName ("" = an id no client has) on the same connection
	SeqReq, SeqKind, SeqName string
	ReauthA, ReauthB         string // connection of ReauthA warmed every handler, then validly re-authenticated as ReauthB
	Redo                     bool   // create -> delete -> other party re-creates histories (see applyRedo)
	TwoNode                  bool // V2 is connected to a second node (shared store, cross-node listener/pool, recording bridge manager)
	Gate                     bool // the store is wrapped by a read gate (concurrent-requesters monitor)
	Hist                     bool // object/connection history: a migrated mapping with its ex-listener L, a deleted mapping, and
	// U2 = the first connection opened after an authenticated client W disconnected (phase-1 + failed phase-2 only)
}

var c11WorldSeq int

// c11HandledTypes: registered + special-cased command types (filled by the table test)
var c11HandledTypes []byte

func c11NewWorld(t testing.TB, run *vk.Run, extra func(w *c11World)) *c11World {
	return c11NewWorldState(t, run, extra, c11State{})
}

// applyState moves the objects into the requested lifecycle state through the
// services a party / an operator would use; records are never removed.
func (w *c11World) applyState(st c11State) (m2 map[string]string) {
	t, n := w.t, w.n
	m2 = map[string]string{}
	pms := n.CCS.GetPortMappingService()
	for _, mo := range []struct {
		m     *models.PortMapping
		party string
	}{{w.M, "V2"}, {w.MS, "S"}} {
		switch st.Map {
		case "revoked":
			if err := n.CCS.RevokeMapping(mo.m.ID, w.id[mo.party], fmt.Sprintf("client-%d", w.id[mo.party])); err != nil {
				t.Fatalf("c11: revoke mapping: %v", err)
			}
		case "expired", "inactive":
			cur, err := pms.GetPortMapping(mo.m.ID)
			if err != nil {
				t.Fatalf("c11: get mapping: %v", err)
			}
			if st.Map == "expired" {
				past := time.Now().Add(-time.Hour)
				cur.ExpiresAt = &past
			} else {
				cur.Status = models.MappingStatusInactive
			}
			if err := pms.UpdatePortMapping(cur); err != nil {
				t.Fatalf("c11: update mapping: %v", err)
			}
		}
		if st.Map != "" {
			cur, err := pms.GetPortMapping(mo.m.ID)
			if err != nil {
				t.Fatalf("c11: mapping %s not stored after entering state %q: %v", mo.m.ID, st.Map, err)
			}
			ok := (st.Map == "revoked" && cur.IsRevoked) || (st.Map == "expired" && cur.IsExpired()) || (st.Map == "inactive" && cur.Status == models.MappingStatusInactive)
			if !ok {
				t.Fatalf("c11: mapping did not reach state %q: %+v", st.Map, cur)
			}
			*mo.m = *cur
		}
	}
	for _, ko := range []struct {
		k     *models.TunnelConnectionCode
		owner string
		by    string
		name  string
	}{{w.K, "V2", "V1", "K"}, {w.KS, "S", "S", "KS"}} {
		switch st.Code {
		case "revoked":
			if err := n.CCS.RevokeConnectionCode(ko.k.Code, fmt.Sprintf("client-%d", w.id[ko.owner])); err != nil {
				t.Fatalf("c11: revoke code: %v", err)
			}
		case "expired":
			// the activation window is over but the record is still in the store (a backend
			// that has not dropped it yet): rewrite the stored record with past instants
			cur := *ko.k
			cur.CreatedAt = time.Now().Add(-2 * time.Hour)
			cur.ActivationExpiresAt = time.Now().Add(-time.Hour)
			data, _ := json.Marshal(&cur)
			for _, key := range []string{constants.KeyPrefixRuntimeConnectionCodeByCode + cur.Code, constants.KeyPrefixRuntimeConnectionCodeByID + cur.ID} {
				if err := n.Store.Set(key, string(data), time.Hour); err != nil {
					t.Fatalf("c11: rewrite code: %v", err)
				}
			}
		case "activated":
			nm, err := n.CCS.ActivateConnectionCode(&services.ActivateConnectionCodeRequest{Code: ko.k.Code, ListenClientID: w.id[ko.by], ListenAddress: c11ActivateListen})
			if err != nil {
				t.Fatalf("c11: activate code: %v", err)
			}
			m2[ko.name] = nm.ID
		}
		if st.Code != "" {
			cur, err := n.CCS.GetConnectionCode(ko.k.Code)
			if err != nil {
				t.Fatalf("c11: code not stored after entering state %q: %v", st.Code, err)
			}
			ok := (st.Code == "revoked" && cur.IsRevoked) || (st.Code == "expired" && cur.IsExpired()) || (st.Code == "activated" && cur.IsActivated)
			if !ok {
				t.Fatalf("c11: code did not reach state %q: %+v", st.Code, cur)
			}
		}
	}
	return m2
}

func c11NewWorldState(t testing.TB, run *vk.Run, extra func(w *c11World), st c11State) *c11World {
	c11WorldSeq++
	bf := &security.BruteForceConfig{MaxFailures: 100000, TimeWindow: time.Hour, BanDuration: time.Hour, PermanentBanAt: 10000000, CleanupInterval: time.Hour}
	rl := &security.RateLimitConfig{Rate: 1000000, Burst: 1000000, TTL: time.Hour}
	opts := miniOpts{BruteForce: bf, RateLimit: rl}
	var gate *c11GateStore
	var closers []func()
	if st.Gate || st.TwoNode {
		bg, cancel := context.WithCancel(context.Background())
		closers = append(closers, cancel)
		gate = &c11GateStore{Storage: memory.New(bg)}
		opts.Store = gate
	}
	n := newMiniNode(t, opts)
	var nb *miniNode
	var bridge *c11Bridge
	if st.TwoNode {
		opts.NodeID = "node-b"
		nb = newMiniNode(t, opts)
		var started bool
		for try := 0; try < 8 && !started; try++ {
			l, err := net.Listen("tcp", "127.0.0.1:0")
			if err != nil {
				continue
			}
			port := l.Addr().(*net.TCPAddr).Port
			l.Close()
			cl := session.NewCrossNodeListener(nb.SM, port)
			if err := cl.Start(nb.ctx); err != nil {
				continue
			}
			nb.SM.SetCrossNodeListener(cl)
			closers = append(closers, func() { cl.Stop() })
			if err := gate.Set("tunnox:node:node-b:addr", fmt.Sprintf("127.0.0.1:%d", port), 0); err != nil {
				t.Fatalf("c11: publish node-b address: %v", err)
			}
			started = true
		}
		if !started {
			t.Fatalf("c11: cross-node listener did not start")
		}
		pool := session.NewCrossNodePool(n.ctx, gate, n.NodeID, session.DefaultCrossNodePoolConfig())
		n.SM.SetCrossNodePool(pool)
		closers = append(closers, func() { pool.Close() })
		bridge = &c11Bridge{}
		n.SM.SetBridgeManager(bridge)
	}
	w := &c11World{t: t, run: run, n: n, nb: nb, gate: gate, bridge: bridge, closers: closers, cl: map[string]*miniClient{}, id: map[string]int64{}, secret: map[string]string{},
		obj: map[string]*c11Obj{}, D: map[string]*repos.HTTPDomainMapping{}, born: time.Now()}
	q, ok := n.Store.(interface {
		QueryByPrefix(string, int) (map[string]string, error)
	})
	if !ok {
		t.Fatalf("c11: storage %T has no QueryByPrefix", n.Store)
	}
	w.query = q
	r := run.Rand(fmt.Sprintf("world%d", c11WorldSeq))
	w.mark = fmt.Sprintf("q%07x%04x", r.Int63()&0xfffffff, c11WorldSeq&0xffff)
	w.roles = append([]string{}, c11Roles...)
	w.auth = map[string]bool{"V1": true, "V2": true, "S": true}
	w.mapObj = map[string]string{}
	first := []string{"V1", "V2", "S"}
	if st.Hist {
		first = append(first, "L", "L2", "W")
	}
	for _, role := range first {
		home := n
		if role == "V2" && nb != nil {
			home = nb // the victim on the target side lives on the other node
		}
		c := home.NewClient("")
		w.cl[role] = c
		w.id[role] = c.ClientID
		w.secret[role] = c.Secret
		if role == "L" || role == "L2" {
			w.roles = append(w.roles, role)
			w.auth[role] = true
		}
	}
	// the handshake spawns `go pushConfigToClient`; let those finish while the clients
	// still have no mappings (nothing is pushed then), so no late push lands in a case
	if !c11WaitNoGoroutine([]string{"pushConfigToClient", "handleHandshake.gowrap"}, 10*time.Second) {
		t.Fatalf("c11: setup: the post-handshake config push goroutines did not finish within 10 s") // harness/setup problem => inconclusive
	}
	w.cl["U0"] = n.MustConnect("")
	w.cl["U1"] = n.MustConnect("")
	if r1, _ := w.cl["U1"].Phase1(w.id["V1"], "control"); r1 == nil || r1.Challenge == "" {
		t.Fatalf("c11: phase-1 for U1 gave no challenge: %+v", r1)
	}
	mk := func(listen, target, tag string) *models.PortMapping {
		m, err := n.CC.CreatePortMapping(&models.PortMapping{
			Name: "name-" + tag + "-" + w.mark, ListenClientID: w.id[listen], TargetClientID: w.id[target],
			Protocol: models.ProtocolSOCKS, SourcePort: 1080, TargetHost: "th-" + tag + "-" + w.mark + ".internal", TargetPort: 1081,
			ListenAddress: "127.0.0.1:1080", TargetAddress: "socks5://ta-" + tag + "-" + w.mark + ".internal:1081",
			SecretKey: "sk-" + tag + "-" + w.mark, Status: models.MappingStatusActive, Type: models.MappingTypeAnonymous,
			Description: "desc-" + tag + "-" + w.mark,
			Config:      configs.MappingConfig{EnableCompression: true, EnableEncryption: true, EncryptionMethod: "aes-256-gcm", EncryptionKey: "ek-" + tag + "-" + w.mark, MaxConnections: 100},
		})
		if err != nil {
			t.Fatalf("c11: create mapping: %v", err)
		}
		return m
	}
	w.M = mk("V1", "V2", "m")
	w.MS = mk("S", "S", "ms")
	// a mapping whose listen side is the server itself (management-API style HTTP mapping):
	// ListenClientID == 0, the same number an unauthenticated connection carries
	w.M0 = mk("-server-", "V2", "m0")
	if w.M0.ListenClientID != 0 {
		t.Fatalf("c11: M0 listen client is %d", w.M0.ListenClientID)
	}
	w.M0.Protocol = models.ProtocolHTTP
	w.M0.TrafficStats.BytesSent, w.M0.TrafficStats.BytesReceived = 10, 10
	if err := n.CCS.GetPortMappingService().UpdatePortMapping(w.M0); err != nil {
		t.Fatalf("c11: update M0: %v", err)
	}
	var MW *models.PortMapping
	if st.Hist {
		// MH: created with listener L, then moved to L2 by the real migration operation;
		// L keeps whatever index entries the operation leaves behind and is now an EX-party
		w.MH = mk("L", "V2", "mh")
		w.MG = mk("L", "V2", "mg")
		MW = mk("W", "V2", "mw")
		if err := n.CCS.GetPortMappingService().DeletePortMapping(w.MG.ID); err != nil {
			t.Fatalf("c11: delete MG: %v", err)
		}
		if err := n.CC.MigrateClientMappings(w.id["L"], w.id["L2"]); err != nil {
			t.Fatalf("c11: migrate: %v", err)
		}
		cur, err := n.CCS.GetPortMappingService().GetPortMapping(w.MH.ID)
		if err != nil || cur.ListenClientID != w.id["L2"] {
			t.Fatalf("c11: MH not migrated: %v %+v", err, cur)
		}
		w.MH = cur
	}
	mkCode := func(owner, tag string) *models.TunnelConnectionCode {
		k, err := n.CCS.CreateConnectionCode(&services.CreateConnectionCodeRequest{TargetClientID: w.id[owner],
			TargetAddress: "tcp://ta-" + tag + "-" + w.mark + ".internal:3306", Description: "desc-" + tag + "-" + w.mark,
			CreatedBy: fmt.Sprintf("client-%d", w.id[owner])})
		if err != nil {
			t.Fatalf("c11: create code: %v", err)
		}
		return k
	}
	w.K = mkCode("V2", "k")
	w.KS = mkCode("S", "ks")
	mkDom := func(owner, tag string) *repos.HTTPDomainMapping {
		d, err := n.Domains.CreateMapping(context.Background(), w.id[owner], tag+w.mark, c11BaseDomain, "dh-"+tag+"-"+w.mark+".internal", 8080)
		if err != nil {
			t.Fatalf("c11: create domain: %v", err)
		}
		d.Description = "desc-" + tag + "-" + w.mark
		if err := n.Domains.UpdateMapping(context.Background(), d); err != nil {
			t.Fatalf("c11: update domain: %v", err)
		}
		return d
	}
	w.D["D1"] = mkDom("V1", "d1")
	w.D["D2"] = mkDom("V2", "d2")
	w.D["DS"] = mkDom("S", "ds")

	w.state = st
	activatedMappings := w.applyState(st)

	add := func(name string, parties []string, marks ...string) {
		o := &c11Obj{Name: name, Parties: map[string]bool{}, Marks: marks}
		for _, p := range parties {
			o.Parties[p] = true
		}
		w.objs = append(w.objs, o)
		w.obj[name] = o
	}
	mm := func(m *models.PortMapping, tag string) []string {
		return []string{m.ID, "name-" + tag + "-" + w.mark, "th-" + tag + "-" + w.mark, "ta-" + tag + "-" + w.mark, "sk-" + tag + "-" + w.mark, "desc-" + tag + "-" + w.mark, "ek-" + tag + "-" + w.mark}
	}
	add("M", []string{"V1", "V2"}, mm(w.M, "m")...)
	add("MS", []string{"S"}, mm(w.MS, "ms")...)
	w.mapObj[w.M.ID], w.mapObj[w.MS.ID] = "M", "MS"
	add("M0", []string{"V2"}, mm(w.M0, "m0")...)
	w.mapObj[w.M0.ID] = "M0"
	if st.Hist {
		// parties are the CURRENT ListenClientID/TargetClientID of the stored mapping
		add("MH", []string{"L2", "V2"}, mm(w.MH, "mh")...)
		add("MG", nil, mm(w.MG, "mg")...) // deleted: nobody's
		add("MW", []string{"W", "V2"}, mm(MW, "mw")...)
		w.mapObj[w.MH.ID], w.mapObj[w.MG.ID], w.mapObj[MW.ID] = "MH", "MG", "MW"
		for _, r := range []string{"L", "L2", "W"} {
			add("C:"+r, []string{r}, w.secret[r])
		}
	}
	kParties, kMarks := []string{"V2"}, []string{w.K.Code, w.K.ID, "ta-k-" + w.mark, "desc-k-" + w.mark}
	ksMarks := []string{w.KS.Code, w.KS.ID, "ta-ks-" + w.mark, "desc-ks-" + w.mark}
	if id, ok := activatedMappings["K"]; ok {
		// K was activated by V1: V1 is a party to the code's record and to the mapping it created
		kParties, kMarks = []string{"V1", "V2"}, append(kMarks, id)
	}
	if id, ok := activatedMappings["KS"]; ok {
		ksMarks = append(ksMarks, id)
	}
	add("K", kParties, kMarks...)
	add("KS", []string{"S"}, ksMarks...)
	add("D1", []string{"V1"}, w.D["D1"].ID+"\"", "d1"+w.mark, "dh-d1-"+w.mark, "desc-d1-"+w.mark)
	add("D2", []string{"V2"}, w.D["D2"].ID+"\"", "d2"+w.mark, "dh-d2-"+w.mark, "desc-d2-"+w.mark)
	add("DS", []string{"S"}, w.D["DS"].ID+"\"", "ds"+w.mark, "dh-ds-"+w.mark, "desc-ds-"+w.mark)
	add("C:V1", []string{"V1"}, w.secret["V1"])
	add("C:V2", []string{"V2"}, w.secret["V2"])
	add("C:S", []string{"S"}, w.secret["S"])

	w.buildRepl()
	if st.Hist {
		// W (authenticated, owner of MW) goes away; U2 is the very next connection to get a
		// control-connection record: it asks for a challenge for V1's id and answers it wrongly
		w.cl["W"].CloseByPeer()
		u2 := n.MustConnect("")
		w.cl["U2"] = u2
		w.roles = append(w.roles, "U2")
		if r1, _ := u2.Phase1(w.id["V1"], "control"); r1 == nil || r1.Challenge == "" {
			t.Fatalf("c11: phase-1 for U2 gave no challenge: %+v", r1)
		}
		if r2, _ := u2.Phase2(w.id["V1"], "00ff00ff", "control"); r2 != nil && r2.Success {
			t.Fatalf("c11: garbage phase-2 accepted for U2")
		}
		if u2.ServerClosedTransport() {
			t.Fatalf("c11: server closed U2 after the failed handshake; requester U2 cannot be built")
		}
		delete(w.cl, "W")
	}
	if st.SeqReq != "" {
		w.applySeq(st)
	}
	if st.Redo {
		w.applyRedo()
		w.buildRepl()
	}
	if st.ReauthA != "" {
		w.applyReauth(st.ReauthA, st.ReauthB, c11HandledTypes)
	}
	if extra != nil {
		extra(w)
	}
	// drain whatever the setup produced, then take the baseline
	for i := 0; i < 3; i++ {
		runtime.Gosched()
		for _, role := range w.roles {
			w.cl[role].DrainRaw()
		}
	}
	w.snap = w.dump()
	w.ident = w.identities()
	run.Count("worlds_built", 1)
	run.Max("goroutines_max", int64(runtime.NumGoroutine()))
	return w
}

// buildRepl: normalisation of world-specific strings -> role/object names (longest first)
func (w *c11World) buildRepl() {
	type kv struct{ k, v string }
	var pairs []kv
	for _, o := range w.objs {
		for _, m := range o.Marks {
			pairs = append(pairs, kv{strings.TrimSuffix(m, "\""), "<" + o.Name + ">"})
		}
	}
	for role, id := range w.id {
		pairs = append(pairs, kv{strconv.FormatInt(id, 10), "<id:" + role + ">"})
	}
	for role, c := range w.cl {
		pairs = append(pairs, kv{c.ConnID, "<conn:" + role + ">"})
	}
	pairs = append(pairs, kv{w.mark, "<mark>"})
	sort.Slice(pairs, func(i, j int) bool {
		if len(pairs[i].k) != len(pairs[j].k) {
			return len(pairs[i].k) > len(pairs[j].k)
		}
		return pairs[i].k < pairs[j].k
	})
	var flat []string
	for _, p := range pairs {
		if p.k != "" {
			flat = append(flat, p.k, p.v)
		}
	}
	w.repl = strings.NewReplacer(flat...)
}

func (w *c11World) addObj(name string, parties []string, marks ...string) {
	o := &c11Obj{Name: name, Parties: map[string]bool{}, Marks: marks}
	for _, p := range parties {
		o.Parties[p] = true
	}
	w.objs = append(w.objs, o)
	w.obj[name] = o
}

// must runs a setup command as role and returns the "data" object of its success response.
func (w *c11World) must(role string, ct packet.CommandType, body any) map[string]any {
	c11SetupSeq++
	cmd := &packet.CommandPacket{CommandType: ct, CommandId: fmt.Sprintf("c11-setup-%d", c11SetupSeq), CommandBody: c11J(body)}
	resp, _, err := w.cl[role].Command(cmd, 5*time.Second)
	if resp == nil {
		w.t.Fatalf("c11: setup command %d as %s: no response (%v)", ct, role, err)
	}
	var r struct {
		Success bool           `json:"success"`
		Error   string         `json:"error"`
		Data    map[string]any `json:"data"`
	}
	if e := json.Unmarshal([]byte(resp.CommandBody), &r); e != nil || !r.Success {
		w.t.Fatalf("c11: setup command %d as %s failed: %s", ct, role, resp.CommandBody)
	}
	return r.Data
}

var c11SetupSeq int

// applyRedo: multi-step object histories made through the real commands, with no
// read-type command in between: V1 creates a domain name and deletes it, V2 registers the
// same name; V1 deletes mapping M, then S activates V2's code K (a new mapping S->V2).
func (w *c11World) applyRedo() {
	sub := "re" + w.mark
	d1 := w.must("V1", packet.HTTPDomainCreate, map[string]any{"target_url": "http://dh-r1-" + w.mark + ".internal:8080", "subdomain": sub, "base_domain": c11BaseDomain, "description": "desc-r1-" + w.mark})
	id1, _ := d1["mapping_id"].(string)
	w.must("V1", packet.HTTPDomainDelete, map[string]any{"mapping_id": id1})
	w.must("V2", packet.HTTPDomainCreate, map[string]any{"target_url": "http://dh-r2-" + w.mark + ".internal:8080", "subdomain": sub, "base_domain": c11BaseDomain, "description": "desc-r2-" + w.mark})
	w.addObj("DR", []string{"V2"}, "dh-r2-"+w.mark, "desc-r2-"+w.mark)
	w.must("V1", packet.MappingDelete, map[string]any{"mapping_id": w.M.ID})
	act := w.must("S", packet.ConnectionCodeActivate, map[string]any{"code": w.K.Code, "listen_address": c11ActivateListen})
	mid, _ := act["mapping_id"].(string)
	if mid == "" {
		w.t.Fatalf("c11: redo: activation returned no mapping id: %v", act)
	}
	k := w.obj["K"]
	k.Parties["S"] = true
	k.Marks = append(k.Marks, mid)
	w.mapObj[mid] = "K"
	w.run.Count("redo_worlds_built", 1)
}

// applyReauth: the connection of role A issues one (harmless) command of every handled
// type, then completes a VALID handshake as B on the same connection (B's former
// connection is displaced); A logs in again on a fresh connection. From then on the
// first connection is B's and nothing but B's.
func (w *c11World) applyReauth(a, b string, types []byte) {
	x := w.cl[a]
	seq := 0
	for _, ct := range types {
		if ct == byte(packet.Disconnect) {
			continue
		}
		seq++
		out := w.exec(c11Case{CT: ct, PT: packet.JsonCommand, Req: a, Kind: "warmup", Forge: "none", Body: "{}"}, 900000+seq, false)
		if out.Watchdog {
			w.t.Fatalf("c11: reauth warm-up command %d hung", ct)
		}
	}
	old := w.cl[b]
	if ok, err := x.Login(w.id[b], w.secret[b], "control"); !ok {
		w.t.Fatalf("c11: reauth: login as %s on %s's connection failed: %v", b, a, err)
	}
	if old.ServerClosedTransport() {
		old.CloseByPeer() // the adapter's read loop ends and cleans up
	} else {
		old.CloseByPeer()
	}
	w.cl[b] = x
	c2 := w.n.MustConnect("")
	if ok, err := c2.Login(w.id[a], w.secret[a], "control"); !ok {
		w.t.Fatalf("c11: reauth: fresh login of %s failed: %v", a, err)
	}
	w.cl[a] = c2
	if !c11WaitNoGoroutine([]string{"pushConfigToClient", "handleHandshake.gowrap"}, 10*time.Second) {
		w.t.Fatalf("c11: reauth world: config push goroutines did not finish")
	}
	if k := w.sm(b).GetControlConnection(x.ConnID); k == nil || !k.IsAuthenticated() || k.GetClientID() != w.id[b] {
		w.t.Fatalf("c11: reauth: connection is not %s after the valid handshake", b)
	}
	w.buildRepl()
	w.run.Count("reauth_worlds_built", 1)
}

func (w *c11World) close() {
	w.n.Close()
	if w.nb != nil {
		w.nb.Close()
	}
	for i := len(w.closers) - 1; i >= 0; i-- {
		w.closers[i]()
	}
}

// sm returns the session manager of the node a role's connection is attached to.
func (w *c11World) sm(role string) *session.SessionManager { return w.cl[role].n.SM }

// c11GateStore wraps the memory store; every read first passes the hook (if armed).
type c11GateStore struct {
	*memory.Storage
	mu   sync.Mutex
	hook func(op, key string)
}

func (g *c11GateStore) pass(op, key string) {
	g.mu.Lock()
	h := g.hook
	g.mu.Unlock()
	if h != nil {
		h(op, key)
	}
}
func (g *c11GateStore) setHook(h func(op, key string)) { g.mu.Lock(); g.hook = h; g.mu.Unlock() }
func (g *c11GateStore) Get(key string) (any, error)    { g.pass("Get", key); return g.Storage.Get(key) }
func (g *c11GateStore) GetList(key string) ([]any, error) {
	g.pass("GetList", key)
	return g.Storage.GetList(key)
}
func (g *c11GateStore) GetHash(key, field string) (any, error) {
	g.pass("GetHash", key)
	return g.Storage.GetHash(key, field)
}
func (g *c11GateStore) GetAllHash(key string) (map[string]any, error) {
	g.pass("GetAllHash", key)
	return g.Storage.GetAllHash(key)
}
func (g *c11GateStore) Exists(key string) (bool, error) { g.pass("Exists", key); return g.Storage.Exists(key) }

// c11Bridge records what node A would broadcast to other nodes.
type c11Bridge struct {
	mu    sync.Mutex
	calls []map[string]any
}

func (b *c11Bridge) BroadcastTunnelOpen(req *packet.TunnelOpenRequest, target int64) error {
	b.mu.Lock()
	b.calls = append(b.calls, map[string]any{"target_client_id": target, "request": *req})
	b.mu.Unlock()
	return nil
}
func (b *c11Bridge) take() []map[string]any {
	b.mu.Lock()
	defer b.mu.Unlock()
	c := b.calls
	b.calls = nil
	return c
}
func (b *c11Bridge) Subscribe(ctx context.Context, topic string) (<-chan *session.BroadcastMessage, error) {
	return make(chan *session.BroadcastMessage), nil
}
func (b *c11Bridge) PublishMessage(ctx context.Context, topic string, payload []byte) error { return nil }
func (b *c11Bridge) GetNodeID() string                                                       { return "node-a" }
func (b *c11Bridge) NotifyTunnelReady(ctx context.Context, tunnelID, src string) error       { return nil }
func (b *c11Bridge) WaitForTunnelReady(ctx context.Context, tunnelID string) (string, error) {
	return "", fmt.Errorf("c11: not used")
}

// applySeq: an authenticated requester claims another identity with a handshake that
// never completes. Nothing was proven, so nothing may change: the connection stays the
// requester's, lookups by the named id still lead to that client's own connection,
// nobody is evicted and nobody receives anything.
func (w *c11World) applySeq(st c11State) {
	c := w.cl[st.SeqReq]
	named := int64(987654321)
	if st.SeqName != "" {
		named = w.id[st.SeqName]
	}
	ctype := "control"
	if st.SeqKind == "p1-tunnel" {
		ctype = "tunnel"
	}
	r1, _ := c.Phase1(named, ctype)
	if st.SeqKind == "badhmac" && r1 != nil && r1.Challenge != "" {
		if r2, _ := c.Phase2(named, HMACResp("not-the-secret-"+w.mark, r1.Challenge), ctype); r2 != nil && r2.Success {
			w.run.Violation("C11:unproven-handshake|after=login|variant="+st.SeqKind+"|effect=accepted", map[string]any{"world": w.describe()})
		}
	}
	if st.SeqName != "" && (r1 == nil || r1.Challenge == "") {
		w.t.Fatalf("c11: sequence world: phase-1 naming %s gave no challenge: %+v", st.SeqName, r1)
	}
	if !c11WaitNoGoroutine([]string{"pushConfigToClient", "handleHandshake.gowrap"}, 10*time.Second) {
		w.t.Fatalf("c11: sequence world: config push goroutines did not finish")
	}
	w.run.Count("sequence_worlds_built", 1)
	viol := func(effect string, extra map[string]any) {
		d := map[string]any{"world": w.describe(), "sequence": fmt.Sprintf("%s: login, then %s handshake naming %s", st.SeqReq, st.SeqKind, st.SeqName)}
		for k, v := range extra {
			d[k] = v
		}
		w.run.Violation(fmt.Sprintf("C11:unproven-handshake|after=login|variant=%s|effect=%s", st.SeqKind, effect), d)
	}
	out := &c11Outcome{}
	w.pump(out, st.SeqReq)
	runtime.Gosched()
	w.pump(out, st.SeqReq)
	for role, pk := range out.Others {
		viol("delivered", map[string]any{"recipient": role, "packets": pk})
	}
	for _, p := range out.Own {
		for _, o := range w.objs {
			if w.party(o, st.SeqReq) {
				continue
			}
			for _, m := range o.Marks {
				if !strings.HasSuffix(m, "\"") && strings.Contains(p.Body+p.Raw, m) {
					viol("leak", map[string]any{"object": o.Name, "marker": m, "packet": p})
					break
				}
			}
		}
	}
	if k := w.sm(st.SeqReq).GetControlConnection(c.ConnID); k == nil || !k.IsAuthenticated() || k.GetClientID() != w.id[st.SeqReq] {
		got := int64(-1)
		if k != nil {
			got = k.GetClientID()
		}
		viol("identity", map[string]any{"connection_now_client": got, "proven_client": w.id[st.SeqReq]})
	}
	for role := range w.auth {
		k := w.sm(role).GetControlConnectionByClientID(w.id[role])
		if k == nil || k.GetConnID() != w.cl[role].ConnID {
			viol("index", map[string]any{"lookup_of": role, "leads_to_requester_connection": k != nil && k.GetConnID() == c.ConnID})
		}
		if w.cl[role].ServerClosedTransport() {
			viol("evicted", map[string]any{"closed": role})
		}
	}
}

func (w *c11World) idRoles() []string {
	out := make([]string, 0, len(w.id))
	for r := range w.id {
		out = append(out, r)
	}
	sort.Strings(out)
	return out
}

func (w *c11World) dump() map[string]string {
	m, err := w.query.QueryByPrefix("", 0)
	if err != nil {
		w.t.Fatalf("c11: dump: %v", err)
	}
	return m
}

func (w *c11World) identities() map[string]c11Ident {
	out := map[string]c11Ident{}
	for _, role := range w.roles {
		c := w.cl[role]
		k := w.sm(role).GetControlConnection(c.ConnID)
		i := c11Ident{Closed: c.ServerClosedTransport()}
		if k != nil {
			i.Registered = true
			i.Auth = k.IsAuthenticated()
			i.ClientID = k.GetClientID()
		}
		out[role] = i
	}
	return out
}

func (w *c11World) authed(role string) bool { return w.auth[role] }

func (w *c11World) party(o *c11Obj, role string) bool { return o.Parties[role] }

var c11Digits = regexp.MustCompile(`[0-9]+`)

func (w *c11World) norm(s string) string {
	s = w.repl.Replace(s)
	s = c11Digits.ReplaceAllString(s, "#")
	if len(s) > 300 {
		s = s[:300]
	}
	return s
}

// ---------------------------------------------------------------------------------
// cases

type c11Case struct {
	CT    byte
	PT    packet.Type
	Req   string
	Kind  string // body kind: aimA aimB default empty malformed...
	Body  string
	Forge string
}

type c11Pkt struct {
	PT   byte   `json:"pt"`
	CT   byte   `json:"ct"`
	ID   string `json:"id,omitempty"`
	Body string `json:"body,omitempty"`
	Raw  string `json:"payload,omitempty"`
}

type c11Change struct {
	Key     string   `json:"key"`
	Op      string   `json:"op"`
	Old     string   `json:"old,omitempty"`
	New     string   `json:"new,omitempty"`
	Objs    []string `json:"objs,omitempty"`
	Clients []string `json:"clients,omitempty"`
}

type c11Outcome struct {
	SendErr  string              `json:"send_err,omitempty"`
	Own      []c11Pkt            `json:"own,omitempty"`
	Others   map[string][]c11Pkt `json:"others,omitempty"`
	Changes  []c11Change         `json:"changes,omitempty"`
	IdentChg []string            `json:"ident_changes,omitempty"`
	Watchdog bool                `json:"watchdog,omitempty"`
	Answered int                 `json:"auto_answered,omitempty"`
	Broadcasts []map[string]any  `json:"cross_node_broadcasts,omitempty"`
	Success  bool                `json:"-"`
	HasResp  bool                `json:"-"`
	dirty    bool
}

var c11Names = map[byte]string{
	10: "Connect", 11: "Disconnect", 12: "Reconnect", 13: "HeartbeatCmd", 14: "KickClient", 15: "ServerShutdown",
	20: "TcpMapCreate", 25: "HttpMapCreate", 30: "SocksMapCreate", 35: "TunnelOpenRequestCmd", 36: "TunnelMigrate", 38: "TunnelStateSync",
	40: "DataTransferStart", 43: "ProxyForward", 44: "DataTransferOut", 50: "ConfigGet", 51: "ConfigSet", 52: "StatsGet", 60: "RpcInvoke",
	70: "ConnectionCodeGenerate", 71: "ConnectionCodeList", 72: "ConnectionCodeActivate", 73: "ConnectionCodeRevoke",
	74: "MappingList", 75: "MappingGet", 76: "MappingDelete", 80: "HTTPProxyRequest", 81: "HTTPProxyResponse",
	82: "HTTPDomainGetBaseDomains", 83: "HTTPDomainCheckSubdomain", 84: "HTTPDomainGenSubdomain", 85: "HTTPDomainCreate",
	86: "HTTPDomainDelete", 87: "HTTPDomainList", 90: "SOCKS5TunnelRequest", 100: "NotifyClient", 101: "NotifyClientAck",
	102: "SendNotifyToClient", 110: "TunnelTrafficReport", 120: "DNSResolve", 121: "DNSQuery",
}

func c11CmdName(ct byte, pt packet.Type) string {
	n, ok := c11Names[ct]
	if !ok {
		n = "other" // unregistered types share one class: keeps the signature set small
	}
	// handleCommandPacket treats JsonCommand and CommandResp alike except for these types
	if pt.IsCommandResp() && (ct == byte(packet.HTTPProxyResponse) || ct == byte(packet.DNSResolve) || ct == byte(packet.DNSQuery)) {
		n += "/resp"
	}
	return n
}

func c11J(v any) string { b, _ := json.Marshal(v); return string(b) }

// aimed objects of a body kind for a requester: group A = the victims' objects,
// group B = S's objects. Within A the domain is the one the requester does not own.
func (w *c11World) aim(kind, req string) (m *models.PortMapping, k *models.TunnelConnectionCode, d *repos.HTTPDomainMapping, target int64) {
	if strings.HasPrefix(kind, "aimB") {
		return w.MS, w.KS, w.D["DS"], w.id["S"]
	}
	if strings.HasPrefix(kind, "aim0") {
		return w.M0, w.K, w.D["D1"], w.id["V2"]
	}
	if strings.HasPrefix(kind, "aimH") {
		return w.MH, w.K, w.D["D1"], w.id["V2"]
	}
	if strings.HasPrefix(kind, "aimG") {
		return w.MG, w.K, w.D["D1"], w.id["V2"]
	}
	d = w.D["D1"]
	if req == "V1" {
		d = w.D["D2"]
	}
	return w.M, w.K, d, w.id["V2"]
}

// bodies returns (kind, body) pairs for a command type. Well-formed bodies follow
// what each handler unmarshals; unknown types get a generic body naming everything.
func (w *c11World) bodies(ct byte, pt packet.Type, req string, thorough bool, seq int) [][2]string {
	var out [][2]string
	wf := func(kind string) string {
		m, k, d, target := w.aim(kind, req)
		switch packet.CommandType(ct) {
		case packet.ConnectionCodeGenerate:
			return c11J(map[string]any{"target_address": fmt.Sprintf("tcp://gen-%d.example:80", seq), "activation_ttl": 600, "mapping_ttl": 3600, "description": "gen"})
		case packet.ConnectionCodeList, packet.ConfigGet, packet.HTTPDomainGetBaseDomains, packet.HTTPDomainList:
			return "{}"
		case packet.ConnectionCodeActivate:
			return c11J(map[string]any{"code": k.Code, "listen_address": c11ActivateListen})
		case packet.MappingList:
			return c11J(map[string]any{"direction": "", "status": ""})
		case packet.MappingGet, packet.MappingDelete:
			return c11J(map[string]any{"mapping_id": m.ID})
		case packet.HTTPDomainCheckSubdomain:
			return c11J(map[string]any{"subdomain": d.Subdomain, "base_domain": c11BaseDomain})
		case packet.HTTPDomainGenSubdomain:
			return c11J(map[string]any{"base_domain": c11BaseDomain})
		case packet.HTTPDomainCreate:
			return c11J(map[string]any{"target_url": "http://newhost.internal:8080", "subdomain": fmt.Sprintf("new%dx%s", seq, w.mark), "base_domain": c11BaseDomain, "description": "new"})
		case packet.HTTPDomainDelete:
			return c11J(map[string]any{"mapping_id": d.ID})
		case packet.SOCKS5TunnelRequestCmd:
			return c11J(map[string]any{"tunnel_id": fmt.Sprintf("tun-%d", seq), "mapping_id": m.ID, "target_client_id": target, "target_host": "probe.example", "target_port": 443, "protocol": "tcp"})
		case packet.TunnelTrafficReport:
			return c11J(map[string]any{"mapping_id": m.ID, "bytes_sent": int64(1) << 40, "bytes_received": 7, "connections": 1, "timestamp": 1})
		case packet.DNSResolve:
			if pt.IsCommandResp() {
				return c11J(map[string]any{"success": true, "ips": []string{"6.6.6.6"}, "ttl": 60})
			}
			return c11J(map[string]any{"domain": "probe.example", "qtype": 1, "target_client_id": target})
		case packet.DNSQuery:
			if pt.IsCommandResp() {
				return c11J(map[string]any{"query_id": "q", "success": true, "raw_answer": "AAAA"})
			}
			return c11J(map[string]any{"query_id": fmt.Sprintf("q-%d", seq), "target_client_id": target, "dns_server": "8.8.8.8:53", "raw_query": "AAAA"})
		case packet.HTTPProxyResponse:
			return c11J(map[string]any{"request_id": fmt.Sprintf("hp-%d", seq), "status_code": 200, "body": "eA=="})
		case packet.SendNotifyToClient:
			return c11J(map[string]any{"target_client_id": target, "type": 6, "payload": `{"title":"alert","message":"c11"}`, "priority": 3})
		case packet.NotifyClientAck:
			return c11J(map[string]any{"notify_id": "n-1", "received": true, "processed": true})
		case packet.RpcInvoke:
			return c11J(map[string]any{"method": "mapping.delete", "params": map[string]any{"mapping_id": m.ID}})
		}
		// generic: every id a careless future handler might trust
		return c11J(map[string]any{"mapping_id": m.ID, "code": k.Code, "target_client_id": target, "client_id": target,
			"listen_client_id": target, "tunnel_id": fmt.Sprintf("tun-%d", seq), "subdomain": d.Subdomain, "base_domain": c11BaseDomain,
			"reason": "c11", "bytes_sent": 1 << 20, "domain": "probe.example", "notify_id": "n"})
	}
	out = append(out, [2]string{"aimA", wf("aimA")}, [2]string{"aimB", wf("aimB")})
	// same bodies with every receiver/identity-looking body field naming a client that is
	// NO party to the aimed mapping (and is not the requester): for commands that name a
	// mapping the mapping decides who is reached, never the body
	out = append(out, [2]string{"aim0", wf("aim0")})
	if c11IsHandled(ct) {
		// optional/extra body members naming objects: the handler's own body plus every
		// object-id-looking field aimed at the victims' / at S's objects
		out = append(out, [2]string{"aimA-oids", w.mergeObjIDs(wf("aimA"), "aimA", req)}, [2]string{"aimB-oids", w.mergeObjIDs(wf("aimB"), "aimB", req)})
		// duplicate / case-variant keys: every member whose value differs between the request
		// aimed at the requester's own objects and the one aimed at foreign objects appears
		// twice — exact spelling with the own value, another casing with the foreign value —
		// in both orders (decoders differ in which duplicate and which casing they honour)
		ownKind, foreignKind := "aimA", "aimB"
		if req == "S" {
			ownKind, foreignKind = "aimB", "aimA"
		}
		own, foreign := w.mergeObjIDs(wf(ownKind), ownKind, req), w.mergeObjIDs(wf(foreignKind), foreignKind, req)
		out = append(out, [2]string{"dup-own-first", c11DupKeys(own, foreign, true)}, [2]string{"dup-foreign-first", c11DupKeys(own, foreign, false)})
	}
	if w.MH != nil {
		out = append(out, [2]string{"aimH", wf("aimH")}, [2]string{"aimG", wf("aimG")})
	}
	out = append(out, [2]string{"aimA-xids", c11OverrideIDs(wf("aimA"), w.id[w.thirdParty("aimA", req)])},
		[2]string{"aimB-xids", c11OverrideIDs(wf("aimB"), w.id[w.thirdParty("aimB", req)])})
	if (ct == byte(packet.DNSResolve) || ct == byte(packet.DNSQuery)) && !pt.IsCommandResp() {
		var b string
		if ct == byte(packet.DNSResolve) {
			b = c11J(map[string]any{"domain": "probe.example", "qtype": 1, "target_client_id": -1})
		} else {
			b = c11J(map[string]any{"query_id": fmt.Sprintf("q-%d", seq), "target_client_id": -1, "dns_server": "8.8.8.8:53", "raw_query": "AAAA"})
		}
		out = append(out, [2]string{"default", b})
	}
	out = append(out, [2]string{"empty", ""}, [2]string{"malformed", `{"mapping_id":`})
	if thorough {
		a := wf("aimA")
		out = append(out,
			[2]string{"malformed-types", `{"mapping_id":12,"code":[],"target_client_id":"x","subdomain":{},"bytes_sent":"9"}`},
			[2]string{"malformed-binary", "\x00\xff\xfe{"},
			[2]string{"malformed-array", "[" + a + "]"},
			[2]string{"malformed-trailing", a + "}"})
	}
	return out
}

// forged returns a command packet for the case. The forged identity is a client the
// requester is not: the owner of the aimed object where possible.
func (w *c11World) forgeAs(cs c11Case) (victim, other string) {
	order := []string{"V1", "V2", "S"}
	if strings.HasPrefix(cs.Kind, "aimB") {
		order = []string{"S", "V2", "V1"}
	} else if cs.Req == "V1" {
		order = []string{"V2", "S", "V1"}
	}
	var pick []string
	for _, r := range order {
		if r != cs.Req {
			pick = append(pick, r)
		}
	}
	return pick[0], pick[1]
}

func (w *c11World) packetFor(cs c11Case, seq int) *packet.CommandPacket {
	cmd := &packet.CommandPacket{CommandType: packet.CommandType(cs.CT), CommandId: fmt.Sprintf("c11-%d-%d", c11WorldSeq, seq), CommandBody: cs.Body}
	victim, other := w.forgeAs(cs)
	ids := func() {
		cmd.SenderId = strconv.FormatInt(w.id[victim], 10)
		cmd.ReceiverId = strconv.FormatInt(w.id[other], 10)
	}
	switch cs.Forge {
	case "none":
	case "ids":
		ids()
	case "ids-swapped":
		cmd.SenderId = strconv.FormatInt(w.id[other], 10)
		cmd.ReceiverId = strconv.FormatInt(w.id[victim], 10)
	case "token":
		cmd.Token = w.secret[victim]
	case "token-id":
		cmd.Token = strconv.FormatInt(w.id[victim], 10)
	case "bodyids":
		cmd.CommandBody = c11MergeIDs(cs.Body, w.id[victim], w.id[other])
	case "all":
		ids()
		cmd.Token = w.secret[victim]
		cmd.CommandBody = c11MergeIDs(cs.Body, w.id[victim], w.id[other])
	}
	return cmd
}

// thirdParty: a client that is not a party to the mapping of the aim group and is not
// the requester (M: parties V1,V2 -> S, or V1 when S asks; MS: party S -> V1, or V2).
func (w *c11World) thirdParty(kind, req string) string {
	if strings.HasPrefix(kind, "aimB") {
		if req == "V1" {
			return "V2"
		}
		return "V1"
	}
	if req == "S" {
		return "V1"
	}
	return "S"
}

// c11OverrideIDs sets every receiver/identity-looking field of a JSON object body.
func c11OverrideIDs(body string, third int64) string {
	var m map[string]any
	if err := json.Unmarshal([]byte(body), &m); err != nil || m == nil {
		return body
	}
	for _, k := range []string{"target_client_id", "client_id", "listen_client_id", "receiver_id", "receiver_client_id",
		"to_client_id", "dest_client_id", "peer_client_id", "source_client_id", "sender_client_id", "owner_client_id"} {
		m[k] = third
	}
	return c11J(m)
}

// c11DupKeys builds a raw JSON object (key order matters) from two object bodies.
func c11DupKeys(own, foreign string, ownFirst bool) string {
	var o, f map[string]json.RawMessage
	if json.Unmarshal([]byte(own), &o) != nil || json.Unmarshal([]byte(foreign), &f) != nil {
		return own
	}
	keys := make([]string, 0, len(o))
	for k := range o {
		keys = append(keys, k)
	}
	sort.Strings(keys)
	var exact, variant []string
	for _, k := range keys {
		exact = append(exact, fmt.Sprintf("%q:%s", k, o[k]))
		if fv, ok := f[k]; ok && string(fv) != string(o[k]) {
			alt := strings.ToUpper(k[:1]) + k[1:]
			if !ownFirst {
				alt = strings.ToUpper(k)
			}
			variant = append(variant, fmt.Sprintf("%q:%s", alt, fv))
		}
	}
	if ownFirst {
		return "{" + strings.Join(append(exact, variant...), ",") + "}"
	}
	return "{" + strings.Join(append(variant, exact...), ",") + "}"
}

func c11IsHandled(ct byte) bool {
	if c11HandledTypes == nil {
		return true
	}
	for _, h := range c11HandledTypes {
		if h == ct {
			return true
		}
	}
	return false
}

// mergeObjIDs adds object-id-looking members (only keys the body does not have yet).
func (w *c11World) mergeObjIDs(body, kind, req string) string {
	var m map[string]any
	if err := json.Unmarshal([]byte(body), &m); err != nil || m == nil {
		return body
	}
	mp, k, d, _ := w.aim(kind, req)
	for key, v := range map[string]any{"mapping_id": mp.ID, "mapping_ids": []string{mp.ID}, "id": mp.ID, "mapping": mp.ID, "port_mapping_id": mp.ID,
		"code": k.Code, "connection_code": k.Code, "code_id": k.ID, "domain_mapping_id": d.ID, "domain_id": d.ID, "full_domain": d.FullDomain,
		"filter": map[string]any{"mapping_id": mp.ID, "code": k.Code}, "include": []string{mp.ID, k.ID, d.ID}} {
		if _, ok := m[key]; !ok {
			m[key] = v
		}
	}
	return c11J(m)
}

// c11MergeIDs adds identity-looking fields to a JSON object body (only keys that are
// not already there, so the handler's own addressing fields keep their meaning).
func c11MergeIDs(body string, victim, other int64) string {
	var m map[string]any
	if body == "" {
		m = map[string]any{}
	} else if err := json.Unmarshal([]byte(body), &m); err != nil || m == nil {
		return body
	}
	for k, v := range map[string]any{"client_id": victim, "sender_id": victim, "source_client_id": victim, "owner_client_id": victim,
		"listen_client_id": victim, "target_client_id": other, "user_id": fmt.Sprintf("client-%d", victim), "created_by": fmt.Sprintf("client-%d", victim),
		"authenticated": true, "is_authenticated": true} {
		if _, ok := m[k]; !ok {
			m[k] = v
		}
	}
	return c11J(m)
}

// pump reads everything the server wrote to any harness end, records it, and plays
// the target client for DNS forwards (so the 5 s forwarder wait never elapses).
func (w *c11World) pump(out *c11Outcome, req string) {
	for _, role := range w.roles {
		c := w.cl[role]
		for i := 0; i < 64 && c.hc.Pending() > 0; i++ {
			p := c.RecvNow()
			if p == nil {
				break
			}
			rec := c11Pkt{PT: byte(p.PacketType)}
			if p.CommandPacket != nil {
				rec.CT = byte(p.CommandPacket.CommandType)
				rec.ID = p.CommandPacket.CommandId
				rec.Body = p.CommandPacket.CommandBody
			} else {
				rec.Raw = string(p.Payload)
			}
			if role == req {
				out.Own = append(out.Own, rec)
			} else {
				if out.Others == nil {
					out.Others = map[string][]c11Pkt{}
				}
				out.Others[role] = append(out.Others[role], rec)
			}
			if p.PacketType.IsJsonCommand() && p.CommandPacket != nil {
				var body string
				switch p.CommandPacket.CommandType {
				case packet.DNSResolve:
					body = `{"success":true,"ips":["192.0.2.7"],"ttl":60}`
				case packet.DNSQuery:
					body = `{"query_id":"auto","success":true,"raw_answer":"QUFBQQ=="}`
				}
				if body != "" {
					out.Answered++
					_ = c.Send(&packet.TransferPacket{PacketType: packet.CommandResp, CommandPacket: &packet.CommandPacket{
						CommandType: p.CommandPacket.CommandType, CommandId: p.CommandPacket.CommandId, CommandBody: body}})
				}
			}
		}
	}
}

// c11WaitNoGoroutine waits (bounded) until no goroutine has fn on its stack.
func c11WaitNoGoroutine(fns []string, max time.Duration) bool {
	buf := make([]byte, 1<<20)
	deadline := time.Now().Add(max)
	for {
		n := runtime.Stack(buf, true)
		for n == len(buf) && len(buf) < 64<<20 {
			buf = make([]byte, 2*len(buf))
			n = runtime.Stack(buf, true)
		}
		found := false
		for _, fn := range fns {
			if strings.Contains(string(buf[:n]), fn) {
				found = true
			}
		}
		if !found {
			return true
		}
		if time.Now().After(deadline) {
			return false
		}
		time.Sleep(100 * time.Microsecond)
	}
}

// c11Elems splits a JSON array value into its elements.
func c11Elems(v string) ([]string, bool) {
	if !strings.HasPrefix(v, "[") {
		return nil, false
	}
	var arr []json.RawMessage
	if json.Unmarshal([]byte(v), &arr) != nil {
		return nil, false
	}
	out := make([]string, len(arr))
	for i, e := range arr {
		out[i] = string(e)
	}
	return out, true
}

// c11ChangedPart: for list-valued keys (global and per-client indexes) only the
// elements that were added/removed are attributed, not the untouched neighbours.
func c11ChangedPart(o, n string) (string, string) {
	oe, ok1 := c11Elems(o)
	ne, ok2 := c11Elems(n)
	if !(ok1 || o == "") || !(ok2 || n == "") || (o == "" && n == "") {
		return o, n
	}
	cnt := map[string]int{}
	for _, e := range oe {
		cnt[e]++
	}
	var added, removed []string
	for _, e := range ne {
		if cnt[e] > 0 {
			cnt[e]--
		} else {
			added = append(added, e)
		}
	}
	for _, e := range oe {
		if cnt[e] > 0 {
			cnt[e]--
			removed = append(removed, e)
		}
	}
	return strings.Join(removed, "\x01"), strings.Join(added, "\x01")
}

func c11WordContains(text, num string) bool {
	for off := 0; ; {
		i := strings.Index(text[off:], num)
		if i < 0 {
			return false
		}
		s, e := off+i, off+i+len(num)
		before := s == 0 || text[s-1] < '0' || text[s-1] > '9'
		after := e == len(text) || text[e] < '0' || text[e] > '9'
		if before && after {
			return true
		}
		off = s + 1
	}
}

// volatile keys: node-global counters and id pools that any accepted command or
// created object advances; they name no client and no object.
func c11Ignorable(key string) bool {
	for _, p := range c11IgnorePrefixes {
		if strings.HasPrefix(key, p) {
			return true
		}
	}
	return false
}

var c11IgnorePrefixes = []string{
	"tunnox:http_domain:next_id", // HTTPDomainCreate draws an id before it validates the owner; names nobody
}

func c11Clip(s string) string {
	if len(s) > 1500 {
		return s[:1500] + "...(clipped)"
	}
	return s
}

func (w *c11World) diff(after map[string]string) []c11Change {
	var out []c11Change
	see := func(key, op, o, n string) {
		if c11Ignorable(key) {
			return
		}
		po, pn := c11ChangedPart(o, n)
		ch := c11Change{Key: key, Op: op, Old: c11Clip(po), New: c11Clip(pn)}
		text := key + "\x00" + po + "\x00" + pn
		for _, ob := range w.objs {
			for _, m := range ob.Marks {
				if strings.Contains(text, m) || (strings.HasSuffix(m, "\"") && strings.HasSuffix(key, strings.TrimSuffix(m, "\""))) {
					ch.Objs = append(ch.Objs, ob.Name)
					break
				}
			}
		}
		for _, role := range w.idRoles() {
			if c11WordContains(text, strconv.FormatInt(w.id[role], 10)) {
				ch.Clients = append(ch.Clients, role)
			}
		}
		out = append(out, ch)
	}
	for k, v := range after {
		if o, ok := w.snap[k]; !ok {
			see(k, "add", "", v)
		} else if o != v {
			see(k, "mod", o, v)
		}
	}
	for k, o := range w.snap {
		if _, ok := after[k]; !ok {
			see(k, "del", o, "")
		}
	}
	sort.Slice(out, func(i, j int) bool { return out[i].Key < out[j].Key })
	return out
}

func (w *c11World) exec(cs c11Case, seq int, settle bool) *c11Outcome {
	out := &c11Outcome{}
	cmd := w.packetFor(cs, seq)
	c := w.cl[cs.Req]
	done := make(chan string, 1)
	go func() {
		defer func() {
			if e := recover(); e != nil {
				done <- fmt.Sprintf("PANIC: %v", e)
			}
		}()
		if err := c.Send(&packet.TransferPacket{PacketType: cs.PT, CommandPacket: cmd}); err != nil {
			done <- err.Error()
		} else {
			done <- ""
		}
	}()
	max := w.execMax
	if max == 0 {
		max = 12 * time.Second
	}
	deadline := time.Now().Add(max)
	finished := false
	for !finished {
		select {
		case e := <-done:
			out.SendErr = e
			finished = true
		case <-time.After(200 * time.Microsecond):
			w.pump(out, cs.Req)
			if time.Now().After(deadline) {
				out.Watchdog = true
				out.dirty = true
				finished = true
			}
		}
	}
	if settle {
		// one-way handlers run on their own goroutine after Execute returned
		for i := 0; i < 20; i++ {
			runtime.Gosched()
		}
		time.Sleep(2 * time.Millisecond)
	}
	if cs.CT == byte(packet.ConnectionCodeList) && w.execMax == 0 {
		// the owner's list call garbage-collects its expired codes on a goroutine of its own
		// (conncode.ListConnectionCodesByTargetClient); let it finish inside this case
		if !c11WaitNoGoroutine([]string{"ListConnectionCodesByTargetClient"}, 10*time.Second) {
			out.Watchdog = true
		}
	}
	w.pump(out, cs.Req)
	runtime.Gosched()
	w.pump(out, cs.Req)

	if w.bridge != nil {
		out.Broadcasts = w.bridge.take()
	}
	after := w.dump()
	out.Changes = w.diff(after)
	w.snap = after
	id2 := w.identities()
	for _, role := range w.roles {
		if a, b := w.ident[role], id2[role]; a != b {
			out.IdentChg = append(out.IdentChg, fmt.Sprintf("%s:%+v->%+v", role, a, b))
		}
	}
	w.ident = id2
	if len(out.Changes) > 0 || len(out.IdentChg) > 0 {
		out.dirty = true
	}
	for _, p := range out.Own {
		if packet.Type(p.PT).IsCommandResp() && p.ID == cmd.CommandId {
			out.HasResp = true
			var r struct {
				Success bool `json:"success"`
			}
			if json.Unmarshal([]byte(p.Body), &r) == nil && r.Success {
				out.Success = true
			}
		}
	}
	return out
}

func (w *c11World) reqClass(cs c11Case, o *c11Obj) string {
	if !w.authed(cs.Req) {
		return "unauth"
	}
	if o != nil && !w.party(o, cs.Req) {
		return "stranger"
	}
	return "party"
}

// activation: a connection code is a bearer credential ("anyone who knows the code
// may use it", models.CanBeActivatedBy) — an authenticated requester that presents
// the code becomes a party to it and to the mapping it creates.
func (w *c11World) bearer(cs c11Case, sent string) map[string]bool {
	out := map[string]bool{}
	if cs.CT != byte(packet.ConnectionCodeActivate) || !w.authed(cs.Req) {
		return out
	}
	// only a code that is still usable confers anything; re-presenting a consumed, revoked
	// or expired code makes nobody a party
	usable := w.state.Code == "" && !w.state.Redo
	if usable && strings.Contains(sent, w.K.Code) {
		out["K"] = true
	}
	if (usable || w.state.Redo) && strings.Contains(sent, w.KS.Code) {
		out["KS"] = true
	}
	return out
}

func (w *c11World) sharesMapping(a, b string) bool {
	for _, name := range w.mapObj {
		if w.obj[name].Parties[a] && w.obj[name].Parties[b] {
			return true
		}
	}
	return false
}

// judge applies oracles (1)-(4) to one executed case.
func (w *c11World) judge(cs c11Case, cmd *packet.CommandPacket, out *c11Outcome) {
	run := w.run
	name := c11CmdName(cs.CT, cs.PT) + w.suffix
	sent := cmd.CommandBody + "\x00" + cmd.Token + "\x00" + cmd.SenderId + "\x00" + cmd.ReceiverId
	bearer := w.bearer(cs, sent)
	detail := func(extra map[string]any) map[string]any {
		d := map[string]any{"world": w.describe(), "case": map[string]any{"command_type": cs.CT, "command": name, "packet_type": byte(cs.PT), "requester": cs.Req,
			"body_kind": cs.Kind, "forge": cs.Forge, "CommandBody": cmd.CommandBody, "SenderId": cmd.SenderId, "ReceiverId": cmd.ReceiverId, "Token": cmd.Token},
			"outcome": out}
		for k, v := range extra {
			d[k] = v
		}
		return d
	}
	if strings.HasPrefix(out.SendErr, "PANIC") {
		run.Violation("C11:panic|cmd="+name, detail(nil))
	}
	// (1) store effects
	for _, ch := range out.Changes {
		if len(ch.Objs) > 0 {
			for _, on := range ch.Objs {
				o := w.obj[on]
				if w.party(o, cs.Req) || bearer[on] {
					run.Count("effects_by_party", 1)
					continue
				}
				if len(bearer) > 0 && strings.HasPrefix(on, "C:") {
					continue
				}
				run.Violation(fmt.Sprintf("C11:effect|cmd=%s|requester=%s", name, w.reqClass(cs, o)), detail(map[string]any{"object": on, "change": ch}))
			}
			continue
		}
		// no object named: client-level state (indexes, quotas, runtime records)
		for _, role := range ch.Clients {
			if role == cs.Req {
				continue
			}
			owner := false
			for b := range bearer {
				if w.obj[b].Parties[role] {
					owner = true // the code owner's index gains the mapping the bearer created
				}
			}
			if owner {
				continue
			}
			cls := "stranger"
			if !w.authed(cs.Req) {
				cls = "unauth"
			}
			run.Violation(fmt.Sprintf("C11:effect-client-state|cmd=%s|requester=%s", name, cls), detail(map[string]any{"client": role, "change": ch}))
		}
		if !w.authed(cs.Req) && len(ch.Clients) == 0 {
			// an unauthenticated connection created/changed state that belongs to nobody we know:
			// not a victim effect; recorded so that it is visible in the evidence
			run.Count("unauth_anonymous_state_changes", 1)
			run.Observe("unauth_anonymous_state_change_sample", map[string]any{"cmd": name, "change": ch})
		}
	}
	// (2) leaks
	for _, p := range out.Own {
		text := p.Body + p.Raw
		for _, o := range w.objs {
			if w.party(o, cs.Req) || bearer[o.Name] {
				continue
			}
			for _, m := range o.Marks {
				mm := strings.TrimSuffix(m, "\"")
				if strings.HasSuffix(m, "\"") {
					// short ids (hdm_3) are matched as a quoted JSON string value only
					if !strings.Contains(text, "\""+m) || strings.Contains(sent, mm) {
						continue
					}
				} else if !strings.Contains(text, m) || strings.Contains(sent, m) {
					continue
				}
				run.Violation(fmt.Sprintf("C11:leak|cmd=%s|requester=%s", name, w.reqClass(cs, o)), detail(map[string]any{"object": o.Name, "marker": mm}))
				break
			}
		}
	}
	// (3) deliveries to other connections
	for role, pkts := range out.Others {
		for _, p := range pkts {
			run.Count("deliveries_to_others", 1)
			if !w.authed(cs.Req) {
				run.Violation(fmt.Sprintf("C11:deliver|cmd=%s|requester=unauth", name), detail(map[string]any{"recipient": role, "packet": p}))
				continue
			}
			named := ""
			var b struct {
				MappingID string `json:"mapping_id"`
			}
			// the DNS forwarders and C2C notify address a client, they do not name a mapping
			// (a mapping_id member in their body is an unknown extra field)
			addressing := cs.CT == byte(packet.DNSResolve) || cs.CT == byte(packet.DNSQuery) || cs.CT == byte(packet.SendNotifyToClient)
			if json.Unmarshal([]byte(cmd.CommandBody), &b) == nil && !addressing {
				named = w.mapObj[b.MappingID]
			}
			if named != "" {
				o := w.obj[named]
				if !w.party(o, cs.Req) {
					run.Violation(fmt.Sprintf("C11:deliver|cmd=%s|requester=stranger", name), detail(map[string]any{"recipient": role, "packet": p, "named_mapping": named}))
				} else if !w.party(o, role) {
					run.Violation(fmt.Sprintf("C11:deliver|cmd=%s|requester=party|recipient=non-party", name), detail(map[string]any{"recipient": role, "packet": p, "named_mapping": named}))
				} else {
					run.Count("deliveries_between_parties", 1)
				}
			} else if !w.sharesMapping(cs.Req, role) {
				// authenticated, names no mapping, unrelated recipient: the statement only
				// demands authentication here; recorded, not judged
				run.Count("deliveries_authenticated_unrelated", 1)
				run.Observe("delivery_authenticated_unrelated_sample", map[string]any{"cmd": name, "requester": cs.Req, "recipient": role, "packet": p})
			} else {
				run.Count("deliveries_between_parties", 1)
			}
			// whatever is written to a connection must not carry markers (ids, secrets) of objects
			// its client is no party to, unless the requester put them into its own request
			for _, o := range w.objs {
				if w.party(o, role) {
					continue
				}
				for _, m := range o.Marks {
					if strings.HasSuffix(m, "\"") {
						continue // short domain ids are judged in responses only
					}
					if strings.Contains(p.Body+p.Raw, m) && !strings.Contains(sent, m) {
						run.Violation(fmt.Sprintf("C11:leak-to-third|cmd=%s|requester=%s", name, w.reqClass(cs, o)), detail(map[string]any{"recipient": role, "object": o.Name, "marker": m, "packet": p}))
						break
					}
				}
			}
			if p.CT == byte(packet.NotifyClient) {
				var nt struct {
					Sender int64 `json:"sender_client_id"`
				}
				if json.Unmarshal([]byte(p.Body), &nt) == nil && nt.Sender != w.id[cs.Req] {
					run.Violation(fmt.Sprintf("C11:deliver-forged-sender|cmd=%s", name), detail(map[string]any{"recipient": role, "packet": p, "real_sender": w.id[cs.Req]}))
				}
			}
		}
	}
	// (3b) what node A hands to the bridge manager for other nodes
	for _, bc := range out.Broadcasts {
		run.Count("cross_node_broadcasts", 1)
		named := ""
		var b struct {
			MappingID string `json:"mapping_id"`
		}
		if json.Unmarshal([]byte(cmd.CommandBody), &b) == nil {
			named = w.mapObj[b.MappingID]
		}
		tgt, _ := bc["target_client_id"].(int64)
		tgtParty := false
		if named != "" {
			for r := range w.obj[named].Parties {
				if w.id[r] == tgt {
					tgtParty = true
				}
			}
		}
		switch {
		case !w.authed(cs.Req):
			run.Violation(fmt.Sprintf("C11:deliver|cmd=%s|requester=unauth|via=bridge", name), detail(map[string]any{"broadcast": bc}))
		case named == "" || !w.party(w.obj[named], cs.Req):
			run.Violation(fmt.Sprintf("C11:deliver|cmd=%s|requester=stranger|via=bridge", name), detail(map[string]any{"broadcast": bc}))
		case !tgtParty:
			run.Violation(fmt.Sprintf("C11:deliver|cmd=%s|requester=party|recipient=non-party|via=bridge", name), detail(map[string]any{"broadcast": bc}))
		default:
			run.Count("cross_node_broadcasts_between_parties", 1)
		}
	}
	// (4) registry
	for _, chg := range out.IdentChg {
		role := chg[:strings.Index(chg, ":")]
		if role == cs.Req {
			a := w.ident[role]
			// a connection may close itself (Disconnect); it must not become someone else
			if !a.Auth || a.ClientID == w.id[cs.Req] || a.ClientID == 0 {
				run.Count("requester_connection_state_changes", 1)
				continue
			}
		}
		cls := "auth"
		if !w.authed(cs.Req) {
			cls = "unauth"
		}
		run.Violation(fmt.Sprintf("C11:connection-state|cmd=%s|requester=%s", name, cls), detail(map[string]any{"change": chg}))
	}
	for role := range w.auth {
		k := w.sm(role).GetControlConnectionByClientID(w.id[role])
		want := w.cl[role].ConnID
		if w.ident[role].Closed || !w.ident[role].Registered {
			continue
		}
		if (k == nil || k.GetConnID() != want) && role != cs.Req {
			run.Violation(fmt.Sprintf("C11:client-index|cmd=%s", name), detail(map[string]any{"client": role}))
		}
	}
}

func (w *c11World) describe() map[string]any {
	return map[string]any{"ids": w.id, "M": w.M.ID, "MS": w.MS.ID, "K": w.K.Code, "KS": w.KS.Code,
		"M0(server-listened, ListenClientID=0, target V2)": w.M0.ID, "D1": w.D["D1"].ID, "D2": w.D["D2"].ID, "DS": w.D["DS"].ID, "mark": w.mark, "mapping_state": w.state.Map, "code_state": w.state.Code, "history_world": w.state.Hist, "two_nodes(V2 on node-b)": w.state.TwoNode, "reauth(conn was A, now validly B)": w.state.ReauthA + ">" + w.state.ReauthB, "redo_history": w.state.Redo, "sequence": fmt.Sprintf("%s/%s/%s", w.state.SeqReq, w.state.SeqKind, w.state.SeqName),
		"history_roles": "L=ex-listener of MH (migrated to L2 by MigrateClientMappings); MG=deleted mapping; W=authenticated owner of MW, disconnected; U2=first connection after W left, phase-1 for V1 + failed phase-2",
		"roles": "U0=no handshake; U1=phase-1 for V1 only; V1=listen side of M; V2=target side of M, owner of K; S=unrelated, owns MS/KS/DS"}
}

// fingerprint: what a requester can observe / cause, with world-specific strings
// replaced by role names, so that equal behaviour in two worlds compares equal.
func (w *c11World) fingerprint(cs c11Case, cmd *packet.CommandPacket, out *c11Outcome) string {
	var parts []string
	parts = append(parts, "err="+w.norm(out.SendErr))
	var own []string
	marks := map[string]bool{}
	for _, p := range out.Own {
		s := fmt.Sprintf("%d/%d", p.PT, p.CT)
		if packet.Type(p.PT).IsCommandResp() {
			var r struct {
				Success bool   `json:"success"`
				Error   string `json:"error"`
			}
			if json.Unmarshal([]byte(p.Body), &r) == nil {
				s += fmt.Sprintf(":%v:%s", r.Success, w.norm(r.Error))
			}
		}
		own = append(own, s)
		for _, o := range w.objs {
			for _, m := range o.Marks {
				if strings.Contains(p.Body, m) {
					marks[o.Name] = true
				}
			}
		}
	}
	sort.Strings(own)
	parts = append(parts, "own="+strings.Join(own, ","))
	var ms []string
	for m := range marks {
		ms = append(ms, m)
	}
	sort.Strings(ms)
	parts = append(parts, "marks="+strings.Join(ms, ","))
	var ch []string
	for _, c := range out.Changes {
		ch = append(ch, c.Op+":"+strings.Join(c.Objs, "+")+":"+strings.Join(c.Clients, "+"))
	}
	sort.Strings(ch)
	parts = append(parts, "chg="+strings.Join(ch, ","))
	var dl []string
	for role, pk := range out.Others {
		for _, p := range pk {
			dl = append(dl, fmt.Sprintf("%s<%d/%d", role, p.PT, p.CT))
		}
	}
	sort.Strings(dl)
	parts = append(parts, "dlv="+strings.Join(dl, ","), fmt.Sprintf("bc=%d", len(out.Broadcasts)))
	var ic []string
	for _, c := range out.IdentChg {
		ic = append(ic, c[:strings.Index(c, ":")])
	}
	sort.Strings(ic)
	parts = append(parts, "conn="+strings.Join(ic, ","))
	return strings.Join(parts, "|")
}

// ---------------------------------------------------------------------------------

type c11Driver struct {
	t       *testing.T
	run     *vk.Run
	w       *c11World
	extra   func(w *c11World)
	seq     int
	settle  map[byte]bool
	reached map[byte]bool
	suffix  string
	state   c11State
	reqs    []string          // requesters to iterate (default c11Roles)
	kinds   map[string]bool   // body kinds to run (nil = all); the variant worlds run the core kinds only
	record  map[string]string // fingerprints of unforged cases in the plain world, by (type, ptype, requester, body kind)
}

func (d *c11Driver) world() *c11World {
	if d.w != nil && (d.w.cases >= 1500 || time.Since(d.w.born) > 8*time.Second) {
		d.w.close()
		d.w = nil
	}
	if d.w == nil {
		d.w = c11NewWorldState(d.t, d.run, d.extra, d.state)
		d.w.suffix = d.suffix
	}
	return d.w
}

func (d *c11Driver) one(ct byte, pt packet.Type, req, kind, forge string, bodyOf func(w *c11World) string) (string, *c11Outcome) {
	w := d.world()
	d.seq++
	w.cases++
	cs := c11Case{CT: ct, PT: pt, Req: req, Kind: kind, Forge: forge, Body: bodyOf(w)}
	cmd := w.packetFor(cs, d.seq)
	d.run.Case(fmt.Sprintf("%s|%s|%s|%s", c11CmdName(ct, pt), req, kind, forge), map[string]any{"ct": ct, "pt": byte(pt), "body": cmd.CommandBody, "sender": cmd.SenderId, "receiver": cmd.ReceiverId})
	out := w.exec(cs, d.seq, d.settle[ct])
	d.run.Eval(1)
	if time.Since(w.born) > 45*time.Second {
		// store entries carry TTLs (shortest: 90 s); a world this old (stalled machine) could
		// show expirations as effects — drop the case instead of judging it
		d.run.Count("cases_dropped_world_too_old", 1)
		w.close()
		d.w = nil
		return "", &c11Outcome{Watchdog: true}
	}
	if out.Watchdog {
		d.run.Count("watchdog", 1)
		w.close()
		d.w = nil
		return "", out
	}
	w.judge(cs, cmd, out)
	fp := w.fingerprint(cs, cmd, out)
	d.run.Distinct(fmt.Sprintf("%d/%d/%s/%s/%s/%+v", ct, pt, req, kind, forge, d.state))
	if strings.HasPrefix(kind, "dup-") {
		d.run.Count("dup_key_bodies_run", 1)
	}
	if strings.HasSuffix(kind, "-oids") {
		d.run.Count("object_id_member_bodies_run", 1)
	}
	if out.Success {
		d.run.Count("success_responses", 1)
		d.reached[ct] = true
	}
	if out.HasResp && !out.Success {
		d.run.Count("refusal_responses", 1)
	}
	if out.Answered > 0 {
		d.run.Count("dns_forwards_auto_answered", int64(out.Answered))
	}
	d.observeSpecial(cs, out)
	if d.seq <= 3 || (out.Success && d.seq%997 == 0) {
		d.run.Sample(map[string]any{"case": cs, "outcome": out})
	}
	if out.dirty {
		d.run.Count("state_changing_cases", 1)
		w.close()
		d.w = nil
	}
	return fp, out
}

// non-vacuity: the happy paths of the special-cased commands were actually taken
func (d *c11Driver) observeSpecial(cs c11Case, out *c11Outcome) {
	if !cs.PT.IsJsonCommand() {
		return
	}
	switch packet.CommandType(cs.CT) {
	case packet.TunnelTrafficReport:
		if cs.Req == "V1" && cs.Kind == "aimA" && len(out.Changes) > 0 {
			d.run.Count("party_traffic_report_applied", 1)
		}
	case packet.SOCKS5TunnelRequestCmd:
		if cs.Req == "V1" && cs.Kind == "aimA" && len(out.Others["V2"]) > 0 {
			d.run.Count("party_socks5_request_forwarded", 1)
		}
		if cs.Req == "V1" && cs.Kind == "aimA" && len(out.Broadcasts) > 0 {
			d.run.Count("crossnode_party_socks5_broadcast", 1)
		}
	case packet.DNSResolve:
		if cs.Req == "V1" && len(out.Others["V2"]) > 0 && len(out.Own) > 0 {
			d.run.Count("party_dns_resolve_roundtrip", 1)
		}
	case packet.DNSQuery:
		if cs.Req == "V1" && len(out.Others["V2"]) > 0 && len(out.Own) > 0 {
			d.run.Count("party_dns_query_roundtrip", 1)
			if d.state.TwoNode && strings.Contains(out.Own[len(out.Own)-1].Body, "QUFBQQ") {
				d.run.Count("crossnode_party_dns_query_answered", 1)
			}
		}
	case packet.Disconnect:
		if len(out.IdentChg) > 0 {
			d.run.Count("disconnect_closed_own_connection", 1)
		}
	}
}

func (d *c11Driver) sweep(types []byte, pts []packet.Type, forges []string, thorough bool) {
	run := d.run
	for _, ct := range types {
		for _, pt := range pts {
			reqs := d.reqs
			if reqs == nil {
				reqs = c11Roles
			}
			for _, req := range reqs {
				// body list is taken from a throw-away view of the current world (kinds only)
				kinds := d.world().bodies(ct, pt, req, thorough, 0)
				baseByKind := map[string]string{}
				for ki := range kinds {
					kind := kinds[ki][0]
					if d.kinds != nil && !d.kinds[kind] {
						continue
					}
					idx := ki
					bodyOf := func(w *c11World) string { return w.bodies(ct, pt, req, thorough, d.seq)[idx][1] }
					base, bout := d.one(ct, pt, req, kind, "none", bodyOf)
					if bout.Watchdog {
						continue
					}
					baseByKind[kind] = base
					recKey := fmt.Sprintf("%d/%d/%s/%s", ct, pt, req, kind)
					if d.record != nil && d.state == (c11State{}) {
						d.record[recKey] = base
					}
					if d.state.SeqReq != "" || d.state.ReauthA != "" {
						if plain, ok := d.record[recKey]; ok {
							run.Count("sequence_vs_plain_pairs", 1)
							if plain != base {
								sig := fmt.Sprintf("C11:unproven-handshake|after=login|variant=%s|effect=command-outcome-differs", d.state.SeqKind)
								if d.state.ReauthA != "" {
									sig = "C11:reauthenticated-connection|command-outcome-differs-from-plain-requester"
								}
								run.Violation(sig,
									map[string]any{"sequence": d.state, "command": c11CmdName(ct, pt) + d.suffix, "command_type": ct, "requester": req, "body_kind": kind, "plain_requester": plain, "after_sequence": base, "outcome": bout})
							}
						}
					}
					// target_client_id is the command's own addressing field for the DNS forwarders and
					// C2C notify; everywhere else the connection / the named mapping decides
					addressing := ct == byte(packet.DNSResolve) || ct == byte(packet.DNSQuery) || ct == byte(packet.SendNotifyToClient)
					if plain, ok := baseByKind[strings.TrimSuffix(kind, "-xids")]; ok && strings.HasSuffix(kind, "-xids") && !addressing {
						run.Count("metamorphic_pairs", 1)
						run.Count("metamorphic_body_id_pairs", 1)
						if plain != base {
							cls := "auth"
							if strings.HasPrefix(req, "U") {
								cls = "unauth"
							}
							run.Violation(fmt.Sprintf("C11:forged-field-changes-outcome|cmd=%s|field=body-receiver-ids|requester=%s", c11CmdName(ct, pt)+d.suffix, cls),
								map[string]any{"command_type": ct, "packet_type": byte(pt), "requester": req, "body_kind": kind,
									"unforged": plain, "forged": base, "forged_outcome": bout})
						}
					}
					for _, f := range forges {
						if strings.HasSuffix(kind, "-oids") || strings.HasPrefix(kind, "dup-") {
							break // object-id members are themselves the forgery of this body kind
						}
						if (f == "bodyids" || f == "all") && !strings.HasPrefix(kind, "aim") && kind != "default" {
							continue // identity fields can only be added to a JSON object body
						}
						fp, fout := d.one(ct, pt, req, kind, f, bodyOf)
						if fout.Watchdog {
							continue
						}
						run.Count("metamorphic_pairs", 1)
						if fp != base {
							cls := "auth"
							if strings.HasPrefix(req, "U") {
								cls = "unauth"
							}
							run.Violation(fmt.Sprintf("C11:forged-field-changes-outcome|cmd=%s|field=%s|requester=%s", c11CmdName(ct, pt)+d.suffix, f, cls),
								map[string]any{"command_type": ct, "packet_type": byte(pt), "requester": req, "body_kind": kind,
									"unforged": base, "forged": fp, "unforged_outcome": bout, "forged_outcome": fout})
						}
					}
					if run.Violations() > 40 {
						return
					}
				}
			}
		}
	}
}

func c11Registry(t testing.TB, w *c11World) *command.CommandRegistry {
	ex, ok := w.n.SM.GetCommandExecutor().(interface {
		GetRegistry() types.CommandRegistry
	})
	if !ok {
		t.Fatalf("c11: executor is %T", w.n.SM.GetCommandExecutor())
	}
	reg, ok := ex.GetRegistry().(*command.CommandRegistry)
	if !ok || reg == nil {
		t.Fatalf("c11: registry is %T", ex.GetRegistry())
	}
	return reg
}

func c11Ints(b []byte) []int {
	out := make([]int, len(b))
	for i, x := range b {
		out[i] = int(x)
	}
	return out
}

func c11AllTypes() []byte {
	out := make([]byte, 256)
	for i := range out {
		out[i] = byte(i)
	}
	return out
}

func TestVerifC11Table(t *testing.T) {
	run := vk.Start(t, "C11", "table")
	defer run.Finish()
	run.Rule("every CommandType byte 0..255 as JsonCommand (quick: CommandResp only for registered/special-cased types; thorough: CommandResp for all) x requester {U0 no handshake, U1 phase-1 for V1's id only, V1 listen party, V2 target party, S unrelated authenticated} x body {handler's well-formed body aimed at the victims' objects, same aimed at S's objects, same aimed at a server-listened mapping (ListenClientID 0 -> V2), the own-object body with case-variant duplicate keys carrying the foreign values (both orders), the first two again with object-id members (mapping_id, code, domain ids, filters) added and with every receiver/identity-looking body field naming a non-party client, DNS default-target, empty, truncated JSON (+4 malformed mutants thorough)} x forgery {none, victim ids in SenderId/ReceiverId, victim's secret in Token, victim's id in Token, identity fields added to the body (+swapped ids, all combined thorough)}; a case is distinct by that tuple; then, for the registered and special-cased types, again with the mappings in state {revoked by a party, expired but stored, inactive} and the connection codes in state {revoked, expired but stored, activated}; worlds (fresh mini server + objects with fresh markers) are rebuilt after every state-changing case")
	d := &c11Driver{t: t, run: run, settle: map[byte]bool{}, reached: map[byte]bool{}, record: map[string]string{}}
	defer func() {
		if d.w != nil {
			d.w.close()
		}
	}()
	w := d.world()
	reg := c11Registry(t, w)
	var registered []byte
	for _, ct := range reg.ListHandlers() {
		registered = append(registered, byte(ct))
		if h, ok := reg.GetHandler(ct); ok && h.GetDirection() != command.DirectionDuplex {
			d.settle[byte(ct)] = true
		}
	}
	sort.Slice(registered, func(i, j int) bool { return registered[i] < registered[j] })
	run.Observe("registered_handler_types", c11Ints(registered))
	special := []byte{byte(packet.HTTPProxyResponse), byte(packet.SOCKS5TunnelRequestCmd), byte(packet.DNSResolve), byte(packet.DNSQuery), byte(packet.TunnelTrafficReport), byte(packet.Disconnect)}
	c11HandledTypes = append(append([]byte{}, registered...), special...)
	forges := []string{"ids", "token", "token-id", "bodyids"}
	if run.Thorough() {
		forges = []string{"ids", "ids-swapped", "token", "token-id", "bodyids", "all"}
	}
	d.sweep(c11AllTypes(), []packet.Type{packet.JsonCommand}, forges, run.Thorough())
	respTypes := append(append([]byte{}, registered...), special...)
	if run.Thorough() {
		respTypes = c11AllTypes()
	}
	d.sweep(respTypes, []packet.Type{packet.CommandResp}, forges, run.Thorough())
	if run.Thorough() {
		// flag variants of the packet type byte (compressed/encrypted bits are ignored by the dispatcher)
		d.sweep(append(append([]byte{}, registered...), special...), []packet.Type{packet.JsonCommand | packet.Compressed, packet.CommandResp | packet.Encrypted}, []string{"ids"}, false)
	}
	// the variant worlds below vary the world, not the body: they run the core body kinds
	d.kinds = map[string]bool{"aimA": true, "aimB": true, "aimH": true, "aimG": true, "default": true, "empty": true}
	if run.Thorough() {
		d.kinds = nil
	}
	// object-state variants: the same commands against victims' objects that are revoked,
	// expired (record still stored), inactive, activated
	handled := append(append([]byte{}, registered...), special...)
	states := []c11State{{Map: "revoked", Code: "revoked"}, {Map: "expired", Code: "expired"}, {Map: "inactive", Code: "activated"}}
	if run.Thorough() {
		states = append(states, c11State{Map: "revoked", Code: "activated"}, c11State{Map: "expired", Code: "revoked"}, c11State{Map: "inactive", Code: "expired"})
	}
	for _, st := range states {
		if d.w != nil {
			d.w.close()
			d.w = nil
		}
		d.state = st
		before := run.Counter("success_responses") + run.Counter("refusal_responses")
		d.sweep(handled, []packet.Type{packet.JsonCommand}, []string{"ids"}, false)
		run.Count("state_variant_worlds_swept", 1)
		run.Count("state_variant_responses", run.Counter("success_responses")+run.Counter("refusal_responses")-before)
	}
	// object/connection history: ex-party L of a migrated mapping, a deleted mapping, and
	// U2 = first connection after an authenticated client left
	if d.w != nil {
		d.w.close()
		d.w = nil
	}
	d.state = c11State{Hist: true}
	d.reqs = []string{"U2", "L", "L2", "V2", "S"}
	okBefore := run.Counter("success_responses")
	d.sweep(handled, []packet.Type{packet.JsonCommand}, []string{"ids"}, false)
	run.Count("history_world_success_responses", run.Counter("success_responses")-okBefore)
	run.Floor("history_world_success_responses", 20)
	d.reqs = nil
	// sequence family: login as A, then a non-completing handshake naming another client
	seqs := []c11State{
		{SeqReq: "S", SeqKind: "p1", SeqName: "V1"}, {SeqReq: "S", SeqKind: "p1", SeqName: "V2"},
		{SeqReq: "V1", SeqKind: "p1", SeqName: "V2"}, {SeqReq: "V2", SeqKind: "p1", SeqName: "V1"}, {SeqReq: "V1", SeqKind: "p1", SeqName: "S"},
		{SeqReq: "S", SeqKind: "badhmac", SeqName: "V1"}, {SeqReq: "S", SeqKind: "p1", SeqName: ""},
	}
	if run.Thorough() {
		seqs = append(seqs, c11State{SeqReq: "V1", SeqKind: "badhmac", SeqName: "V2"}, c11State{SeqReq: "S", SeqKind: "p1-tunnel", SeqName: "V2"},
			c11State{SeqReq: "V2", SeqKind: "badhmac", SeqName: "S"}, c11State{SeqReq: "V1", SeqKind: "p1-tunnel", SeqName: "S"})
	}
	for _, sq := range seqs {
		if d.w != nil {
			d.w.close()
			d.w = nil
		}
		d.state = sq
		d.reqs = []string{sq.SeqReq}
		d.sweep(handled, []packet.Type{packet.JsonCommand}, []string{"ids"}, false)
	}
	d.reqs = nil
	// re-authentication: a connection that was A (and used every handler) is now validly B
	c11HandledTypes = handled
	pairs := [][2]string{{"S", "V1"}, {"V1", "S"}, {"V2", "V1"}}
	if run.Thorough() {
		pairs = append(pairs, [2]string{"S", "V2"}, [2]string{"V1", "V2"}, [2]string{"V2", "S"})
	}
	for _, pr := range pairs {
		if d.w != nil {
			d.w.close()
			d.w = nil
		}
		d.state = c11State{ReauthA: pr[0], ReauthB: pr[1]}
		d.reqs = []string{pr[1]}
		d.sweep(handled, []packet.Type{packet.JsonCommand}, []string{"ids"}, false)
	}
	run.Floor("reauth_worlds_built", int64(len(pairs)))
	// histories: create -> delete -> other party re-creates, then everybody reads
	if d.w != nil {
		d.w.close()
		d.w = nil
	}
	d.state = c11State{Redo: true}
	d.reqs = []string{"V1", "V2", "S", "U1"}
	d.sweep(handled, []packet.Type{packet.JsonCommand}, []string{"ids"}, false)
	run.Floor("redo_worlds_built", 1)
	d.reqs = nil
	// two-node world: the target-side victim V2 is connected to node-b; requesters on node-a
	if d.w != nil {
		d.w.close()
		d.w = nil
	}
	d.state = c11State{TwoNode: true}
	d.suffix = "|nodes=2"
	d.reqs = []string{"U0", "U1", "S", "V1"}
	d.sweep(handled, []packet.Type{packet.JsonCommand}, []string{"ids"}, false)
	d.reqs = nil
	d.suffix = ""
	run.Floor("crossnode_party_dns_query_answered", 1)
	run.Floor("crossnode_party_socks5_broadcast", 1)
	run.Floor("sequence_worlds_built", int64(len(seqs)))
	run.Floor("sequence_vs_plain_pairs", 500)
	if d.w != nil {
		d.w.close()
		d.w = nil
	}
	d.state = c11State{}
	run.Floor("state_variant_worlds_swept", 3)
	run.Floor("state_variant_responses", 300)
	cov := 0
	var missing []byte
	for _, ct := range registered {
		if d.reached[ct] {
			cov++
		} else {
			missing = append(missing, ct)
		}
	}
	run.Count("registered_types", int64(len(registered)))
	run.Count("registered_types_with_success", int64(cov))
	run.Observe("registered_types_without_success", c11Ints(missing))
	run.Floor("registered_types_with_success", int64(len(registered)))
	run.Floor("registered_types", 13)
	run.Floor("party_traffic_report_applied", 1)
	run.Floor("party_socks5_request_forwarded", 1)
	run.Floor("party_dns_resolve_roundtrip", 1)
	run.Floor("party_dns_query_roundtrip", 1)
	run.Floor("disconnect_closed_own_connection", 1)
	run.Floor("refusal_responses", 100)
	run.Floor("effects_by_party", 5)
	run.Floor("metamorphic_pairs", 1000)
	run.Floor("metamorphic_body_id_pairs", 1000)
	run.Floor("dup_key_bodies_run", 150)
	run.Floor("object_id_member_bodies_run", 150)
	if run.Counter("watchdog") > 0 {
		run.Floor("watchdog_free", 1) // a watchdog firing makes the run inconclusive
	}
}

// TestVerifC11Unwired covers the handlers that live in internal/command (anchors of the
// property) but that Server.setupConnectionCodeCommands does not register: C2C notify,
// notify ack and the default handler set. The harness registers them on top of the
// server's registry with the session's own NotificationService as router — the wiring
// their constructors document. Signatures carry "|wiring=harness".
func TestVerifC11Unwired(t *testing.T) {
	run := vk.Start(t, "C11", "unwired")
	defer run.Finish()
	run.Rule("same table as TestVerifC11Table restricted to the command types of handlers the harness registers itself (SendNotifyToClient, NotifyClientAck, RegisterDefaultHandlers set), JsonCommand and CommandResp, all requesters/bodies/forgeries; distinct by (type, packet type, requester, body kind, forgery)")
	var added []byte
	extra := func(w *c11World) {
		reg := c11Registry(t, w)
		before := map[packet.CommandType]bool{}
		for _, ct := range reg.ListHandlers() {
			before[ct] = true
		}
		ns := session.NewNotificationService(w.n.ctx, w.n.SM.GetClientRegistry())
		_ = reg.Register(command.NewNotifyClientAckHandler())
		_ = reg.Register(command.NewSendNotifyToClientHandler(ns))
		command.RegisterDefaultHandlers(reg)
		added = added[:0]
		for _, ct := range reg.ListHandlers() {
			if !before[ct] {
				added = append(added, byte(ct))
			}
		}
		sort.Slice(added, func(i, j int) bool { return added[i] < added[j] })
	}
	d := &c11Driver{t: t, run: run, extra: extra, settle: map[byte]bool{}, reached: map[byte]bool{}, suffix: "|wiring=harness"}
	defer func() {
		if d.w != nil {
			d.w.close()
		}
	}()
	w := d.world()
	reg := c11Registry(t, w)
	types := append([]byte{}, added...)
	for _, ct := range types {
		if h, ok := reg.GetHandler(packet.CommandType(ct)); ok && h.GetDirection() != command.DirectionDuplex {
			d.settle[ct] = true
		}
	}
	run.Observe("harness_registered_types", c11Ints(types))
	forges := []string{"ids", "token", "token-id", "bodyids"}
	if run.Thorough() {
		forges = []string{"ids", "ids-swapped", "token", "token-id", "bodyids", "all"}
	}
	d.sweep(types, []packet.Type{packet.JsonCommand, packet.CommandResp}, forges, run.Thorough())
	run.Count("harness_registered_types", int64(len(types)))
	run.Floor("harness_registered_types", 9)
	run.Floor("deliveries_to_others", 1)
	run.Floor("metamorphic_pairs", 300)
	if run.Counter("watchdog") > 0 {
		run.Floor("watchdog_free", 1)
	}
}

// TestVerifC11Concurrent: handlers are single objects shared by all connections and every
// duplex command runs on its own goroutine. Requester A's read-type command is parked at its
// k-th store read (for every k it performs) while requester B's command runs to completion;
// then A continues. Each response must be what that requester gets when it is alone.
func TestVerifC11Concurrent(t *testing.T) {
	run := vk.Start(t, "C11", "concurrent")
	defer run.Finish()
	run.Rule("read-type command {MappingList (all / inbound / outbound), MappingGet own, ConnectionCodeList, ConfigGet, HTTPDomainList} of requester A in {V1,V2,S} parked at its k-th store read, for every k of its sequential run (quick: k <= 6), while the same or another read-type command of requester B != A runs to completion; distinct by (A cmd, A, B cmd, B, k); a window counts only if B completed while A was parked")
	type rd struct {
		name string
		ct   packet.CommandType
		body func(w *c11World, req string) string
	}
	own := func(w *c11World, req string) string {
		if req == "S" {
			return w.MS.ID
		}
		return w.M.ID
	}
	cmds := []rd{
		{"MappingList", packet.MappingList, func(w *c11World, r string) string { return `{"direction":""}` }},
		{"MappingList/inbound", packet.MappingList, func(w *c11World, r string) string { return `{"direction":"inbound"}` }},
		{"MappingGet", packet.MappingGet, func(w *c11World, r string) string { return c11J(map[string]any{"mapping_id": own(w, r)}) }},
		{"ConnectionCodeList", packet.ConnectionCodeList, func(w *c11World, r string) string { return "{}" }},
		{"ConfigGet", packet.ConfigGet, func(w *c11World, r string) string { return "{}" }},
		{"HTTPDomainList", packet.HTTPDomainList, func(w *c11World, r string) string { return "{}" }},
	}
	maxK := run.Pick(6, 40)
	var w *c11World
	fresh := func() {
		if w != nil {
			w.close()
		}
		w = c11NewWorldState(t, run, nil, c11State{Gate: true})
	}
	fresh()
	defer func() { w.close() }()
	seq := 0
	mkCase := func(c rd, req string) c11Case {
		return c11Case{CT: byte(c.ct), PT: packet.JsonCommand, Req: req, Kind: "own", Forge: "none", Body: c.body(w, req)}
	}
	for _, ca := range cmds {
		for _, A := range []string{"V1", "V2", "S"} {
			// sequential reference of A, counting its store reads
			if time.Since(w.born) > 4*time.Second {
				fresh()
			}
			reads := 0
			w.gate.setHook(func(op, key string) { reads++ })
			seq++
			csA := mkCase(ca, A)
			ref := w.exec(csA, seq, false)
			w.gate.setHook(nil)
			cmdRef := w.packetFor(csA, seq)
			w.judge(csA, cmdRef, ref)
			refFP := w.fingerprint(csA, cmdRef, ref)
			run.Eval(1)
			if ref.Watchdog || ref.dirty {
				run.Count("reference_not_clean", 1)
				fresh()
				continue
			}
			run.Max("max_store_reads_of_a_command", int64(reads))
			for bi, cb := range cmds {
				if !run.Thorough() && bi != 0 && cb.name != ca.name {
					continue // quick: B runs MappingList or the same command as A
				}
				for _, B := range []string{"V1", "V2", "S"} {
					if B == A {
						continue
					}
					seq++
					if time.Since(w.born) > 4*time.Second {
						fresh()
					}
					csB := mkCase(cb, B)
					refB := w.exec(csB, seq, false)
					refBFP := w.fingerprint(csB, w.packetFor(csB, seq), refB)
					for k := 1; k <= reads && k <= maxK; k++ {
						if time.Since(w.born) > 4*time.Second {
							fresh() // connections without heartbeats are reaped after a while; keep worlds young
						}
						csA, csB := mkCase(ca, A), mkCase(cb, B)
						parked, release := make(chan struct{}), make(chan struct{})
						var once sync.Once
						n := 0
						armed := true
						w.gate.setHook(func(op, key string) {
							if !armed {
								return
							}
							n++
							if n == k {
								armed = false
								once.Do(func() { close(parked) })
								select {
								case <-release:
								case <-time.After(20 * time.Second):
								}
							}
						})
						seq++
						aSeq := seq
						cmdA := w.packetFor(csA, aSeq)
						run.Case(fmt.Sprintf("concurrent|%s|%s|%s|%s|k=%d", ca.name, A, cb.name, B, k), nil)
						done := make(chan string, 1)
						go func() {
							if err := w.cl[A].Send(&packet.TransferPacket{PacketType: packet.JsonCommand, CommandPacket: cmdA}); err != nil {
								done <- err.Error()
							} else {
								done <- ""
							}
						}()
						window, blocked := false, false
						var outB *c11Outcome
						seq++
						bSeq := seq
						select {
						case <-parked:
							// A sits between two of its lookups; the gate lets everybody else through
							// (if A is parked inside a critical section B also needs, B cannot finish before A
							// continues: that is ordinary mutual exclusion, not a window — bounded wait, then skip)
							w.execMax = 400 * time.Millisecond
							outB = w.exec(csB, bSeq, false)
							w.execMax = 0
							window = !outB.Watchdog
							if !window {
								blocked = true
							}
						case e := <-done:
							done <- e // A finished without reaching its k-th read
						case <-time.After(15 * time.Second):
							run.Count("watchdog", 1)
						}
						close(release)
						outA := &c11Outcome{}
						select {
						case outA.SendErr = <-done:
						case <-time.After(15 * time.Second):
							run.Count("watchdog", 1)
							outA.Watchdog = true
						}
						w.gate.setHook(nil)
						w.pump(outA, A)
						runtime.Gosched()
						w.pump(outA, A)
						after := w.dump()
						outA.Changes = w.diff(after)
						w.snap = after
						run.Eval(1)
						if outA.Watchdog {
							fresh()
							break
						}
						if blocked {
							// B is still finishing; let it, then discard what both wrote
							run.Count("windows_b_blocked_behind_a", 1)
							if !c11WaitNoGoroutine([]string{"executeDuplex"}, 10*time.Second) {
								run.Count("watchdog", 1)
							}
							for _, role := range w.roles {
								w.cl[role].DrainRaw()
							}
							w.snap = w.dump()
							w.ident = w.identities()
							continue
						}
						if !window {
							run.Count("windows_not_reached", 1)
							continue
						}
						run.Count("windows_b_completed_while_a_parked", 1)
						run.Distinct(fmt.Sprintf("%s/%s/%s/%s/%d", ca.name, A, cb.name, B, k))
						w.judge(csA, cmdA, outA)
						cmdB := w.packetFor(csB, bSeq)
						w.judge(csB, cmdB, outB)
						fa, fb := w.fingerprint(csA, cmdA, outA), w.fingerprint(csB, cmdB, outB)
						if fa != refFP {
							run.Violation(fmt.Sprintf("C11:concurrent-requesters|cmd=%s|response-differs-from-sequential", ca.name), map[string]any{"world": w.describe(),
								"parked": map[string]any{"requester": A, "command": ca.name, "body": csA.Body, "at_store_read": k}, "ran_meanwhile": map[string]any{"requester": B, "command": cb.name, "body": csB.Body},
								"sequential": refFP, "concurrent": fa, "outcome": outA})
						}
						if fb != refBFP {
							run.Violation(fmt.Sprintf("C11:concurrent-requesters|cmd=%s|response-differs-from-sequential", cb.name), map[string]any{"world": w.describe(),
								"parked": map[string]any{"requester": A, "command": ca.name, "at_store_read": k}, "ran_meanwhile": map[string]any{"requester": B, "command": cb.name},
								"sequential": refBFP, "concurrent": fb, "outcome": outB})
						}
						if len(outA.Changes) > 0 || outB.dirty {
							fresh()
						}
						if run.Violations() > 20 {
							return
						}
					}
				}
			}
		}
	}
	run.Floor("windows_b_completed_while_a_parked", 60)
	if run.Counter("watchdog") > 0 {
		run.Floor("watchdog_free", 1)
	}
}

// TestVerifC11TwoNodeCodes: two nodes (each with its own connection-code service) over one
// store; a client on each node generates connection codes at the same moment through the
// real handlers, for a range of offsets between the two services' issue counts. Afterwards
// connection_code_list of each client must contain only codes that client generated.
func TestVerifC11TwoNodeCodes(t *testing.T) {
	run := vk.Start(t, "C11", "two-node-codes")
	defer run.Finish()
	run.Rule("batches b=0..7: before batch b one extra code is generated on node-b (b<5) or node-a (b>=5), shifting the difference of the two services' issue counts through -3..+3; in each batch fresh clients X (node-a) and Y (node-b) generate 6 codes each, pairwise released by a common start signal; distinct by (batch, round); a pair counts as a window when both records carry the same creation millisecond")
	w := c11NewWorldState(t, run, nil, c11State{TwoNode: true})
	defer w.close()
	seq := 0
	data := func(c *miniClient, ct packet.CommandType, body any) (map[string]any, string) {
		seq++
		cmd := &packet.CommandPacket{CommandType: ct, CommandId: fmt.Sprintf("c11-2n-%d", seq), CommandBody: c11J(body)}
		resp, _, _ := c.Command(cmd, 5*time.Second)
		if resp == nil {
			return nil, ""
		}
		var r struct {
			Success bool           `json:"success"`
			Data    map[string]any `json:"data"`
		}
		if json.Unmarshal([]byte(resp.CommandBody), &r) != nil || !r.Success {
			return nil, resp.CommandBody
		}
		return r.Data, resp.CommandBody
	}
	gen := func(c *miniClient, tag string) string {
		d, _ := data(c, packet.ConnectionCodeGenerate, map[string]any{"target_address": "tcp://" + tag + ".internal:80", "activation_ttl": 600, "mapping_ttl": 3600, "description": tag})
		code, _ := d["code"].(string)
		return code
	}
	pa, pb := w.n.NewClient(""), w.nb.NewClient("")
	rounds := run.Pick(6, 9)
	for b := 0; b < 8; b++ {
		if b > 0 {
			if b < 5 {
				gen(pb, fmt.Sprintf("pre-b-%d", b))
			} else {
				gen(pa, fmt.Sprintf("pre-a-%d", b))
			}
		}
		x, y := w.n.NewClient(""), w.nb.NewClient("")
		own := map[*miniClient]map[string]bool{x: {}, y: {}}
		for r := 0; r < rounds; r++ {
			run.Case(fmt.Sprintf("two-node-generate|batch=%d|round=%d", b, r), nil)
			start := make(chan struct{})
			res := make(chan [2]string, 2)
			for i, c := range []*miniClient{x, y} {
				go func(i int, c *miniClient) {
					<-start
					// each goroutine uses its own id space for command ids
					cmd := &packet.CommandPacket{CommandType: packet.ConnectionCodeGenerate, CommandId: fmt.Sprintf("c11-2n-g-%d-%d-%d", b, r, i),
						CommandBody: c11J(map[string]any{"target_address": fmt.Sprintf("tcp://own-%d-%d-%d.internal:80", b, r, i), "activation_ttl": 600, "mapping_ttl": 3600})}
					resp, _, _ := c.Command(cmd, 5*time.Second)
					code := ""
					if resp != nil {
						var rr struct {
							Data struct {
								Code string `json:"code"`
							} `json:"data"`
						}
						_ = json.Unmarshal([]byte(resp.CommandBody), &rr)
						code = rr.Data.Code
					}
					res <- [2]string{fmt.Sprint(i), code}
				}(i, c)
			}
			close(start)
			var codes [2]string
			for i := 0; i < 2; i++ {
				select {
				case v := <-res:
					if v[0] == "0" {
						codes[0] = v[1]
					} else {
						codes[1] = v[1]
					}
				case <-time.After(15 * time.Second):
					run.Count("watchdog", 1)
				}
			}
			run.Eval(1)
			if codes[0] == "" || codes[1] == "" {
				run.Count("generate_refused", 1)
				continue
			}
			own[x][codes[0]], own[y][codes[1]] = true, true
			run.Count("concurrent_generate_pairs", 1)
			run.Distinct(fmt.Sprintf("%d/%d", b, r))
			ka, ea := w.n.CCS.GetConnectionCode(codes[0])
			kb, eb := w.nb.CCS.GetConnectionCode(codes[1])
			if ea == nil && eb == nil && ka.CreatedAt.UnixMilli() == kb.CreatedAt.UnixMilli() {
				run.Count("pairs_created_in_same_millisecond", 1)
			}
		}
		for _, c := range []*miniClient{x, y} {
			d, raw := data(c, packet.ConnectionCodeList, map[string]any{})
			if d == nil {
				run.Count("list_refused", 1)
				continue
			}
			run.Count("lists_checked", 1)
			items, _ := d["codes"].([]any)
			for _, it := range items {
				m, _ := it.(map[string]any)
				code, _ := m["code"].(string)
				if code != "" && !own[c][code] {
					other := x
					if c == x {
						other = y
					}
					run.Violation("C11:leak|cmd=ConnectionCodeList|nodes=2|requester=stranger|history=concurrent-generate", map[string]any{
						"requester_client": c.ClientID, "requester_node": c.n.NodeID, "own_codes": own[c], "foreign_code_listed": code,
						"generated_by_other_client": own[other][code], "other_client": other.ClientID, "other_node": other.n.NodeID, "batch": b, "list_response": raw})
				}
			}
		}
	}
	run.Floor("concurrent_generate_pairs", 30)
	run.Floor("pairs_created_in_same_millisecond", 8)
	run.Floor("lists_checked", 12)
	if run.Counter("watchdog") > 0 {
		run.Floor("watchdog_free", 1)
	}
}

// TestVerifC11AnswerSpoof: the response half of the DNS forwarders. V1 (a party) has a
// DNS request pending at its target V2; before V2 answers, another connection sends a
// CommandResp with the same CommandId. The answer that reaches V1 must be V2's.
func TestVerifC11AnswerSpoof(t *testing.T) {
	run := vk.Start(t, "C11", "answer-spoof")
	defer run.Finish()
	run.Rule("command {DNSResolve, DNSQuery} x answering connection {V2 (the target: control), U0, U1, S} x forged ids {none, target's id in SenderId} x seeded repetitions; the spoofer is given the CommandId (client-chosen, not a credential); distinct by (command, answerer, forgery)")
	reps := run.Pick(2, 12)
	var w *c11World
	defer func() {
		if w != nil {
			w.close()
		}
	}()
	seq := 0
	for rep := 0; rep < reps; rep++ {
		for _, ct := range []packet.CommandType{packet.DNSResolve, packet.DNSQuery} {
			for _, who := range []string{"V2", "U0", "U1", "S"} {
				for _, forge := range []string{"none", "ids"} {
					if w == nil {
						w = c11NewWorld(t, run, nil)
					}
					seq++
					cid := fmt.Sprintf("c11-spoof-%d-%d", c11WorldSeq, seq)
					var body string
					if ct == packet.DNSResolve {
						body = c11J(map[string]any{"domain": "probe.example", "qtype": 1, "target_client_id": w.id["V2"]})
					} else {
						body = c11J(map[string]any{"query_id": "q" + cid, "target_client_id": w.id["V2"], "dns_server": "8.8.8.8:53", "raw_query": "AAAA"})
					}
					run.Case(fmt.Sprintf("spoof|%d|%s|%s", ct, who, forge), cid)
					done := make(chan error, 1)
					go func() {
						done <- w.cl["V1"].Send(&packet.TransferPacket{PacketType: packet.JsonCommand, CommandPacket: &packet.CommandPacket{CommandType: ct, CommandId: cid, CommandBody: body}})
					}()
					// wait (bounded) until the forward reached V2
					arrived := false
					for dl := time.Now().Add(3 * time.Second); time.Now().Before(dl); time.Sleep(100 * time.Microsecond) {
						if w.cl["V2"].hc.Pending() > 0 {
							if p := w.cl["V2"].RecvNow(); p != nil && p.CommandPacket != nil && p.CommandPacket.CommandId == cid {
								arrived = true
								break
							}
						}
					}
					if !arrived {
						run.Count("watchdog", 1)
						<-done
						w.close()
						w = nil
						continue
					}
					answer := func(role, marker string, forged bool) {
						var b string
						if ct == packet.DNSResolve {
							b = c11J(map[string]any{"success": true, "ips": []string{marker}, "ttl": 60})
						} else {
							b = c11J(map[string]any{"query_id": "q" + cid, "success": true, "raw_answer": []byte(marker)})
						}
						cmd := &packet.CommandPacket{CommandType: ct, CommandId: cid, CommandBody: b}
						if forged {
							cmd.SenderId = strconv.FormatInt(w.id["V2"], 10)
							cmd.ReceiverId = strconv.FormatInt(w.id["V1"], 10)
						}
						_ = w.cl[role].Send(&packet.TransferPacket{PacketType: packet.CommandResp, CommandPacket: cmd})
					}
					const evil, genuine = "203.0.113.66", "192.0.2.7"
					if who != "V2" {
						answer(who, evil, forge == "ids")
					}
					answer("V2", genuine, false)
					select {
					case <-done:
					case <-time.After(10 * time.Second):
						run.Count("watchdog", 1)
						w.close()
						w = nil
						continue
					}
					var got string
					for i := 0; i < 8; i++ {
						p := w.cl["V1"].RecvNow()
						if p == nil {
							break
						}
						if p.CommandPacket != nil && p.CommandPacket.CommandId == cid {
							got = p.CommandPacket.CommandBody
						}
					}
					evilSeen := strings.Contains(got, evil) || strings.Contains(got, "MjAzLjAuMTEzLjY2") // base64 of the marker inside raw_answer
					genuineSeen := strings.Contains(got, genuine) || strings.Contains(got, "MTkyLjAuMi43")
					run.Eval(1)
					run.Distinct(fmt.Sprintf("%d/%s/%s", ct, who, forge))
					switch {
					case evilSeen:
						cls := "stranger"
						if who == "U0" || who == "U1" {
							cls = "unauth"
						}
						run.Violation(fmt.Sprintf("C11:answer-from-non-target|cmd=%s|requester=%s", c11CmdName(byte(ct), packet.CommandResp), cls),
							map[string]any{"world": w.describe(), "pending_request": map[string]any{"from": "V1", "forwarded_to": "V2", "CommandId": cid, "body": body},
								"answer_sent_by": who, "forged_ids": forge == "ids", "delivered_to_V1": got, "note": "the answering connection was not the client the request was forwarded to; it only needed the CommandId"})
					case genuineSeen:
						if who == "V2" {
							run.Count("target_answer_delivered", 1)
						} else {
							run.Count("spoof_ignored_target_answer_delivered", 1)
						}
					default:
						run.Count("no_answer_observed", 1)
					}
					for _, role := range c11Roles {
						w.cl[role].DrainRaw()
					}
				}
			}
		}
	}
	run.Floor("target_answer_delivered", 2)
	if run.Counter("watchdog") > 0 {
		run.Floor("watchdog_free", 1)
	}
}

