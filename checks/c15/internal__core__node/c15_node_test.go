//go:build verif && verif_c15

package node

import (
	"context"
	"errors"
	"fmt"
	mrand "math/rand"
	"net"
	"runtime"
	"sort"
	"strings"
	"sync"
	"sync/atomic"
	"testing"
	"time"

	"github.com/alicebob/miniredis/v2"
	"github.com/anishathalye/porcupine"
	goredis "github.com/redis/go-redis/v9"

	"tunnox-core/internal/core/storage"
	"tunnox-core/internal/core/storage/memory"
	"tunnox-core/internal/core/storage/types"
	vk "tunnox-core/internal/verifkit"
)

// C15 (node ids) — N concurrent NodeIDAllocators ("starting nodes", each with its own
// storage client) on one store never hold the same node id at the same time, never get
// a slot that an earlier, unreleased allocation occupies, and fail cleanly when all
// 1000 slots are occupied. A second monitor follows one lease over time: while its
// holder is alive and its heartbeat runs, the id must not be handed to another node.

// ---------------------------------------------------------------- store doubles

type c15nStats struct {
	nxFalse atomic.Int64
	nxTrue  atomic.Int64
}

// c15nObs sits directly on the real backend: counts SetNX outcomes on slot keys and
// reports completed writes of slot keys (used by the lease monitor).
type c15nObs struct {
	types.FullStorage
	tier    string
	st      *c15nStats
	written func(tier, op, key string)
	onNX    func(key string, ok bool) // optional: told about every completed SetNX on a slot key
}

func (o *c15nObs) SetNX(key string, value any, ttl time.Duration) (bool, error) {
	ok, err := o.FullStorage.SetNX(key, value, ttl)
	if err == nil && strings.HasPrefix(key, NodeIDKeyPrefix) {
		if ok {
			o.st.nxTrue.Add(1)
		} else {
			o.st.nxFalse.Add(1)
		}
		if o.onNX != nil {
			o.onNX(key, ok)
		}
	}
	return ok, err
}

func (o *c15nObs) Set(key string, value any, ttl time.Duration) error {
	err := o.FullStorage.Set(key, value, ttl)
	if o.written != nil && strings.HasPrefix(key, NodeIDKeyPrefix) {
		o.written(o.tier, "Set", key)
	}
	return err
}

func (o *c15nObs) SetExpiration(key string, ttl time.Duration) error {
	err := o.FullStorage.SetExpiration(key, ttl)
	if o.written != nil && strings.HasPrefix(key, NodeIDKeyPrefix) {
		o.written(o.tier, "SetExpiration", key)
	}
	return err
}

// c15nPlain exposes only the mandatory Storage interface (no SetNX).
type c15nPlain struct {
	in types.FullStorage
	st *c15nStats
}

func (p *c15nPlain) Set(key string, v any, ttl time.Duration) error { return p.in.Set(key, v, ttl) }
func (p *c15nPlain) Get(key string) (any, error)                    { return p.in.Get(key) }
func (p *c15nPlain) Delete(key string) error                        { return p.in.Delete(key) }
func (p *c15nPlain) Exists(key string) (bool, error) {
	ok, err := p.in.Exists(key)
	if err == nil && ok && strings.HasPrefix(key, NodeIDKeyPrefix) {
		p.st.nxFalse.Add(1)
	}
	return ok, err
}
func (p *c15nPlain) SetExpiration(key string, ttl time.Duration) error {
	return p.in.SetExpiration(key, ttl)
}
func (p *c15nPlain) GetExpiration(key string) (time.Duration, error) { return p.in.GetExpiration(key) }
func (p *c15nPlain) CleanupExpired() error                           { return p.in.CleanupExpired() }
func (p *c15nPlain) Close() error                                    { return nil }

var c15nBackends = []string{"memory", "redis", "hybrid-shared", "hybrid-local", "no-setnx"}

type c15nCluster struct {
	backend string
	stores  []storage.Storage
	gates   []*vk.Gated
	cancel  context.CancelFunc
	mr      *miniredis.Miniredis
}

func (c *c15nCluster) close() {
	c.cancel()
	if c.mr != nil {
		c.mr.Close()
	}
}

func (c *c15nCluster) setHook(h vk.Hook) {
	for _, g := range c.gates {
		g.SetHook(h)
	}
}

// c15nRedisFault is a go-redis hook on every Redis client (BELOW the repository's
// redis.Storage): a seeded fraction of SET-if-absent commands fails with a
// transport-style error, half before the command is sent, half after the server applied
// it (lost reply).
type c15nRedisFault struct {
	mu       sync.Mutex
	r        *mrand.Rand
	perMille atomic.Int64
	before   atomic.Int64
	after    atomic.Int64
}

func (f *c15nRedisFault) DialHook(next goredis.DialHook) goredis.DialHook {
	return func(ctx context.Context, network, addr string) (net.Conn, error) { return next(ctx, network, addr) }
}
func (f *c15nRedisFault) ProcessPipelineHook(next goredis.ProcessPipelineHook) goredis.ProcessPipelineHook {
	return next
}
func (f *c15nRedisFault) ProcessHook(next goredis.ProcessHook) goredis.ProcessHook {
	return func(ctx context.Context, cmd goredis.Cmder) error {
		pm := int(f.perMille.Load())
		if pm == 0 || !c15nIsSetNX(cmd) {
			return next(ctx, cmd)
		}
		f.mu.Lock()
		x := f.r.Intn(1000)
		early := f.r.Intn(2) == 0
		f.mu.Unlock()
		if x >= pm {
			return next(ctx, cmd)
		}
		if early {
			f.before.Add(1)
			err := errors.New("verif: write tcp 10.0.0.2:51234->10.0.0.9:6379: connection reset (command not sent)")
			cmd.SetErr(err)
			return err
		}
		_ = next(ctx, cmd)
		f.after.Add(1)
		err := errors.New("verif: read tcp 10.0.0.2:51234->10.0.0.9:6379: i/o timeout (reply lost)")
		cmd.SetErr(err)
		return err
	}
}

func c15nIsSetNX(cmd goredis.Cmder) bool {
	switch strings.ToLower(cmd.Name()) {
	case "setnx":
		return true
	case "set":
		for _, a := range cmd.Args() {
			if s, ok := a.(string); ok && strings.EqualFold(s, "nx") {
				return true
			}
		}
	}
	return false
}

func c15nNewCluster(backend string, nodes int, st *c15nStats, written func(tier, op, key string), rf *c15nRedisFault) (*c15nCluster, error) {
	ctx, cancel := context.WithCancel(context.Background())
	c := &c15nCluster{backend: backend, cancel: cancel}
	gate := func(tier string, in types.FullStorage) *vk.Gated {
		g := vk.NewGated(tier, &c15nObs{FullStorage: in, tier: tier, st: st, written: written})
		c.gates = append(c.gates, g)
		return g
	}
	newRedis := func() (*storage.RedisStorage, error) {
		rs, err := storage.NewRedisStorage(ctx, &storage.RedisConfig{Addr: c.mr.Addr(), PoolSize: 3})
		if err == nil && rf != nil {
			rs.Client().AddHook(rf)
		}
		return rs, err
	}
	fail := func(err error) (*c15nCluster, error) { c.close(); return nil, err }
	switch backend {
	case "memory":
		g := gate("mem", memory.New(ctx))
		for i := 0; i < nodes; i++ {
			c.stores = append(c.stores, g)
		}
	case "no-setnx":
		p := &c15nPlain{in: gate("mem", memory.New(ctx)), st: st}
		for i := 0; i < nodes; i++ {
			c.stores = append(c.stores, p)
		}
	case "redis", "hybrid-shared":
		mr, err := miniredis.Run()
		if err != nil {
			return fail(err)
		}
		c.mr = mr
		for i := 0; i < nodes; i++ {
			rs, err := newRedis()
			if err != nil {
				return fail(err)
			}
			if backend == "redis" {
				c.stores = append(c.stores, gate(fmt.Sprintf("redis%d", i), rs))
			} else {
				local := gate(fmt.Sprintf("local%d", i), memory.New(ctx))
				shared := gate(fmt.Sprintf("shared%d", i), rs)
				c.stores = append(c.stores, storage.NewHybridStorageWithSharedCache(ctx, local, shared, nil, nil))
			}
		}
	case "hybrid-local":
		h := storage.NewHybridStorage(ctx, gate("local", memory.New(ctx)), nil, nil)
		for i := 0; i < nodes; i++ {
			c.stores = append(c.stores, h)
		}
	default:
		return fail(fmt.Errorf("unknown backend %q", backend))
	}
	return c, nil
}

// c15nYieldHook perturbs the interleaving and, when perMille > 0, makes that fraction
// of the SetNX/Set/Exists/Get/Delete calls on slot keys fail with vk.ErrInjected
// (injected before the operation is applied).
func c15nYieldHook(r *mrand.Rand, perMille int, injected *atomic.Int64) vk.Hook {
	var mu sync.Mutex
	return func(_, op, key string) error {
		mu.Lock()
		x := r.Intn(1000)
		y := r.Intn(1000)
		mu.Unlock()
		switch {
		case x < 600:
		case x < 880:
			runtime.Gosched()
		case x < 990:
			for i := 0; i < 4; i++ {
				runtime.Gosched()
			}
		default:
			time.Sleep(time.Duration(5+x%40) * time.Microsecond)
		}
		if perMille > 0 && y < perMille && strings.HasPrefix(key, NodeIDKeyPrefix) {
			switch op {
			case "SetNX", "Set", "Exists", "Get", "Delete":
				injected.Add(1)
				return vk.ErrInjected
			}
		}
		return nil
	}
}

func c15nInjected(err error) bool {
	return err != nil && strings.Contains(err.Error(), vk.ErrInjected.Error())
}

// ---------------------------------------------------------------- history

type c15nOp struct {
	ID     string `json:"id,omitempty"`
	Alloc  bool   `json:"alloc"` // true: AllocateNodeID, false: Release
	OK     bool   `json:"ok"`
	Err    string `json:"err,omitempty"`
	Call   int64  `json:"call"`
	Ret    int64  `json:"ret"`
	Thread int    `json:"thread"`
	Via    string `json:"via,omitempty"`
}

type c15nHist struct {
	clock atomic.Int64
	mu    sync.Mutex
	ops   []c15nOp
}

func (h *c15nHist) now() int64 { return h.clock.Add(1) }
func (h *c15nHist) add(op c15nOp) {
	h.mu.Lock()
	h.ops = append(h.ops, op)
	h.mu.Unlock()
}

var c15nModel = porcupine.Model{
	Init: func() interface{} { return false },
	Step: func(state, in, _ interface{}) (bool, interface{}) {
		if in.(bool) { // allocate
			if state.(bool) {
				return false, state
			}
			return true, true
		}
		return true, false
	},
}

func c15nCheck(ops []c15nOp) (bad [][]c15nOp, unknown, parts int) {
	by := map[string][]c15nOp{}
	for _, o := range ops {
		if o.Alloc && !o.OK {
			continue
		}
		by[o.ID] = append(by[o.ID], o)
	}
	keys := make([]string, 0, len(by))
	for k := range by {
		keys = append(keys, k)
	}
	sort.Strings(keys)
	for _, k := range keys {
		p := by[k]
		parts++
		allocs := 0
		for _, o := range p {
			if o.Alloc {
				allocs++
			}
		}
		if allocs < 2 {
			continue
		}
		h := make([]porcupine.Operation, 0, len(p))
		for i, o := range p {
			ret := o.Ret
			if !o.Alloc && !o.OK {
				ret = int64(1)<<60 + int64(i)
			}
			h = append(h, porcupine.Operation{ClientId: o.Thread, Input: o.Alloc, Call: o.Call, Output: o.OK, Return: ret})
		}
		switch porcupine.CheckOperationsTimeout(c15nModel, h, 60*time.Second) {
		case porcupine.Illegal:
			sort.Slice(p, func(i, j int) bool { return p[i].Call < p[j].Call })
			bad = append(bad, p)
		case porcupine.Unknown:
			unknown++
		}
	}
	return bad, unknown, parts
}

func c15nWitness(p []c15nOp) any {
	var al []c15nOp
	for _, o := range p {
		if o.Alloc {
			al = append(al, o)
		}
	}
	for i := 0; i < len(al); i++ {
		for j := i + 1; j < len(al); j++ {
			a, b := al[i], al[j]
			freed := false
			for _, o := range p {
				if !o.Alloc && o.Call < b.Ret && (o.Ret > a.Call || !o.OK) {
					freed = true
				}
			}
			if !freed {
				return map[string]any{"first": a, "second": b, "note": "no Release of this node id overlaps or lies between the two allocations"}
			}
		}
	}
	if len(p) > 40 {
		p = p[:40]
	}
	return map[string]any{"partition_history": p}
}

// ---------------------------------------------------------------- concurrent allocation

type c15nCase struct {
	Backend string `json:"backend"`
	N       int    `json:"allocators"`
	Rounds  int    `json:"rounds"`
	Preseed string `json:"preseed"` // none | prefix | all-but-one | all
	P       int    `json:"prefix_len,omitempty"`
	Hole    int    `json:"hole,omitempty"`
	MaxHold int    `json:"max_hold"`
	Fault   int    `json:"storage_fault_per_mille"`
	Reload  string `json:"prefix_hot_reload,omitempty"` // "", before-preseed, after-preseed
	Sub     int64  `json:"subseed"`
}

func c15nSlot(i int) string { return fmt.Sprintf("node-%04d", i) }

// c15nHotReload: ordinary runtime configuration update on hybrid stores through the
// public UpdatePersistentPrefixes (same list on even nodes, extended on odd ones); node
// leases must keep being arbitrated in the shared tier afterwards.
func c15nHotReload(stores []storage.Storage) int {
	n := 0
	seen := map[any]bool{}
	for i, st := range stores {
		h, ok := st.(interface {
			UpdatePersistentPrefixes([]string)
			GetConfig() *storage.HybridConfig
		})
		if !ok || seen[st] {
			continue
		}
		seen[st] = true
		list := append([]string(nil), h.GetConfig().PersistentPrefixes...)
		if i%2 == 1 {
			list = append(list, "tunnox:persist:verif-extra:")
		}
		h.UpdatePersistentPrefixes(list)
		n++
	}
	return n
}

func c15nRunCase(t *testing.T, run *vk.Run, cs c15nCase, fam *c15nStats) bool {
	rf := &c15nRedisFault{r: mrand.New(mrand.NewSource(cs.Sub ^ 0x4ed15))}
	cl, err := c15nNewCluster(cs.Backend, cs.N, fam, nil, rf)
	if err != nil {
		t.Fatalf("c15: cluster %s: %v", cs.Backend, err)
	}
	defer cl.close()
	ctx, cancel := context.WithCancel(context.Background())
	defer cancel() // stops every heartbeat goroutine
	h := &c15nHist{}
	seeded := map[string]bool{}
	var stop atomic.Bool

	// pre-occupied slots: marked by the allocator's own acquisition path of an "earlier node"
	var occ []int
	switch cs.Preseed {
	case "prefix":
		for i := NodeIDMin; i < NodeIDMin+cs.P; i++ {
			occ = append(occ, i)
		}
	case "all-but-one":
		for i := NodeIDMin; i <= NodeIDMax; i++ {
			if i != cs.Hole {
				occ = append(occ, i)
			}
		}
	case "all":
		for i := NodeIDMin; i <= NodeIDMax; i++ {
			occ = append(occ, i)
		}
	}
	if cs.Reload == "before-preseed" {
		run.Count("prefix_hot_reloads", int64(c15nHotReload(cl.stores)))
	}
	earlier := NewNodeIDAllocator(cl.stores[cs.N-1])
	for _, i := range occ {
		id := c15nSlot(i)
		c := h.now()
		ok, err := earlier.tryAcquireNodeID(NodeIDKeyPrefix+id, id)
		if err != nil || !ok {
			t.Fatalf("c15: pre-occupying %s failed: ok=%v err=%v", id, ok, err)
		}
		h.add(c15nOp{ID: id, Alloc: true, OK: true, Call: c, Ret: h.now(), Thread: 99, Via: "preseed"})
		seeded[id] = true
	}
	run.Count("preoccupied_slots", int64(len(occ)))
	if cs.Reload == "after-preseed" {
		run.Count("prefix_hot_reloads", int64(c15nHotReload(cl.stores)))
	}
	var injected atomic.Int64
	cl.setHook(c15nYieldHook(mrand.New(mrand.NewSource(cs.Sub^0x1e1d)), cs.Fault, &injected))
	rf.perMille.Store(int64(cs.Fault)) // armed only after the slots above were pre-occupied
	defer func() {
		rf.perMille.Store(0)
		run.Count("faults_injected", injected.Load())
		run.Count("redis_setnx_failed_before_apply", rf.before.Load())
		run.Count("redis_setnx_reply_lost_after_apply", rf.after.Load())
	}()

	sigTail := fmt.Sprintf("backend=%s", cs.Backend)
	sequential := cs.Backend == "no-setnx"
	type held struct {
		a  *NodeIDAllocator
		id string
	}
	worker := func(w int) {
		rr := mrand.New(mrand.NewSource(cs.Sub*131 + int64(w)))
		var own []held
		release := func(j int) {
			x := own[j]
			own = append(own[:j], own[j+1:]...)
			op := c15nOp{ID: x.id, Thread: w, Call: h.now()}
			err := x.a.Release()
			op.Ret = h.now()
			if c15nInjected(err) {
				// not applied: the slot stays occupied for the rest of the case and the
				// failed call creates no obligation (Release is not retried: the
				// allocator has already stopped its heartbeat)
				run.Count("release_failed_injected", 1)
				return
			}
			op.OK = err == nil
			if err != nil {
				op.Err = err.Error()
			}
			h.add(op)
			run.Count("release_ok", 1)
		}
		defer func() {
			if p := recover(); p != nil {
				run.Violation("C15:panic|op=node-allocate|"+sigTail, map[string]any{"case": cs, "panic": fmt.Sprint(p)})
			}
		}()
		for i := 0; i < cs.Rounds && !stop.Load(); i++ {
			if len(own) > 0 && (len(own) >= cs.MaxHold || rr.Intn(100) < 40) {
				release(rr.Intn(len(own)))
				continue
			}
			a := NewNodeIDAllocator(cl.stores[w])
			op := c15nOp{Alloc: true, Thread: w, Call: h.now()}
			id, err := a.AllocateNodeID(ctx)
			op.Ret = h.now()
			if err != nil {
				op.Err = err.Error()
				h.add(op)
				run.Count("allocate_failed", 1)
				run.Count("exhausted_"+cs.Backend, 1)
				// a node whose start-up failed holds nothing: it must not report an id
				// that belongs to somebody else, and shutting it down (Release) must not
				// free anybody's slot. Its Release is no Release of any id, so it is not
				// part of the history; later allocations reveal a freed slot.
				if g := a.GetNodeID(); g != "" {
					run.Count("failed_allocator_reports_id", 1)
					if seeded[g] {
						run.Violation("C15:failed-allocator-reports-foreign-node-id|"+sigTail, map[string]any{"case": cs, "GetNodeID": g, "allocate_error": err.Error(),
							"note": "AllocateNodeID returned an error; the reported id is held by an earlier allocator that never released it"})
					}
				}
				func() {
					defer func() {
						if p := recover(); p != nil {
							run.Violation("C15:panic|op=release-after-failed-allocate|"+sigTail, map[string]any{"case": cs, "panic": fmt.Sprint(p)})
						}
					}()
					_ = a.Release()
					run.Count("release_after_failed_allocate", 1)
				}()
				continue
			}
			op.OK, op.ID = true, id
			h.add(op)
			run.Count("allocate_ok", 1)
			if a.GetNodeID() != id {
				run.Violation("C15:allocator-reports-other-id|"+sigTail, map[string]any{"case": cs, "returned": id, "GetNodeID": a.GetNodeID()})
			}
			if seeded[id] {
				run.Violation("C15:occupied-node-id-handed-out|"+sigTail, map[string]any{"case": cs, "op": op, "note": "the slot was acquired by an earlier allocator and never released"})
			}
			if cs.Preseed == "all" {
				run.Violation("C15:allocate-succeeded-while-all-slots-occupied|"+sigTail, map[string]any{"case": cs, "op": op})
			}
			own = append(own, held{a, id})
		}
		for len(own) > 0 && !stop.Load() {
			release(0)
		}
	}
	done := make(chan struct{})
	go func() {
		defer close(done)
		if sequential {
			for w := 0; w < cs.N; w++ {
				worker(w)
			}
			return
		}
		var wg sync.WaitGroup
		for w := 0; w < cs.N; w++ {
			wg.Add(1)
			go func(w int) { defer wg.Done(); worker(w) }(w)
		}
		wg.Wait()
	}()
	select {
	case <-done:
	case <-time.After(150 * time.Second):
		stop.Store(true)
		run.Count("watchdog", 1)
		run.Observe("watchdog_case", cs)
		select {
		case <-done:
		case <-time.After(20 * time.Second):
		}
		return false
	}
	cl.setHook(nil)
	h.mu.Lock()
	ops := append([]c15nOp(nil), h.ops...)
	h.mu.Unlock()
	bad, unknown, parts := c15nCheck(ops)
	run.Count("history_ops", int64(len(ops)))
	run.Count("partitions_checked", int64(parts))
	run.Count("checker_timeouts", int64(unknown))
	for _, p := range bad {
		run.Violation("C15:duplicate-live-node-id|"+sigTail, map[string]any{"case": cs, "id": p[0].ID, "witness": c15nWitness(p)})
	}
	return unknown == 0
}

func TestVerifC15NodeAlloc(t *testing.T) {
	t.Parallel()
	vk.Quiet()
	run := vk.Start(t, "C15", "node-alloc")
	defer run.Finish()
	run.Rule("case = (backend in memory/redis(miniredis)/hybrid+shared redis/hybrid local/no-SetNX double (sequential), N in {2,4,8} concurrent NodeIDAllocators each on its own storage client, pre-occupied slots none/prefix/all-but-one/all 1000 marked through the allocator's own acquisition path, hold/release pattern; an allocator whose allocation failed is asked for GetNodeID and Released, then allocation continues); random yields at every storage operation, every second case with storage faults injected before 0.2-2.5% of the slot-key operations and, on the Redis-backed stores, transport errors injected below the Redis storage on SET-NX commands (command not sent / reply lost after it was applied); distinct = (backend,N,preseed,faults on/off)")
	r := run.Rand("cases")
	reps := run.Pick(4, 30)
	pre := []string{"none", "prefix", "all-but-one", "all"}
	fams := map[string]*c15nStats{}
	planned, decided := 0, 0
	aborted := false
	caseNo := 0
	for _, be := range c15nBackends {
		fams[be] = &c15nStats{}
		for _, ps := range pre {
			for rep := 0; rep < reps; rep++ {
				planned++
				if aborted || run.Violations() >= 20 {
					continue
				}
				n := []int{2, 4, 8}[(caseNo+rep)%3]
				caseNo++
				cs := c15nCase{Backend: be, N: n, Preseed: ps, Rounds: 12, MaxHold: 1 + r.Intn(3), Sub: r.Int63()}
				switch ps {
				case "prefix":
					cs.P = 1 + r.Intn(40)
				case "all-but-one":
					cs.Hole = NodeIDMin + r.Intn(NodeIDMax-NodeIDMin+1)
					cs.Rounds = 6
				case "all":
					cs.Rounds = 3
				}
				if be == "redis" || be == "hybrid-shared" {
					// every probe of an occupied slot is a network round trip
					if ps == "all-but-one" {
						cs.Rounds = 4
					}
				}
				if strings.HasPrefix(be, "hybrid") && rep%2 == 0 {
					cs.Reload = []string{"before-preseed", "after-preseed"}[(caseNo/2)%2]
				}
				if rep%2 == 1 {
					cs.Fault = []int{2, 8, 25}[r.Intn(3)]
				}
				run.Case(fmt.Sprintf("node-alloc|%s|N=%d|%s", be, n, ps), cs)
				if c15nRunCase(t, run, cs, fams[be]) {
					decided++
				} else if run.Counter("watchdog") > 0 {
					aborted = true
				}
				run.Eval(1)
				run.Distinct(fmt.Sprintf("%s|N=%d|%s|faults=%v", be, n, ps, cs.Fault > 0))
				run.Sample(cs)
			}
		}
		run.Count("collisions_"+be, fams[be].nxFalse.Load())
		run.Count("collisions", fams[be].nxFalse.Load())
		run.Count("setnx_won", fams[be].nxTrue.Load())
		run.Floor("collisions_"+be, 1000)
		run.Floor("exhausted_"+be, 1)
	}
	if decided == planned || (!aborted && run.Violations() >= 20) {
		run.Count("all_cases_decided", 1)
	}
	run.Floor("all_cases_decided", 1)
	run.Floor("allocate_ok", 50)
	run.Floor("release_ok", 50)
	run.Floor("faults_injected", 200)
	run.Floor("release_after_failed_allocate", 20)
	run.Floor("prefix_hot_reloads", 10)
	run.Floor("redis_setnx_failed_before_apply", 20)
	run.Floor("redis_setnx_reply_lost_after_apply", 20)
}

// The lease-over-time monitor (node-lease) lives in internal/core/idgen's harness
// (c15_lease_test.go): it only needs this package's exported API and overlaps its real
// 30 s heartbeat waits with the id-generator monitors there.

// TestVerifC15NodeJanitor — memory store with its janitor running (CleanupExpired in a
// tight loop on its own goroutine, 20 000 unexpired runtime entries so that a sweep
// takes a while) while N allocators compete for the lowest node-id slots. Expired but
// unswept leases exist all the time: leases of "nodes that crashed long ago" are written
// with a 1 ms TTL before the start, and a holder's lease "lapses" during the run (the
// harness rewrites it with a 1 ms TTL; recorded as a Release whose interval spans the
// expiry: from before the rewrite until after a sleep of twice the TTL). Such a lease is
// legitimately re-acquired by the next SetNX. Oracle unchanged (live-set model).
func TestVerifC15NodeJanitor(t *testing.T) {
	t.Parallel()
	vk.Quiet()
	run := vk.Start(t, "C15", "node-janitor")
	defer run.Finish()
	run.Rule("case = (memory store + 20000 unexpired runtime entries, CleanupExpired in a tight loop, D expired leases of crashed nodes on the lowest slots, N in {2,4,8} allocator goroutines: AllocateNodeID with a fresh allocator / Release / lease lapse (rewritten with 1 ms TTL, recorded as a Release spanning the expiry)); random yields at every storage op; distinct = (N,D,subseed)")
	r := run.Rand("janitor")
	reps := run.Pick(4, 24)
	const lapseTTL = time.Millisecond
	fam := &c15nStats{}
	planned, decided := 0, 0
	for _, n := range []int{2, 4, 8} {
		for rep := 0; rep < reps; rep++ {
			planned++
			if run.Violations() >= 20 {
				continue
			}
			sub := r.Int63()
			dead := r.Intn(6)
			cs := map[string]any{"allocators": n, "expired_leases_of_crashed_nodes": dead, "rounds": 30, "subseed": sub}
			run.Case(fmt.Sprintf("node-janitor|N=%d|D=%d", n, dead), cs)
			ok := func() bool {
				ctx, cancel := context.WithCancel(context.Background())
				defer cancel()
				mem := memory.New(ctx)
				for i := 0; i < 20000; i++ {
					_ = mem.Set(fmt.Sprintf("tunnox:runtime:junk:%d", i), "x", time.Hour)
				}
				var lapsed sync.Map
				var sweeping atomic.Bool
				var sweeps, reacq, reacqSweep atomic.Int64
				obs := &c15nObs{FullStorage: mem, tier: "mem", st: fam, onNX: func(key string, ok bool) {
					if !ok {
						return
					}
					if _, was := lapsed.LoadAndDelete(key); was {
						reacq.Add(1)
						if sweeping.Load() {
							reacqSweep.Add(1)
						}
					}
				}}
				gs := vk.NewGated("mem", obs)
				var inj atomic.Int64
				gs.SetHook(c15nYieldHook(mrand.New(mrand.NewSource(sub^0x1e1d)), 0, &inj))
				for i := NodeIDMin; i < NodeIDMin+dead; i++ {
					id := c15nSlot(i)
					lapsed.Store(NodeIDKeyPrefix+id, true)
					_ = mem.Set(NodeIDKeyPrefix+id, id, lapseTTL)
				}
				time.Sleep(2 * lapseTTL)
				h := &c15nHist{}
				var stop atomic.Bool
				stopJ := make(chan struct{})
				jDone := make(chan struct{})
				go func() {
					defer close(jDone)
					for {
						select {
						case <-stopJ:
							return
						default:
						}
						sweeping.Store(true)
						_ = mem.CleanupExpired()
						sweeping.Store(false)
						sweeps.Add(1)
						runtime.Gosched()
					}
				}()
				type held struct {
					a  *NodeIDAllocator
					id string
				}
				worker := func(w int) {
					defer func() {
						if p := recover(); p != nil {
							run.Violation("C15:panic|op=node-allocate|backend=memory+janitor", map[string]any{"case": cs, "panic": fmt.Sprint(p)})
						}
					}()
					rr := mrand.New(mrand.NewSource(sub*131 + int64(w)))
					var own []held
					for i := 0; i < 30 && !stop.Load(); i++ {
						if len(own) > 0 && (len(own) >= 2 || rr.Intn(100) < 50) {
							x := own[0]
							own = own[1:]
							if rr.Intn(100) < 60 {
								// the lease lapses (its holder is gone; Release is never called)
								key := NodeIDKeyPrefix + x.id
								op := c15nOp{ID: x.id, Thread: w, Via: "lease-lapsed", Call: h.now()}
								lapsed.Store(key, true)
								if err := gs.Set(key, x.id, lapseTTL); err != nil {
									lapsed.Delete(key)
									continue
								}
								time.Sleep(2 * lapseTTL)
								op.Ret = h.now()
								op.OK = true
								h.add(op)
								run.Count("leases_lapsed", 1)
							} else {
								op := c15nOp{ID: x.id, Thread: w, Call: h.now()}
								err := x.a.Release()
								op.Ret = h.now()
								op.OK = err == nil
								h.add(op)
								run.Count("release_ok", 1)
							}
							continue
						}
						a := NewNodeIDAllocator(gs)
						op := c15nOp{Alloc: true, Thread: w, Call: h.now()}
						id, err := a.AllocateNodeID(ctx)
						op.Ret = h.now()
						if err != nil {
							op.Err = err.Error()
							h.add(op)
							run.Count("allocate_failed", 1)
							continue
						}
						op.OK, op.ID = true, id
						h.add(op)
						run.Count("allocate_ok", 1)
						own = append(own, held{a, id})
					}
				}
				done := make(chan struct{})
				go func() {
					defer close(done)
					var wg sync.WaitGroup
					for w := 0; w < n; w++ {
						wg.Add(1)
						go func(w int) { defer wg.Done(); worker(w) }(w)
					}
					wg.Wait()
				}()
				conclusive := true
				select {
				case <-done:
				case <-time.After(120 * time.Second):
					stop.Store(true)
					run.Count("watchdog", 1)
					conclusive = false
					select {
					case <-done:
					case <-time.After(20 * time.Second):
					}
				}
				close(stopJ)
				<-jDone
				run.Count("sweeps", sweeps.Load())
				run.Count("lapsed_lease_reacquired", reacq.Load())
				run.Count("lapsed_lease_reacquired_while_sweep_running", reacqSweep.Load())
				if !conclusive {
					return false
				}
				h.mu.Lock()
				ops := append([]c15nOp(nil), h.ops...)
				h.mu.Unlock()
				bad, unknown, parts := c15nCheck(ops)
				run.Count("history_ops", int64(len(ops)))
				run.Count("partitions_checked", int64(parts))
				run.Count("checker_timeouts", int64(unknown))
				for _, p := range bad {
					run.Violation("C15:duplicate-live-node-id|backend=memory|janitor=running", map[string]any{"case": cs, "id": p[0].ID, "witness": c15nWitness(p)})
				}
				return unknown == 0
			}()
			if ok {
				decided++
			}
			run.Eval(1)
			run.Distinct(fmt.Sprintf("N=%d|D=%d|%d", n, dead, sub))
			run.Sample(cs)
		}
	}
	run.Count("collisions", fam.nxFalse.Load())
	if decided == planned || (run.Counter("watchdog") == 0 && run.Violations() >= 20) {
		run.Count("all_cases_decided", 1)
	}
	run.Floor("all_cases_decided", 1)
	run.Floor("sweeps", 200)
	run.Floor("leases_lapsed", 50)
	run.Floor("lapsed_lease_reacquired", 30)
	run.Floor("lapsed_lease_reacquired_while_sweep_running", 10)
}
