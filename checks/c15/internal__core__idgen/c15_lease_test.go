//go:build verif && verif_c15

package idgen

import (
	"context"
	"fmt"
	"runtime"
	"strings"
	"sync"
	"sync/atomic"
	"testing"
	"time"

	"github.com/alicebob/miniredis/v2"

	"tunnox-core/internal/core/node"
	"tunnox-core/internal/core/storage"
	"tunnox-core/internal/core/storage/memory"
	"tunnox-core/internal/core/storage/types"
	vk "tunnox-core/internal/verifkit"
)

// C15 (node-id lease over time). The monitor lives in this test binary (it only uses the
// exported API of internal/core/node) so that its unavoidable real-time waits — the
// allocator's heartbeat ticker is a hard-coded 30 s — overlap with the id-generator
// monitors instead of adding to the wall time.
//
// Node A allocates its node id and keeps running: it never calls Release and its
// heartbeat goroutine renews the lease on schedule. The store clock (miniredis) is
// advanced in lockstep between the observed heartbeats, always by less than the 90 s
// lease TTL per gap but, summed up, far beyond it: without EFFECTIVE renewals the lease
// would certainly have lapsed. A competing node (own storage client) allocates in every
// gap between two renewals: it must never be handed A's id.
//
// Clock skew between the application clock and the store clock is part of the
// environment (the lease protocol is stated in relative TTLs): some configurations run
// with the store clock minutes ahead of / behind the wall clock.

const c15LeaseKeyPrefix = node.NodeIDKeyPrefix

// c15LeaseObs sits directly on a real backend tier and reports completed writes of
// lease keys (tier.op), for the witness.
type c15LeaseObs struct {
	types.FullStorage
	tier    string
	written func(tierOp, key string)
}

func (o *c15LeaseObs) Set(key string, value any, ttl time.Duration) error {
	err := o.FullStorage.Set(key, value, ttl)
	if err == nil && strings.HasPrefix(key, c15LeaseKeyPrefix) {
		o.written(o.tier+".Set", key)
	}
	return err
}

func (o *c15LeaseObs) SetExpiration(key string, ttl time.Duration) error {
	err := o.FullStorage.SetExpiration(key, ttl)
	if err == nil && strings.HasPrefix(key, c15LeaseKeyPrefix) {
		o.written(o.tier+".SetExpiration", key)
	}
	return err
}

// Top-level wrappers handed to the allocator. They keep the full method set of the
// wrapped storage (the allocator type-asserts SetNXRuntime / SetNX) and report when a
// renewal call on a lease key has RETURNED, whether or not it reached any tier.
type c15LeaseHybrid struct {
	*storage.HybridStorage
	renewed func(key string)
}

func (w *c15LeaseHybrid) Set(key string, value any, ttl time.Duration) error {
	err := w.HybridStorage.Set(key, value, ttl)
	if strings.HasPrefix(key, c15LeaseKeyPrefix) {
		w.renewed(key)
	}
	return err
}

func (w *c15LeaseHybrid) SetRuntime(key string, value any, ttl time.Duration) error {
	err := w.HybridStorage.SetRuntime(key, value, ttl)
	if strings.HasPrefix(key, c15LeaseKeyPrefix) {
		w.renewed(key)
	}
	return err
}

func (w *c15LeaseHybrid) SetExpiration(key string, ttl time.Duration) error {
	err := w.HybridStorage.SetExpiration(key, ttl)
	if strings.HasPrefix(key, c15LeaseKeyPrefix) {
		w.renewed(key)
	}
	return err
}

type c15LeaseRedis struct {
	*storage.RedisStorage
	renewed func(key string)
}

func (w *c15LeaseRedis) Set(key string, value any, ttl time.Duration) error {
	err := w.RedisStorage.Set(key, value, ttl)
	if strings.HasPrefix(key, c15LeaseKeyPrefix) {
		w.renewed(key)
	}
	return err
}

func (w *c15LeaseRedis) SetExpiration(key string, ttl time.Duration) error {
	err := w.RedisStorage.SetExpiration(key, ttl)
	if strings.HasPrefix(key, c15LeaseKeyPrefix) {
		w.renewed(key)
	}
	return err
}

type c15LeaseScenario struct {
	Backend string        `json:"backend"` // redis | hybrid-shared-redis | hybrid-shared-memory
	Skew    time.Duration `json:"-"`       // store clock minus wall clock
	SkewS   string        `json:"store_clock_skew"`
	Advance time.Duration `json:"-"` // store-clock advance per gap (0: real time only)
	AdvS    string        `json:"advance_per_gap"`
	Beats   int           `json:"heartbeats"` // renewals to go through
}

func (sc c15LeaseScenario) name() string {
	return fmt.Sprintf("%s|skew=%s|%dx(+%s,probe,hb)", sc.Backend, sc.SkewS, sc.Beats, sc.AdvS)
}

func c15RunLease(t *testing.T, run *vk.Run, sc c15LeaseScenario) {
	ctx, cancel := context.WithCancel(context.Background())
	defer cancel()
	var mr *miniredis.Miniredis
	if sc.Backend != "hybrid-shared-memory" {
		var err error
		mr, err = miniredis.Run()
		if err != nil {
			t.Errorf("c15: lease: miniredis: %v", err)
			return
		}
		defer mr.Close()
		if sc.Skew != 0 {
			mr.SetTime(time.Now().Add(sc.Skew))
		}
	}
	leaseKey := c15LeaseKeyPrefix + "node-0001"
	var mu sync.Mutex
	var writes []string
	var armed atomic.Bool
	beat := make(chan struct{}, 64)
	written := func(tierOp, key string) {
		if key != leaseKey || !armed.Load() {
			return
		}
		mu.Lock()
		writes = append(writes, tierOp)
		mu.Unlock()
	}
	renewedBy := func(nodeIdx int) func(string) {
		return func(key string) {
			if nodeIdx != 0 || key != leaseKey || !armed.Load() {
				return
			}
			select {
			case beat <- struct{}{}:
			default:
			}
		}
	}
	var sharedMem *memory.Storage
	if sc.Backend == "hybrid-shared-memory" {
		sharedMem = memory.New(ctx)
	}
	newNode := func(i int) (storage.Storage, error) {
		switch sc.Backend {
		case "redis":
			rs, err := storage.NewRedisStorage(ctx, &storage.RedisConfig{Addr: mr.Addr(), PoolSize: 3})
			if err != nil {
				return nil, err
			}
			return &c15LeaseRedis{RedisStorage: rs, renewed: renewedBy(i)}, nil
		case "hybrid-shared-redis":
			rs, err := storage.NewRedisStorage(ctx, &storage.RedisConfig{Addr: mr.Addr(), PoolSize: 3})
			if err != nil {
				return nil, err
			}
			local := &c15LeaseObs{FullStorage: memory.New(ctx), tier: fmt.Sprintf("local%d", i), written: written}
			shared := &c15LeaseObs{FullStorage: rs, tier: fmt.Sprintf("shared%d(redis)", i), written: written}
			h := storage.NewHybridStorageWithSharedCache(ctx, local, shared, nil, nil)
			return &c15LeaseHybrid{HybridStorage: h, renewed: renewedBy(i)}, nil
		default: // hybrid-shared-memory: the nodes' hybrid instances share one memory-backed tier
			local := &c15LeaseObs{FullStorage: memory.New(ctx), tier: fmt.Sprintf("local%d", i), written: written}
			shared := &c15LeaseObs{FullStorage: sharedMem, tier: fmt.Sprintf("shared%d(memory)", i), written: written}
			h := storage.NewHybridStorageWithSharedCache(ctx, local, shared, nil, nil)
			return &c15LeaseHybrid{HybridStorage: h, renewed: renewedBy(i)}, nil
		}
	}
	stA, err := newNode(0)
	if err != nil {
		t.Errorf("c15: lease: node A storage: %v", err)
		return
	}
	stB, err := newNode(1)
	if err != nil {
		t.Errorf("c15: lease: node B storage: %v", err)
		return
	}
	run.Case("node-lease|"+sc.name(), sc)
	a := node.NewNodeIDAllocator(stA)
	idA, err := a.AllocateNodeID(ctx)
	if err != nil || idA != "node-0001" {
		t.Errorf("c15: lease: first allocation gave %q, %v", idA, err)
		return
	}
	lastRenewal := time.Now() // real time of the last point at which the lease was certainly (re)written or due
	armed.Store(true)
	trace := []string{"A.AllocateNodeID -> " + idA}
	violated := false
	noHeartbeat := false
	// probe: a competing node starts up now
	probe := func(gap int) bool {
		b := node.NewNodeIDAllocator(stB)
		idB, err := b.AllocateNodeID(ctx)
		trace = append(trace, fmt.Sprintf("gap %d: B.AllocateNodeID -> %q err=%v", gap, idB, err))
		run.Count("competitor_probes", 1)
		if err != nil {
			return true
		}
		if idB == idA {
			mu.Lock()
			ws := append([]string(nil), writes...)
			mu.Unlock()
			run.Violation("C15:node-id-reissued-while-holder-alive|backend="+sc.Backend, map[string]any{
				"scenario": sc, "trace": trace, "id": idA, "lease_key": leaseKey,
				"writes_that_reached_a_tier_after_allocation(tier.op)": ws,
				"holder_had_no_renewal_goroutine":                      noHeartbeat,
				"note":                                                 "A never called Release; unless holder_had_no_renewal_goroutine, its heartbeat returned from a renewal call in every period and every gap between renewals was below the 90 s lease TTL on the store clock",
			})
			violated = true
			return false
		}
		_ = b.Release() // the competitor shuts down again, freeing the other slot it got
		return true
	}
	for g := 1; g <= sc.Beats+1; g++ {
		if sc.Advance > 0 {
			mr.FastForward(sc.Advance)
			trace = append(trace, fmt.Sprintf("store clock +%s", sc.Advance))
		}
		if sc.Advance == 0 && time.Since(lastRenewal) > 75*time.Second {
			// real-time scenario: the holder did not get to renew on schedule (machine
			// stalled); the lease may legitimately lapse -> not judged
			run.Count("realtime_gap_too_long", 1)
			return
		}
		if !probe(g) {
			break
		}
		if g == sc.Beats+1 {
			break
		}
		if noHeartbeat {
			continue
		}
		select {
		case <-beat:
			lastRenewal = time.Now()
			run.Count("heartbeats_observed", 1)
			trace = append(trace, "A's heartbeat returned from its renewal call")
		case <-time.After(50 * time.Second):
			// No renewal call returned although more than one heartbeat period went by.
			// Late, or never coming? Decided by what exists, not by the clock: if no
			// goroutine at all is executing code of the node package, nothing can renew
			// A's lease any more although A is alive and unreleased. Then the history
			// simply continues (time passes on the store clock, the competitor probes)
			// and the ordinary oracle judges it. If such goroutines exist the renewal
			// may merely be late (stalled machine): inconclusive.
			n := c15NodePkgGoroutines()
			for i := 0; i < 4 && n > 0; i++ { // a competitor of another scenario may be inside AllocateNodeID right now
				time.Sleep(50 * time.Millisecond)
				n = c15NodePkgGoroutines()
			}
			if n > 0 {
				run.Count("watchdog", 1)
				run.Observe("watchdog_"+sc.Backend, fmt.Sprintf("no renewal call on the lease key within 50 s, %d goroutine(s) of the node package still exist", n))
				return
			}
			noHeartbeat = true
			run.Count("holder_without_renewal_goroutine", 1)
			trace = append(trace, "no renewal call returned within 50 s and no goroutine of package internal/core/node exists: A (alive, unreleased) will never renew")
		}
	}
	run.Eval(1)
	run.Distinct(sc.name())
	run.Count("lease_scenarios_decided", 1)
	mu.Lock()
	ws := append([]string(nil), writes...)
	mu.Unlock()
	run.Sample(map[string]any{"scenario": sc.name(), "A": idA, "violated": violated, "lease_writes_by_A": ws})
	if !violated {
		run.Count("lease_kept", 1)
	}
	_ = a.Release()
}

// c15NodePkgGoroutines counts goroutines that have a frame of the (non-test) node
// package on their stack, i.e. anything that could still renew a lease.
func c15NodePkgGoroutines() int {
	buf := make([]byte, 1<<20)
	for {
		n := runtime.Stack(buf, true)
		if n < len(buf) {
			buf = buf[:n]
			break
		}
		buf = make([]byte, 2*len(buf))
	}
	cnt := 0
	for _, g := range strings.Split(string(buf), "\n\n") {
		if strings.Contains(g, "tunnox-core/internal/core/node.") {
			cnt++
		}
	}
	return cnt
}

func TestVerifC15NodeLease(t *testing.T) {
	t.Parallel()
	vk.Quiet()
	run := vk.Start(t, "C15", "node-lease")
	defer run.Finish()
	run.Rule("scenario = (backend redis / hybrid with shared Redis tier (miniredis, store clock advanced in lockstep between observed heartbeats) / thorough: hybrid with a shared memory tier in real time; store clock skew 0, +5 min, -4 min against the wall clock; quick 2 heartbeats with +50 s per gap, thorough additionally 4 heartbeats with +30 s per gap); node A holds its id with its heartbeat running and is never released, a competing node allocates (and releases what it got) in every gap between renewals; distinct = (backend, skew, timeline)")
	mk := func(be string, skew time.Duration, adv time.Duration, beats int) c15LeaseScenario {
		return c15LeaseScenario{Backend: be, Skew: skew, SkewS: skew.String(), Advance: adv, AdvS: adv.String(), Beats: beats}
	}
	scs := []c15LeaseScenario{
		mk("redis", 0, 50*time.Second, 2),
		mk("redis", 5*time.Minute, 50*time.Second, 2),
		mk("redis", -4*time.Minute, 50*time.Second, 2),
		mk("hybrid-shared-redis", 0, 50*time.Second, 2),
		mk("hybrid-shared-redis", 5*time.Minute, 50*time.Second, 2),
		mk("hybrid-shared-redis", -4*time.Minute, 50*time.Second, 2),
	}
	if run.Thorough() {
		scs = append(scs,
			mk("redis", 0, 30*time.Second, 4),
			mk("hybrid-shared-redis", 0, 30*time.Second, 4),
			mk("hybrid-shared-redis", 10*time.Minute, 30*time.Second, 4),
			mk("hybrid-shared-memory", 0, 0, 4),
		)
	}
	var wg sync.WaitGroup
	for _, sc := range scs {
		sc := sc
		wg.Add(1)
		go func() {
			defer wg.Done()
			c15RunLease(t, run, sc)
		}()
	}
	wg.Wait()
	run.Floor("lease_scenarios_decided", int64(len(scs)))
	run.Floor("heartbeats_observed", int64(2*len(scs)))
	run.Floor("competitor_probes", int64(3*len(scs)))
}
