//go:build verif && verif_c15

package idgen

import (
	"context"
	crand "crypto/rand"
	"errors"
	"fmt"
	mrand "math/rand"
	"net"
	"runtime"
	"sort"
	"strconv"
	"strings"
	"sync"
	"sync/atomic"
	"testing"
	"time"

	"github.com/alicebob/miniredis/v2"
	"github.com/anishathalye/porcupine"
	"github.com/google/uuid"
	goredis "github.com/redis/go-redis/v9"

	"tunnox-core/internal/core/node"
	"tunnox-core/internal/core/storage"
	"tunnox-core/internal/core/storage/memory"
	"tunnox-core/internal/core/storage/types"
	"tunnox-core/internal/utils/random"
	vk "tunnox-core/internal/verifkit"
)

// C15 — generated identifiers are unique among live identifiers.
//
// Entropy fault: crypto/rand.Reader (a package variable) is replaced by a reader that
// can only emit K distinct 8-byte patterns, so every StorageIDGenerator draws its
// candidates from K values per kind and the collision branch runs all the time.
// G IDManager instances ("nodes") x 4 goroutines work on ONE store (memory, Redis
// client code over miniredis, hybrid(memory+shared miniredis), hybrid without shared
// cache, and a store double without SetNX for a single node). Every Generate/Release is
// recorded with call/return stamps of one logical clock and the history is checked with
// porcupine against the model "set of live ids", partitioned by id.

// ---------------------------------------------------------------- entropy fault

type c15Reader struct {
	mu    sync.Mutex
	r     *mrand.Rand
	pats  [][8]byte
	k     int
	force int // >=0: always this pattern
	draws atomic.Int64
}

func (c *c15Reader) Read(p []byte) (int, error) {
	c.mu.Lock()
	i := c.force
	if i < 0 {
		i = c.r.Intn(c.k)
	}
	pat := c.pats[i]
	c.mu.Unlock()
	c.draws.Add(1)
	for j := range p {
		p[j] = pat[j%8]
	}
	return len(p), nil
}

func (c *c15Reader) reset(k int, seed int64) {
	c.mu.Lock()
	c.k = k
	c.force = -1
	c.r = mrand.New(mrand.NewSource(seed))
	c.mu.Unlock()
}

func (c *c15Reader) setForce(i int) {
	c.mu.Lock()
	c.force = i
	c.mu.Unlock()
}

const c15MaxK = 64

// c15Entropy is what one test function works with: the installed reader and the ids
// each pattern maps to (computed with the real random.String / random.Int64).
type c15Entropy struct {
	rd      *c15Reader
	candStr []string // pattern -> random part of string ids
	candInt []int64  // pattern -> client id
}

// c15InstallEntropy swaps crypto/rand.Reader for the K-pattern reader until the test
// ends. Tests of this harness never run in parallel.
func c15InstallEntropy(t *testing.T, run *vk.Run) *c15Entropy {
	t.Helper()
	pr := run.Rand("patterns")
	rd := &c15Reader{k: c15MaxK, force: -1, r: mrand.New(mrand.NewSource(1))}
	orig := crand.Reader
	crand.Reader = rd
	uuid.SetRand(rd)
	t.Cleanup(func() {
		crand.Reader = orig
		uuid.SetRand(nil)
	})
	for try := 0; try < 100; try++ {
		rd.pats = make([][8]byte, c15MaxK)
		for i := range rd.pats {
			pr.Read(rd.pats[i][:])
		}
		e := &c15Entropy{rd: rd}
		seenS, seenI := map[string]bool{}, map[int64]bool{}
		ok := true
		for i := 0; i < c15MaxK; i++ {
			rd.setForce(i)
			s, err1 := random.String(RandomPartLength)
			n, err2 := random.Int64(ClientIDMin, ClientIDMax)
			if err1 != nil || err2 != nil || seenS[s] || seenI[n] || n < ClientIDMin || n > ClientIDMax {
				ok = false
				break
			}
			seenS[s], seenI[n] = true, true
			e.candStr = append(e.candStr, s)
			e.candInt = append(e.candInt, n)
		}
		rd.setForce(-1)
		if ok {
			return e
		}
	}
	t.Fatalf("c15: could not build %d patterns mapping to distinct ids", c15MaxK)
	return nil
}

// ---------------------------------------------------------------- kinds

type c15Kind struct {
	name      string
	keyPrefix string
	gen       func(m *IDManager) (string, error)
	rel       func(m *IDManager, id string) error
	cand      func(e *c15Entropy, i int) string
}

func c15StrKind(name, prefix, keyPrefix string, gen func(m *IDManager) (string, error), rel func(m *IDManager, id string) error) c15Kind {
	return c15Kind{name: name, keyPrefix: keyPrefix, gen: gen, rel: rel,
		cand: func(e *c15Entropy, i int) string { return prefix + e.candStr[i] }}
}

var c15Kinds = []c15Kind{
	{
		name: "client", keyPrefix: "tunnox:id:used:client",
		gen: func(m *IDManager) (string, error) {
			id, err := m.GenerateClientID()
			if err != nil {
				return "", err
			}
			return strconv.FormatInt(id, 10), nil
		},
		rel: func(m *IDManager, id string) error {
			n, _ := strconv.ParseInt(id, 10, 64)
			return m.ReleaseClientID(n)
		},
		cand: func(e *c15Entropy, i int) string { return strconv.FormatInt(e.candInt[i], 10) },
	},
	c15StrKind("user", PrefixUserID, "tunnox:id:used:user",
		func(m *IDManager) (string, error) { return m.GenerateUserID() },
		func(m *IDManager, id string) error { return m.ReleaseUserID(id) }),
	c15StrKind("mapping", PrefixPortMappingID, "tunnox:id:used:pmap",
		func(m *IDManager) (string, error) { return m.GeneratePortMappingID() },
		func(m *IDManager, id string) error { return m.ReleasePortMappingID(id) }),
	c15StrKind("node", PrefixNodeID, "tunnox:id:used:node",
		func(m *IDManager) (string, error) { return m.GenerateNodeID() },
		func(m *IDManager, id string) error { return m.ReleaseNodeID(id) }),
}

// ---------------------------------------------------------------- store doubles

type c15Stats struct {
	nxFalse atomic.Int64 // candidate collisions: SetNX returned false / Exists said taken (no-SetNX double)
	nxTrue  atomic.Int64
}

// c15Obs sits directly on the real backend and counts SetNX outcomes.
type c15Obs struct {
	types.FullStorage
	st   *c15Stats
	onNX func(key string, ok bool) // optional: told about every completed SetNX
}

func (o *c15Obs) SetNX(key string, value any, ttl time.Duration) (bool, error) {
	ok, err := o.FullStorage.SetNX(key, value, ttl)
	if err == nil && strings.HasPrefix(key, "tunnox:id:used:") {
		if ok {
			o.st.nxTrue.Add(1)
		} else {
			o.st.nxFalse.Add(1)
		}
		if o.onNX != nil {
			o.onNX(key, ok)
		}
	}
	return ok, err
}

// c15Plain exposes only the mandatory Storage interface (no SetNX): the generator
// falls back to Exists+Set under its own mutex.
type c15Plain struct {
	in types.FullStorage
	st *c15Stats
}

func (p *c15Plain) Set(key string, v any, ttl time.Duration) error { return p.in.Set(key, v, ttl) }
func (p *c15Plain) Get(key string) (any, error)                    { return p.in.Get(key) }
func (p *c15Plain) Delete(key string) error                        { return p.in.Delete(key) }
func (p *c15Plain) Exists(key string) (bool, error) {
	ok, err := p.in.Exists(key)
	if err == nil && ok && strings.HasPrefix(key, "tunnox:id:used:") {
		p.st.nxFalse.Add(1)
	}
	return ok, err
}
func (p *c15Plain) SetExpiration(key string, ttl time.Duration) error {
	return p.in.SetExpiration(key, ttl)
}
func (p *c15Plain) GetExpiration(key string) (time.Duration, error) { return p.in.GetExpiration(key) }
func (p *c15Plain) CleanupExpired() error                           { return p.in.CleanupExpired() }
func (p *c15Plain) Close() error                                    { return nil }

var _ storage.Storage = (*c15Plain)(nil)

var c15Backends = []string{"memory", "redis", "hybrid-shared", "hybrid-local", "no-setnx"}

// c15Cluster is G nodes on one store.
type c15Cluster struct {
	backend string
	stores  []storage.Storage // one per node
	gates   []*vk.Gated
	cancel  context.CancelFunc
	mr      *miniredis.Miniredis
}

func (c *c15Cluster) close() {
	c.cancel()
	if c.mr != nil {
		c.mr.Close()
	}
}

func (c *c15Cluster) setHook(h vk.Hook) {
	for _, g := range c.gates {
		g.SetHook(h)
	}
}

// c15RedisFault is a go-redis hook installed on every Redis client of a cluster: it
// sits BELOW the repository's redis.Storage, so the storage's own error paths run. A
// seeded fraction of the SET-if-absent commands fails with a transport-style error,
// half of them before the command reaches the server, half after the server applied it
// (lost reply).
type c15RedisFault struct {
	mu       sync.Mutex
	r        *mrand.Rand
	perMille atomic.Int64
	before   atomic.Int64
	after    atomic.Int64
}

func (f *c15RedisFault) DialHook(next goredis.DialHook) goredis.DialHook {
	return func(ctx context.Context, network, addr string) (net.Conn, error) { return next(ctx, network, addr) }
}
func (f *c15RedisFault) ProcessPipelineHook(next goredis.ProcessPipelineHook) goredis.ProcessPipelineHook {
	return next
}
func (f *c15RedisFault) ProcessHook(next goredis.ProcessHook) goredis.ProcessHook {
	return func(ctx context.Context, cmd goredis.Cmder) error {
		pm := int(f.perMille.Load())
		if pm == 0 || !c15IsSetNX(cmd) {
			return next(ctx, cmd)
		}
		f.mu.Lock()
		x := f.r.Intn(1000)
		early := f.r.Intn(2) == 0
		f.mu.Unlock()
		if x >= pm {
			return next(ctx, cmd)
		}
		if early {
			f.before.Add(1)
			err := errors.New("verif: write tcp 10.0.0.2:51234->10.0.0.9:6379: connection reset (command not sent)")
			cmd.SetErr(err)
			return err
		}
		_ = next(ctx, cmd)
		f.after.Add(1)
		err := errors.New("verif: read tcp 10.0.0.2:51234->10.0.0.9:6379: i/o timeout (reply lost)")
		cmd.SetErr(err)
		return err
	}
}

func c15IsSetNX(cmd goredis.Cmder) bool {
	switch strings.ToLower(cmd.Name()) {
	case "setnx":
		return true
	case "set":
		for _, a := range cmd.Args() {
			if s, ok := a.(string); ok && strings.EqualFold(s, "nx") {
				return true
			}
		}
	}
	return false
}

type c15ClusterOpts struct {
	cacheTTL   time.Duration  // > 0: hybrid instances get this (short) Default/Shared/Persistent cache TTL
	redisFault *c15RedisFault // installed on every Redis client
}

func c15NewCluster(backend string, nodes int, st *c15Stats, opts c15ClusterOpts) (*c15Cluster, error) {
	ctx, cancel := context.WithCancel(context.Background())
	c := &c15Cluster{backend: backend, cancel: cancel}
	hcfg := func() *storage.HybridConfig {
		if opts.cacheTTL <= 0 {
			return nil
		}
		cfg := storage.DefaultHybridConfig()
		cfg.DefaultCacheTTL, cfg.SharedCacheTTL, cfg.PersistentCacheTTL = opts.cacheTTL, opts.cacheTTL, opts.cacheTTL
		return cfg
	}
	gate := func(tier string, in types.FullStorage) *vk.Gated {
		g := vk.NewGated(tier, &c15Obs{FullStorage: in, st: st})
		c.gates = append(c.gates, g)
		return g
	}
	newRedis := func() (*storage.RedisStorage, error) {
		rs, err := storage.NewRedisStorage(ctx, &storage.RedisConfig{Addr: c.mr.Addr(), PoolSize: 6})
		if err == nil && opts.redisFault != nil {
			rs.Client().AddHook(opts.redisFault)
		}
		return rs, err
	}
	fail := func(err error) (*c15Cluster, error) { c.close(); return nil, err }
	switch backend {
	case "memory":
		g := gate("mem", memory.New(ctx))
		for i := 0; i < nodes; i++ {
			c.stores = append(c.stores, g)
		}
	case "no-setnx":
		if nodes != 1 {
			return fail(fmt.Errorf("no-setnx is a single-node configuration"))
		}
		c.stores = append(c.stores, &c15Plain{in: gate("mem", memory.New(ctx)), st: st})
	case "redis":
		mr, err := miniredis.Run()
		if err != nil {
			return fail(err)
		}
		c.mr = mr
		for i := 0; i < nodes; i++ {
			rs, err := newRedis()
			if err != nil {
				return fail(err)
			}
			c.stores = append(c.stores, gate("redis", rs))
		}
	case "hybrid-shared":
		mr, err := miniredis.Run()
		if err != nil {
			return fail(err)
		}
		c.mr = mr
		for i := 0; i < nodes; i++ {
			rs, err := newRedis()
			if err != nil {
				return fail(err)
			}
			local := gate("local", memory.New(ctx))
			shared := gate("shared", rs)
			c.stores = append(c.stores, storage.NewHybridStorageWithSharedCache(ctx, local, shared, nil, hcfg()))
		}
	case "hybrid-local":
		// single process, no shared cache: every "node" is an IDManager on the one hybrid store
		h := storage.NewHybridStorage(ctx, gate("local", memory.New(ctx)), nil, hcfg())
		for i := 0; i < nodes; i++ {
			c.stores = append(c.stores, h)
		}
	case "factory-redis-local-dbs", "factory-memory-local", "factory-redis-single-db", "factory-redis-storage":
		// Storages built the way the server builds them: through the real StorageFactory.
		// All nodes use ONE Redis server; what differs per configuration is which
		// database holds the node-local cache and which the shared cache. (No gates,
		// no fault hooks: the tiers are created inside the factory.)
		mr, err := miniredis.Run()
		if err != nil {
			return fail(err)
		}
		c.mr = mr
		for i := 0; i < nodes; i++ {
			var cfg storage.StorageConfig
			switch backend {
			case "factory-redis-local-dbs": // node-local cache in its own DB, shared cache in DB 0
				cfg = &storage.HybridStorageConfig{CacheType: "redis",
					RedisConfig:       &storage.RedisConfig{Addr: mr.Addr(), DB: i + 1, PoolSize: 6},
					SharedCacheConfig: &storage.RedisConfig{Addr: mr.Addr(), DB: 0, PoolSize: 6}}
			case "factory-memory-local": // memory local cache, shared cache in DB 3
				cfg = storage.NewHybridStorageFactoryConfig(&storage.HybridStorageConfig{CacheType: "memory",
					SharedCacheConfig: &storage.RedisConfig{Addr: mr.Addr(), DB: 3, PoolSize: 6}})
			case "factory-redis-single-db": // one Redis DB for local and shared data of every node
				cfg = &storage.HybridStorageConfig{CacheType: "redis",
					RedisConfig: &storage.RedisConfig{Addr: mr.Addr(), DB: 2, PoolSize: 6}}
			default: // plain Redis storage type
				cfg = storage.NewRedisStorageConfig(&storage.RedisConfig{Addr: mr.Addr(), DB: 1, PoolSize: 6})
			}
			st, err := storage.NewStorageFactory(ctx).CreateStorage(cfg)
			if err != nil {
				return fail(err)
			}
			c.stores = append(c.stores, st)
		}
	default:
		return fail(fmt.Errorf("unknown backend %q", backend))
	}
	return c, nil
}

// c15YieldHook perturbs the interleaving at every storage operation.
// c15Faults configures storage-fault injection in the gate hook: an injected fault makes
// the operation return vk.ErrInjected WITHOUT being applied.
type c15Faults struct {
	perMille int       // base rate on SetNX / Set / Exists / Delete of marker keys
	live     *sync.Map // marker keys of ids that are currently held (rate x4 there)
	injected atomic.Int64
	onLive   atomic.Int64
}

func c15YieldHook(r *mrand.Rand, f *c15Faults) vk.Hook {
	var mu sync.Mutex
	return func(_, op, key string) error {
		mu.Lock()
		x := r.Intn(1000)
		y := r.Intn(1000)
		mu.Unlock()
		switch {
		case x < 550:
		case x < 850:
			runtime.Gosched()
		case x < 985:
			for i := 0; i < 4; i++ {
				runtime.Gosched()
			}
		default:
			time.Sleep(time.Duration(5+x%40) * time.Microsecond)
		}
		if f == nil || f.perMille == 0 || !strings.HasPrefix(key, "tunnox:id:used:") {
			return nil
		}
		switch op {
		case "SetNX", "Set", "Exists", "Delete":
		default:
			return nil
		}
		rate := f.perMille
		_, held := f.live.Load(key)
		if held && op != "Delete" {
			rate *= 4
		}
		if y < rate {
			f.injected.Add(1)
			if held {
				f.onLive.Add(1)
			}
			return vk.ErrInjected
		}
		return nil
	}
}

func c15Injected(err error) bool {
	return err != nil && strings.Contains(err.Error(), vk.ErrInjected.Error())
}

// ---------------------------------------------------------------- history

type c15Op struct {
	Kind   string `json:"kind"`
	ID     string `json:"id,omitempty"`
	Gen    bool   `json:"gen"` // true: Generate, false: Release
	OK     bool   `json:"ok"`
	Err    string `json:"err,omitempty"`
	Call   int64  `json:"call"`
	Ret    int64  `json:"ret"`
	Node   int    `json:"node"`
	Thread int    `json:"thread"`
	Via    string `json:"via,omitempty"`
}

type c15Hist struct {
	clock atomic.Int64
	mu    sync.Mutex
	ops   []c15Op
}

func (h *c15Hist) now() int64 { return h.clock.Add(1) }
func (h *c15Hist) add(op c15Op) {
	h.mu.Lock()
	h.ops = append(h.ops, op)
	h.mu.Unlock()
}

type c15In struct{ gen bool }

var c15Model = porcupine.Model{
	Init: func() interface{} { return false },
	Step: func(state, in, _ interface{}) (bool, interface{}) {
		live := state.(bool)
		if in.(c15In).gen {
			if live {
				return false, state
			}
			return true, true
		}
		return true, false
	},
	DescribeOperation: func(in, _ interface{}) string {
		if in.(c15In).gen {
			return "generate"
		}
		return "release"
	},
}

const c15Inf = int64(1) << 60

// c15CheckHistory partitions by (kind,id) and checks each partition against the
// "set of live ids" model. It returns the partitions that are not linearizable and the
// number of partitions on which the checker timed out.
func c15CheckHistory(ops []c15Op) (bad [][]c15Op, unknown, parts int) {
	by := map[string][]c15Op{}
	for _, o := range ops {
		if o.Gen && !o.OK {
			continue // a failed Generate is always legal and names no id
		}
		by[o.Kind+":"+o.ID] = append(by[o.Kind+":"+o.ID], o)
	}
	keys := make([]string, 0, len(by))
	for k := range by {
		keys = append(keys, k)
	}
	sort.Strings(keys)
	for _, k := range keys {
		p := by[k]
		parts++
		// cheap pre-check: fewer than two generations cannot violate the model
		gens := 0
		for _, o := range p {
			if o.Gen {
				gens++
			}
		}
		if gens < 2 {
			continue
		}
		h := make([]porcupine.Operation, 0, len(p))
		for i, o := range p {
			ret := o.Ret
			if !o.Gen && !o.OK {
				ret = c15Inf + int64(i) // a failed Release may take effect at any later time
			}
			h = append(h, porcupine.Operation{ClientId: o.Node*16 + o.Thread, Input: c15In{gen: o.Gen}, Call: o.Call, Output: o.OK, Return: ret})
		}
		switch porcupine.CheckOperationsTimeout(c15Model, h, 60*time.Second) {
		case porcupine.Illegal:
			sort.Slice(p, func(i, j int) bool { return p[i].Call < p[j].Call })
			bad = append(bad, p)
		case porcupine.Unknown:
			unknown++
		}
	}
	return bad, unknown, parts
}

// c15Witness reduces a non-linearizable partition to two successful generations of
// the id with no release that could lie between them (if such a pair exists).
func c15Witness(p []c15Op) any {
	var gens []c15Op
	for _, o := range p {
		if o.Gen {
			gens = append(gens, o)
		}
	}
	for i := 0; i < len(gens); i++ {
		for j := i + 1; j < len(gens); j++ {
			a, b := gens[i], gens[j]
			freed := false
			for _, o := range p {
				if !o.Gen && o.Call < b.Ret && (o.Ret > a.Call || !o.OK) {
					freed = true
				}
			}
			if !freed {
				return map[string]any{"first": a, "second": b, "note": "no Release of this id overlaps or lies between the two generations"}
			}
		}
	}
	if len(p) > 40 {
		p = p[:40]
	}
	return map[string]any{"partition_history": p}
}

// ---------------------------------------------------------------- one case

type c15Case struct {
	Backend string `json:"backend"`
	K       int    `json:"k"`
	G       int    `json:"nodes"`
	Threads int    `json:"threads_per_node"`
	Ops     int    `json:"ops_per_thread"`
	Seed    string `json:"preseed"` // none | some | all-but-one | all
	RelPct  int    `json:"release_pct"`
	MaxOwn  int    `json:"max_owned"`
	Fault   int    `json:"storage_fault_per_mille"`
	SkewS   int    `json:"store_clock_skew_s,omitempty"`
	Reload  string `json:"prefix_hot_reload,omitempty"` // "", before-seed, after-seed, after-seed-one-node
	Sub     int64  `json:"subseed"`
}

type c15Owned struct {
	kind int
	id   string
}

type c15Env struct {
	run  *vk.Run
	ent  *c15Entropy
	cs   c15Case
	hist *c15Hist
	mgrs []*IDManager
	// ids that "exist in the database" for GenerateUniqueClientID's check function
	dbTaken map[int64]bool
	seeded  map[string]bool // kind:id
	live    sync.Map        // marker key -> held (only steers fault injection)
	stop    atomic.Bool
}

func (e *c15Env) nodes() string {
	if e.cs.G > 1 {
		return "multi"
	}
	return "single"
}

// generate performs one Generate of kind k on node n and records it.
func (e *c15Env) generate(n, th, k int, via string) (id string, ok bool) {
	kd := c15Kinds[k]
	op := c15Op{Kind: kd.name, Gen: true, Node: n, Thread: th, Via: via}
	defer func() {
		if p := recover(); p != nil {
			op.Ret = e.hist.now()
			op.Err = fmt.Sprint("panic: ", p)
			e.hist.add(op)
			e.run.Violation(fmt.Sprintf("C15:panic|op=generate|backend=%s", e.cs.Backend), map[string]any{"case": e.cs, "op": op})
			id, ok = "", false
		}
	}()
	op.Call = e.hist.now()
	var err error
	if via == "unique" {
		var n64 int64
		n64, err = e.mgrs[n].GenerateUniqueClientID(func(x int64) (bool, error) { return e.dbTaken[x], nil })
		if err == nil {
			id = strconv.FormatInt(n64, 10)
		}
	} else {
		id, err = kd.gen(e.mgrs[n])
	}
	op.Ret = e.hist.now()
	if err != nil {
		op.Err = err.Error()
		e.hist.add(op)
		e.run.Count("generate_failed", 1)
		if errors.Is(err, ErrIDExhausted) {
			e.run.Count("exhausted", 1)
			e.run.Count("exhausted_"+e.cs.Backend, 1)
		} else {
			e.run.Count("generate_failed_other_error", 1)
		}
		return "", false
	}
	op.OK, op.ID = true, id
	e.hist.add(op)
	e.live.Store(kd.keyPrefix+":"+id, true)
	e.run.Count("generate_ok", 1)
	if e.seeded[kd.name+":"+id] {
		e.run.Violation(fmt.Sprintf("C15:preseeded-id-handed-out|backend=%s", e.cs.Backend),
			map[string]any{"case": e.cs, "op": op, "note": "the marker of this id was created by an earlier Generate and never released"})
	}
	if via == "unique" {
		if n64, _ := strconv.ParseInt(id, 10, 64); e.dbTaken[n64] {
			e.run.Violation(fmt.Sprintf("C15:unique-client-id-exists-per-check|backend=%s", e.cs.Backend), map[string]any{"case": e.cs, "op": op})
		}
	}
	return id, true
}

// release performs one Release and records it. It returns false when the Release
// failed with an injected fault: such an operation was not applied, creates no
// obligation, is left out of the history, and the caller still owns the id.
func (e *c15Env) release(n, th int, o c15Owned) (released bool) {
	kd := c15Kinds[o.kind]
	op := c15Op{Kind: kd.name, ID: o.id, Gen: false, Node: n, Thread: th}
	released = true
	defer func() {
		if p := recover(); p != nil {
			op.Ret = e.hist.now()
			op.Err = fmt.Sprint("panic: ", p)
			e.hist.add(op)
			e.run.Violation(fmt.Sprintf("C15:panic|op=release|backend=%s", e.cs.Backend), map[string]any{"case": e.cs, "op": op})
		}
	}()
	e.live.Delete(kd.keyPrefix + ":" + o.id)
	op.Call = e.hist.now()
	err := kd.rel(e.mgrs[n], o.id)
	op.Ret = e.hist.now()
	if c15Injected(err) {
		e.live.Store(kd.keyPrefix+":"+o.id, true)
		e.run.Count("release_failed_injected", 1)
		return false
	}
	if err != nil {
		op.Err = err.Error()
		e.run.Count("release_failed", 1)
	} else {
		op.OK = true
		e.run.Count("release_ok", 1)
	}
	e.hist.add(op)
	return true
}

// uniqueAllTaken calls the three GenerateUnique* helpers of node n with a check
// function that answers "exists" for every candidate.
func (e *c15Env) uniqueAllTaken(n int, owned [][]c15Owned) {
	m := e.mgrs[n]
	type api struct {
		name string
		kind int
		call func() (string, error)
	}
	apis := []api{
		{"GenerateUniqueClientID", 0, func() (string, error) {
			id, err := m.GenerateUniqueClientID(func(int64) (bool, error) { return true, nil })
			return strconv.FormatInt(id, 10), err
		}},
		{"GenerateUniquePortMappingID", 2, func() (string, error) {
			return m.GenerateUniquePortMappingID(func(string) (bool, error) { return true, nil })
		}},
		{"GenerateUniqueNodeID", 3, func() (string, error) {
			return m.GenerateUniqueNodeID(func(string) (bool, error) { return true, nil })
		}},
	}
	for _, a := range apis {
		a := a
		op := c15Op{Kind: c15Kinds[a.kind].name, Gen: true, Node: n, Thread: 0, Via: a.name + "(check=always exists)"}
		func() {
			defer func() {
				if p := recover(); p != nil {
					e.run.Violation(fmt.Sprintf("C15:panic|op=%s|backend=%s", a.name, e.cs.Backend), map[string]any{"case": e.cs, "panic": fmt.Sprint(p)})
				}
			}()
			op.Call = e.hist.now()
			id, err := a.call()
			op.Ret = e.hist.now()
			if err != nil {
				op.Err = err.Error()
				e.hist.add(op)
				e.run.Count("unique_all_taken_refused", 1)
				return
			}
			op.OK, op.ID = true, id
			e.hist.add(op)
			owned[n*e.cs.Threads] = append(owned[n*e.cs.Threads], c15Owned{a.kind, id})
			e.run.Violation(fmt.Sprintf("C15:unique-id-returned-although-check-says-taken|api=%s", a.name),
				map[string]any{"case": e.cs, "op": op, "note": "the check function reported every candidate as existing; the helper must fail after its attempts instead of returning one of them"})
		}()
	}
}

// c15HotReload performs an ordinary runtime configuration update on hybrid stores: the
// persistent-prefix list is re-applied (same list on even nodes, extended list on odd
// ones) through the public UpdatePersistentPrefixes. Keys under shared prefixes (id
// markers, node leases) must keep being arbitrated in the shared tier afterwards.
func c15HotReload(stores []storage.Storage, onlyNode int) int {
	n := 0
	seen := map[any]bool{}
	for i, st := range stores {
		if onlyNode >= 0 && i != onlyNode {
			continue
		}
		h, ok := st.(interface {
			UpdatePersistentPrefixes([]string)
			GetConfig() *storage.HybridConfig
		})
		if !ok || seen[st] {
			continue
		}
		seen[st] = true
		list := append([]string(nil), h.GetConfig().PersistentPrefixes...)
		if i%2 == 1 {
			list = append(list, "tunnox:persist:verif-extra:")
		}
		h.UpdatePersistentPrefixes(list)
		n++
	}
	return n
}

// c15RunCase executes one case; false = watchdog fired (inconclusive).
func c15RunCase(t *testing.T, run *vk.Run, ent *c15Entropy, cs c15Case, fam *c15Stats) bool {
	rf := &c15RedisFault{r: mrand.New(mrand.NewSource(cs.Sub ^ 0x4ed15))}
	cl, err := c15NewCluster(cs.Backend, cs.G, fam, c15ClusterOpts{redisFault: rf})
	if err != nil {
		t.Fatalf("c15: cluster %s: %v", cs.Backend, err)
	}
	defer cl.close()
	ctx, cancel := context.WithCancel(context.Background())
	defer cancel()
	e := &c15Env{run: run, ent: ent, cs: cs, hist: &c15Hist{}, dbTaken: map[int64]bool{}, seeded: map[string]bool{}}
	for i := 0; i < cs.G; i++ {
		e.mgrs = append(e.mgrs, NewIDManager(cl.stores[i], ctx))
	}
	r := mrand.New(mrand.NewSource(cs.Sub))
	ent.rd.reset(cs.K, cs.Sub^0x5eed)

	// ids that exist "in the database" without a marker (client kind only)
	for i := 0; i < cs.K; i++ {
		if cs.K > 1 && r.Intn(4) == 0 && len(e.dbTaken) < cs.K-1 {
			e.dbTaken[ent.candInt[i]] = true
		}
	}

	if cs.Reload == "before-seed" {
		run.Count("prefix_hot_reloads", int64(c15HotReload(cl.stores, -1)))
	}
	// ---- phase 0: pre-existing markers, created by the real Generate of the last node
	seedNode := cs.G - 1
	for k := range c15Kinds {
		var idx []int
		switch cs.Seed {
		case "some":
			for i := 0; i < cs.K; i++ {
				if r.Intn(3) == 0 {
					idx = append(idx, i)
				}
			}
		case "all-but-one":
			skip := r.Intn(cs.K)
			for i := 0; i < cs.K; i++ {
				if i != skip {
					idx = append(idx, i)
				}
			}
		case "all":
			for i := 0; i < cs.K; i++ {
				idx = append(idx, i)
			}
		}
		for _, i := range idx {
			ent.rd.setForce(i)
			id, ok := e.generate(seedNode, 99, k, "seed")
			if !ok || id != c15Kinds[k].cand(ent, i) {
				ent.rd.setForce(-1)
				t.Fatalf("c15: seeding %s pattern %d failed: id=%q ok=%v want %q", c15Kinds[k].name, i, id, ok, c15Kinds[k].cand(ent, i))
			}
			e.seeded[c15Kinds[k].name+":"+id] = true
			run.Count("preseeded_markers", 1)
		}
	}
	ent.rd.setForce(-1)
	switch cs.Reload {
	case "after-seed":
		run.Count("prefix_hot_reloads", int64(c15HotReload(cl.stores, -1)))
	case "after-seed-one-node":
		run.Count("prefix_hot_reloads", int64(c15HotReload(cl.stores, 0)))
	}
	faults := &c15Faults{perMille: cs.Fault, live: &e.live}
	cl.setHook(c15YieldHook(mrand.New(mrand.NewSource(cs.Sub^0x1e1d)), faults))
	rf.perMille.Store(int64(cs.Fault)) // armed only now: seeding above ran without faults
	if cl.mr != nil && cs.SkewS != 0 {
		// environmental clock skew: the Redis host's clock differs from the wall clock
		cl.mr.SetTime(time.Now().Add(time.Duration(cs.SkewS) * time.Second))
		run.Count("cases_with_store_clock_skew", 1)
	}
	defer func() {
		rf.perMille.Store(0)
		run.Count("redis_setnx_failed_before_apply", rf.before.Load())
		run.Count("redis_setnx_reply_lost_after_apply", rf.after.Load())
		run.Count("faults_injected", faults.injected.Load())
		run.Count("faults_injected_on_held_id", faults.onLive.Load())
	}()

	nthreads := cs.G * cs.Threads
	owned := make([][]c15Owned, nthreads)
	rands := make([]*mrand.Rand, nthreads)
	for i := range rands {
		rands[i] = mrand.New(mrand.NewSource(cs.Sub*131 + int64(i)))
	}
	parallel := func(f func(n, th, w int)) {
		var wg sync.WaitGroup
		for w := 0; w < nthreads; w++ {
			wg.Add(1)
			go func(w int) {
				defer wg.Done()
				f(w/cs.Threads, w%cs.Threads, w)
			}(w)
		}
		wg.Wait()
	}

	done := make(chan struct{})
	go func() {
		defer close(done)
		// ---- phase 1: mixed Generate / Release
		parallel(func(n, th, w int) {
			rr := rands[w]
			for i := 0; i < cs.Ops && !e.stop.Load(); i++ {
				if len(owned[w]) > 0 && (len(owned[w]) >= cs.MaxOwn || rr.Intn(100) < cs.RelPct) {
					j := rr.Intn(len(owned[w]))
					o := owned[w][j]
					if e.release(n, th, o) {
						owned[w] = append(owned[w][:j], owned[w][j+1:]...)
					}
					continue
				}
				k := rr.Intn(len(c15Kinds))
				via := ""
				if k == 0 && rr.Intn(3) == 0 {
					via = "unique"
				}
				if id, ok := e.generate(n, th, k, via); ok {
					owned[w] = append(owned[w], c15Owned{k, id})
				}
			}
		})
		// ---- phase 2: fill until generation fails
		parallel(func(n, th, w int) {
			rr := rands[w]
			for _, k := range rr.Perm(len(c15Kinds)) {
				for i := 0; i < cs.K*3+4 && !e.stop.Load(); i++ {
					id, ok := e.generate(n, th, k, "fill")
					if !ok {
						break
					}
					owned[w] = append(owned[w], c15Owned{k, id})
				}
			}
		})
		// ---- phase 3 (quiescent point): kinds whose K candidates are all live must refuse
		live := map[string]bool{}
		for k := range e.seeded {
			live[k] = true
		}
		for _, os := range owned {
			for _, o := range os {
				live[c15Kinds[o.kind].name+":"+o.id] = true
			}
		}
		full := make([]bool, len(c15Kinds))
		for k, kd := range c15Kinds {
			full[k] = true
			for i := 0; i < cs.K; i++ {
				if !live[kd.name+":"+kd.cand(ent, i)] {
					full[k] = false
				}
			}
			if full[k] {
				run.Count("kinds_saturated", 1)
			} else {
				run.Count("kinds_not_saturated", 1)
			}
		}
		parallel(func(n, th, w int) {
			for k := range c15Kinds {
				if !full[k] || e.stop.Load() {
					continue
				}
				id, ok := e.generate(n, th, k, "saturated")
				if ok {
					owned[w] = append(owned[w], c15Owned{k, id})
					run.Violation(fmt.Sprintf("C15:generate-succeeded-while-all-candidates-live|backend=%s", cs.Backend),
						map[string]any{"case": cs, "kind": c15Kinds[k].name, "id": id, "note": "all K candidate ids of this kind were live (generated or pre-seeded, none released) at a quiescent point"})
				} else {
					run.Count("refused_while_saturated", 1)
				}
			}
		})
		// ---- phase 4: release everything, then ids must be obtainable again
		parallel(func(n, th, w int) {
			var kept []c15Owned
			for _, o := range owned[w] {
				ok := false
				for try := 0; try < 6 && !ok; try++ {
					ok = e.release(n, th, o)
				}
				if !ok {
					kept = append(kept, o)
				}
			}
			owned[w] = kept
		})
		// ---- phase 4b: the GenerateUnique* helpers with a check that reports every
		// candidate as already existing (e.g. the repository still knows all of them):
		// no free id can be found, so each call must fail instead of handing out an id
		// the check has just declared taken.
		for n := 0; n < cs.G && !e.stop.Load(); n++ {
			e.uniqueAllTaken(n, owned)
		}
		parallel(func(n, th, w int) {
			k := rands[w].Intn(len(c15Kinds))
			if id, ok := e.generate(n, th, k, "after-release"); ok {
				owned[w] = append(owned[w], c15Owned{k, id})
				run.Count("regenerated_after_release", 1)
			}
		})
	}()
	select {
	case <-done:
	case <-time.After(150 * time.Second):
		e.stop.Store(true)
		run.Count("watchdog", 1)
		run.Observe("watchdog_case", cs)
		select {
		case <-done:
		case <-time.After(20 * time.Second):
		}
		return false
	}
	cl.setHook(nil)

	// ---- oracle
	e.hist.mu.Lock()
	ops := append([]c15Op(nil), e.hist.ops...)
	e.hist.mu.Unlock()
	cands := map[string]bool{}
	for _, kd := range c15Kinds {
		for i := 0; i < cs.K; i++ {
			cands[kd.name+":"+kd.cand(ent, i)] = true
		}
	}
	for _, o := range ops {
		if o.Gen && o.OK && !cands[o.Kind+":"+o.ID] {
			t.Fatalf("c15: entropy fault not effective: %s id %q is not one of the %d candidates", o.Kind, o.ID, cs.K)
		}
	}
	bad, unknown, parts := c15CheckHistory(ops)
	run.Count("history_ops", int64(len(ops)))
	run.Count("partitions_checked", int64(parts))
	run.Count("checker_timeouts", int64(unknown))
	for _, p := range bad {
		run.Violation(fmt.Sprintf("C15:duplicate-live-id|backend=%s|nodes=%s", cs.Backend, e.nodes()),
			map[string]any{"case": cs, "kind": p[0].Kind, "id": p[0].ID, "witness": c15Witness(p)})
	}
	return unknown == 0
}

// ---------------------------------------------------------------- tests

func c15TestCluster(t *testing.T) {
	vk.Quiet()
	run := vk.Start(t, "C15", "idgen-cluster")
	defer run.Finish()
	run.Rule("case = (backend in memory/redis(miniredis)/hybrid+shared redis/hybrid local/no-SetNX double, K in {1,2,4,16,64} candidate ids per kind via a K-pattern crypto/rand.Reader, G in {1,2,4} IDManager nodes x 4 goroutines, pre-seed pattern none/some/all-but-one/all, release ratio); phases: seed via real Generate, mixed Generate/Release with random yields at every storage op and (2 of 3 cases) storage faults injected before SetNX/Set/Exists/Delete of marker keys at 0.5-4% (x4 on SetNX/Exists of a currently held id) plus, on the Redis-backed stores, transport errors injected below the Redis storage on SET-NX commands (before the command is sent / reply lost after it was applied), on hybrid stores in 2 of 3 cases a runtime UpdatePersistentPrefixes (config hot reload) before or after seeding on all nodes or one; fill to saturation, saturated probes, release all, regenerate; distinct = (backend,K,G,preseed,faults on/off)")
	ent := c15InstallEntropy(t, run)
	r := run.Rand("cases")
	reps := run.Pick(3, 30)
	ks := []int{1, 2, 4, 16, 64}
	seeds := []string{"none", "some", "all-but-one", "all"}
	fams := map[string]*c15Stats{}
	planned, decided := 0, 0
	aborted := false
	start := time.Now()
	caseNo := 0
	for _, be := range c15Backends {
		fams[be] = &c15Stats{}
		for _, k := range ks {
			for rep := 0; rep < reps; rep++ {
				planned++
				if aborted || run.Violations() >= 20 {
					continue
				}
				g := []int{1, 2, 4}[(caseNo+rep)%3]
				if be == "no-setnx" {
					g = 1
				}
				caseNo++
				cs := c15Case{Backend: be, K: k, G: g, Threads: 4, Seed: seeds[r.Intn(len(seeds))], RelPct: 25 + r.Intn(40), Sub: r.Int63()}
				if rep%3 != 0 {
					cs.Fault = []int{5, 15, 40}[r.Intn(3)]
				}
				if strings.HasPrefix(be, "hybrid") && rep%3 != 1 {
					cs.Reload = []string{"before-seed", "after-seed", "after-seed-one-node"}[(caseNo+k)%3]
				}
				if (be == "redis" || be == "hybrid-shared") && rep%2 == 1 {
					cs.SkewS = []int{-600, -120, 120, 600}[r.Intn(4)]
				}
				cs.Ops = 400 / (cs.G * cs.Threads)
				cs.MaxOwn = 1 + r.Intn(1+4*k/(cs.G*cs.Threads)+1)
				if k == 1 && cs.Seed == "all-but-one" {
					cs.Seed = "none"
				}
				run.Case(fmt.Sprintf("cluster|%s|K=%d|G=%d|%s", be, k, g, cs.Seed), cs)
				if c15RunCase(t, run, ent, cs, fams[be]) {
					decided++
				} else if run.Counter("watchdog") > 0 {
					aborted = true // a stuck case may still hold goroutines on the shared reader
				}
				run.Eval(1)
				run.Distinct(fmt.Sprintf("%s|K=%d|G=%d|%s|faults=%v|reload=%s", be, k, g, cs.Seed, cs.Fault > 0, cs.Reload))
				run.Sample(cs)
				run.Count("cases_"+be, 1)
			}
		}
		run.Count("collisions_"+be, fams[be].nxFalse.Load())
		run.Count("collisions", fams[be].nxFalse.Load())
		run.Count("setnx_won", fams[be].nxTrue.Load())
		run.Floor("collisions_"+be, 1000)
		run.Floor("exhausted_"+be, 1)
	}
	run.Count("entropy_draws", ent.rd.draws.Load())
	run.Observe("wall_s_cases", time.Since(start).Seconds())
	if decided == planned || (!aborted && run.Violations() >= 20) {
		run.Count("all_cases_decided", 1)
	}
	run.Floor("all_cases_decided", 1)
	run.Floor("collisions", 1000)
	run.Floor("exhausted", 1)
	run.Floor("refused_while_saturated", 10)
	run.Floor("regenerated_after_release", 10)
	run.Floor("preseeded_markers", 10)
	run.Floor("faults_injected", 200)
	run.Floor("faults_injected_on_held_id", 50)
	run.Floor("redis_setnx_failed_before_apply", 50)
	run.Floor("redis_setnx_reply_lost_after_apply", 50)
	run.Floor("unique_all_taken_refused", 100)
	run.Floor("prefix_hot_reloads", 10)
}

// TestVerifC15Sched drives small scenarios under the cooperative scheduler: one
// generator instance per thread on one gated memory store; every storage operation is
// a scheduling point. All schedules with at most two preemptions are enumerated for the
// small scripts, random schedules are drawn for the scripts that reach exhaustion.
func c15TestSched(t *testing.T) {
	vk.Quiet()
	run := vk.Start(t, "C15", "idgen-sched")
	defer run.Finish()
	run.Rule("scenario = (K, threads, script of Generate/Release per thread, each thread with its own StorageIDGenerator on one gated memory store); some scenarios with storage faults injected before SetNX/Delete; schedules: exhaustive with <=2 preemptions (small scripts) and seeded random choice at every storage operation (scripts with exhaustion); distinct = schedule fingerprint")
	ent := c15InstallEntropy(t, run)
	fam := &c15Stats{}
	r := run.Rand("sched")
	stalled := 0

	type scen struct {
		name    string
		k       int
		scripts []string // per thread: g = generate, r = release oldest owned
		seedAll bool
		fault   int // per mille of SetNX/Delete calls that fail (injected before the operation is applied)
	}
	check := func(sc scen, h *c15Hist, trace []string, mode string) {
		ops := h.ops
		bad, unknown, parts := c15CheckHistory(ops)
		run.Count("partitions_checked", int64(parts))
		run.Count("history_ops", int64(len(ops)))
		run.Count("checker_timeouts", int64(unknown))
		for _, p := range bad {
			if len(trace) > 400 {
				trace = trace[:400]
			}
			run.Violation(fmt.Sprintf("C15:duplicate-live-id|backend=memory|nodes=multi|sched=%s", mode),
				map[string]any{"scenario": sc.name, "k": sc.k, "scripts": sc.scripts, "id": p[0].ID, "witness": c15Witness(p), "schedule": trace})
		}
	}
	build := func(sc scen, sub int64, hook func(g *vk.Gated), h *c15Hist, spawn func(name string, f func())) (cancel func()) {
		ctx, cancelCtx := context.WithCancel(context.Background())
		g := vk.NewGated("mem", &c15Obs{FullStorage: memory.New(ctx), st: fam})
		ent.rd.reset(sc.k, sub)
		if sc.seedAll {
			seedGen := NewStorageIDGenerator[string](g, PrefixUserID, "tunnox:id:used:user", ctx)
			for i := 0; i < sc.k; i++ {
				ent.rd.setForce(i)
				c := h.now()
				id, err := seedGen.Generate()
				if err != nil {
					t.Fatalf("c15: sched seeding failed: %v", err)
				}
				h.add(c15Op{Kind: "user", ID: id, Gen: true, OK: true, Call: c, Ret: h.now(), Node: 9, Via: "seed"})
			}
			ent.rd.setForce(-1)
		}
		hook(g)
		for ti, script := range sc.scripts {
			ti, script := ti, script
			gen := NewStorageIDGenerator[string](g, PrefixUserID, "tunnox:id:used:user", ctx)
			spawn(fmt.Sprintf("t%d", ti), func() {
				var own []string
				for _, c := range script {
					switch c {
					case 'g':
						op := c15Op{Kind: "user", Gen: true, Node: ti, Call: h.now()}
						id, err := gen.Generate()
						op.Ret = h.now()
						if err == nil {
							op.OK, op.ID = true, id
							own = append(own, id)
							run.Count("generate_ok", 1)
						} else {
							op.Err = err.Error()
							run.Count("generate_failed", 1)
							if errors.Is(err, ErrIDExhausted) {
								run.Count("exhausted", 1)
							}
						}
						h.add(op)
					case 'r':
						if len(own) == 0 {
							continue
						}
						id := own[0]
						own = own[1:]
						op := c15Op{Kind: "user", ID: id, Node: ti, Call: h.now()}
						err := gen.Release(id)
						op.Ret = h.now()
						if c15Injected(err) {
							// not applied: no obligation, the thread still owns the id
							own = append([]string{id}, own...)
							run.Count("release_failed_injected", 1)
							continue
						}
						op.OK = err == nil
						h.add(op)
						run.Count("release_ok", 1)
					}
				}
			})
		}
		return cancelCtx
	}

	schedHook := func(s *vk.Sched, sc scen, sub int64) vk.Hook {
		fr := mrand.New(mrand.NewSource(sub ^ 0xfa17))
		return func(tier, op, key string) error {
			s.Yield(tier + "." + op + ":" + key)
			if sc.fault > 0 && (op == "SetNX" || op == "Delete") && fr.Intn(1000) < sc.fault {
				run.Count("faults_injected", 1)
				return vk.ErrInjected
			}
			return nil
		}
	}

	// (a) exhaustive, <= 2 preemptions
	small := []scen{
		{name: "2x(g r g) K=2", k: 2, scripts: []string{"grg", "grg"}},
		{name: "2x(g g) K=4", k: 4, scripts: []string{"gg", "gg"}},
		{name: "3x(g) K=4", k: 4, scripts: []string{"g", "g", "g"}},
		{name: "g r g | g K=2", k: 2, scripts: []string{"grg", "g"}},
		{name: "g r g | g K=2 faults 25%", k: 2, scripts: []string{"grg", "g"}, fault: 250},
		{name: "g g | g K=4 faults 30%", k: 4, scripts: []string{"gg", "g"}, fault: 300},
	}
	perScen := run.Pick(150, 3000)
	complete := true
	for si, sc := range small {
		sub := r.Int63()
		run.Case("sched-exhaustive|"+sc.name, map[string]any{"scenario": sc, "sub": sub})
		var h *c15Hist
		var cancel func()
		var cur *vk.Sched
		st := vk.Explore(2, perScen, 4000, func(s *vk.Sched) func(ok bool) {
			h = &c15Hist{}
			cur = s
			cancel = build(sc, sub, func(g *vk.Gated) { g.SetHook(schedHook(s, sc, sub)) }, h, s.Go)
			return func(ok bool) {
				defer cancel()
				run.Eval(1)
				if !ok {
					stalled++
					return
				}
				run.Distinct(fmt.Sprintf("x%d/%s", si, cur.Fingerprint()))
				check(sc, h, cur.Trace(), "exhaustive")
			}
		})
		run.Count("exhaustive_schedules", int64(st.Runs))
		run.Count("schedules_with_preemption", int64(st.Preempted))
		run.Max("max_schedule_depth", int64(st.MaxDepth))
		if !st.Complete {
			complete = false
		}
		if st.Complete {
			run.Count("scenarios_enumerated_completely", 1)
		}
	}
	run.Observe("bounded_space_enumerated_completely", complete)

	// (b) random schedules with exhaustion
	big := []scen{
		{name: "3x(g g r g) K=1", k: 1, scripts: []string{"ggrg", "ggrg", "ggrg"}},
		{name: "3x(g g r g) K=2", k: 2, scripts: []string{"ggrg", "ggrg", "ggrg"}},
		{name: "4x(g r g g) K=4", k: 4, scripts: []string{"grgg", "grgg", "ggrg", "gg"}},
		{name: "2x(g g) K=2 all pre-seeded", k: 2, scripts: []string{"gg", "gg"}, seedAll: true},
		{name: "3x(g g r g) K=2 faults 5%", k: 2, scripts: []string{"ggrg", "ggrg", "ggrg"}, fault: 50},
		{name: "4x(g r g g) K=4 faults 10%", k: 4, scripts: []string{"grgg", "grgg", "ggrg", "gg"}, fault: 100},
		{name: "2x(g g) K=2 all pre-seeded faults 5%", k: 2, scripts: []string{"gg", "gg"}, seedAll: true, fault: 50},
	}
	n := run.Pick(35, 700)
	for i := 0; i < n; i++ {
		sc := big[i%len(big)]
		sub := r.Int63()
		run.Case("sched-random|"+sc.name, map[string]any{"scenario": sc, "sub": sub})
		h := &c15Hist{}
		s := vk.NewSched(vk.RandomChooser{R: mrand.New(mrand.NewSource(sub))})
		cancel := build(sc, sub, func(g *vk.Gated) { g.SetHook(schedHook(s, sc, sub)) }, h, s.Go)
		ok := s.Run(20000)
		s.Stop()
		run.Eval(1)
		if !ok {
			stalled++
		} else {
			run.Distinct("r/" + s.Fingerprint())
			check(sc, h, s.Trace(), "random")
			if sc.seedAll {
				for _, o := range h.ops {
					if o.Gen && o.OK && o.Via != "seed" {
						run.Violation("C15:preseeded-id-handed-out|backend=memory|nodes=multi|sched=random", map[string]any{"scenario": sc, "op": o, "schedule": s.Trace()})
					}
				}
			}
		}
		cancel()
	}
	run.Count("collisions", fam.nxFalse.Load())
	run.Count("setnx_won", fam.nxTrue.Load())
	run.Count("schedules_stalled", int64(stalled))
	if stalled == 0 && run.Counter("checker_timeouts") == 0 {
		run.Count("all_cases_decided", 1)
	}
	run.Floor("all_cases_decided", 1)
	run.Floor("collisions", 1000)
	run.Floor("exhausted", 1)
	run.Floor("schedules_with_preemption", 20)
	run.Floor("faults_injected", 50)
}

// TestVerifC15Aging — "time passes" family on the hybrid backends. The hybrid stores
// are built with a SHORT hot-cache TTL (Default/Shared/Persistent cache TTL = 100 ms);
// the id markers carry their own 30-day TTL. Node 0 generates ids (K-pattern entropy),
// the harness lets them age well beyond the hot-cache TTL (real sleep, mirrored into
// the miniredis clock) and then all nodes generate again. The verdict does not depend
// on how long was slept: an id that was returned and never released must not be
// returned again, whatever the elapsed time below 30 days.
func c15TestAging(t *testing.T) {
	vk.Quiet()
	run := vk.Start(t, "C15", "idgen-aging")
	defer run.Finish()
	run.Rule("case = (hybrid+shared redis / hybrid local with 100 ms cache TTLs, K in {2,4,16}, G in {2,3} nodes, subset of candidates generated by node 0 and held); then >= 3x the cache TTL passes (sleep, miniredis clock advanced by the really elapsed time), then every node x 2 goroutines generates each kind repeatedly, some held ids are released and generation continues; distinct = (backend,K,G,held pattern)")
	ent := c15InstallEntropy(t, run)
	r := run.Rand("aging")
	reps := run.Pick(1, 8)
	const cacheTTL = 100 * time.Millisecond
	fam := &c15Stats{}
	planned, decided := 0, 0
	for _, be := range []string{"hybrid-shared", "hybrid-local"} {
		for _, k := range []int{2, 4, 16} {
			for rep := 0; rep < reps; rep++ {
				planned++
				if run.Violations() >= 20 {
					continue
				}
				g := 2 + (rep+k)%2
				cs := c15Case{Backend: be, K: k, G: g, Threads: 2, Seed: []string{"some", "all-but-one", "all"}[r.Intn(3)], Sub: r.Int63()}
				run.Case(fmt.Sprintf("aging|%s|K=%d|G=%d|%s", be, k, g, cs.Seed), cs)
				func() {
					cl, err := c15NewCluster(be, g, fam, c15ClusterOpts{cacheTTL: cacheTTL})
					if err != nil {
						t.Fatalf("c15: aging cluster: %v", err)
					}
					defer cl.close()
					ctx, cancel := context.WithCancel(context.Background())
					defer cancel()
					e := &c15Env{run: run, ent: ent, cs: cs, hist: &c15Hist{}, dbTaken: map[int64]bool{}, seeded: map[string]bool{}}
					for i := 0; i < g; i++ {
						e.mgrs = append(e.mgrs, NewIDManager(cl.stores[i], ctx))
					}
					cr := mrand.New(mrand.NewSource(cs.Sub))
					ent.rd.reset(k, cs.Sub^0x5eed)
					// node 0 generates and holds
					type heldID struct {
						kind int
						id   string
					}
					var held []heldID
					for kd := range c15Kinds {
						skip := cr.Intn(k)
						for i := 0; i < k; i++ {
							if (cs.Seed == "some" && cr.Intn(2) == 0) || (cs.Seed == "all-but-one" && i == skip) {
								continue
							}
							ent.rd.setForce(i)
							id, ok := e.generate(0, 0, kd, "hold")
							if !ok {
								ent.rd.setForce(-1)
								t.Fatalf("c15: aging: initial generation of %s pattern %d failed", c15Kinds[kd].name, i)
							}
							e.seeded[c15Kinds[kd].name+":"+id] = true
							held = append(held, heldID{kd, id})
						}
					}
					ent.rd.setForce(-1)
					run.Count("held_ids", int64(len(held)))
					// time passes
					t0 := time.Now()
					time.Sleep(3*cacheTTL + 50*time.Millisecond)
					if cl.mr != nil {
						cl.mr.FastForward(time.Since(t0))
					}
					run.Count("aging_periods", 1)
					// everybody generates again
					var wg sync.WaitGroup
					for w := 0; w < g*cs.Threads; w++ {
						wg.Add(1)
						go func(w int) {
							defer wg.Done()
							for round := 0; round < 3; round++ {
								for kd := range c15Kinds {
									if _, ok := e.generate(w/cs.Threads, w%cs.Threads, kd, "after-aging"); ok {
										run.Count("generated_after_aging", 1)
									} else {
										run.Count("refused_after_aging", 1)
									}
								}
							}
						}(w)
					}
					wg.Wait()
					// release a few of the held ids (they become legal again), age, generate
					for i, hd := range held {
						if i%3 == 0 {
							delete(e.seeded, c15Kinds[hd.kind].name+":"+hd.id)
							e.release(0, 0, c15Owned{hd.kind, hd.id})
						}
					}
					t1 := time.Now()
					time.Sleep(cacheTTL + 30*time.Millisecond)
					if cl.mr != nil {
						cl.mr.FastForward(time.Since(t1))
					}
					for w := 0; w < g; w++ {
						for kd := range c15Kinds {
							if _, ok := e.generate(w, 0, kd, "after-release-and-aging"); ok {
								run.Count("generated_after_aging", 1)
							} else {
								run.Count("refused_after_aging", 1)
							}
						}
					}
					bad, unknown, parts := c15CheckHistory(e.hist.ops)
					run.Count("partitions_checked", int64(parts))
					run.Count("checker_timeouts", int64(unknown))
					for _, p := range bad {
						run.Violation(fmt.Sprintf("C15:duplicate-live-id|backend=%s|after=cache-ttl-elapsed", be),
							map[string]any{"case": cs, "cache_ttl": cacheTTL.String(), "kind": p[0].Kind, "id": p[0].ID, "witness": c15Witness(p)})
					}
					if unknown == 0 {
						decided++
					}
				}()
				run.Eval(1)
				run.Distinct(fmt.Sprintf("%s|K=%d|G=%d|%s", be, k, g, cs.Seed))
				run.Sample(cs)
			}
		}
	}
	run.Count("collisions", fam.nxFalse.Load())
	if decided == planned || run.Violations() >= 20 {
		run.Count("all_cases_decided", 1)
	}
	run.Floor("all_cases_decided", 1)
	run.Floor("held_ids", 50)
	run.Floor("refused_after_aging", 50)
	run.Floor("generated_after_aging", 5)
}

// TestVerifC15Janitor — memory backend with its janitor running. A dedicated goroutine
// calls memory.Storage.CleanupExpired in a tight loop (the store also holds 20 000
// unexpired runtime entries, so one sweep takes a while) while G IDManagers x 4
// goroutines compete for K <= 4 candidate ids per kind. Expired-but-unswept markers
// exist all the time: a holder's marker "lapses" (the harness rewrites the marker with a
// 1 ms TTL, as if the holder had died long ago and the marker's lifetime ran out) and is
// then legitimately re-acquired by the next SetNX. Interval rule for the lapse: it is a
// Release whose interval runs from before the rewrite until after a sleep of twice the
// TTL, so the instant of expiry lies certainly inside. Oracle unchanged (live-set model).
func c15TestJanitor(t *testing.T) {
	vk.Quiet()
	run := vk.Start(t, "C15", "idgen-janitor")
	defer run.Finish()
	run.Rule("case = (memory store + 20000 unexpired runtime entries, CleanupExpired in a tight loop on its own goroutine, K in {1,2,4} candidates for the client and user kinds, G in {2,4} IDManagers x 4 goroutines: Generate / Release / marker lapse (rewritten with 1 ms TTL, recorded as a Release spanning the expiry)); random yields at every storage op; distinct = (K,G,subseed)")
	ent := c15InstallEntropy(t, run)
	r := run.Rand("janitor")
	reps := run.Pick(1, 10)
	const lapseTTL = time.Millisecond
	fam := &c15Stats{}
	planned, decided := 0, 0
	kinds := []int{0, 1} // client, user
	for _, k := range []int{1, 2, 4} {
		for _, g := range []int{2, 4} {
			for rep := 0; rep < reps; rep++ {
				planned++
				if run.Violations() >= 20 {
					continue
				}
				cs := c15Case{Backend: "memory+janitor", K: k, G: g, Threads: 4, Ops: 40, RelPct: 50, Sub: r.Int63()}
				run.Case(fmt.Sprintf("janitor|K=%d|G=%d", k, g), cs)
				ok := func() bool {
					ctx, cancel := context.WithCancel(context.Background())
					defer cancel()
					mem := memory.New(ctx)
					for i := 0; i < 20000; i++ {
						_ = mem.Set(fmt.Sprintf("tunnox:runtime:junk:%d", i), "x", time.Hour)
					}
					var lapsed sync.Map
					var sweeping atomic.Bool
					var sweeps, reacq, reacqSweep atomic.Int64
					obs := &c15Obs{FullStorage: mem, st: fam, onNX: func(key string, ok bool) {
						if !ok {
							return
						}
						if _, was := lapsed.LoadAndDelete(key); was {
							reacq.Add(1)
							if sweeping.Load() {
								reacqSweep.Add(1)
							}
						}
					}}
					gs := vk.NewGated("mem", obs)
					gs.SetHook(c15YieldHook(mrand.New(mrand.NewSource(cs.Sub^0x1e1d)), nil))
					e := &c15Env{run: run, ent: ent, cs: cs, hist: &c15Hist{}, dbTaken: map[int64]bool{}, seeded: map[string]bool{}}
					for i := 0; i < g; i++ {
						e.mgrs = append(e.mgrs, NewIDManager(gs, ctx))
					}
					ent.rd.reset(k, cs.Sub^0x5eed)
					stopJ := make(chan struct{})
					jDone := make(chan struct{})
					go func() {
						defer close(jDone)
						for {
							select {
							case <-stopJ:
								return
							default:
							}
							sweeping.Store(true)
							_ = mem.CleanupExpired()
							sweeping.Store(false)
							sweeps.Add(1)
							runtime.Gosched()
						}
					}()
					lapse := func(n, th int, o c15Owned) {
						kd := c15Kinds[o.kind]
						key := kd.keyPrefix + ":" + o.id
						op := c15Op{Kind: kd.name, ID: o.id, Node: n, Thread: th, Via: "marker-lapsed", Call: e.hist.now()}
						lapsed.Store(key, true)
						if err := gs.Set(key, "lapsed", lapseTTL); err != nil {
							lapsed.Delete(key)
							return
						}
						time.Sleep(2 * lapseTTL) // the marker's expiry lies certainly before the return stamp
						op.Ret = e.hist.now()
						op.OK = true
						e.hist.add(op)
						run.Count("markers_lapsed", 1)
					}
					done := make(chan struct{})
					go func() {
						defer close(done)
						var wg sync.WaitGroup
						for w := 0; w < g*cs.Threads; w++ {
							wg.Add(1)
							go func(w int) {
								defer wg.Done()
								rr := mrand.New(mrand.NewSource(cs.Sub*131 + int64(w)))
								n, th := w/cs.Threads, w%cs.Threads
								var own []c15Owned
								for i := 0; i < cs.Ops && !e.stop.Load(); i++ {
									if len(own) > 0 && (len(own) >= 2 || rr.Intn(100) < cs.RelPct) {
										o := own[0]
										own = own[1:]
										if rr.Intn(100) < 60 {
											lapse(n, th, o)
										} else if !e.release(n, th, o) {
											own = append(own, o)
										}
										continue
									}
									kd := kinds[rr.Intn(len(kinds))]
									if id, ok := e.generate(n, th, kd, ""); ok {
										own = append(own, c15Owned{kd, id})
									}
								}
							}(w)
						}
						wg.Wait()
					}()
					conclusive := true
					select {
					case <-done:
					case <-time.After(120 * time.Second):
						e.stop.Store(true)
						run.Count("watchdog", 1)
						conclusive = false
						select {
						case <-done:
						case <-time.After(20 * time.Second):
						}
					}
					close(stopJ)
					<-jDone
					run.Count("sweeps", sweeps.Load())
					run.Count("lapsed_marker_reacquired", reacq.Load())
					run.Count("lapsed_marker_reacquired_while_sweep_running", reacqSweep.Load())
					if !conclusive {
						return false
					}
					e.hist.mu.Lock()
					ops := append([]c15Op(nil), e.hist.ops...)
					e.hist.mu.Unlock()
					bad, unknown, parts := c15CheckHistory(ops)
					run.Count("history_ops", int64(len(ops)))
					run.Count("partitions_checked", int64(parts))
					run.Count("checker_timeouts", int64(unknown))
					for _, p := range bad {
						run.Violation("C15:duplicate-live-id|backend=memory|janitor=running",
							map[string]any{"case": cs, "kind": p[0].Kind, "id": p[0].ID, "witness": c15Witness(p)})
					}
					return unknown == 0
				}()
				if ok {
					decided++
				}
				run.Eval(1)
				run.Distinct(fmt.Sprintf("K=%d|G=%d|%d", k, g, cs.Sub))
				run.Sample(cs)
			}
		}
	}
	run.Count("collisions", fam.nxFalse.Load())
	if decided == planned || (run.Counter("watchdog") == 0 && run.Violations() >= 20) {
		run.Count("all_cases_decided", 1)
	}
	run.Floor("all_cases_decided", 1)
	run.Floor("sweeps", 200)
	run.Floor("markers_lapsed", 100)
	run.Floor("lapsed_marker_reacquired", 50)
	run.Floor("lapsed_marker_reacquired_while_sweep_running", 20)
}

// TestVerifC15UUID: connection / mapping-instance / tunnel ids come from UUIDv7 and
// are not tracked in the store. Within one process they must still be pairwise
// distinct under the same entropy fault (the v7 clock sequence guarantees it).
func c15TestUUID(t *testing.T) {
	vk.Quiet()
	run := vk.Start(t, "C15", "idgen-uuid")
	defer run.Finish()
	run.Rule("G IDManagers x 4 goroutines generate connection, mapping-instance and tunnel ids (UUIDv7, untracked) with the UUID entropy source reduced to K patterns; all returned ids must be pairwise distinct (Release is a no-op for these kinds); distinct = (K,G)")
	ent := c15InstallEntropy(t, run)
	r := run.Rand("uuid")
	per := run.Pick(400, 5000)
	ctx, cancel := context.WithCancel(context.Background())
	defer cancel()
	mem := memory.New(ctx)
	for _, k := range []int{1, 4, 64} {
		for _, g := range []int{1, 2, 4} {
			ent.rd.reset(k, r.Int63())
			run.Case(fmt.Sprintf("uuid|K=%d|G=%d", k, g), nil)
			var mgrs []*IDManager
			for i := 0; i < g; i++ {
				mgrs = append(mgrs, NewIDManager(mem, ctx))
			}
			var mu sync.Mutex
			seen := map[string]string{}
			var wg sync.WaitGroup
			for w := 0; w < g*4; w++ {
				wg.Add(1)
				go func(w int) {
					defer wg.Done()
					m := mgrs[w/4]
					for i := 0; i < per; i++ {
						var id string
						var err error
						kind := []string{"connection", "mapping-instance", "tunnel"}[i%3]
						switch i % 3 {
						case 0:
							id, err = m.GenerateConnectionID()
						case 1:
							id, err = m.GeneratePortMappingInstanceID()
						default:
							id, err = m.GenerateTunnelID()
						}
						if err != nil {
							run.Count("generate_failed", 1)
							continue
						}
						who := fmt.Sprintf("node%d/thread%d/#%d", w/4, w%4, i)
						mu.Lock()
						prev, dup := seen[id]
						seen[id] = who
						mu.Unlock()
						if dup {
							run.Violation("C15:duplicate-live-id|kind=uuid-"+kind, map[string]any{"id": id, "first": prev, "second": who, "k": k, "nodes": g})
						}
						if i%7 == 0 {
							_ = m.ReleaseConnectionID(id)
						}
					}
				}(w)
			}
			wg.Wait()
			run.Eval(1)
			run.Distinct(fmt.Sprintf("K=%d|G=%d", k, g))
			run.Count("uuid_ids", int64(len(seen)))
		}
	}
	run.Floor("uuid_ids", 10000)
}

// c15TestLateEffects — effects that arrive AFTER an operation has returned. Ids are
// generated and held; Release calls on them fail with an injected storage fault (not
// applied). Some holders keep their id, others retry the Release successfully and the
// freed id is immediately issued to another node. Then nothing happens for a settle
// period, and afterwards every node generates again: all candidates are held, so every
// generation must fail; an id handed out now is a live id (its holder never released it,
// or released it BEFORE the current holder got it). The settle period only gives late
// actions of the code under test (background retries, deferred deletes) the chance to
// show; the verdict does not depend on its length.
func c15TestLateEffects(t *testing.T) {
	vk.Quiet()
	run := vk.Start(t, "C15", "idgen-late-effects")
	defer run.Finish()
	run.Rule("case = (backend memory / redis / hybrid+shared redis, K=4, 2 nodes; node 0 generates all K ids of every kind; every Release then fails once with an injected Delete fault; half of the ids stay with their holder, for the other half the holder's retried Release succeeds and node 1 is issued the freed id; settle 700 ms (thorough: also 1.3 s and 2.2 s); then both nodes generate each kind repeatedly); distinct = (backend, settle)")
	ent := c15InstallEntropy(t, run)
	r := run.Rand("late")
	fam := &c15Stats{}
	const k = 4
	settles := []time.Duration{700 * time.Millisecond}
	if run.Thorough() {
		settles = []time.Duration{700 * time.Millisecond, 1300 * time.Millisecond, 2200 * time.Millisecond}
	}
	type world struct {
		be     string
		cl     *c15Cluster
		e      *c15Env
		cancel context.CancelFunc
		failOn atomic.Bool
	}
	for _, settle := range settles {
		var ws []*world
		for _, be := range []string{"memory", "redis", "hybrid-shared"} {
			cs := c15Case{Backend: be, K: k, G: 2, Threads: 2, Sub: r.Int63()}
			run.Case(fmt.Sprintf("late|%s|settle=%s", be, settle), cs)
			cl, err := c15NewCluster(be, 2, fam, c15ClusterOpts{})
			if err != nil {
				t.Fatalf("c15: late cluster: %v", err)
			}
			ctx, cancel := context.WithCancel(context.Background())
			w := &world{be: be, cl: cl, cancel: cancel}
			w.e = &c15Env{run: run, ent: ent, cs: cs, hist: &c15Hist{}, dbTaken: map[int64]bool{}, seeded: map[string]bool{}}
			for i := 0; i < 2; i++ {
				w.e.mgrs = append(w.e.mgrs, NewIDManager(cl.stores[i], ctx))
			}
			cl.setHook(func(_, op, key string) error {
				if w.failOn.Load() && op == "Delete" && strings.HasPrefix(key, "tunnox:id:used:") {
					run.Count("release_faults_injected", 1)
					return vk.ErrInjected
				}
				return nil
			})
			ws = append(ws, w)
			ent.rd.reset(k, cs.Sub)
			for kd := range c15Kinds {
				for i := 0; i < k; i++ {
					ent.rd.setForce(i)
					id, ok := w.e.generate(0, 0, kd, "hold")
					if !ok {
						ent.rd.setForce(-1)
						t.Fatalf("c15: late: initial generation failed (%s %s #%d)", be, c15Kinds[kd].name, i)
					}
					o := c15Owned{kd, id}
					// the holder's Release fails (fault injected before the delete is applied)
					w.failOn.Store(true)
					released := w.e.release(0, 0, o)
					w.failOn.Store(false)
					if released {
						ent.rd.setForce(-1)
						t.Fatalf("c15: late: Release of %s was expected to fail with the injected fault", id)
					}
					if i%2 == 0 {
						// the holder keeps the id
						w.e.seeded[c15Kinds[kd].name+":"+id] = true
						run.Count("held_after_failed_release", 1)
						continue
					}
					// the holder retries, Release succeeds; the freed id goes to node 1 at once
					if !w.e.release(0, 0, o) {
						ent.rd.setForce(-1)
						t.Fatalf("c15: late: retried Release of %s failed", id)
					}
					id2, ok := w.e.generate(1, 0, kd, "reissued")
					if !ok || id2 != id {
						ent.rd.setForce(-1)
						t.Fatalf("c15: late: re-issue of freed id %s gave %q ok=%v", id, id2, ok)
					}
					w.e.seeded[c15Kinds[kd].name+":"+id] = true
					run.Count("reissued_after_retried_release", 1)
				}
			}
			ent.rd.setForce(-1)
		}
		time.Sleep(settle) // late actions, if any, get their chance; nothing is judged by the clock
		run.Count("settle_periods", 1)
		for _, w := range ws {
			w := w
			ent.rd.reset(k, w.e.cs.Sub^0x5eed)
			var wg sync.WaitGroup
			for th := 0; th < 4; th++ {
				wg.Add(1)
				go func(th int) {
					defer wg.Done()
					for round := 0; round < 2; round++ {
						for kd := range c15Kinds {
							if _, ok := w.e.generate(th/2, th%2, kd, "after-settle"); ok {
								run.Count("generated_after_settle", 1)
							} else {
								run.Count("refused_after_settle", 1)
							}
						}
					}
				}(th)
			}
			wg.Wait()
			bad, unknown, parts := c15CheckHistory(w.e.hist.ops)
			run.Count("partitions_checked", int64(parts))
			run.Count("checker_timeouts", int64(unknown))
			for _, p := range bad {
				run.Violation(fmt.Sprintf("C15:duplicate-live-id|backend=%s|after=settle-period", w.be),
					map[string]any{"case": w.e.cs, "settle": settle.String(), "kind": p[0].Kind, "id": p[0].ID, "witness": c15Witness(p)})
			}
			run.Eval(1)
			run.Distinct(fmt.Sprintf("%s|%s", w.be, settle))
			w.cancel()
			w.cl.close()
		}
	}
	if run.Counter("checker_timeouts") == 0 {
		run.Count("all_cases_decided", 1)
	}
	run.Floor("all_cases_decided", 1)
	run.Floor("release_faults_injected", 40)
	run.Floor("held_after_failed_release", 20)
	run.Floor("reissued_after_retried_release", 20)
	run.Floor("refused_after_settle", 50)
}

// c15TestFactory — the store is wired by the server's own StorageFactory. G nodes are
// built through CreateStorage against ONE Redis server (miniredis) in the configurations
// a cluster can be given: node-local Redis DB per node + common shared DB, memory local
// cache + shared DB, one DB for everything, plain Redis storage. Same workload, phases
// and oracle as idgen-cluster (no gate hooks, the tiers are created inside the factory),
// plus NodeIDAllocators of all nodes allocating concurrently.
func c15TestFactory(t *testing.T) {
	vk.Quiet()
	run := vk.Start(t, "C15", "idgen-factory")
	defer run.Finish()
	run.Rule("case = (factory configuration in {redis local DB per node + shared DB 0, memory local + shared DB, single Redis DB, plain Redis storage} on one miniredis server, K in {1,4,16}, G in {2,4} nodes each built by StorageFactory.CreateStorage, pre-seed pattern); idgen-cluster phases and oracle; then one NodeIDAllocator per node allocates concurrently, twice, with releases in between; distinct = (config,K,G,preseed)")
	ent := c15InstallEntropy(t, run)
	r := run.Rand("factory")
	reps := run.Pick(1, 6)
	backends := []string{"factory-redis-local-dbs", "factory-memory-local", "factory-redis-single-db", "factory-redis-storage"}
	seeds := []string{"none", "some", "all-but-one", "all"}
	planned, decided := 0, 0
	caseNo := 0
	for _, be := range backends {
		for _, k := range []int{1, 4, 16} {
			for rep := 0; rep < reps; rep++ {
				planned++
				if run.Violations() >= 20 {
					continue
				}
				g := []int{2, 4}[caseNo%2]
				caseNo++
				cs := c15Case{Backend: be, K: k, G: g, Threads: 4, Seed: seeds[r.Intn(len(seeds))], RelPct: 25 + r.Intn(40), Sub: r.Int63()}
				cs.Ops = 240 / (cs.G * cs.Threads)
				cs.MaxOwn = 1 + r.Intn(1+4*k/(cs.G*cs.Threads)+1)
				if k == 1 && cs.Seed == "all-but-one" {
					cs.Seed = "none"
				}
				if be != "factory-redis-storage" && k != 4 {
					cs.Reload = []string{"before-seed", "after-seed"}[caseNo%2]
				}
				run.Case(fmt.Sprintf("factory|%s|K=%d|G=%d|%s", be, k, g, cs.Seed), cs)
				if c15RunCase(t, run, ent, cs, &c15Stats{}) {
					decided++
				}
				run.Eval(1)
				run.Distinct(fmt.Sprintf("%s|K=%d|G=%d|%s", be, k, g, cs.Seed))
				run.Sample(cs)
				run.Count("cases_"+be, 1)
			}
		}
		run.Floor("exhausted_"+be, 1)
		run.Floor("cases_"+be, 3)
		// node ids across factory-built nodes
		for _, n := range []int{2, 4} {
			planned++
			if c15FactoryNodeIDs(t, run, be, n) {
				decided++
			}
			run.Eval(1)
			run.Distinct(fmt.Sprintf("%s|node-ids|N=%d", be, n))
		}
	}
	if decided == planned || (run.Counter("watchdog") == 0 && run.Violations() >= 20) {
		run.Count("all_cases_decided", 1)
	}
	run.Floor("all_cases_decided", 1)
	run.Floor("generate_ok", 500)
	run.Floor("refused_while_saturated", 20)
	run.Floor("preseeded_markers", 10)
	run.Floor("node_ids_allocated", 30)
	run.Floor("prefix_hot_reloads", 6)
}

// c15FactoryNodeIDs: one allocator per factory-built node allocates concurrently (round
// 1), every second one releases, a second wave of fresh allocators allocates (round 2).
func c15FactoryNodeIDs(t *testing.T, run *vk.Run, be string, n int) bool {
	cl, err := c15NewCluster(be, n, &c15Stats{}, c15ClusterOpts{})
	if err != nil {
		t.Fatalf("c15: factory cluster %s: %v", be, err)
	}
	defer cl.close()
	ctx, cancel := context.WithCancel(context.Background())
	defer cancel()
	h := &c15Hist{}
	allocs := make([]*node.NodeIDAllocator, n)
	ids := make([]string, n)
	wave := func(only func(i int) bool) {
		var wg sync.WaitGroup
		for i := 0; i < n; i++ {
			if !only(i) {
				continue
			}
			wg.Add(1)
			go func(i int) {
				defer wg.Done()
				a := node.NewNodeIDAllocator(cl.stores[i])
				op := c15Op{Kind: "node-slot", Gen: true, Node: i, Call: h.now()}
				id, err := a.AllocateNodeID(ctx)
				op.Ret = h.now()
				if err != nil {
					op.Err = err.Error()
					h.add(op)
					return
				}
				op.OK, op.ID = true, id
				h.add(op)
				allocs[i], ids[i] = a, id
				run.Count("node_ids_allocated", 1)
			}(i)
		}
		wg.Wait()
	}
	wave(func(int) bool { return true })
	for i := 0; i < n; i += 2 {
		if allocs[i] == nil {
			continue
		}
		op := c15Op{Kind: "node-slot", ID: ids[i], Node: i, Call: h.now()}
		err := allocs[i].Release()
		op.Ret = h.now()
		op.OK = err == nil
		h.add(op)
		allocs[i] = nil
	}
	wave(func(i int) bool { return allocs[i] == nil })
	bad, unknown, _ := c15CheckHistory(h.ops)
	for _, p := range bad {
		run.Violation("C15:duplicate-live-node-id|backend="+be, map[string]any{"config": be, "nodes": n, "id": p[0].ID, "witness": c15Witness(p)})
	}
	for _, a := range allocs {
		if a != nil {
			_ = a.Release()
		}
	}
	return unknown == 0
}

// TestVerifC15Idgen runs the id-generator monitors one after the other (they share the
// process-wide entropy fault and must not overlap with each other). The group as a whole
// is parallel to TestVerifC15NodeLease, whose time is spent waiting for real heartbeats.
func TestVerifC15Idgen(t *testing.T) {
	t.Parallel()
	t.Run("Cluster", c15TestCluster)
	t.Run("Sched", c15TestSched)
	t.Run("Aging", c15TestAging)
	t.Run("Janitor", c15TestJanitor)
	t.Run("LateEffects", c15TestLateEffects)
	t.Run("Factory", c15TestFactory)
	t.Run("UUID", c15TestUUID)
}
