//go:build verif && verif_c03

package server

import (
	"encoding/json"
	"fmt"
	"io"
	"net"
	"net/http"
	"net/http/httptest"
	"strings"
	"sync"
	"testing"
	"time"

	"github.com/gorilla/mux"
	gws "github.com/gorilla/websocket"

	"tunnox-core/internal/core/types"
	"tunnox-core/internal/httpservice"
	wsmodule "tunnox-core/internal/httpservice/modules/websocket"
	"tunnox-core/internal/packet"
	"tunnox-core/internal/protocol/session"
	"tunnox-core/internal/security"
	"tunnox-core/internal/stream"
	vk "tunnox-core/internal/verifkit"
)

// C03 — "banned or blacklisted addresses are never authenticated", end to end over
// the real WebSocket transport: real TCP peers on loopback -> net/http ->
// WebSocketModule -> SessionManager -> ServerAuthHandler with the real IPManager and
// BruteForceProtector. Peers put arbitrary X-Forwarded-For / X-Real-IP / Forwarded
// headers on their upgrade request. The monitor knows the REAL transport peer address
// of every connection (recorded from net/http's r.RemoteAddr by a pass-through
// handler in front of the module) and judges only:
//   a message sent while the real peer address is banned or blacklisted never makes
//   the connection authenticated / never changes its identity, whatever headers were sent;
//   and (as everywhere in C03) authenticated(conn)=X ==> X issued or proven on that connection.
// Whether forwarded headers of a trusted proxy should be honoured is not judged.

const c03wWatchdog = 10 * time.Second

// c03wSess is a pass-through Session that tells the harness which connection id an
// accepted transport got and when a packet has been handled completely.
type c03wSess struct {
	session.Session
	acc  chan string
	done chan string
}

func (s *c03wSess) AcceptConnection(r io.Reader, w io.Writer) (*types.StreamConnection, error) {
	sc, err := s.Session.AcceptConnection(r, w)
	if err != nil || sc == nil {
		s.acc <- ""
		return sc, err
	}
	s.acc <- sc.ID
	return sc, err
}

func (s *c03wSess) HandlePacket(p *types.StreamPacket) error {
	err := s.Session.HandlePacket(p)
	s.done <- p.ConnectionID
	return err
}

// c03wRW adapts the client side of a websocket to io.Reader / io.Writer.
type c03wRW struct {
	c   *gws.Conn
	buf []byte
	wmu sync.Mutex
}

func (w *c03wRW) Read(p []byte) (int, error) {
	for len(w.buf) == 0 {
		mt, data, err := w.c.ReadMessage()
		if err != nil {
			return 0, err
		}
		if mt != gws.BinaryMessage {
			continue
		}
		w.buf = data
	}
	n := copy(p, w.buf)
	w.buf = w.buf[n:]
	return n, nil
}

func (w *c03wRW) Write(p []byte) (int, error) {
	w.wmu.Lock()
	defer w.wmu.Unlock()
	if err := w.c.WriteMessage(gws.BinaryMessage, p); err != nil {
		return 0, err
	}
	return len(p), nil
}

type c03wPeer struct {
	ws       *gws.Conn
	sp       *stream.StreamProcessor
	connID   string
	realIP   string
	local    string
	hdrClass string
	hdr      http.Header
	replies  chan *packet.HandshakeResponse
	dead     chan struct{}
	chal     string
	accepted map[string]bool
	entitled int64
	isDead   bool
}

type c03wWorld struct {
	t       *testing.T
	run     *vk.Run
	n       *miniNode
	srv     *httptest.Server
	sess    *c03wSess
	url     string
	peersCh chan string // r.RemoteAddr of every upgrade request
	clients []int64
	secret  map[int64]string
	banned  map[string]bool
	black   map[string]bool
	trace   []string
	open    []*c03wPeer
	broken  bool
}

func c03wNewWorld(t *testing.T, run *vk.Run) *c03wWorld {
	bf := &security.BruteForceConfig{MaxFailures: 1000000, TimeWindow: time.Hour, BanDuration: time.Hour, PermanentBanAt: 100000000, CleanupInterval: time.Hour}
	rl := &security.RateLimitConfig{Rate: 1000000, Burst: 1000000, TTL: time.Hour}
	n := newMiniNode(t, miniOpts{BruteForce: bf, RateLimit: rl, NoCommands: true})
	w := &c03wWorld{t: t, run: run, n: n, secret: map[int64]string{}, banned: map[string]bool{}, black: map[string]bool{}, peersCh: make(chan string, 256)}
	w.sess = &c03wSess{Session: n.SM, acc: make(chan string, 256), done: make(chan string, 256)}
	mod := wsmodule.NewWebSocketModule(n.ctx, &httpservice.WebSocketModuleConfig{Enabled: true})
	mod.SetSession(w.sess)
	router := mux.NewRouter()
	mod.RegisterRoutes(router)
	w.srv = httptest.NewServer(http.HandlerFunc(func(rw http.ResponseWriter, r *http.Request) {
		w.peersCh <- r.RemoteAddr // the transport peer as net/http saw it
		router.ServeHTTP(rw, r)
	}))
	if !strings.HasPrefix(w.srv.URL, "http://127.0.0.1:") {
		t.Fatalf("c03ws: test server expected on 127.0.0.1, got %s", w.srv.URL)
	}
	w.url = "ws" + strings.TrimPrefix(w.srv.URL, "http") + "/_tunnox"
	return w
}

func (w *c03wWorld) close() {
	for _, p := range w.open {
		p.ws.Close()
	}
	w.srv.Close()
	w.n.Close()
}

func (w *c03wWorld) blocked(ip string) bool { return w.banned[ip] || w.black[ip] }

// dial opens a websocket from realIP with the given upgrade headers. nil = the
// sandbox does not allow it / watchdog (counted, never a verdict).
func (w *c03wWorld) dial(realIP, hdrClass string, hdr http.Header) *c03wPeer {
	d := gws.Dialer{
		HandshakeTimeout: c03wWatchdog,
		NetDialContext:   (&net.Dialer{LocalAddr: &net.TCPAddr{IP: net.ParseIP(realIP)}, Timeout: c03wWatchdog}).DialContext,
	}
	c, _, err := d.Dial(w.url, hdr)
	if err != nil {
		w.run.Count("ws_dial_failed", 1)
		w.run.Observe("ws_dial_error", fmt.Sprintf("%s: %v", realIP, err))
		return nil
	}
	p := &c03wPeer{ws: c, realIP: realIP, local: c.LocalAddr().String(), hdrClass: hdrClass, hdr: hdr, accepted: map[string]bool{}, replies: make(chan *packet.HandshakeResponse, 16), dead: make(chan struct{})}
	// the server-side view of this transport's peer address (net/http's r.RemoteAddr)
	for matched := false; !matched; {
		select {
		case seen := <-w.peersCh:
			host, _, _ := net.SplitHostPort(seen)
			if seen == p.local {
				if host != realIP {
					w.t.Fatalf("c03ws: harness broken: server saw transport peer %q, dialled from %s", seen, realIP)
				}
				matched = true
			}
		case <-time.After(c03wWatchdog):
			w.run.Count("watchdog", 1)
			w.broken = true
			c.Close()
			return nil
		}
	}
	select {
	case id := <-w.sess.acc:
		if id == "" {
			w.run.Count("ws_accept_refused", 1)
			c.Close()
			return nil
		}
		p.connID = id
	case <-time.After(c03wWatchdog):
		w.run.Count("watchdog", 1)
		w.broken = true
		c.Close()
		return nil
	}
	rw := &c03wRW{c: c}
	p.sp = stream.NewStreamProcessor(rw, rw, w.n.ctx)
	go func() {
		defer close(p.dead)
		for {
			pkt, _, err := p.sp.ReadPacket()
			if err != nil {
				return
			}
			if pkt.PacketType&0x3F != packet.HandshakeResp {
				continue
			}
			r := &packet.HandshakeResponse{}
			if json.Unmarshal(pkt.Payload, r) != nil {
				continue
			}
			select {
			case p.replies <- r:
			default:
			}
		}
	}()
	w.open = append(w.open, p)
	w.trace = append(w.trace, fmt.Sprintf("dial %s from %s hdr=%v", p.connID, p.local, hdr))
	w.run.Count("ws_conns", 1)
	return p
}

// roundTrip sends one handshake request and waits until the server has handled it.
// reply may be nil (transport closed by the server before/after handling).
func (w *c03wWorld) roundTrip(p *c03wPeer, req *packet.HandshakeRequest) (reply *packet.HandshakeResponse, handled bool) {
	b, _ := json.Marshal(req)
	for len(p.replies) > 0 {
		<-p.replies
	}
	if _, err := p.sp.WritePacket(&packet.TransferPacket{PacketType: packet.Handshake, Payload: b}, false, 0); err != nil {
		p.isDead = true
		return nil, false
	}
	wd := time.After(c03wWatchdog)
	for !handled {
		select {
		case id := <-w.sess.done:
			if id == p.connID {
				handled = true
			}
		case <-p.dead:
			// the server closed the transport; it may or may not have handled the packet
			p.isDead = true
			select {
			case id := <-w.sess.done:
				if id == p.connID {
					handled = true
				}
			case <-time.After(50 * time.Millisecond):
			}
			select {
			case reply = <-p.replies:
			default:
			}
			return reply, handled
		case <-wd:
			w.run.Count("watchdog", 1)
			w.broken = true
			return nil, false
		}
	}
	select {
	case reply = <-p.replies:
	case <-p.dead:
		p.isDead = true
		select {
		case reply = <-p.replies:
		default:
		}
	case <-wd:
		w.run.Count("watchdog", 1)
		w.broken = true
	}
	return reply, true
}

func (w *c03wWorld) observe(p *c03wPeer) (bool, int64) {
	k := w.n.SM.GetControlConnection(p.connID)
	if k == nil || !k.IsAuthenticated() {
		return false, 0
	}
	return true, k.GetClientID()
}

func (w *c03wWorld) known(id int64) bool {
	for _, x := range w.clients {
		if x == id {
			return true
		}
	}
	return false
}

func (w *c03wWorld) tail() []string {
	t := w.trace
	if len(t) > 30 {
		t = t[len(t)-30:]
	}
	return append([]string(nil), t...)
}

// step sends one message on p and runs the monitor.
func (w *c03wWorld) step(p *c03wPeer, kind string, id int64, ctype string) {
	auth0, id0 := w.observe(p)
	blocked := w.blocked(p.realIP)
	why := ""
	if w.banned[p.realIP] {
		why = "banned"
	}
	if w.black[p.realIP] {
		why += "blacklisted"
	}
	req := &packet.HandshakeRequest{ClientID: id, Version: "3.0", Protocol: "websocket", ConnectionType: ctype}
	entitling := int64(0)
	usedChal := ""
	switch kind {
	case "FC":
		req.ClientID, req.Token = 0, "new-client"
	case "P1":
	case "P2valid":
		req.ChallengeResponse = HMACResp(w.secret[id], p.chal)
		usedChal = p.chal
		if p.chal != "" && !p.accepted[p.chal] && w.secret[id] != "" && !blocked {
			entitling = id
		}
	case "P2foreign":
		other := w.clients[0]
		if other == id {
			other = w.clients[1]
		}
		req.ChallengeResponse = HMACResp(w.secret[other], p.chal)
		usedChal = p.chal
	case "P2garbage":
		req.ChallengeResponse = "zz-not-hex"
		usedChal = p.chal
	}
	w.trace = append(w.trace, fmt.Sprintf("%s(id=%d,%s) on %s real=%s blocked=%q hdr=%s", kind, id, ctype, p.connID, p.realIP, why, p.hdrClass))
	reply, handled := w.roundTrip(p, req)
	if w.broken {
		return
	}
	if !handled {
		w.run.Count("ws_msg_not_handled_transport_closed", 1)
	}
	w.run.Eval(1)
	w.run.Count("ws_msgs", 1)
	spoof := p.hdrClass != "none"
	if blocked {
		w.run.Count("ws_msgs_while_real_peer_blocked", 1)
		if spoof {
			w.run.Count("ws_msgs_while_real_peer_blocked_with_forwarding_headers", 1)
		}
	}
	replyOK := reply != nil && reply.Success
	switch kind {
	case "FC":
		if replyOK && reply.ClientID != 0 {
			w.clients = append(w.clients, reply.ClientID)
			w.secret[reply.ClientID] = reply.SecretKey
			if !blocked {
				entitling = reply.ClientID
				w.run.Count("ws_fc_ok", 1)
			}
		}
	case "P1":
		if reply != nil && reply.Challenge != "" {
			p.chal = reply.Challenge
			w.run.Count("ws_challenges", 1)
		}
	default:
		if replyOK && usedChal != "" {
			if p.accepted[usedChal] {
				w.run.Violation("C03:ws|challenge-accepted-twice", map[string]any{"trace": w.tail()})
			}
			p.accepted[usedChal] = true
		}
	}
	auth1, id1 := w.observe(p)
	if kind == "FC" && entitling == 0 && !blocked && auth1 && !w.known(id1) && (!auth0 || id1 != id0) {
		// identity issued on this connection but the reply was lost with the transport
		w.clients = append(w.clients, id1)
		entitling = id1
	}
	if blocked && reply != nil && !replyOK {
		w.run.Count("ws_refused_while_real_peer_blocked", 1)
	}
	hdrKind := "none"
	if spoof {
		hdrKind = "forwarding-headers"
	}
	detail := map[string]any{"trace": w.tail(), "header_class": p.hdrClass, "real_peer": p.local, "real_peer_blocked": why, "upgrade_headers": p.hdr, "before": []any{auth0, id0}, "after": []any{auth1, id1}, "reply": fmt.Sprintf("%+v", reply)}
	switch {
	case auth1 && (id1 == 0 || (id1 != entitling && !(auth0 && id1 == id0 && id1 == p.entitled))):
		sig := fmt.Sprintf("C03:ws|authenticated-without-proof|msg=%s", kind)
		if blocked {
			sig = fmt.Sprintf("C03:ws|authenticated-while-real-peer-address-blocked|msg=%s|hdr=%s", kind, hdrKind)
		}
		w.run.Violation(sig, detail)
		p.isDead = true // reported once; the peer is replaced
	case replyOK && kind != "P1" && entitling == 0:
		sig := fmt.Sprintf("C03:ws|success-reply-without-proof|msg=%s", kind)
		if blocked {
			sig = fmt.Sprintf("C03:ws|success-reply-while-real-peer-address-blocked|msg=%s|hdr=%s", kind, hdrKind)
		}
		w.run.Violation(sig, detail)
		p.isDead = true
	case auth1:
		if id1 == entitling && kind == "P2valid" {
			w.run.Count("ws_p2_accepted", 1)
		}
		p.entitled = id1
	}
}

// c03wHeaders builds the upgrade headers of class cls claiming address ip.
func c03wHeaders(cls, ip, ip2 string) http.Header {
	switch cls {
	case "xff":
		return http.Header{"X-Forwarded-For": {ip}}
	case "xff-chain":
		return http.Header{"X-Forwarded-For": {ip + ", 10.0.0.1, " + ip2}}
	case "xff-port":
		return http.Header{"X-Forwarded-For": {ip + ":4711"}}
	case "xrealip":
		return http.Header{"X-Real-Ip": {ip}}
	case "forwarded":
		return http.Header{"Forwarded": {"for=" + ip + ";proto=https"}}
	case "xff+xrealip":
		return http.Header{"X-Forwarded-For": {ip}, "X-Real-Ip": {ip2}}
	case "all":
		return http.Header{"X-Forwarded-For": {ip}, "X-Real-Ip": {ip}, "Forwarded": {"for=" + ip}, "X-Client-Ip": {ip}, "True-Client-Ip": {ip}, "Cf-Connecting-Ip": {ip}}
	}
	return nil
}

func TestVerifC03WebSocket(t *testing.T) {
	run := vk.Start(t, "C03", "websocket-peer-address")
	defer run.Finish()
	run.Rule("seeded random event sequences against the real WebSocket module on loopback: up to 3 live websocket peers dialled from real addresses 127.0.0.1/2/3 with upgrade headers of class {none, X-Forwarded-For (single, chain, ip:port), X-Real-IP, Forwarded, XFF+X-Real-IP, all} claiming clean / banned / blacklisted / other peers' addresses; messages FC, P1, P2 valid/foreign-key/garbage as control or tunnel type; ban/unban and blacklist/unblacklist events on real peer addresses and on claimed addresses; distinct = (message, header class, real-peer blocked?, claimed-address blocked?) 2-grams")
	r := run.Rand("ws")
	worlds := run.Pick(30, 500)
	reals := []string{"127.0.0.1", "127.0.0.2", "127.0.0.3"}
	claimed := []string{"203.0.113.9", "198.51.100.77", "192.0.2.44", "127.0.0.2", "127.0.0.3", "127.0.0.1", "10.1.2.3"}
	classes := []string{"none", "xff", "xff", "xff-chain", "xff-port", "xrealip", "xrealip", "forwarded", "xff+xrealip", "all"}
	// which real addresses can be used in this sandbox
	{
		w := c03wNewWorld(t, run)
		var usable []string
		for _, ip := range reals {
			if p := w.dial(ip, "none", nil); p != nil {
				usable = append(usable, ip)
			}
		}
		w.close()
		if len(usable) == 0 {
			t.Fatalf("c03ws: cannot dial the loopback test server at all")
		}
		reals = usable
		run.Observe("real_peer_addresses", reals)
	}
	for wi := 0; wi < worlds && run.Violations() <= 20; wi++ {
		w := c03wNewWorld(t, run)
		run.Case(fmt.Sprintf("ws-world%d", wi), nil)
		// two provisioned identities (issued over the websocket transport, nothing blocked yet)
		prov := w.dial(reals[0], "none", nil)
		if prov == nil {
			w.close()
			continue
		}
		for i := 0; i < 2; i++ {
			w.step(prov, "FC", 0, "control")
		}
		if len(w.clients) < 2 {
			t.Fatalf("c03ws: provisioning over websocket failed: %v", w.tail())
		}
		newPeer := func() *c03wPeer {
			cls := classes[r.Intn(len(classes))]
			ip := claimed[r.Intn(len(claimed))]
			ip2 := claimed[r.Intn(len(claimed))]
			real := reals[r.Intn(len(reals))]
			// blocked real peers are the interesting ones: prefer them when there are any
			if r.Intn(2) == 0 {
				for _, x := range reals {
					if w.blocked(x) {
						real = x
					}
				}
			}
			return w.dial(real, cls, c03wHeaders(cls, ip, ip2))
		}
		peers := []*c03wPeer{prov, newPeer(), newPeer()}
		n := 50 + r.Intn(50)
		var grams []string
		for i := 0; i < n && !w.broken && run.Violations() <= 20; i++ {
			pi := r.Intn(len(peers))
			p := peers[pi]
			if p == nil || p.isDead {
				if p != nil {
					run.Count("ws_peers_closed_by_server_replaced", 1)
					p.ws.Close()
				}
				peers[pi] = newPeer()
				continue
			}
			switch e := r.Intn(20); {
			case e == 0:
				w.n.BFP.BanIP(p.realIP, time.Hour, "verif")
				w.banned[p.realIP] = true
				w.trace = append(w.trace, "ban real "+p.realIP)
				run.Count("ban_events_real_peer", 1)
			case e == 1:
				perm := r.Intn(2) == 0
				d := time.Hour
				if perm {
					d = 0
				}
				if err := w.n.IPM.AddToBlacklist(p.realIP, d, "verif", "verif"); err == nil {
					w.black[p.realIP] = true
				}
				w.trace = append(w.trace, fmt.Sprintf("blacklist real %s permanent=%v", p.realIP, perm))
				run.Count("blacklist_events_real_peer", 1)
			case e == 2:
				ip := reals[r.Intn(len(reals))]
				if r.Intn(2) == 0 {
					w.n.BFP.UnbanIP(ip)
					delete(w.banned, ip)
					w.trace = append(w.trace, "unban "+ip)
				} else {
					w.n.IPM.RemoveFromBlacklist(ip)
					delete(w.black, ip)
					w.trace = append(w.trace, "unblacklist "+ip)
				}
			case e == 3:
				// events on claimed (non-peer) addresses
				ip := claimed[r.Intn(3)]
				switch r.Intn(3) {
				case 0:
					w.n.BFP.BanIP(ip, time.Hour, "verif")
					w.banned[ip] = true
					w.trace = append(w.trace, "ban claimed "+ip)
				case 1:
					if err := w.n.IPM.AddToBlacklist(ip, 0, "verif", "verif"); err == nil {
						w.black[ip] = true
					}
					w.trace = append(w.trace, "blacklist claimed "+ip)
				default:
					w.n.BFP.UnbanIP(ip)
					delete(w.banned, ip)
					w.n.IPM.RemoveFromBlacklist(ip)
					delete(w.black, ip)
					w.trace = append(w.trace, "unblock claimed "+ip)
				}
				run.Count("events_on_claimed_addresses", 1)
			case e <= 6:
				// reconnect with fresh headers
				p.ws.Close()
				peers[pi] = newPeer()
				run.Count("reconnects", 1)
			default:
				ctype := "control"
				if r.Intn(6) == 0 {
					ctype = "tunnel"
				}
				id := w.clients[r.Intn(2)]
				kind := []string{"FC", "FC", "P1", "P1", "P2valid", "P2valid", "P2valid", "P2foreign", "P2garbage"}[r.Intn(9)]
				if kind == "P2valid" && p.chal == "" {
					w.step(p, "P1", id, ctype)
					if w.broken || p.isDead {
						continue
					}
				}
				w.step(p, kind, id, ctype)
				claimBlocked := false
				for _, vs := range p.hdr {
					for _, v := range vs {
						for ip := range w.banned {
							claimBlocked = claimBlocked || strings.Contains(v, ip)
						}
						for ip := range w.black {
							claimBlocked = claimBlocked || strings.Contains(v, ip)
						}
					}
				}
				grams = append(grams, fmt.Sprintf("%s/%s/%s/%v/%v", kind, ctype[:1], p.hdrClass, w.blocked(p.realIP), claimBlocked))
				if len(grams) >= 2 {
					run.Distinct(strings.Join(grams[len(grams)-2:], ">"))
				}
			}
		}
		if wi < 2 {
			run.Sample(w.tail())
		}
		w.close()
	}
	run.Floor("ws_msgs_while_real_peer_blocked", 100)
	run.Floor("ws_msgs_while_real_peer_blocked_with_forwarding_headers", 50)
	run.Floor("ws_refused_while_real_peer_blocked", 50)
	run.Floor("ws_fc_ok", 20)
	run.Floor("ws_p2_accepted", 10)
	if run.Counter("watchdog") > 0 {
		run.Floor("watchdog_free_run", 1)
	}
}
