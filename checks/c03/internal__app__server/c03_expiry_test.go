//go:build verif && verif_c03

package server

import (
	"fmt"
	"strings"
	"testing"
	"time"

	"tunnox-core/internal/cloud/models"
	"tunnox-core/internal/cloud/repos"
	vk "tunnox-core/internal/verifkit"
)

// C03 — "... expired clients ... are never authenticated": client EXPIRY histories.
//
// Per case a fresh identity is issued (first-connect) and its key holder logs in once.
// Then the credential expires (ExpiresAt moved into the past, or set a few ms ahead
// and certainly elapsed — interval rule). Then the operator side updates OTHER
// properties of that client through the update paths the cloud control offers
// (rename with a Client object obtained from GetAnonymousClient / from GetClient /
// built by the caller, status updates, connect/disconnect bookkeeping, touch,
// credential migration, credential reset). None of these is an expiry change, so the
// client stays expired in the harness's model and the (old and new) key holder must
// be refused. Expiry changes (ExtendExpiration, BindToUser) are not generated.

func TestVerifC03ExpiryHistories(t *testing.T) {
	run := vk.Start(t, "C03", "client-expiry-histories")
	defer run.Finish()
	updates := []string{"rename-with-GetAnonymousClient-object", "rename-with-GetClient-object", "rename-with-caller-built-object", "config-change-with-GetAnonymousClient-object", "status-update", "connect-disconnect", "touch", "migrate-credentials", "reset-credentials"}
	run.Rule(fmt.Sprintf("cases: fresh identity, one valid login, expiry {48 h ago, 1 s ago, 4 ms ahead then certainly elapsed}, 1-3 operator-side updates from %v, then P1+P2valid by the key holder (control / tunnel type; old and, after a reset, new secret); quick: every single update x expiry kind, plus random sequences; distinct = (expiry kind, update sequence, type)", updates))
	r := run.Rand("expiry")
	w := c03bNewWorld(t, run)
	defer func() { w.close() }()
	cr := repos.NewClientConfigRepository(w.n.Repo)
	type tc struct {
		exp string
		ups []string
	}
	var cases []tc
	for _, e := range []string{"48h-ago", "1s-ago", "4ms-ahead"} {
		for _, u := range updates {
			cases = append(cases, tc{e, []string{u}})
		}
	}
	for i, n := 0, run.Pick(60, 2000); i < n; i++ {
		c := tc{exp: []string{"48h-ago", "1s-ago", "4ms-ahead"}[r.Intn(3)]}
		for j, k := 0, 2+r.Intn(2); j < k; j++ {
			c.ups = append(c.ups, updates[r.Intn(len(updates))])
		}
		cases = append(cases, c)
	}
	nviol := 0
	for ci, c := range cases {
		if nviol > 20 {
			break
		}
		run.Case("expiry", c)
		hist := []string{}
		owner := w.n.NewClient("")
		id, secret := owner.ClientID, owner.Secret
		owner.CloseByPeer()
		secrets := []string{secret}
		login := func(phase string, judged bool) {
			for _, sec := range secrets {
				ctype := []string{"control", "tunnel"}[r.Intn(2)]
				cc := w.open("", "keyholder")
				chal := ""
				if r1, _ := cc.c.Phase1(id, ctype); r1 != nil {
					chal = r1.Challenge
				}
				r2, _ := cc.c.Phase2(id, HMACResp(sec, chal), ctype)
				auth, aid := w.observe(cc)
				ok := auth || (r2 != nil && r2.Success)
				hist = append(hist, fmt.Sprintf("%s:login(%s)=%v", phase, ctype, ok))
				if !judged {
					if ok {
						run.Count("valid_logins_before_expiry", 1)
					}
					continue
				}
				run.Count("logins_by_key_holder_of_expired_client", 1)
				if phase == "after-update" {
					run.Count("logins_after_operator_update_of_expired_client", 1)
				}
				if ok {
					last := "none"
					if phase == "after-update" {
						last = c.ups[len(c.ups)-1]
						for _, u := range c.ups {
							if strings.HasPrefix(u, "rename") || strings.HasPrefix(u, "config-change") {
								last = u
							}
						}
					}
					run.Violation("C03:expiry|authenticated-although-client-expired|after="+last, map[string]any{"client": id, "expiry": c.exp, "history": append([]string(nil), hist...), "authenticated_as": aid, "type": ctype})
					nviol++
					return
				}
				run.Count("refused_key_holder_of_expired_client", 1)
			}
		}
		login("valid", false)
		// ---- the credential expires ----
		cfg, err := cr.GetConfig(id)
		if err != nil {
			t.Fatalf("c03: get config: %v", err)
		}
		var at time.Time
		switch c.exp {
		case "48h-ago":
			at = time.Now().Add(-48 * time.Hour)
		case "1s-ago":
			at = time.Now().Add(-time.Second)
		default:
			at = time.Now().Add(4 * time.Millisecond)
		}
		cfg.ExpiresAt = &at
		if err := cr.UpdateConfig(cfg); err != nil {
			t.Fatalf("c03: update config: %v", err)
		}
		if c.exp == "4ms-ahead" {
			time.Sleep(time.Until(at) + time.Millisecond) // certainly elapsed afterwards
		}
		hist = append(hist, "expired("+c.exp+")")
		login("expired", true)
		// ---- operator-side updates of other properties ----
		for ui, u := range c.ups {
			var uerr error
			name := fmt.Sprintf("kiosk-%d-%d", ci, ui)
			switch u {
			case "rename-with-GetAnonymousClient-object", "config-change-with-GetAnonymousClient-object":
				ac, e := w.n.CC.GetAnonymousClient(id)
				if e != nil || ac == nil {
					uerr = fmt.Errorf("get: %v", e)
					break
				}
				if u[0] == 'r' {
					ac.Name = name
				} else {
					ac.Config.BandwidthLimit += 1024
				}
				uerr = w.n.CC.UpdateClient(ac)
			case "rename-with-GetClient-object":
				gc, e := w.n.CC.GetClient(id)
				if e != nil || gc == nil {
					uerr = fmt.Errorf("get: %v", e)
					break
				}
				gc.Name = name
				uerr = w.n.CC.UpdateClient(gc)
			case "rename-with-caller-built-object":
				gc, e := w.n.CC.GetClient(id)
				if e != nil || gc == nil {
					uerr = fmt.Errorf("get: %v", e)
					break
				}
				// what an API caller sends: the editable properties only
				uerr = w.n.CC.UpdateClient(&models.Client{ID: id, UserID: gc.UserID, Name: name, AuthCode: gc.AuthCode, Type: gc.Type, Config: gc.Config, CreatedAt: gc.CreatedAt})
			case "status-update":
				uerr = w.n.CC.UpdateClientStatus(id, models.ClientStatusOffline, w.n.NodeID)
			case "connect-disconnect":
				uerr = w.n.CC.ConnectClient(id, w.n.NodeID, "conn-verif", "10.1.1.1", "tcp", "3.0")
				_ = w.n.CC.DisconnectClient(id)
			case "touch":
				w.n.CC.TouchClient(id)
			case "migrate-credentials":
				uerr = w.n.CC.MigrateClientCredentials(id)
			case "reset-credentials":
				ns, e := w.n.CC.ResetClientCredentials(id)
				uerr = e
				if e == nil && ns != "" {
					secrets = append(secrets, ns)
				}
			}
			if uerr != nil {
				run.Count("operator_updates_refused:"+u, 1)
				hist = append(hist, u+"=err")
			} else {
				run.Count("operator_updates_applied", 1)
				if strings.Contains(u, "GetAnonymousClient") || strings.Contains(u, "caller-built") {
					run.Count("updates_applied_with_object_that_carries_no_expiry", 1)
				}
				hist = append(hist, u)
			}
		}
		login("after-update", true)
		run.Eval(1)
		run.Distinct(fmt.Sprintf("%s|%v", c.exp, c.ups))
		if ci < 2 {
			run.Sample(append([]string(nil), hist...))
		}
		for _, x := range w.opened {
			x.c.CloseByPeer()
		}
		w.opened = nil
	}
	run.Floor("valid_logins_before_expiry", int64(len(cases)/2))
	run.Floor("logins_after_operator_update_of_expired_client", int64(len(cases)))
	run.Floor("refused_key_holder_of_expired_client", int64(len(cases)))
	run.Floor("operator_updates_applied", int64(len(cases)))
	run.Floor("updates_applied_with_object_that_carries_no_expiry", int64(len(cases)/6))
}
