//go:build verif && verif_c03

package server

import (
	"encoding/base64"
	"fmt"
	"math/rand"
	"strings"
	"testing"
	"time"

	"tunnox-core/internal/cloud/repos"
	"tunnox-core/internal/security"
	vk "tunnox-core/internal/verifkit"
)

// C03 — only a proven key holder is ever authenticated as a client.
//
// Online trace monitor over the real ServerAuthHandler + SessionManager. The harness
// is the only holder of client secrets; after every handshake message it reads the
// real registry state and checks
//   authenticated(conn)=X  ==>  entitled(conn)=X
// where entitled is computed by the monitor from what was observed on that
// connection only (credentials issued on it / correct HMAC over the latest unused
// challenge issued on it, client known+unexpired, address not banned/blacklisted).

type c03Conn struct {
	c          *miniClient
	addr       string
	ip         string
	challenge  string // latest challenge observed in a reply on this connection
	accepted   map[string]bool
	prevChal   string // an earlier (stale) challenge, if any
	entitled   int64  // identity the monitor entitles this connection to (0 = none)
	everCtl    map[int64]bool // identities this connection was ever entitled to (issued on it / proved on it)
	lastGoodP2 string // last response that was accepted (for replay)
	lastGoodID int64
}

type c03World struct {
	n       *miniNode
	clients []int64          // known client ids
	secret  map[int64]string // harness-held secrets
	expired map[int64]bool
	undec   map[int64]bool // stored secret cannot be decrypted (corrupted record / master key rotated): no response can be correct
	rotated int
	conns   []*c03Conn
	all     map[string]*c03Conn // every connection ever opened in this world, by connID
	banned  map[string]bool
	black   map[string]bool
	run     *vk.Run
	trace   []string
}

func c03NewWorld(t *testing.T, run *vk.Run) *c03World { return c03NewWorldV(t, run, 0) }

// c03Corrupt returns an undecryptable variant of a stored (base64 AES-GCM) secret.
func c03Corrupt(enc string, variant int) string {
	raw, _ := base64.StdEncoding.DecodeString(enc)
	switch variant % 6 {
	case 0: // one byte of the ciphertext flipped
		if len(raw) > 20 {
			raw[len(raw)/2] ^= 0x41
		}
		return base64.StdEncoding.EncodeToString(raw)
	case 1: // truncated inside the GCM tag
		if len(raw) > 5 {
			raw = raw[:len(raw)-5]
		}
		return base64.StdEncoding.EncodeToString(raw)
	case 2: // shorter than a nonce
		return base64.StdEncoding.EncodeToString([]byte("short"))
	case 3: // valid base64 of garbage
		return base64.StdEncoding.EncodeToString([]byte("0123456789abcdefghijklmnopqrstuvwxyzABCDEFGHIJKL"))
	case 4: // not base64 at all
		return "%%%-not-base64-%%%"
	}
	// nonce flipped
	if len(raw) > 0 {
		raw[0] ^= 0x01
	}
	return base64.StdEncoding.EncodeToString(raw)
}

// c03NewWorldV: variant selects how the stored secret of the "corrupted" client is damaged.
func c03NewWorldV(t *testing.T, run *vk.Run, variant int) *c03World {
	// large thresholds/durations: bans happen only through explicit events
	bf := &security.BruteForceConfig{MaxFailures: 1000, TimeWindow: time.Hour, BanDuration: time.Hour, PermanentBanAt: 100000, CleanupInterval: time.Hour}
	rl := &security.RateLimitConfig{Rate: 100000, Burst: 100000, TTL: time.Hour}
	n := newMiniNode(t, miniOpts{BruteForce: bf, RateLimit: rl})
	w := &c03World{n: n, secret: map[int64]string{}, expired: map[int64]bool{}, undec: map[int64]bool{}, run: run, all: map[string]*c03Conn{}, banned: map[string]bool{}, black: map[string]bool{}}
	// two provisioned clients A and B (secrets recorded from their first-connect replies)
	for i := 0; i < 6; i++ {
		c := n.NewClient("")
		w.clients = append(w.clients, c.ClientID)
		w.secret[c.ClientID] = c.Secret
		c.CloseByPeer()
	}
	// third client is expired
	exp := w.clients[2]
	cr := repos.NewClientConfigRepository(n.Repo)
	cfg, err := cr.GetConfig(exp)
	if err != nil {
		t.Fatalf("c03: get config: %v", err)
	}
	past := time.Now().Add(-time.Hour)
	cfg.ExpiresAt = &past
	if err := cr.UpdateConfig(cfg); err != nil {
		t.Fatalf("c03: update config: %v", err)
	}
	w.expired[exp] = true
	// fourth client: expired although bound to a user (expiry of every kind of client
	// must refuse authentication), expiry only just in the past
	exp2 := w.clients[3]
	cfg2, err := cr.GetConfig(exp2)
	if err != nil {
		t.Fatalf("c03: get config: %v", err)
	}
	past2 := time.Now().Add(-2 * time.Second)
	cfg2.ExpiresAt = &past2
	cfg2.UserID = "verif-user-1"
	if err := cr.UpdateConfig(cfg2); err != nil {
		t.Fatalf("c03: update config: %v", err)
	}
	w.expired[exp2] = true
	// fifth client: stored secret corrupted (undecryptable); sixth: stored secret is the empty string
	for i, enc := range []func(string) string{func(e string) string { return c03Corrupt(e, variant) }, func(string) string { return "" }} {
		id := w.clients[4+i]
		cfg, err := cr.GetConfig(id)
		if err != nil {
			t.Fatalf("c03: get config: %v", err)
		}
		if _, derr := n.SKM.Decrypt(cfg.SecretKeyEncrypted); derr != nil {
			t.Fatalf("c03: freshly issued secret not decryptable: %v", derr)
		}
		cfg.SecretKeyEncrypted = enc(cfg.SecretKeyEncrypted)
		if _, derr := n.SKM.Decrypt(cfg.SecretKeyEncrypted); derr == nil {
			t.Fatalf("c03: corrupted secret (variant %d) still decrypts", variant)
		}
		if err := cr.UpdateConfig(cfg); err != nil {
			t.Fatalf("c03: update config: %v", err)
		}
		w.undec[id] = true
	}
	return w
}

// rotateMasterKey models a server restart with a ROTATED master key over the
// existing client records: every secret stored so far becomes undecryptable, so no
// response for those clients can be "correct" any more.
func (w *c03World) rotateMasterKey() {
	w.rotated++
	key := base64.StdEncoding.EncodeToString([]byte(fmt.Sprintf("rotated-master-key-%013d", w.rotated)))
	skm, err := security.NewSecretKeyManager(&security.SecretKeyConfig{MasterKey: key})
	if err != nil {
		w.n.t.Fatalf("c03: rotated secret key manager: %v", err)
	}
	w.n.SKM = skm
	w.n.Auth.secretKeyMgr = skm
	w.n.CC.SetSecretKeyManager(skm)
	for _, id := range w.clients {
		w.undec[id] = true
	}
	w.trace = append(w.trace, "rotate-master-key")
}

func (w *c03World) open(addr string) *c03Conn {
	c := w.n.MustConnect(addr)
	cc := &c03Conn{c: c, addr: addr, ip: strings.Split(addr, ":")[0], accepted: map[string]bool{}, everCtl: map[int64]bool{}}
	w.conns = append(w.conns, cc)
	w.all[c.ConnID] = cc
	return cc
}

// observe reads the real state of the connection.
func (w *c03World) observe(cc *c03Conn) (auth bool, id int64) {
	k := w.n.SM.GetControlConnection(cc.c.ConnID)
	if k == nil {
		return false, 0
	}
	if !k.IsAuthenticated() {
		return false, 0
	}
	return true, k.GetClientID()
}

// blocked is the monitor's own model of the address gates: thresholds and
// durations are configured so that bans/blacklist entries exist only through the
// explicit events below (1 h or permanent), never through expiry within a run.
func (w *c03World) blocked(ip string) bool {
	return w.banned[ip] || w.black[ip]
}

func (w *c03World) ban(ip string) {
	w.n.BFP.BanIP(ip, time.Hour, "verif")
	w.banned[ip] = true
	w.trace = append(w.trace, "ban "+ip)
}
func (w *c03World) unban(ip string) {
	w.n.BFP.UnbanIP(ip)
	delete(w.banned, ip)
	w.trace = append(w.trace, "unban "+ip)
}
func (w *c03World) blacklist(ip string, permanent bool) {
	d := time.Hour
	if permanent {
		d = 0
	}
	if err := w.n.IPM.AddToBlacklist(ip, d, "verif", "verif"); err == nil {
		w.black[ip] = true
	}
	w.trace = append(w.trace, fmt.Sprintf("blacklist %s permanent=%v", ip, permanent))
}
func (w *c03World) unblacklist(ip string) {
	w.n.IPM.RemoveFromBlacklist(ip)
	delete(w.black, ip)
	w.trace = append(w.trace, "unblacklist "+ip)
}

// restartIPManager models a server restart of the address-list component: a new
// IPManager is created on the same (persisted) storage and wired into the handler.
func (w *c03World) restartIPManager() {
	ipm := security.NewIPManager(w.n.Store, w.n.ctx)
	w.n.IPM = ipm
	w.n.Auth.ipManager = ipm
	w.trace = append(w.trace, "restart-ipmanager")
}

// step sends one message and runs the monitor. kind encodes the message.
func (w *c03World) step(cc *c03Conn, kind string, id int64, ctype string) {
	auth0, id0 := w.observe(cc)
	blocked := w.blocked(cc.ip)
	entitling := int64(0)
	desc := fmt.Sprintf("%s(id=%s,%s)@%s", kind, w.idName(id), ctype, cc.addr)
	w.trace = append(w.trace, desc)
	var respOK bool
	var lastReply any
	switch {
	case kind == "FC":
		r, rerr := cc.c.FirstConnect()
		lastReply = fmt.Sprintf("%+v err=%v", r, rerr)
		if r != nil && r.Success && r.ClientID != 0 {
			// a brand-new identity issued on this connection just now
			w.clients = append(w.clients, r.ClientID)
			w.secret[r.ClientID] = r.SecretKey
			if !blocked {
				entitling = r.ClientID
			}
			respOK = true
			w.run.Count("fc_ok", 1)
		}
	case kind == "P1":
		r, _ := cc.c.Phase1(id, ctype)
		if r != nil && r.Challenge != "" {
			if cc.challenge != "" {
				cc.prevChal = cc.challenge
			}
			cc.challenge = r.Challenge
			w.run.Count("challenges", 1)
		}
		if r != nil && r.Success {
			respOK = true
		}
	case strings.HasPrefix(kind, "P2"):
		var resp string
		sec := w.secret[id]
		switch kind {
		case "P2valid":
			resp = HMACResp(sec, cc.challenge)
			if cc.challenge != "" && !cc.accepted[cc.challenge] && sec != "" && !w.expired[id] && !w.undec[id] && !blocked {
				entitling = id
			}
		case "P2stale":
			resp = HMACResp(sec, cc.prevChal)
			if cc.prevChal == "" {
				resp = HMACResp(sec, "never-issued-challenge")
			}
			w.run.Count("p2_stale", 1)
		case "P2foreign":
			other := w.clients[0]
			if other == id {
				other = w.clients[1]
			}
			resp = HMACResp(w.secret[other], cc.challenge)
			w.run.Count("p2_foreign", 1)
		case "P2replay":
			resp = cc.lastGoodP2
			if resp == "" {
				resp = HMACResp(sec, "nothing-accepted-yet")
			}
			id = cc.lastGoodID
			if id == 0 {
				id = w.clients[0]
			}
			w.run.Count("p2_replay", 1)
		case "P2garbage":
			resp = "zz-not-hex"
			w.run.Count("p2_garbage", 1)
		case "P2long":
			resp = strings.Repeat("ab", 40000)
		case "P2empty-hmac":
			// hex of HMAC with empty key: what a client without any secret could compute
			resp = HMACResp("", cc.challenge)
		}
		usedChal := cc.challenge
		if w.undec[id] {
			w.run.Count("p2_for_client_with_undecryptable_secret", 1)
			if kind == "P2empty-hmac" && cc.challenge != "" {
				w.run.Count("p2_emptykey_hmac_of_pending_challenge_for_undecryptable_secret", 1)
			}
		}
		r, _ := cc.c.Phase2(id, resp, ctype)
		if r != nil && r.Success {
			respOK = true
			if kind == "P2valid" {
				cc.lastGoodP2 = resp
				cc.lastGoodID = id
			}
			if usedChal != "" {
				if cc.accepted[usedChal] {
					w.run.Violation("C03:challenge-accepted-twice", map[string]any{"trace": w.tail()})
				}
				cc.accepted[usedChal] = true
			}
		}
	}
	auth1, id1 := w.observe(cc)
	if kind == "FC" && entitling == 0 && auth1 && !blocked && !w.known(id1) && (!auth0 || id1 != id0) {
		// the reply could not be delivered (e.g. transport already closed by an
		// eviction) but the server did issue a brand-new identity on this connection
		w.clients = append(w.clients, id1)
		entitling = id1
		w.run.Count("fc_issued_reply_lost", 1)
	}
	// ---- monitor ----
	if entitling != 0 && auth1 && id1 == entitling {
		cc.entitled = entitling
		cc.everCtl[entitling] = true
		if kind != "FC" {
			w.run.Count("p2_accepted", 1)
		}
	} else {
		// the message was not entitling (or was refused): identity must be unchanged
		if auth1 != auth0 || (auth1 && id1 != id0) {
			sig := fmt.Sprintf("C03:identity-changed|msg=%s|from=%v|to=%v", kind, c03State(auth0), c03State(auth1))
			if auth1 && id1 != cc.entitled {
				sig = fmt.Sprintf("C03:authenticated-without-proof|msg=%s", kind)
			}
			w.run.Violation(sig, map[string]any{"trace": w.tail(), "before": []any{auth0, id0}, "after": []any{auth1, id1}, "blocked": blocked, "reply": lastReply})
		}
		if respOK && kind != "P1" && entitling == 0 {
			w.run.Violation(fmt.Sprintf("C03:success-reply-without-proof|msg=%s", kind), map[string]any{"trace": w.tail(), "blocked": blocked})
		}
	}
	if auth1 && id1 != cc.entitled {
		w.run.Violation(fmt.Sprintf("C03:authenticated-as-unentitled|msg=%s", kind), map[string]any{"trace": w.tail(), "auth_as": id1, "entitled": cc.entitled})
	}
	// registry: every lookup by client id returns nil or a control connection entitled to that id
	for _, x := range w.clients {
		k := w.n.SM.GetControlConnectionByClientID(x)
		if k == nil {
			continue
		}
		owner := w.all[k.GetConnID()]
		if owner == nil {
			w.run.Violation("C03:index-points-to-unknown-conn", map[string]any{"trace": w.tail(), "client": x})
			continue
		}
		// which client a live connection currently belongs to, and staleness of the
		// index, are C07's concern; here: the indexed connection must have proven x's
		// key (or have been issued x) at some point
		if !owner.everCtl[x] {
			sig := fmt.Sprintf("C03:control-channel-of-other-client|msg=%s", kind)
			w.run.Violation(sig, map[string]any{"trace": w.tail(), "client": x, "conn_entitled": owner.entitled})
		}
	}
}

func (w *c03World) known(id int64) bool {
	for _, x := range w.clients {
		if x == id {
			return true
		}
	}
	return false
}

// reap plays the adapter: a connection whose transport the server closed ends its
// read loop, which calls CloseConnection. Returns true if cc was reaped.
func (w *c03World) reap(cc *c03Conn) bool {
	if !cc.c.ServerClosedTransport() {
		return false
	}
	cc.c.CloseByPeer()
	for j, o := range w.conns {
		if o == cc {
			w.conns = append(w.conns[:j], w.conns[j+1:]...)
			break
		}
	}
	w.trace = append(w.trace, "adapter-cleanup "+cc.addr)
	return true
}

func c03State(a bool) string {
	if a {
		return "auth"
	}
	return "unauth"
}

func (w *c03World) idName(id int64) string {
	for i, x := range w.clients {
		if x == id {
			if w.expired[id] {
				return "expired"
			}
			if w.undec[id] {
				return fmt.Sprintf("undecryptable%d", i)
			}
			return fmt.Sprintf("c%d", i)
		}
	}
	if id == 0 {
		return "0"
	}
	return "unknown"
}

func (w *c03World) tail() []string {
	t := w.trace
	if len(t) > 40 {
		t = t[len(t)-40:]
	}
	return append([]string(nil), t...)
}

func (w *c03World) close() { w.n.Close() }

type c03Msg struct {
	kind  string
	idSel int // 0=A 1=B 2=expired 3=unknown 4=expired user-bound client 5=corrupted stored secret 6=empty stored secret
	ctype string
}

func c03Alphabet() []c03Msg {
	var out []c03Msg
	for _, ct := range []string{"control", "tunnel"} {
		out = append(out, c03Msg{"FC", 0, ct})
		for id := 0; id < 4; id++ {
			out = append(out, c03Msg{"P1", id, ct})
		}
		for _, k := range []string{"P2valid", "P2stale", "P2foreign", "P2replay", "P2garbage", "P2empty-hmac"} {
			for id := 0; id < 2; id++ {
				out = append(out, c03Msg{k, id, ct})
			}
		}
		out = append(out, c03Msg{"P2valid", 2, ct}, c03Msg{"P2valid", 3, ct}, c03Msg{"P1", 4, ct}, c03Msg{"P2valid", 4, ct})
		// clients whose stored secret cannot be decrypted: nothing may authenticate them
		out = append(out, c03Msg{"P1", 5, ct}, c03Msg{"P2empty-hmac", 5, ct}, c03Msg{"P2valid", 5, ct}, c03Msg{"P2empty-hmac", 6, ct})
	}
	return out
}

func (w *c03World) idOf(sel int) int64 {
	switch sel {
	case 0, 1, 2:
		return w.clients[sel]
	case 4:
		return w.clients[3]
	case 5:
		return w.clients[4]
	case 6:
		return w.clients[5]
	}
	return 987654321
}

func (w *c03World) apply(cc *c03Conn, m c03Msg) {
	w.step(cc, m.kind, w.idOf(m.idSel), m.ctype)
}

func TestVerifC03Exhaustive(t *testing.T) {
	run := vk.Start(t, "C03", "exhaustive")
	defer run.Finish()
	alpha := c03Alphabet()
	depth := run.Pick(2, 3)
	run.Rule(fmt.Sprintf("all handshake message sequences up to depth %d on one connection over an alphabet of %d messages (FC, P1 x {A,B,expired,unknown}, P2 x {valid,stale,foreign-key,replay,garbage,empty-key-hmac} x {A,B}, P2valid for expired/unknown; P1, P2 valid/empty-key-hmac for a client whose stored secret is corrupted, P2 empty-key-hmac for a client whose stored secret is empty; each as control and tunnel type), each preceded by the prefix P1(A) or nothing; plus all 2-connection interleavings of depth-2 sequences from a reduced alphabet; distinct = message-kind sequence; non-trivial = contains at least one P2", len(alpha)))
	w := c03NewWorld(t, run)
	defer w.close()
	total := 0
	var rec func(seq []int, d int)
	runSeq := func(seq []int, prefix bool) {
		cc := w.open("")
		w.trace = nil
		names := []string{}
		if prefix {
			w.step(cc, "P1", w.clients[0], "control")
			names = append(names, "P1A")
		}
		hasP2 := false
		for _, i := range seq {
			w.apply(cc, alpha[i])
			names = append(names, fmt.Sprintf("%s/%d/%s", alpha[i].kind, alpha[i].idSel, alpha[i].ctype[:1]))
			if strings.HasPrefix(alpha[i].kind, "P2") {
				hasP2 = true
			}
		}
		key := strings.Join(names, ",")
		run.Eval(1)
		if hasP2 {
			run.Distinct(key)
		}
		if total < 3 {
			run.Sample(names)
		}
		total++
		cc.c.CloseByPeer()
		w.conns = w.conns[:0]
	}
	rec = func(seq []int, d int) {
		if len(seq) > 0 {
			run.Case("seq", seq)
			runSeq(seq, false)
			runSeq(seq, true)
		}
		if d == 0 || run.Violations() > 20 {
			return
		}
		for i := range alpha {
			rec(append(append([]int(nil), seq...), i), d-1)
		}
	}
	rec(nil, depth)
	run.Exhaustive(true)

	// two-connection interleavings (same address and different addresses)
	red := []c03Msg{{"P1", 0, "control"}, {"P1", 1, "control"}, {"P2valid", 0, "control"}, {"P2valid", 1, "control"}, {"P2foreign", 0, "control"}, {"P2valid", 0, "tunnel"}, {"FC", 0, "control"}}
	for a1 := range red {
		for a2 := range red {
			for b1 := range red {
				for b2 := range red {
					for _, order := range [][]int{{0, 1, 0, 1}, {0, 0, 1, 1}, {0, 1, 1, 0}, {1, 0, 0, 1}} {
						w.trace = nil
						ca, cb := w.open(""), w.open("")
						qa, qb := []c03Msg{red[a1], red[a2]}, []c03Msg{red[b1], red[b2]}
						for _, o := range order {
							if o == 0 {
								if !ca.c.ServerClosedTransport() {
									w.apply(ca, qa[0])
								} else {
									run.Count("msgs_skipped_on_evicted_conn", 1)
								}
								qa = qa[1:]
							} else {
								if !cb.c.ServerClosedTransport() {
									w.apply(cb, qb[0])
								} else {
									run.Count("msgs_skipped_on_evicted_conn", 1)
								}
								qb = qb[1:]
							}
						}
						run.Eval(1)
						run.Distinct(fmt.Sprintf("2c|%d%d%d%d|%v", a1, a2, b1, b2, order))
						ca.c.CloseByPeer()
						cb.c.CloseByPeer()
						w.conns = w.conns[:0]
					}
				}
			}
		}
		if !run.Thorough() && a1 >= 3 {
			break
		}
	}
	run.Floor("p2_accepted", 1)
	run.Floor("p2_stale", 1)
	run.Floor("p2_foreign", 1)
	run.Floor("p2_replay", 1)
	run.Floor("fc_ok", 1)
	run.Floor("p2_emptykey_hmac_of_pending_challenge_for_undecryptable_secret", 10)
}

func TestVerifC03Random(t *testing.T) {
	run := vk.Start(t, "C03", "random")
	defer run.Finish()
	run.Rule("seeded random sequences of 20-60 handshake messages over 3 connections from 3 addresses, interleaved with ban/unban, blacklist/unblacklist, reconnect, address-list restart and (rarely) master-key rotation events; per world one of 6 corruption variants of a stored secret (byte flip, truncation, too short, base64 garbage, not base64, nonce flip) plus an empty stored secret; distinct = (message kind, identity class, connection type, blocked?) 3-grams")
	r := run.Rand("seq")
	alpha := c03Alphabet()
	nseq := run.Pick(150, 4000)
	for s := 0; s < nseq; s++ {
		w := c03NewWorldV(t, run, r.Intn(6))
		addrs := []string{"10.9.0.1:1000", "10.9.0.2:1000", "10.9.0.3:1000"}
		conns := []*c03Conn{w.open(addrs[0]), w.open(addrs[1]), w.open(addrs[r.Intn(3)])}
		n := 20 + r.Intn(41)
		var grams []string
		run.Case(fmt.Sprintf("rand%d", s), nil)
		for i := 0; i < n; i++ {
			ci := r.Intn(len(conns))
			cc := conns[ci]
			if r.Intn(50) == 0 {
				w.rotateMasterKey()
				run.Count("master_key_rotations", 1)
				run.Eval(1)
				continue
			}
			switch r.Intn(15) {
			case 0:
				w.ban(cc.ip)
				run.Count("ban_events", 1)
			case 1:
				w.unban(cc.ip)
			case 2:
				w.blacklist(cc.ip, r.Intn(2) == 0)
				run.Count("blacklist_events", 1)
			case 3:
				w.unblacklist(cc.ip)
			case 14:
				w.restartIPManager()
				run.Count("ipmanager_restarts", 1)
			case 4:
				// reconnect: close and reopen from the same address
				cc.c.CloseByPeer()
				for j, o := range w.conns {
					if o == cc {
						w.conns = append(w.conns[:j], w.conns[j+1:]...)
						break
					}
				}
				conns[ci] = w.open(cc.addr)
				w.trace = append(w.trace, "reconnect "+cc.addr)
			default:
				m := alpha[r.Intn(len(alpha))]
				if r.Intn(3) == 0 {
					m = c03Msg{"P2valid", r.Intn(2), "control"}
				}
				if r.Intn(4) == 0 {
					m = c03Msg{"P1", r.Intn(2), "control"}
				}
				if cc.challenge != "" && r.Intn(8) == 0 {
					// what a peer knowing only a client id can compute
					m = c03Msg{"P2empty-hmac", []int{0, 1, 5, 6}[r.Intn(4)], []string{"control", "tunnel"}[r.Intn(2)]}
				}
				blocked := w.blocked(cc.ip)
				w.apply(cc, m)
				for j := range conns {
					if w.reap(conns[j]) {
						conns[j] = w.open(conns[j].addr)
						run.Count("evicted_conns_reaped", 1)
					}
				}
				grams = append(grams, fmt.Sprintf("%s/%d/%s/%v", m.kind, m.idSel, m.ctype[:1], blocked))
				if blocked {
					run.Count("messages_while_blocked", 1)
				}
				if len(grams) >= 3 {
					run.Distinct(strings.Join(grams[len(grams)-3:], ">"))
				}
			}
			run.Eval(1)
		}
		if s < 2 {
			run.Sample(w.tail())
		}
		w.close()
		if run.Violations() > 20 {
			break
		}
	}
	run.Floor("p2_accepted", 5)
	run.Floor("ban_events", 5)
	run.Floor("messages_while_blocked", 5)
	run.Floor("master_key_rotations", 5)
	run.Floor("p2_emptykey_hmac_of_pending_challenge_for_undecryptable_secret", 10)
}

var _ = rand.Int
