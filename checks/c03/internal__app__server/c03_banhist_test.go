//go:build verif && verif_c03

package server

import (
	"fmt"
	"strings"
	"testing"
	"time"
	_ "unsafe" // go:linkname

	"tunnox-core/internal/constants"
	"tunnox-core/internal/security"
	vk "tunnox-core/internal/verifkit"
)

// C03 — ban HISTORIES on one address: "banned ... addresses are never authenticated".
//
// Protector settings of this monitor: MaxFailures 3 (=> temporary ban of 6 ms),
// PermanentBanAt 5 total failures, window 1 h. Per address a history of
//   operator BanIP(permanent | 1 h | short 5-10 ms), UnbanIP,
//   failing handshake messages (sent only while the address is not banned in the
//   harness's model, so each is certainly booked as one failure),
//   a failing message HELD in the gated store after the ban gate while the operator
//   bans the address permanently (its failure is booked after the permanent ban),
// then all short durations elapse (real time; only to reach the state), then
// handshakes with the right credentials are driven from the address.
//
// Harness model: a permanent ban (operator BanIP 0, or the 5th booked failure) stands
// until UnbanIP — a later temporary ban of the same address is not an unban; among
// temporary bans the last one applied defines the ban (what the protector documents).
// A ban is CERTAINLY live if permanent, 1 h, or short with its earliest possible
// expiry (time before the call + duration) after the handshake's reply was received.
// Only "certainly banned => refused" is judged.

const (
	c03nMaxFailures = 3
	c03nPermAt      = 5
	c03nBanDur      = 6 * time.Millisecond
)

type c03nAddr struct {
	ip        string
	ban       c03hEntry
	failures  int
	tempAfter bool // a temporary ban was applied after the permanent one
	permBy    string
	hist      []string
	ports     int
}

// the protector's own periodic pass over failure and ban records (run by its CleanupInterval
// ticker, 1 minute by default); the harness invokes that same method so that a pass falls between
// the histories and the final checks without waiting for the ticker.
//
//go:linkname c03hSweep tunnox-core/internal/security.(*BruteForceProtector).cleanup
func c03hSweep(p *security.BruteForceProtector)

func TestVerifC03BanHistories(t *testing.T) {
	run := vk.Start(t, "C03", "ban-histories")
	defer run.Finish()
	run.Rule("rounds of 6 addresses, each with one history: T1 operator permanent ban then operator short ban; T2 failures up to the permanent threshold (with UnbanIP between the temporary bans they cause) then operator short ban; T3 two failures, a third failing message held after the ban gate, operator permanent ban, release (its temporary ban lands after the permanent one); T4 1-4 random operator actions {short, 1 h, permanent, unban} with checks in between; then all short durations elapse and (two rounds in three) the protector's periodic clean-up pass runs, then FC / P1+P2valid from every address; distinct = action history + final checks")
	r := run.Rand("banhist")
	rounds := run.Pick(60, 1500)
	perWorld := 30
	bf := &security.BruteForceConfig{MaxFailures: c03nMaxFailures, TimeWindow: time.Hour, BanDuration: c03nBanDur, PermanentBanAt: c03nPermAt, CleanupInterval: time.Hour}
	var w *c03bWorld
	defer func() {
		if w != nil {
			w.close()
		}
	}()
	nviol := 0
	for rd := 0; rd < rounds && nviol <= 20 && run.Counter("watchdog") == 0; rd++ {
		if rd%perWorld == 0 {
			if w != nil {
				w.close()
			}
			w = c03bNewWorldCfg(t, run, bf)
		}
		w.trace = nil
		w.gate.clear()
		run.Case("banhist", rd)
		var addrs []*c03nAddr
		for i := 0; i < 6; i++ {
			addrs = append(addrs, &c03nAddr{ip: fmt.Sprintf("10.96.%d.%d", rd%250, i+1)})
		}
		open := func(a *c03nAddr) *c03bConn {
			a.ports++
			return w.open(fmt.Sprintf("%s:%d", a.ip, 5000+a.ports), fmt.Sprintf("%s#%d", a.ip, a.ports))
		}
		check := func(a *c03nAddr, phase string) {
			cc := open(a)
			A := w.ids[r.Intn(3)]
			msgs := [][2]any{{"FC", int64(0)}}
			if r.Intn(2) == 0 {
				msgs = [][2]any{{"P1", A}, {"P2valid", A}}
			}
			for _, m := range msgs {
				res := w.send(cc, m[0].(string), m[1].(int64), false)
				now := time.Now() // the reply has been received
				auth1, id1 := w.observe(cc)
				a.hist = append(a.hist, fmt.Sprintf("%s:%s", phase, res.kind))
				if !a.ban.certainlyLive(now) {
					run.Count("messages_not_judged_address_not_certainly_banned", 1)
					if auth1 {
						a.failures = 0 // a success clears the failure bookkeeping
					}
					continue
				}
				run.Count("messages_from_certainly_banned_address", 1)
				if a.ban.kind == "perm" && a.tempAfter && phase == "after-expiry" {
					run.Count("messages_after_temporary_ban_over_permanent_certainly_expired", 1)
				}
				if auth1 || (res.replyOK && res.kind != "P1") {
					sig := fmt.Sprintf("C03:banhist|authenticated-while-address-banned|msg=%s|ban=%s|temporary-ban-applied-later=%v", res.kind, a.ban.kind, a.tempAfter)
					run.Violation(sig, map[string]any{"address": a.ip, "history": append([]string(nil), a.hist...), "permanent_by": a.permBy, "phase": phase, "after": []any{auth1, w.cname(id1)}, "reply_success": res.replyOK})
					nviol++
					return
				}
				run.Count("refused_from_certainly_banned_address", 1)
			}
		}
		operator := func(a *c03nAddr, what string) {
			var d time.Duration
			switch what {
			case "short":
				d = time.Duration(5+r.Intn(6)) * time.Millisecond
			case "1h":
				d = time.Hour
			}
			t0 := time.Now()
			if what == "unban" {
				w.n.BFP.UnbanIP(a.ip)
				a.ban, a.tempAfter, a.permBy = c03hEntry{}, false, ""
			} else {
				w.n.BFP.BanIP(a.ip, d, "verif")
				switch {
				case what == "perm":
					a.ban, a.permBy = c03hEntry{kind: "perm"}, "operator"
				case a.ban.kind == "perm":
					// a temporary ban of a permanently banned address: still permanently banned
					a.tempAfter = true
					run.Count("temporary_ban_applied_to_permanently_banned_address", 1)
				default:
					a.ban = c03hEntry{kind: what, tBefore: t0, tAfter: time.Now(), life: d}
				}
			}
			a.hist = append(a.hist, "operator-"+what)
		}
		// booked applies the protector's documented bookkeeping for one booked failure
		booked := func(a *c03nAddr, t0 time.Time) {
			a.failures++
			switch {
			case a.failures >= c03nPermAt:
				a.ban, a.permBy = c03hEntry{kind: "perm"}, "failures"
			case a.failures >= c03nMaxFailures:
				if a.ban.kind == "perm" {
					a.tempAfter = true
					run.Count("temporary_ban_applied_to_permanently_banned_address", 1)
				} else {
					a.ban = c03hEntry{kind: "short", tBefore: t0, tAfter: time.Now(), life: c03nBanDur}
				}
			}
		}
		// fail sends one failing message; only called while a is not banned in the model
		fail := func(a *c03nAddr) {
			cc := open(a)
			t0 := time.Now()
			switch r.Intn(3) {
			case 0:
				w.send(cc, "P1", 900000000+int64(r.Intn(1000)), false)
			case 1:
				w.send(cc, "P2garbage", w.ids[3], false)
			default:
				w.send(cc, "P1", w.ids[3], false)
				t0 = time.Now()
				w.send(cc, "P2garbage", w.ids[3], false)
			}
			booked(a, t0)
			a.hist = append(a.hist, "failing-message")
			run.Count("failing_messages_booked", 1)
			if auth, _ := w.observe(cc); auth {
				run.Violation("C03:banhist|authenticated-without-proof|msg=failing", map[string]any{"address": a.ip, "history": append([]string(nil), a.hist...)})
				nviol++
			}
		}
		for _, a := range addrs {
			switch tpl := r.Intn(8); {
			case tpl <= 1: // T1
				operator(a, "perm")
				if r.Intn(3) == 0 {
					check(a, "before-expiry")
				}
				operator(a, "short")
			case tpl <= 3: // T2: permanent through the failure threshold
				for a.failures < c03nPermAt {
					if a.ban.kind != "" {
						operator(a, "unban")
					}
					fail(a)
				}
				run.Count("permanent_ban_reached_by_failure_threshold", 1)
				operator(a, "short")
			case tpl <= 5: // T3: the failure that crosses MaxFailures is booked after a permanent ban
				for a.failures < c03nMaxFailures-1 {
					fail(a)
				}
				cc := open(a)
				unknown := 910000000 + int64(r.Intn(1000))
				hold := w.gate.add("Get", fmt.Sprintf("%s:%d", constants.KeyPrefixPersistClientConfig, unknown))
				done := make(chan struct{})
				go func() {
					defer close(done)
					w.send(cc, "P1", unknown, false)
				}()
				held := false
				select {
				case <-hold.held:
					held = true
				case <-done:
				case <-time.After(20 * time.Second):
					run.Count("watchdog", 1)
				}
				operator(a, "perm")
				t0 := time.Now()
				close(hold.release)
				select {
				case <-done:
				case <-time.After(20 * time.Second):
					run.Count("watchdog", 1)
				}
				if held {
					run.Count("failing_message_held_after_ban_gate_while_permanent_ban_placed", 1)
					booked(a, t0)
					a.hist = append(a.hist, "held-failing-message-booked-after-permanent-ban")
				}
			default: // T4
				for i, n := 0, 1+r.Intn(4); i < n; i++ {
					if r.Intn(4) == 0 {
						check(a, "before-expiry")
						continue
					}
					operator(a, []string{"short", "short", "1h", "perm", "perm", "unban"}[r.Intn(6)])
				}
			}
		}
		// ---- every short duration (<= 10 ms, applied or not) elapses ----
		time.Sleep(12 * time.Millisecond)
		if rd%3 != 2 { // the protector's periodic clean-up pass runs before the final checks
			c03hSweep(w.n.BFP)
			run.Count("cleanup_pass_before_final_checks", 1)
		}
		for _, a := range addrs {
			check(a, "after-expiry")
			if r.Intn(3) == 0 {
				check(a, "after-expiry")
			}
			run.Eval(1)
			run.Distinct(strings.Join(a.hist, ","))
		}
		if rd < 2 {
			for _, a := range addrs[:3] {
				run.Sample(append([]string{a.ip}, a.hist...))
			}
		}
		for _, c := range w.opened {
			c.c.CloseByPeer()
		}
		w.opened = nil
	}
	run.Floor("cleanup_pass_before_final_checks", int64(rounds/2))
	run.Floor("messages_from_certainly_banned_address", int64(rounds*3))
	run.Floor("refused_from_certainly_banned_address", int64(rounds*2))
	run.Floor("temporary_ban_applied_to_permanently_banned_address", int64(rounds*2))
	run.Floor("messages_after_temporary_ban_over_permanent_certainly_expired", int64(rounds*2))
	run.Floor("permanent_ban_reached_by_failure_threshold", int64(rounds/2))
	run.Floor("failing_message_held_after_ban_gate_while_permanent_ban_placed", int64(rounds/2))
	if run.Counter("watchdog") > 0 {
		run.Floor("watchdog_free_run", 1)
	}
}
