//go:build verif && verif_c03

package server

import (
	"fmt"
	"net"
	"strings"
	"testing"
	"time"

	"tunnox-core/internal/security"
	"tunnox-core/internal/stream"
	vk "tunnox-core/internal/verifkit"
)

// ---------------------------------------------------------------------------
// C03 — blacklist HISTORIES: "... blacklisted addresses are never authenticated".
//
// Per address a history of operator actions on the address list: temporary entries
// with a short lifetime (5-12 ms), 1 h entries, permanent entries, removals — on the
// exact key and on a CIDR key covering the address — e.g. a permanent entry added
// while a short temporary one is still live. Then the short lifetimes elapse (real
// time; only used to reach the state, never for a verdict), optionally a sweep pass
// and/or a restart of the address-list component, and handshakes with the right
// credentials are driven from the address.
//
// Model (harness-owned, last successful operator action per key wins — what the
// address list documents): a key is CERTAINLY live if its last action is a permanent
// or 1 h add, or a short add whose earliest possible expiry (time before the call +
// lifetime) is later than the moment the handshake's reply was received. Only
// "certainly blacklisted => refused" is judged (interval rule); nothing is judged
// for keys that may or may not have expired.

type c03hEntry struct {
	kind     string // "" (none/removed) | "short" | "1h" | "perm"
	tBefore  time.Time
	tAfter   time.Time
	life     time.Duration
	overLive bool // this add replaced a short entry that was certainly still live
}

func (e c03hEntry) certainlyLive(now time.Time) bool {
	switch e.kind {
	case "perm", "1h":
		return true
	case "short":
		return now.Before(e.tBefore.Add(e.life))
	}
	return false
}

type c03hAddr struct {
	ip    string
	keys  [2]string // exact, cidr
	ent   [2]c03hEntry
	hist  []string
	ports int
}

// restartAddressList models a restart of the address-list component on the same
// (persisted) storage, using exported constructors only.
func (w *c03bWorld) restartAddressList() {
	ipm := security.NewIPManager(w.n.Store, w.n.ctx)
	auth := NewServerAuthHandler(w.n.CC, w.n.SM, w.n.BFP, ipm, w.n.RL, w.n.SKM)
	w.n.SM.SetAuthHandler(auth)
	w.n.IPM, w.n.Auth = ipm, auth
}

func TestVerifC03BlacklistHistories(t *testing.T) {
	run := vk.Start(t, "C03", "blacklist-histories")
	defer run.Finish()
	run.Rule("rounds of 6 addresses, each with a history of 1-4 operator actions {short temporary add (5-12 ms), 1 h add, permanent add, remove} on its exact key and on a CIDR key covering it (40% start with short-then-permanent/1 h on the same key), handshake checks in between; then all short lifetimes elapse, optional sweep pass, optional restart of the address list; then FC / P1+P2valid from every address; distinct = action history + final checks")
	r := run.Rand("blhist")
	rounds := run.Pick(60, 1500)
	perWorld := 30
	var w *c03bWorld
	defer func() {
		if w != nil {
			w.close()
		}
	}()
	nviol := 0
	for rd := 0; rd < rounds && nviol <= 20; rd++ {
		if rd%perWorld == 0 {
			if w != nil {
				w.close()
			}
			w = c03bNewWorld(t, run)
		}
		w.trace = nil
		run.Case("blhist", rd)
		var addrs []*c03hAddr
		for i := 0; i < 6; i++ {
			ip := fmt.Sprintf("10.91.%d.%d", rd%250, 2*i+2)
			addrs = append(addrs, &c03hAddr{ip: ip, keys: [2]string{ip, ip + "/31"}})
		}
		restarted := false
		check := func(a *c03hAddr, phase string) {
			a.ports++
			cc := w.open(fmt.Sprintf("%s:%d", a.ip, 3000+a.ports), fmt.Sprintf("%s#%d", a.ip, a.ports))
			A := w.ids[r.Intn(3)]
			msgs := [][2]any{{"FC", int64(0)}}
			if r.Intn(2) == 0 {
				msgs = [][2]any{{"P1", A}, {"P2valid", A}}
			}
			for _, m := range msgs {
				res := w.send(cc, m[0].(string), m[1].(int64), false)
				now := time.Now() // the reply has been received
				auth1, id1 := w.observe(cc)
				blockedBy := -1
				for k := range a.ent {
					if a.ent[k].certainlyLive(now) {
						blockedBy = k
					}
				}
				a.hist = append(a.hist, fmt.Sprintf("%s:%s", phase, res.kind))
				if blockedBy < 0 {
					run.Count("messages_not_judged_address_not_certainly_blacklisted", 1)
					continue
				}
				e := a.ent[blockedBy]
				run.Count("messages_from_certainly_blacklisted_address", 1)
				if e.overLive && phase == "after-expiry" {
					run.Count("messages_after_superseded_short_entry_certainly_expired", 1)
				}
				if auth1 || (res.replyOK && res.kind != "P1") {
					sig := fmt.Sprintf("C03:blhist|authenticated-while-address-blacklisted|msg=%s|entry=%s|replaced-live-short-entry=%v", res.kind, e.kind, e.overLive)
					run.Violation(sig, map[string]any{"address": a.ip, "key": a.keys[blockedBy], "history": append([]string(nil), a.hist...), "phase": phase, "after_restart": restarted, "after": []any{auth1, w.cname(id1)}, "reply_success": res.replyOK})
					nviol++
					return
				}
				run.Count("refused_from_certainly_blacklisted_address", 1)
			}
		}
		act := func(a *c03hAddr, k int, what string) {
			prev := a.ent[k]
			var d time.Duration
			switch what {
			case "short":
				d = time.Duration(5+r.Intn(8)) * time.Millisecond
			case "1h":
				d = time.Hour
			}
			t0 := time.Now()
			if what == "remove" {
				w.n.IPM.RemoveFromBlacklist(a.keys[k])
				a.ent[k] = c03hEntry{}
			} else {
				if err := w.n.IPM.AddToBlacklist(a.keys[k], d, "verif", "operator"); err != nil {
					t.Fatalf("c03: AddToBlacklist(%s): %v", a.keys[k], err)
				}
				t1 := time.Now()
				e := c03hEntry{kind: what, tBefore: t0, tAfter: t1, life: d}
				if prev.kind == "short" && prev.certainlyLive(t1) {
					e.overLive = true
					if what != "short" {
						run.Count("longer_entry_added_while_short_entry_certainly_live", 1)
					}
				}
				a.ent[k] = e
			}
			a.hist = append(a.hist, fmt.Sprintf("%s(%s)", what, []string{"exact", "cidr"}[k]))
		}
		for _, a := range addrs {
			n := 1 + r.Intn(4)
			if r.Intn(5) < 2 {
				k := r.Intn(2)
				act(a, k, "short")
				act(a, k, []string{"perm", "perm", "1h"}[r.Intn(3)])
				n = r.Intn(2)
			}
			for i := 0; i < n; i++ {
				if r.Intn(5) == 0 {
					check(a, "before-expiry")
					continue
				}
				act(a, r.Intn(2), []string{"short", "short", "1h", "perm", "perm", "remove"}[r.Intn(6)])
			}
		}
		// ---- the short lifetimes elapse (latest possible expiry: time after the call + lifetime) ----
		var until time.Time
		for _, a := range addrs {
			for _, e := range a.ent {
				if e.kind == "short" && e.tAfter.Add(e.life).After(until) {
					until = e.tAfter.Add(e.life)
				}
			}
		}
		// also the short entries that were replaced: 12 ms bound on every short lifetime
		if t12 := time.Now().Add(13 * time.Millisecond); t12.After(until) {
			until = t12
		}
		time.Sleep(time.Until(until) + time.Millisecond)
		if r.Intn(2) == 0 {
			for i := 0; i < 1+r.Intn(2); i++ {
				c03sSweep(w.n.IPM)
			}
			run.Count("sweep_passes_after_expiry", 1)
			for _, a := range addrs {
				a.hist = append(a.hist, "sweep")
			}
		}
		if r.Intn(4) == 0 {
			w.restartAddressList()
			restarted = true
			run.Count("address_list_restarts", 1)
			for _, a := range addrs {
				a.hist = append(a.hist, "restart")
			}
		}
		for _, a := range addrs {
			check(a, "after-expiry")
			if r.Intn(3) == 0 {
				check(a, "after-expiry")
			}
			run.Eval(1)
			run.Distinct(strings.Join(a.hist, ","))
		}
		if rd < 2 {
			for _, a := range addrs[:2] {
				run.Sample(append([]string{a.ip}, a.hist...))
			}
		}
		for _, c := range w.opened {
			c.c.CloseByPeer()
		}
		w.opened = nil
		// later rounds of this world use other addresses; remove this round's keys
		for _, a := range addrs {
			for _, k := range a.keys {
				w.n.IPM.RemoveFromBlacklist(k)
			}
		}
	}
	run.Floor("messages_from_certainly_blacklisted_address", int64(rounds*3))
	run.Floor("refused_from_certainly_blacklisted_address", int64(rounds*2))
	run.Floor("longer_entry_added_while_short_entry_certainly_live", int64(rounds))
	run.Floor("messages_after_superseded_short_entry_certainly_expired", int64(rounds))
}

// ---------------------------------------------------------------------------
// C03 — address FORMS: a blacklisted / banned address is never authenticated,
// whatever concrete net.Addr form the transport reports the peer in.

type c03aConn struct {
	*vk.BufConn
	ra net.Addr
}

func (c c03aConn) RemoteAddr() net.Addr { return c.ra }

// connectFrom opens a mini-server connection whose transport reports ra as its peer.
func (w *c03bWorld) connectFrom(ra net.Addr, name string) *c03bConn {
	sc, hc := vk.BufPipe(ra.String(), "127.0.0.1:7000")
	wr := c03aConn{BufConn: sc, ra: ra}
	stc, err := w.n.SM.AcceptConnection(wr, wr)
	if err != nil {
		w.n.t.Fatalf("c03: accept: %v", err)
	}
	c := &miniClient{n: w.n, hc: hc, sc: sc, ConnID: stc.ID}
	c.sp = stream.NewStreamProcessor(hc, hc, w.n.ctx)
	w.n.mu.Lock()
	w.n.clients = append(w.n.clients, c)
	w.n.mu.Unlock()
	cc := &c03bConn{c: c, accepted: map[string]bool{}, name: name}
	w.opened = append(w.opened, cc)
	return cc
}

type c03aForm struct {
	name  string
	plain func(i int) string            // the peer's IP address in plain (un-zoned) textual form
	addr  func(i, port int) net.Addr    // what the transport reports
	cidr  func(i int) (narrow, wide string)
}

func c03aForms() []c03aForm {
	v4 := func(b int) func(int) string { return func(i int) string { return fmt.Sprintf("10.%d.%d.%d", b, i/200, 1+i%200) } }
	v6 := func(pfx string) func(int) string { return func(i int) string { return fmt.Sprintf("%s:%x", pfx, 0x100+i) } }
	c4 := func(b int) func(int) (string, string) {
		return func(i int) (string, string) { return fmt.Sprintf("10.%d.%d.%d/31", b, i/200, (1+i%200)&^1), "10.0.0.0/8" }
	}
	c6 := func(pfx, wide string) func(int) (string, string) {
		return func(i int) (string, string) { return fmt.Sprintf("%s:%x/127", pfx, (0x100+i)&^1), wide }
	}
	tcp := func(p func(int) string, zone string) func(int, int) net.Addr {
		return func(i, port int) net.Addr { return &net.TCPAddr{IP: net.ParseIP(p(i)), Port: port, Zone: zone} }
	}
	udp := func(p func(int) string, zone string) func(int, int) net.Addr {
		return func(i, port int) net.Addr { return &net.UDPAddr{IP: net.ParseIP(p(i)), Port: port, Zone: zone} }
	}
	str := func(p func(int) string, zone string) func(int, int) net.Addr {
		// what net/http reports in r.RemoteAddr and the WebSocket transport passes on
		return func(i, port int) net.Addr {
			h := p(i)
			if zone != "" {
				h += "%" + zone
			}
			return vk.FakeAddr{Net: "websocket", Str: net.JoinHostPort(h, fmt.Sprint(port))}
		}
	}
	ll1, ll2, ll3, ll4 := v6("fe80::a1"), v6("fe80::a2"), v6("fe80::a3"), v6("fe80::a4")
	g1, g2 := v6("2001:db8:0:1:"), v6("2001:db8:0:2:")
	mapped := v4(95)
	return []c03aForm{
		{"tcp4", v4(92), tcp(v4(92), ""), c4(92)},
		{"udp4", v4(93), udp(v4(93), ""), c4(93)},
		{"string4", v4(94), str(v4(94), ""), c4(94)},
		{"tcp6-v4mapped", mapped, func(i, port int) net.Addr { return &net.TCPAddr{IP: net.ParseIP("::ffff:" + mapped(i)), Port: port} }, c4(95)},
		{"tcp6-global", g1, tcp(g1, ""), c6("2001:db8:0:1:", "2001:db8::/32")},
		{"string6-global", g2, str(g2, ""), c6("2001:db8:0:2:", "2001:db8::/32")},
		{"tcp6-linklocal", ll1, tcp(ll1, ""), c6("fe80::a1", "fe80::/10")},
		{"tcp6-linklocal-zoned", ll2, tcp(ll2, "eth0"), c6("fe80::a2", "fe80::/10")},
		{"udp6-linklocal-zoned", ll3, udp(ll3, "2"), c6("fe80::a3", "fe80::/10")},
		{"string6-linklocal-zoned", ll4, str(ll4, "eth0"), c6("fe80::a4", "fe80::/10")},
	}
}

func TestVerifC03AddressForms(t *testing.T) {
	run := vk.Start(t, "C03", "peer-address-forms")
	defer run.Finish()
	forms := c03aForms()
	blocks := []string{"blacklist-exact-permanent", "blacklist-exact-1h", "blacklist-cidr-narrow", "blacklist-cidr-wide", "ban-1h", "ban-permanent"}
	run.Rule(fmt.Sprintf("every peer address form %v x block kind %v (entered by the operator in the plain textual form of the IP address / a CIDR covering it) x message {FC, P1+P2valid with the right secret} x {control, tunnel}; each case on an address of its own: first an unblocked first-connect from the address (must work), then the block, then the handshake from a new connection of that address; distinct = (form, block, message, type)", func() []string {
		var n []string
		for _, f := range forms {
			n = append(n, f.name)
		}
		return n
	}(), blocks))
	r := run.Rand("forms")
	w := c03bNewWorld(t, run)
	defer func() { w.close() }()
	idx := 0
	for _, blk := range blocks {
		if blk == "blacklist-cidr-wide" {
			// wide CIDRs cover every later address of their family: own world
			w.close()
			w = c03bNewWorld(t, run)
		}
		for _, f := range forms {
			for _, msg := range []string{"FC", "P2valid"} {
				for _, ctype := range []string{"control", "tunnel"} {
					idx += 2 // the narrow CIDR of a case covers (idx, idx+1) only
					run.Case("forms", []string{f.name, blk, msg, ctype})
					plain := f.plain(idx)
					// sanity: unblocked, this address form gets an identity
					pre := w.connectFrom(f.addr(idx, 4000), "pre")
					res := w.send(pre, "FC", 0, false)
					if a, _ := w.observe(pre); a && res.replyOK {
						run.Count("unblocked_first_connect_ok", 1)
					}
					switch blk {
					case "blacklist-exact-permanent":
						_ = w.n.IPM.AddToBlacklist(plain, 0, "verif", "operator")
					case "blacklist-exact-1h":
						_ = w.n.IPM.AddToBlacklist(plain, time.Hour, "verif", "operator")
					case "blacklist-cidr-narrow":
						n, _ := f.cidr(idx)
						if err := w.n.IPM.AddToBlacklist(n, 0, "verif", "operator"); err != nil {
							t.Fatalf("c03: cidr %s: %v", n, err)
						}
					case "blacklist-cidr-wide":
						_, wd := f.cidr(idx)
						if err := w.n.IPM.AddToBlacklist(wd, 0, "verif", "operator"); err != nil {
							t.Fatalf("c03: cidr %s: %v", wd, err)
						}
					case "ban-1h":
						w.n.BFP.BanIP(plain, time.Hour, "verif")
					case "ban-permanent":
						w.n.BFP.BanIP(plain, 0, "verif")
					}
					cc := w.connectFrom(f.addr(idx, 4001), "blocked")
					msgs := [][2]any{{"FC", int64(0)}}
					if msg == "P2valid" {
						A := w.ids[r.Intn(3)]
						msgs = [][2]any{{"P1", A}, {"P2valid", A}}
					}
					for _, m := range msgs {
						var res c03bResult
						if ctype == "tunnel" && m[0].(string) != "FC" {
							res = c03bResult{kind: m[0].(string)}
							if res.kind == "P1" {
								if rr, _ := cc.c.Phase1(m[1].(int64), "tunnel"); rr != nil && rr.Challenge != "" {
									cc.chal = rr.Challenge
								}
							} else {
								rr, _ := cc.c.Phase2(m[1].(int64), HMACResp(w.secret[m[1].(int64)], cc.chal), "tunnel")
								res.replyOK = rr != nil && rr.Success
							}
						} else {
							res = w.send(cc, m[0].(string), m[1].(int64), true)
						}
						run.Count("messages_from_blocked_address", 1)
						if f.name == "tcp6-linklocal-zoned" || f.name == "udp6-linklocal-zoned" {
							run.Count("messages_from_blocked_zoned_tcp_udp_peer", 1)
						}
						auth1, id1 := w.observe(cc)
						if auth1 || (res.replyOK && res.kind != "P1") {
							run.Violation(fmt.Sprintf("C03:addrform|authenticated-while-address-blocked|peer=%s|block=%s", f.name, strings.SplitN(blk, "-", 2)[0]), map[string]any{"block": blk, "peer_addr": fmt.Sprintf("%T %s", f.addr(idx, 4001), f.addr(idx, 4001)), "blocked_as": plain, "msg": res.kind, "type": ctype, "after": []any{auth1, w.cname(id1)}, "reply_success": res.replyOK})
							break
						}
						run.Count("refused_from_blocked_address", 1)
					}
					run.Eval(1)
					run.Distinct(fmt.Sprintf("%s|%s|%s|%s", f.name, blk, msg, ctype))
					for _, c := range w.opened {
						c.c.CloseByPeer()
					}
					w.opened = nil
				}
			}
		}
	}
	run.Exhaustive(true)
	total := int64(len(forms) * len(blocks) * 4)
	run.Floor("unblocked_first_connect_ok", total/2) // cases after a wide CIDR of the family are blocked from the start
	run.Floor("messages_from_blocked_address", total)
	run.Floor("messages_from_blocked_zoned_tcp_udp_peer", int64(2*len(blocks)*4))
}

// ---------------------------------------------------------------------------
// C03 — whitelist SPELLINGS: in this server a whitelisted address passes the address
// gate even when blacklisted (documented precedence), so "blacklisted addresses are
// never authenticated" is judged only for addresses that are not whitelisted in the
// harness's model: an operator's whitelist entry exists from AddToWhitelist(spelling)
// until RemoveFromWhitelist with the SAME spelling. After that removal a blacklisted
// address must be refused, however the operator spelt the entry.

type c03wlSpelling struct {
	name string
	v6   bool
	text func(i int) string
}

func TestVerifC03WhitelistSpellings(t *testing.T) {
	run := vk.Start(t, "C03", "whitelist-spellings")
	defer run.Finish()
	v4 := func(i int) string { return fmt.Sprintf("10.97.%d.5", i) }
	v6 := func(i int) string { return fmt.Sprintf("2001:db8:%x::1a", 0x100+i) }
	spellings := []c03wlSpelling{
		{"v4-canonical", false, v4},
		{"v4-mapped-ipv6", false, func(i int) string { return "::ffff:" + v4(i) }},
		{"v4-cidr-canonical", false, func(i int) string { return fmt.Sprintf("10.97.%d.0/24", i) }},
		{"v4-cidr-host-bits", false, func(i int) string { return fmt.Sprintf("10.97.%d.77/24", i) }},
		{"v4-leading-zeros", false, func(i int) string { return fmt.Sprintf("010.097.%d.005", i) }},
		{"v6-canonical", true, v6},
		{"v6-upper-case", true, func(i int) string { return strings.ToUpper(v6(i)) }},
		{"v6-uncompressed", true, func(i int) string { return fmt.Sprintf("2001:0db8:%04x:0000:0000:0000:0000:001a", 0x100+i) }},
		{"v6-cidr-canonical", true, func(i int) string { return fmt.Sprintf("2001:db8:%x::/64", 0x100+i) }},
		{"v6-cidr-host-bits-upper", true, func(i int) string { return fmt.Sprintf("2001:DB8:%X::1A/64", 0x100+i) }},
	}
	orders := []string{"wl+,wl-,bl+", "bl+,wl+,wl-", "wl+,bl+,check,wl-", "wl+,wl+,wl-,bl+"}
	run.Rule(fmt.Sprintf("every whitelist spelling %d kinds (canonical / IPv4-mapped / CIDR with host bits / leading zeros / upper-case / uncompressed IPv6) x operator order %v x blacklist entry {exact, covering CIDR} x message {FC, P1+P2valid} x {no restart, restart of the address list}; removal always with the SAME spelling as the add; each case on an address of its own; distinct = the case tuple", len(spellings), orders))
	r := run.Rand("wlspell")
	w := c03bNewWorld(t, run)
	defer func() { w.close() }()
	idx := 0
	for _, sp := range spellings {
		for _, order := range orders {
			for _, blk := range []string{"exact", "cidr"} {
				for _, msg := range []string{"FC", "P2valid"} {
					restart := r.Intn(3) == 0
					idx++
					if idx > 250 {
						t.Fatalf("c03: address space of the case generator exhausted")
					}
					spelling := sp.text(idx)
					plain := v4(idx)
					blKey := fmt.Sprintf("10.97.%d.4/31", idx)
					var peer func(port int) net.Addr
					if sp.v6 {
						plain = v6(idx)
						blKey = fmt.Sprintf("2001:db8:%x::1a/127", 0x100+idx)
						peer = func(port int) net.Addr { return &net.TCPAddr{IP: net.ParseIP(plain), Port: port} }
					} else {
						peer = func(port int) net.Addr { return vk.FakeAddr{Net: "tcp", Str: fmt.Sprintf("%s:%d", plain, port)} }
					}
					if blk == "exact" {
						blKey = plain
					}
					run.Case("wlspell", []any{sp.name, order, blk, msg, restart})
					whitelisted, blacklisted, rejected := false, false, false
					port := 6000
					handshake := func(final bool) {
						port++
						cc := w.connectFrom(peer(port), "peer")
						msgs := [][2]any{{"FC", int64(0)}}
						if msg == "P2valid" {
							A := w.ids[r.Intn(3)]
							msgs = [][2]any{{"P1", A}, {"P2valid", A}}
						}
						for _, m := range msgs {
							res := w.send(cc, m[0].(string), m[1].(int64), false)
							auth1, id1 := w.observe(cc)
							if !blacklisted || whitelisted {
								run.Count("messages_not_judged_whitelisted_or_not_blacklisted", 1)
								continue
							}
							run.Count("messages_from_blacklisted_address_whose_whitelist_entry_was_removed", 1)
							if auth1 || (res.replyOK && res.kind != "P1") {
								run.Violation("C03:wlspell|authenticated-while-address-blacklisted-and-not-whitelisted|spelling="+sp.name, map[string]any{"address": plain, "whitelist_spelling": spelling, "blacklist_key": blKey, "order": order, "msg": res.kind, "after_restart": restart && final, "after": []any{auth1, w.cname(id1)}, "reply_success": res.replyOK})
								return
							}
							run.Count("refused_from_blacklisted_address_whose_whitelist_entry_was_removed", 1)
						}
					}
					for _, step := range strings.Split(order, ",") {
						switch step {
						case "wl+":
							if err := w.n.IPM.AddToWhitelist(spelling, "verif", "operator"); err != nil {
								rejected = true // the address list does not accept this spelling
							} else {
								whitelisted = true
							}
						case "wl-":
							w.n.IPM.RemoveFromWhitelist(spelling)
							whitelisted = false
						case "bl+":
							if err := w.n.IPM.AddToBlacklist(blKey, 0, "verif", "operator"); err != nil {
								t.Fatalf("c03: AddToBlacklist(%s): %v", blKey, err)
							}
							blacklisted = true
						case "check":
							handshake(false)
						}
					}
					if rejected {
						run.Count("spellings_rejected_by_address_list", 1)
					} else {
						run.Count("whitelist_entries_added_and_removed_with_same_spelling", 1)
						if !strings.HasSuffix(sp.name, "canonical") {
							run.Count("non_canonical_whitelist_entries_added_and_removed", 1)
						}
					}
					if restart {
						w.restartAddressList()
						run.Count("address_list_restarts", 1)
					}
					handshake(true)
					run.Eval(1)
					run.Distinct(fmt.Sprintf("%s|%s|%s|%s|%v", sp.name, order, blk, msg, restart))
					for _, c := range w.opened {
						c.c.CloseByPeer()
					}
					w.opened = nil
				}
			}
		}
	}
	run.Exhaustive(true)
	total := int64(len(spellings) * len(orders) * 4)
	run.Floor("messages_from_blacklisted_address_whose_whitelist_entry_was_removed", total)
	run.Floor("refused_from_blacklisted_address_whose_whitelist_entry_was_removed", total/2)
	run.Floor("non_canonical_whitelist_entries_added_and_removed", total/3)
}
