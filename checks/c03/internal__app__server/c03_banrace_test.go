//go:build verif && verif_c03

package server

import (
	"context"
	"fmt"
	"strings"
	"sync"
	"testing"
	"time"

	"tunnox-core/internal/constants"
	"tunnox-core/internal/core/storage"
	"tunnox-core/internal/security"
	vk "tunnox-core/internal/verifkit"
)

// C03 — "banned ... addresses are never authenticated" when the ban is placed while
// legitimate handshakes of the same address are in flight.
//
// Per round one address X. One or two legitimate handshakes from X (phase-2 with the
// right secret / first-connect) are started and HELD inside the gated store at their
// first storage operation — which the handler issues after the blacklist/ban gate and
// before it books the success. While they are held X gets banned: by failing
// handshake messages from another connection of X (the harness counts the failures
// it causes: MaxFailures within the window => ban for BanDuration = 1 h) or by an
// operator BanIP (1 h / permanent). The held handshakes are released (they carry no
// verdict of their own: they passed the gate before the ban). Then, within the ban
// period, fresh handshakes from X (first-connect, phase-1/phase-2 with the right
// secret, on new connections and on the connection that just authenticated) must
// all be refused: no connection of X becomes authenticated or changes identity.
// "X is banned" is the harness's own model, never read from the protector.

const c03bMaxFailures = 5

type c03bHold struct {
	op, key string // key: exact key, or prefix when it ends with ':'
	held    chan struct{}
	release chan struct{}
	used    bool
	matched string // the key of the operation that is held (valid once held is closed)
}

type c03bGate struct {
	mu    sync.Mutex
	holds []*c03bHold
	run   *vk.Run
}

func (g *c03bGate) add(op, key string) *c03bHold {
	h := &c03bHold{op: op, key: key, held: make(chan struct{}), release: make(chan struct{})}
	g.mu.Lock()
	g.holds = append(g.holds, h)
	g.mu.Unlock()
	return h
}

func (g *c03bGate) clear() {
	g.mu.Lock()
	g.holds = nil
	g.mu.Unlock()
}

func (g *c03bGate) hook(tier, op, key string) error {
	g.mu.Lock()
	var h *c03bHold
	for _, x := range g.holds {
		if x.used || x.op != op {
			continue
		}
		if key == x.key || (strings.HasSuffix(x.key, ":") && strings.HasPrefix(key, x.key)) {
			x.used = true
			x.matched = key
			h = x
			break
		}
	}
	g.mu.Unlock()
	if h == nil {
		return nil
	}
	close(h.held)
	select {
	case <-h.release:
	case <-time.After(20 * time.Second):
		g.run.Count("watchdog", 1)
	}
	return nil
}

type c03bConn struct {
	c        *miniClient
	chal     string
	accepted map[string]bool
	entitled int64
	name     string
}

type c03bWorld struct {
	n      *miniNode
	gate   *c03bGate
	run    *vk.Run
	ids    []int64
	secret map[int64]string
	cancel context.CancelFunc
	trace  []string
	opened []*c03bConn // connections of the current round
}

func c03bNewWorld(t *testing.T, run *vk.Run) *c03bWorld {
	return c03bNewWorldCfg(t, run, &security.BruteForceConfig{MaxFailures: c03bMaxFailures, TimeWindow: time.Hour, BanDuration: time.Hour, PermanentBanAt: 100000000, CleanupInterval: time.Hour})
}

func c03bNewWorldCfg(t *testing.T, run *vk.Run, bf *security.BruteForceConfig) *c03bWorld {
	ctx, cancel := context.WithCancel(context.Background())
	mem, ok := storage.NewMemoryStorage(ctx).(storage.FullStorage)
	if !ok {
		t.Fatalf("c03: memory storage is not a FullStorage")
	}
	g := &c03bGate{run: run}
	gs := vk.NewGated("store", mem)
	gs.SetHook(g.hook)
	rl := &security.RateLimitConfig{Rate: 1000000, Burst: 1000000, TTL: time.Hour}
	n := newMiniNode(t, miniOpts{Store: gs, BruteForce: bf, RateLimit: rl, NoCommands: true})
	w := &c03bWorld{n: n, gate: g, run: run, secret: map[int64]string{}, cancel: cancel}
	for i := 0; i < 4; i++ { // c0..c2 log in legitimately; c3 is only the target of failing guesses
		c := n.NewClient("") // from an address of its own
		w.ids = append(w.ids, c.ClientID)
		w.secret[c.ClientID] = c.Secret
		c.CloseByPeer()
	}
	return w
}

func (w *c03bWorld) close() { w.n.Close(); w.cancel() }

func (w *c03bWorld) open(addr, name string) *c03bConn {
	cc := &c03bConn{c: w.n.MustConnect(addr), accepted: map[string]bool{}, name: name}
	w.opened = append(w.opened, cc)
	return cc
}

func (w *c03bWorld) observe(cc *c03bConn) (bool, int64) {
	k := w.n.SM.GetControlConnection(cc.c.ConnID)
	if k == nil || !k.IsAuthenticated() {
		return false, 0
	}
	return true, k.GetClientID()
}

func (w *c03bWorld) cname(id int64) string {
	for i, x := range w.ids {
		if x == id {
			return fmt.Sprintf("c%d", i)
		}
	}
	if id == 0 {
		return "0"
	}
	return "new"
}

// c03bResult of one message: what the monitor needs at quiescence.
type c03bResult struct {
	kind      string
	entitling int64
	replyOK   bool
	auth0     bool
	id0       int64
}

// send sends one message (blockedAtSend = the harness's ban model for the address
// at the moment the message is handed to the server) and returns what it entitles to.
func (w *c03bWorld) send(cc *c03bConn, kind string, id int64, blockedAtSend bool) c03bResult {
	res := c03bResult{kind: kind}
	res.auth0, res.id0 = w.observe(cc)
	switch kind {
	case "FC":
		r, _ := cc.c.FirstConnect()
		if r != nil && r.Success && r.ClientID != 0 {
			res.replyOK = true
			w.secret[r.ClientID] = r.SecretKey
			if !blockedAtSend {
				res.entitling = r.ClientID
			}
		}
	case "P1":
		r, _ := cc.c.Phase1(id, "control")
		if r != nil && r.Challenge != "" {
			cc.chal = r.Challenge
		}
	case "P2valid":
		chal := cc.chal
		if chal != "" && !cc.accepted[chal] && !blockedAtSend {
			res.entitling = id
		}
		r, _ := cc.c.Phase2(id, HMACResp(w.secret[id], chal), "control")
		if r != nil && r.Success {
			res.replyOK = true
			cc.accepted[chal] = true
		}
	case "P2garbage":
		r, _ := cc.c.Phase2(id, "zz-not-hex", "control")
		res.replyOK = r != nil && r.Success
	}
	return res
}

// judge runs the monitor for one handled message; returns true if a violation was recorded.
func (w *c03bWorld) judge(cc *c03bConn, res c03bResult, blocked bool, ban string) bool {
	auth1, id1 := w.observe(cc)
	detail := map[string]any{"trace": append([]string(nil), w.trace...), "conn": cc.name, "before": []any{res.auth0, w.cname(res.id0)}, "after": []any{auth1, w.cname(id1)}, "address_banned_by": ban}
	switch {
	case auth1 && (id1 == 0 || (id1 != res.entitling && !(res.auth0 && id1 == res.id0 && id1 == cc.entitled))):
		sig := "C03:banrace|authenticated-without-proof|msg=" + res.kind
		if blocked {
			sig = fmt.Sprintf("C03:banrace|authenticated-while-address-banned|msg=%s|ban=%s", res.kind, ban)
		}
		w.run.Violation(sig, detail)
		return true
	case res.replyOK && res.kind != "P1" && res.entitling == 0:
		sig := "C03:banrace|success-reply-without-proof|msg=" + res.kind
		if blocked {
			sig = fmt.Sprintf("C03:banrace|success-reply-while-address-banned|msg=%s|ban=%s", res.kind, ban)
		}
		w.run.Violation(sig, detail)
		return true
	case auth1:
		cc.entitled = id1
	}
	return false
}

func TestVerifC03BanRace(t *testing.T) {
	run := vk.Start(t, "C03", "ban-while-success-in-flight")
	defer run.Finish()
	run.Rule(fmt.Sprintf("rounds on one fresh address X: 1-2 legitimate handshakes from X (P2 with the right secret for client A / C, first-connect) held inside the gated store after the ban gate; k0 in 0..%d failures from X before they start, the rest (+0..2) while they are held (failing messages: P1 unknown id, P2 without challenge, P2 garbage after P1) or an operator BanIP (1 h | permanent), optional first-connect probe from X while held; release; then 3-7 fresh messages from X (FC, P1+P2valid for A / C on new connections and on the connections that just authenticated); distinct = (in-flight kinds, k0, ban kind, extra failures, probe, post message kinds)", c03bMaxFailures-1))
	r := run.Rand("banrace")
	rounds := run.Pick(400, 8000)
	perWorld := 100
	var w *c03bWorld
	defer func() {
		if w != nil {
			w.close()
		}
	}()
	nviol := 0
	for rd := 0; rd < rounds && nviol <= 20 && run.Counter("watchdog") == 0; rd++ {
		if rd%perWorld == 0 {
			if w != nil {
				w.close()
			}
			w = c03bNewWorld(t, run)
		}
		w.trace = nil
		w.gate.clear()
		ip := fmt.Sprintf("10.77.%d.%d", (rd/250)%250, 1+rd%250)
		port := 1000
		addr := func() string { port++; return fmt.Sprintf("%s:%d", ip, port) }
		A, C := w.ids[0], w.ids[1+r.Intn(2)]
		banned := false // the harness's model of "X is banned" (1 h or permanent: holds for the rest of the round)
		failures := 0
		// connections used while handshakes are held are opened up front
		attacker := w.open(addr(), "attacker")
		probe := w.open(addr(), "probe")
		fail := func() {
			// one failing message from X; each is booked as one failure by the handler
			switch r.Intn(3) {
			case 0:
				w.trace = append(w.trace, "fail: P1(unknown id)")
				res := w.send(attacker, "P1", 900000000+int64(r.Intn(1000)), banned)
				w.judge(attacker, res, banned, "")
			case 1:
				w.trace = append(w.trace, "fail: P2garbage(c3) without pending challenge")
				attacker.chal = ""
				res := w.send(attacker, "P2garbage", w.ids[3], banned)
				w.judge(attacker, res, banned, "")
			default:
				w.trace = append(w.trace, "fail: P1(c3) then P2garbage(c3)")
				res := w.send(attacker, "P1", w.ids[3], banned)
				w.judge(attacker, res, banned, "")
				res = w.send(attacker, "P2garbage", w.ids[3], banned)
				w.judge(attacker, res, banned, "")
			}
			failures++
			run.Count("failing_messages_from_x", 1)
		}
		k0 := r.Intn(c03bMaxFailures)
		for i := 0; i < k0; i++ {
			fail()
		}
		// ---- legitimate handshakes of X, held after the ban gate ----
		type inflight struct {
			cc   *c03bConn
			kind string
			id   int64
			hold *c03bHold
			res  c03bResult
			done chan struct{}
		}
		var fl []*inflight
		kinds := [][]string{{"P2valid"}, {"FC"}, {"P2valid", "FC"}, {"P2valid", "P2validC"}}[r.Intn(4)]
		for i, k := range kinds {
			f := &inflight{cc: w.open(addr(), fmt.Sprintf("inflight%d", i)), kind: k, done: make(chan struct{})}
			switch k {
			case "P2valid", "P2validC":
				f.id = A
				if k == "P2validC" {
					f.id = C
				}
				f.kind = "P2valid"
				res := w.send(f.cc, "P1", f.id, banned)
				w.judge(f.cc, res, banned, "")
				f.hold = w.gate.add("Get", fmt.Sprintf("%s:%d", constants.KeyPrefixPersistClientConfig, f.id))
			case "FC":
				f.hold = w.gate.add("SetNX", "tunnox:id:used:client:")
			}
			fl = append(fl, f)
		}
		run.Case("banrace", map[string]any{"inflight": kinds, "k0": k0})
		stuck := false
		for _, f := range fl {
			go func(f *inflight) {
				defer close(f.done)
				f.res = w.send(f.cc, f.kind, f.id, false) // handed to the server while X is not banned
			}(f)
			select {
			case <-f.hold.held:
				run.Count("handshakes_held_between_ban_gate_and_success", 1)
				w.trace = append(w.trace, fmt.Sprintf("%s: %s(%s) passed the ban gate, held in the store", f.cc.name, f.kind, w.cname(f.id)))
			case <-f.done:
				// refused before reaching the store (must not happen: X is not banned yet)
				run.Count("inflight_finished_without_reaching_store", 1)
			case <-time.After(20 * time.Second):
				run.Count("watchdog", 1)
				stuck = true
			}
		}
		// ---- X gets banned while they are held ----
		ban := []string{"failures", "failures", "operator-temp", "operator-perm"}[r.Intn(4)]
		extra := 0
		switch ban {
		case "failures":
			extra = r.Intn(3)
			for failures < c03bMaxFailures {
				fail()
			}
			banned = true
			w.trace = append(w.trace, fmt.Sprintf("X banned: %d failures within the window", failures))
			for i := 0; i < extra; i++ {
				fail()
			}
		case "operator-temp":
			w.n.BFP.BanIP(ip, time.Hour, "verif")
			banned = true
			w.trace = append(w.trace, "X banned: BanIP 1h")
		default:
			w.n.BFP.BanIP(ip, 0, "verif")
			banned = true
			w.trace = append(w.trace, "X banned: BanIP permanent")
		}
		run.Count("bans_"+ban, 1)
		doProbe := r.Intn(2) == 0
		viol := false
		if doProbe {
			w.trace = append(w.trace, "probe: FC from X while the handshakes are still held")
			res := w.send(probe, "FC", 0, banned)
			viol = w.judge(probe, res, banned, ban) || viol
			run.Count("messages_from_banned_x", 1)
		}
		// ---- release: the held handshakes complete (no verdict: they passed the gate before the ban) ----
		for _, f := range fl {
			close(f.hold.release)
		}
		for _, f := range fl {
			select {
			case <-f.done:
			case <-time.After(20 * time.Second):
				run.Count("watchdog", 1)
				stuck = true
			}
		}
		if stuck {
			break
		}
		for _, f := range fl {
			viol = w.judge(f.cc, f.res, false, "") || viol
			if a, id := w.observe(f.cc); a {
				run.Count("inflight_success_completed_after_ban", 1)
				w.trace = append(w.trace, fmt.Sprintf("%s released: authenticated as %s (passed the gate before the ban)", f.cc.name, w.cname(id)))
			}
		}
		// ---- within the ban period: nothing from X may authenticate ----
		npost := 3 + r.Intn(5)
		var post []string
		for i := 0; i < npost && !viol; i++ {
			var cc *c03bConn
			onOld := r.Intn(3) == 0
			if onOld {
				cc = fl[r.Intn(len(fl))].cc
			} else {
				cc = w.open(addr(), fmt.Sprintf("fresh%d", i))
			}
			k := []string{"FC", "FC", "P2validA", "P2validC"}[r.Intn(4)]
			post = append(post, fmt.Sprintf("%s/%v", k, onOld))
			msgs := [][2]any{{"FC", int64(0)}}
			if k == "P2validA" {
				msgs = [][2]any{{"P1", A}, {"P2valid", A}}
			} else if k == "P2validC" {
				msgs = [][2]any{{"P1", C}, {"P2valid", C}}
			}
			for _, m := range msgs {
				w.trace = append(w.trace, fmt.Sprintf("%s: %s(%s) from banned X", cc.name, m[0], w.cname(m[1].(int64))))
				res := w.send(cc, m[0].(string), m[1].(int64), banned)
				run.Count("messages_from_banned_x", 1)
				if w.judge(cc, res, banned, ban) {
					viol = true
					break
				}
				if !res.replyOK {
					run.Count("refused_from_banned_x", 1)
				}
			}
		}
		if viol {
			nviol++
		}
		run.Eval(1)
		run.Count("rounds", 1)
		run.Distinct(fmt.Sprintf("%v|k0=%d|%s|+%d|probe=%v|%v", kinds, k0, ban, extra, doProbe, post))
		if rd < 2 {
			run.Sample(append([]string(nil), w.trace...))
		}
		for _, c := range w.opened {
			c.c.CloseByPeer()
		}
		w.opened = nil
	}
	run.Floor("handshakes_held_between_ban_gate_and_success", int64(rounds/2))
	run.Floor("inflight_success_completed_after_ban", int64(rounds/2))
	run.Floor("messages_from_banned_x", int64(rounds))
	run.Floor("refused_from_banned_x", int64(rounds))
	run.Floor("bans_failures", int64(rounds/8))
	run.Floor("bans_operator-temp", int64(rounds/16))
	if run.Counter("watchdog") > 0 {
		run.Floor("watchdog_free_run", 1)
	}
}
