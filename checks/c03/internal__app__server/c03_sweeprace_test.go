//go:build verif && verif_c03

package server

import (
	"fmt"
	"testing"
	"time"
	_ "unsafe" // go:linkname

	"tunnox-core/internal/security"
	vk "tunnox-core/internal/verifkit"
)

// C03 — "... blacklisted addresses are never authenticated" when an operator
// (re-)blacklists an address while the address list's sweep of expired entries runs.
//
// The sweep is the manager's own periodic pass (IPManager.cleanup, run by its
// 1-minute ticker); the harness invokes that same method directly so that it does
// not have to wait for the ticker.

//go:linkname c03sSweep tunnox-core/internal/security.(*IPManager).cleanup
func c03sSweep(m *security.IPManager)

// Per round: address X and 2..5 decoy addresses carry expired-but-unswept temporary
// blacklist entries. A sweep pass is started and PARKED by the gated store at its
// first storage Delete of a blacklist record (one storage round trip of the pass).
// While it is parked the operator blacklists X again (permanently / for 1 h); the
// park ends when that call has returned or after a bounded 3 ms (a scheduling
// decision only: in a tree where the sweep excludes writers for the whole pass the
// call simply lands after the pass). When both the sweep and the call have finished,
// X is blacklisted in the harness's model — from the moment AddToBlacklist returned
// nil — and every handshake from X (first-connect, phase-1/phase-2 with the right
// secret, also after a restart of the address-list component on the same storage)
// must be refused.
func TestVerifC03BlacklistSweepRace(t *testing.T) {
	run := vk.Start(t, "C03", "blacklist-while-sweep-in-flight")
	defer run.Finish()
	run.Rule("rounds: fresh address X + 2..5 decoys with expired-but-unswept temporary blacklist entries; sweep pass (1-2 passes) parked in the gated store at its first blacklist-record Delete; operator AddToBlacklist(X, permanent | 1 h) issued while parked; park ends when the call returned or after 3 ms; then FC / P1+P2valid(A) from X on fresh connections, optionally again after a restart of the address-list component; distinct = (decoys, parked key is X?, add kind, passes, call returned while parked?, restart?, message kinds)")
	r := run.Rand("sweeprace")
	rounds := run.Pick(300, 6000)
	perWorld := 100
	var w *c03bWorld
	defer func() {
		if w != nil {
			w.close()
		}
	}()
	nviol := 0
	for rd := 0; rd < rounds && nviol <= 20 && run.Counter("watchdog") == 0; rd++ {
		if rd%perWorld == 0 {
			if w != nil {
				w.close()
			}
			w = c03bNewWorld(t, run)
		}
		w.trace = nil
		w.gate.clear()
		ipm := w.n.IPM
		X := fmt.Sprintf("10.88.%d.%d", (rd/250)%250, 1+rd%250)
		nd := 2 + r.Intn(4)
		addrs := []string{X}
		for i := 0; i < nd; i++ {
			addrs = append(addrs, fmt.Sprintf("10.89.%d.%d", rd%250, 1+i))
		}
		// temporary entries that are expired as soon as the call has returned (1 ns)
		for _, a := range addrs {
			if err := ipm.AddToBlacklist(a, time.Nanosecond, "verif-temp", "verif"); err != nil {
				t.Fatalf("c03: AddToBlacklist: %v", err)
			}
		}
		w.trace = append(w.trace, fmt.Sprintf("temporary blacklist entries for X and %d decoys, all expired, not yet swept", nd))
		run.Case("sweeprace", map[string]any{"decoys": nd})
		// ---- the sweep, parked at its first storage Delete of a blacklist record ----
		hold := w.gate.add("Delete", "tunnox:security:ip:blacklist:")
		passes := 1 + r.Intn(2)
		sweepDone := make(chan struct{})
		go func() {
			defer close(sweepDone)
			for i := 0; i < passes; i++ {
				c03sSweep(ipm)
			}
		}()
		parked, parkedOnX := false, false
		select {
		case <-hold.held:
			parked = true
			run.Count("sweeps_parked_mid_pass", 1)
			parkedOnX = hold.matched == "tunnox:security:ip:blacklist:"+X
		case <-sweepDone:
			run.Count("sweep_finished_without_storage_delete", 1)
		case <-time.After(20 * time.Second):
			run.Count("watchdog", 1)
		}
		// ---- the operator blacklists X while the sweep is parked ----
		addKind := []string{"permanent", "permanent", "1h"}[r.Intn(3)]
		d := time.Duration(0)
		if addKind == "1h" {
			d = time.Hour
		}
		addDone := make(chan error, 1)
		go func() { addDone <- ipm.AddToBlacklist(X, d, "verif-abuse", "operator") }()
		if parked {
			run.Count("operator_add_issued_while_sweep_parked", 1)
			if !parkedOnX {
				// the window: the pass has started, X's entry has not been handled yet
				run.Count("operator_add_issued_while_sweep_parked_before_reaching_x", 1)
			}
		}
		w.trace = append(w.trace, fmt.Sprintf("sweep parked=%v on X's record=%v (passes=%d); operator AddToBlacklist(X, %s) issued", parked, parkedOnX, passes, addKind))
		var addErr error
		addReturned, returnedWhileParked := false, false
		select {
		case addErr = <-addDone:
			addReturned = true
			if parked {
				returnedWhileParked = true
				run.Count("operator_add_returned_while_sweep_parked", 1)
				w.trace = append(w.trace, "AddToBlacklist returned while the sweep was still parked")
			}
		case <-time.After(3 * time.Millisecond):
			// the call waits for the pass (writers excluded for the whole pass)
			run.Count("park_ended_by_bounded_wait", 1)
		}
		close(hold.release)
		ok := true
		select {
		case <-sweepDone:
		case <-time.After(20 * time.Second):
			run.Count("watchdog", 1)
			ok = false
		}
		if !addReturned {
			select {
			case addErr = <-addDone:
			case <-time.After(20 * time.Second):
				run.Count("watchdog", 1)
				ok = false
			}
		}
		if !ok {
			break
		}
		if addErr != nil {
			run.Count("operator_add_failed", 1)
			continue
		}
		// ---- X is blacklisted (harness model: AddToBlacklist returned nil; entry lasts >= 1 h) ----
		w.trace = append(w.trace, "sweep finished; AddToBlacklist(X) had returned nil: X is blacklisted")
		A := w.ids[r.Intn(3)]
		restart := r.Intn(3) == 0
		var kinds []string
		viol := false
		port := 2000
		for phase := 0; phase < 2 && !viol; phase++ {
			if phase == 1 {
				if !restart {
					break
				}
				// restart of the address-list component on the same (persisted) storage
				w.restartAddressList()
				w.trace = append(w.trace, "restart of the address-list component")
				run.Count("ipmanager_restarts", 1)
			}
			for i := 0; i < 1+r.Intn(3) && !viol; i++ {
				port++
				cc := w.open(fmt.Sprintf("%s:%d", X, port), fmt.Sprintf("fresh%d", port))
				k := []string{"FC", "P2valid"}[r.Intn(2)]
				kinds = append(kinds, k)
				msgs := [][2]any{{"FC", int64(0)}}
				if k == "P2valid" {
					msgs = [][2]any{{"P1", A}, {"P2valid", A}}
				}
				for _, m := range msgs {
					w.trace = append(w.trace, fmt.Sprintf("%s: %s(%s) from blacklisted X", cc.name, m[0], w.cname(m[1].(int64))))
					res := w.send(cc, m[0].(string), m[1].(int64), true)
					run.Count("messages_from_blacklisted_x", 1)
					auth1, id1 := w.observe(cc)
					if auth1 || (res.replyOK && res.kind != "P1") {
						sig := fmt.Sprintf("C03:sweeprace|authenticated-while-address-blacklisted|msg=%s|add=%s", res.kind, addKind)
						if phase == 1 {
							sig += "|after-restart"
						}
						run.Violation(sig, map[string]any{"trace": append([]string(nil), w.trace...), "after": []any{auth1, w.cname(id1)}, "reply_success": res.replyOK, "add_returned_while_sweep_parked": returnedWhileParked})
						viol = true
						break
					}
					run.Count("refused_from_blacklisted_x", 1)
				}
			}
		}
		if viol {
			nviol++
		}
		run.Eval(1)
		run.Count("rounds", 1)
		run.Distinct(fmt.Sprintf("d=%d|%s|p=%d|parked=%v/%v|ret=%v|restart=%v|%v", nd, addKind, passes, parked, parkedOnX, returnedWhileParked, restart, kinds))
		if rd < 2 {
			run.Sample(append([]string(nil), w.trace...))
		}
		for _, c := range w.opened {
			c.c.CloseByPeer()
		}
		w.opened = nil
		if restart {
			// the restarted component replaces the world's one for the following rounds
			ipm = w.n.IPM
		}
	}
	run.Floor("operator_add_issued_while_sweep_parked", int64(rounds*2/3))
	run.Floor("operator_add_issued_while_sweep_parked_before_reaching_x", int64(rounds/3))
	run.Floor("messages_from_blacklisted_x", int64(rounds))
	run.Floor("refused_from_blacklisted_x", int64(rounds/2))
	if run.Counter("watchdog") > 0 {
		run.Floor("watchdog_free_run", 1)
	}
}
