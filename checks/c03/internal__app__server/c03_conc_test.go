//go:build verif && verif_c03

package server

import (
	"context"
	"fmt"
	"sort"
	"strings"
	"sync"
	"sync/atomic"
	"testing"
	"time"

	"tunnox-core/internal/constants"
	"tunnox-core/internal/core/storage"
	"tunnox-core/internal/security"
	vk "tunnox-core/internal/verifkit"
)

// C03 — concurrent handshakes: "... verified against X's stored secret".
//
// K connections perform challenge-response handshakes CONCURRENTLY on one node
// whose storage is a gated double: the loads of client configs (storage.Get on the
// client-config keys) of one step are held until every distinct client id of the
// step has a load inside the store (bounded wait — a scheduling decision only), so
// that loads for DIFFERENT client ids really overlap. Honest logins run next to
// attacker connections that answer a challenge for a victim id with a response
// keyed by the secret of ANOTHER client (which the attacker legitimately holds).
// At quiescence of every step the monitor reads the real registry state and checks
//   authenticated(conn)=X  ==>  on THAT connection a response valid under X's
//                               secret for its latest unused challenge was sent
// where the right-hand side is computed from what the harness itself sent.

// c03cGate is the hook of the gated store.
type c03cGate struct {
	mu       sync.Mutex
	armed    bool
	want     int
	arrived  int
	released bool
	timedOut bool
	release  chan struct{}
	hold     time.Duration
}

func (g *c03cGate) arm(want int) {
	g.mu.Lock()
	g.armed, g.want, g.arrived, g.released, g.timedOut = true, want, 0, false, false
	g.release = make(chan struct{})
	g.mu.Unlock()
}

// disarm returns how many config loads were inside the store together when the
// barrier opened, and whether it opened by the bounded wait.
func (g *c03cGate) disarm() (int, bool) {
	g.mu.Lock()
	defer g.mu.Unlock()
	g.armed = false
	if !g.released && g.release != nil {
		g.released = true
		close(g.release)
	}
	return g.arrived, g.timedOut
}

func (g *c03cGate) hook(tier, op, key string) error {
	if op != "Get" || !strings.HasPrefix(key, constants.KeyPrefixPersistClientConfig) {
		return nil
	}
	g.mu.Lock()
	if !g.armed || g.released {
		g.mu.Unlock()
		return nil
	}
	g.arrived++
	rel := g.release
	if g.arrived >= g.want {
		g.released = true
		close(rel)
		g.mu.Unlock()
		return nil
	}
	first := g.arrived == 1
	g.mu.Unlock()
	if !first {
		<-rel // the first arrival bounds the wait for everybody
		return nil
	}
	t := time.NewTimer(g.hold)
	defer t.Stop()
	select {
	case <-rel:
	case <-t.C:
		g.mu.Lock()
		if !g.released {
			g.released, g.timedOut = true, true
			close(rel)
		}
		g.mu.Unlock()
	}
	return nil
}

type c03cMsg struct {
	kind string // "P1" | "P2" | "-" (idle step)
	id   int64  // client id named in the message
	key  int64  // P2: whose secret keys the response
}

type c03cConn struct {
	c        *miniClient
	script   string
	ctype    string
	msgs     []c03cMsg
	chal     string
	accepted map[string]bool
	entitled int64
	ever     map[int64]bool
	// per step (written by the connection's goroutine, read after wg.Wait)
	stepEntitling int64
	stepReplyOK   bool
	stepForged    bool
	sent          []string
}

type c03cWorld struct {
	n      *miniNode
	gate   *c03cGate
	ids    []int64
	secret map[int64]string
	byConn map[string]*c03cConn
	cancel context.CancelFunc
}

func c03cNewWorld(t *testing.T) *c03cWorld {
	ctx, cancel := context.WithCancel(context.Background())
	mem, ok := storage.NewMemoryStorage(ctx).(storage.FullStorage)
	if !ok {
		t.Fatalf("c03: memory storage is not a FullStorage")
	}
	g := &c03cGate{hold: 5 * time.Millisecond}
	gs := vk.NewGated("store", mem)
	gs.SetHook(g.hook)
	bf := &security.BruteForceConfig{MaxFailures: 1000000, TimeWindow: time.Hour, BanDuration: time.Hour, PermanentBanAt: 100000000, CleanupInterval: time.Hour}
	rl := &security.RateLimitConfig{Rate: 1000000, Burst: 1000000, TTL: time.Hour}
	n := newMiniNode(t, miniOpts{Store: gs, BruteForce: bf, RateLimit: rl, NoCommands: true})
	w := &c03cWorld{n: n, gate: g, secret: map[int64]string{}, byConn: map[string]*c03cConn{}, cancel: cancel}
	for i := 0; i < 5; i++ {
		c := n.NewClient("")
		w.ids = append(w.ids, c.ClientID)
		w.secret[c.ClientID] = c.Secret
		c.CloseByPeer()
	}
	return w
}

func (w *c03cWorld) close() { w.n.Close(); w.cancel() }

func (w *c03cWorld) name(id int64) string {
	for i, x := range w.ids {
		if x == id {
			return fmt.Sprintf("c%d", i)
		}
	}
	return "?"
}

// send runs in the connection's own goroutine.
func (w *c03cWorld) send(run *vk.Run, cc *c03cConn, m c03cMsg) {
	cc.stepEntitling, cc.stepReplyOK, cc.stepForged = 0, false, false
	switch m.kind {
	case "P1":
		cc.sent = append(cc.sent, "P1("+w.name(m.id)+")")
		r, _ := cc.c.Phase1(m.id, cc.ctype)
		if r != nil && r.Challenge != "" {
			cc.chal = r.Challenge
		}
	case "P2":
		cc.sent = append(cc.sent, fmt.Sprintf("P2(%s,key=%s)", w.name(m.id), w.name(m.key)))
		chal := cc.chal
		resp := HMACResp(w.secret[m.key], chal)
		if chal == "" {
			resp = HMACResp(w.secret[m.key], "no-challenge-issued")
		}
		if chal != "" && !cc.accepted[chal] && m.key == m.id {
			cc.stepEntitling = m.id
		}
		cc.stepForged = m.key != m.id
		r, _ := cc.c.Phase2(m.id, resp, cc.ctype)
		if r != nil && r.Success {
			cc.stepReplyOK = true
			if chal != "" {
				if cc.accepted[chal] {
					c03cViol(run, "C03:concurrent|challenge-accepted-twice", map[string]any{"conn_sent": append([]string(nil), cc.sent...)})
				}
				cc.accepted[chal] = true
			}
		}
	}
}

var c03cViolations atomic.Int64

// c03cViol records a violation and counts it (the round loop stops after a few).
func c03cViol(run *vk.Run, sig string, detail any) {
	c03cViolations.Add(1)
	run.Violation(sig, detail)
}

func (w *c03cWorld) observe(cc *c03cConn) (bool, int64) {
	k := w.n.SM.GetControlConnection(cc.c.ConnID)
	if k == nil || !k.IsAuthenticated() {
		return false, 0
	}
	return true, k.GetClientID()
}

func TestVerifC03Concurrent(t *testing.T) {
	run := vk.Start(t, "C03", "concurrent-config-loads")
	defer run.Finish()
	run.Rule("rounds of K=2..8 connections sending handshake messages concurrently in lock-step on one node (scripts: honest login of X; forge = P1(V) then P2(V) keyed by A's secret; forge via P1(A) then P2(V) keyed by A; decoy = repeated P1(A); switch = honest login as A then forged P1/P2 for V; relogin; random start offsets 0..2, control/tunnel type), storage Gets of client-config keys held until every distinct id of the step is inside the store (bounded 5 ms); distinct = multiset of (script, offset, id roles) of the round; non-trivial = a step of the round had >= 2 config loads inside the store together")
	r := run.Rand("conc")
	rounds := run.Pick(1500, 25000)
	perWorld := 150
	var w *c03cWorld
	defer func() {
		if w != nil {
			w.close()
		}
	}()
	samples := 0
	for rd := 0; rd < rounds && c03cViolations.Load() <= 20; rd++ {
		if rd%perWorld == 0 {
			if w != nil {
				w.close()
			}
			w = c03cNewWorld(t)
		}
		k := 2 + r.Intn(7)
		// the round's attacker client A and victim V; other honest clients
		perm := r.Perm(len(w.ids))
		A, V := w.ids[perm[0]], w.ids[perm[1]]
		var conns []*c03cConn
		var fp []string
		for i := 0; i < k; i++ {
			cc := &c03cConn{c: w.n.MustConnect(""), accepted: map[string]bool{}, ever: map[int64]bool{}, ctype: "control"}
			if r.Intn(5) == 0 {
				cc.ctype = "tunnel"
			}
			off := r.Intn(3)
			for j := 0; j < off; j++ {
				cc.msgs = append(cc.msgs, c03cMsg{kind: "-"})
			}
			sel := r.Intn(10)
			if i == 0 {
				sel = r.Intn(2) // every round has at least one forging connection ...
			} else if i == 1 {
				sel = 4 + r.Intn(3) // ... and one that loads A's config (decoy or honest A)
			}
			switch sel {
			case 0, 1:
				cc.script = "forgeV"
				cc.msgs = append(cc.msgs, c03cMsg{"P1", V, 0}, c03cMsg{"P2", V, A})
			case 2:
				cc.script = "forgeAV"
				cc.msgs = append(cc.msgs, c03cMsg{"P1", A, 0}, c03cMsg{"P2", V, A})
			case 3:
				cc.script = "switch"
				cc.msgs = append(cc.msgs, c03cMsg{"P1", A, 0}, c03cMsg{"P2", A, A}, c03cMsg{"P1", V, 0}, c03cMsg{"P2", V, A})
			case 4, 5:
				cc.script = "decoy"
				for j := 0; j < 1+r.Intn(4); j++ {
					cc.msgs = append(cc.msgs, c03cMsg{"P1", A, 0})
				}
			case 6:
				cc.script = "honestA"
				cc.msgs = append(cc.msgs, c03cMsg{"P1", A, 0}, c03cMsg{"P2", A, A})
			case 7:
				cc.script = "honestV"
				cc.msgs = append(cc.msgs, c03cMsg{"P1", V, 0}, c03cMsg{"P2", V, V})
			case 8:
				x := w.ids[perm[2+r.Intn(len(perm)-2)]]
				cc.script = "honestX"
				cc.msgs = append(cc.msgs, c03cMsg{"P1", x, 0}, c03cMsg{"P2", x, x})
			default:
				x := w.ids[perm[r.Intn(len(perm))]]
				cc.script = "relogin"
				cc.msgs = append(cc.msgs, c03cMsg{"P1", x, 0}, c03cMsg{"P2", x, x}, c03cMsg{"P1", x, 0}, c03cMsg{"P2", x, x})
			}
			fp = append(fp, fmt.Sprintf("%s+%d%s", cc.script, off, cc.ctype[:1]))
			conns = append(conns, cc)
			w.byConn[cc.c.ConnID] = cc
		}
		sort.Strings(fp)
		run.Case("round", fp)
		steps := 0
		for _, cc := range conns {
			if len(cc.msgs) > steps {
				steps = len(cc.msgs)
			}
		}
		roundOverlap := false
		var trace []string
		for s := 0; s < steps; s++ {
			var senders []*c03cConn
			ids := map[int64]bool{}
			loadsOfKey := map[int64]int{} // id -> number of connections loading that id's config in this step
			for _, cc := range conns {
				if s < len(cc.msgs) && cc.msgs[s].kind != "-" {
					senders = append(senders, cc)
					ids[cc.msgs[s].id] = true
					loadsOfKey[cc.msgs[s].id]++
				}
			}
			if len(senders) == 0 {
				continue
			}
			armed := len(ids) >= 2
			if armed {
				w.gate.arm(len(ids))
				run.Count("steps_armed", 1)
			}
			var wg sync.WaitGroup
			for _, cc := range senders {
				wg.Add(1)
				go func(cc *c03cConn, m c03cMsg) {
					defer wg.Done()
					w.send(run, cc, m)
				}(cc, cc.msgs[s])
			}
			wg.Wait()
			inside, timedOut := 0, false
			if armed {
				inside, timedOut = w.gate.disarm()
				run.Max("max_config_loads_inside_store_together", int64(inside))
				if timedOut {
					run.Count("barrier_opened_by_bounded_wait", 1)
				}
				if inside >= 2 {
					run.Count("steps_with_overlapping_config_loads", 1)
					roundOverlap = true
				}
			}
			// ---- quiescence: monitor ----
			step := fmt.Sprintf("step%d inside=%d:", s, inside)
			for _, cc := range senders {
				step += " " + cc.script + ":" + cc.sent[len(cc.sent)-1]
				m := cc.msgs[s]
				if cc.stepForged {
					run.Count("forged_p2_sent", 1)
					if inside >= 2 && !timedOut && loadsOfKey[m.key] > 0 {
						run.Count("forged_p2_overlapping_load_of_key_owner_config", 1)
					}
				}
			}
			trace = append(trace, step)
			for _, cc := range conns {
				auth1, id1 := w.observe(cc)
				sender := s < len(cc.msgs) && cc.msgs[s].kind != "-"
				ent := int64(0)
				if sender {
					ent = cc.stepEntitling
				}
				if auth1 && (id1 == 0 || (id1 != cc.entitled && id1 != ent)) {
					sig := "C03:concurrent|authenticated-without-proof|script=" + cc.script
					c03cViol(run, sig, map[string]any{"authenticated_as": w.name(id1), "entitled": w.name(cc.entitled), "attacker_key_owner": w.name(A), "victim": w.name(V), "conn_sent": append([]string(nil), cc.sent...), "round_trace": append([]string(nil), trace...), "config_loads_inside_store_together": inside})
				} else if auth1 {
					if id1 == ent && id1 != cc.entitled {
						run.Count("p2_accepted", 1)
					}
					cc.entitled = id1
					cc.ever[id1] = true
				}
				if sender && cc.stepReplyOK && ent == 0 && cc.msgs[s].kind == "P2" {
					c03cViol(run, "C03:concurrent|success-reply-without-proof|script="+cc.script, map[string]any{"conn_sent": append([]string(nil), cc.sent...), "round_trace": append([]string(nil), trace...)})
				}
			}
			for _, x := range w.ids {
				kc := w.n.SM.GetControlConnectionByClientID(x)
				if kc == nil {
					continue
				}
				owner := w.byConn[kc.GetConnID()]
				if owner == nil {
					run.Count("index_points_to_conn_outside_round", 1)
					continue
				}
				if !owner.ever[x] {
					c03cViol(run, "C03:concurrent|control-channel-of-other-client|script="+owner.script, map[string]any{"client": w.name(x), "conn_sent": append([]string(nil), owner.sent...), "round_trace": append([]string(nil), trace...)})
				}
			}
		}
		run.Eval(1)
		run.Count("rounds", 1)
		if roundOverlap {
			run.Count("rounds_with_overlapping_config_loads", 1)
			run.Distinct(strings.Join(fp, ","))
		}
		if samples < 2 {
			run.Sample(trace)
			samples++
		}
		for _, cc := range conns {
			cc.c.CloseByPeer()
			delete(w.byConn, cc.c.ConnID)
		}
	}
	run.Floor("rounds_with_overlapping_config_loads", int64(rounds/3))
	run.Floor("forged_p2_overlapping_load_of_key_owner_config", int64(rounds/10))
	run.Floor("p2_accepted", int64(rounds/10))
}
