//go:build verif && verif_c14

package hybrid

// C14 workload: scenario templates × key-prefix categories × tier topologies, each
// executed under bounded-preemption schedule enumeration, seeded random schedules and
// single-fault enumeration (every tier call of every thread fails once).

import (
	"encoding/json"
	"fmt"
	"os"
	"sort"
	"strings"
	"sync"
	"testing"

	vk "tunnox-core/internal/verifkit"
)

type c14Tmpl struct {
	Name    string
	Threads [][]string
	Inits   []string
}

var c14RegTmpls = []c14Tmpl{
	{"G|D", [][]string{{"get"}, {"del"}}, []string{"warm", "cold"}},
	{"G|S", [][]string{{"get"}, {"set"}}, []string{"warm", "cold"}},
	{"G|G|D", [][]string{{"get"}, {"get"}, {"del"}}, []string{"warm", "cold"}},
	{"S|D", [][]string{{"set"}, {"del"}}, []string{"warm"}},
	{"S|S", [][]string{{"set"}, {"set"}}, []string{"absent"}},
	{"E|S", [][]string{{"exists"}, {"set"}}, []string{"warm"}},
	{"E|D", [][]string{{"exists"}, {"del"}}, []string{"cold"}},
	{"G;S", [][]string{{"get", "set"}}, []string{"cold"}},
	{"G;D", [][]string{{"get", "del"}}, []string{"cold"}},
	// TTL argument classes on a key that is already cached
	{"Sn", [][]string{{"setneg"}}, []string{"warm"}},
	{"Sn|G", [][]string{{"setneg"}, {"get"}}, []string{"warm"}},
	{"G;Sn", [][]string{{"get", "setneg"}}, []string{"cold"}},
	{"S;Sn", [][]string{{"set", "setneg"}}, []string{"absent"}},
	{"St", [][]string{{"settiny"}}, []string{"warm"}},
	// TTL refresh (SetExpiration) racing with a write / delete of the same key
	{"T|S", [][]string{{"touch"}, {"set"}}, []string{"warm"}},
	{"T|D", [][]string{{"touch"}, {"del"}}, []string{"warm"}},
}

var c14NegTTLs = []string{"neg1ns", "neg1s", "past"}

// single-threaded list templates run on the raw-memory topology (real *memory.Storage
// as cache tier, persistence on)
var c14RawListTmpls = []c14Tmpl{
	{"A", [][]string{{"append"}}, []string{"cold", "warm", "absent"}},
	{"R", [][]string{{"remove"}}, []string{"cold", "warm"}},
	{"A;A", [][]string{{"append", "append"}}, []string{"cold"}},
	{"A;R", [][]string{{"append", "remove"}}, []string{"cold"}},
	{"R;A", [][]string{{"remove", "append"}}, []string{"cold"}},
	{"L;A", [][]string{{"getlist", "append"}}, []string{"cold"}},
}

var c14ListTmpls = []c14Tmpl{
	{"A|A", [][]string{{"append"}, {"append"}}, []string{"absent", "warm", "cold"}},
	{"A|R", [][]string{{"append"}, {"remove"}}, []string{"warm", "cold"}},
	{"A|A|L", [][]string{{"append"}, {"append"}, {"getlist"}}, []string{"warm"}},
	{"A|L", [][]string{{"append"}, {"getlist"}}, []string{"cold"}},
	{"A", [][]string{{"append"}}, []string{"cold"}},
	{"R", [][]string{{"remove"}}, []string{"cold"}},
}

func c14Topos() []c14Topo {
	var out []c14Topo
	for _, p := range []bool{false, true} {
		out = append(out,
			c14Topo{Name: "local", Persist: p},
			c14Topo{Name: "split", Shared: true, Persist: p},
			c14Topo{Name: "redis", Shared: true, Common: true, Persist: p})
	}
	return out
}

func c14Scenarios(tmpls []c14Tmpl, list bool) []*c14Scenario {
	return c14ScenariosOn(c14Topos(), tmpls, list)
}

func c14ScenariosOn(topos []c14Topo, tmpls []c14Tmpl, list bool) []*c14Scenario {
	var out []*c14Scenario
	n := 0
	for _, tp := range topos {
		for cat := c14Runtime; cat <= c14SharedPersistent; cat++ {
			if tp.Raw && cat != c14Persistent && cat != c14SharedPersistent {
				continue
			}
			persisted := tp.Persist && (cat == c14Persistent || cat == c14SharedPersistent)
			global := tp.Common || (tp.Shared && (cat == c14Shared || cat == c14SharedPersistent))
			for _, tm := range tmpls {
				for _, init := range tm.Inits {
					if init == "cold" && !persisted {
						continue
					}
					places := []string{strings.Repeat("A", len(tm.Threads))}
					if global && len(tm.Threads) >= 2 {
						places = append(places, "AB"+strings.Repeat("A", len(tm.Threads)-2))
					}
					for _, pl := range places {
						pfx := c14Prefixes[cat]
						sc := &c14Scenario{Topo: tp, Cat: cat, CatName: c14CatName[cat], Key: pfx[n%len(pfx)] + "c14k",
							Tmpl: tm.Name, Init: init, Place: pl, List: list}
						n++
						sc.ID = fmt.Sprintf("%s|%s|%s|%s|%s", tp, sc.CatName, tm.Name, init, pl)
						for i, kinds := range tm.Threads {
							node := 0
							if pl[i] == 'B' {
								node = 1
							}
							var steps []c14Step
							for j, k := range kinds {
								st := c14Step{Node: node, Kind: k}
								switch k {
								case "setneg", "settiny":
									st.Kind = "set"
									st.Arg = fmt.Sprintf("v%d_%d", i+1, j+1)
									st.TTL = "tiny"
									if k == "setneg" {
										st.TTL = c14NegTTLs[n%len(c14NegTTLs)]
									}
								case "set":
									st.Arg = fmt.Sprintf("v%d", i+1)
								case "append":
									st.Arg = fmt.Sprintf("x%d", i+1)
									if j > 0 {
										st.Arg = fmt.Sprintf("x%d_%d", i+1, j+1)
									}
								case "remove":
									st.Arg = "b" // not the last member
								}
								steps = append(steps, st)
							}
							sc.Threads = append(sc.Threads, steps)
						}
						switch {
						case global:
							sc.Views, sc.Probe = [][]int{{0, 1}}, []int{0, 1}
						case persisted:
							// node B has its own cache: it must still see what reached the persistent tier
							sc.Views, sc.Probe = [][]int{{0}, {1}}, []int{0, 1}
						default:
							sc.Views, sc.Probe = [][]int{{0}}, []int{0}
						}
						out = append(out, sc)
					}
				}
			}
		}
	}
	return out
}

type c14Budget struct {
	explore, random, faultExplore, faultRandom, faultClassExplore int
}

type c14Agg struct {
	mu       sync.Mutex
	run      *vk.Run
	seenSig  map[string]bool
	sigScen  map[string]map[string]bool
	complete int
}

func (a *c14Agg) add(sc *c14Scenario, fault *c14Fault, s *vk.Sched, out *c14Outcome) {
	run := a.run
	run.Eval(1)
	fs := "-"
	if fault != nil {
		fs = fmt.Sprintf("%s#%d%s", fault.Thread, fault.Idx, fault.Class)
	}
	if out.Stalls > 0 {
		run.Count("sched_stalls", int64(out.Stalls))
	}
	if out.WBMissing > 0 {
		run.Count("writeback_expected_but_absent", int64(out.WBMissing))
	}
	if out.Ungated > 0 {
		run.Count("unannounced_background_tier_calls", int64(out.Ungated))
	}
	if out.Incomplete {
		run.Count("sched_incomplete", 1)
		return
	}
	if out.Watchdog {
		run.Count("watchdog", 1)
		return
	}
	run.Count("runs_judged", 1)
	if sc.Topo.Raw && sc.Init == "cold" {
		run.Count("raw_cold_updates_judged", 1)
	}
	run.Distinct(sc.ID + "/" + fs + "/" + s.Fingerprint())
	cat := sc.CatName
	if fault == nil {
		run.Count("runs_faultfree", 1)
	} else if out.FaultHit {
		run.Count("fault_hits", 1)
		if fault.Class != "" {
			run.Count("fault_hits|"+fault.Class, 1)
		}
	} else {
		run.Count("fault_not_reached", 1)
	}
	if out.Window {
		run.Count("window_miss_then_mutation|"+cat, 1)
	}
	if out.LateWB {
		run.Count("late_writeback|"+cat, 1)
	}
	if out.Overlap {
		run.Count("list_overlap|"+cat, 1)
	}
	for cls, c := range out.TTLSets {
		if cls != "tiny" {
			cls = "negative"
		}
		run.Count("ttl_sets_judged|"+cls, int64(c))
	}
	if out.TouchRace {
		run.Count("touch_concurrent_with_mutation", 1)
	}
	if out.Concurrent {
		run.Count("list_updates_concurrent|"+cat, 1)
	}
	run.Count("cross_node_reads", int64(out.CrossReads))
	run.Count("route_ops_checked", int64(out.RouteOps))
	for _, sig := range out.Sigs {
		run.Count("viol|"+sig, 1)
		a.mu.Lock()
		first := !a.seenSig[sig]
		a.seenSig[sig] = true
		if a.sigScen[sig] == nil {
			a.sigScen[sig] = map[string]bool{}
		}
		if len(a.sigScen[sig]) < 40 {
			a.sigScen[sig][sc.ID+" fault="+fs] = true
		}
		if first {
			run.Violation(sig, out.Details[sig])
		} else {
			run.Violation(sig, nil)
		}
		a.mu.Unlock()
	}
}

func c14RunScenario(run *vk.Run, sc *c14Scenario, b c14Budget, agg *c14Agg) {
	const maxSteps = 400
	r := run.Rand("sched/" + sc.ID)
	run.Case(sc.ID, sc)
	calls := map[string]int{}
	var cmu sync.Mutex
	one := func(s *vk.Sched, w *c14World, ok bool, f *c14Fault) {
		out := sc.finish(w, s, ok)
		if f == nil {
			cmu.Lock()
			for k, v := range out.Calls {
				if v > calls[k] {
					calls[k] = v
				}
			}
			cmu.Unlock()
		}
		agg.add(sc, f, s, out)
	}
	explore := func(pre, cap int, f *c14Fault) vk.ExploreStats {
		return vk.Explore(pre, cap, maxSteps, func(s *vk.Sched) func(bool) {
			w := sc.start(s, f)
			return func(ok bool) { one(s, w, ok, f) }
		})
	}
	random := func(n int, f *c14Fault) {
		for i := 0; i < n; i++ {
			s := vk.NewSched(vk.RandomChooser{R: r})
			w := sc.start(s, f)
			ok := s.Run(maxSteps)
			s.Stop()
			one(s, w, ok, f)
		}
	}
	st := explore(2, b.explore, nil)
	if st.Complete {
		run.Count("scenarios_enumerated_completely", 1)
	}
	run.Max("max_schedule_depth", int64(st.MaxDepth))
	random(b.random, nil)
	var threads []string
	for k := range calls {
		threads = append(threads, k)
	}
	sort.Strings(threads)
	for _, th := range threads {
		for idx := 0; idx < calls[th]; idx++ {
			f := &c14Fault{Thread: th, Idx: idx}
			run.Count("fault_positions", 1)
			explore(1, b.faultExplore, f)
			random(b.faultRandom, f)
			// error-class dimension: the same position failing with a timeout-class error
			for _, cls := range []string{"timeout", "deadline"} {
				explore(1, b.faultClassExplore, &c14Fault{Thread: th, Idx: idx, Class: cls})
			}
		}
	}
}

// c14FollowChooser replays a recorded schedule (sequence of thread names).
type c14FollowChooser struct {
	order []string
	pos   int
}

func (c *c14FollowChooser) Choose(enabled []string, _ []string, cur int) int {
	for c.pos < len(c.order) {
		want := c.order[c.pos]
		c.pos++
		for i, n := range enabled {
			if n == want {
				return i
			}
		}
	}
	if cur >= 0 {
		return cur
	}
	return 0
}

// c14Replay re-executes the scenario/fault/schedule stored in a replay file written by vcheck.
func c14Replay(run *vk.Run, scs []*c14Scenario, agg *c14Agg) {
	p := os.Getenv("VERIF_REPLAY")
	if p == "" {
		return
	}
	b, err := os.ReadFile(p)
	if err != nil {
		return
	}
	var rf struct {
		Test      string `json:"test"`
		Signature string `json:"signature"`
		Detail    struct {
			Scenario struct {
				ID string `json:"id"`
			} `json:"scenario"`
			Fault    *c14Fault `json:"fault"`
			Schedule []string  `json:"schedule"`
		} `json:"detail"`
	}
	if json.Unmarshal(b, &rf) != nil || rf.Test != run.Name {
		return
	}
	for _, sc := range scs {
		if sc.ID != rf.Detail.Scenario.ID {
			continue
		}
		var order []string
		for _, e := range rf.Detail.Schedule {
			if at := strings.IndexByte(e, '@'); at > 0 {
				order = append(order, e[:at])
			}
		}
		s := vk.NewSched(&c14FollowChooser{order: order})
		w := sc.start(s, rf.Detail.Fault)
		ok := s.Run(400)
		s.Stop()
		out := sc.finish(w, s, ok)
		agg.add(sc, rf.Detail.Fault, s, out)
		run.Count("replayed", 1)
		reproduced := false
		for _, sig := range out.Sigs {
			if sig == rf.Signature {
				reproduced = true
			}
		}
		run.Observe("replay", map[string]any{"scenario": sc.ID, "fault": rf.Detail.Fault, "wanted": rf.Signature,
			"reproduced": reproduced, "signatures": out.Sigs, "schedule": s.Trace()})
	}
}

func c14Drive(t *testing.T, run *vk.Run, scs []*c14Scenario, b c14Budget) *c14Agg {
	agg := &c14Agg{run: run, seenSig: map[string]bool{}, sigScen: map[string]map[string]bool{}}
	c14Replay(run, scs, agg)
	const workers = 6
	ch := make(chan *c14Scenario)
	var wg sync.WaitGroup
	for i := 0; i < workers; i++ {
		wg.Add(1)
		go func() {
			defer wg.Done()
			for sc := range ch {
				c14RunScenario(run, sc, b, agg)
			}
		}()
	}
	var serial []*c14Scenario
	for _, sc := range scs {
		if sc.Topo.Raw {
			serial = append(serial, sc) // quiescence is read from goroutine stacks: one world at a time
			continue
		}
		ch <- sc
	}
	close(ch)
	wg.Wait()
	for _, sc := range serial {
		c14RunScenario(run, sc, b, agg)
		run.Count("raw_memory_cache_scenarios", 1)
	}
	run.Count("scenarios", int64(len(scs)))
	keys := map[string]bool{}
	for _, sc := range scs {
		keys[sc.Key] = true
	}
	run.Count("key_prefixes_covered", int64(len(keys)))
	wit := map[string][]string{}
	for sig, m := range agg.sigScen {
		for k := range m {
			wit[sig] = append(wit[sig], k)
		}
		sort.Strings(wit[sig])
		if len(wit[sig]) > 12 {
			wit[sig] = wit[sig][:12]
		}
	}
	run.Observe("violating_scenarios_by_signature", wit)
	run.Observe("async_writeback_absent", c14NoAsyncWB.Load() >= 3)
	for i, sc := range scs {
		if i%97 == 0 {
			run.Sample(sc)
		}
	}
	return agg
}

const c14Rule = "case = (tier topology local/split/redis × persistence on/off, key-prefix category [prefix rotated over the whole DefaultConfig table], " +
	"scenario template, initial state absent/warm/cold-cache, thread placement on nodes A/B, injected single tier-call failure or none, schedule); " +
	"schedules: all with <=2 preemptions (<=1 under a fault) up to a cap + seeded random; every tier call incl. the asynchronous write-back is a scheduling point; " +
	"distinct = scenario/fault/schedule-fingerprint of runs that ended quiescent and were judged"

func TestVerifC14Register(t *testing.T) {
	vk.Quiet()
	run := vk.Start(t, "C14", "register-linearizability")
	defer run.Finish()
	run.Rule(c14Rule + "; oracle: porcupine register-with-delete over logical-time history incl. epilogue probes on both nodes; tier-routing monitor")
	b := c14Budget{explore: run.Pick(60, 3000), random: run.Pick(6, 100), faultExplore: run.Pick(3, 200), faultRandom: run.Pick(1, 10), faultClassExplore: run.Pick(1, 20)}
	scs := c14Scenarios(c14RegTmpls, false)
	c14Drive(t, run, scs, b)
	run.Floor("runs_judged", int64(run.Pick(5000, 50000)))
	run.Floor("fault_hits", 500)
	run.Floor("cross_node_reads", 500)
	run.Floor("route_ops_checked", 5000)
	run.Floor("key_prefixes_covered", 36)
	run.Floor("ttl_sets_judged|negative", 200)
	run.Floor("ttl_sets_judged|tiny", 50)
	run.Floor("touch_concurrent_with_mutation", 200)
	run.Floor("fault_hits|timeout", 300)
	run.Floor("fault_hits|deadline", 300)
	run.Floor("window_miss_then_mutation|persistent", 1)
	run.Floor("window_miss_then_mutation|sharedpersistent", 1)
}

func TestVerifC14List(t *testing.T) {
	vk.Quiet()
	run := vk.Start(t, "C14", "list-updates")
	defer run.Finish()
	run.Rule(c14Rule + "; oracle: after quiescence every member appended by a call that returned nil is present on every probed node, every removed one absent, initial members kept; concurrent GetList must hold all members whose append had returned; tier-routing monitor")
	b := c14Budget{explore: run.Pick(60, 3000), random: run.Pick(6, 100), faultExplore: run.Pick(3, 200), faultRandom: run.Pick(1, 10), faultClassExplore: run.Pick(1, 20)}
	scs := c14Scenarios(c14ListTmpls, true)
	scs = append(scs, c14ScenariosOn([]c14Topo{{Name: "rawmem", Persist: true, Raw: true}}, c14RawListTmpls, true)...)
	c14Drive(t, run, scs, b)
	run.Floor("runs_judged", int64(run.Pick(4000, 40000)))
	run.Floor("fault_hits", 500)
	run.Floor("cross_node_reads", 500)
	for _, c := range c14CatName {
		run.Floor("list_updates_concurrent|"+c, 50)
	}
	run.Floor("raw_memory_cache_scenarios", 1)
	run.Floor("raw_cold_updates_judged", 1)
	run.Floor("window_miss_then_mutation|persistent", 1)
	run.Floor("window_miss_then_mutation|sharedpersistent", 1)
}
