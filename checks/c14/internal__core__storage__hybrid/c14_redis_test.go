//go:build verif && verif_c14

package hybrid

// C14 with the REAL Redis tier implementation (storage/redis over miniredis) as shared
// cache: single-fault enumeration at Redis-command granularity with an error-class
// dimension (plain error / net.Error timeout / context.DeadlineExceeded), injected by a
// go-redis hook on the operating node's client. What the tier's own error mapping does
// with a failed read is therefore part of the system under test.
//
// Oracle (sequential, no timing): a Get/Exists/GetList during the hiccup must not
// answer not-found for a live key (an error is fine); after AppendToList /
// RemoveFromList / Set - whether it returned nil or an error - both nodes read the old
// or the new value, never a list rebuilt from nothing.

import (
	"context"
	"errors"
	"fmt"
	"sort"
	"sync"
	"testing"
	"time"

	"github.com/alicebob/miniredis/v2"
	goredis "github.com/redis/go-redis/v9"

	"tunnox-core/internal/core/storage/memory"
	credis "tunnox-core/internal/core/storage/redis"
	"tunnox-core/internal/core/storage/types"
	vk "tunnox-core/internal/verifkit"
)

type c14RedisHook struct {
	mu    sync.Mutex
	armed bool
	idx   int
	n     int
	err   error
	hit   string
	cmds  []string
}

func (h *c14RedisHook) DialHook(next goredis.DialHook) goredis.DialHook { return next }
func (h *c14RedisHook) ProcessPipelineHook(next goredis.ProcessPipelineHook) goredis.ProcessPipelineHook {
	return next
}
func (h *c14RedisHook) ProcessHook(next goredis.ProcessHook) goredis.ProcessHook {
	return func(ctx context.Context, cmd goredis.Cmder) error {
		h.mu.Lock()
		i := h.n
		h.n++
		h.cmds = append(h.cmds, cmd.Name())
		fail := h.armed && i == h.idx && h.hit == ""
		if fail {
			h.hit = cmd.Name()
		}
		err := h.err
		h.mu.Unlock()
		if fail {
			cmd.SetErr(err)
			return err
		}
		return next(ctx, cmd)
	}
}
func (h *c14RedisHook) arm(idx int, err error) {
	h.mu.Lock()
	h.armed, h.idx, h.n, h.err, h.hit, h.cmds = err != nil, idx, 0, err, "", nil
	h.mu.Unlock()
}
func (h *c14RedisHook) disarm() (n int, hit string, cmds []string) {
	h.mu.Lock()
	defer h.mu.Unlock()
	h.armed = false
	return h.n, h.hit, append([]string(nil), h.cmds...)
}

func c14Members(n *Storage, key string) (list []string, found bool, err error) {
	l, err := n.GetList(key)
	if err != nil {
		if errors.Is(err, types.ErrKeyNotFound) {
			return nil, false, nil
		}
		return nil, false, err
	}
	return c14Strs(l), true, nil
}

func TestVerifC14RedisTier(t *testing.T) {
	vk.Quiet()
	run := vk.Start(t, "C14", "redis-tier-faults")
	defer run.Finish()
	run.Rule("case = (category shared / shared+persistent [prefix rotated], persistence on/off, operation get/exists/getlist/set/append/remove on a live key held by the real Redis tier (miniredis), " +
		"index of the Redis command that fails, error class plain/timeout/deadline); two nodes with their own clients; oracle: no not-found answer for a live key, old-or-new value on both nodes afterwards")
	mr, err := miniredis.Run()
	if err != nil {
		t.Fatalf("c14: miniredis: %v", err)
	}
	defer mr.Close()
	classes := []string{"", "timeout", "deadline"}
	ops := []string{"get", "exists", "getlist", "set", "append", "remove"}
	caseNo := 0
	for _, persist := range []bool{false, true} {
		for _, cat := range []c14Cat{c14Shared, c14SharedPersistent} {
			for _, op := range ops {
				isList := op == "getlist" || op == "append" || op == "remove"
				// reference run (no fault) to learn how many Redis commands the operation issues
				ncmd := 1
				for idx := -1; idx < ncmd; idx++ {
					for _, cls := range classes {
						if idx < 0 && cls != "" {
							continue
						}
						caseNo++
						pfx := c14Prefixes[cat][caseNo%len(c14Prefixes[cat])]
						key := pfx + "c14redis"
						mr.FlushAll()
						ctx, cancel := context.WithCancel(context.Background())
						pers := vk.NewMapPersistent("pers")
						pers.KeepLog(true)
						var nodes [2]*Storage
						var hook *c14RedisHook
						okSetup := true
						for n := 0; n < 2; n++ {
							rs, err := credis.New(ctx, &credis.Config{Addr: mr.Addr()})
							if err != nil {
								okSetup = false
								break
							}
							if n == 0 {
								hook = &c14RedisHook{}
								rs.GetClient().AddHook(hook)
							}
							cfg := DefaultConfig()
							cfg.EnablePersistent = persist
							nodes[n] = NewWithSharedCache(ctx, memory.New(ctx), rs, pers, cfg)
						}
						if !okSetup {
							cancel()
							t.Fatalf("c14: redis storage setup failed")
						}
						A, B := nodes[0], nodes[1]
						initial := []string{"a", "b", "c", "d"}
						if isList {
							err = A.SetList(key, []any{"a", "b", "c", "d"}, 0)
						} else {
							err = A.Set(key, "v0", 0)
						}
						if err != nil {
							cancel()
							t.Fatalf("c14: prologue: %v", err)
						}
						persBefore := len(pers.Log())
						var ferr error
						if idx >= 0 {
							ferr = c14FaultErr(cls)
						}
						hook.arm(idx, ferr)
						var opErr error
						var found bool
						var val string
						var lst []string
						switch op {
						case "get":
							var v any
							v, opErr = A.Get(key)
							found, val = opErr == nil, fmt.Sprint(v)
						case "exists":
							found, opErr = A.Exists(key)
						case "getlist":
							lst, found, opErr = c14Members(A, key)
						case "set":
							opErr = A.Set(key, "v1", 0)
						case "append":
							opErr = A.AppendToList(key, "x")
						case "remove":
							opErr = A.RemoveFromList(key, "b")
						}
						n, hit, cmds := hook.disarm()
						if idx < 0 {
							ncmd = n
							if ncmd < 1 {
								ncmd = 1
							}
						}
						run.Eval(1)
						run.Case(fmt.Sprintf("%s|persist=%v|%s|#%d|%s", c14CatName[cat], persist, op, idx, cls), nil)
						if idx >= 0 && hit == "" {
							run.Count("fault_not_reached", 1)
						}
						if hit != "" {
							run.Count("fault_hits", 1)
							run.Count("fault_hits|"+hit, 1)
							if cls != "" {
								run.Count("fault_hits|class="+cls, 1)
							}
							run.Distinct(fmt.Sprintf("%s|%v|%s|%d|%s", c14CatName[cat], persist, op, idx, cls))
						}
						// a write-back racing with the operation (persistent fallback was taken) is the
						// known stale-write-back family, judged by the scheduled monitors: do not judge
						// the post-state here, it would depend on goroutine timing
						fallback := false
						for _, r := range pers.Log()[persBefore:] {
							if r.Op == "Get" {
								fallback = true
							}
						}
						ecls := cls
						if ecls == "" {
							ecls = "plain"
						}
						detail := map[string]any{"category": c14CatName[cat], "persistence": persist, "key": key, "operation": op,
							"failed_redis_command_index": idx, "failed_redis_command": hit, "error_class": ecls, "redis_commands_of_operation": cmds,
							"op_error": fmt.Sprint(opErr)}
						viol := func(effect string, extra map[string]any) {
							for k, v := range extra {
								detail[k] = v
							}
							run.Violation(fmt.Sprintf("C14:faultmask|category=%s|effect=%s|error=%s|tier=redis", c14CatName[cat], effect, ecls), detail)
						}
						notFound := opErr != nil && errors.Is(opErr, types.ErrKeyNotFound)
						switch op {
						case "get":
							if notFound {
								viol("read-notfound", nil)
							} else if opErr == nil && val != "v0" {
								viol("read-wrong-value", map[string]any{"value": val})
							}
						case "exists":
							if opErr == nil && !found {
								viol("read-notfound", nil)
							}
						case "getlist":
							if opErr == nil && (!found || len(lst) != 4) {
								viol("read-notfound", map[string]any{"list": lst})
							}
						}
						if fallback {
							run.Count("post_state_not_judged_writeback_in_flight", 1)
						} else if op == "set" || op == "append" || op == "remove" {
							for ni, nd := range []*Storage{A, B} {
								run.Count("post_state_reads", 1)
								if isList {
									l, _, err := c14Members(nd, key)
									if err != nil {
										run.Count("probe_errors", 1)
										continue
									}
									have := map[string]int{}
									for _, m := range l {
										have[m]++
									}
									var missing, dup []string
									for _, m := range initial {
										if have[m] == 0 && !(op == "remove" && m == "b") {
											missing = append(missing, m)
										}
									}
									if op == "append" && opErr == nil && have["x"] == 0 {
										missing = append(missing, "x")
									}
									if op == "remove" && opErr == nil && have["b"] > 0 {
										viol("removed-member-still-listed", map[string]any{"node": ni, "list": l})
									}
									for m, c := range have {
										if c > 1 {
											dup = append(dup, m)
										}
									}
									sort.Strings(dup)
									if len(missing) > 0 {
										viol("list-overwritten", map[string]any{"node": ni, "list": l, "missing": missing})
									}
									if len(dup) > 0 {
										viol("list-duplicate-member", map[string]any{"node": ni, "list": l, "duplicated": dup})
									}
								} else {
									v, err := nd.Get(key)
									s := fmt.Sprint(v)
									switch {
									case err != nil && errors.Is(err, types.ErrKeyNotFound):
										viol("value-lost", map[string]any{"node": ni})
									case err != nil:
										run.Count("probe_errors", 1)
									case opErr == nil && s != "v1":
										viol("older-value-after-set", map[string]any{"node": ni, "value": s})
									case s != "v0" && s != "v1":
										viol("read-wrong-value", map[string]any{"node": ni, "value": s})
									}
								}
							}
						}
						_ = A.Close()
						_ = B.Close()
						cancel()
						// let write-back goroutines of this case end before the next case flushes Redis
						deadline := time.Now().Add(200 * time.Millisecond)
						for c14WritebackAlive() && time.Now().Before(deadline) {
							time.Sleep(100 * time.Microsecond)
						}
					}
				}
			}
		}
	}
	run.Floor("fault_hits", 60)
	run.Floor("fault_hits|get", 20)
	run.Floor("fault_hits|class=timeout", 20)
	run.Floor("fault_hits|class=deadline", 20)
	run.Floor("post_state_reads", 60)
}
