//go:build verif && verif_c14

package hybrid

// C14 routing clause under run-time reconfiguration: after the real
// UpdatePersistentPrefixes promoted / demoted a prefix, every key under it — touched
// before the change or fresh — is routed by the CURRENT prefix table: a Set/Append/
// Delete that returned nil under a now-persistent prefix reached the persistent tier
// (and is readable from it with a cold cache); under a now-runtime prefix no call
// reaches the persistent tier any more.

import (
	"fmt"
	"testing"

	vk "tunnox-core/internal/verifkit"
)

type c14Reconf struct {
	run   *vk.Run
	w     *c14World
	tp    c14Topo
	chg   string // promote | demote
	pfx   string
	touch string
}

func (r *c14Reconf) op(node int, key, kind, arg string) *c14HOp {
	r.w.key = key
	h := r.w.do("main", c14Step{Node: node, Kind: kind, Arg: arg})
	r.w.awaitDone()
	return h
}

func (r *c14Reconf) viol(keyAge, fault string, extra map[string]any) {
	_, log := r.w.snapshot()
	d := map[string]any{"topology": r.tp.String(), "change": r.chg, "prefix": r.pfx, "touched_before_by": r.touch, "tier_log": log}
	for k, v := range extra {
		d[k] = v
	}
	r.run.Violation(fmt.Sprintf("C14:reconfig|change=%s|key=%s|fault=%s", r.chg, keyAge, fault), d)
}

// persOps returns the persistent-tier calls on key logged at or after cut.
func (r *c14Reconf) persOps(key string, cut int) (ops []string) {
	_, log := r.w.snapshot()
	for _, t := range log {
		if t.Seq >= cut && t.Tier == "pers" && t.Key == key {
			ops = append(ops, t.Op)
		}
	}
	return ops
}

func c14Has(ops []string, op string) bool {
	for _, o := range ops {
		if o == op {
			return true
		}
	}
	return false
}

func (r *c14Reconf) dropFromCaches(key string) {
	w := r.w
	seen := map[*c14Cache]bool{}
	for _, c := range []*c14Cache{w.cache[0], w.cache[1], w.shrd} {
		if c != nil && !seen[c] {
			seen[c] = true
			_ = c.Gated.Inner.Delete(key)
		}
	}
}

func (r *c14Reconf) execute(node int) {
	run, w := r.run, r.w
	old := r.pfx + "c14old"
	fresh := r.pfx + "c14fresh"
	// touch the old key under the ORIGINAL table
	switch r.touch {
	case "get":
		r.op(node, old, "get", "")
	case "exists":
		r.op(node, old, "exists", "")
	case "set":
		r.op(node, old, "set", "before")
	case "getlist":
		r.op(node, old, "getlist", "")
	}
	// reconfigure both nodes through the real API
	base := DefaultConfig().PersistentPrefixes
	var next []string
	for _, p := range base {
		if !(r.chg == "demote" && p == r.pfx) {
			next = append(next, p)
		}
	}
	if r.chg == "promote" {
		next = append(next, r.pfx)
	}
	for _, n := range w.nodes {
		n.UpdatePersistentPrefixes(next)
	}
	_, log := w.snapshot()
	cut := len(log)
	run.Eval(1)
	run.Distinct(fmt.Sprintf("%s|%s|%s|%s|n%d", r.tp, r.chg, r.pfx, r.touch, node))

	for _, k := range []struct{ key, age string }{{old, "touched-before"}, {fresh, "fresh"}} {
		if r.touch == "none" && k.age == "touched-before" {
			continue
		}
		c0 := cut
		// Set
		h := r.op(node, k.key, "set", "after")
		if h.Err != "" {
			run.Count("operation_errors", 1)
			continue
		}
		ops := r.persOps(k.key, c0)
		run.Count("routing_checks", 1)
		if r.chg == "promote" {
			if !c14Has(ops, "Set") {
				r.viol(k.age, "set-not-written-to-persistent-tier", map[string]any{"key": k.key, "persistent_calls": ops})
			}
			if v, ok := w.pers.Snapshot()[k.key]; !ok || fmt.Sprint(v) != "after" {
				r.viol(k.age, "value-missing-in-persistent-tier", map[string]any{"key": k.key, "stored": v})
			}
			// cold cache (restart / expiry): the value must come back from the persistent tier
			r.dropFromCaches(k.key)
			if g := r.op(node, k.key, "get", ""); g.Err == "" && (!g.Found || g.Val != "after") {
				r.viol(k.age, "lost-with-cold-cache", map[string]any{"key": k.key, "found": g.Found, "value": g.Val})
			}
			if e := r.op(node, k.key, "exists", ""); e.Err == "" && !e.Found {
				r.viol(k.age, "lost-with-cold-cache", map[string]any{"key": k.key, "exists": false})
			}
		} else if len(ops) > 0 {
			r.viol(k.age, "runtime-key-reached-persistent-tier", map[string]any{"key": k.key, "persistent_calls": ops, "op": "set"})
		}
		// Get / Exists under the current table
		_, log = w.snapshot()
		c1 := len(log)
		r.op(node, k.key, "get", "")
		r.op(node, k.key, "exists", "")
		if r.chg == "demote" {
			if ops := r.persOps(k.key, c1); len(ops) > 0 {
				r.viol(k.age, "runtime-key-reached-persistent-tier", map[string]any{"key": k.key, "persistent_calls": ops, "op": "get/exists"})
			}
		}
		// Delete
		_, log = w.snapshot()
		c2 := len(log)
		if d := r.op(node, k.key, "del", ""); d.Err == "" {
			ops := r.persOps(k.key, c2)
			run.Count("routing_checks", 1)
			if r.chg == "promote" {
				if !c14Has(ops, "Delete") {
					r.viol(k.age, "delete-not-applied-to-persistent-tier", map[string]any{"key": k.key, "persistent_calls": ops})
				}
				if _, ok := w.pers.Snapshot()[k.key]; ok {
					r.viol(k.age, "deleted-key-left-in-persistent-tier", map[string]any{"key": k.key})
				}
			} else if len(ops) > 0 {
				r.viol(k.age, "runtime-key-reached-persistent-tier", map[string]any{"key": k.key, "persistent_calls": ops, "op": "delete"})
			}
		}
		// Append (index list under the same key, now absent)
		_, log = w.snapshot()
		c3 := len(log)
		if a := r.op(node, k.key, "append", "m1"); a.Err == "" {
			ops := r.persOps(k.key, c3)
			run.Count("routing_checks", 1)
			if r.chg == "promote" {
				if !c14Has(ops, "Set") {
					r.viol(k.age, "append-not-written-to-persistent-tier", map[string]any{"key": k.key, "persistent_calls": ops})
				}
				r.dropFromCaches(k.key)
				if g := r.op(node, k.key, "getlist", ""); g.Err == "" && (len(g.List) != 1 || g.List[0] != "m1") {
					r.viol(k.age, "lost-with-cold-cache", map[string]any{"key": k.key, "list": g.List})
				}
			} else if len(ops) > 0 {
				r.viol(k.age, "runtime-key-reached-persistent-tier", map[string]any{"key": k.key, "persistent_calls": ops, "op": "append"})
			}
		}
		_, log = w.snapshot()
		cut = len(log)
	}
}

func TestVerifC14Reconfig(t *testing.T) {
	vk.Quiet()
	run := vk.Start(t, "C14", "reconfig-routing")
	defer run.Finish()
	run.Rule("case = (topology local/split/redis with persistence on, promote a runtime prefix [every documented runtime prefix + a new one] or demote a persistent prefix [every DefaultConfig persistent prefix] " +
		"through the real UpdatePersistentPrefixes, how the key was touched before the change: get/exists/set/getlist/not at all, node A or B); after the change Set/Get/Exists/Delete/Append on the touched key and on a fresh key; " +
		"oracle = tier-call log of the persistent double + its content + cold-cache read-back, judged by the CURRENT prefix table")
	type chg struct{ kind, pfx string }
	var chgs []chg
	for _, p := range append(append([]string{}, c14Prefixes[c14Runtime]...), "c14:newly:persistent:") {
		chgs = append(chgs, chg{"promote", p})
	}
	for _, p := range c14Prefixes[c14Persistent] {
		chgs = append(chgs, chg{"demote", p})
	}
	r := run.Rand("node")
	for _, tp := range c14Topos() {
		if !tp.Persist {
			continue
		}
		for _, c := range chgs {
			for _, touch := range []string{"get", "exists", "set", "getlist", "none"} {
				w := c14NewWorld(tp, c14Runtime, "", nil, nil)
				w.register("main")
				w.setPhase(0)
				rc := &c14Reconf{run: run, w: w, tp: tp, chg: c.kind, pfx: c.pfx, touch: touch}
				run.Case(fmt.Sprintf("%s|%s|%s|%s", tp, c.kind, c.pfx, touch), nil)
				rc.execute(r.Intn(2))
				if w.watchdog.Load() > 0 {
					run.Count("watchdog", 1)
				}
				w.close()
				run.Count(c.kind+"_cases", 1)
			}
		}
	}
	run.Floor("promote_cases", 100)
	run.Floor("demote_cases", 100)
	run.Floor("routing_checks", 1000)
}
