//go:build verif && verif_c14

package hybrid

// C14 oracles: register-with-delete linearizability (porcupine), list membership,
// tier routing, and the classification of a refutation into a signature.

import (
	"fmt"
	"sort"
	"strings"
	"time"

	"github.com/anishathalye/porcupine"

	vk "tunnox-core/internal/verifkit"
)

// ---------------------------------------------------------------- scenarios

type c14Scenario struct {
	ID      string      `json:"id"`
	Topo    c14Topo     `json:"topology"`
	Cat     c14Cat      `json:"-"`
	CatName string      `json:"category"`
	Key     string      `json:"key"`
	Tmpl    string      `json:"template"`
	Init    string      `json:"init"` // absent | warm (all tiers) | cold (persistent tier only: cache entry expired / node restarted)
	Place   string      `json:"placement"`
	List    bool        `json:"list"`
	Threads [][]c14Step `json:"threads"`
	Views   [][]int     `json:"views"` // groups of nodes whose reads are judged together
	Probe   []int       `json:"probe_nodes"`
}

func (sc *c14Scenario) persisted() bool {
	return sc.Topo.Persist && (sc.Cat == c14Persistent || sc.Cat == c14SharedPersistent)
}

// cacheTier is the tier double that must hold the cache copy of the key for node n.
func (sc *c14Scenario) cacheTier(n int) string {
	if sc.Topo.Raw {
		return "rawmem" // never appears in the tier log
	}
	if sc.Topo.Common {
		return "cacheAll"
	}
	if (sc.Cat == c14Shared || sc.Cat == c14SharedPersistent) && sc.Topo.Shared {
		return "shared"
	}
	if n == 0 {
		return "cacheA"
	}
	return "cacheB"
}

func c14TierClass(tier string) string {
	switch tier {
	case "cacheA", "cacheB":
		return "local"
	case "shared":
		return "shared"
	case "cacheAll":
		return "common"
	case "pers":
		return "persistent"
	}
	return tier
}

// >= 4 members so that removing a non-last one shifts several survivors
var c14InitList = []string{"a", "b", "c", "d"}

// start builds a fresh world, runs the prologue and registers the worker threads.
func (sc *c14Scenario) start(s *vk.Sched, fault *c14Fault) *c14World {
	w := c14NewWorld(sc.Topo, sc.Cat, sc.Key, s, fault)
	w.register("main")
	w.setPhase(0)
	if sc.Init != "absent" {
		if sc.List {
			w.do("main", c14Step{Node: 0, Kind: "setlist", Arg: strings.Join(c14InitList, ",")})
		} else {
			w.do("main", c14Step{Node: 0, Kind: "set", Arg: "v0"})
		}
		if sc.Init == "cold" {
			for _, m := range w.raw {
				if m != nil {
					_ = m.Delete(sc.Key)
				}
			}
			seen := map[*c14Cache]bool{}
			for _, c := range []*c14Cache{w.cache[0], w.cache[1], w.shrd} {
				if c != nil && !seen[c] {
					seen[c] = true
					_ = c.Gated.Inner.Delete(sc.Key) // the cache copy expired (not a facade operation)
				}
			}
		}
	}
	w.setPhase(1)
	for i, steps := range sc.Threads {
		name := fmt.Sprintf("t%d", i+1)
		steps := steps
		s.Go(name, func() {
			w.register(name)
			for _, st := range steps {
				w.do(name, st)
			}
		})
	}
	return w
}

// ---------------------------------------------------------------- outcome

type c14Outcome struct {
	Incomplete bool
	Watchdog   bool
	Sigs       []string
	Details    map[string]any
	Window     bool // a read that missed the cache was followed by a completed mutation of the key
	LateWB     bool // a write-back landed after such a mutation
	Overlap    bool // two list updates overlapped between their read and their write
	TTLSets    map[string]int // nil-returned Sets per TTL class
	TouchRace  bool           // a TTL refresh and a mutation of the same key were in flight together
	Concurrent bool // two list updates were in flight at the same time (history level)
	FaultHit   bool
	Calls      map[string]int
	CrossReads int
	RouteOps   int
	Stalls     int
	WBMissing  int
	Ungated    int
	Panics     int
}

// finish runs the epilogue (probe reads after quiescence) and the oracles.
func (sc *c14Scenario) finish(w *c14World, s *vk.Sched, ok bool) *c14Outcome {
	out := &c14Outcome{Details: map[string]any{}}
	defer w.close()
	w.register("main")
	out.Stalls = s.Stalls()
	close(w.stopped)
	out.WBMissing = int(w.wbMissing.Load())
	out.Ungated = int(w.ungated.Load())
	if !ok {
		out.Incomplete = true
		return out
	}
	if !w.awaitDone() {
		out.Watchdog = true
		return out
	}
	w.setPhase(2)
	probe := func(n int) {
		if sc.List {
			w.do("main", c14Step{Node: n, Kind: "getlist"})
		} else {
			w.do("main", c14Step{Node: n, Kind: "get"})
		}
		if !w.awaitDone() {
			out.Watchdog = true
		}
		w.do("main", c14Step{Node: n, Kind: "exists"})
	}
	for _, n := range sc.Probe {
		probe(n)
	}
	probe(sc.Probe[0]) // once more, after the write-backs the probes themselves caused
	if out.Watchdog {
		return out
	}
	hist, log := w.snapshot()
	w.mu.Lock()
	out.Calls = map[string]int{}
	for k, v := range w.calls {
		out.Calls[k] = v
	}
	fh := w.faultHit
	w.mu.Unlock()
	out.FaultHit = fh != nil
	ev := &c14Eval{sc: sc, hist: hist, log: log, fault: fh, out: out, trace: s.Trace(), injected: w.fault}
	ev.coverage()
	ev.panics()
	ev.routing()
	if sc.List {
		ev.lists()
	} else {
		ev.registers()
	}
	return out
}

type c14Eval struct {
	sc       *c14Scenario
	hist     []*c14HOp
	log      []c14TierOp
	fault    *c14TierOp
	injected *c14Fault
	out      *c14Outcome
	trace    []string
}

func (ev *c14Eval) report(sig string, what string, extra map[string]any) {
	for _, s := range ev.out.Sigs {
		if s == sig {
			return
		}
	}
	ev.out.Sigs = append(ev.out.Sigs, sig)
	d := map[string]any{
		"what":     what,
		"scenario": ev.sc,
		"fault":    ev.injected,
		"schedule": ev.trace,
		"history":  ev.hist,
		"tier_log": ev.log,
	}
	if ev.fault != nil {
		d["fault_hit"] = ev.fault
	}
	for k, v := range extra {
		d[k] = v
	}
	ev.out.Details[sig] = d
}

func c14IsBg(thread string) bool { return strings.HasPrefix(thread, "wb") }

func (ev *c14Eval) cat() string { return c14CatName[ev.sc.Cat] }

func (ev *c14Eval) panics() {
	for _, h := range ev.hist {
		if h.Panic != "" {
			ev.out.Panics++
			ev.report(fmt.Sprintf("C14:panic|category=%s|op=%s", ev.cat(), h.Kind), "facade operation panicked: "+h.Panic, nil)
		}
	}
}

// ---------------------------------------------------------------- coverage (non-vacuity)

func (ev *c14Eval) hop(id int) *c14HOp {
	if id < 0 || id >= len(ev.hist) {
		return nil
	}
	return ev.hist[id]
}

func (ev *c14Eval) coverage() {
	for _, a := range ev.hist {
		if a.Kind != "touch" || a.Phase != 1 {
			continue
		}
		for _, b := range ev.hist {
			if b.Phase == 1 && b.mutator() && a.Call < b.Ret && b.Call < a.Ret {
				ev.out.TouchRace = true
			}
		}
	}
	for _, h := range ev.hist {
		if h.Kind == "set" && h.TTL != "" && h.Err == "" {
			if ev.out.TTLSets == nil {
				ev.out.TTLSets = map[string]int{}
			}
			ev.out.TTLSets[h.TTL]++
		}
	}
	firstHit := -1
	for _, r := range ev.log {
		if r.Tier == "pers" && r.Op == "Get" && r.Hit && r.Phase == 1 && !c14IsBg(r.Thread) {
			firstHit = r.Seq
			break
		}
	}
	if firstHit >= 0 {
		for _, m := range ev.log {
			if m.Seq <= firstHit || m.Err || m.Tier == "pers" || c14IsBg(m.Thread) || (m.Op != "Set" && m.Op != "Delete") {
				continue
			}
			h := ev.hop(m.HOp)
			if h == nil || !h.mutator() || h.Err != "" || h.Phase != 1 {
				continue
			}
			ev.out.Window = true
			for _, b := range ev.log {
				if b.Seq > m.Seq && c14IsBg(b.Thread) && b.Op == "Set" && !b.Err && b.Tier == m.Tier {
					ev.out.LateWB = true
				}
			}
		}
	}
	// list updates where one overwrote the other on some tier although the copy it had
	// read (its basis) did not contain the other's update yet
	type upd struct {
		basisTier string
		basisSeq  int
		set       map[string]int // first successful Set per tier
		last      map[string]int // last successful Set/Delete per tier
	}
	var ups []upd
	for _, h := range ev.hist {
		if h.Phase != 1 || h.Err != "" || (h.Kind != "append" && h.Kind != "remove") {
			continue
		}
		x := upd{basisSeq: -1, set: map[string]int{}, last: map[string]int{}}
		for _, i := range h.tier {
			t := ev.log[i]
			if t.Err {
				continue
			}
			if t.Op == "Get" {
				x.basisTier, x.basisSeq = t.Tier, t.Seq
			}
			if t.Op == "Set" {
				if _, ok := x.set[t.Tier]; !ok {
					x.set[t.Tier] = t.Seq
				}
			}
			if t.Op == "Set" || t.Op == "Delete" {
				// Delete: the facade invalidating a cache entry it could not overwrite is
				// this update's (last) effect on that tier
				x.last[t.Tier] = t.Seq
			}
		}
		if x.basisSeq >= 0 && len(x.set) > 0 {
			ups = append(ups, x)
		}
	}
	// opportunity (independent of how the facade is implemented): two list updates were
	// in flight at the same time
	var muts []*c14HOp
	for _, h := range ev.hist {
		if h.Phase == 1 && h.Err == "" && (h.Kind == "append" || h.Kind == "remove") {
			muts = append(muts, h)
		}
	}
	for i := range muts {
		for j := i + 1; j < len(muts); j++ {
			if muts[i].Call < muts[j].Ret && muts[j].Call < muts[i].Ret {
				ev.out.Concurrent = true
			}
		}
	}
	for i := range ups {
		for j := range ups {
			if i == j {
				continue
			}
			// j's basis predates i's write to the tier j read from (or i never wrote there) ...
			wi, wrote := ups[i].set[ups[j].basisTier]
			if wrote && wi < ups[j].basisSeq {
				continue
			}
			// ... and j overwrote i somewhere
			for tier, wj := range ups[j].last {
				if w, ok := ups[i].last[tier]; ok && wj > w {
					ev.out.Overlap = true
				}
			}
		}
	}
}

// ---------------------------------------------------------------- tier routing

func (ev *c14Eval) routing() {
	sc := ev.sc
	allowed := map[string]bool{}
	if sc.Topo.Raw {
		// cache calls are invisible
	} else if sc.Topo.Common {
		allowed["cacheAll"] = true
	} else if (sc.Cat == c14Shared || sc.Cat == c14SharedPersistent) && sc.Topo.Shared {
		allowed["shared"] = true
	} else {
		allowed["cacheA"], allowed["cacheB"] = true, true
	}
	if sc.persisted() {
		allowed["pers"] = true
	}
	for _, t := range ev.log {
		if t.Key != sc.Key {
			continue
		}
		ev.out.RouteOps++
		if !allowed[t.Tier] {
			rw := "read"
			if t.Op == "Set" || t.Op == "Delete" {
				rw = "write"
			}
			ev.report(fmt.Sprintf("C14:route|category=%s|reached=%s|access=%s", ev.cat(), c14TierClass(t.Tier), rw),
				fmt.Sprintf("a %s-category key reached tier %q (%s) in topology %s; allowed tiers %v", ev.cat(), t.Tier, t.Op, sc.Topo, c14Keys(allowed)),
				map[string]any{"tier_op": t})
		}
	}
	// a mutation that returned nil must have been applied to every tier class the key lives in
	for _, h := range ev.hist {
		if !h.mutator() && h.Kind != "setlist" {
			continue
		}
		if h.Err != "" || h.Panic != "" {
			continue
		}
		want := "Set"
		if h.Kind == "del" {
			want = "Delete"
		}
		got := map[string]bool{}
		injected := false
		for _, i := range h.tier {
			t := ev.log[i]
			if t.Err {
				injected = true
			}
			if t.Op == want && !t.Err {
				got[t.Tier] = true
			}
			if h.TTL != "" && t.Op == "Delete" && !t.Err && t.Tier != "pers" {
				got[t.Tier] = true // dropping the cache entry of an already-expired write is as good as writing it
			}
		}
		if injected {
			continue // judged by the behavioural oracle
		}
		need := []string{sc.cacheTier(h.Node)}
		if sc.Topo.Raw {
			need = nil
		}
		if sc.persisted() {
			need = append(need, "pers")
		}
		for _, n := range need {
			if !got[n] {
				ev.report(fmt.Sprintf("C14:route|category=%s|missing=%s", ev.cat(), c14TierClass(n)),
					fmt.Sprintf("%s returned nil without a %s on tier %q (topology %s)", h.Kind, want, n, sc.Topo),
					map[string]any{"op": h})
			}
		}
	}
}

func c14Keys(m map[string]bool) []string {
	var out []string
	for k := range m {
		out = append(out, k)
	}
	sort.Strings(out)
	return out
}

// ---------------------------------------------------------------- register oracle

type c14RegIn struct {
	Kind string
	Val  string
}
type c14RegOut struct {
	Found bool
	Val   string
}

// state: "cur" or "cur\x00alt1\x00alt2": cur is the value established by mutations that
// returned nil; alts are the values a mutation that returned an ERROR may have left in
// some tier (such a call creates no obligation: afterwards a read may see either).
func c14RegSplit(st string) (cur string, alts []string) {
	parts := strings.Split(st, "\x00")
	return parts[0], parts[1:]
}

var c14RegModel = porcupine.Model{
	Init: func() interface{} { return "" },
	Step: func(state, input, output interface{}) (bool, interface{}) {
		st := state.(string)
		in := input.(c14RegIn)
		out := output.(c14RegOut)
		cur, alts := c14RegSplit(st)
		match := func(v string) bool {
			switch in.Kind {
			case "get":
				if out.Found {
					return v != "" && out.Val == v
				}
				return v == ""
			case "exists":
				return out.Found == (v != "")
			}
			return false
		}
		switch in.Kind {
		case "set":
			return true, in.Val
		case "set-expiring":
			// Set with a negative (already expired) or tiny TTL that returned nil: later
			// reads see the new value or nothing - never an older value
			return true, in.Val + "\x00"
		case "del":
			return true, ""
		case "fail-set", "fail-del":
			v := in.Val
			if in.Kind == "fail-del" {
				v = ""
			}
			for _, a := range alts {
				if a == v {
					return true, st
				}
			}
			alts = append(alts, v)
			sort.Strings(alts)
			return true, cur + "\x00" + strings.Join(alts, "\x00")
		case "get", "exists":
			if match(cur) {
				return true, st
			}
			for _, a := range alts {
				if match(a) {
					return true, st
				}
			}
			return false, st
		}
		return false, st
	},
	Equal: func(a, b interface{}) bool { return a.(string) == b.(string) },
	DescribeOperation: func(input, output interface{}) string {
		return fmt.Sprintf("%v -> %v", input, output)
	},
}

func c14InView(n int, view []int) bool {
	for _, v := range view {
		if v == n {
			return true
		}
	}
	return false
}

// linearizable reports whether the history restricted to the reads of the view's
// nodes (plus every mutation, from any node) is linearizable. A mutation that
// returned an error creates no obligation (see the model).
func (ev *c14Eval) linearizable(view []int) (legal bool, unknown bool) {
	var ops []porcupine.Operation
	var maxT int64
	for _, h := range ev.hist {
		if h.Ret > maxT {
			maxT = h.Ret
		}
	}
	for _, h := range ev.hist {
		in := c14RegIn{Kind: h.Kind, Val: h.Arg}
		ret := h.Ret
		switch h.Kind {
		case "set", "del":
			if h.Err != "" {
				in.Kind = "fail-" + h.Kind
				ret = maxT + 10 // may take (partial) effect at any later time
			} else if h.Kind == "set" && h.TTL != "" {
				in.Kind = "set-expiring"
			}
		case "get", "exists":
			if h.Err != "" || !c14InView(h.Node, view) {
				continue
			}
		default:
			continue
		}
		ops = append(ops, porcupine.Operation{ClientId: h.ID, Input: in, Call: h.Call,
			Output: c14RegOut{Found: h.Found, Val: h.Val}, Return: ret})
	}
	switch porcupine.CheckOperationsTimeout(c14RegModel, ops, 20*time.Second) {
	case porcupine.Ok:
		return true, false
	case porcupine.Unknown:
		return false, true
	}
	return false, false
}

func (ev *c14Eval) registers() {
	sc := ev.sc
	for _, view := range sc.Views {
		for _, h := range ev.hist {
			if h.Phase == 2 && h.Node != sc.Probe[0] && c14InView(h.Node, view) && len(view) > 1 && h.Err == "" {
				ev.out.CrossReads++
			}
		}
		legal, unknown := ev.linearizable(view)
		if legal {
			continue
		}
		if unknown {
			ev.out.Watchdog = true
			continue
		}
		// which node's reads are the offending ones?
		node := view[0]
		divergence := false
		if len(view) > 1 {
			la, _ := ev.linearizable([]int{view[0]})
			lb, _ := ev.linearizable([]int{view[1]})
			switch {
			case la && lb:
				divergence = true
			case la && !lb:
				node = view[1]
			}
		}
		upto := len(ev.log)
		sig, why := ev.classify(node, upto, "")
		if sig == "" {
			sig, why = ev.classifyTouch()
		}
		if sig == "" {
			for _, h := range ev.hist {
				if h.Kind == "set" && h.TTL != "" && h.Err == "" {
					cls := "negative"
					if h.TTL == "tiny" {
						cls = "tiny"
					}
					sig = fmt.Sprintf("C14:ttl|category=%s|ttl=%s|fault=older-value-served", ev.cat(), cls)
					why = "a Set with an already-expired / tiny TTL returned nil, yet later reads return a value older than it (neither the new value nor not-found)"
				}
			}
		}
		if sig == "" {
			if divergence {
				sig = fmt.Sprintf("C14:crossnode|category=%s", ev.cat())
				why = "each node's reads are consistent on their own but the two nodes disagree about the order/visibility of writes"
			} else {
				sig = fmt.Sprintf("C14:nonlinearizable|category=%s", ev.cat())
				why = "history is not linearizable as a register with delete and none of the known causes applies"
			}
		}
		ev.report(sig, "register history not linearizable (a read returned a value older than a completed write/delete): "+why,
			map[string]any{"view_nodes": view, "offending_node": node})
	}
}

// ---------------------------------------------------------------- list oracle

func (ev *c14Eval) lists() {
	sc := ev.sc
	initial := map[string]bool{}
	universe := map[string]bool{}
	if sc.Init != "absent" {
		for _, m := range c14InitList {
			initial[m] = true
			universe[m] = true
		}
	}
	removeTargets := map[string]bool{}
	dontcare := map[string]bool{}
	type done struct {
		m   string
		ret int64
	}
	var appended, removed []done
	for _, h := range ev.hist {
		switch h.Kind {
		case "append":
			universe[h.Arg] = true
			if h.Err != "" {
				dontcare[h.Arg] = true
			} else {
				appended = append(appended, done{h.Arg, h.Ret})
			}
		case "remove":
			removeTargets[h.Arg] = true
			if h.Err != "" {
				dontcare[h.Arg] = true
			} else {
				removed = append(removed, done{h.Arg, h.Ret})
			}
		}
	}
	for _, h := range ev.hist {
		if h.Kind != "getlist" || h.Err != "" {
			continue
		}
		if h.Phase == 2 && h.Node != sc.Probe[0] {
			ev.out.CrossReads++
		}
		have := map[string]bool{}
		for _, m := range h.List {
			have[m] = true
		}
		// every member is unique by construction: a member listed twice is a list nobody
		// ever wrote (neither the value before nor the value after any operation)
		count := map[string]int{}
		var dup []string
		for _, m := range h.List {
			count[m]++
			if count[m] == 2 {
				dup = append(dup, m)
			}
		}
		if len(dup) > 0 {
			sort.Strings(dup)
			cause := "none"
			for _, o := range ev.hist {
				if o.Err != "" && (o.Kind == "remove" || o.Kind == "append") && o.Call < h.Call {
					cause = "failed-" + o.Kind
				}
			}
			ev.report(fmt.Sprintf("C14:listcorrupt|category=%s|effect=duplicate-member|after=%s", ev.cat(), cause),
				"a list read returned a member twice: a value that is neither the list before nor the list after any operation (an operation that returned an error must leave the old or the new list)",
				map[string]any{"read": h, "duplicated": dup})
		}
		var missing, undead, phantom []string
		for m := range have {
			if !universe[m] {
				phantom = append(phantom, m)
			}
		}
		for m := range initial {
			if !removeTargets[m] && !have[m] {
				missing = append(missing, m)
			}
		}
		for _, a := range appended {
			if a.ret < h.Call && !removeTargets[a.m] && !dontcare[a.m] && !have[a.m] {
				missing = append(missing, a.m)
			}
		}
		for _, r := range removed {
			if r.ret < h.Call && !dontcare[r.m] && have[r.m] {
				undead = append(undead, r.m)
			}
		}
		sort.Strings(missing)
		sort.Strings(undead)
		sort.Strings(phantom)
		if len(phantom) > 0 {
			ev.report(fmt.Sprintf("C14:list-phantom|category=%s", ev.cat()), "list contains a member nobody added",
				map[string]any{"read": h, "phantom": phantom})
		}
		if len(missing) == 0 && len(undead) == 0 {
			continue
		}
		upto := len(ev.log)
		if len(h.tier) > 0 {
			upto = h.tier[0]
		}
		effect := "lost"
		sig, why := ev.classify(h.Node, upto, "list")
		if sc.Topo.Raw {
			sig, why = ev.classifyRaw()
		}
		if sig == "" {
			sig = fmt.Sprintf("C14:list-unexplained|category=%s", ev.cat())
			why = "no overlapping updates, no late write-back, no injected fault explains it"
		}
		ev.report(sig, "list read after completed append/remove calls misses appended/initial members or still has removed ones: "+why,
			map[string]any{"read": h, "missing_members": missing, "removed_but_present": undead, "effect": effect})
	}
}

// ---------------------------------------------------------------- classification

// classify names the cause of a refutation observed by node's reads, looking at the
// tier log up to (excluding) sequence number upto. "" = no known cause applies.
func (ev *c14Eval) classify(node int, upto int, mode string) (sig, why string) {
	sc := ev.sc
	// 1. injected fault swallowed by the facade
	ecls := ""
	if ev.injected != nil && ev.injected.Class != "" {
		ecls = "|error=" + ev.injected.Class
	}
	if f := ev.fault; f != nil && !c14IsBg(f.Thread) && f.Tier != "pers" {
		if h := ev.hop(f.HOp); h != nil && h.Err == "" {
			invalidated := false // did the facade drop the entry it could not overwrite?
			for _, i := range h.tier {
				if t := ev.log[i]; t.Seq > f.Seq && t.Tier == f.Tier && t.Op == "Delete" && !t.Err {
					invalidated = true
				}
			}
			if f.Op == "Set" && h.mutator() && !invalidated {
				return fmt.Sprintf("C14:faultstale|category=%s|pattern=cache-set-error-ignored%s", ev.cat(), ecls),
					"the cache write of a " + h.Kind + " failed, the error was swallowed and the old cache entry keeps being served"
			}
			if f.Op == "Get" || f.Op == "Exists" {
				laterRead := false
				for _, i := range h.tier {
					t := ev.log[i]
					if t.Seq > f.Seq && !t.Err && (t.Op == "Get" || t.Op == "Exists") {
						laterRead = true
					}
				}
				if !laterRead {
					switch {
					case h.Kind == "append" || h.Kind == "remove":
						return fmt.Sprintf("C14:faultmask|category=%s|effect=list-overwritten%s", ev.cat(), ecls),
							"a failed cache read inside " + h.Kind + " was reported as not-found, so the list was rebuilt from nothing and written back"
					case !h.Found:
						return fmt.Sprintf("C14:faultmask|category=%s|effect=read-notfound%s", ev.cat(), ecls),
							"a failed cache read was answered as not-found / false with no error"
					}
				}
			}
		}
	}
	// 2. late write-backs on the cache tier serving this node: a background cache write
	// that landed after a completed-later mutation of the same tier (the value it carries
	// was fetched from the persistent tier before that mutation)
	ct := sc.cacheTier(node)
	last := -1                   // last mutation of ct
	lastOn := map[string]int{}   // per cache tier
	lateKind := map[int]string{} // seq of a late write-back -> kind of the facade mutation it overwrote
	anyLate := -1
	for _, t := range ev.log {
		if t.Seq >= upto {
			break
		}
		if t.Tier == "pers" || t.Key != sc.Key || t.Err || (t.Op != "Set" && t.Op != "Delete") {
			continue
		}
		if prev, ok := lastOn[t.Tier]; ok && c14IsBg(t.Thread) && t.Phase == 1 && !c14IsBg(ev.log[prev].Thread) {
			if h := ev.hop(ev.log[prev].HOp); h != nil && h.Phase == 1 && h.mutator() {
				lateKind[t.Seq] = h.Kind
				anyLate = t.Seq
			}
		}
		lastOn[t.Tier] = t.Seq
		if t.Tier == ct {
			last = t.Seq
		}
	}
	staleSig := func(seq int, via string) (string, string) {
		if lateKind[seq] == "del" {
			return fmt.Sprintf("C14:stale|category=%s|pattern=get-miss>delete>writeback", ev.cat()),
				"a read missed the cache and fetched the value from the persistent tier; a delete then completed on both tiers; the asynchronous write-back stored the fetched value in the cache afterwards" + via
		}
		return fmt.Sprintf("C14:stale|category=%s|pattern=get-miss>set>writeback", ev.cat()),
			"a read missed the cache and fetched the old value from the persistent tier; an overwrite then completed on both tiers; the asynchronous write-back replaced the new cache entry by the old value" + via
	}
	if _, ok := lateKind[last]; ok {
		return staleSig(last, "")
	}
	// 3. list updates overlapping between read and write
	if mode == "list" && ev.out.Overlap {
		return fmt.Sprintf("C14:listlost|category=%s|pattern=concurrent-get-modify-set", ev.cat()),
			"two list updates both read the list before either wrote it back; the later write-back drops the other update"
	}
	// 4. an earlier late write-back whose stale copy was read (and, for lists, used as the
	// basis of a later get-modify-set, which spreads the loss to every tier)
	if anyLate >= 0 {
		return staleSig(anyLate, " (the stale cache copy was then read by a later operation)")
	}
	return "", ""
}

// classifyRaw: raw-memory topology, single-threaded list scenarios (no concurrency, the
// write-back completes before the next tier call, so none of the known causes can
// apply). A list update on a cold cache that wrote the persistent tier without having
// read the list from it first rebuilt the list from nothing.
func (ev *c14Eval) classifyRaw() (sig, why string) {
	for _, h := range ev.hist {
		if h.Phase != 1 || h.Err != "" || (h.Kind != "append" && h.Kind != "remove") {
			continue
		}
		read := false
		for _, i := range h.tier {
			t := ev.log[i]
			if t.Tier != "pers" || t.Err {
				continue
			}
			if t.Op == "Get" {
				read = true
			}
			if t.Op == "Set" && !read && ev.sc.Init == "cold" {
				return fmt.Sprintf("C14:listlost|category=%s|pattern=cold-cache-%s-overwrites", ev.cat(), h.Kind),
					"with the cache entry gone (restart / expiry) and the full list only in the persistent tier, " + h.Kind +
						" wrote a list to the persistent tier without loading the stored list first: the earlier members are overwritten"
			}
		}
	}
	return "", ""
}

// classifyTouch: a TTL refresh (SetExpiration) implemented as read-value-then-rewrite on
// a cache tier, with another caller's Set/Delete of the key landing on that tier in
// between: the refresh writes the older value back after the newer write returned.
func (ev *c14Eval) classifyTouch() (sig, why string) {
	for _, h := range ev.hist {
		if h.Kind != "touch" || h.Err != "" {
			continue
		}
		rd := map[string]int{}
		for _, i := range h.tier {
			t := ev.log[i]
			if t.Err {
				continue
			}
			if t.Op == "Get" {
				rd[t.Tier] = t.Seq
			}
			if r, ok := rd[t.Tier]; ok && t.Op == "Set" {
				for _, m := range ev.log {
					if m.Seq > r && m.Seq < t.Seq && m.Tier == t.Tier && m.Key == t.Key && !m.Err && m.HOp != h.ID && (m.Op == "Set" || m.Op == "Delete") {
						return fmt.Sprintf("C14:touch|cache=%s|fault=rewrites-older-value", c14TierClass(t.Tier)),
							"SetExpiration read the value from the " + c14TierClass(t.Tier) + " cache tier, another caller's " + m.Op + " of the key completed on that tier, then SetExpiration wrote the value it had read back: every later read returns the older value"
					}
				}
			}
		}
	}
	return "", ""
}
