//go:build verif && verif_c14

package hybrid

// C14 — the tiered store never serves stale data or loses concurrent list updates.
//
// This file: the world (two real hybrid.Storage "nodes" over gated tier doubles), the
// tier-call hook (scheduling point + fault injection + tier-call log), and the history
// recorder. The oracles are in c14_oracle_test.go, the workload in c14_test.go.

import (
	"bytes"
	"context"
	"errors"
	"fmt"
	"net"
	"runtime"
	"strconv"
	"strings"
	"sync"
	"sync/atomic"
	"time"

	"tunnox-core/internal/core/storage/memory"
	"tunnox-core/internal/core/storage/types"
	vk "tunnox-core/internal/verifkit"
)

type c14Cat int

const (
	c14Runtime c14Cat = iota
	c14Persistent
	c14Shared
	c14SharedPersistent
)

var c14CatName = [...]string{"runtime", "persistent", "shared", "sharedpersistent"}

// The monitor's own expectation of which key prefix belongs to which category (taken
// from the property's state description, NOT read from config.go at run time, so that
// a prefix moved between the tables of DefaultConfig is noticed).
var c14Prefixes = map[c14Cat][]string{
	c14Runtime: {
		"tunnox:session:", "tunnox:runtime:enc:", "tunnox:jwt:", "tunnox:route:",
		"tunnox:temp:", "tunnox:stats:runtime:", "tunnox:stats:cache:",
	},
	c14Persistent: {
		"tunnox:user:", "tunnox:client:", "tunnox:config:client:", "tunnox:persist:client:config:",
		"tunnox:persist:clients:list", "tunnox:mapping:", "tunnox:persist:mapping:",
		"tunnox:persist:mappings:list", "tunnox:stats:persistent:",
	},
	c14Shared: {
		"tunnox:conn_state:", "tunnox:client_conn:", "tunnox:tunnel_waiting:", "tunnox:node:",
		"tunnox:runtime:conncode:", "tunnox:index:conncode:target:", "tunnox:id:",
		"tunnox:runtime:client:state:", "tunnox:http_domain:index:", "tunnox:http_domain:next_id",
	},
	c14SharedPersistent: {
		"tunnox:client_mappings:", "tunnox:user_mappings:", "tunnox:port_mapping:", "tunnox:mappings:list",
		"tunnox:http_domain:mapping:", "tunnox:http_domain:client:", "webhook:", "webhooks:",
		"webhook_log:", "webhook_logs:",
	},
}

// c14Topo is a tier topology.
//
//	local : each node has its own memory cache, no shared cache       (memory / standalone JSON)
//	split : own memory caches + one shared cache                      (remote storage + Redis)
//	redis : both nodes use ONE cache, which is also the shared cache  (Redis storage)
type c14Topo struct {
	Name    string
	Shared  bool // a shared cache exists
	Common  bool // the "local" cache of both nodes is the same store (and is the shared cache)
	Persist bool
	// Raw: the per-node caches are the REAL *memory.Storage objects, not gated doubles
	// (code paths that type-assert the cache tier see what production sees). Cache calls
	// are then neither scheduling points nor logged; write-backs are made to complete
	// before the next scheduling point instead of being scheduled.
	Raw bool
}

func (t c14Topo) String() string {
	p := "off"
	if t.Persist {
		p = "on"
	}
	return t.Name + "/persist=" + p
}

// c14TierOp is one tier call seen by a double (in application order).
type c14TierOp struct {
	Seq    int    `json:"seq"`
	Thread string `json:"thread"`
	Tier   string `json:"tier"`
	Op     string `json:"op"`
	Key    string `json:"key,omitempty"`
	Err    bool   `json:"injected_error,omitempty"`
	Hit    bool   `json:"hit,omitempty"` // persistent-tier read that found a value
	Phase  int    `json:"phase"`
	HOp    int    `json:"hop"` // id of the facade operation it belongs to, -1 for background goroutines
	Idx    int    `json:"idx"` // per-thread tier-call index within the scheduled phase
}

// c14HOp is one operation on the facade (history entry).
type c14HOp struct {
	ID     int      `json:"id"`
	Thread string   `json:"thread"`
	Node   int      `json:"node"`
	Kind   string   `json:"kind"` // set del get exists append remove getlist
	Arg    string   `json:"arg,omitempty"`
	TTL    string   `json:"ttl,omitempty"`
	Call   int64    `json:"call"`
	Ret    int64    `json:"ret"`
	Err    string   `json:"err,omitempty"` // failed (not-found is NOT a failure)
	Found  bool     `json:"found"`
	Val    string   `json:"val,omitempty"`
	List   []string `json:"list,omitempty"`
	Phase  int      `json:"phase"`
	Panic  string   `json:"panic,omitempty"`
	tier   []int
}

func (o *c14HOp) mutator() bool {
	switch o.Kind {
	case "set", "del", "append", "remove":
		return true
	}
	return false
}

type c14Fault struct {
	Thread string `json:"thread"`
	Idx    int    `json:"idx"`
	Class  string `json:"class,omitempty"` // "" plain error | timeout (net.Error, Timeout()=true) | deadline (context.DeadlineExceeded)
}

type c14NetTimeout struct{}

func (c14NetTimeout) Error() string   { return "verif: injected i/o timeout" }
func (c14NetTimeout) Timeout() bool   { return true }
func (c14NetTimeout) Temporary() bool { return true }

// c14FaultErr is the error a failing tier call returns for the fault's error class.
func c14FaultErr(class string) error {
	switch class {
	case "timeout":
		return &net.OpError{Op: "read", Net: "tcp", Err: c14NetTimeout{}}
	case "deadline":
		return fmt.Errorf("verif: injected: %w", context.DeadlineExceeded)
	}
	return vk.ErrInjected
}

type c14Cache struct {
	*vk.Gated
	w *c14World
}

// Set counts completed write-backs (cache writes made by goroutines the harness did
// not start), so that quiescence is decided logically, and tells the write-back's
// scheduler thread that it is finished.
func (c *c14Cache) Set(key string, v any, ttl time.Duration) error {
	err := c.Gated.Set(key, v, ttl)
	g := c14Gid()
	if !c.w.isHarnessGoroutine(g) {
		c.w.wbDone.Add(1)
		c.w.mu.Lock()
		px := c.w.bgProxy[g]
		delete(c.w.bgProxy, g)
		c.w.mu.Unlock()
		if px != nil {
			close(px.done)
		}
	}
	return err
}

type c14Pers struct {
	*vk.MapPersistent
	w *c14World
}

// Get notices reads that found a value: on this tree each of them is followed by one
// asynchronous cache write-back.
func (p *c14Pers) Get(key string) (any, error) {
	v, err := p.MapPersistent.Get(key)
	if err == nil {
		p.w.onPersHit(c14Gid())
	}
	return v, err
}

// c14Proxy is the scheduler thread standing for one asynchronous write-back. It is
// registered synchronously (on the goroutine whose read triggers the write-back), so
// the set of schedulable threads never depends on Go runtime timing; when the scheduler
// releases it, it lets the real write-back goroutine pass its gate and waits for the
// cache write to finish.
type c14Proxy struct {
	name    string
	arrived chan struct{}
	release chan struct{}
	done    chan struct{}
}

// c14NoAsyncWB counts consecutive expected write-backs that never showed up; from 3 on
// the tree under test evidently has no asynchronous write-back and waiting is skipped.
var c14NoAsyncWB atomic.Int32

type c14World struct {
	topo  c14Topo
	cat   c14Cat
	key   string
	nodes [2]*Storage
	cache [2]*c14Cache
	shrd  *c14Cache
	raw   [2]*memory.Storage
	pers  *c14Pers

	mu       sync.Mutex
	sched    *vk.Sched
	threads  map[int64]string
	bgName   map[int64]string
	bgSeq    int
	proxies  []*c14Proxy // registered, not yet claimed by a write-back goroutine
	bgProxy  map[int64]*c14Proxy
	stopped  chan struct{}
	calls    map[string]int
	cur      map[string]*c14HOp
	log      []c14TierOp
	hist     []*c14HOp
	fault    *c14Fault
	faultHit *c14TierOp

	phase      atomic.Int32 // 0 prologue, 1 scheduled, 2 epilogue
	clock      atomic.Int64
	wbExpected atomic.Int64
	wbDone     atomic.Int64
	watchdog   atomic.Int32
	wbMissing  atomic.Int32
	ungated    atomic.Int32
	rawPending atomic.Bool
	cancel     context.CancelFunc
}

func c14Gid() int64 {
	var buf [64]byte
	n := runtime.Stack(buf[:], false)
	b := bytes.TrimPrefix(buf[:n], []byte("goroutine "))
	i := bytes.IndexByte(b, ' ')
	if i < 0 {
		return -1
	}
	id, _ := strconv.ParseInt(string(b[:i]), 10, 64)
	return id
}

func c14NewWorld(tp c14Topo, cat c14Cat, key string, s *vk.Sched, fault *c14Fault) *c14World {
	ctx, cancel := context.WithCancel(context.Background())
	w := &c14World{topo: tp, cat: cat, key: key, sched: s, fault: fault, cancel: cancel,
		threads: map[int64]string{}, bgName: map[int64]string{}, bgProxy: map[int64]*c14Proxy{}, stopped: make(chan struct{}), calls: map[string]int{}, cur: map[string]*c14HOp{}}
	mk := func(tier string) *c14Cache {
		c := &c14Cache{Gated: vk.NewGated(tier, memory.New(ctx)), w: w}
		c.SetHook(w.hook)
		return c
	}
	if tp.Raw {
		w.raw[0], w.raw[1] = memory.New(ctx), memory.New(ctx)
	} else if tp.Common {
		c := mk("cacheAll")
		w.cache[0], w.cache[1], w.shrd = c, c, c
	} else {
		w.cache[0], w.cache[1] = mk("cacheA"), mk("cacheB")
		if tp.Shared {
			w.shrd = mk("shared")
		}
	}
	w.pers = &c14Pers{MapPersistent: vk.NewMapPersistent("pers"), w: w}
	w.pers.SetHook(w.hook)
	for n := 0; n < 2; n++ {
		cfg := DefaultConfig()
		cfg.EnablePersistent = tp.Persist
		var sc types.CacheStorage
		if w.shrd != nil {
			sc = w.shrd
		}
		if tp.Raw {
			w.nodes[n] = NewWithSharedCache(ctx, w.raw[n], nil, w.pers, cfg)
			continue
		}
		w.nodes[n] = NewWithSharedCache(ctx, w.cache[n], sc, w.pers, cfg)
	}
	return w
}

func (w *c14World) register(name string) {
	g := c14Gid()
	w.mu.Lock()
	w.threads[g] = name
	w.mu.Unlock()
}

func (w *c14World) isHarnessGoroutine(g int64) bool {
	w.mu.Lock()
	_, ok := w.threads[g]
	w.mu.Unlock()
	return ok
}

// onPersHit flags the latest persistent-tier Get of the calling goroutine as a hit and
// registers the scheduler thread of the write-back that will follow.
func (w *c14World) onPersHit(g int64) {
	w.wbExpected.Add(1)
	w.mu.Lock()
	name, ok := w.threads[g]
	if !ok {
		name = w.bgName[g]
	}
	for i := len(w.log) - 1; i >= 0; i-- {
		if t := &w.log[i]; t.Thread == name && t.Tier == "pers" && t.Op == "Get" {
			t.Hit = true
			break
		}
	}
	s := w.sched
	var px *c14Proxy
	if w.topo.Raw {
		w.rawPending.Store(true)
	} else if w.phase.Load() == 1 && s != nil && c14NoAsyncWB.Load() < 3 {
		w.bgSeq++
		px = &c14Proxy{name: fmt.Sprintf("wb%d", w.bgSeq), arrived: make(chan struct{}), release: make(chan struct{}), done: make(chan struct{})}
		w.proxies = append(w.proxies, px)
	}
	w.mu.Unlock()
	if px == nil {
		return
	}
	s.Go(px.name, func() {
		select {
		case <-px.arrived:
		case <-time.After(100 * time.Millisecond):
			// no write-back goroutine showed up (a tree without asynchronous write-back)
			w.mu.Lock()
			for i, q := range w.proxies {
				if q == px {
					w.proxies = append(w.proxies[:i], w.proxies[i+1:]...)
					break
				}
			}
			w.mu.Unlock()
			select {
			case <-px.arrived: // claimed in the meantime
			default:
				c14NoAsyncWB.Add(1)
				w.wbMissing.Add(1)
				return
			}
		}
		close(px.release)
		select {
		case <-px.done:
		case <-time.After(2 * time.Second):
			w.watchdog.Add(1)
		}
	})
}

func (w *c14World) setPhase(p int) { w.phase.Store(int32(p)) }

// hook runs before every tier call: scheduling point, then (once released) the call
// is logged in application order and possibly failed.
func (w *c14World) hook(tier, op, key string) error {
	g := c14Gid()
	w.mu.Lock()
	name, harness := w.threads[g]
	phase := int(w.phase.Load())
	s := w.sched
	var px *c14Proxy
	if !harness {
		name = w.bgName[g]
		if name == "" {
			if phase == 1 && len(w.proxies) > 0 {
				px = w.proxies[0]
				w.proxies = w.proxies[1:]
				w.bgProxy[g] = px
				name = px.name
			} else {
				w.bgSeq++
				name = fmt.Sprintf("wb%d", w.bgSeq)
			}
			w.bgName[g] = name
		}
	}
	w.mu.Unlock()
	if px != nil {
		c14NoAsyncWB.Store(0) // asynchronous write-backs do exist on this tree
		close(px.arrived)
		select {
		case <-px.release:
		case <-w.stopped:
		case <-time.After(10 * time.Second):
			w.watchdog.Add(1)
		}
	} else if harness && phase == 1 && s != nil {
		w.awaitRawQuiescent()
		s.Yield(tier + "." + op)
	} else if !harness && phase == 1 {
		w.ungated.Add(1) // a background goroutine nobody announced: runs unscheduled
	}
	w.mu.Lock()
	defer w.mu.Unlock()
	rec := c14TierOp{Seq: len(w.log), Thread: name, Tier: tier, Op: op, Key: key, Phase: int(w.phase.Load()), HOp: -1, Idx: -1}
	if h := w.cur[name]; h != nil && harness {
		rec.HOp = h.ID
		h.tier = append(h.tier, rec.Seq)
	}
	if phase == 1 {
		rec.Idx = w.calls[name]
		w.calls[name]++
		if w.fault != nil && w.faultHit == nil && w.fault.Thread == name && w.fault.Idx == rec.Idx {
			rec.Err = true
			r := rec
			w.faultHit = &r
		}
	}
	w.log = append(w.log, rec)
	if rec.Err {
		return c14FaultErr(w.fault.Class)
	}
	return nil
}

// awaitRawQuiescent (raw topology only; such worlds run one at a time) waits until no
// write-back goroutine of the facade exists any more. Decided from goroutine stacks,
// bounded; a timeout is reported as watchdog (inconclusive), never as a violation.
func (w *c14World) awaitRawQuiescent() bool {
	if !w.topo.Raw || !w.rawPending.Load() {
		return true
	}
	deadline := time.Now().Add(500 * time.Millisecond)
	buf := make([]byte, 1<<16)
	for {
		n := runtime.Stack(buf, true)
		for n >= len(buf) {
			buf = make([]byte, 2*len(buf))
			n = runtime.Stack(buf, true)
		}
		d := buf[:n]
		if !bytes.Contains(d, []byte("storage/hybrid.(*Storage).Get.func")) &&
			!bytes.Contains(d, []byte("storage/hybrid.(*Storage).getSharedPersistent.func")) {
			w.rawPending.Store(false)
			return true
		}
		if time.Now().After(deadline) {
			w.watchdog.Add(1)
			return false
		}
		runtime.Gosched()
		time.Sleep(20 * time.Microsecond)
	}
}

// c14WritebackAlive reports whether a write-back goroutine of the facade exists.
func c14WritebackAlive() bool {
	buf := make([]byte, 1<<16)
	n := runtime.Stack(buf, true)
	for n >= len(buf) {
		buf = make([]byte, 2*len(buf))
		n = runtime.Stack(buf, true)
	}
	d := buf[:n]
	return bytes.Contains(d, []byte("storage/hybrid.(*Storage).Get.func")) ||
		bytes.Contains(d, []byte("storage/hybrid.(*Storage).getSharedPersistent.func"))
}

// awaitDone waits (bounded) until every expected write-back completed.
func (w *c14World) awaitDone() bool {
	if w.topo.Raw {
		return w.awaitRawQuiescent()
	}
	if c14NoAsyncWB.Load() >= 3 {
		return true
	}
	exp := w.wbExpected.Load()
	if w.wbDone.Load() >= exp {
		return true
	}
	deadline := time.Now().Add(500 * time.Millisecond)
	for w.wbDone.Load() < exp {
		if time.Now().After(deadline) {
			c14NoAsyncWB.Add(1)
			w.watchdog.Add(1)
			return false
		}
		runtime.Gosched()
		time.Sleep(20 * time.Microsecond)
	}
	return true
}

type c14Step struct {
	Node int    `json:"node"`
	Kind string `json:"kind"`
	Arg  string `json:"arg,omitempty"`
	TTL  string `json:"ttl,omitempty"` // set only: "" (0 = default) | neg1ns | neg1s | past | tiny
}

// c14TTL turns a TTL class into the argument of Set. Negative values are what callers
// get from time.Until(expiresAt) once the expiry has passed.
func c14TTL(class string) time.Duration {
	switch class {
	case "neg1ns":
		return -1
	case "neg1s":
		return -time.Second
	case "past":
		return time.Until(time.Now().Add(-time.Hour))
	case "tiny":
		return time.Nanosecond
	}
	return 0
}

func c14Strs(l []any) []string {
	out := make([]string, 0, len(l))
	for _, v := range l {
		out = append(out, fmt.Sprint(v))
	}
	return out
}

// do performs one facade operation on the calling goroutine and records it.
func (w *c14World) do(thread string, st c14Step) *c14HOp {
	n := w.nodes[st.Node]
	w.mu.Lock()
	op := &c14HOp{ID: len(w.hist), Thread: thread, Node: st.Node, Kind: st.Kind, Arg: st.Arg, TTL: st.TTL, Phase: int(w.phase.Load())}
	w.hist = append(w.hist, op)
	w.cur[thread] = op
	w.mu.Unlock()
	op.Call = w.clock.Add(1)
	var err error
	func() {
		defer func() {
			if e := recover(); e != nil {
				op.Panic = fmt.Sprint(e)
				err = fmt.Errorf("panic: %v", e)
			}
		}()
		switch st.Kind {
		case "set":
			err = n.Set(w.key, st.Arg, c14TTL(st.TTL))
		case "touch":
			err = n.SetExpiration(w.key, time.Hour) // TTL refresh: not a write of the value
		case "del":
			err = n.Delete(w.key)
		case "get":
			var v any
			v, err = n.Get(w.key)
			if err == nil {
				op.Found = true
				op.Val = fmt.Sprint(v)
			}
		case "exists":
			op.Found, err = n.Exists(w.key)
		case "setlist":
			var l []any
			for _, m := range strings.Split(st.Arg, ",") {
				l = append(l, m)
			}
			err = n.SetList(w.key, l, 0)
		case "append":
			err = n.AppendToList(w.key, st.Arg)
		case "remove":
			err = n.RemoveFromList(w.key, st.Arg)
		case "getlist":
			var l []any
			l, err = n.GetList(w.key)
			if err == nil {
				op.Found = true
				op.List = c14Strs(l)
			}
		default:
			panic("c14: unknown step kind " + st.Kind)
		}
	}()
	op.Ret = w.clock.Add(1)
	if err != nil {
		if (st.Kind == "get" || st.Kind == "getlist") && op.Panic == "" && errors.Is(err, types.ErrKeyNotFound) {
			op.Found = false // a successful "not found" answer
		} else {
			op.Err = err.Error()
		}
	}
	w.mu.Lock()
	delete(w.cur, thread)
	w.mu.Unlock()
	w.awaitRawQuiescent()
	return op
}

func (w *c14World) close() { w.cancel() }

// snapshot copies for the oracle (after quiescence).
func (w *c14World) snapshot() ([]*c14HOp, []c14TierOp) {
	w.mu.Lock()
	defer w.mu.Unlock()
	return append([]*c14HOp(nil), w.hist...), append([]c14TierOp(nil), w.log...)
}
