//go:build verif && verif_c14

package server

// C14 (routing clause, configuration path): the tiered store assembled by the server's
// real createStorage() for every configuration class must route each key-prefix
// category to the tier class the property names: what node A wrote/deleted/appended is
// what node B reads exactly when both nodes share the tier holding that category, and
// runtime-only keys never reach the persistent tier.
//
// Classes: memory | json (standalone file persistence, one file per node + a restarted
// node on A's file) | redis (miniredis) | remote (in-process gRPC StorageService stub on
// loopback) | remote+redis. PostgreSQL is not part of createStorage and not driven.
// Observation is through the public Storage API on two nodes; what reached the
// persistent tier is read from the gRPC stub's own store / the facade's
// GetPersistentStorage() accessor.

import (
	"context"
	"errors"
	"fmt"
	"net"
	"path/filepath"
	"sort"
	"sync"
	"testing"
	"time"

	"github.com/alicebob/miniredis/v2"
	"google.golang.org/grpc"

	storagepb "tunnox-core/api/proto/storage"
	"tunnox-core/internal/core/storage"
	"tunnox-core/internal/core/storage/types"
	vk "tunnox-core/internal/verifkit"
)

var c14cfgCats = []string{"runtime", "persistent", "shared", "sharedpersistent"}

// the monitor's own prefix → category expectation (not read from the code under test)
var c14cfgPrefixes = map[string][]string{
	"runtime": {
		"tunnox:session:", "tunnox:runtime:enc:", "tunnox:jwt:", "tunnox:route:",
		"tunnox:temp:", "tunnox:stats:runtime:", "tunnox:stats:cache:",
	},
	"persistent": {
		"tunnox:user:", "tunnox:client:", "tunnox:config:client:", "tunnox:persist:client:config:",
		"tunnox:persist:clients:list", "tunnox:mapping:", "tunnox:persist:mapping:",
		"tunnox:persist:mappings:list", "tunnox:stats:persistent:",
	},
	"shared": {
		"tunnox:conn_state:", "tunnox:client_conn:", "tunnox:tunnel_waiting:", "tunnox:node:",
		"tunnox:runtime:conncode:", "tunnox:index:conncode:target:", "tunnox:id:",
		"tunnox:runtime:client:state:", "tunnox:http_domain:index:", "tunnox:http_domain:next_id",
	},
	"sharedpersistent": {
		"tunnox:client_mappings:", "tunnox:user_mappings:", "tunnox:port_mapping:", "tunnox:mappings:list",
		"tunnox:http_domain:mapping:", "tunnox:http_domain:client:", "webhook:", "webhooks:",
		"webhook_log:", "webhook_logs:",
	},
}

// ---- in-process stand-in for the tunnox-storage gRPC service

type c14cfgStub struct {
	storagepb.UnimplementedStorageServiceServer
	mu      sync.Mutex
	data    map[string][]byte
	touched map[string]bool // every key that ever appeared in a request
}

func (s *c14cfgStub) touch(k string) { s.touched[k] = true }

func (s *c14cfgStub) Set(_ context.Context, r *storagepb.SetRequest) (*storagepb.SetResponse, error) {
	s.mu.Lock()
	defer s.mu.Unlock()
	s.touch(r.Key)
	s.data[r.Key] = append([]byte(nil), r.Value...)
	return &storagepb.SetResponse{Success: true}, nil
}
func (s *c14cfgStub) Get(_ context.Context, r *storagepb.GetRequest) (*storagepb.GetResponse, error) {
	s.mu.Lock()
	defer s.mu.Unlock()
	s.touch(r.Key)
	v, ok := s.data[r.Key]
	return &storagepb.GetResponse{Found: ok, Value: v}, nil
}
func (s *c14cfgStub) Delete(_ context.Context, r *storagepb.DeleteRequest) (*storagepb.DeleteResponse, error) {
	s.mu.Lock()
	defer s.mu.Unlock()
	s.touch(r.Key)
	delete(s.data, r.Key)
	return &storagepb.DeleteResponse{Success: true}, nil
}
func (s *c14cfgStub) Exists(_ context.Context, r *storagepb.ExistsRequest) (*storagepb.ExistsResponse, error) {
	s.mu.Lock()
	defer s.mu.Unlock()
	s.touch(r.Key)
	_, ok := s.data[r.Key]
	return &storagepb.ExistsResponse{Exists: ok}, nil
}
func (s *c14cfgStub) has(k string) bool {
	s.mu.Lock()
	defer s.mu.Unlock()
	_, ok := s.data[k]
	return ok
}
func (s *c14cfgStub) wasTouched(k string) bool {
	s.mu.Lock()
	defer s.mu.Unlock()
	return s.touched[k]
}

// ---- configuration classes

type c14cfgClass struct {
	Name          string
	Redis, Remote bool
	JSON          bool
	CommonCache   map[string]bool // categories whose cache tier is one store for both nodes
	Persisted     map[string]bool
	CommonPersist bool // both nodes talk to the same persistent store
	PersistFlag   bool // persistence.enabled=true (the shipped default) although the class is not the json class
	SkipReach     bool // do not judge what reached a durable tier (only behaviour)
}

func c14cfgSet(cats ...string) map[string]bool {
	m := map[string]bool{}
	for _, c := range cats {
		m[c] = true
	}
	return m
}

func c14cfgClasses() []c14cfgClass {
	pers := c14cfgSet("persistent", "sharedpersistent")
	return []c14cfgClass{
		{Name: "memory", CommonCache: c14cfgSet(), Persisted: c14cfgSet()},
		{Name: "json", JSON: true, CommonCache: c14cfgSet(), Persisted: pers},
		{Name: "redis", Redis: true, CommonCache: c14cfgSet(c14cfgCats...), Persisted: c14cfgSet()},
		// Redis cluster mode with the persistence section left at its shipped default: still no
		// per-node durable tier (a private file behind a shared cache would resurrect what
		// another node deleted / overwrote)
		{Name: "redis+persistence-flag", Redis: true, PersistFlag: true, SkipReach: true, CommonCache: c14cfgSet(c14cfgCats...), Persisted: c14cfgSet()},
		{Name: "remote", Remote: true, CommonCache: c14cfgSet(), Persisted: pers, CommonPersist: true},
		{Name: "remote+redis", Remote: true, Redis: true, CommonCache: c14cfgSet("shared", "sharedpersistent"), Persisted: pers, CommonPersist: true},
	}
}

func (c c14cfgClass) peerSees(cat string) bool {
	return c.CommonCache[cat] || (c.Persisted[cat] && c.CommonPersist)
}

type c14cfgEnv struct {
	t     *testing.T
	run   *vk.Run
	class c14cfgClass
	ctx   context.Context
	stub  *c14cfgStub
	mr    *miniredis.Miniredis
	cfgs  [2]*Config
	nodes [2]storage.FullStorage
}

func (e *c14cfgEnv) mkNode(cfg *Config) storage.FullStorage {
	st, err := createStorage(storage.NewStorageFactory(e.ctx), cfg)
	if err != nil {
		e.t.Fatalf("c14: createStorage(%s): %v", e.class.Name, err)
	}
	fs, ok := storage.AsFullStorage(st)
	if !ok {
		e.t.Fatalf("c14: storage of class %s is not a FullStorage", e.class.Name)
	}
	return fs
}

func c14cfgGet(n storage.FullStorage, key string) (val string, found bool, err error) {
	v, err := n.Get(key)
	if err == nil {
		return fmt.Sprint(v), true, nil
	}
	if errors.Is(err, types.ErrKeyNotFound) {
		return "", false, nil
	}
	return "", false, err
}

func c14cfgList(n storage.FullStorage, key string) (map[string]bool, error) {
	l, err := n.GetList(key)
	if err != nil {
		if errors.Is(err, types.ErrKeyNotFound) {
			return map[string]bool{}, nil
		}
		return nil, err
	}
	m := map[string]bool{}
	for _, v := range l {
		m[fmt.Sprint(v)] = true
	}
	return m, nil
}

// persistedHas reports whether key is in the persistent tier node n writes to.
func (e *c14cfgEnv) persistedHas(n int, key string) (bool, bool) {
	if e.class.SkipReach {
		return false, false
	}
	if e.stub != nil {
		return e.stub.has(key), true
	}
	if g, ok := e.nodes[n].(interface {
		GetPersistentStorage() types.PersistentStorage
	}); ok && g.GetPersistentStorage() != nil {
		ok2, err := g.GetPersistentStorage().Exists(key)
		return ok2, err == nil
	}
	return false, false
}

func (e *c14cfgEnv) viol(cat, fault string, detail map[string]any) {
	detail["class"] = e.class.Name
	detail["category"] = cat
	e.run.Violation(fmt.Sprintf("C14:config|class=%s|category=%s|fault=%s", e.class.Name, cat, fault), detail)
}

// harnessErr: an operation the scenario needs failed (not a verdict)
func (e *c14cfgEnv) harnessErr(what string, err error) bool {
	if err != nil {
		e.run.Count("operation_errors", 1)
		e.run.Observe("last_operation_error", what+": "+err.Error())
		return true
	}
	return false
}

func (e *c14cfgEnv) checkPrefix(cat, prefix, tag string) {
	A, B := e.nodes[0], e.nodes[1]
	sees := e.class.peerSees(cat)
	common := e.class.CommonCache[cat]
	k := func(s string) string { return prefix + "c14cfg-" + tag + "-" + s }
	e.run.Eval(1)
	e.run.Distinct(e.class.Name + "|" + prefix)

	// 1. write on A, read on B
	k1 := k("w")
	if e.harnessErr("A.Set", A.Set(k1, "from-A", time.Minute)) {
		return
	}
	v, found, err := c14cfgGet(B, k1)
	if !e.harnessErr("B.Get", err) {
		e.run.Count("peer_reads", 1)
		switch {
		case sees && (!found || v != "from-A"):
			e.viol(cat, "peer-cannot-see-write", map[string]any{"key": k1, "peer_found": found, "peer_value": v})
		case !sees && found:
			e.viol(cat, "peer-sees-node-local-write", map[string]any{"key": k1, "peer_value": v})
		}
		if sees {
			e.run.Count("visible_expected", 1)
		} else {
			e.run.Count("hidden_expected", 1)
		}
	}
	if ex, err := B.Exists(k1); !e.harnessErr("B.Exists", err) && ex != sees {
		e.viol(cat, "peer-exists-wrong", map[string]any{"key": k1, "exists_on_peer": ex, "expected": sees})
	}
	// A itself reads its write
	if v, found, err := c14cfgGet(A, k1); !e.harnessErr("A.Get", err) && (!found || v != "from-A") {
		e.viol(cat, "writer-cannot-read-own-write", map[string]any{"key": k1, "found": found, "value": v})
	}
	// persistence reach
	if has, ok := e.persistedHas(0, k1); ok {
		e.run.Count("persist_reach_checked", 1)
		if e.class.Persisted[cat] && !has {
			e.viol(cat, "persisted-key-not-in-persistent-tier", map[string]any{"key": k1})
		}
		if !e.class.Persisted[cat] && (has || (e.stub != nil && e.stub.wasTouched(k1))) {
			e.viol(cat, "non-persistent-key-reached-persistent-tier", map[string]any{"key": k1, "stored": has})
		}
	}

	// 2. write + delete on A, B (which never read the key) must not find it
	k2 := k("d")
	if !e.harnessErr("A.Set", A.Set(k2, "doomed", time.Minute)) && !e.harnessErr("A.Delete", A.Delete(k2)) {
		if v, found, err := c14cfgGet(B, k2); !e.harnessErr("B.Get", err) && found {
			e.viol(cat, "peer-sees-deleted-key", map[string]any{"key": k2, "peer_value": v})
		}
		if has, ok := e.persistedHas(0, k2); ok && has {
			e.viol(cat, "deleted-key-left-in-persistent-tier", map[string]any{"key": k2})
		}
	}

	// 3. both nodes share the cache tier of this category: overwrite / delete by the peer
	if common {
		k3 := k("x")
		if !e.harnessErr("A.Set", A.Set(k3, "v1-A", time.Minute)) {
			if v, found, err := c14cfgGet(B, k3); !e.harnessErr("B.Get", err) && (!found || v != "v1-A") {
				e.viol(cat, "peer-cannot-see-write", map[string]any{"key": k3, "peer_found": found, "peer_value": v})
			}
			if !e.harnessErr("B.Set", B.Set(k3, "v2-B", time.Minute)) {
				if v, found, err := c14cfgGet(A, k3); !e.harnessErr("A.Get", err) && (!found || v != "v2-B") {
					e.viol(cat, "peer-overwrite-not-seen", map[string]any{"key": k3, "found": found, "value": v})
				}
			}
			if !e.harnessErr("B.Delete", B.Delete(k3)) {
				if v, found, err := c14cfgGet(A, k3); !e.harnessErr("A.Get", err) && found {
					e.viol(cat, "peer-delete-not-seen", map[string]any{"key": k3, "value": v})
				}
			}
		}
	}

	// 3b. the shared-cache entry is lost (TTL expiry / eviction / Redis restart) after the peer
	// overwrote / deleted the key: the writer of the OLDER value must not get it back
	if common && e.mr != nil {
		k5 := k("e")
		if !e.harnessErr("A.Set", A.Set(k5, "old-A", time.Minute)) && !e.harnessErr("B.Set", B.Set(k5, "new-B", time.Minute)) {
			e.mr.Del(k5)
			e.run.Count("cache_loss_probes", 1)
			if v, found, err := c14cfgGet(A, k5); !e.harnessErr("A.Get", err) {
				if found && v != "new-B" {
					e.viol(cat, "older-value-after-shared-cache-loss", map[string]any{"key": k5, "value": v})
				}
				if !found && e.class.Persisted[cat] {
					e.viol(cat, "persisted-value-lost-with-shared-cache", map[string]any{"key": k5})
				}
			}
		}
		k6 := k("f")
		if !e.harnessErr("A.Set", A.Set(k6, "old-A", time.Minute)) && !e.harnessErr("B.Delete", B.Delete(k6)) {
			e.mr.Del(k6)
			if v, found, err := c14cfgGet(A, k6); !e.harnessErr("A.Get", err) && found {
				e.viol(cat, "deleted-value-back-after-shared-cache-loss", map[string]any{"key": k6, "value": v})
			}
			if ex, err := A.Exists(k6); !e.harnessErr("A.Exists", err) && ex {
				e.viol(cat, "deleted-value-back-after-shared-cache-loss", map[string]any{"key": k6, "exists": true})
			}
		}
	}

	// 4. index list
	k4 := k("l")
	want := []string{"m1", "m2"}
	if common {
		// fed from both nodes
		if e.harnessErr("A.AppendToList", A.AppendToList(k4, "m1")) || e.harnessErr("B.AppendToList", B.AppendToList(k4, "m2")) {
			return
		}
	} else {
		if e.harnessErr("A.AppendToList", A.AppendToList(k4, "m1")) || e.harnessErr("A.AppendToList", A.AppendToList(k4, "m2")) {
			return
		}
	}
	for i, n := range []storage.FullStorage{A, B} {
		have, err := c14cfgList(n, k4)
		if e.harnessErr("GetList", err) {
			continue
		}
		e.run.Count("list_reads", 1)
		expectAll := i == 0 || sees
		var missing []string
		for _, m := range want {
			if !have[m] {
				missing = append(missing, m)
			}
		}
		switch {
		case expectAll && len(missing) > 0:
			e.viol(cat, "list-member-missing", map[string]any{"key": k4, "node": i, "missing": missing, "have": c14cfgKeys(have), "fed_from_both_nodes": common})
		case !expectAll && len(have) > 0:
			e.viol(cat, "peer-sees-node-local-list", map[string]any{"key": k4, "have": c14cfgKeys(have)})
		}
	}
	if has, ok := e.persistedHas(0, k4); ok && !e.class.Persisted[cat] && (has || (e.stub != nil && e.stub.wasTouched(k4))) {
		e.viol(cat, "non-persistent-key-reached-persistent-tier", map[string]any{"key": k4, "op": "AppendToList"})
	}
}

func c14cfgKeys(m map[string]bool) []string {
	var out []string
	for k := range m {
		out = append(out, k)
	}
	sort.Strings(out)
	return out
}

func TestVerifC14ConfigRouting(t *testing.T) {
	vk.Quiet()
	run := vk.Start(t, "C14", "config-routing")
	defer run.Finish()
	run.Rule("case = (server configuration class memory/json/redis/redis+persistence-flag/remote/remote+redis built by the real createStorage, key prefix of DefaultConfig [all 36], " +
		"check: write-then-peer-read, write+delete-then-peer-read, peer overwrite/delete, index list fed from the nodes, what reached the persistent tier); " +
		"two nodes per class (+ a node restarted on node A's file in the json class); expected visibility = the tier holding the category is common to both nodes")
	r := run.Rand("keys")
	for _, cl := range c14cfgClasses() {
		func() {
			ctx, cancel := context.WithCancel(context.Background())
			defer cancel()
			e := &c14cfgEnv{t: t, run: run, class: cl, ctx: ctx}
			run.Case("class="+cl.Name, nil)
			var mr *miniredis.Miniredis
			if cl.Redis {
				var err error
				if mr, err = miniredis.Run(); err != nil {
					t.Fatalf("c14: miniredis: %v", err)
				}
				defer mr.Close()
				e.mr = mr
			}
			addr := ""
			if cl.Remote {
				lis, err := net.Listen("tcp", "127.0.0.1:0")
				if err != nil {
					t.Fatalf("c14: listen: %v", err)
				}
				e.stub = &c14cfgStub{data: map[string][]byte{}, touched: map[string]bool{}}
				gs := grpc.NewServer()
				storagepb.RegisterStorageServiceServer(gs, e.stub)
				go gs.Serve(lis)
				defer gs.Stop()
				addr = lis.Addr().String()
			}
			dir := t.TempDir()
			for n := 0; n < 2; n++ {
				cfg := &Config{}
				if cl.Redis {
					cfg.Redis.Enabled = true
					cfg.Redis.Addr = mr.Addr()
				}
				if cl.Remote {
					cfg.Storage.Enabled = true
					cfg.Storage.URL = addr
					cfg.Storage.Timeout = 2
				}
				if cl.JSON || cl.PersistFlag {
					cfg.Persistence.Enabled = true
					cfg.Persistence.File = filepath.Join(dir, fmt.Sprintf("node%d.json", n))
				}
				e.cfgs[n] = cfg
				e.nodes[n] = e.mkNode(cfg)
			}
			tag := fmt.Sprintf("%04x", r.Intn(1<<16))
			for _, cat := range c14cfgCats {
				for _, p := range c14cfgPrefixes[cat] {
					e.checkPrefix(cat, p, tag)
				}
			}
			run.Count("classes", 1)
			// json: a node restarted on node A's file sees exactly the persisted categories
			if cl.JSON {
				keys := map[string]string{}
				for _, cat := range c14cfgCats {
					k := c14cfgPrefixes[cat][0] + "c14cfg-" + tag + "-restart"
					keys[cat] = k
					if e.harnessErr("A.Set", e.nodes[0].Set(k, "kept", time.Minute)) {
						return
					}
				}
				if e.harnessErr("A.Close", e.nodes[0].Close()) {
					return
				}
				C := e.mkNode(e.cfgs[0])
				for _, cat := range c14cfgCats {
					v, found, err := c14cfgGet(C, keys[cat])
					if e.harnessErr("C.Get", err) {
						continue
					}
					run.Count("restart_reads", 1)
					if cl.Persisted[cat] && (!found || v != "kept") {
						e.viol(cat, "lost-on-restart", map[string]any{"key": keys[cat], "found": found, "value": v})
					}
					if !cl.Persisted[cat] && found {
						e.viol(cat, "non-persistent-key-survived-restart", map[string]any{"key": keys[cat], "value": v})
					}
				}
				_ = C.Close()
			} else {
				_ = e.nodes[0].Close()
			}
			_ = e.nodes[1].Close()
		}()
	}
	run.Floor("classes", 6)
	run.Floor("cache_loss_probes", 60)
	run.Floor("peer_reads", 5*36)
	run.Floor("visible_expected", 50)
	run.Floor("hidden_expected", 50)
	run.Floor("list_reads", 5*36*2-10)
	run.Floor("persist_reach_checked", 3*36)
	run.Floor("restart_reads", 4)
	if n := run.Counter("operation_errors"); n > 0 {
		run.Floor("no_operation_errors", 1) // an operation the scenario needs failed: inconclusive
	}
}
