//go:build verif && verif_c10

package crossnode

import (
	"context"
	"encoding/binary"
	"fmt"
	"io"
	"math/rand"
	"net"
	"runtime"
	"sync"
	"sync/atomic"
	"testing"
	"time"

	"tunnox-core/internal/core/storage"
	vk "tunnox-core/internal/verifkit"
)

// Monitor (h) "poolreuse": life cycle of pooled cross-node connections. Many tunnels
// are taken from the real Pool (Pool.Get -> NodeConnectionPool -> Conn) and released to
// it; every tunnel runs the stream oracle both ways over whatever connection the pool
// handed out (position-coded bytes, injected foreign / non-data frames, CloseWrite one
// way, Close the other). Tunnel endings:
//   exchange + single Release,
//   exchange + concurrent Release storm (2-4 goroutines behind a spin barrier, repeated),
//   reject: the peer sends valid data and then a frame the decoder must reject (length
//           field above MaxFrameSize, with its complete announced payload); the owner
//           closes the stream and releases the connection.
// Audits at quiescent points: a *Conn returned by Pool.Get is not owned by another live
// tunnel; the idle list of the node pool holds no connection twice.

type c10PT struct {
	conn    *Conn
	peerTCP *net.TCPConn
	idStr   string
	id      [16]byte
	sA, sB  *FrameStream
	after   string // how the previous tunnel on this *Conn ended ("new" = first use)
}

type c10PoolRig struct {
	t        *testing.T
	run      *vk.Run
	ctx      context.Context
	pool     *Pool
	peerSide *c10PoolPeer
	owned    map[*Conn]string // live tunnels
	lastEnd  map[*Conn]string
	seq      int
	mk       func() *Pool
	// idle pooled connections whose peer end the harness has closed, with the FIN
	// confirmed as received by the pooled socket (value: local address)
	peerClosed map[*Conn]string
}

func (g *c10PoolRig) nodePool() *NodeConnectionPool {
	g.pool.poolsLock.RLock()
	defer g.pool.poolsLock.RUnlock()
	return g.pool.pools["c10-node-b"]
}

// auditIdle inspects the idle list at a quiescent point (no Get/Put in flight) and
// returns how often the most frequent connection occurs in it.
func (g *c10PoolRig) auditIdle() (maxDup int, idle int) {
	np := g.nodePool()
	if np == nil {
		return 0, 0
	}
	var drained []*Conn
	for {
		select {
		case c := <-np.conns:
			drained = append(drained, c)
			continue
		default:
		}
		break
	}
	seen := map[*Conn]int{}
	for _, c := range drained {
		seen[c]++
		if seen[c] > maxDup {
			maxDup = seen[c]
		}
		np.conns <- c
	}
	return maxDup, len(drained)
}

// acquire takes a connection for a new tunnel and audits its ownership.
func (g *c10PoolRig) acquire(r *rand.Rand) *c10PT {
	conn := c10PoolGet(g.t, g.run, g.ctx, &g.pool, g.mk)
	g.seq++
	idStr := c10ClientID([]string{"tcp", "udp", "socks5"}[r.Intn(3)], int64(1727400000)*1e9+r.Int63n(int64(1e17)), 1024+r.Intn(60000))
	pt := &c10PT{conn: conn, idStr: idStr, id: c10WireID(g.t, idStr), after: g.lastEnd[conn]}
	if pt.after == "" {
		pt.after = "new"
	}
	if la, stale := g.peerClosed[conn]; stale {
		// Pool.Get handed out a connection whose peer end was closed -- and the FIN seen by
		// this very socket -- before Get was called. Nothing written on it can arrive. The
		// property allows an error; it does not allow the stream to accept the bytes.
		delete(g.peerClosed, conn)
		g.run.Count("peer_closed_conn_handed_out_by_get", 1)
		conn.SetDeadline(time.Now().Add(c10Watchdog))
		fs := NewFrameStream(conn, pt.id)
		data := vk.Pattern(uint64(g.seq), 0, 1+r.Intn(3000))
		n, werr := fs.Write(data)
		if werr == nil && n == len(data) {
			g.run.Violation("C10:pool|bytes-accepted-on-conn-closed-by-peer", map[string]any{"seed": g.run.Seed, "tunnel_seq": g.seq, "tunnel_id": idStr,
				"local_addr": la, "write_len": len(data), "write_result": "n == len, err == nil",
				"history": "Get, both-way exchange, Release; peer closed its end of the idle connection; end-of-stream observed on the pooled socket; next Pool.Get returned this connection"})
		} else {
			g.run.Count("peer_closed_conn_write_failed", 1)
		}
		g.pool.CloseConn(conn)
		delete(g.lastEnd, conn)
		return nil
	}
	if other, dup := g.owned[conn]; dup {
		g.run.Violation("C10:pool|conn-shared", map[string]any{"seed": g.run.Seed, "tunnel_seq": g.seq, "new_tunnel": idStr, "live_tunnel": other,
			"local_addr": fmt.Sprint(conn.LocalAddr()), "previous_ending_on_this_conn": pt.after})
		return nil
	}
	g.owned[conn] = idStr
	pt.peerTCP = g.peerSide.find(conn.LocalAddr().String())
	if pt.peerTCP == nil {
		g.t.Fatalf("c10: accepted end of pooled connection %v not found", conn.LocalAddr())
	}
	dl := time.Now().Add(c10Watchdog)
	conn.SetDeadline(dl)
	pt.peerTCP.SetDeadline(dl)
	pt.sA = NewFrameStream(conn, pt.id)
	pt.sB = NewFrameStream(NewConn(g.ctx, "c10-node-a", pt.peerTCP, nil), pt.id)
	g.run.Count("tunnels_started", 1)
	g.run.Count("tunnels_on_conn_after_"+pt.after, 1)
	return pt
}

// finish records the ending, forgets ownership and drops the peer socket of a
// connection the pool side has closed.
func (g *c10PoolRig) finish(pt *c10PT, ending string) {
	delete(g.owned, pt.conn)
	g.lastEnd[pt.conn] = ending
	if pt.conn.GetTCPConn() == nil {
		g.peerSide.mu.Lock()
		delete(g.peerSide.byRA, pt.peerTCP.RemoteAddr().String())
		g.peerSide.mu.Unlock()
		pt.peerTCP.Close()
		delete(g.lastEnd, pt.conn)
		g.run.Count("conns_closed_by_pool_side", 1)
	} else {
		pt.conn.SetDeadline(time.Time{})
	}
}

// peerClosesIdle: the peer node drops an idle pooled connection (idle timeout, restart).
// The harness then waits -- on the pooled socket itself, which is idle and carries no
// data -- until the end-of-stream has arrived there, so that what follows does not
// depend on how long the FIN takes. It reports false if that could not be established.
func (g *c10PoolRig) peerClosesIdle(pt *c10PT) bool {
	tcp := pt.conn.GetTCPConn()
	if tcp == nil {
		return false
	}
	la := fmt.Sprint(pt.conn.LocalAddr())
	g.peerSide.mu.Lock()
	delete(g.peerSide.byRA, pt.peerTCP.RemoteAddr().String())
	g.peerSide.mu.Unlock()
	pt.peerTCP.Close()
	tcp.SetReadDeadline(time.Now().Add(c10Watchdog))
	var one [1]byte
	n, err := tcp.Read(one[:])
	tcp.SetReadDeadline(time.Time{})
	if n != 0 || err != io.EOF {
		// not the expected end-of-stream (watchdog, reset, stray byte): take the
		// connection out of the experiment
		g.run.Count("peer_close_not_confirmed", 1)
		g.pool.CloseConn(pt.conn)
		delete(g.lastEnd, pt.conn)
		return false
	}
	g.peerClosed[pt.conn] = la
	g.run.Count("idle_conns_closed_by_peer_fin_confirmed", 1)
	return true
}

// sweepPeerClosed counts the peer-closed connections the pool has meanwhile discarded.
func (g *c10PoolRig) sweepPeerClosed() {
	for c := range g.peerClosed {
		if c.GetTCPConn() == nil {
			delete(g.peerClosed, c)
			delete(g.lastEnd, c)
			g.run.Count("peer_closed_conns_discarded_by_pool", 1)
		}
	}
}

// exchange runs the stream oracle both ways on a tunnel: A->B ends with CloseWrite,
// then B->A ends with Close. It returns false when a violation was recorded or the
// watchdog fired.
func (g *c10PoolRig) exchange(pt *c10PT, r *rand.Rand) bool {
	var foreign [16]byte
	r.Read(foreign[:])
	ab := c10GenDir(r, pt.id, foreign, "closewrite")
	ba := c10GenDir(r, pt.id, foreign, "close")
	ab.PostEOF, ba.PostEOF = false, false // nothing may stay unread on a connection that goes back to the pool
	var o1, o2 c10DirOutcome
	lim := func(d *c10Dir) int { w, _ := d.totals(); return w }
	var wg sync.WaitGroup
	wg.Add(1)
	go func() {
		defer wg.Done()
		tcpA := pt.conn.GetTCPConn()
		c10RunWriter(pt.sA, tcpA, pt.id, ab, &o1.w)
		c10RunReader(pt.sA, ba, lim(ba), &o2.r)
		if o2.r.err != io.EOF {
			// this connection will not go back to the pool (the caller destroys it): keep
			// the peer's writer from blocking on a socket nobody reads any more
			go io.Copy(io.Discard, tcpA)
		}
	}()
	c10RunReader(pt.sB, ab, lim(ab), &o1.r)
	if o1.r.err != io.EOF {
		go io.Copy(io.Discard, pt.peerTCP)
	}
	c10RunWriter(pt.sB, pt.peerTCP, pt.id, ba, &o2.w)
	wg.Wait()
	c := &c10Case{Index: g.seq, Mode: "pooled-tunnel-after-" + pt.after, OwnStr: pt.idStr, IDShape: "client", Own: pt.id, Foreign: foreign, AB: ab, BA: ba}
	ok := true
	for _, d := range []struct {
		name string
		dir  *c10Dir
		o    *c10DirOutcome
	}{{"A->B", ab, &o1}, {"B->A", ba, &o2}} {
		if d.o.w.timeout || d.o.r.timeout {
			g.run.Count("watchdog", 1)
			return false
		}
		class, det := c10Judge(d.dir, &d.o.w, &d.o.r)
		g.run.Count("bytes_compared", int64(len(d.o.r.got)))
		if class == "" {
			g.run.Count("directions_ok", 1)
			continue
		}
		ok = false
		det["direction"] = d.name
		det["scenario"] = c.detail(g.run.Seed)
		det["previous_ending_on_this_conn"] = pt.after
		g.run.Violation("C10:poolreuse|"+class+"|after="+pt.after, det)
	}
	return ok
}

// reject: the peer sends valid data, then a frame with an over-limit length field and
// its complete payload; the local owner reads until the stream reports the problem,
// closes the stream and releases the connection.
func (g *c10PoolRig) reject(pt *c10PT, r *rand.Rand) bool {
	ba := &c10Dir{Ending: "none", DataSeed: r.Uint64(), ReadSeed: r.Int63(), BufClass: "mixed",
		Ops: []c10Op{{Write: 1 + r.Intn(90000)}}}
	var o c10DirOutcome
	c10RunWriter(pt.sB, pt.peerTCP, pt.id, ba, &o.w)
	l := MaxFrameSize + 1 + r.Intn(8192)
	for (l-1)%FrameHeaderSize == 0 {
		l++
	}
	bad := make([]byte, FrameHeaderSize+l)
	copy(bad, pt.id[:])
	bad[16] = FrameTypeData
	binary.BigEndian.PutUint32(bad[17:21], uint32(l))
	fill := []string{"zeros", "random", "marker"}[r.Intn(3)]
	switch fill {
	case "random":
		r.Read(bad[FrameHeaderSize:])
	case "marker":
		copy(bad[FrameHeaderSize:], c10Payload("foreign-data", l, 7))
	}
	if _, err := pt.peerTCP.Write(bad); err != nil {
		g.run.Count("watchdog", 1)
		return false
	}
	c10RunReader(pt.sA, ba, len(o.w.want), &o.r)
	if o.w.timeout || o.r.timeout {
		g.run.Count("watchdog", 1)
		return false
	}
	g.run.Count("rejected_frame_cases", 1)
	g.run.Count("rejected_fill_"+fill, 1)
	// judged with the prefix rule: what was delivered is a prefix of the valid data,
	// the stream ended with an error or end-of-stream, nothing of the bad frame came out
	ba.Ending = "abrupt"
	class, det := c10Judge(ba, &o.w, &o.r)
	if class != "" {
		det["bad_frame_length_field"], det["bad_frame_fill"], det["tunnel_id"] = l, fill, pt.idStr
		g.run.Violation("C10:poolreuse|oversize-frame|"+class, det)
		return false
	}
	pt.sA.Close()
	return true
}

// storm: n goroutines behind a spin barrier call Release on the same in-use conn.
// It reports whether at least two of the calls overlapped.
func c10ReleaseStorm(c *Conn, n int) (overlapped bool) {
	var ready, start, inside, maxInside int32
	var wg sync.WaitGroup
	wg.Add(n)
	for i := 0; i < n; i++ {
		go func() {
			defer wg.Done()
			atomic.AddInt32(&ready, 1)
			// busy spin (all releasers are on a P when the flag flips); yield now and then
			// so that the barrier also works when fewer Ps than releasers are available
			for spins := 1; atomic.LoadInt32(&start) == 0; spins++ {
				if spins%(1<<14) == 0 {
					runtime.Gosched()
				}
			}
			k := atomic.AddInt32(&inside, 1)
			for {
				m := atomic.LoadInt32(&maxInside)
				if k <= m || atomic.CompareAndSwapInt32(&maxInside, m, k) {
					break
				}
			}
			c.Release()
			atomic.AddInt32(&inside, -1)
		}()
	}
	for atomic.LoadInt32(&ready) != int32(n) {
		runtime.Gosched()
	}
	atomic.StoreInt32(&start, 1)
	wg.Wait()
	return atomic.LoadInt32(&maxInside) >= 2
}

func TestVerifC10PoolReuse(t *testing.T) {
	vk.Quiet()
	run := vk.Start(t, "C10", "poolreuse")
	defer run.Finish()
	run.Rule("real Pool/NodeConnectionPool/Conn/FrameStream against a loopback listener run by the harness; rounds of 1-2 simultaneously live tunnels taken with Pool.Get, each running the both-way stream script (seeded writes, injected foreign / non-data frames, CloseWrite then Close) or ending after an over-limit frame from the peer (complete payload: zeros / random / marker), or the peer closes the idle pooled connection after a clean tunnel (end-of-stream confirmed on the pooled socket before the next Get: then no Write on that connection may be accepted); released by a single Release, by a storm of 2-4 concurrent Release calls (spin barrier), or by a storm series (re-take from the idle list, storm again); later tunnels run over whatever the pool hands out; audits: *Conn owned by <= 1 live tunnel, idle list without duplicates; distinct = (ending, release style, previous ending on the conn, pair/single)")
	r := run.Rand("gen")
	ctx, cancel := context.WithCancel(context.Background())
	defer cancel()
	peerSide := c10NewPoolPeer(t)
	defer peerSide.closeAll()
	st := storage.NewMemoryStorage(ctx)
	if err := st.Set("tunnox:node:c10-node-b:addr", peerSide.ln.Addr().String(), time.Hour); err != nil {
		t.Fatalf("c10: storage set: %v", err)
	}
	// MaxConns far above the need, fresh-pool fallback in c10PoolGet: see TestVerifC10Pooled
	mkPool := func() *Pool {
		return NewPool(ctx, st, "c10-node-a", PoolConfig{MinConns: 0, MaxConns: 1 << 15, IdleTimeout: time.Hour, DialTimeout: 5 * time.Second})
	}
	g := &c10PoolRig{t: t, run: run, ctx: ctx, pool: mkPool(), mk: mkPool, peerSide: peerSide, owned: map[*Conn]string{}, lastEnd: map[*Conn]string{}, peerClosed: map[*Conn]string{}}
	defer func() { g.pool.Close() }()

	rounds := run.Pick(70, 900)
	stormSeries := run.Pick(1200, 6000)
	stop := func() bool { return run.Violations() >= 8 || run.Counter("watchdog") >= 3 }
	// storm series: take the idle connection out again the way Get does (without its 1 ms
	// probe; every 40th time through the real Pool.Get) and storm again
	series := func(round int) {
		np := g.nodePool()
		for k := 0; k < stormSeries && !stop(); k++ {
			var c *Conn
			if k%40 == 0 {
				c = c10PoolGet(t, run, ctx, &g.pool, g.mk)
				np = g.nodePool()
			} else if np != nil {
				select {
				case c = <-np.conns:
					c.MarkInUse()
					atomic.AddInt32(&np.inUse, 1)
				default:
				}
			}
			if c == nil {
				break
			}
			n := 2 + r.Intn(3)
			if c10ReleaseStorm(c, n) {
				run.Count("release_storms_with_overlapping_calls", 1)
			}
			run.Count("release_storms", 1)
			if dup, _ := g.auditIdle(); dup > 1 {
				run.Violation("C10:pool|idle-duplicate", map[string]any{"seed": run.Seed, "round": round, "storm_in_series": k, "release_style": "storm-series",
					"concurrent_release_calls": n, "occurrences_in_idle_list": dup, "local_addr": fmt.Sprint(c.LocalAddr())})
				// what the duplicate means for users of the pool
				gctx, gcancel := context.WithTimeout(ctx, 10*time.Second)
				c1, e1 := g.pool.Get(gctx, "c10-node-b")
				c2, e2 := g.pool.Get(gctx, "c10-node-b")
				gcancel()
				if e1 == nil && e2 == nil && c1 == c2 {
					run.Violation("C10:pool|conn-shared", map[string]any{"seed": run.Seed, "round": round, "storm_in_series": k,
						"note": "two consecutive Pool.Get calls without a Release in between returned the same *Conn", "local_addr": fmt.Sprint(c1.LocalAddr())})
				}
				for _, cx := range []*Conn{c1, c2} {
					if cx != nil {
						g.pool.CloseConn(cx)
					}
				}
				break
			}
		}
	}
	afterReject := false
	for round := 0; round < rounds && !stop(); round++ {
		kind := []string{"exchange", "exchange", "reject", "pair", "exchange-storm-series", "peer-closes-idle"}[r.Intn(6)]
		if round%7 == 3 {
			kind = "reject"
		}
		if round%7 == 5 {
			kind = "peer-closes-idle"
		}
		run.Case(fmt.Sprintf("poolreuse|%d|%s", round, kind), map[string]any{"seed": run.Seed, "round": round})
		var live []*c10PT
		nt := 1
		if kind == "pair" {
			nt = 2
		}
		for i := 0; i < nt; i++ {
			if pt := g.acquire(r); pt != nil {
				live = append(live, pt)
			}
		}
		if kind == "peer-closes-idle" && len(live) == 1 {
			// use and release a connection, let the peer close it while it is idle, then
			// take connections until the pool has either discarded it or handed it out
			pt := live[0]
			live = nil
			ok := g.exchange(pt, r)
			run.Eval(1)
			if !ok {
				g.pool.CloseConn(pt.conn)
				pt.peerTCP.Close()
				g.finish(pt, "exchange-failed")
				continue
			}
			pt.conn.Release()
			g.finish(pt, "exchange")
			if g.peerClosesIdle(pt) {
				for k := 0; k < 6 && len(g.peerClosed) > 0; k++ {
					if nt := g.acquire(r); nt != nil {
						live = append(live, nt)
					}
					g.sweepPeerClosed()
				}
				run.Count("tunnels_started_after_peer_closed_an_idle_conn", int64(len(live)))
			}
			run.Distinct(fmt.Sprintf("peer-closes-idle|later_tunnels=%d", len(live)))
		}
		if afterReject {
			run.Count("tunnels_started_right_after_a_rejected_frame_release", int64(len(live)))
			afterReject = false
		}
		for _, pt := range live {
			ending, style := "exchange", "single"
			ok := false
			if kind == "reject" {
				ending = "reject"
				ok = g.reject(pt, r)
				afterReject = true
			} else {
				ok = g.exchange(pt, r)
			}
			run.Eval(1)
			if !ok {
				// do not let a connection in unknown state back into the pool
				g.pool.CloseConn(pt.conn)
				pt.peerTCP.Close()
				g.finish(pt, ending+"-failed")
				continue
			}
			// release
			releasers := 1
			switch {
			case kind == "exchange-storm-series":
				style = "storm-series"
			case r.Intn(2) == 0:
				style = "storm"
			}
			if style == "single" {
				if r.Intn(2) == 0 {
					pt.conn.Release()
				} else {
					g.pool.Put(pt.conn)
					style = "single-put"
				}
			} else {
				releasers = 2 + r.Intn(3)
				if c10ReleaseStorm(pt.conn, releasers) {
					run.Count("release_storms_with_overlapping_calls", 1)
				}
				run.Count("release_storms", 1)
			}
			g.finish(pt, ending)
			run.Distinct(fmt.Sprintf("%s|%s|after=%s|%s", ending, style, pt.after, kind))
			dup, idle := g.auditIdle()
			run.Count("idle_list_audits", 1)
			run.Max("max_idle_conns", int64(idle))
			if dup > 1 {
				run.Violation("C10:pool|idle-duplicate", map[string]any{"seed": run.Seed, "round": round, "ending": ending, "release_style": style,
					"concurrent_release_calls": releasers, "occurrences_in_idle_list": dup, "local_addr": fmt.Sprint(pt.conn.LocalAddr())})
				continue
			}
			if style != "storm-series" || pt.conn.GetTCPConn() == nil {
				continue
			}
			series(round)
		}
	}
	// top-up (bounded by a case count): under heavy machine load few Release calls overlap;
	// keep storming idle connections until the overlap floor is comfortably met
	for extra := 0; extra < 40 && run.Counter("release_storms_with_overlapping_calls") < int64(stormSeries/2) && !stop(); extra++ {
		pt := g.acquire(r)
		if pt == nil {
			continue
		}
		if c10ReleaseStorm(pt.conn, 2+r.Intn(3)) {
			run.Count("release_storms_with_overlapping_calls", 1)
		}
		run.Count("release_storms", 1)
		g.finish(pt, "exchange")
		if dup, _ := g.auditIdle(); dup > 1 {
			run.Violation("C10:pool|idle-duplicate", map[string]any{"seed": run.Seed, "round": "top-up", "release_style": "storm", "occurrences_in_idle_list": dup})
			break
		}
		series(-1 - extra)
		run.Count("storm_topup_series", 1)
	}
	if run.Counter("watchdog") == 0 {
		run.Count("watchdog_free", 1)
	}
	run.Floor("watchdog_free", 1)
	run.Floor("directions_ok", int64(rounds))
	run.Floor("release_storms_with_overlapping_calls", int64(stormSeries/4))
	run.Floor("rejected_frame_cases", int64(rounds/8))
	run.Floor("tunnels_started_right_after_a_rejected_frame_release", int64(rounds/8))
	run.Floor("tunnels_on_conn_after_exchange", int64(rounds/4))
	run.Floor("idle_list_audits", int64(rounds/2))
	run.Floor("idle_conns_closed_by_peer_fin_confirmed", int64(rounds/10))
	run.Floor("tunnels_started_after_peer_closed_an_idle_conn", int64(rounds/10))
}
