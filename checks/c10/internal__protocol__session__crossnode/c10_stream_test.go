//go:build verif && verif_c10

package crossnode

import (
	"bytes"
	"context"
	"encoding/binary"
	"errors"
	"fmt"
	"io"
	"math/rand"
	"net"
	"sort"
	"strings"
	"sync"
	"testing"
	"time"

	vk "tunnox-core/internal/verifkit"
)

// C10 — cross-node frames carry tunnel bytes faithfully and reject bad input.
//
// Monitor (a) "stream": two real FrameStreams over a real loopback *net.TCPConn pair.
// The writer side executes a seeded script of Write calls (0 .. 200 KiB, i.e. up to
// four frames) and, between the writes, raw frames injected on the same TCP
// connection (foreign-tunnel data/EOF/Close, every non-data type byte with the own
// id, zero-length data frames, ids one bit away from the own id, the all-zero id).
// The reader side reads with seeded buffer sizes 1 B .. 128 KiB. Oracle: the bytes
// read are exactly the concatenation of the accepted writes, then io.EOF (Close /
// CloseWrite), or a prefix of them and an error (abrupt TCP close); nothing that was
// injected is ever delivered; nothing is delivered after EOF.
//
// Monitor (d) "tunnelids": the same oracle in the connection-reuse scenario (tunnel 1
// finishes, tunnel 2 starts on the same connection, late frames of tunnel 1 arrive),
// with ids obtained from TunnelIDFromString on id strings of the shapes the product
// generates.

// Socket deadline of one case (<= 3 MiB over loopback). Expiry is never a verdict: the
// case is counted under "watchdog" and the run becomes inconclusive.
const c10Watchdog = 25 * time.Second

// every injected payload (when non-empty) starts with this marker followed by the
// kind index, so that a leaked frame can be attributed. Own data is vk.Pattern
// output; an accidental 7-byte match is out of the question.
var c10Magic = []byte{0xF0, 'I', 'N', 'J', 0x0F, 0xD7}

var c10Kinds = []string{
	"foreign-data",      // 0
	"foreign-eof",       // 1
	"foreign-close",     // 2
	"foreign-othertype", // 3
	"own-nondata-type",  // 4  every type byte except Data/Close/EOF, own id
	"own-zero-data",     // 5
	"foreign-zero-data", // 6
	"near-id-data",      // 7  own id with one bit flipped
	"zero-id-frame",     // 8  all-zero id (used by command/DNS/HTTP responses)
	"after-eof-data",    // 9  own id, sent after the EOF/Close frame
	"residual-data",     // 10 (reuse scenario) late data frame of the previous tunnel
	"residual-close",    // 11 (reuse scenario) late Close frame of the previous tunnel
}

func c10KindIdx(name string) byte {
	for i, k := range c10Kinds {
		if k == name {
			return byte(i)
		}
	}
	panic("c10: unknown kind " + name)
}

type c10Frame struct {
	Kind string
	ID   [16]byte
	Type byte
	Len  int
}

func c10Payload(kind string, n int, salt uint64) []byte {
	if n == 0 {
		return nil
	}
	p := vk.Pattern(salt^0xC10C10, 0, n)
	if n >= len(c10Magic)+1 {
		copy(p, c10Magic)
		p[len(c10Magic)] = c10KindIdx(kind)
	}
	return p
}

// c10FindMagic returns the kinds whose marker occurs in b.
func c10FindMagic(b []byte) []string {
	seen := map[string]bool{}
	var out []string
	off := 0
	for len(out) < 8 {
		i := bytes.Index(b[off:], c10Magic)
		if i < 0 {
			break
		}
		p := off + i + len(c10Magic)
		if p < len(b) && int(b[p]) < len(c10Kinds) {
			k := c10Kinds[b[p]]
			if !seen[k] {
				seen[k] = true
				out = append(out, k)
			}
		}
		off = off + i + 1
	}
	return out
}

// ---- loopback TCP pair ----

type c10Link struct {
	ta, tb *net.TCPConn
	ca, cb *Conn
	drains sync.WaitGroup
}

// drain discards whatever still arrives on a socket whose stream reader has finished,
// so that the peer's writer can never block on a full socket buffer.
func (l *c10Link) drain(c *net.TCPConn) {
	l.drains.Add(1)
	go func() {
		defer l.drains.Done()
		io.Copy(io.Discard, c)
	}()
}

func c10Listen(t *testing.T) net.Listener {
	ln, err := net.Listen("tcp", "127.0.0.1:0")
	if err != nil {
		t.Fatalf("c10: listen on loopback: %v", err)
	}
	return ln
}

func c10Dial(t *testing.T, ln net.Listener) *c10Link {
	type acc struct {
		c   net.Conn
		err error
	}
	ch := make(chan acc, 1)
	go func() { c, err := ln.Accept(); ch <- acc{c, err} }()
	d, err := net.DialTimeout("tcp", ln.Addr().String(), 10*time.Second)
	if err != nil {
		t.Fatalf("c10: dial loopback: %v", err)
	}
	var a acc
	select {
	case a = <-ch:
	case <-time.After(10 * time.Second):
		t.Fatalf("c10: accept did not return")
	}
	if a.err != nil {
		t.Fatalf("c10: accept: %v", a.err)
	}
	ta, ok1 := d.(*net.TCPConn)
	tb, ok2 := a.c.(*net.TCPConn)
	if !ok1 || !ok2 {
		t.Fatalf("c10: not TCP connections: %T %T", d, a.c)
	}
	dl := time.Now().Add(c10Watchdog)
	ta.SetDeadline(dl)
	tb.SetDeadline(dl)
	ctx := context.Background()
	return &c10Link{ta: ta, tb: tb, ca: NewConn(ctx, "c10-node-b", ta, nil), cb: NewConn(ctx, "c10-node-a", tb, nil)}
}

func (l *c10Link) close() {
	l.ca.Close()
	l.cb.Close()
	l.ta.Close()
	l.tb.Close()
	l.drains.Wait()
}

func c10IsTimeout(err error) bool {
	if err == nil {
		return false
	}
	var ne net.Error
	if errors.As(err, &ne) && ne.Timeout() {
		return true
	}
	return strings.Contains(err.Error(), "i/o timeout")
}

type c10Tracker struct{ answer bool }

func (t c10Tracker) IsTunnelClosed(string) bool { return t.answer }

// ---- one direction of a case ----

type c10Op struct {
	Write  int        // >= 0: Write of that many bytes; -1: inject Frames
	Frames []c10Frame `json:",omitempty"`
}

type c10Dir struct {
	Ops      []c10Op
	Ending   string // closewrite | close | abrupt | abrupt-partial
	PostEOF  bool   // inject an own-id data frame after the EOF/Close frame and read once more
	DataSeed uint64
	BufClass string // tiny | small | large | mixed | frame
	ReadSeed int64
	Partial  [2]int // abrupt-partial: announced length, bytes actually sent
}

func (d *c10Dir) totals() (writes, injected int) {
	for _, op := range d.Ops {
		if op.Write >= 0 {
			writes += op.Write
		}
		for _, f := range op.Frames {
			injected += f.Len
		}
	}
	return
}

func (d *c10Dir) summary() map[string]any {
	var ops []string
	for _, op := range d.Ops {
		if op.Write >= 0 {
			ops = append(ops, fmt.Sprintf("W%d", op.Write))
			continue
		}
		for _, f := range op.Frames {
			ops = append(ops, fmt.Sprintf("I(%s,type=0x%02x,len=%d,id=%x)", f.Kind, f.Type, f.Len, f.ID))
		}
	}
	if len(ops) > 60 {
		ops = append(ops[:60], fmt.Sprintf("...(%d more)", len(ops)-60))
	}
	return map[string]any{"ops": ops, "ending": d.Ending, "post_eof": d.PostEOF, "data_seed": d.DataSeed,
		"buf_class": d.BufClass, "read_seed": d.ReadSeed, "partial": d.Partial}
}

type c10WRes struct {
	want     []byte // bytes accepted by Write (n == len(p), err == nil)
	wantMax  []byte // want + the part of a truncated own frame that was put on the wire
	spans    [][2]int
	errStr   string
	short    string
	timeout  bool
	injected map[string]int
	types    map[byte]bool
}

func c10RunWriter(s *FrameStream, tcp *net.TCPConn, own [16]byte, d *c10Dir, res *c10WRes) {
	res.injected = map[string]int{}
	res.types = map[byte]bool{}
	off := 0
	fail := func(what string, err error) {
		if c10IsTimeout(err) {
			res.timeout = true
		}
		res.errStr = what + ": " + err.Error()
		// nothing more will be sent in this direction: let the peer's reader see the end
		// of the byte stream instead of waiting for the socket deadline
		tcp.CloseWrite()
	}
	for i, op := range d.Ops {
		if op.Write >= 0 {
			p := vk.Pattern(d.DataSeed, off, op.Write)
			n, err := s.Write(p)
			if err != nil {
				fail(fmt.Sprintf("Write #%d (%d bytes)", i, op.Write), err)
				res.wantMax = append(append([]byte(nil), res.want...), p...)
				return
			}
			if n != len(p) {
				res.short = fmt.Sprintf("Write #%d of %d bytes returned n=%d, err=nil", i, len(p), n)
				res.wantMax = append(append([]byte(nil), res.want...), p...)
				tcp.CloseWrite()
				return
			}
			if op.Write > MaxFrameSize {
				res.spans = append(res.spans, [2]int{off, off + op.Write})
			}
			res.want = append(res.want, p...)
			off += op.Write
			continue
		}
		for j, f := range op.Frames {
			if err := WriteFrame(tcp, f.ID, f.Type, c10Payload(f.Kind, f.Len, uint64(i*131+j))); err != nil {
				fail("inject "+f.Kind, err)
				res.wantMax = res.want
				return
			}
			res.injected[f.Kind]++
			if f.Kind == "own-nondata-type" {
				res.types[f.Type] = true
			}
		}
	}
	res.wantMax = res.want
	var err error
	switch d.Ending {
	case "closewrite":
		err = s.CloseWrite()
	case "close":
		err = s.Close()
	case "abrupt":
		err = tcp.Close()
	case "abrupt-partial":
		hdr := make([]byte, FrameHeaderSize)
		copy(hdr, own[:])
		hdr[16] = FrameTypeData
		binary.BigEndian.PutUint32(hdr[17:], uint32(d.Partial[0]))
		part := vk.Pattern(d.DataSeed, off, d.Partial[1])
		if _, err = tcp.Write(append(hdr, part...)); err == nil {
			res.wantMax = append(append([]byte(nil), res.want...), part...)
			err = tcp.Close()
		}
	}
	if err != nil {
		fail("ending "+d.Ending, err)
		return
	}
	if d.PostEOF && (d.Ending == "closewrite" || d.Ending == "close") {
		if err := WriteFrame(tcp, own, FrameTypeData, c10Payload("after-eof-data", 64, 99)); err != nil {
			fail("inject after-eof-data", err)
			return
		}
		res.injected["after-eof-data"]++
	}
}

type c10RRes struct {
	got       []byte
	reads     int
	zeroReads int
	err       error
	offs      []int32
	postEOF   string
	timeout   bool
	capHit    string
	overrun   string
}

func c10BufSize(class string, r *rand.Rand) int {
	switch class {
	case "tiny":
		return 1 + r.Intn(16)
	case "small":
		return 17 + r.Intn(4080)
	case "large":
		return 4097 + r.Intn(131072-4096)
	case "frame":
		return []int{MaxFrameSize - 1, MaxFrameSize, MaxFrameSize + 1}[r.Intn(3)]
	default:
		return c10BufSize([]string{"tiny", "small", "large", "frame"}[r.Intn(4)], r)
	}
}

func c10RunReader(s *FrameStream, d *c10Dir, limit int, res *c10RRes) {
	r := rand.New(rand.NewSource(d.ReadSeed))
	buf := make([]byte, 131072+8)
	for i := range buf {
		buf[i] = 0xA5
	}
	for {
		k := c10BufSize(d.BufClass, r)
		n, err := s.Read(buf[:k])
		res.reads++
		if n < 0 || n > k {
			res.overrun = fmt.Sprintf("Read(len %d) returned n=%d", k, n)
			res.err = err
			return
		}
		if n > 0 {
			res.got = append(res.got, buf[:n]...)
			if len(res.offs) < 1<<22 {
				res.offs = append(res.offs, int32(len(res.got)))
			}
		} else if err == nil {
			res.zeroReads++
			if res.zeroReads > 100000 {
				res.capHit = "more than 100000 Read calls returned (0, nil)"
				return
			}
		}
		if err != nil {
			res.err = err
			res.timeout = c10IsTimeout(err)
			break
		}
		if len(res.got) > limit {
			res.capHit = fmt.Sprintf("reader received more than the %d bytes that were written in this direction", limit)
			return
		}
	}
	if res.err == io.EOF && d.PostEOF {
		n, err := s.Read(buf[:64])
		switch {
		case n > 0:
			res.postEOF = fmt.Sprintf("data(%d bytes, kinds=%v)", n, c10FindMagic(buf[:n]))
		case err == io.EOF:
			res.postEOF = "ok"
			if n2, err2 := s.Read(buf[:1]); n2 != 0 || err2 != io.EOF {
				res.postEOF = fmt.Sprintf("second read after EOF: n=%d err=%v", n2, err2)
			}
		case c10IsTimeout(err):
			res.timeout = true
		default:
			res.postEOF = fmt.Sprintf("err(%v)", err)
		}
	}
}

// c10Judge compares one direction. It returns "" when the property held there.
func c10Judge(d *c10Dir, w *c10WRes, r *c10RRes) (class string, det map[string]any) {
	det = map[string]any{"want_len": len(w.want), "got_len": len(r.got), "reads": r.reads,
		"final_err": fmt.Sprint(r.err), "post_eof": r.postEOF, "writer_error": w.errStr}
	graceful := d.Ending == "closewrite" || d.Ending == "close"
	if w.short != "" {
		det["short_write"] = w.short
		return "short-write", det
	}
	if r.overrun != "" {
		det["overrun"] = r.overrun
		return "read-overrun", det
	}
	if w.errStr != "" {
		// Write / CloseWrite / Close failed although the peer is alive and reading (the
		// harness never closes or stops draining the receiving socket before the writer
		// is done, and deadline expiry is handled before this point): the stream refused
		// bytes the property says it carries.
		return "write-error", det
	}
	ok := false
	if graceful {
		ok = bytes.Equal(r.got, w.want) && r.err == io.EOF && r.capHit == ""
	} else {
		ok = bytes.HasPrefix(w.wantMax, r.got) && r.err != nil
	}
	if ok {
		if graceful && d.PostEOF && r.postEOF != "ok" && r.postEOF != "" && w.errStr == "" {
			return "data-after-eof", det
		}
		return "", det
	}
	if r.capHit != "" {
		det["cap"] = r.capHit
	}
	n := len(r.got)
	if len(w.wantMax) < n {
		n = len(w.wantMax)
	}
	diff := n
	for i := 0; i < n; i++ {
		if r.got[i] != w.wantMax[i] {
			diff = i
			break
		}
	}
	det["first_diff_offset"] = diff
	if kinds := c10FindMagic(r.got); len(kinds) > 0 {
		det["delivered_kinds"] = kinds
		return "delivered|kind=" + kinds[0], det
	}
	switch {
	case bytes.HasPrefix(w.want, r.got) && len(r.got) < len(w.want):
		if r.err == io.EOF {
			return "truncated-eof-early", det
		}
		return "truncated-error", det
	case bytes.Equal(r.got, w.want) && graceful:
		return "no-eof", det
	case bytes.HasPrefix(r.got, w.wantMax):
		return "extra-bytes", det
	default:
		return "corrupt", det
	}
}

// c10SplitFloor counts multi-frame writes whose bytes were returned by >= 3 reads.
func c10SplitFloor(w *c10WRes, r *c10RRes) int64 {
	var c int64
	for _, sp := range w.spans {
		lo := sort.Search(len(r.offs), func(i int) bool { return int(r.offs[i]) > sp[0] })
		hi := sort.Search(len(r.offs), func(i int) bool { return int(r.offs[i]) >= sp[1] })
		if hi < len(r.offs) && hi-lo+1 >= 3 {
			c++
		}
	}
	return c
}

// ---- case ----

type c10Case struct {
	Index      int
	Mode       string // close | abrupt | abrupt-partial | half | duplex
	OwnStr     string
	ForeignStr string
	IDShape    string
	Own        [16]byte
	Foreign    [16]byte
	Collide    bool
	Tracker    int // 0 none, 1 tracker says open, 2 tracker says closed
	AB, BA     *c10Dir
}

func (c *c10Case) detail(seed int64) map[string]any {
	m := map[string]any{"seed": seed, "case": c.Index, "mode": c.Mode, "id_shape": c.IDShape,
		"own_id_string": c.OwnStr, "foreign_id_string": c.ForeignStr,
		"own_wire_id": fmt.Sprintf("%x", c.Own), "foreign_wire_id": fmt.Sprintf("%x", c.Foreign),
		"wire_ids_equal": c.Own == c.Foreign, "tracker": c.Tracker, "A_to_B": c.AB.summary()}
	if c.BA != nil {
		m["B_to_A"] = c.BA.summary()
	}
	return m
}

func c10NewStream(conn *Conn, id [16]byte, tracker int) *FrameStream {
	switch tracker {
	case 1:
		return NewFrameStreamWithTracker(conn, id, c10Tracker{false})
	case 2:
		return NewFrameStreamWithTracker(conn, id, c10Tracker{true})
	}
	return NewFrameStream(conn, id)
}

// c10CollisionSig names the defect class when own and foreign id strings differ but
// map to the same wire id.
func c10CollisionSig(a, b string) string {
	if len(a) > 16 && len(b) > 16 && a[:16] == b[:16] {
		return "C10:idcollision|prefix16"
	}
	if len(a) >= 16 && len(b) >= 16 && a[:16] == b[:16] {
		return "C10:idcollision|prefix16"
	}
	return "C10:idcollision|other"
}

type c10DirOutcome struct {
	w c10WRes
	r c10RRes
}

// c10Report judges one direction; it returns true when the property held there.
func c10Report(run *vk.Run, c *c10Case, name string, d *c10Dir, o *c10DirOutcome) bool {
	if o.w.timeout || o.r.timeout {
		run.Count("watchdog", 1)
		return false
	}
	class, det := c10Judge(d, &o.w, &o.r)
	for k, n := range o.w.injected {
		run.Count("injected_"+k, int64(n))
	}
	run.Count("bytes_compared", int64(len(o.r.got)))
	run.Count("reads", int64(o.r.reads))
	run.Count("multiframe_write_split_3reads", c10SplitFloor(&o.w, &o.r))
	if o.w.errStr != "" {
		// a harness-side write failing on a healthy loopback pair is only expected
		// after the peer side misbehaved; keep it visible
		run.Count("writer_stopped_early", 1)
	}
	if class == "" {
		run.Count("directions_ok", 1)
		switch d.Ending {
		case "closewrite", "close":
			run.Count("eof_after_"+d.Ending, 1)
			if o.r.postEOF == "ok" {
				run.Count("sticky_eof_checked", 1)
			}
		default:
			run.Count("abrupt_endings", 1)
			switch {
			case len(o.r.got) >= len(o.w.want):
				run.Count("abrupt_all_complete_writes_arrived", 1)
			case c.Collide:
				run.Count("abrupt_short_with_colliding_ids", 1)
			default:
				run.Count("abrupt_short", 1)
				run.Observe(fmt.Sprintf("abrupt_short_case_%d", c.Index), det)
			}
		}
		return true
	}
	sig := "C10:stream|" + class
	if c.Collide {
		sig = c10CollisionSig(c.OwnStr, c.ForeignStr)
		if c.IDShape == "uuid-spellings" {
			sig = "C10:idcollision|uuid-spellings"
		}
		det["observed_as"] = class
	}
	det["direction"] = name
	det["scenario"] = c.detail(run.Seed)
	run.Violation(sig, det)
	return false
}

func c10RunCase(t *testing.T, run *vk.Run, ln net.Listener, c *c10Case) {
	link := c10Dial(t, ln)
	defer link.close()
	sA := c10NewStream(link.ca, c.Own, c.Tracker)
	sB := c10NewStream(link.cb, c.Own, c.Tracker)
	// a reader stops as soon as it holds more bytes than the peer's script writes at all
	// (already a refutation; avoids waiting for an EOF that such a stream may never give)
	limit := func(d *c10Dir) int { w, _ := d.totals(); return w + d.Partial[1] }
	var ab, ba c10DirOutcome
	var wg sync.WaitGroup
	switch c.Mode {
	case "close", "abrupt", "abrupt-partial":
		wg.Add(1)
		go func() { defer wg.Done(); c10RunWriter(sA, link.ta, c.Own, c.AB, &ab.w) }()
		c10RunReader(sB, c.AB, limit(c.AB), &ab.r)
		link.drain(link.tb)
		wg.Wait()
	case "half":
		wg.Add(1)
		go func() {
			defer wg.Done()
			c10RunWriter(sA, link.ta, c.Own, c.AB, &ab.w)
			c10RunReader(sA, c.BA, limit(c.BA), &ba.r)
			link.drain(link.ta)
		}()
		c10RunReader(sB, c.AB, limit(c.AB), &ab.r)
		link.drain(link.tb)
		c10RunWriter(sB, link.tb, c.Own, c.BA, &ba.w)
		wg.Wait()
	case "duplex":
		wg.Add(3)
		go func() { defer wg.Done(); c10RunWriter(sA, link.ta, c.Own, c.AB, &ab.w) }()
		go func() { defer wg.Done(); c10RunReader(sA, c.BA, limit(c.BA), &ba.r); link.drain(link.ta) }()
		go func() { defer wg.Done(); c10RunWriter(sB, link.tb, c.Own, c.BA, &ba.w) }()
		c10RunReader(sB, c.AB, limit(c.AB), &ab.r)
		link.drain(link.tb)
		wg.Wait()
	}
	c10Report(run, c, "A->B", c.AB, &ab)
	if c.BA != nil {
		c10Report(run, c, "B->A", c.BA, &ba)
	}
	for ty := range ab.w.types {
		run.Distinct(fmt.Sprintf("own-type-0x%02x", ty))
		c10TypesSeen.Store(ty, true)
	}
	for ty := range ba.w.types {
		c10TypesSeen.Store(ty, true)
	}
}

var c10TypesSeen sync.Map

// ---- generators ----

var c10OwnTypeCursor, c10ForeignTypeCursor int

// c10NextNonDataType cycles through every type byte except Data, Close and EOF.
func c10NextNonDataType(cursor *int) byte {
	for {
		b := byte(*cursor)
		*cursor++
		if b != FrameTypeData && b != FrameTypeClose && b != FrameTypeEOF {
			return b
		}
	}
}

func c10InjLen(r *rand.Rand) int {
	switch r.Intn(6) {
	case 0:
		return 8
	case 1:
		return MaxFrameSize
	case 2:
		return 8 + r.Intn(MaxFrameSize-8)
	default:
		return 8 + r.Intn(600)
	}
}

func c10GenInjection(r *rand.Rand, own, foreign [16]byte) []c10Frame {
	kind := []string{"foreign-data", "foreign-eof", "foreign-close", "foreign-othertype", "own-nondata-type",
		"own-zero-data", "foreign-zero-data", "near-id-data", "zero-id-frame"}[r.Intn(9)]
	switch kind {
	case "foreign-data":
		return []c10Frame{{kind, foreign, FrameTypeData, c10InjLen(r)}}
	case "foreign-eof":
		return []c10Frame{{kind, foreign, FrameTypeEOF, 0}}
	case "foreign-close":
		return []c10Frame{{kind, foreign, FrameTypeClose, 0}}
	case "foreign-othertype":
		return []c10Frame{{kind, foreign, c10NextNonDataType(&c10ForeignTypeCursor), c10InjLen(r)}}
	case "own-nondata-type":
		var out []c10Frame
		for i := 0; i < 12; i++ {
			n := 0
			if r.Intn(4) != 0 {
				n = c10InjLen(r)
				if n > 4096 && r.Intn(3) != 0 {
					n = 8 + r.Intn(200)
				}
			}
			out = append(out, c10Frame{kind, own, c10NextNonDataType(&c10OwnTypeCursor), n})
		}
		return out
	case "own-zero-data":
		return []c10Frame{{kind, own, FrameTypeData, 0}}
	case "foreign-zero-data":
		return []c10Frame{{kind, foreign, FrameTypeData, 0}}
	case "near-id-data":
		id := own
		bit := r.Intn(128)
		id[bit/8] ^= 1 << (bit % 8)
		ty := FrameTypeData
		if r.Intn(4) == 0 {
			ty = []byte{FrameTypeClose, FrameTypeEOF}[r.Intn(2)]
		}
		n := 0
		if ty == FrameTypeData {
			n = c10InjLen(r)
		}
		return []c10Frame{{kind, id, ty, n}}
	default: // zero-id-frame
		var zero [16]byte
		if own == zero {
			return []c10Frame{{"foreign-data", foreign, FrameTypeData, c10InjLen(r)}}
		}
		ty := []byte{FrameTypeData, FrameTypeClose, FrameTypeEOF, FrameTypeCommandResponse, FrameTypeDNSResponse, FrameTypeHTTPResponse}[r.Intn(6)]
		n := 0
		if ty != FrameTypeClose && ty != FrameTypeEOF {
			n = c10InjLen(r)
		}
		return []c10Frame{{kind, zero, ty, n}}
	}
}

func c10WriteSize(r *rand.Rand) int {
	switch r.Intn(10) {
	case 0:
		return 0
	case 1:
		return 1
	case 2, 3:
		return 2 + r.Intn(4094)
	case 4:
		return []int{MaxFrameSize - 1, MaxFrameSize, MaxFrameSize + 1, 2 * MaxFrameSize, 2*MaxFrameSize + 1, 3 * MaxFrameSize}[r.Intn(6)]
	case 5, 6:
		return MaxFrameSize + 1 + r.Intn(200*1024-MaxFrameSize)
	default:
		return 4096 + r.Intn(MaxFrameSize-4096)
	}
}

func c10GenDir(r *rand.Rand, own, foreign [16]byte, ending string) *c10Dir {
	d := &c10Dir{Ending: ending, DataSeed: r.Uint64(), ReadSeed: r.Int63(),
		BufClass: []string{"tiny", "small", "large", "mixed", "mixed", "frame"}[r.Intn(6)],
		PostEOF:  true}
	budget := 1536 * 1024
	if d.BufClass == "tiny" {
		budget = 160 * 1024
	}
	nops := 1 + r.Intn(12)
	for i := 0; i < nops; i++ {
		if r.Intn(5) < 2 {
			d.Ops = append(d.Ops, c10Op{Write: -1, Frames: c10GenInjection(r, own, foreign)})
			continue
		}
		n := c10WriteSize(r)
		if n > budget {
			n = budget
		}
		budget -= n
		d.Ops = append(d.Ops, c10Op{Write: n})
	}
	if ending == "abrupt-partial" {
		l := 1 + r.Intn(MaxFrameSize)
		d.Partial = [2]int{l, r.Intn(l)}
	}
	return d
}

func c10SizeClass(d *c10Dir) string {
	multi, zero, small := false, false, false
	for _, op := range d.Ops {
		switch {
		case op.Write > MaxFrameSize:
			multi = true
		case op.Write == 0:
			zero = true
		case op.Write > 0:
			small = true
		}
	}
	return fmt.Sprintf("multi=%v,zero=%v,single=%v", multi, zero, small)
}

func c10InjKinds(d *c10Dir) string {
	set := map[string]bool{}
	for _, op := range d.Ops {
		for _, f := range op.Frames {
			set[f.Kind] = true
		}
	}
	var ks []string
	for k := range set {
		ks = append(ks, k)
	}
	sort.Strings(ks)
	return strings.Join(ks, "+")
}

// ---- tunnel-id strings ----

const c10Alphabet = "abcdefghijklmnopqrstuvwxyzABCDEFGHIJKLMNOPQRSTUVWXYZ0123456789-_.:/|é世😀 "

func c10RandString(r *rand.Rand, n int) string {
	rs := []rune(c10Alphabet)
	var sb strings.Builder
	for sb.Len() < n {
		sb.WriteRune(rs[r.Intn(len(rs))])
	}
	return sb.String() // may exceed n by < 4 bytes (multi-byte rune), never contains NUL
}

// c10ClientID has the shape of BaseMappingHandler.generateTunnelID:
// fmt.Sprintf("%s-tunnel-%d-%d", protocol, time.Now().UnixNano(), localPort)
func c10ClientID(proto string, nano int64, port int) string {
	return fmt.Sprintf("%s-tunnel-%d-%d", proto, nano, port)
}

// c10ServerID has the shape of idgen.NewUUIDGenerator("tun_"): "tun_" + UUIDv7 string.
func c10ServerID(r *rand.Rand, ms int64) string {
	var u [16]byte
	r.Read(u[:])
	u[0], u[1], u[2], u[3], u[4], u[5] = byte(ms>>40), byte(ms>>32), byte(ms>>24), byte(ms>>16), byte(ms>>8), byte(ms)
	u[6] = 0x70 | u[6]&0x0F
	u[8] = 0x80 | u[8]&0x3F
	return fmt.Sprintf("tun_%x-%x-%x-%x-%x", u[0:4], u[4:6], u[6:8], u[8:10], u[10:16])
}

var c10IDShapes = []string{"client-same-mapping", "client-other-mapping", "server-uuid", "arbitrary-shared-prefix", "arbitrary", "short", "uuid-spellings"}

// c10UUIDSpelling writes the same 16 bytes as different id STRINGS (all longer than the
// 16-byte wire field): canonical, upper case, 32 hex digits, braced, urn:uuid:, mixed case.
func c10UUIDSpelling(u [16]byte, k int) string {
	canon := fmt.Sprintf("%x-%x-%x-%x-%x", u[0:4], u[4:6], u[6:8], u[8:10], u[10:16])
	switch k % 8 {
	case 0:
		return canon
	case 1:
		return strings.ToUpper(canon)
	case 2:
		return fmt.Sprintf("%x", u[:])
	case 3:
		return "{" + canon + "}"
	case 4:
		return "urn:uuid:" + canon
	case 5:
		return strings.ToUpper(fmt.Sprintf("%x", u[:]))
	case 6:
		return "{" + strings.ToUpper(canon) + "}"
	default: // mixed case: upper-case every other hex letter group
		return strings.ToUpper(canon[:18]) + canon[18:]
	}
}

// c10GenIDPair returns two DIFFERENT id strings of the given shape.
func c10GenIDPair(r *rand.Rand, shape string) (a, b string) {
	// 2024-09-27 .. + ~3 years, in ns
	nano := int64(1727400000)*1e9 + r.Int63n(int64(1e17))
	protos := []string{"tcp", "udp", "socks5"}
	for {
		switch shape {
		case "client-same-mapping":
			p := protos[r.Intn(3)]
			port := 1024 + r.Intn(60000)
			deltas := []int64{1, 1e3, 1e6, 1e9, 60e9, 3600e9, 26 * 3600e9, 40 * 24 * 3600e9}
			dl := deltas[r.Intn(len(deltas))]
			dl += r.Int63n(dl)
			a, b = c10ClientID(p, nano, port), c10ClientID(p, nano+dl, port)
		case "client-other-mapping":
			p1, p2 := protos[r.Intn(3)], protos[r.Intn(3)]
			a, b = c10ClientID(p1, nano, 1024+r.Intn(60000)), c10ClientID(p2, nano+r.Int63n(5e9), 1024+r.Intn(60000))
		case "server-uuid":
			ms := nano / 1e6
			d := []int64{0, 1, 15, 100, 100000}[r.Intn(5)]
			a, b = c10ServerID(r, ms), c10ServerID(r, ms+d)
		case "arbitrary-shared-prefix":
			pre := c10RandString(r, r.Intn(40))
			a, b = pre+c10RandString(r, 1+r.Intn(12)), pre+c10RandString(r, 1+r.Intn(12))
		case "arbitrary":
			a, b = c10RandString(r, 1+r.Intn(48)), c10RandString(r, 1+r.Intn(48))
		case "uuid-spellings":
			var u [16]byte
			r.Read(u[:])
			u[6] = 0x40 | u[6]&0x0F
			u[8] = 0x80 | u[8]&0x3F
			k := r.Intn(8)
			a, b = c10UUIDSpelling(u, k), c10UUIDSpelling(u, k+1+r.Intn(7))
		default: // short: both fit into the wire field
			for {
				a, b = c10RandString(r, 1+r.Intn(13)), c10RandString(r, 1+r.Intn(13))
				if len(a) <= 16 && len(b) <= 16 {
					break
				}
			}
		}
		if a != b {
			return
		}
	}
}

func c10WireID(t *testing.T, s string) [16]byte {
	id, err := TunnelIDFromString(s)
	if err != nil {
		t.Fatalf("c10: TunnelIDFromString(%q): %v", s, err)
	}
	return id
}

// c10PickIDs chooses own/foreign ids for a stream case: half of the cases use random
// binary ids (never equal), the rest id strings through TunnelIDFromString.
func c10PickIDs(t *testing.T, r *rand.Rand, c *c10Case) {
	if r.Intn(2) == 0 {
		c.IDShape = "binary"
		r.Read(c.Own[:])
		r.Read(c.Foreign[:])
		if r.Intn(4) == 0 { // foreign differs from own in one byte only
			c.Foreign = c.Own
			c.Foreign[r.Intn(16)] ^= byte(1 + r.Intn(255))
		}
		if c.Own == c.Foreign {
			c.Foreign[15] ^= 1
		}
		return
	}
	c.IDShape = c10IDShapes[r.Intn(len(c10IDShapes))]
	c.OwnStr, c.ForeignStr = c10GenIDPair(r, c.IDShape)
	c.Own, c.Foreign = c10WireID(t, c.OwnStr), c10WireID(t, c.ForeignStr)
	c.Collide = c.Own == c.Foreign
}

// ---- tests ----

func TestVerifC10Stream(t *testing.T) {
	vk.Quiet()
	run := vk.Start(t, "C10", "stream")
	defer run.Finish()
	run.Rule("per case a fresh loopback *net.TCPConn pair with a FrameStream on each end; script of 1-12 ops per direction: Write sizes {0,1,<4K,<64K,64K-1/64K/64K+1/128K/128K+1/192K, 64K+1..200K} interleaved with raw injected frames (foreign-tunnel data/EOF/Close/other types, all 253 non-data type bytes with the own id, zero-length data, own id with one bit flipped, all-zero id); reader buffer classes tiny(1-16B)/small/large(..128K)/frame(64K-1,64K,64K+1)/mixed; modes close, half (CloseWrite then reverse traffic then Close), duplex (both directions concurrently), abrupt TCP close, abrupt close inside a frame; ids: random binary or TunnelIDFromString of generated id strings; distinct = (mode, write-size classes, injected kinds, buffer class)")
	r := run.Rand("gen")
	ln := c10Listen(t)
	defer ln.Close()
	n := run.Pick(200, 5000)
	modes := []string{"close", "half", "duplex", "abrupt", "abrupt-partial", "half", "duplex"}
	for i := 0; i < n; i++ {
		c := &c10Case{Index: i, Mode: modes[r.Intn(len(modes))], Tracker: r.Intn(3)}
		c10PickIDs(t, r, c)
		switch c.Mode {
		case "close":
			c.AB = c10GenDir(r, c.Own, c.Foreign, "close")
		case "abrupt", "abrupt-partial":
			c.AB = c10GenDir(r, c.Own, c.Foreign, c.Mode)
		case "half":
			c.AB = c10GenDir(r, c.Own, c.Foreign, "closewrite")
			c.BA = c10GenDir(r, c.Own, c.Foreign, "close")
		case "duplex":
			e := []string{"closewrite", "close"}
			c.AB = c10GenDir(r, c.Own, c.Foreign, e[r.Intn(2)])
			c.BA = c10GenDir(r, c.Own, c.Foreign, e[r.Intn(2)])
		}
		run.Case(fmt.Sprintf("stream|%d|%s", i, c.Mode), c.detail(run.Seed))
		c10RunCase(t, run, ln, c)
		run.Eval(1)
		run.Count("mode_"+c.Mode, 1)
		run.Count("ids_"+c.IDShape, 1)
		if c.Collide {
			run.Count("cases_with_colliding_wire_ids", 1)
		}
		run.Distinct(fmt.Sprintf("%s|%s|%s|%s", c.Mode, c10SizeClass(c.AB), c10InjKinds(c.AB), c.AB.BufClass))
		if i < 3 {
			run.Sample(c.detail(run.Seed))
		}
		if run.Violations() >= 12 || run.Counter("watchdog") >= 3 {
			break
		}
	}
	var types int64
	c10TypesSeen.Range(func(_, _ any) bool { types++; return true })
	run.Count("own_nondata_type_bytes_seen", types)
	if run.Counter("watchdog") == 0 {
		run.Count("watchdog_free", 1)
	}
	run.Floor("watchdog_free", 1)
	run.Floor("directions_ok", int64(n/4))
	run.Floor("multiframe_write_split_3reads", 10)
	run.Floor("own_nondata_type_bytes_seen", 253)
	run.Floor("eof_after_close", 5)
	run.Floor("eof_after_closewrite", 5)
	run.Floor("sticky_eof_checked", 5)
	run.Floor("abrupt_endings", 5)
	for _, k := range []string{"foreign-data", "foreign-eof", "foreign-close", "foreign-othertype", "own-nondata-type",
		"own-zero-data", "foreign-zero-data", "near-id-data", "zero-id-frame", "after-eof-data"} {
		run.Floor("injected_"+k, 3)
	}
}

// TestVerifC10TunnelIDs: connection reuse. Tunnel 1 (id string s1) runs and is closed
// on both sides; tunnel 2 (id string s2 != s1) starts on the same connection with new
// FrameStreams while late frames of tunnel 1 (data, Close) are still arriving. Both
// wire ids come from TunnelIDFromString, exactly as forwardToSourceNode derives them.
func TestVerifC10TunnelIDs(t *testing.T) {
	vk.Quiet()
	run := vk.Start(t, "C10", "idstrings")
	defer run.Finish()
	run.Rule("pairs of different tunnel-id strings per shape: client generator '<proto>-tunnel-<unixnano>-<port>' (same mapping, creation times 1ns..40d apart; different mappings), server generator 'tun_<uuidv7>' (0..100s apart), arbitrary NUL-free strings with/without a shared prefix, strings that fit the 16-byte field, two different spellings of the same UUID (canonical / upper / 32 hex / braced / urn:uuid: / mixed case); each pair mapped through TunnelIDFromString and run as tunnel 1 then tunnel 2 on one reused loopback TCP connection with residual tunnel-1 data/Close frames injected into tunnel 2; distinct = (shape, whether the strings share 16 leading bytes, length classes)")
	r := run.Rand("gen")
	ln := c10Listen(t)
	defer ln.Close()
	n := run.Pick(360, 6000)
	for i := 0; i < n; i++ {
		shape := c10IDShapes[i%len(c10IDShapes)]
		s1, s2 := c10GenIDPair(r, shape)
		id1, id2 := c10WireID(t, s1), c10WireID(t, s2)
		collide := id1 == id2
		share16 := len(s1) >= 16 && len(s2) >= 16 && s1[:16] == s2[:16]
		c := &c10Case{Index: i, Mode: "reuse", OwnStr: s2, ForeignStr: s1, IDShape: shape, Own: id2, Foreign: id1, Collide: collide}
		// tunnel 2 script: residual data, write, residual close, residual data, write, Close
		w1, w2 := 1+r.Intn(3000), 1+r.Intn(70000)
		c.AB = &c10Dir{Ending: "close", DataSeed: r.Uint64(), ReadSeed: r.Int63(), BufClass: "mixed", PostEOF: false,
			Ops: []c10Op{
				{Write: -1, Frames: []c10Frame{{"residual-data", id1, FrameTypeData, 8 + r.Intn(500)}}},
				{Write: w1},
				{Write: -1, Frames: []c10Frame{{"residual-close", id1, FrameTypeClose, 0}, {"residual-data", id1, FrameTypeData, 8 + r.Intn(500)}}},
				{Write: w2},
			}}
		run.Case(fmt.Sprintf("reuse|%d|%s", i, shape), c.detail(run.Seed))
		link := c10Dial(t, ln)
		// tunnel 1
		t1 := &c10Dir{Ending: "close", DataSeed: r.Uint64(), ReadSeed: r.Int63(), BufClass: "small", PostEOF: true,
			Ops: []c10Op{{Write: 1 + r.Intn(2000)}}}
		var o1 c10DirOutcome
		a1, b1 := NewFrameStream(link.ca, id1), NewFrameStream(link.cb, id1)
		var wg sync.WaitGroup
		wg.Add(1)
		go func() { defer wg.Done(); c10RunWriter(a1, link.ta, id1, t1, &o1.w) }()
		c10RunReader(b1, t1, t1.Ops[0].Write, &o1.r)
		wg.Wait()
		// B closes its side of tunnel 1, A consumes that Close frame
		var back c10RRes
		var closeErr error
		cl1, _ := c10Judge(t1, &o1.w, &o1.r)
		if !o1.w.timeout && !o1.r.timeout && cl1 == "" {
			if closeErr = b1.Close(); closeErr == nil {
				c10RunReader(a1, &c10Dir{BufClass: "small", ReadSeed: 1}, 0, &back)
			}
		}
		if o1.w.timeout || o1.r.timeout || back.timeout || c10IsTimeout(closeErr) {
			run.Count("watchdog", 1)
			link.close()
			if run.Counter("watchdog") >= 3 {
				break
			}
			continue
		}
		if cl1 != "" || closeErr != nil || back.err != io.EOF || len(back.got) != 0 {
			// tunnel 1 alone is what the stream monitor checks; here it is only the set-up
			run.Count("tunnel1_setup_not_clean", 1)
			link.close()
			continue
		}
		// tunnel 2 on the same connection
		var o2 c10DirOutcome
		a2, b2 := NewFrameStream(link.ca, id2), NewFrameStream(link.cb, id2)
		wg.Add(1)
		go func() { defer wg.Done(); c10RunWriter(a2, link.ta, id2, c.AB, &o2.w) }()
		c10RunReader(b2, c.AB, w1+w2, &o2.r)
		link.drain(link.tb)
		wg.Wait()
		link.close()
		run.Eval(1)
		run.Count("pairs_"+shape, 1)
		if collide {
			run.Count("wire_id_equal_for_different_strings", 1)
			run.Count("wire_id_equal_"+shape, 1)
		}
		if c10Report(run, c, "tunnel2 A->B", c.AB, &o2) && !collide {
			run.Count("residual_frames_filtered_cases", 1)
		}
		run.Distinct(fmt.Sprintf("%s|share16=%v|len1>16=%v|len2>16=%v", shape, share16, len(s1) > 16, len(s2) > 16))
		if run.Counter("watchdog") >= 3 {
			break
		}
		if i < 6 {
			run.Sample(map[string]any{"shape": shape, "tunnel1": s1, "tunnel2": s2, "wire1": fmt.Sprintf("%x", id1), "wire2": fmt.Sprintf("%x", id2)})
		}
	}
	if run.Counter("watchdog") == 0 {
		run.Count("watchdog_free", 1)
	}
	run.Floor("watchdog_free", 1)
	for _, s := range c10IDShapes {
		run.Floor("pairs_"+s, int64(n/len(c10IDShapes)*9/10))
	}
	run.Floor("residual_frames_filtered_cases", int64(n/len(c10IDShapes)))
	run.Floor("injected_residual-data", int64(n))
	run.Floor("injected_residual-close", int64(n/2))
}
