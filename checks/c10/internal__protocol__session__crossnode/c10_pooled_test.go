//go:build verif && verif_c10

package crossnode

import (
	"context"
	"fmt"
	"io"
	"math/rand"
	"net"
	"sync"
	"sync/atomic"
	"testing"
	"time"

	"tunnox-core/internal/core/storage"
	vk "tunnox-core/internal/verifkit"
)

// Monitor (e) "pooled": the stream oracle on connections that come from the real
// connection pool (NewPool / Pool.Get -> NodeConnectionPool.createConnection), with a
// consumer that is slower than the producer: the peer starts reading only after the
// writer has written everything, closed the stream and given the connection back
// (Pool.CloseConn / Release of a broken conn / Release into the pool), or -- when the
// transfer does not fit into the socket buffers -- once the writer is stalled by
// back-pressure. Several MiB per case, small read buffers, small receive buffer on the
// peer socket, so bytes are still in the sender's kernel queue when the connection is
// closed. Oracle unchanged: bytes read == bytes written, then io.EOF.

type c10PoolPeer struct {
	ln   net.Listener
	mu   sync.Mutex
	byRA map[string]*net.TCPConn
	ch   chan struct{}
}

func c10NewPoolPeer(t *testing.T) *c10PoolPeer {
	p := &c10PoolPeer{ln: c10Listen(t), byRA: map[string]*net.TCPConn{}, ch: make(chan struct{}, 64)}
	go func() {
		for {
			c, err := p.ln.Accept()
			if err != nil {
				return
			}
			tc := c.(*net.TCPConn)
			// a busy node: small receive buffer, so the sender keeps most of the backlog
			tc.SetReadBuffer(64 << 10)
			p.mu.Lock()
			p.byRA[tc.RemoteAddr().String()] = tc
			p.mu.Unlock()
			select {
			case p.ch <- struct{}{}:
			default:
			}
		}
	}()
	return p
}

// find returns the accepted end of the connection whose dialing end has local address la.
func (p *c10PoolPeer) find(la string) *net.TCPConn {
	deadline := time.After(10 * time.Second)
	for {
		p.mu.Lock()
		c := p.byRA[la]
		p.mu.Unlock()
		if c != nil {
			return c
		}
		select {
		case <-p.ch:
		case <-time.After(20 * time.Millisecond):
		case <-deadline:
			return nil
		}
	}
}

func (p *c10PoolPeer) closeAll() {
	p.ln.Close()
	p.mu.Lock()
	for _, c := range p.byRA {
		c.Close()
	}
	p.mu.Unlock()
}

// c10PoolGet takes a connection to the harness peer from *pp. If Get fails (pool-level
// resource accounting, not a C10 matter) the pool is replaced by a fresh one and Get is
// retried once; only a failing fresh pool is a broken harness.
func c10PoolGet(t *testing.T, run *vk.Run, ctx context.Context, pp **Pool, mk func() *Pool) *Conn {
	for attempt := 0; ; attempt++ {
		gctx, cancel := context.WithTimeout(ctx, 10*time.Second)
		conn, err := (*pp).Get(gctx, "c10-node-b")
		cancel()
		if err == nil {
			return conn
		}
		if attempt > 0 {
			t.Fatalf("c10: Pool.Get on a fresh pool: %v", err)
		}
		run.Count("pool_get_failed_pool_replaced", 1)
		run.Observe("pool_get_error", err.Error())
		old := *pp
		*pp = mk()
		old.Close()
	}
}

func TestVerifC10Pooled(t *testing.T) {
	vk.Quiet()
	run := vk.Start(t, "C10", "pooled")
	defer run.Finish()
	run.Rule("connections obtained from the real Pool.Get (memory storage holds the peer address, harness runs the loopback listener); per case 1-7 MiB written to a FrameStream in seeded Write sizes (1 B .. 200 KiB), then stream Close and one of: Pool.CloseConn, MarkBroken+Release, Release into the pool (next case may reuse the connection); the peer (64 KiB receive buffer) starts reading only when the writer has finished all of that, or is stalled by back-pressure for 300 ms, and reads with 512 B .. 8 KiB buffers; distinct = (ending, size class, whether the connection was reused, whether the writer finished before the first read)")
	r := run.Rand("gen")
	ctx, cancel := context.WithCancel(context.Background())
	defer cancel()
	peerSide := c10NewPoolPeer(t)
	defer peerSide.closeAll()
	st := storage.NewMemoryStorage(ctx)
	if err := st.Set("tunnox:node:c10-node-b:addr", peerSide.ln.Addr().String(), time.Hour); err != nil {
		t.Fatalf("c10: storage set: %v", err)
	}
	// MaxConns is far above anything the run needs: the pool's "active" accounting (which
	// e.g. is not decremented when a broken connection is Released) is outside C10 and
	// must never be what stops this monitor; c10PoolGet additionally falls back to a
	// fresh pool should Get fail.
	mkPool := func() *Pool {
		return NewPool(ctx, st, "c10-node-a", PoolConfig{MinConns: 1, MaxConns: 4096, IdleTimeout: time.Hour, DialTimeout: 5 * time.Second})
	}
	pool := mkPool()
	defer func() { pool.Close() }()

	n := run.Pick(14, 120)
	endings := []string{"poolclose", "broken-release", "poolclose", "release"}
	for i := 0; i < n; i++ {
		ending := endings[r.Intn(len(endings))]
		total := (1 << 20) + r.Intn(6<<20)
		idStr := c10ClientID([]string{"tcp", "udp", "socks5"}[r.Intn(3)], int64(1727400000)*1e9+r.Int63n(int64(1e17)), 1024+r.Intn(60000))
		id := c10WireID(t, idStr)
		seed := r.Uint64()
		wr := rand.New(rand.NewSource(r.Int63()))
		rr := rand.New(rand.NewSource(r.Int63()))
		det := map[string]any{"seed": run.Seed, "case": i, "ending": ending, "total_bytes": total, "tunnel_id": idStr, "data_seed": seed}
		run.Case(fmt.Sprintf("pooled|%d|%s", i, ending), det)

		created0 := pool.Stats()["total_created"]
		poolBefore := pool
		conn := c10PoolGet(t, run, ctx, &pool, mkPool)
		reused := pool == poolBefore && pool.Stats()["total_created"] == created0
		peerTCP := peerSide.find(conn.LocalAddr().String())
		if peerTCP == nil {
			t.Fatalf("c10: accepted end of pooled connection %v not found", conn.LocalAddr())
		}
		dl := time.Now().Add(c10Watchdog)
		conn.SetDeadline(dl)
		peerTCP.SetDeadline(dl)
		fs := NewFrameStream(conn, id)
		peer := NewFrameStream(NewConn(ctx, "c10-node-a", peerTCP, nil), id)

		var w c10WRes
		var readSoFar atomic.Int64
		var readAtClose int64
		done := make(chan struct{})
		go func() {
			defer close(done)
			off := 0
			for off < total {
				k := 1 + wr.Intn(200<<10)
				if wr.Intn(4) == 0 {
					k = 1 + wr.Intn(3000)
				}
				if k > total-off {
					k = total - off
				}
				p := vk.Pattern(seed, off, k)
				nw, err := fs.Write(p)
				if err != nil {
					w.errStr = fmt.Sprintf("Write at offset %d (%d bytes): %v", off, k, err)
					w.timeout = c10IsTimeout(err)
					w.wantMax = append(append([]byte(nil), w.want...), p...)
					conn.GetTCPConn().CloseWrite()
					return
				}
				if nw != k {
					w.short = fmt.Sprintf("Write of %d bytes at offset %d returned n=%d, err=nil", k, off, nw)
					conn.GetTCPConn().CloseWrite()
					return
				}
				w.want = append(w.want, p...)
				off += k
			}
			w.wantMax = w.want
			if err := fs.Close(); err != nil {
				w.errStr = "stream Close: " + err.Error()
				w.timeout = c10IsTimeout(err)
				conn.GetTCPConn().CloseWrite()
				return
			}
			// tunnel finished: hand the connection back the way the product does
			switch ending {
			case "poolclose":
				pool.CloseConn(conn)
			case "broken-release":
				conn.MarkBroken()
				conn.Release()
			case "release":
				conn.SetDeadline(time.Time{})
				conn.Release()
			}
			readAtClose = readSoFar.Load()
		}()

		// slow consumer
		stalled := false
		select {
		case <-done:
		case <-time.After(300 * time.Millisecond):
			stalled = true
		}
		var rres c10RRes
		buf := make([]byte, 8192)
		for {
			k := 512 + rr.Intn(8192-512)
			nr, err := peer.Read(buf[:k])
			rres.reads++
			if nr > 0 {
				rres.got = append(rres.got, buf[:nr]...)
				readSoFar.Store(int64(len(rres.got)))
			}
			if err != nil {
				rres.err = err
				rres.timeout = c10IsTimeout(err)
				break
			}
			if len(rres.got) > total {
				rres.capHit = "reader received more bytes than were written"
				break
			}
		}
		<-done
		run.Eval(1)
		if ending != "release" || rres.err != io.EOF {
			peerSide.mu.Lock()
			delete(peerSide.byRA, peerTCP.RemoteAddr().String())
			peerSide.mu.Unlock()
			peerTCP.Close()
			if ending == "release" {
				pool.CloseConn(conn)
			}
		}
		if w.timeout || rres.timeout {
			run.Count("watchdog", 1)
			if run.Counter("watchdog") >= 3 {
				break
			}
			continue
		}
		dir := &c10Dir{Ending: "close"}
		class, jd := c10Judge(dir, &w, &rres)
		run.Count("bytes_compared", int64(len(rres.got)))
		run.Count("ending_"+ending, 1)
		if reused {
			run.Count("connection_reused_from_pool", 1)
		}
		if !stalled {
			run.Count("writer_finished_and_closed_before_first_read", 1)
		}
		if readAtClose < int64(total) {
			run.Count("reader_behind_when_connection_was_given_back", 1)
			run.Max("max_unread_bytes_at_close", int64(total)-readAtClose)
		}
		run.Distinct(fmt.Sprintf("%s|%dMiB|reused=%v|stalled=%v", ending, total>>20, reused, stalled))
		if i < 3 {
			run.Sample(det)
		}
		if class == "" {
			run.Count("cases_ok", 1)
			continue
		}
		for k, v := range det {
			jd[k] = v
		}
		jd["connection_reused"], jd["writer_stalled_by_backpressure"], jd["bytes_read_when_connection_given_back"] = reused, stalled, readAtClose
		run.Violation("C10:pooled|"+class+"|end="+ending, jd)
		if run.Violations() >= 6 {
			break
		}
	}
	if run.Counter("watchdog") == 0 {
		run.Count("watchdog_free", 1)
	}
	run.Floor("watchdog_free", 1)
	run.Floor("reader_behind_when_connection_was_given_back", int64(n*3/4))
	run.Floor("ending_poolclose", 2)
	run.Floor("ending_broken-release", 1)
}
