//go:build verif && verif_c10

package crossnode

import (
	"bytes"
	"encoding/binary"
	"fmt"
	"math/rand"
	"runtime"
	"testing"

	vk "tunnox-core/internal/verifkit"
)

// Monitor (b) "codec": WriteFrameToWriter -> ReadFrameFromReader round trip for every
// frame type x boundary lengths under arbitrary chunking of the byte stream.
// Monitor (c) "fuzz": ReadFrameFromReader on arbitrary byte strings: no panic, outcome
// equal to a reference reading of the header, bounded allocation.

type c10F struct {
	ID   [16]byte
	Type byte
	Len  int
	Seed uint64
	enc  int
	data []byte
}

var c10DefinedTypes = []byte{FrameTypeData, FrameTypeTargetReady, FrameTypeClose, FrameTypeAck, FrameTypeHTTPProxy,
	FrameTypeHTTPResponse, FrameTypeDNSQuery, FrameTypeDNSResponse, FrameTypeEOF, FrameTypeCommand, FrameTypeCommandResponse}

var c10CodecTypes = append(append([]byte(nil), c10DefinedTypes...), 0x00, 0x0A, 0x7F, 0x80, 0xFF)

var c10CodecLens = []int{0, 1, MaxFrameSize - 1, MaxFrameSize, MaxFrameSize + 1}

func c10RandID(r *rand.Rand) [16]byte {
	var id [16]byte
	switch r.Intn(5) {
	case 0: // all zero (command frames)
	case 1:
		for i := range id {
			id[i] = 0xFF
		}
	case 2:
		id, _ = TunnelIDFromString(c10ClientID("tcp", 1727400000e9+r.Int63n(1e15), 1+r.Intn(65535)))
	case 3:
		copy(id[:], c10RandString(r, 1+r.Intn(10)))
	default:
		r.Read(id[:])
	}
	return id
}

func c10Describe(seq []c10F) []string {
	var out []string
	for _, f := range seq {
		out = append(out, fmt.Sprintf("type=0x%02x len=%d id=%x", f.Type, f.Len, f.ID))
	}
	return out
}

func c10LenClass(n int) string {
	switch {
	case n == 0:
		return "0"
	case n == 1:
		return "1"
	case n == MaxFrameSize-1:
		return "max-1"
	case n == MaxFrameSize:
		return "max"
	case n > MaxFrameSize:
		return ">max"
	case n < 256:
		return "tiny"
	default:
		return "mid"
	}
}

// c10Encode encodes seq with the real writer. The frames the writer refuses must be
// exactly the ones above MaxFrameSize and must not leave bytes in the stream; kept is
// the sequence that is on the wire.
func c10Encode(run *vk.Run, seq []c10F) (wire []byte, kept []c10F, ok bool) {
	w := vk.NewRecWriter()
	for i := range seq {
		f := &seq[i]
		before := w.Len()
		f.data = vk.Pattern(f.Seed, 0, f.Len)
		err := WriteFrameToWriter(w, f.ID, f.Type, f.data)
		wrote := w.Len() - before
		if f.Len > MaxFrameSize {
			if err == nil {
				run.Violation("C10:codec|oversize-accepted-by-writer", map[string]any{"frame": c10Describe(seq[i : i+1])})
				return nil, nil, false
			}
			if wrote != 0 {
				run.Violation("C10:codec|oversize-rejected-but-bytes-written", map[string]any{"frame": c10Describe(seq[i : i+1]), "bytes": wrote})
				return nil, nil, false
			}
			run.Count("writer_rejected_oversize", 1)
			continue
		}
		if err != nil {
			run.Violation("C10:codec|writer-refused-valid-frame", map[string]any{"frame": c10Describe(seq[i : i+1]), "error": err.Error()})
			return nil, nil, false
		}
		f.enc = wrote
		kept = append(kept, *f)
	}
	return w.Bytes(), kept, true
}

func c10DecodeSeq(run *vk.Run, seq []c10F, wire []byte, chunks []int, class string, det func() any) bool {
	cr := vk.NewChunkReader(wire, append([]int(nil), chunks...))
	consumed := 0
	for i, f := range seq {
		var id [16]byte
		var ty byte
		var data []byte
		var err error
		if run.Guard("C10:codec", det(), func() { id, ty, data, err = ReadFrameFromReader(cr) }) {
			return false
		}
		consumed += f.enc
		sig := "C10:codec|part=" + class
		if err != nil {
			run.Violation(sig+"|decode-error", map[string]any{"index": i, "error": err.Error(), "case": det()})
			return false
		}
		if id != f.ID || ty != f.Type || !bytes.Equal(data, f.data) {
			run.Violation(sig+"|roundtrip-mismatch", map[string]any{"index": i, "got_type": ty, "got_len": len(data), "got_id": fmt.Sprintf("%x", id), "case": det()})
			return false
		}
		if d := cr.Delivered(); d != consumed {
			run.Violation(sig+"|consumption", map[string]any{"index": i, "delivered": d, "expected": consumed, "case": det()})
			return false
		}
	}
	// end of stream: the decoder must answer with an error, not with a frame
	var err error
	if run.Guard("C10:codec", det(), func() { _, _, _, err = ReadFrameFromReader(cr) }) {
		return false
	}
	if err == nil {
		run.Violation("C10:codec|frame-from-empty-stream", map[string]any{"case": det()})
		return false
	}
	return true
}

func TestVerifC10Codec(t *testing.T) {
	vk.Quiet()
	run := vk.Start(t, "C10", "codec")
	defer run.Finish()
	run.Rule("grid: 11 defined + 5 undefined frame types x payload lengths {0,1,64K-1,64K,64K+1} x 5 id kinds, then seeded sequences of 1-5 frames; encoded by WriteFrameToWriter (64K+1 must be refused without output), decoded by ReadFrameFromReader from vk.ChunkReader under partitions whole / 1-byte / every cut inside each header / header+1 / last byte / seeded random; distinct = (type, length class, partition class); non-trivial = stream split at least once")
	r := run.Rand("gen")
	var cases [][]c10F
	for _, ty := range c10CodecTypes {
		for _, n := range c10CodecLens {
			cases = append(cases, []c10F{{ID: c10RandID(r), Type: ty, Len: n, Seed: r.Uint64()}})
		}
	}
	nseq := run.Pick(150, 3000)
	for s := 0; s < nseq; s++ {
		var seq []c10F
		for i, k := 0, 1+r.Intn(5); i < k; i++ {
			ty := c10CodecTypes[r.Intn(len(c10CodecTypes))]
			if r.Intn(6) == 0 {
				ty = byte(r.Intn(256))
			}
			n := c10CodecLens[r.Intn(len(c10CodecLens))]
			if r.Intn(2) == 0 {
				n = []int{r.Intn(64), r.Intn(4096), r.Intn(MaxFrameSize + 1)}[r.Intn(3)]
			}
			seq = append(seq, c10F{ID: c10RandID(r), Type: ty, Len: n, Seed: r.Uint64()})
		}
		cases = append(cases, seq)
	}
	nrand := run.Pick(4, 16)
	for ci, seq0 := range cases {
		run.Case(fmt.Sprintf("codec|%d", ci), c10Describe(seq0))
		wire, seq, ok := c10Encode(run, seq0)
		if !ok {
			continue
		}
		total := 0
		for _, f := range seq {
			if f.enc != FrameHeaderSize+f.Len {
				run.Violation("C10:codec|encoded-length", map[string]any{"frame": c10Describe([]c10F{f}), "encoded": f.enc})
			}
			total += f.enc
		}
		do := func(class string, chunks []int) {
			det := func() any {
				c := chunks
				if len(c) > 24 {
					c = c[:24]
				}
				return map[string]any{"seed": run.Seed, "case": ci, "frames": c10Describe(seq), "partition": class, "chunks_head": c, "wire_len": len(wire)}
			}
			if c10DecodeSeq(run, seq, wire, chunks, class, det) {
				run.Count("roundtrips_ok", 1)
			}
			run.Eval(1)
			for _, f := range seq {
				run.Distinct(fmt.Sprintf("0x%02x|%s|%s", f.Type, c10LenClass(f.Len), class))
			}
		}
		if len(seq) == 0 {
			do("whole", nil)
			continue
		}
		do("whole", []int{len(wire)})
		if len(wire) <= 70000 {
			ones := make([]int, len(wire))
			for i := range ones {
				ones[i] = 1
			}
			do("bytes", ones)
		}
		off := 0
		for _, f := range seq {
			for d := 1; d <= FrameHeaderSize+1; d++ {
				if k := off + d; k < len(wire) {
					do("cut-header", []int{k, len(wire) - k})
					run.Count("cuts_in_header", 1)
				}
			}
			if k := off + f.enc - 1; k > 0 && k < len(wire) {
				do("cut-lastbyte", []int{k, len(wire) - k})
			}
			off += f.enc
		}
		for j := 0; j < nrand; j++ {
			mc := []int{2, 5, 21, 22, 1500, 70000}[r.Intn(6)]
			if mc < 21 && len(wire) > 200000 {
				mc = 1500
			}
			do("random", vk.RandPartition(r, len(wire), mc))
		}
		if ci < 3 {
			run.Sample(map[string]any{"frames": c10Describe(seq), "wire_len": len(wire)})
		}
		if run.Violations() >= 12 {
			break
		}
	}
	run.Floor("roundtrips_ok", 1000)
	run.Floor("cuts_in_header", 1000)
	run.Floor("writer_rejected_oversize", int64(len(c10CodecTypes)))
}

// ---- decoder fuzz ----

// c10Ref is the reference reading of the wire format given in the property
// ([tunnelID:16][type:1][len:4 BE], payload <= MaxFrameSize).
func c10Ref(b []byte) (okFrame bool, id [16]byte, ty byte, data []byte, class string) {
	if len(b) < FrameHeaderSize {
		return false, id, 0, nil, "short-header"
	}
	l := binary.BigEndian.Uint32(b[17:21])
	if l > MaxFrameSize {
		return false, id, 0, nil, "oversize-length"
	}
	if len(b) < FrameHeaderSize+int(l) {
		return false, id, 0, nil, "short-payload"
	}
	copy(id[:], b[:16])
	return true, id, b[16], b[FrameHeaderSize : FrameHeaderSize+int(l)], "valid"
}

func c10ValidFrame(r *rand.Rand, n int) []byte {
	b := make([]byte, FrameHeaderSize+n)
	r.Read(b)
	if r.Intn(2) == 0 {
		b[16] = c10DefinedTypes[r.Intn(len(c10DefinedTypes))]
	}
	binary.BigEndian.PutUint32(b[17:21], uint32(n))
	return b
}

var c10ExtremeLens = []uint32{MaxFrameSize + 1, MaxFrameSize + 2, 2 * MaxFrameSize, 0x00FFFFFF, 0x01000000, 0x7FFFFFFF, 0x80000000, 0x80010000, 0xFFFF0000, 0xFFFFFFFE, 0xFFFFFFFF}

func c10FuzzInput(r *rand.Rand, i int) (b []byte, gen string) {
	switch r.Intn(7) {
	case 0:
		b = make([]byte, r.Intn(120))
		r.Read(b)
		return b, "random"
	case 1: // extreme length field, some tail
		b = c10ValidFrame(r, []int{0, r.Intn(300), 70000}[r.Intn(3)])
		l := c10ExtremeLens[i%len(c10ExtremeLens)]
		if r.Intn(4) == 0 {
			l = MaxFrameSize + 1 + uint32(r.Int63n(1<<32-MaxFrameSize-1))
		}
		binary.BigEndian.PutUint32(b[17:21], l)
		return b, "extreme-length"
	case 2: // mutated valid frame
		b = c10ValidFrame(r, []int{0, 1, r.Intn(64), r.Intn(2000)}[r.Intn(4)])
		for k := 1 + r.Intn(3); k > 0; k-- {
			pos := r.Intn(len(b))
			if r.Intn(2) == 0 {
				pos = 16 + r.Intn(5) // type / length field
			}
			if pos < len(b) {
				b[pos] ^= 1 << r.Intn(8)
			}
		}
		return b, "mutated"
	case 3: // truncated valid frame
		b = c10ValidFrame(r, []int{0, 1, r.Intn(64), r.Intn(5000), MaxFrameSize}[r.Intn(5)])
		return b[:r.Intn(len(b))], "truncated"
	case 4: // valid frame followed by garbage
		b = c10ValidFrame(r, []int{0, 1, r.Intn(300), MaxFrameSize}[r.Intn(4)])
		tail := make([]byte, r.Intn(40))
		r.Read(tail)
		return append(b, tail...), "valid+tail"
	case 5: // length exactly at the limit with too little payload
		b = c10ValidFrame(r, r.Intn(100))
		binary.BigEndian.PutUint32(b[17:21], uint32(MaxFrameSize-r.Intn(2)))
		return b, "limit-length-short-payload"
	default: // text-like input (HTTP request sent to the cross-node port, etc.)
		s := []string{"GET / HTTP/1.1\r\nHost: x\r\n\r\n", "\x16\x03\x01\x02\x00\x01\x00\x01\xfc\x03\x03", "SSH-2.0-OpenSSH_9.6\r\n", ""}[r.Intn(4)]
		return append([]byte(s), make([]byte, r.Intn(30))...), "protocol-confusion"
	}
}

const c10AllocSlack = 16 * 1024

// c10DecodeMeasured runs one decode and returns the bytes allocated meanwhile.
func c10DecodeMeasured(run *vk.Run, b []byte, chunks []int, det any) (panicked bool, id [16]byte, ty byte, data []byte, err error, alloc uint64, delivered int) {
	cr := vk.NewChunkReader(b, chunks)
	var m0, m1 runtime.MemStats
	runtime.ReadMemStats(&m0)
	panicked = run.Guard("C10:fuzz", det, func() { id, ty, data, err = ReadFrameFromReader(cr) })
	runtime.ReadMemStats(&m1)
	return panicked, id, ty, data, err, m1.TotalAlloc - m0.TotalAlloc, cr.Delivered()
}

func c10FuzzOne(run *vk.Run, r *rand.Rand, b []byte, gen string, idx int) {
	var chunks []int
	part := "whole"
	switch r.Intn(3) {
	case 1:
		if len(b) > 0 {
			chunks = vk.RandPartition(r, len(b), 1+r.Intn(30))
			part = "random"
		}
	case 2:
		if len(b) > 0 && len(b) < 4096 {
			chunks = make([]int, len(b))
			for i := range chunks {
				chunks[i] = 1
			}
			part = "bytes"
		}
	}
	head := b
	if len(head) > 48 {
		head = head[:48]
	}
	det := map[string]any{"seed": run.Seed, "index": idx, "generator": gen, "input_len": len(b), "input_head_hex": fmt.Sprintf("%x", head), "partition": part}
	wantOK, wid, wty, wdata, class := c10Ref(b)
	panicked, id, ty, data, err, alloc, delivered := c10DecodeMeasured(run, b, append([]int(nil), chunks...), det)
	run.Eval(1)
	run.Count("fuzz_"+class, 1)
	run.Distinct(gen + "|" + class + "|" + part)
	if panicked {
		return
	}
	switch {
	case wantOK && err != nil:
		det["error"] = err.Error()
		run.Violation("C10:fuzz|valid-frame-rejected", det)
	case wantOK && (id != wid || ty != wty || !bytes.Equal(data, wdata)):
		det["got_len"], det["got_type"] = len(data), ty
		run.Violation("C10:fuzz|valid-frame-misdecoded", det)
	case wantOK && delivered != FrameHeaderSize+len(wdata):
		det["consumed"] = delivered
		run.Violation("C10:fuzz|consumption", det)
	case !wantOK && err == nil:
		det["got_len"], det["got_type"] = len(data), ty
		run.Violation("C10:fuzz|"+class+"-accepted", det)
	}
	limit := uint64(MaxFrameSize + FrameHeaderSize + c10AllocSlack)
	run.Max("max_alloc_per_decode", int64(alloc))
	if alloc > limit {
		// other goroutines of the test binary may allocate in the window: repeat
		min := alloc
		for k := 0; k < 4 && min > limit; k++ {
			_, _, _, _, _, a, _ := c10DecodeMeasured(run, b, append([]int(nil), chunks...), det)
			if a < min {
				min = a
			}
		}
		if min > limit {
			det["allocated_bytes"], det["limit"] = min, limit
			run.Violation("C10:fuzz|alloc-over-limit|"+class, det)
		} else {
			run.Count("alloc_measurement_noise", 1)
		}
	}
}

func TestVerifC10Fuzz(t *testing.T) {
	vk.Quiet()
	run := vk.Start(t, "C10", "fuzz")
	defer run.Finish()
	run.Rule("byte strings for ReadFrameFromReader: random (0-120 B), valid frames with extreme length fields (64K+1 .. 0xFFFFFFFF), bit-flipped valid frames (biased to type/length bytes), valid frames truncated at a seeded offset and small frames truncated at EVERY offset, valid frame + garbage, limit length with short payload, foreign protocol greetings; delivered whole / seeded chunks / byte by byte; oracle = reference reading of the header (valid -> identical frame and exact consumption; otherwise error), no panic, TotalAlloc delta per decode <= 64KiB+21+16KiB; distinct = (generator, reference class, partition)")
	r := run.Rand("gen")
	// exhaustive truncation of small frames
	idx := 0
	for _, n := range []int{0, 1, 2, 40} {
		for _, ty := range []byte{FrameTypeData, FrameTypeClose, 0xFF} {
			f := c10ValidFrame(r, n)
			f[16] = ty
			for cut := 0; cut <= len(f); cut++ {
				c10FuzzOne(run, r, f[:cut], "truncate-every-offset", idx)
				idx++
				run.Count("truncations_every_offset", 1)
			}
		}
	}
	for _, l := range c10ExtremeLens {
		b := c10ValidFrame(r, 64)
		binary.BigEndian.PutUint32(b[17:21], l)
		c10FuzzOne(run, r, b, "extreme-length", idx)
		idx++
	}
	n := run.Pick(50000, 2000000)
	for i := 0; i < n; i++ {
		b, gen := c10FuzzInput(r, i)
		if i%1000 == 0 {
			run.Case(fmt.Sprintf("fuzz|%d|%s", i, gen), map[string]any{"len": len(b)})
		}
		c10FuzzOne(run, r, b, gen, idx)
		idx++
		if i < 4 {
			h := b
			if len(h) > 32 {
				h = h[:32]
			}
			run.Sample(map[string]any{"generator": gen, "len": len(b), "head_hex": fmt.Sprintf("%x", h)})
		}
		if run.Violations() >= 12 {
			break
		}
	}
	run.Floor("fuzz_valid", 1000)
	run.Floor("fuzz_short-header", 1000)
	run.Floor("fuzz_short-payload", 1000)
	run.Floor("fuzz_oversize-length", 1000)
	run.Floor("truncations_every_offset", 300)
}
