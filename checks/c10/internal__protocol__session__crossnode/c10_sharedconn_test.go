//go:build verif && verif_c10

package crossnode

import (
	"bytes"
	"fmt"
	"io"
	"math/rand"
	"runtime"
	"sync"
	"sync/atomic"
	"testing"

	vk "tunnox-core/internal/verifkit"
)

// Monitor (i) "sharedconn": several goroutines write frames CONCURRENTLY on one
// cross-node connection through the real write path (FrameStream.Write/Close ->
// WriteFrame on the *net.TCPConn): tunnel A (seeded write sizes up to several frames),
// tunnel B (a second FrameStream on the same Conn hammering small writes) and, in part
// of the cases, a third goroutine sending late Close/EOF/control frames of a finished
// tunnel C with WriteFrame. The wire format carries the tunnel id in every frame so
// that such frames can share a connection; each FrameStream serialises only its own
// writes. The peer must see whole frames only:
//   demux reader  : the real ReadFrame in a loop; every frame belongs to A, B or C,
//                   every tunnel's data frames concatenate to exactly what it wrote,
//                   C's frames arrive unchanged and in order, no decode error;
//   stream reader : a real FrameStream for tunnel A on the peer; bytes read == A's
//                   writes, then io.EOF (B and C filtered).
// Writers start behind a spin barrier; the number of id changes between consecutive
// frames on the wire is the evidence that they really ran interleaved.

type c10SCWriter struct {
	name    string
	id      [16]byte
	want    []byte // data bytes accepted (A, B) / concatenated payloads (C)
	ctlSeq  []c10Frame
	errStr  string
	timeout bool
}

func TestVerifC10SharedConn(t *testing.T) {
	vk.Quiet()
	run := vk.Start(t, "C10", "sharedconn")
	defer run.Finish()
	run.Rule("one loopback *net.TCPConn pair per case; 2-3 goroutines behind a spin barrier write on the SAME Conn: FrameStream A (1-4 MiB in seeded writes {1..4K, ..64K, 64K+1..200K}, then Close/CloseWrite), FrameStream B (1-4000 byte writes as fast as it can until A is done, then Close), optionally raw WriteFrame of Close/EOF/Ack/Command/Data frames with id C; peer side: demux with the real ReadFrame (2/3 of the cases) or a real FrameStream for A with seeded buffers; distinct = (reader, third writer, A ending, A size class); non-trivial = frames of different writers alternate on the wire")
	r := run.Rand("gen")
	ln := c10Listen(t)
	defer ln.Close()
	n := run.Pick(18, 300)
	for i := 0; i < n && run.Violations() < 8 && run.Counter("watchdog") < 3; i++ {
		reader := []string{"demux", "demux", "stream"}[i%3]
		third := i%2 == 0
		endA := []string{"close", "closewrite"}[r.Intn(2)]
		totalA := 1<<20 + r.Intn(3<<20)
		var ids [3][16]byte
		var idStrs [3]string
		for k := range ids {
			idStrs[k] = c10ClientID([]string{"tcp", "udp", "socks5"}[r.Intn(3)], int64(1727400000)*1e9+r.Int63n(int64(1e17)), 1024+r.Intn(60000))
			ids[k] = c10WireID(t, idStrs[k])
		}
		if ids[0] == ids[1] || ids[0] == ids[2] || ids[1] == ids[2] {
			continue
		}
		seeds := [3]uint64{r.Uint64(), r.Uint64(), r.Uint64()}
		rs := [4]*rand.Rand{rand.New(rand.NewSource(r.Int63())), rand.New(rand.NewSource(r.Int63())), rand.New(rand.NewSource(r.Int63())), rand.New(rand.NewSource(r.Int63()))}
		det := map[string]any{"seed": run.Seed, "case": i, "reader": reader, "third_writer": third, "A_ending": endA, "A_bytes": totalA,
			"tunnel_A": idStrs[0], "tunnel_B": idStrs[1], "tunnel_C": idStrs[2]}
		run.Case(fmt.Sprintf("sharedconn|%d|%s", i, reader), det)

		link := c10Dial(t, ln)
		sA, sB := NewFrameStream(link.ca, ids[0]), NewFrameStream(link.ca, ids[1])
		wA := &c10SCWriter{name: "A", id: ids[0]}
		wB := &c10SCWriter{name: "B", id: ids[1]}
		wC := &c10SCWriter{name: "C", id: ids[2]}
		var start, ready int32
		var aDone atomic.Bool
		nw := 2
		if third {
			nw = 3
		}
		barrier := func() {
			atomic.AddInt32(&ready, 1)
			for spins := 1; atomic.LoadInt32(&start) == 0; spins++ {
				if spins%(1<<14) == 0 {
					runtime.Gosched()
				}
			}
		}
		fail := func(w *c10SCWriter, what string, err error) {
			w.errStr = what + ": " + err.Error()
			w.timeout = c10IsTimeout(err)
		}
		var wg sync.WaitGroup
		wg.Add(nw)
		go func() { // tunnel A
			defer wg.Done()
			defer aDone.Store(true)
			barrier()
			off := 0
			for off < totalA {
				k := c10WriteSize(rs[0])
				if k > totalA-off {
					k = totalA - off
				}
				p := vk.Pattern(seeds[0], off, k)
				if nn, err := sA.Write(p); err != nil || nn != k {
					if err == nil {
						err = fmt.Errorf("short write n=%d of %d", nn, k)
					}
					fail(wA, fmt.Sprintf("Write at %d", off), err)
					return
				}
				wA.want = append(wA.want, p...)
				off += k
			}
			var err error
			if endA == "close" {
				err = sA.Close()
			} else {
				err = sA.CloseWrite()
			}
			if err != nil {
				fail(wA, "ending "+endA, err)
			}
		}()
		go func() { // tunnel B: small writes until A is done
			defer wg.Done()
			barrier()
			off := 0
			for !aDone.Load() && off < 24<<20 {
				k := 1 + rs[1].Intn(4000)
				p := vk.Pattern(seeds[1], off, k)
				if nn, err := sB.Write(p); err != nil || nn != k {
					if err == nil {
						err = fmt.Errorf("short write n=%d of %d", nn, k)
					}
					fail(wB, fmt.Sprintf("Write at %d", off), err)
					return
				}
				wB.want = append(wB.want, p...)
				off += k
			}
			if err := sB.Close(); err != nil {
				fail(wB, "Close", err)
			}
		}()
		if third {
			go func() { // late frames of a finished tunnel C / control frames
				defer wg.Done()
				barrier()
				off := 0
				for !aDone.Load() && len(wC.ctlSeq) < 200000 {
					ty := []byte{FrameTypeClose, FrameTypeEOF, FrameTypeAck, FrameTypeCommand, FrameTypeData, FrameTypeData}[rs[2].Intn(6)]
					k := 0
					if ty != FrameTypeClose && ty != FrameTypeEOF {
						k = rs[2].Intn(3000)
					}
					p := vk.Pattern(seeds[2], off, k)
					if err := WriteFrame(link.ta, ids[2], ty, p); err != nil {
						fail(wC, "WriteFrame", err)
						return
					}
					wC.ctlSeq = append(wC.ctlSeq, c10Frame{Kind: "C", ID: ids[2], Type: ty, Len: k})
					wC.want = append(wC.want, p...)
					off += k
				}
			}()
		}
		go func() {
			for atomic.LoadInt32(&ready) != int32(nw) {
				runtime.Gosched()
			}
			atomic.StoreInt32(&start, 1)
			wg.Wait()
			// nothing more will be written: let the peer's reader reach the end of the byte stream
			link.ta.CloseWrite()
		}()

		// ---- peer side ----
		class := ""
		var alternations, frames int64
		timeout := false
		switch reader {
		case "demux":
			got := map[[16]byte]*bytes.Buffer{ids[0]: {}, ids[1]: {}, ids[2]: {}}
			ended := map[[16]byte]byte{}
			var cSeen []c10Frame
			var last [16]byte
			for {
				id, ty, data, err := ReadFrame(link.tb)
				if err != nil {
					if c10IsTimeout(err) {
						timeout = true
					} else if err != io.EOF {
						class = "decode-error"
						det["decode_error"] = err.Error()
					}
					break
				}
				frames++
				if frames > 1 && id != last {
					alternations++
				}
				last = id
				buf, known := got[id]
				if !known {
					class = "frame-with-unknown-tunnel-id"
					det["unknown_id"], det["frame_type"], det["frame_len"] = fmt.Sprintf("%x", id), ty, len(data)
					break
				}
				if id == ids[2] {
					cSeen = append(cSeen, c10Frame{Kind: "C", ID: id, Type: ty, Len: len(data)})
					buf.Write(data)
					continue
				}
				switch ty {
				case FrameTypeData:
					if ended[id] != 0 {
						class = "data-after-end-frame"
					}
					buf.Write(data)
				case FrameTypeEOF, FrameTypeClose:
					ended[id] = ty
				default:
					class = "frame-type-never-sent"
					det["frame_type"] = ty
				}
				if class != "" {
					break
				}
			}
			if class != "" || timeout {
				link.drain(link.tb)
			}
			wg.Wait()
			if class == "" && !timeout {
				for _, w := range []*c10SCWriter{wA, wB} {
					switch {
					case w.errStr != "":
						class = "write-error|tunnel=" + w.name
						det["write_error"] = w.errStr
					case !bytes.Equal(got[w.id].Bytes(), w.want):
						class = "tunnel-bytes-" + c10SCDiff(got[w.id].Bytes(), w.want) + "|tunnel=" + w.name
						det["delivered"], det["written"] = got[w.id].Len(), len(w.want)
					case ended[w.id] == 0:
						class = "end-frame-missing|tunnel=" + w.name
					}
					if class != "" {
						break
					}
				}
				if class == "" && third {
					switch {
					case wC.errStr != "":
						class = "write-error|tunnel=C"
						det["write_error"] = wC.errStr
					case len(cSeen) != len(wC.ctlSeq) || !bytes.Equal(got[ids[2]].Bytes(), wC.want):
						class = "control-frames-changed"
						det["frames_sent"], det["frames_seen"] = len(wC.ctlSeq), len(cSeen)
					default:
						for k := range cSeen {
							if cSeen[k] != wC.ctlSeq[k] {
								class = "control-frames-changed"
								det["first_changed_frame"] = k
								break
							}
						}
					}
				}
			}
		default: // stream reader for tunnel A
			sR := NewFrameStream(link.cb, ids[0])
			d := &c10Dir{Ending: "close", BufClass: []string{"small", "large", "mixed", "frame"}[rs[3].Intn(4)], ReadSeed: rs[3].Int63()}
			var rr c10RRes
			c10RunReader(sR, d, totalA, &rr)
			link.drain(link.tb)
			wg.Wait()
			timeout = rr.timeout
			if !timeout {
				w := c10WRes{want: wA.want, wantMax: wA.want, errStr: wA.errStr}
				cl, jd := c10Judge(d, &w, &rr)
				if cl != "" {
					class = cl + "|tunnel=A"
					for k, v := range jd {
						det[k] = v
					}
				}
			}
		}
		link.close()
		run.Eval(1)
		if timeout || wA.timeout || wB.timeout || wC.timeout {
			run.Count("watchdog", 1)
			continue
		}
		run.Count("reader_"+reader, 1)
		run.Count("frames_decoded_by_demux", frames)
		run.Count("writer_alternations_on_the_wire", alternations)
		run.Count("bytes_compared", int64(len(wA.want)+len(wB.want)+len(wC.want)))
		if third {
			run.Count("cases_with_third_writer", 1)
		}
		run.Distinct(fmt.Sprintf("%s|third=%v|%s|%dK", reader, third, endA, totalA>>18<<8))
		if i < 3 {
			run.Sample(det)
		}
		if class == "" {
			run.Count("cases_ok", 1)
			continue
		}
		det["bytes_written_A"], det["bytes_written_B"], det["frames_written_C"] = len(wA.want), len(wB.want), len(wC.ctlSeq)
		run.Violation("C10:sharedconn|"+class+"|reader="+reader, det)
	}
	if run.Counter("watchdog") == 0 {
		run.Count("watchdog_free", 1)
	}
	run.Floor("watchdog_free", 1)
	run.Floor("reader_demux", int64(n/2))
	run.Floor("reader_stream", int64(n/4))
	run.Floor("cases_with_third_writer", int64(n/3))
	run.Floor("writer_alternations_on_the_wire", int64(n*5))
}

func c10SCDiff(got, want []byte) string {
	switch {
	case len(got) < len(want) && bytes.HasPrefix(want, got):
		return "truncated"
	case len(got) > len(want) && bytes.HasPrefix(got, want):
		return "extra"
	default:
		return "corrupt"
	}
}
