//go:build verif && verif_c10

package crossnode

import (
	"bytes"
	"fmt"
	"net"
	"testing"
	"time"

	vk "tunnox-core/internal/verifkit"
)

// TestVerifC10SizeSweep round-trips a data frame of EVERY payload size in the swept
// ranges through both writers (WriteFrame over a real loopback *net.TCPConn and
// WriteFrameToWriter) and both readers, and through FrameStream.Write for sizes whose
// last segment falls in the swept ranges. A size-dependent fast path / buffer bound in
// either writer shows up as a mismatch at exactly the sizes it mishandles.
func TestVerifC10SizeSweep(t *testing.T) {
	run := vk.Start(t, "C10", "sizesweep")
	defer run.Finish()
	run.Rule("data frames of every payload size n in the swept set (quick: 0..9000, and +-48 around every multiple of 4096 and every power of two up to MaxFrameSize; thorough: every n in 0..MaxFrameSize) written with WriteFrame over loopback TCP and with WriteFrameToWriter, read back with ReadFrame / ReadFrameFromReader; distinct = (writer, n)")
	sizes := map[int]bool{}
	if run.Thorough() {
		for n := 0; n <= MaxFrameSize; n++ {
			sizes[n] = true
		}
	} else {
		for n := 0; n <= 9000; n++ {
			sizes[n] = true
		}
		for c := 4096; c <= MaxFrameSize; c += 4096 {
			for d := -48; d <= 48; d++ {
				if c+d >= 0 && c+d <= MaxFrameSize {
					sizes[c+d] = true
				}
			}
		}
		for c := 1; c <= MaxFrameSize; c *= 2 {
			for d := -48; d <= 48; d++ {
				if c+d >= 0 && c+d <= MaxFrameSize {
					sizes[c+d] = true
				}
			}
		}
	}
	ln, err := net.Listen("tcp", "127.0.0.1:0")
	if err != nil {
		t.Fatalf("listen: %v", err)
	}
	defer ln.Close()
	acc := make(chan net.Conn, 1)
	go func() { c, _ := ln.Accept(); acc <- c }()
	wc, err := net.Dial("tcp", ln.Addr().String())
	if err != nil {
		t.Fatalf("dial: %v", err)
	}
	rc := <-acc
	defer wc.Close()
	defer rc.Close()
	wt, rt := wc.(*net.TCPConn), rc.(*net.TCPConn)
	var id [16]byte
	copy(id[:], "sweep-tunnel-id!")
	order := make([]int, 0, len(sizes))
	for n := 0; n <= MaxFrameSize; n++ {
		if sizes[n] {
			order = append(order, n)
		}
	}
	// writer goroutine for the TCP path
	werr := make(chan error, 1)
	go func() {
		for _, n := range order {
			if err := WriteFrame(wt, id, FrameTypeData, vk.Pattern(uint64(n), 0, n)); err != nil {
				werr <- fmt.Errorf("WriteFrame(n=%d): %v", n, err)
				return
			}
		}
		werr <- nil
	}()
	bad := 0
	for _, n := range order {
		run.Case(fmt.Sprintf("tcp|n=%d", n), nil)
		rt.SetReadDeadline(time.Now().Add(20 * time.Second))
		gid, gty, data, err := ReadFrame(rt)
		run.Eval(1)
		run.Distinct(fmt.Sprintf("tcp|%d", n))
		want := vk.Pattern(uint64(n), 0, n)
		if err != nil || gid != id || gty != FrameTypeData || !bytes.Equal(data, want) {
			run.Violation("C10:sizesweep|writer=WriteFrame|mismatch", map[string]any{"n": n, "err": fmt.Sprint(err), "got_len": len(data), "type": gty})
			bad++
			break // framing is lost from here on
		}
	}
	if bad == 0 {
		if e := <-werr; e != nil {
			run.Violation("C10:sizesweep|writer=WriteFrame|write-error", map[string]any{"err": e.Error()})
		}
	}
	// generic writer path
	for _, n := range order {
		var buf bytes.Buffer
		want := vk.Pattern(uint64(n)+7, 0, n)
		if err := WriteFrameToWriter(&buf, id, FrameTypeData, want); err != nil {
			run.Violation("C10:sizesweep|writer=WriteFrameToWriter|write-error", map[string]any{"n": n, "err": err.Error()})
			break
		}
		gid, gty, data, err := ReadFrameFromReader(&buf)
		run.Eval(1)
		run.Distinct(fmt.Sprintf("w|%d", n))
		if err != nil || gid != id || gty != FrameTypeData || !bytes.Equal(data, want) || buf.Len() != 0 {
			run.Violation("C10:sizesweep|writer=WriteFrameToWriter|mismatch", map[string]any{"n": n, "err": fmt.Sprint(err), "got_len": len(data), "left": buf.Len()})
			break
		}
	}
	run.Sample(map[string]any{"sizes": len(order), "first": order[:5], "last": order[len(order)-3:]})
	run.Count("sizes_swept", int64(len(order)))
	run.Floor("sizes_swept", 9000)
}
