//go:build verif && verif_c10

package session

import (
	"bytes"
	"context"
	"fmt"
	"io"
	"math/rand"
	"net"
	"testing"
	"time"

	"tunnox-core/internal/core/idgen"
	"tunnox-core/internal/core/storage"
	vk "tunnox-core/internal/verifkit"
)

// C10 monitor (g) "listener": the real CrossNodeListener (Start on an ephemeral
// loopback port) of a SessionManager that holds a waiting bridge for the tunnel. The
// harness plays the target node: it dials the port, sends the TargetReady frame and
// the tunnel payload under seeded segmentations -- handshake frame and the first
// payload bytes in ONE write, frame alone then payload (with a seeded small pause),
// frame cut inside its header / body, everything in one write -- and half-closes. The
// source end of the bridge is a real loopback TCP pair; it also sends bytes the other
// way. Oracle: the source end receives exactly the bytes sent after the TargetReady
// frame, from the first byte, then EOF; the target side receives exactly what the
// source end sent, then EOF.

func c10lIDString(r *rand.Rand) string {
	nano := int64(1727400000)*1e9 + r.Int63n(int64(1e17))
	switch r.Intn(4) {
	case 0:
		return fmt.Sprintf("c10l-%d", r.Intn(1e9))
	case 1:
		return fmt.Sprintf("tun_%08x-%04x-7%03x-8%03x-%012x", r.Uint32(), r.Intn(1<<16), r.Intn(1<<12), r.Intn(1<<12), r.Int63n(1<<48))
	default:
		return fmt.Sprintf("%s-tunnel-%d-%d", []string{"tcp", "udp", "socks5"}[r.Intn(3)], nano, 1024+r.Intn(60000))
	}
}

func TestVerifC10Listener(t *testing.T) {
	vk.Quiet()
	run := vk.Start(t, "C10", "listener")
	defer run.Finish()
	run.Rule("real CrossNodeListener + SessionManager with a registered TunnelBridge (source end = loopback TCP pair); target side writes TargetReady frame + payload (0 .. 300 KiB) with segmentation classes coalesced-head (frame + first k payload bytes in one write, k in {1, 40, <4K, 4K..8K, all}), separate (frame, optional pause 0-3 ms, payload), split-frame (frame cut at a seeded offset, second part glued to the payload head), single-write (everything in one write); reverse direction 0 .. 200 KiB concurrently; tunnel ids of client / server / short shape; distinct = (segmentation class, head size class, payload size class, id shape)")
	r := run.Rand("gen")
	ctx, cancel := context.WithCancel(context.Background())
	defer cancel()
	stor := storage.NewMemoryStorage(ctx)
	idm := idgen.NewIDManager(stor, ctx)
	defer idm.Close()
	sm := NewSessionManager(idm, ctx)
	defer sm.Close()
	l := NewCrossNodeListener(sm, 0)
	if err := l.Start(ctx); err != nil {
		t.Fatalf("c10: listener start: %v", err)
	}
	defer l.Stop()
	addr := fmt.Sprintf("127.0.0.1:%d", l.listener.Addr().(*net.TCPAddr).Port)
	ln, err := net.Listen("tcp", "127.0.0.1:0")
	if err != nil {
		t.Fatalf("c10: listen: %v", err)
	}
	defer ln.Close()

	n := run.Pick(120, 2000)
	segs := []string{"coalesced-head", "separate", "split-frame", "single-write", "coalesced-head"}
	for i := 0; i < n; i++ {
		seg := segs[i%len(segs)]
		idStr := c10lIDString(r)
		size := []int{0, 1, 40, 1 + r.Intn(4096), 1 + r.Intn(300<<10), 1 + r.Intn(300<<10)}[r.Intn(6)]
		if seg == "coalesced-head" && size == 0 {
			size = 40
		}
		rev := []int{0, 1 + r.Intn(2000), 1 + r.Intn(200<<10)}[r.Intn(3)]
		payload, revData := vk.Pattern(r.Uint64(), 0, size), vk.Pattern(r.Uint64(), 0, rev)
		head := 0
		switch seg {
		case "coalesced-head":
			head = []int{1, 40, 1 + r.Intn(4096), 4096 + r.Intn(4096), size}[r.Intn(5)]
			if head > size {
				head = size
			}
		case "single-write":
			head = size
		}
		pauseUs := []int{0, 0, 200, 3000}[r.Intn(4)]
		det := map[string]any{"seed": run.Seed, "case": i, "segmentation": seg, "tunnel_id": idStr, "payload_bytes": size,
			"payload_bytes_in_first_write": head, "reverse_bytes": rev, "pause_us": pauseUs}
		run.Case(fmt.Sprintf("listener|%d|%s", i, seg), det)

		srcClient, srcServer := c10fPair(t, ln)
		bridge := NewTunnelBridge(ctx, &TunnelBridgeConfig{TunnelID: idStr, MappingID: "c10-listener-mapping", SourceConn: srcServer})
		sm.bridgeLock.Lock()
		sm.tunnelBridges[idStr] = bridge
		sm.bridgeLock.Unlock()

		c, err := net.DialTimeout("tcp", addr, 10*time.Second)
		if err != nil {
			t.Fatalf("c10: dial cross-node listener: %v", err)
		}
		cross := c.(*net.TCPConn)
		cross.SetDeadline(time.Now().Add(c10fWatchdog))
		cross.SetNoDelay(true)

		wireID, _ := TunnelIDFromString(idStr)
		var frame bytes.Buffer
		if err := WriteFrameToWriter(&frame, wireID, FrameTypeTargetReady, EncodeTargetReadyMessage(idStr, "c10-node-target")); err != nil {
			t.Fatalf("c10: encode TargetReady: %v", err)
		}

		srcSink, crossSink := c10fNewSink(), c10fNewSink()
		go srcSink.run(srcClient, rand.New(rand.NewSource(r.Int63())), size)
		go crossSink.run(cross, rand.New(rand.NewSource(r.Int63())), rev)
		// reverse direction, concurrently
		revDone := make(chan error, 1)
		revR := rand.New(rand.NewSource(r.Int63()))
		go func() {
			off := 0
			for off < len(revData) {
				k := 1 + revR.Intn(70000)
				if k > len(revData)-off {
					k = len(revData) - off
				}
				if _, err := srcClient.Write(revData[off : off+k]); err != nil {
					revDone <- err
					return
				}
				off += k
			}
			revDone <- srcClient.CloseWrite()
		}()

		var werr error
		write := func(b []byte) {
			if werr == nil && len(b) > 0 {
				_, werr = cross.Write(b)
			}
		}
		fb := frame.Bytes()
		rest := payload
		switch seg {
		case "coalesced-head", "single-write":
			write(append(append([]byte(nil), fb...), payload[:head]...))
			rest = payload[head:]
		case "separate":
			write(fb)
			if pauseUs > 0 {
				time.Sleep(time.Duration(pauseUs) * time.Microsecond)
			}
		case "split-frame":
			cut := 1 + r.Intn(len(fb)-1)
			det["frame_cut_at"] = cut
			write(fb[:cut])
			if pauseUs > 0 {
				time.Sleep(time.Duration(pauseUs) * time.Microsecond)
			}
			h := 40
			if h > len(payload) {
				h = len(payload)
			}
			write(append(append([]byte(nil), fb[cut:]...), payload[:h]...))
			rest = payload[h:]
		}
		for len(rest) > 0 && werr == nil {
			k := 1 + r.Intn(70000)
			if k > len(rest) {
				k = len(rest)
			}
			write(rest[:k])
			rest = rest[k:]
		}
		if werr == nil {
			werr = cross.CloseWrite()
		}
		srcGot, srcErr := srcSink.wait()
		rerr := <-revDone
		crossGot, crossErr := crossSink.wait()
		cross.Close()
		srcClient.Close()
		sm.bridgeLock.Lock()
		delete(sm.tunnelBridges, idStr)
		sm.bridgeLock.Unlock()
		bridge.Close()
		run.Eval(1)
		if c10fTimeout(werr) || c10fTimeout(rerr) || c10fTimeout(srcErr) || c10fTimeout(crossErr) {
			run.Count("watchdog", 1)
			if run.Counter("watchdog") >= 3 {
				break
			}
			continue
		}
		run.Count("seg_"+seg, 1)
		run.Count("bytes_compared", int64(len(srcGot)+len(crossGot)))
		if head > 0 {
			run.Count("cases_with_payload_in_handshake_write", 1)
		}
		shape := "client"
		if len(idStr) < 16 {
			shape = "short"
		} else if idStr[:4] == "tun_" {
			shape = "server"
		}
		run.Distinct(fmt.Sprintf("%s|head=%s|size=%s|%s", seg, c10fClass(head), c10fClass(size), shape))
		if i < 3 {
			run.Sample(det)
		}
		class := ""
		switch {
		case werr != nil:
			class = "target-write-refused"
		case rerr != nil:
			class = "source-write-refused"
		case !bytes.Equal(srcGot, payload):
			class = "to-source-" + c10fDiff(srcGot, payload)
			if len(srcGot) < len(payload) && bytes.HasSuffix(payload, srcGot) {
				class = "to-source-head-missing"
			}
		case srcErr != io.EOF:
			class = "to-source-no-eof"
		case !bytes.Equal(crossGot, revData):
			class = "to-target-" + c10fDiff(crossGot, revData)
		case crossErr != io.EOF:
			class = "to-target-no-eof"
		}
		if class == "" {
			run.Count("cases_ok", 1)
			continue
		}
		det["source_received"], det["source_end"] = len(srcGot), fmt.Sprint(srcErr)
		det["target_received"], det["target_end"] = len(crossGot), fmt.Sprint(crossErr)
		det["target_write_error"], det["source_write_error"] = fmt.Sprint(werr), fmt.Sprint(rerr)
		run.Violation("C10:listener|"+class+"|seg="+seg, det)
		if run.Violations() >= 8 {
			break
		}
	}
	if run.Counter("watchdog") == 0 {
		run.Count("watchdog_free", 1)
	}
	run.Floor("watchdog_free", 1)
	run.Floor("cases_with_payload_in_handshake_write", int64(n/3))
	for _, s := range []string{"coalesced-head", "separate", "split-frame", "single-write"} {
		run.Floor("seg_"+s, int64(n/5*8/10))
	}
}

// TestVerifC10ListenerLongLived: tunnels through the real CrossNodeListener
// (Start()/acceptLoop) that stay open and carry bytes both ways again LATER in their
// life (quick: once at an age of 3.3 s, thorough: at 3.3 s, 7 s and 15 s). The clock only
// shapes the schedule (how old the connection is when the late bytes are written); the
// verdict is the byte comparison: everything written in either direction, early or
// late, arrives, and end-of-stream comes only after the writer's half-close.
func TestVerifC10ListenerLongLived(t *testing.T) {
	vk.Quiet()
	run := vk.Start(t, "C10", "listener-longlived")
	defer run.Finish()
	run.Rule("4 (thorough 8) tunnels accepted by the real CrossNodeListener, TargetReady frame with / without coalesced payload head; early exchange both ways, then further seeded chunks (1 B .. 100 KiB) both ways when the connection is >= 3.3 s old (thorough: also >= 7 s and >= 15 s), then half-close both ways; distinct = (tunnel, phase)")
	r := run.Rand("gen")
	ctx, cancel := context.WithCancel(context.Background())
	defer cancel()
	stor := storage.NewMemoryStorage(ctx)
	idm := idgen.NewIDManager(stor, ctx)
	defer idm.Close()
	sm := NewSessionManager(idm, ctx)
	defer sm.Close()
	l := NewCrossNodeListener(sm, 0)
	if err := l.Start(ctx); err != nil {
		t.Fatalf("c10: listener start: %v", err)
	}
	defer l.Stop()
	addr := fmt.Sprintf("127.0.0.1:%d", l.listener.Addr().(*net.TCPAddr).Port)
	ln, err := net.Listen("tcp", "127.0.0.1:0")
	if err != nil {
		t.Fatalf("c10: listen: %v", err)
	}
	defer ln.Close()

	ages := []time.Duration{3300 * time.Millisecond}
	if run.Thorough() {
		ages = append(ages, 7*time.Second, 15*time.Second)
	}
	maxAge := ages[len(ages)-1]
	type tun struct {
		idStr              string
		srcClient, cross   *net.TCPConn
		bridge             *TunnelBridge
		toSrc, toTarget    []byte // everything written so far in each direction
		srcSink, crossSink *c10fSink
		seedS, seedT       uint64
		werr               error
		opened             time.Time
		phases             int
	}
	nt := run.Pick(4, 8)
	var tuns []*tun
	write := func(tn *tun, toTarget bool, n int) {
		if tn.werr != nil {
			return
		}
		var c *net.TCPConn
		var p []byte
		if toTarget {
			p = vk.Pattern(tn.seedT, len(tn.toTarget), n)
			c = tn.srcClient
		} else {
			p = vk.Pattern(tn.seedS, len(tn.toSrc), n)
			c = tn.cross
		}
		for off := 0; off < len(p) && tn.werr == nil; {
			k := 1 + r.Intn(40000)
			if k > len(p)-off {
				k = len(p) - off
			}
			_, tn.werr = c.Write(p[off : off+k])
			off += k
		}
		if tn.werr == nil {
			if toTarget {
				tn.toTarget = append(tn.toTarget, p...)
			} else {
				tn.toSrc = append(tn.toSrc, p...)
			}
		}
	}
	for i := 0; i < nt; i++ {
		tn := &tun{idStr: c10lIDString(r), seedS: r.Uint64(), seedT: r.Uint64(), srcSink: c10fNewSink(), crossSink: c10fNewSink()}
		srcClient, srcServer := c10fPair(t, ln)
		srcServer.SetDeadline(time.Time{}) // the bridge's end: no harness deadline on it
		tn.srcClient = srcClient
		tn.bridge = NewTunnelBridge(ctx, &TunnelBridgeConfig{TunnelID: tn.idStr, MappingID: "c10-longlived", SourceConn: srcServer})
		sm.bridgeLock.Lock()
		sm.tunnelBridges[tn.idStr] = tn.bridge
		sm.bridgeLock.Unlock()
		c, err := net.DialTimeout("tcp", addr, 10*time.Second)
		if err != nil {
			t.Fatalf("c10: dial cross-node listener: %v", err)
		}
		tn.cross = c.(*net.TCPConn)
		dl := time.Now().Add(c10fWatchdog + maxAge)
		tn.cross.SetDeadline(dl)
		tn.srcClient.SetDeadline(dl)
		wireID, _ := TunnelIDFromString(tn.idStr)
		var frame bytes.Buffer
		if err := WriteFrameToWriter(&frame, wireID, FrameTypeTargetReady, EncodeTargetReadyMessage(tn.idStr, "c10-node-target")); err != nil {
			t.Fatalf("c10: encode TargetReady: %v", err)
		}
		first := frame.Bytes()
		if i%2 == 0 { // payload head in the same write as the handshake frame
			head := vk.Pattern(tn.seedS, 0, 1+r.Intn(3000))
			first = append(append([]byte(nil), first...), head...)
			tn.toSrc = append(tn.toSrc, head...)
		}
		_, tn.werr = tn.cross.Write(first)
		go tn.srcSink.run(tn.srcClient, rand.New(rand.NewSource(r.Int63())), 1<<30)
		go tn.crossSink.run(tn.cross, rand.New(rand.NewSource(r.Int63())), 1<<30)
		// early exchange: proves the tunnel is up (and that accept happened before "opened")
		write(tn, false, 1+r.Intn(50000))
		write(tn, true, 1+r.Intn(50000))
		tn.srcSink.waitFor(len(tn.toSrc))
		tn.crossSink.waitFor(len(tn.toTarget))
		tn.opened = time.Now()
		tuns = append(tuns, tn)
		run.Case(fmt.Sprintf("longlived|open|%d", i), map[string]any{"tunnel_id": tn.idStr})
	}
	for pi, age := range ages {
		for i, tn := range tuns {
			if d := age - time.Since(tn.opened); d > 0 {
				time.Sleep(d)
			}
			run.Case(fmt.Sprintf("longlived|late|%d|%v", i, age), nil)
			for k := 0; k < 2; k++ {
				write(tn, true, 1+r.Intn(100<<10))
				write(tn, false, 1+r.Intn(100<<10))
			}
			if tn.crossSink.waitFor(len(tn.toTarget)) && tn.srcSink.waitFor(len(tn.toSrc)) {
				tn.phases++
				run.Count(fmt.Sprintf("late_exchanges_completed_at_age_ms_%d", age.Milliseconds()), 1)
			}
			run.Max("max_tunnel_age_ms_at_a_late_write", time.Since(tn.opened).Milliseconds())
			run.Distinct(fmt.Sprintf("tunnel%d|phase%d", i, pi))
		}
	}
	for i, tn := range tuns {
		if tn.werr == nil {
			tn.werr = tn.srcClient.CloseWrite()
		}
		if tn.werr == nil {
			tn.werr = tn.cross.CloseWrite()
		}
		crossGot, crossErr := tn.crossSink.wait()
		srcGot, srcErr := tn.srcSink.wait()
		tn.cross.Close()
		tn.srcClient.Close()
		sm.bridgeLock.Lock()
		delete(sm.tunnelBridges, tn.idStr)
		sm.bridgeLock.Unlock()
		tn.bridge.Close()
		run.Eval(1)
		if c10fTimeout(tn.werr) || c10fTimeout(crossErr) || c10fTimeout(srcErr) {
			run.Count("watchdog", 1)
			continue
		}
		run.Count("bytes_compared", int64(len(crossGot)+len(srcGot)))
		class := ""
		switch {
		case !bytes.Equal(crossGot, tn.toTarget):
			class = "to-target-" + c10fDiff(crossGot, tn.toTarget)
		case tn.werr != nil:
			class = "write-refused"
		case crossErr != io.EOF:
			class = "to-target-no-eof"
		case !bytes.Equal(srcGot, tn.toSrc):
			class = "to-source-" + c10fDiff(srcGot, tn.toSrc)
		case srcErr != io.EOF:
			class = "to-source-no-eof"
		}
		if class == "" {
			run.Count("tunnels_ok", 1)
			continue
		}
		run.Violation("C10:listener|long-lived|"+class, map[string]any{"seed": run.Seed, "tunnel": i, "tunnel_id": tn.idStr,
			"late_phases_completed": tn.phases, "ages": fmt.Sprint(ages), "age_at_end_ms": time.Since(tn.opened).Milliseconds(),
			"to_target_written": len(tn.toTarget), "to_target_delivered": len(crossGot), "to_target_end": fmt.Sprint(crossErr),
			"to_source_written": len(tn.toSrc), "to_source_delivered": len(srcGot), "to_source_end": fmt.Sprint(srcErr), "write_error": fmt.Sprint(tn.werr)})
	}
	if run.Counter("watchdog") == 0 {
		run.Count("watchdog_free", 1)
	}
	run.Floor("watchdog_free", 1)
	run.Floor("max_tunnel_age_ms_at_a_late_write", maxAge.Milliseconds())
	run.Floor(fmt.Sprintf("late_exchanges_completed_at_age_ms_%d", ages[0].Milliseconds()), int64(nt))
}
